import Pyrealb.Model.Basic
/-! Model of the surface formatting of pyrealb (src/pyrealb/Constituent.py):

* `Constituent.doFormat` (283-355) — `removeEmpty`, [pronoun placement + elision = the opaque parameter `pre`],
  `poss`, `cap`, `tag`, `a`, `b`, `en`/`ba`, with `getBeforeAfterString` (lexicon `Pc` entry, `compl`, pc rule)
* `Constituent.titleCase` (360-369), `Constituent.detokenize` (371-409)
* the regexes `sepWordRE` (ConstituentEn.py:37 / ConstituentFr.py:46), `(.)( |(<[^>]+>))*$`, `[- ']$`, `[^dt]$`
  and `re.sub(r"(\w+).*", r"\1", …)` of `check_for_t` (ConstituentFr.py:134-148) as total functions on `Str`.

Everything is parametric in the punctuation tables (`Tables`) and in Python's case mapping / `\w` (`CaseMap`);
the shipped data is in `Model/FormatTables` (from `Gen/PunctRules`).  Texts are assumed free of `'\n'`
(`.` and `$` of the regexes treat it specially; the harness never generates it).
-/
namespace Pyrealb.Format

/-- Python's `str.upper`, `str.lower` on one character (single-character results only) and `\w` membership -/
structure CaseMap where
  upper : Char → Char
  lower : Char → Char
  isWord : Char → Bool

/-- a `punctuation` rule of rules-*.json: what is inserted before / after the sign -/
structure PcRule where
  b : Str
  a : Str
  deriving DecidableEq, Repr

/-- the `Pc` entry of a lexicon sign -/
structure PcEntry where
  compl : Option Str
  tab : List Str
  deriving DecidableEq, Repr

structure Tables where
  punct : List (Str × PcRule)
  lex : List (Str × PcEntry)

inductive Lang where
  | en | fr
  deriving DecidableEq, Repr

/-- what `detokenize`/`titleCase`/`check_for_t` ask about a terminal: `isA("V")`, `isA("Pro")`, `isA("C","P","D")` -/
inductive Cat where
  | verb | pron | minor | other
  deriving DecidableEq, Repr

structure Tok where
  real : Str
  lier : Bool := false
  cat : Cat := .other
  deriving DecidableEq, Repr

/-- the value of the `cap` property: absent, `False`, `True`, `"tit"`, `""` -/
inductive Cap where
  | absent | f | t | tit | empty
  deriving DecidableEq, Repr

/-! ### regexes -/

/-- `[^<\w'-]` : a character the first group of `sepWordRE` skips outside tags -/
def isSkip (cm : CaseMap) (c : Char) : Bool := c != '<' && !cm.isWord c && c != '\'' && c != '-'

/-- `[\w'-]` -/
def isWordish (cm : CaseMap) (c : Char) : Bool := cm.isWord c || c == '\'' || c == '-'

/-- after a `<`: at least one non-`>` character and then a `>` (so that `<[^>]+>` matches) -/
def closesTag : Str → Bool
  | [] => false
  | d :: r => d != '>' && r.contains '>'

/-- length of group 1 of `sepWordRE`, `((?:[^<\w'-]*(?:<[^>]+>)?)*)`: greedy, never backtracked into because the
    rest of the pattern (`([\w'-]+)?(.*)`) always matches.  `inTag`: inside a tag known to be closed. -/
def g1Len (cm : CaseMap) : Bool → Str → Nat
  | _, [] => 0
  | true, c :: r => if c = '>' then 1 + g1Len cm false r else 1 + g1Len cm true r
  | false, c :: r =>
    if isSkip cm c then 1 + g1Len cm false r
    else if c = '<' ∧ closesTag r = true then 1 + g1Len cm true r
    else 0

/-- `m = sepWordRE.match(s)`: `(len(m.group(1)), m.group(2))` -/
def sepWord (cm : CaseMap) (x : Str) : Nat × Option Str :=
  let i := g1Len cm false x
  let w := (x.drop i).takeWhile (isWordish cm)
  (i, if w.isEmpty then none else some w)

/-- `s[0:idx] + s[idx].upper() + s[idx+1:]` (for `idx < len(s)`; otherwise unchanged) -/
def upperAt (cm : CaseMap) (x : Str) (idx : Nat) : Str :=
  match x.drop idx with
  | [] => x
  | c :: r => x.take idx ++ cm.upper c :: r

/-- state of the matcher of `( |(<[^>]+>))*` -/
inductive TrailSt where
  | out | opened | inside | dead
  deriving DecidableEq, Repr

def trailStep : TrailSt → Char → TrailSt
  | .out, c => if c = ' ' then .out else if c = '<' then .opened else .dead
  | .opened, c => if c = '>' then .dead else .inside
  | .inside, c => if c = '>' then .out else .inside
  | .dead, _ => .dead

/-- the whole string is a sequence of spaces and tags `<[^>]+>` -/
def trailOK (x : Str) : Bool := x.foldl trailStep .out == .out

/-- `m = re.search(r"(.)( |(<[^>]+>))*$", s)` : `m.group(1)` (leftmost match) -/
def lastVis : Str → Option Char
  | [] => none
  | c :: r => if trailOK r then some c else lastVis r

/-- the set of `m.group(1) not in "?!.:;/)]}"` -/
def marks : Str := ['?', '!', '.', ':', ';', '/', ')', ']', '}']

/-- `re.search(r"[- ']$", x)` -/
def endsSep (x : Str) : Bool :=
  match x.getLast? with
  | some c => c == '-' || c == ' ' || c == '\''
  | none => false

/-- `if x.startswith(" "): x = x[1:]` -/
def stripLead : Str → Str
  | ' ' :: r => r
  | x => x

/-! ### titleCase, check_for_t, detokenize -/

/-- `titleCase(t)`: a token without a word is left alone (`if word is None: return`) -/
def titleCase (cm : CaseMap) (t : Tok) : Except Crash Tok :=
  match sepWord cm t.real with
  | (_, none) => .ok t
  | (idx, some w) =>
    if w.length ≥ 4 ∨ t.cat ≠ .minor then .ok { t with real := upperAt cm t.real idx } else .ok t

def subjPron : List Str := [['i', 'l'], ['e', 'l', 'l', 'e'], ['o', 'n']]

/-- `check_for_t(terminals, i)` : (possibly modified realization of terminal i, the returned string).
    `r` = realization of terminal i, `c` its category, `nxt` = terminal i+1 (untouched so far). -/
def checkForT (cm : CaseMap) (lang : Lang) (r : Str) (c : Cat) (nxt : Tok) : Str × Str :=
  match lang with
  | .en => (r, [])
  | .fr =>
    if c = .verb ∧ nxt.cat = .pron then
      let notDT := match r.getLast? with
        | some l => l != 'd' && l != 't'
        | none => false
      if notDT = true ∧ nxt.real.takeWhile cm.isWord ∈ subjPron then (r, ['t', '-'])
      else if r = ['p', 'e', 'u', 'x'] ∧ nxt.real = ['j', 'e'] then (['p', 'u', 'i', 's'], [])
      else (r, [])
    else (r, [])

/-- the body of the loop of `detokenize` for terminal `t` followed by `nxt`: what is appended to `s` -/
def chunk (cm : CaseMap) (lang : Lang) (t nxt : Tok) : Str :=
  let r := stripLead t.real
  if t.lier then
    let (r', lia) := checkForT cm lang r t.cat nxt
    r' ++ '-' :: lia
  else if endsSep r then r
  else if r.length > 0 then r ++ [' ']
  else []

/-- lines 373-392: the joined string before capitalization / full stop -/
def joinToks (cm : CaseMap) (lang : Lang) (tit : Bool) : List Tok → Except Crash Str
  | [] => .ok []
  | [t] => do
    let t ← if tit then titleCase cm t else pure t
    pure (stripLead t.real)
  | t :: t2 :: rest => do
    let t ← if tit then titleCase cm t else pure t
    let tail ← joinToks cm lang tit (t2 :: rest)
    pure (chunk cm lang t t2 ++ tail)

structure DetokCfg where
  lang : Lang
  cap : Cap
  /-- `self.parentConst is None` and `self` is an `S`, a `root`, or a `coord` whose first dependent is a `root` -/
  top : Bool
  /-- `"tag" in self.props` (and not `False`) -/
  tagged : Bool

/-- lines 394-408 -/
def finish (cm : CaseMap) (cfg : DetokCfg) (x : Str) : Str :=
  if cfg.top ∧ x.length > 0 then
    if cfg.cap = .absent ∨ cfg.cap = .t ∨ cfg.cap = .tit then
      let x := upperAt cm x (sepWord cm x).1
      if ¬ cfg.tagged then
        match lastVis x with
        | some c => if marks.contains c then x else x ++ ['.', ' ']
        | none => x
      else x
    else x
  else x

def detokenize (cm : CaseMap) (cfg : DetokCfg) (toks : List Tok) : Except Crash Str :=
  match toks with
  | [] => .ok []
  | _ => do
    let x ← joinToks cm cfg.lang (cfg.lang = .en ∧ cfg.cap = .tit) toks
    pure (finish cm cfg x)

/-! ### doFormat -/

/-- `getBeforeAfterString(punct)` : `(ba["b"], ba["a"])` -/
def getBA (tb : Tables) (sign : Str) : Except Crash (Str × Str) :=
  match lookup sign tb.lex with
  | none => .ok (sign, sign)
  | some e =>
    match e.compl with
    | some compl => do
      let tabBefore ← match e.tab with
        | [] => .error .indexError
        | t :: _ => pure t
      let tabAfter ← match e.tab with
        | [_, t1] => pure t1
        | _ => match lookup compl tb.lex with
          | none => .error .keyError
          | some ce => match ce.tab with
            | [] => .error .indexError
            | t :: _ => pure t
      let rb ← match lookup tabBefore tb.punct with
        | none => .error .keyError
        | some r => pure r
      let ra ← match lookup tabAfter tb.punct with
        | none => .error .keyError
        | some r => pure r
      pure (rb.b ++ sign ++ rb.a, ra.b ++ compl ++ ra.a)
    | none => do
      let tab ← match e.tab with
        | [] => .error .indexError
        | t :: _ => pure t
      let r ← match lookup tab tb.punct with
        | none => .error .keyError
        | some r => pure r
      let p := r.b ++ sign ++ r.a
      pure (p, p)

def modFirst (f : Str → Str) : List Tok → List Tok
  | [] => []
  | t :: r => { t with real := f t.real } :: r

def modLast (f : Str → Str) : List Tok → List Tok
  | [] => []
  | [t] => [{ t with real := f t.real }]
  | t :: r => t :: modLast f r

/-- `wrapWith(before, after)`: `cList[0]` / `cList[-1]` raise `IndexError` on an empty list -/
def wrapWith (before after : Str) (l : List Tok) : Except Crash (List Tok) :=
  match l with
  | [] => .error .indexError
  | _ => .ok (modLast (· ++ after) (modFirst (before ++ ·) l))

/-- `removeEmpty(cList)` -/
def removeEmpty : List Tok → List Tok
  | [] => []
  | [t] => [t]
  | t :: t2 :: r =>
    if t.real = [] then removeEmpty (t2 :: r) else t :: (t2 :: r).filter (fun u => u.real ≠ [])

/-- `startTag(tagName, attrs)` -/
def startTag (name : Str) (attrs : List (Str × Str)) : Str :=
  '<' :: name ++ (attrs.map (fun kv => ' ' :: kv.1 ++ ['=', '"'] ++ kv.2 ++ ['"'])).flatten ++ ['>']

def endTag (name : Str) : Str := '<' :: '/' :: name ++ ['>']

/-- lines 335-338: `idx=len(sepWordRE.match(r).group(1)); if idx<len(r): r=r[0:idx]+r[idx].upper()+r[idx+1:]` -/
def capFirst (cm : CaseMap) (r : Str) : Str := upperAt cm r (sepWord cm r).1

/-- `x += "'" if x.endswith("s") else "'s"` -/
def addPoss (x : Str) : Str := if endsWith x ['s'] then x ++ ['\''] else x ++ ['\'', 's']

structure Opts where
  /-- truth value of `getProp("poss")` -/
  poss : Bool := false
  cap : Cap := .absent
  /-- `props["tag"]` when present: `[name, attrs]` pairs in call order -/
  tags : Option (List (Str × List (Str × Str))) := none
  a : Option (List Str) := none
  b : Option (List Str) := none
  en : Option (List Str) := none
  ba : Option (List Str) := none

def optList {α} : Option (List α) → List α
  | none => []
  | some l => l

def applyTags : List (Str × List (Str × Str)) → List Tok → Except Crash (List Tok)
  | [], l => .ok l
  | (n, attrs) :: r, l => do
    let l ← wrapWith (startTag n attrs) (endTag n) l
    applyTags r l

def applyA (tb : Tables) : List Str → List Tok → Except Crash (List Tok)
  | [], l => .ok l
  | x :: r, l => do
    let ba ← getBA tb x
    let l ← wrapWith [] ba.1 l
    applyA tb r l

def applyB (tb : Tables) : List Str → List Tok → Except Crash (List Tok)
  | [], l => .ok l
  | x :: r, l => do
    let ba ← getBA tb x
    let l ← wrapWith ba.1 [] l
    applyB tb r l

def applyEn (tb : Tables) : List Str → List Tok → Except Crash (List Tok)
  | [], l => .ok l
  | x :: r, l => do
    let ba ← getBA tb x
    let l ← wrapWith ba.1 ba.2 l
    applyEn tb r l

/-- lines 331-332: `if self.getProp("poss"): cList[-1].realization += …` -/
def possStep (o : Opts) (l : List Tok) : Except Crash (List Tok) :=
  if o.poss then
    match l with
    | [] => .error .indexError
    | _ => .ok (modLast addPoss l)
  else .ok l

/-- lines 334-338: `if self.getProp("cap") == True:` upper-case the first letter of `cList[0]` -/
def capStep (cm : CaseMap) (o : Opts) (l : List Tok) : Except Crash (List Tok) :=
  if o.cap = .t then
    match l with
    | [] => .error .indexError
    | _ => .ok (modFirst (capFirst cm) l)
  else .ok l

/-- line 350: `ens = self.props["en"] if "en" in self.props else self.props["ba"]` -/
def ensOf (o : Opts) : List Str :=
  match o.en with
  | some e => e
  | none => optList o.ba

/-- lines 331-355, on the list that `removeEmpty`, `doPronounPlacement` and `doElision` left -/
def formatCore (tb : Tables) (cm : CaseMap) (o : Opts) (l : List Tok) : Except Crash (List Tok) :=
  possStep o l >>= fun l =>
  capStep cm o l >>= fun l =>
  applyTags (optList o.tags) l >>= fun l =>
  applyA tb (optList o.a) l >>= fun l =>
  applyB tb (optList o.b) l >>= fun l =>
  applyEn tb (ensOf o) l

/-- `doFormat(cList)`; `pre` stands for `doPronounPlacement` followed by `doElision` (owned by C06) -/
def doFormat (tb : Tables) (cm : CaseMap) (o : Opts) (pre : List Tok → List Tok) (toks : List Tok) :
    Except Crash (List Tok) :=
  match removeEmpty toks with
  | [] => .ok []                       -- `if len(cList)==0: return cList`
  | l => formatCore tb cm o (pre l)

/-! ### the tree fold of realization (formatting part only) -/

mutual
  /-- a constituent as the formatter sees it: a terminal with its realization, or a phrase with children -/
  inductive Tree where
    | leaf (t : Tok) (o : Opts)
    | node (o : Opts) (kids : Forest)
  inductive Forest where
    | nil
    | cons (t : Tree) (f : Forest)
end

mutual
  /-- `real()` restricted to formatting: children left to right, then `doFormat` (elision = identity) -/
  def Tree.real (tb : Tables) (cm : CaseMap) : Tree → Except Crash (List Tok)
    | .leaf t o => doFormat tb cm o id [t]
    | .node _ .nil => .ok []          -- Phrase.real: `if len(self.elements)==0: return []` (no doFormat)
    | .node o kids => do
      let l ← kids.real tb cm
      doFormat tb cm o id l
  def Forest.real (tb : Tables) (cm : CaseMap) : Forest → Except Crash (List Tok)
    | .nil => .ok []
    | .cons t f => do
      let a ← t.real tb cm
      let b ← f.real tb cm
      pure (a ++ b)
end

end Pyrealb.Format
