import Pyrealb.Gen.Sites
/-! Model of language resolution at lookup sites (C15).

Every lexicon/rules lookup and every constituent created on behalf of a constituent `c` passes a language
expression of one of four kinds (inventory `Gen/Sites.langSites`, regenerated from the source):
`self` (`self.lang()`), `literal`, `param` (a value handed down by the caller) or `absent`/`current`
(= the language current at that moment decides). -/
namespace Pyrealb.LangSites
open Pyrealb.Gen.Sites

inductive Lang where
  | en | fr
  deriving DecidableEq, Repr

inductive Ref where
  | self | lit (l : Lang) | param | current
  deriving DecidableEq, Repr

/-- language used by a site, given the current language, the constituent's own language and the value of the
    parameter handed down by the caller -/
def resolve (cur own par : Lang) : Ref → Lang
  | .self => own
  | .lit l => l
  | .param => par
  | .current => cur

structure Site where
  callee : String
  ref : Ref

/-- executing the lookup sites of a function body: each site consults resource `callee` in its resolved language;
    `look` is the lexicon/rules content, arbitrary -/
def runSites {V} (look : String → Lang → V) (cur own par : Lang) (sites : List Site) : List V :=
  sites.map (fun s => look s.callee (resolve cur own par s.ref))

/-- the kind strings of the generated inventory that mean "the current language decides" -/
def isCurrentKind (k : String) : Bool := k = "absent" || k = "current"

/-- functions in which a current-language lookup is legitimate, with the reason:
    * definitional: the factories resolve `lang=None` to the language current AT CREATION (that is the property's
      definition of a constituent's language) and the `Lexicon` accessors implement the default itself;
    * converters between notations and the lemmatizer (not part of realization; they document that they work in
      the current language), `load` (its bad-language warning);
    * warning sentences are realized by the library in the current language by design. -/
def exemptFunctions : List String := [
  -- definitional
  "terminal", "phrase", "dep", "fromJSON", "getLexicon", "getRules", "Lexicon.getLexicalInfo", "load",
  -- notation converters and lemmatizer (not part of realization)
  -- (their private helpers build_phrase / makeDep … are derived: `Gen.Sites.derivedExempt`, checked by `derivedOK`)
  "Dependent.toConstituent", "Phrase.toDependent", "Terminal.toDependent",
  "addLemma", "buildLemmataMap", "expandConjugation", "jsrExpInit",
  -- warning sentences
  "ConstituentEn.warning", "ConstituentFr.warning",
  -- unused helper (no caller in the library)
  "Constituent.getParentLang"]

/-- last segment of a qualified function name (the call graph is name-based) -/
def lastSeg : List Char → List Char → List Char
  | [], acc => acc.reverse
  | c :: cs, acc => if c = '.' then lastSeg cs [] else lastSeg cs (c :: acc)

def bareName (f : String) : String := String.ofList (lastSeg f.toList [])

/-- the functions that call `f` according to the name-based call graph, `f` itself apart -/
def callersOf (g : List (String × String)) (f : String) : List String :=
  ((g.filter (fun p => p.2 == bareName f)).map (·.1)).filter (fun c => c != f)

/-- a private helper is exempt when it is reachable only from exempt functions: all its callers are exempt roots or
    helpers listed BEFORE it (so the justification is well founded).  `Gen.Sites.derivedExempt` is the certificate the
    translator computes; this is its check. -/
def derivedOK (g : List (String × String)) (roots : List String) : List String → List String → Bool
  | _, [] => true
  | before, f :: rest =>
    (!(callersOf g f).isEmpty && (callersOf g f).all (fun c => roots.contains c || before.contains c)) &&
      derivedOK g roots (before ++ [f]) rest

/-- exempt = an exempt root or a certified private helper of exempt functions -/
def isExempt (f : String) : Bool := exemptFunctions.contains f || derivedExempt.contains f

end Pyrealb.LangSites
