import Pyrealb.Gen.Sites
/-! Model of language resolution at lookup sites (C15).

Every lexicon/rules lookup and every constituent created on behalf of a constituent `c` passes a language
expression of one of four kinds (inventory `Gen/Sites.langSites`, regenerated from the source):
`self` (`self.lang()`), `literal`, `param` (a value handed down by the caller) or `absent`/`current`
(= the language current at that moment decides). -/
namespace Pyrealb.LangSites
open Pyrealb.Gen.Sites

inductive Lang where
  | en | fr
  deriving DecidableEq, Repr

inductive Ref where
  | self | lit (l : Lang) | param | current
  deriving DecidableEq, Repr

/-- language used by a site, given the current language, the constituent's own language and the value of the
    parameter handed down by the caller -/
def resolve (cur own par : Lang) : Ref → Lang
  | .self => own
  | .lit l => l
  | .param => par
  | .current => cur

structure Site where
  callee : String
  ref : Ref

/-- executing the lookup sites of a function body: each site consults resource `callee` in its resolved language;
    `look` is the lexicon/rules content, arbitrary -/
def runSites {V} (look : String → Lang → V) (cur own par : Lang) (sites : List Site) : List V :=
  sites.map (fun s => look s.callee (resolve cur own par s.ref))

/-- the kind strings of the generated inventory that mean "the current language decides" -/
def isCurrentKind (k : String) : Bool := k = "absent" || k = "current"

/-- functions in which a current-language lookup is legitimate, with the reason:
    * definitional: the factories resolve `lang=None` to the language current AT CREATION (that is the property's
      definition of a constituent's language) and the `Lexicon` accessors implement the default itself;
    * converters between notations and the lemmatizer (not part of realization; they document that they work in
      the current language), `load` (its bad-language warning);
    * warning sentences are realized by the library in the current language by design. -/
def exemptFunctions : List String := [
  -- definitional
  "terminal", "phrase", "dep", "fromJSON", "getLexicon", "getRules", "Lexicon.getLexicalInfo", "load",
  -- notation converters and lemmatizer (not part of realization)
  "Dependent.toConstituent", "Dependent.toConstituent.build_phrase", "Phrase.toDependent", "Phrase.toDependent.makeDep",
  "Terminal.toDependent",
  "addLemma", "buildLemmataMap", "expandConjugation", "jsrExpInit",
  -- warning sentences
  "ConstituentEn.warning", "ConstituentFr.warning", "ConstituentEn.warning.makeDisj", "ConstituentFr.warning.makeDisj",
  -- unused helper (no caller in the library)
  "Constituent.getParentLang"]

end Pyrealb.LangSites
