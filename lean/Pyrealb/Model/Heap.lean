import Pyrealb.Model.HeapVal
import Pyrealb.Model.Typ
/-! # The construction-time object graph of pyrealb ("store")

Nodes are addressed by integer handles (`0 … n-1`, in creation order).  A node is a Terminal, a Phrase or a
Dependent.  The shared person-number-gender record `peng` and tense-auxiliary record `taux` of the Python objects
are store cells WITH IDENTITY: `peng x : Option Nat` is `none` when the Python object has no attribute `peng`,
and `some r` when `x.peng is` the record number `r`; two nodes share a record iff the numbers are equal.

API used by the later properties (C03 agreement, C13 clones):
* `Heap` (this file): `node`, `peng`, `taux`, `prec`, `trec`, `cod`, `subject`, `getProp`, `setProp`;
* `Act` / `exec` (this file): a `linkProperties` run is the list of assignments it performs (`Model/HeapLink`
  computes that list from the tree: `plan`), executed by `exec`;
* `Model/HeapOps`: the operations `mkTerminal/mkPhrase/mkDep/add/opt/typ`, histories, and the abstraction `abs`.
-/
namespace Pyrealb.Heap
open Pyrealb

export Pyrealb.Typ (Lang)

/-- `constType` -/
inductive Kind where
  | N | A | Pro | D | Adv | V | P | C | DT | NO | Q          -- Terminal
  | NP | AP | AdvP | VP | PP | CP | S | SP                   -- Phrase
  | root | subj | det | mod | comp | coord                   -- Dependent
  deriving DecidableEq, Repr, Inhabited

namespace Kind
def isTerminal : Kind → Bool
  | N | A | Pro | D | Adv | V | P | C | DT | NO | Q => true
  | _ => false
def isPhrase : Kind → Bool
  | NP | AP | AdvP | VP | PP | CP | S | SP => true
  | _ => false
def isDep : Kind → Bool
  | root | subj | det | mod | comp | coord => true
  | _ => false
/-- `Constituent.initProps`: the terminals that get a `peng` record -/
def hasPengInit : Kind → Bool
  | N | A | D | V | NO | Pro | Q | DT => true
  | _ => false
def name : Kind → String
  | N => "N" | A => "A" | Pro => "Pro" | D => "D" | Adv => "Adv" | V => "V" | P => "P" | C => "C" | DT => "DT"
  | NO => "NO" | Q => "Q" | NP => "NP" | AP => "AP" | AdvP => "AdvP" | VP => "VP" | PP => "PP" | CP => "CP"
  | S => "S" | SP => "SP" | root => "root" | subj => "subj" | det => "det" | mod => "mod" | comp => "comp"
  | coord => "coord"
def all : List Kind := [N, A, Pro, D, Adv, V, P, C, DT, NO, Q, NP, AP, AdvP, VP, PP, CP, S, SP,
  root, subj, det, mod, comp, coord]
def ofName (x : String) : Option Kind := all.find? (fun k => k.name == x)
end Kind

/-- a node of the object graph (everything except the two shared-record pointers) -/
structure Node where
  kind : Kind := .Q
  lang : Lang := .en               -- which language class the object belongs to (PhraseEn / PhraseFr …)
  lemma : Str := []                -- Terminal.lemma
  kids : List Nat := []            -- Phrase.elements / Dependent.dependents
  term : Option Nat := none        -- Dependent.terminal
  parent : Option Nat := none      -- parentConst
  props : Dict := []               -- own props (scalar ones)
  typ : Option Dict := none        -- props["typ"]
  gram0 : Val := .none             -- NO: value-based result of grammaticalNumber (input of `mkTerminal`)
  ord : Bool := false              -- NO: props["dOpt"]["ord"]
  deriving Repr, Inhabited

/-- the shared `peng` record: a missing key is `none`; a key holding `None` is `some Val.none` -/
structure PRec where
  pe : Option Val := none
  n : Option Val := none
  g : Option Val := none
  deriving DecidableEq, Repr, Inhabited

/-- the shared `taux` record -/
structure TRec where
  t : Option Val := none
  aux : Option Val := none
  deriving DecidableEq, Repr, Inhabited

/-- the store -/
structure Heap where
  n : Nat := 0                                   -- number of nodes
  node : Nat → Node := fun _ => {}
  peng : Nat → Option Nat := fun _ => none       -- `x.peng` : identity of the record, `none` = no attribute
  taux : Nat → Option Nat := fun _ => none
  prec : Nat → PRec := fun _ => {}
  trec : Nat → TRec := fun _ => {}
  nRec : Nat := 0                                -- next fresh `peng` record
  nTRec : Nat := 0
  cod : Nat → Option Nat := fun _ => none        -- French `v.cod`
  subject : Nat → Option (Option Nat) := fun _ => none   -- `self.subject` of S/SP: missing / None / a node
  warns : Nat := 0                               -- number of warnings issued so far

instance : Inhabited Heap := ⟨{}⟩

/-- identity of the `peng` record number `k` allocated from the counter `nRec` (terminals, clones) -/
def ownRec (k : Nat) : Nat := 2 * k
/-- identity of the `peng` record that `linkProperties` creates for the CP / coord node `x` (at most one per node: it is
    created only when the node has none).  The two families are disjoint; which numbers name the records is not observable
    (only the partition of the nodes by shared record is compared with the Python objects), and this choice makes the
    record of a node independent of what happened to OTHER trees in between (C13). -/
def freshRec (x : Nat) : Nat := 2 * x + 1

/-- function update -/
def upd {β} (f : Nat → β) (k : Nat) (v : β) : Nat → β := fun i => if i = k then v else f i

@[simp] theorem upd_same {β} (f : Nat → β) (k : Nat) (v : β) : upd f k v k = v := by simp [upd]
@[simp] theorem upd_other {β} (f : Nat → β) (k i : Nat) (v : β) (h : i ≠ k) : upd f k v i = f i := by
  simp [upd, h]

namespace Heap

def kind (h : Heap) (x : Nat) : Kind := (h.node x).kind
def kids (h : Heap) (x : Nat) : List Nat := (h.node x).kids
def isA (h : Heap) (x : Nat) (ks : List Kind) : Bool := ks.contains (h.kind x)

def setNode (h : Heap) (x : Nat) (nd : Node) : Heap := { h with node := upd h.node x nd }
def warn (h : Heap) (k : Nat := 1) : Heap := { h with warns := h.warns + k }

def tKey : Str := ['t']
def auxKey : Str := ['a','u','x']
def peKey : Str := ['p','e']
def nKey : Str := ['n']
def gKey : Str := ['g']

/-- `Constituent.getProp` (Constituent.py:43-52) -/
def getProp (h : Heap) (x : Nat) (k : Str) : Val :=
  match lookup k (h.node x).props with
  | some v => v
  | none =>
    if k = peKey ∨ k = nKey ∨ k = gKey then
      match h.peng x with
      | none => .none
      | some r =>
        let f := if k = peKey then (h.prec r).pe else if k = nKey then (h.prec r).n else (h.prec r).g
        f.getD .none
    else if k = tKey ∨ k = auxKey then
      match h.taux x with
      | none => .none
      | some r => (if k = tKey then (h.trec r).t else (h.trec r).aux).getD .none
    else .none

/-- `if propName in ["pe","n","g"] and hasattr(self,"peng") …: self.peng[propName]=val` -/
def writePeng (h : Heap) (x : Nat) (k : Str) (v : Val) : Heap :=
  if k = peKey ∨ k = nKey ∨ k = gKey then
    match h.peng x with
    | none => h
    | some r =>
      let c := h.prec r
      let c' := if k = peKey then { c with pe := some v } else if k = nKey then { c with n := some v }
                else { c with g := some v }
      { h with prec := upd h.prec r c' }
  else h

/-- `if propName in ["t","aux"] and hasattr(self,"taux") …: self.taux[propName]=val` -/
def writeTaux (h : Heap) (x : Nat) (k : Str) (v : Val) : Heap :=
  if k = tKey ∨ k = auxKey then
    match h.taux x with
    | none => h
    | some r =>
      let c := h.trec r
      let c' := if k = tKey then { c with t := some v } else { c with aux := some v }
      { h with trec := upd h.trec r c' }
  else h

/-- `Constituent.setProp(propName,val)` with `inSetLemma=False` (Constituent.py:62-70) -/
def setProp (h : Heap) (x : Nat) (k : Str) (v : Val) : Heap :=
  let h2 := (h.writePeng x k v).writeTaux x k v
  h2.setNode x { h2.node x with props := Dict.set (h2.node x).props k v }

end Heap

/-! ## The assignments performed by one `linkProperties` run

`Model/HeapLink.plan` lists, in program order, the assignments the Python code performs; every read is a read of
the CURRENT state, exactly as in the Python statements (`self.peng = head.peng; e.peng = self.peng`).
(`Lemmas/HeapResolve` proves that the same run can be executed with every source read in the state BEFORE the run,
after a symbolic resolution of the chains — the form used by the confluence proofs.) -/

inductive Act where
  /-- `x.peng = y.peng`; `strict`: `AttributeError` when `y` has no `peng`, else (the statement is under
      `if hasattr(y,"peng")`) skipped -/
  | setPeng (strict : Bool) (x y : Nat)
  /-- `x.taux = y.taux` -/
  | setTaux (strict : Bool) (x y : Nat)
  /-- `y.peng["n"] = v` -/
  | writeN (strict : Bool) (y : Nat) (v : Val)
  /-- `t.peng["g"] = y.peng["g"]` (`KeyError` when the record of `y` has no `g`) -/
  | copyG (strict : Bool) (t y : Nat)
  /-- `x.peng = {}` a new record (`ifNone`: only when `x` has no `peng`) -/
  | fresh (x : Nat) (ifNone : Bool)
  /-- `x.cod = y` -/
  | setCod (x y : Nat)
  /-- `x.subject = y` -/
  | setSubject (x : Nat) (y : Option Nat)
  /-- `Terminal.morphoError`: a warning, and `x.constType = "Q"` -/
  | morphoError (x : Nat)
  /-- `if hasattr(o,"peng"):` around ALL the remaining assignments: the run ends here when `o` has no `peng` -/
  | guardHas (o : Nat)
  /-- raise -/
  | crash (c : Crash)
  deriving DecidableEq, Repr

/-- one assignment -/
def step (st : Heap) : Act → Except Crash Heap
  | .setPeng strict x y =>
    match st.peng y with
    | some r => .ok { st with peng := upd st.peng x (some r) }
    | none => if strict then .error .attributeError else .ok st
  | .setTaux strict x y =>
    match st.taux y with
    | some r => .ok { st with taux := upd st.taux x (some r) }
    | none => if strict then .error .attributeError else .ok st
  | .writeN strict y v =>
    match st.peng y with
    | some r => .ok { st with prec := upd st.prec r { st.prec r with n := some v } }
    | none => if strict then .error .attributeError else .ok st
  | .copyG strict t y =>
    match st.peng y with
    | none => if strict then .error .attributeError else .ok st
    | some r =>
      match (st.prec r).g with
      | none => .error .keyError
      | some gv =>
        match st.peng t with
        | none => .error .attributeError
        | some rt => .ok { st with prec := upd st.prec rt { st.prec rt with g := some gv } }
  | .fresh x ifNone =>
    if ifNone && (st.peng x).isSome then .ok st
    else
      let r := freshRec x
      .ok { st with peng := upd st.peng x (some r), prec := upd st.prec r {} }
  | .setCod x y => .ok { st with cod := upd st.cod x (some y) }
  | .setSubject x y => .ok { st with subject := upd st.subject x (some y) }
  | .morphoError x =>
    let nd := st.node x
    .ok ({ st with node := upd st.node x { nd with kind := .Q } }).warn
  | .guardHas _ => .ok st
  | .crash c => .error c

/-- does the run end (successfully) at this point?  `guardHas o` with `o` lacking a `peng` -/
def Act.stops (peng : Nat → Option Nat) : Act → Bool
  | .guardHas o => (peng o).isNone
  | _ => false

/-- execute the assignments of one `linkProperties` run -/
def exec : Heap → List Act → Except Crash Heap
  | st, [] => .ok st
  | st, a :: as =>
    if a.stops st.peng then .ok st
    else
    match step st a with
    | .error c => .error c
    | .ok st' => exec st' as

end Pyrealb.Heap
