import Pyrealb.Model.Basic
/-! Shapes of the data the French clause model is parametric in (filled by `Gen/ClauseFrConsts`, generated from
    rules-fr.json / lexicon-fr.json, and by the driver for verbs outside the generated panel). -/
namespace Pyrealb.ClauseFr

/-- one row of a `declension` table of rules-fr.json (only the keys the pronoun tables use) -/
structure DeclRow where
  val : Str
  pe : Option Nat
  g : Option Str
  n : Option Str
  c : Option Str
  tn : Option Str
  deriving DecidableEq, Repr

/-- the `pp` entry of a conjugation table: 115 tables have the four forms, 24 a bare string (indexed by
    character!), 7 `null` -/
inductive PPCell where
  | none
  | str (x : Str)
  | list (l : List (Option Str))
  deriving DecidableEq, Repr

/-- what the clause pipeline reads of a verb: lexicon entry (`aux`, `pat`) and its conjugation table -/
structure VerbLex where
  lemma : Str
  /-- "av" | "êt" | "aê" -/
  aux : Str
  /-- `pat` of the lexicon entry; `none` = key absent (12 verbs) -/
  pat : Option (List Str)
  /-- `self.tab is not None` -/
  hasTab : Bool
  ending : Str
  p : List (Option Str)
  i : List (Option Str)
  f : List (Option Str)
  ps : List (Option Str)
  c : List (Option Str)
  s : List (Option Str)
  si : List (Option Str)
  ip : List (Option Str)
  b : Option Str
  pr : Option Str
  pp : PPCell
  deriving DecidableEq, Repr

end Pyrealb.ClauseFr
