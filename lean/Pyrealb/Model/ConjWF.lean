import Pyrealb.Model.ConjEn
import Pyrealb.Model.ConjFr
/-! # Well-formedness of conjugation data (decidable; hypotheses of the C01 theorems)

`wfTableEn`/`wfTableFr` describe the shape of a table that the conjugation code is written for; they are PROVED of
every table in use by `decide +kernel` over the generated tables (`Props/C01`), and `wfVerbEn`/`wfVerbFr` are
evaluated by the compiled driver on every verb entry of the real lexicons on every run (op `sweep`). -/
namespace Pyrealb.Conj
open Pyrealb

def Row.isStr : Row → Bool
  | .str _ => true
  | _ => false

def Row.isListOf (k : Nat) : Row → Bool
  | .list l => l.length == k
  | _ => false

def Row.isNull : Row → Bool
  | .null => true
  | _ => false

/-- English: rows among `b p ps pp pr`; `b pp pr` strings; `p ps` a string or six cells -/
def wfRowEn (code : Str) (r : Row) : Bool :=
  match Tense.ofCode? code with
  | some .b | some .pp | some .pr => r.isStr
  | some .p | some .ps => r.isStr || r.isListOf 6
  | _ => false

def wfTableEn (tb : Table) : Bool :=
  tb.hasT && tb.rows.all (fun kr => wfRowEn kr.1 kr.2)

/-- French: the eight finite rows have six cells, `pp` four cells, `pr` a string or null, `b` a string -/
def wfRowFr (code : Str) (r : Row) : Bool :=
  match Tense.ofCode? code with
  | some .p | some .i | some .f | some .ps | some .c | some .s | some .si | some .ip => r.isListOf 6
  | some .pp => r.isListOf 4
  | some .pr => r.isStr || r.isNull
  | some .b => r.isStr
  | _ => false

def frRowCodes : List Tense := [.p, .i, .f, .ps, .c, .s, .si, .ip, .pr, .pp, .b]

def wfTableFr (tb : Table) : Bool :=
  tb.hasT && tb.rows.all (fun kr => wfRowFr kr.1 kr.2) &&
  frRowCodes.all (fun t => (tb.row? t.code).isSome)

/-- the verb's table exists, is well formed, and the lemma ends with the table's ending -/
def wfVerb (wfTable : Table → Bool) (rules : Rules) (v : Verb) : Bool :=
  match lookup v.tab rules with
  | some tb => wfTable tb && endsWith v.lemma tb.ending
  | none => false

def wfVerbEn := wfVerb wfTableEn
def wfVerbFr := wfVerb wfTableFr

/-- why a verb entry is not well formed (reported by the driver's sweep) -/
def wfReason (wfTable : Table → Bool) (rules : Rules) (v : Verb) : String :=
  match lookup v.tab rules with
  | none => "table-missing"
  | some tb => if !(wfTable tb) then "table-shape" else if !(endsWith v.lemma tb.ending) then "ending-not-suffix" else "ok"

end Pyrealb.Conj
