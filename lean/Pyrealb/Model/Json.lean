import Pyrealb.Model.Expr
/-! # `toJSON` / `fromJSON` and a JSON printer / reader

* `toJSON` : Terminal.py:485-492, Phrase.py:574-582, Dependent.py:513-523, Constituent.addJSONprops (458-462)
* `fromJSON` : utils.py:100-134, Terminal.fromJSON, Phrase.fromJSON, Dependent.fromJSON, Constituent.setJSONprops (464-478)
* `printJ` / `readJ` stand for `json.dumps` / `json.loads` on the value shapes that occur (objects, arrays, strings,
  integers, booleans, null); floats never occur; `dumps` is modelled with `ensure_ascii=False` (assumption A_ascii: the
  `\uXXXX` escaping that the default `ensure_ascii=True` adds is inverted by `loads`). -/
namespace Pyrealb.Expr
open Pyrealb

/-- a Python structure as `toJSON` builds it; `dt` = a `datetime` object inside it (`json.dumps` raises TypeError) -/
inductive JVal where
  | null
  | bool (b : Bool)
  | int (i : Int)
  | str (x : Str)
  | arr (l : List JVal)
  | obj (kv : List (Str × JVal))
  | dt (y mo d h mi sec : Nat)
  deriving Repr, Inhabited

def jsonSkip : List Str := Gen.OptionTable.jsonSkip.map String.toList
def jsonAlias : List (Str × Str) := Gen.OptionTable.jsonAlias.map (fun p => (p.1.toList, p.2.toList))
def jsonPhraseKinds : List Str := Gen.OptionTable.jsonPhraseKinds.map String.toList
def jsonDepKinds : List Str := Gen.OptionTable.jsonDepKinds.map String.toList
def jsonTermKinds : List Str := Gen.OptionTable.jsonTermKinds.map String.toList

def atomJ : Atom → JVal
  | .none => .null
  | .bool b => .bool b
  | .int i => .int i
  | .str x => .str x
  | .dt y mo d h mi sec => .dt y mo d h mi sec

def dictJ (d : List (Str × Atom)) : JVal := .obj (d.map (fun kv => (kv.1, atomJ kv.2)))

def pvalJ : PVal → JVal
  | .atom a => atomJ a
  | .dict d => dictJ d
  | .list l => .arr (l.map atomJ)
  | .tags l => .arr (l.map (fun t => .arr [.str t.1, dictJ t.2]))

/-- `"ow" if prop=="own" else prop` -/
def aliasKey (k : Str) : Str := (lookup k jsonAlias).getD k

/-- `addJSONprops` -/
def propsJ (props : List (Str × PVal)) : List (Str × JVal) :=
  if props.isEmpty then [] else [(s "props", .obj (props.map (fun kv => (aliasKey kv.1, pvalJ kv.2))))]

/-- `lang` is emitted only at the root and where the language changes -/
def langJ (parent : Option Lang) (l : Lang) : List (Str × JVal) :=
  if parent = some l then [] else [(s "lang", .str l.code)]

mutual
def toJSON (parent : Option Lang) : Expr → JVal
  | .term n lemma _ =>
    .obj ([(s "terminal", .str n.kind), (s "lemma", atomJ lemma)] ++ langJ parent n.lang ++ propsJ n.props)
  | .phr n es =>
    .obj ([(s "phrase", .str n.kind)] ++ langJ parent n.lang ++ [(s "elements", .arr (toJSONList n.lang es))] ++ propsJ n.props)
  | .dep n t ds =>
    .obj ([(s "dependent", .str n.kind), (s "terminal", toJSON (some n.lang) t),
           (s "dependents", .arr (toJSONList n.lang ds))] ++ propsJ n.props ++ langJ parent n.lang)
def toJSONList (parent : Lang) : List Expr → List JVal
  | [] => []
  | e :: r => toJSON (some parent) e :: toJSONList parent r
end

/-! ### decoding -/

def jAtom : JVal → Option Atom
  | .null => some .none
  | .bool b => some (.bool b)
  | .int i => some (.int i)
  | .str x => some (.str x)
  | .dt y mo d h mi sec => some (.dt y mo d h mi sec)
  | _ => none

def jDict : List (Str × JVal) → Option (List (Str × Atom))
  | [] => some []
  | (k, v) :: r =>
    match jAtom v, jDict r with
    | some a, some d => some ((k, a) :: d)
    | _, _ => none

/-- a JSON value as the argument of an option method -/
def jArg : JVal → Option PVal
  | .obj kv => (jDict kv).map PVal.dict
  | v => (jAtom v).map PVal.atom

def jArgs : List JVal → Option (List PVal)
  | [] => some []
  | v :: r =>
    match jArg v, jArgs r with
    | some a, some as => some (a :: as)
    | _, _ => none

/-- `getattr(self, opt)(*args)`, the method being known to exist; shapes outside the model count as a message -/
def applyArgs (opt : Str) (args : Option (List PVal)) (e : Expr) : Expr × Nat :=
  match args with
  | none => (e, 1)
  | some as =>
    match callMethod opt as e with
    | some r => r
    | none => (e, 1)

/-- `for o in val: getattr(self,opt)(*o) if isinstance(o,list) else getattr(self,opt)(o)` -/
def applyEach (opt : Str) : List JVal → Expr → Expr × Nat
  | [], e => (e, 0)
  | o :: r, e =>
    let r1 := match o with
      | .arr l => applyArgs opt (jArgs l) e
      | v => applyArgs opt (jArgs [v]) e
    let r2 := applyEach opt r r1.1
    (r2.1, r1.2 + r2.2)

/-- `Constituent.setJSONprops` over the items of `json["props"]`; the count = warnings + `illegal prop` messages -/
def setProps : List (Str × JVal) → Expr → Expr × Nat
  | [], e => (e, 0)
  | (opt, val) :: r, e =>
    let r1 :=
      if methodNames.contains opt then
        match val with
        | .arr l => applyEach opt l e
        | v => applyArgs opt (jArgs [v]) e
      else if jsonSkip.contains opt then (e, 0)
      else (e, 1)
    let r2 := setProps r r1.1
    (r2.1, r1.2 + r2.2)

def setJSONprops (kv : List (Str × JVal)) (e : Expr) : Expr × Nat :=
  match lookup (s "props") kv with
  | some (.obj ps) => setProps ps e
  | _ => (e, 0)

/-- the `lang` handling at the head of `utils.fromJSON`: explicit field, else the inherited language -/
def langField (lang : Option Lang) (kv : List (Str × JVal)) : Option Lang × Nat :=
  match lookup (s "lang") kv with
  | some (.str x) => if x = s "en" then (some .en, 0) else if x = s "fr" then (some .fr, 0) else (some .en, 1)
  | some _ => (some .en, 1)
  | none => (lang, 0)

/-- `Terminal.fromJSON` : `terminal(constType, json["lemma"], lang).setJSONprops(json)` -/
def decodeTerm (env : Env) (lang1 : Lang) (kind : Str) (kv : List (Str × JVal)) : Option Expr × Nat :=
  match lookup (s "lemma") kv with
  | some lj =>
    match jAtom lj with
    | some lemma =>
      let p := mkTerm env lang1 kind lemma
      let r := setJSONprops kv p.1
      (some r.1, p.2 + r.2)
    | none => (none, 1)
  | none => (none, 1)

/-- `phrase(constType, args, lang).setJSONprops(json)` -/
def finishPhr (kind : Str) (lang1 : Lang) (kv : List (Str × JVal)) (es : List Expr × Nat) : Option Expr × Nat :=
  let p := mkPhr kind lang1 es.1
  let r := setJSONprops kv p.1
  (some r.1, es.2 + p.2 + r.2)

/-- `dep(args, constType, lang).setJSONprops(json)` -/
def finishDep (kind : Str) (lang1 : Lang) (kv : List (Str × JVal)) (t : Expr) (ds : List Expr × Nat) : Option Expr × Nat :=
  let p := mkDep kind lang1 t ds.1
  let r := setJSONprops kv p.1
  (some r.1, ds.2 + p.2 + r.2)

def addMsgs (r : Option Expr × Nat) (m : Nat) : Option Expr × Nat := (r.1, m + r.2)

/-- `[f(e) for e in …]` with the `None` results dropped (as `_getElems` does), messages added up -/
def collect (f : JVal → Option Expr × Nat) : List JVal → List Expr × Nat
  | [] => ([], 0)
  | j :: r =>
    let r1 := f j
    let r2 := collect f r
    (match r1.1 with
     | some e => e :: r2.1
     | none => r2.1, r1.2 + r2.2)

/-- `utils.fromJSON(json, lang)` while `cur` is the current language; `none` = no Constituent is returned.
    The fuel bounds the nesting depth. -/
def fromJ (env : Env) (cur : Lang) : Nat → Option Lang → JVal → Option Expr × Nat
  | 0, _, _ => (none, 0)
  | fuel + 1, lang, .obj kv =>
    let lm := langField lang kv
    let lang1 := lm.1.getD cur
    match lookup (s "phrase") kv with
    | some (.str kind) =>
      if jsonPhraseKinds.contains kind then
        match lookup (s "elements") kv with
        | some (.arr l) => addMsgs (finishPhr kind lang1 kv (collect (fromJ env cur fuel lm.1) l)) lm.2
        | _ => (none, lm.2 + 1)
      else (none, lm.2 + 1)
    | some _ => (none, lm.2 + 1)
    | none =>
      match lookup (s "dependent") kv with
      | some (.str kind) =>
        if jsonDepKinds.contains kind then
          match lookup (s "terminal") kv with
          | some tj =>
            match fromJ env cur fuel lm.1 tj with
            | (some t, w1) =>
              let ds : List Expr × Nat := match lookup (s "dependents") kv with
                | some (.arr l) => collect (fromJ env cur fuel lm.1) l
                | some _ => ([], 1)
                | none => ([], 0)
              addMsgs (finishDep kind lang1 kv t ds) (lm.2 + w1)
            | (none, w1) => (none, lm.2 + w1 + 1)
          | none => (none, lm.2 + 1)
        else (none, lm.2 + 1)
      | some _ => (none, lm.2 + 1)
      | none =>
        match lookup (s "terminal") kv with
        | some (.str kind) =>
          if jsonTermKinds.contains kind then addMsgs (decodeTerm env lang1 kind kv) lm.2
          else (none, lm.2 + 1)
        | some _ => (none, lm.2 + 1)
        | none => (none, lm.2)
  | _ + 1, _, _ => (none, 1)

/-- `[fromJSON(e, lang) for e in …]` -/
def fromJList (env : Env) (cur : Lang) (fuel : Nat) (lang : Option Lang) (l : List JVal) : List Expr × Nat :=
  collect (fromJ env cur fuel lang) l

mutual
def JVal.depth : JVal → Nat
  | .arr l => depthList l + 1
  | .obj kv => depthObj kv + 1
  | _ => 1
def depthList : List JVal → Nat
  | [] => 0
  | v :: r => max v.depth (depthList r)
def depthObj : List (Str × JVal) → Nat
  | [] => 0
  | (_, v) :: r => max v.depth (depthObj r)
end

/-- `fromJSON(json)` under the current language `cur` -/
def fromJSON (env : Env) (cur : Lang) (j : JVal) : Option Expr × Nat := fromJ env cur j.depth none j

/-! ### `json.dumps` (default separators `", "` and `": "`, `ensure_ascii=False`) -/

def hexDigit (n : Nat) : Char := if n < 10 then Char.ofNat (48 + n) else Char.ofNat (87 + n)

/-- the escapes of `json.dumps` for one character -/
def escJChar (c : Char) : Str :=
  if c = '"' then ['\\', '"']
  else if c = '\\' then ['\\', '\\']
  else if c = '\n' then ['\\', 'n']
  else if c = '\r' then ['\\', 'r']
  else if c = '\t' then ['\\', 't']
  else if c.toNat = 8 then ['\\', 'b']
  else if c.toNat = 12 then ['\\', 'f']
  else if c.toNat < 32 then ['\\', 'u', '0', '0', hexDigit (c.toNat / 16), hexDigit (c.toNat % 16)]
  else [c]

def escJ : Str → Str
  | [] => []
  | c :: r => escJChar c ++ escJ r

def quoteJ (x : Str) : Str := '"' :: escJ x ++ ['"']

/-- decimal digits of a natural number, most significant first -/
def natDigits (n : Nat) : Str :=
  if h : n < 10 then [Char.ofNat (48 + n)] else natDigits (n / 10) ++ [Char.ofNat (48 + n % 10)]
termination_by n
decreasing_by omega

def intStr : Int → Str
  | .ofNat n => natDigits n
  | .negSucc n => '-' :: natDigits (n + 1)

mutual
def printJ : JVal → Str
  | .null => s "null"
  | .bool true => s "true"
  | .bool false => s "false"
  | .int i => intStr i
  | .str x => quoteJ x
  | .arr l => '[' :: printJList l ++ [']']
  | .obj kv => '{' :: printJObj kv ++ ['}']
  | .dt .. => s "<datetime>"
def printJList : List JVal → Str
  | [] => []
  | [v] => printJ v
  | v :: r => printJ v ++ s ", " ++ printJList r
def printJObj : List (Str × JVal) → Str
  | [] => []
  | [(k, v)] => quoteJ k ++ s ": " ++ printJ v
  | (k, v) :: r => quoteJ k ++ s ": " ++ printJ v ++ s ", " ++ printJObj r
end

mutual
/-- no `datetime` inside: `json.dumps` does not raise TypeError -/
def JVal.serializable : JVal → Bool
  | .arr l => serializableList l
  | .obj kv => serializableObj kv
  | .dt .. => false
  | _ => true
def serializableList : List JVal → Bool
  | [] => true
  | v :: r => v.serializable && serializableList r
def serializableObj : List (Str × JVal) → Bool
  | [] => true
  | (_, v) :: r => v.serializable && serializableObj r
end

/-! ### `json.loads` -/

def skipWs : Str → Str
  | ' ' :: r => skipWs r
  | x => x

def hexVal (c : Char) : Option Nat :=
  if '0' ≤ c && c ≤ '9' then some (c.toNat - 48)
  else if 'a' ≤ c && c ≤ 'f' then some (c.toNat - 87)
  else if 'A' ≤ c && c ≤ 'F' then some (c.toNat - 55)
  else none

/-- the character an escape letter stands for -/
def unescJ (e : Char) : Option Char :=
  if e = '"' then some '"' else if e = '\\' then some '\\' else if e = '/' then some '/'
  else if e = 'n' then some '\n' else if e = 'r' then some '\r' else if e = 't' then some '\t'
  else if e = 'b' then some (Char.ofNat 8) else if e = 'f' then some (Char.ofNat 12) else none

/-- the body of a string literal, after the opening quote: (content, rest after the closing quote) -/
def readJStr : Str → Option (Str × Str)
  | [] => none
  | c :: r =>
    if c = '"' then some ([], r)
    else if c = '\\' then
      match r with
      | [] => none
      | e :: r1 =>
        if e = 'u' then
          match r1 with
          | a :: b :: c :: d :: r2 =>
            match hexVal a, hexVal b, hexVal c, hexVal d, readJStr r2 with
            | some a, some b, some c, some d, some (x, rest) =>
              some (Char.ofNat (((a * 16 + b) * 16 + c) * 16 + d) :: x, rest)
            | _, _, _, _, _ => none
          | _ => none
        else
          match unescJ e, readJStr r1 with
          | some ch, some (x, rest) => some (ch :: x, rest)
          | _, _ => none
    else if c.toNat < 32 then none
    else match readJStr r with
      | some (x, rest) => some (c :: x, rest)
      | none => none

def readNat (x : Str) : Nat × Str := (natOfDigits (x.takeWhile isDigit), x.dropWhile isDigit)

mutual
/-- recursive-descent reader; the fuel bounds the nesting depth -/
def readJV : Nat → Str → Option (JVal × Str)
  | 0, _ => none
  | fuel + 1, x =>
    match skipWs x with
    | [] => none
    | c :: r =>
      if c = '"' then (readJStr r).map (fun p => (.str p.1, p.2))
      else if c = '[' then
        match skipWs r with
        | ']' :: r' => some (.arr [], r')
        | r' => (readJItems fuel r').map (fun p => (.arr p.1, p.2))
      else if c = '{' then
        match skipWs r with
        | '}' :: r' => some (.obj [], r')
        | r' => (readJMembers fuel r').map (fun p => (.obj p.1, p.2))
      else if c = '-' then
        match r with
        | d :: _ => if isDigit d then let p := readNat r; some (.int (-(p.1 : Int)), p.2) else none
        | [] => none
      else if isDigit c then let p := readNat (c :: r); some (.int p.1, p.2)
      else if startsWith (c :: r) (s "null") then some (.null, (c :: r).drop 4)
      else if startsWith (c :: r) (s "true") then some (.bool true, (c :: r).drop 4)
      else if startsWith (c :: r) (s "false") then some (.bool false, (c :: r).drop 5)
      else none
/-- `v (, v)* ]` -/
def readJItems : Nat → Str → Option (List JVal × Str)
  | 0, _ => none
  | fuel + 1, x =>
    match readJV fuel x with
    | none => none
    | some (v, r) =>
      match skipWs r with
      | [] => none
      | c :: r' =>
        if c = ',' then (readJItems fuel r').map (fun p => (v :: p.1, p.2))
        else if c = ']' then some ([v], r')
        else none
/-- `"k": v (, "k": v)* }` -/
def readJMembers : Nat → Str → Option (List (Str × JVal) × Str)
  | 0, _ => none
  | fuel + 1, x =>
    match skipWs x with
    | [] => none
    | q :: r =>
      if q = '"' then
        match readJStr r with
        | none => none
        | some (k, r1) =>
          match skipWs r1 with
          | [] => none
          | c :: r2 =>
            if c = ':' then
              match readJV fuel r2 with
              | none => none
              | some (v, r3) =>
                match skipWs r3 with
                | [] => none
                | c' :: r4 =>
                  if c' = ',' then (readJMembers fuel r4).map (fun p => ((k, v) :: p.1, p.2))
                  else if c' = '}' then some ([(k, v)], r4)
                  else none
            else none
      else none
end

/-- `json.loads(text)` -/
def readJ (x : Str) : Option JVal :=
  match readJV (x.length + 1) x with
  | some (v, r) => if (skipWs r).isEmpty then some v else none
  | none => none

/-! ### the two JSON routes of the property -/

/-- `fromJSON(e.toJSON())` while `cur` is current -/
def routeJson (env : Env) (cur : Lang) (e : Expr) : Except RouteErr (Expr × Nat) :=
  match fromJSON env cur (toJSON none e) with
  | (some e', m) => .ok (e', m)
  | (none, _) => .error .notAConstituent

/-- `fromJSON(json.loads(json.dumps(e.toJSON())))` while `cur` is current -/
def routeJsonText (env : Env) (cur : Lang) (e : Expr) : Except RouteErr (Expr × Nat) :=
  let j := toJSON none e
  if j.serializable then
    match readJ (printJ j) with
    | some j' =>
      match fromJSON env cur j' with
      | (some e', m) => .ok (e', m)
      | (none, _) => .error .notAConstituent
    | none => .error .valueError
  else .error .typeError

end Pyrealb.Expr
