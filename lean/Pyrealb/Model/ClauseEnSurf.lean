import Pyrealb.Model.ClauseEn
/-! # English clause — surface words

Composes the symbolic token groups of `Model/ClauseEn` with
* `TerminalEn.conjugate` restricted to `p, ps, b, pp, pr` (TerminalEn.py:75-103) on full-form paradigms
  (closed-class verbs from `Gen/ClauseEnConsts`, the main verb from the request),
* `Terminal.decline` + `bestMatch` for the personal pronouns (Terminal.py:185-277) on the lifted tables,
* `Constituent.doFormat` (removeEmpty, doElision, `.a(..)`) level by level with
  `ConstituentEn.doElision`'s contraction pass (ConstituentEn.py:50-106; the a/an branch is outside the fragment:
  the determiner `a` is excluded),
* `Constituent.detokenize` (Constituent.py:371-409) for a top-level `S` / `root`. -/
namespace Pyrealb.ClauseEn
open Pyrealb

/-- full forms of one verb -/
structure Paradigm where
  b : Option Str
  p : Option (List (Option Str))
  ps : Option (List (Option Str))
  pp : Option Str
  pr : Option Str
  deriving Repr, Inhabited, DecidableEq

def Paradigm.ofGen (g : Gen.ClauseEn.Paradigm) : Paradigm :=
  { b := g.b.map s, p := g.p.map (·.map (·.map s)), ps := g.ps.map (·.map (·.map s)), pp := g.pp.map s, pr := g.pr.map s }

/-- the lexical environment of one request -/
structure Env where
  mainLemma : Str
  main : Paradigm
  npWords : Nat → List Str

def lemmaStr (env : Env) : VLemma → Str
  | .other => env.mainLemma
  | l => s l.name

def paradigmOf (env : Env) (l : VLemma) : Paradigm :=
  match l with
  | .other => env.main
  | l => match Gen.ClauseEn.closedParadigms.lookup l.name with
    | some g => Paradigm.ofGen g
    | none => env.main

/-- `conjugation[pe - 1 + (3 if n == "p" else 0)]` -/
def cellIdx (a : Agr) : Nat :=
  (match a.pe with | .p1 => 0 | .p2 => 1 | .p3 => 2) + (match a.n with | .p => 3 | .s => 0)

/-- `TerminalEn.conjugate`: the form, or `none` (→ morphoError, `[[lemma]]`) -/
def conjForm (par : Paradigm) (f : VForm) (a : Agr) : Option Str :=
  match f with
  | .b => par.b
  | .pp => par.pp
  | .pr => par.pr
  | .p => match par.p with | some six => (six.getD (cellIdx a) none) | none => none
  | .ps => match par.ps with | some six => (six.getD (cellIdx a) none) | none => none

/-! ### pronouns: Terminal.bestMatch on the lifted declension tables -/

abbrev Row := List (String × String)

/-- score of one row (Terminal.py:191-200): a different person resets to 0 and stops -/
def rowScore (d : Row) : List (String × String) → Nat → Nat
  | [], nb => nb
  | (k, v) :: r, nb =>
    match d.lookup k with
    | some dv =>
      if k == "pe" && dv != v then 0
      else if dv == v then rowScore d r (nb + 2)
      else if dv == "x" then rowScore d r (nb + 1)
      else rowScore d r nb
    | none => rowScore d r nb

def bestMatchAux (kv : List (String × String)) : List Row → Nat × Option String → Nat × Option String
  | [], best => best
  | d :: r, best =>
    let nb := rowScore d kv 0
    if nb > best.1 then bestMatchAux kv r (nb, d.lookup "val") else bestMatchAux kv r best

def bestMatch (tbl : List Row) (kv : List (String × String)) : Option String :=
  (bestMatchAux kv tbl (0, none)).2

def Pe.str : Pe → String | .p1 => "1" | .p2 => "2" | .p3 => "3"
def Num.str : Num → String | .s => "s" | .p => "p"
def Gender.str : Gender → String | .m => "m" | .f => "f" | .n => "n" | .x => "x"

def proTable (w : String) : List Row := (Gen.ClauseEn.proTables.lookup w).getD []

def kvOf (pe : Pe) (g : Gender) (n : Num) : List (String × String) := [("pe", pe.str), ("g", g.str), ("n", n.str)]

/-- `Pro(w).c("nom")` realized: creation defaults (`g:"n"`, `n:"s"`, person of a uniform table), then `decline` -/
def nomOf (w : String) : String :=
  let tbl := proTable w
  if w == Gen.ClauseEn.tonicPe1 then
    (bestMatch tbl [("pe", "3"), ("g", "n"), ("n", "s"), ("c", "nom")]).getD (bracket (s w)).str
  else
    let pe := match tbl.head? with | some d0 => (d0.lookup "pe").getD "3" | none => "3"
    (bestMatch tbl [("pe", pe), ("g", "n"), ("n", "s"), ("c", "nom")]).getD (bracket (s w)).str

def argWords (env : Env) : ArgTok → List Str
  | .np a => env.npWords a.id
  | .proI a => [s ((bestMatch (proTable "I") (kvOf a.pe a.g a.n ++ [("tn", "")])).getD "[[I]]")]
  | .proMe a => [s ((bestMatch (proTable "me") (kvOf a.pe a.g a.n ++ [("tn", "")])).getD "[[me]]")]
  | .proTonic a => [s ((bestMatch (proTable "me") (kvOf a.pe a.g a.n ++ [("tn", "")])).getD "[[me]]")]
  | .proNom a => [s (nomOf ((bestMatch (proTable "me") (kvOf a.pe a.g a.n ++ [("tn", "")])).getD "me"))]
  | .it => [s ((bestMatch (proTable "it") [("pe", "3"), ("g", "n"), ("n", "s"), ("c", "nom")]).getD "[[it]]")]
  | .proOfNP a => [s (nomOf ((bestMatch (proTable "me") (kvOf .p3 a.g a.n ++ [("tn", "")])).getD "me"))]

/-- surface words of one token, and the number of warnings its realization prints -/
def tokWords (env : Env) : Tok → List Str × Nat
  | .verb l f r =>
    let a := match r with | .fixed a => a | .shared => Agr.dflt
    match conjForm (paradigmOf env l) f a with
    | some w => ([w], 0)
    | none => ([bracket (lemmaStr env l)], 1)
  | .cannot => ([s "cannot"], 0)
  | .not_ => ([s "not"], 0)
  | .to_ => ([s "to"], 0)
  | .q t => ([t], 0)
  | .prep p => ([p], 0)
  | .arg a => (argWords env a, 0)

/-! ### ConstituentEn.doElision: contraction -/

/-- `[\w'-]` (ASCII letters, digits, `_`, `'`, `-`; every non-ASCII character of the lexicon is a letter) -/
def isWordChar (c : Char) : Bool :=
  c.isAlphanum || c == '_' || c == '\'' || c == '-' || c.toNat ≥ 128

/-- `sepWordREC` on a token without HTML tag: (non-word prefix, first word, rest); `none` when there is no word -/
def sepWord (x : Str) : Option (Str × Str × Str) :=
  let pre := x.takeWhile (fun c => !isWordChar c && c != '<')
  let r := x.drop pre.length
  let w := r.takeWhile isWordChar
  if w.isEmpty then none else some (pre, w, r.drop w.length)

def isSpace (c : Char) : Bool := c == ' ' || c == '\n' || c == '\t' || c == '\r'

/-- `str.strip()` -/
def strip (x : Str) : Str := ((x.dropWhile isSpace).reverse.dropWhile isSpace).reverse

abbrev ContrTable := List (Str × Str)

def genContrTable : ContrTable := Gen.ClauseEn.contractionEnTable.map (fun kv => (s kv.1, s kv.2))

/-- the `while i < last` loop of doElision when `self.contraction` is set (no determiner `a` in the list) -/
def contract (tbl : ContrTable) : List Str → List Str
  | [] => []
  | [a] => [a]
  | a :: b :: rest =>
    match sepWord a, sepWord b with
    | some (p1, w1, r1), some (p2, w2, r2) =>
      if w1 = s "cannot" then (p1 ++ s "can't" ++ r1) :: contract tbl (b :: rest)
      else
        match lookup (w1 ++ s "+" ++ w2) tbl with
        | some c => (p1 ++ c ++ r1) :: (p2 ++ strip r2) :: contract tbl rest
        | none => a :: contract tbl (b :: rest)
    | _, _ => a :: contract tbl (b :: rest)
  termination_by l => l.length

/-- `removeEmpty` of doFormat: empty realizations are deleted while more than one token is left, i.e. all of them
    when some token is not empty, all but one otherwise -/
def removeEmpty (l : List Str) : List Str :=
  let ne := l.filter (fun x => !x.isEmpty)
  if ne.isEmpty then (if l.isEmpty then [] else [[]]) else ne

def appendLast (l : List Str) (suf : Str) : List Str :=
  match l.reverse with
  | [] => []
  | x :: r => ((x ++ suf) :: r).reverse

def signAfter (sign : String) : Str := s ((Gen.ClauseEn.signAfter.lookup sign).getD sign)

/-- `doFormat` of one level: removeEmpty, doElision (contraction when set), `.a(",")` -/
def formatGrp (tbl : ContrTable) (words : List Str) (contr comma : Bool) : List Str :=
  let l1 := removeEmpty words
  let l2 := if contr then contract tbl l1 else l1
  if comma then appendLast l2 (signAfter ",") else l2

def grpWords (env : Env) (g : Grp) : List Str × Nat :=
  g.toks.foldl (fun acc t => let w := tokWords env t; (acc.1 ++ w.1, acc.2 + w.2)) ([], 0)

/-- tokens of the whole clause after the `doFormat` of `S` / `root` -/
def renderToks (env : Env) (tbl : ContrTable) (ty : Typ) (o : Out) : List Str × Nat :=
  let parts := o.grps.map (fun g => let w := grpWords env g; (formatGrp tbl w.1 g.contr g.comma, w.2))
  let all := parts.flatMap (·.1)
  let warn := parts.foldl (fun n p => n + p.2) o.warn
  let top := formatGrp tbl all ty.contr false
  let top := if ty.int.isSome then appendLast top (signAfter Gen.ClauseEn.intPunct) else top
  let top := if ty.exc then appendLast top (signAfter Gen.ClauseEn.excPunct) else top
  (top, warn)

/-! ### Constituent.detokenize for a top-level sentence -/

def endsNoSpace (x : Str) : Bool :=
  match x.getLast? with
  | some c => c == '-' || c == ' ' || c == '\''
  | none => false

def dropLeadSpace (x : Str) : Str := match x with | ' ' :: r => r | _ => x

def joinToks : List Str → Str
  | [] => []
  | [a] => dropLeadSpace a
  | a :: r =>
    let a' := dropLeadSpace a
    (if endsNoSpace a' then a' else if a'.isEmpty then [] else a' ++ [' ']) ++ joinToks r

def upperAscii (c : Char) : Char := if 'a' ≤ c && c ≤ 'z' then Char.ofNat (c.toNat - 32) else c

/-- capital on the first letter after the non-word prefix; `. ` unless the last non-space character closes already -/
def sentence (x : Str) : Str :=
  if x.isEmpty then x else
  let pre := x.takeWhile (fun c => !isWordChar c && c != '<')
  let r := x.drop pre.length
  let x1 := match r with
    | c :: r' => pre ++ upperAscii c :: r'
    | [] => x
  match (x1.reverse.dropWhile (· == ' ')).head? with
  | some c => if "?!.:;/)]}".toList.contains c then x1 else x1 ++ s ". "
  | none => x1

def detokenize (toks : List Str) : Str := sentence (joinToks toks)

end Pyrealb.ClauseEn
