import Pyrealb.Model.Format
import Pyrealb.Gen.PunctRules
/-! The shipped data (regenerated from the repository by `harness/translate/punct.py`) in the shape the model takes. -/
namespace Pyrealb.Format
open Pyrealb.Gen

def mkTables (p : List (List Char × List Char × List Char))
    (l : List (List Char × Option (List Char) × List (List Char))) : Tables :=
  { punct := p.map (fun x => (x.1, { b := x.2.1, a := x.2.2 })),
    lex := l.map (fun x => (x.1, { compl := x.2.1, tab := x.2.2 })) }

def tablesEn : Tables := mkTables PunctRules.punctEn PunctRules.pcEn
def tablesFr : Tables := mkTables PunctRules.punctFr PunctRules.pcFr

def tablesOf : Lang → Tables
  | .en => tablesEn
  | .fr => tablesFr

def caseLookup (c : Char) : List (Char × Char × Char × Bool) → Option (Char × Char × Bool)
  | [] => none
  | (k, v) :: r => if k = c then some v else caseLookup c r

/-- Python's case mapping on the tabulated alphabet; identity / non-word outside it (recorded assumption) -/
def pyCase : CaseMap :=
  { upper := fun c => match caseLookup c PunctRules.caseTable with | some (u, _, _) => u | none => c,
    lower := fun c => match caseLookup c PunctRules.caseTable with | some (_, l, _) => l | none => c,
    isWord := fun c => match caseLookup c PunctRules.caseTable with | some (_, _, w) => w | none => false }

end Pyrealb.Format
