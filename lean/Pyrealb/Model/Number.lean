import Pyrealb.Model.NumberLang
import Pyrealb.Gen.NumberWords
/-! Model of `src/pyrealb/Number.py` : `enToutesLettres`, `ordinal`, `roman`.

Every word, separator and table is the constant lifted from the repository (`Gen/NumberWords`), so the model
follows the code when a word changes.  A decimal digit string is modelled by the number it denotes: Python's
`str(int)` / `int(u)` on single digits are the only external steps (`splitS` works on the decimal expansion,
here on `n / 1000`, `n % 1000`; `centaines` reads the three digits of a triplet: `t / 100`, `t / 10 % 10`,
`t % 10`).  A Python subscript is an `Except Crash` step (`IndexError`).
-/
namespace Pyrealb.Number
open Pyrealb Pyrealb.Gen.NumberWords

/-- `l[i]` -/
def idx {α} (l : List α) (i : Nat) : Except Crash α :=
  match l[i]? with
  | some x => .ok x
  | none => .error .indexError

/-- `a if en else b` -/
@[inline] def pick {α} (ℓ : Lang) (a b : α) : α := match ℓ with | .en => a | .fr => b

/-! ### `unites`, `dizaines`, `centaines` (Number.py:56-99) -/

/-- `unites(u)` : `[...][int(u)]` -/
def unites (ℓ : Lang) (u : Nat) : Except Crash Str := idx (pick ℓ unitsEn unitsFr) u

/-- `dizaines(ns)` for the two digits `d`, `u`; `dizaines("1"+u)` is the same function at `d = 1`, which
    returns in the first `elif` (so the recursion is unfolded as `teens`). -/
def teens (ℓ : Lang) (u : Nat) : Except Crash Str := idx (pick ℓ teensEn teensFr) u

def dizaines (ℓ : Lang) (d u : Nat) : Except Crash Str :=
  if d = 0 then unites ℓ u
  else if d = 1 then teens ℓ u
  else if 2 ≤ d ∧ d ≤ 6 then do           -- `d in "23456"`
    let tens ← idx (pick ℓ tensEn tensFr) (d - 2)
    if u = 0 then pure tens
    else if u = 1 then pure (tens ++ pick ℓ oneSufEn etUnFr)
    else do
      let w ← unites ℓ u
      pure (tens ++ (hyphen ++ w))
  else if d = 7 then
    if u = 0 then pure (pick ℓ seventyEn soixanteDixFr)
    else match ℓ with
      | .en => do let w ← unites ℓ u; pure (seventyPreEn ++ w)
      | .fr => do let w ← teens ℓ u; pure (soixanteFr ++ (if u = 1 then etFr else hyphen7Fr) ++ w)
  else if d = 8 then
    if u = 0 then pure (pick ℓ eightyEn quatreVingtsFr)
    else do let w ← unites ℓ u; pure (pick ℓ eightyPreEn quatreVingtPre8Fr ++ w)
  else if d = 9 then
    if u = 0 then pure (pick ℓ ninetyEn quatreVingtDixFr)
    else match ℓ with
      | .en => do let w ← unites ℓ u; pure (ninetyPreEn ++ w)
      | .fr => do let w ← teens ℓ u; pure (quatreVingtPre9Fr ++ w)
  else .error .typeError                   -- not a digit: the function returns None and `+` fails (unreachable)

/-- `centaines(ns)` for a triplet `t < 1000` (`ns` always has three characters after `splitS`) -/
def centaines (ℓ : Lang) (t : Nat) : Except Crash Str :=
  let c := t / 100
  let d := t / 10 % 10
  let u := t % 10
  if c = 0 then dizaines ℓ d u
  else
    let cent := pick ℓ hundredEn centFr
    if d = 0 ∧ u = 0 then
      if c = 1 then pure (pick ℓ oneHundredPreEn oneHundredPreFr ++ cent)
      else do let w ← unites ℓ c; pure (w ++ centSep ++ cent ++ pick ℓ centPluralEn centPluralFr)
    else if c = 1 then do
      let w ← dizaines ℓ d u
      pure (pick ℓ oneHundredPre2En oneHundredPre2Fr ++ cent ++ centSep1 ++ w)
    else do
      let w ← unites ℓ c
      let w2 ← dizaines ℓ d u
      pure (w ++ centSep2 ++ cent ++ pick ℓ andEn andFr ++ w2)

/-! ### `splitS`, `tousZero`, `grouper` (Number.py:31-53) -/

/-- `splitS(str(n))` as the list of the values of the triplets, most significant first.  `fuel` only makes the
    recursion structural (`splitS n = splitSAux n n`; `n / 1000 < n`). -/
def splitSAux : Nat → Nat → List Nat
  | 0, n => [n]
  | f + 1, n => if n < 1000 then [n] else splitSAux f (n / 1000) ++ [n % 1000]

def splitS (n : Nat) : List Nat := splitSAux n n

def tousZero : List Nat → Bool
  | [] => true
  | t :: ts => t == 0 && tousZero ts

/-- the (sing, plur) table `unitsM` / `unitesM` -/
def scaleTable (ℓ : Lang) : List (Str × Str) := pick ℓ scaleEn scaleFr

/-- `grouper(ns)`.  `grouper([head])` inside the function is `centaines(head)` (its `l==1` branch). -/
def grouper (ℓ : Lang) : List Nat → Except Crash Str
  | [] => .error .indexError                                  -- `ns[0]` (never reached from `splitS`)
  | [h] => centaines ℓ h
  | h :: t1 :: rest =>
    if h = 0 then grouper ℓ (t1 :: rest)
    else
      match idx (scaleTable ℓ) rest.length with                -- `uM[l-2]`
      | .error e => .error e
      | .ok sc =>
        match (if h = 1 then pure sc.1 else (centaines ℓ h).map (fun w => w ++ grpSep1 ++ sc.2)) with
        | .error e => .error e
        | .ok first =>
          if tousZero (t1 :: rest) then pure (first ++ grpSep2 ++ grpEmpty)
          else match grouper ℓ (t1 :: rest) with
            | .error e => .error e
            | .ok tail => pure (first ++ grpSep2 ++ tail)

def lstrip : Str → Str
  | [] => []
  | c :: cs => if isPySpace c then lstrip cs else c :: cs

/-- `s.strip()` -/
def strip (x : Str) : Str := (lstrip (lstrip x).reverse).reverse

/-- `enToutesLettres(n, lang)` for an `int` argument -/
def enToutesLettres (ℓ : Lang) (n : Int) : Except Crash Str :=
  match grouper ℓ (splitS n.natAbs) with
  | .error e => .error e
  | .ok res => pure (strip (if n < 0 then pick ℓ minusEn moinsFr ++ res else res))

/-! ### `ordinal` (Number.py:128-143) -/

/-- `re.match(r"(.*?)(\w+)$", s)` : (`m[1]`, `m[2]`) = (the rest, the longest suffix of word characters);
    no match when `s` does not end with a word character.  `\w` on the alphabet of the tables is the set
    `wordChars` recorded by the translator from Python's `re`. -/
def isWordChar (c : Char) : Bool := wordChars.contains c

def lastWordSplit (x : Str) : Option (Str × Str) :=
  let r := tailSplit isWordChar x
  if r.2.isEmpty then none else some r

/-- `s[-1] == c` for a one-character string `c` (any other `c` never equals a character) -/
def lastIs (x c : Str) : Bool :=
  match x.getLast? with
  | some a => c == [a]
  | none => false

/-- `re.search(r"(vingt|cent|ion|iard)s$", lastWord)`: the word ends with one of the stems and the plural mark -/
def pluralMarked (w : Str) : Bool := ordPluralStems.any (fun st => endsWith w (st ++ ordPluralMark))

/-- the body of `ordinal` once the cardinal `s` is spelled -/
def ordinalOf (ℓ : Lang) (g : Gender) (s : Str) : Except Crash Str :=
  if s = ordZeroFr ∨ s = ordZeroEn then pure s
  else match lastWordSplit s with
    | none => .error .typeError                             -- `m[2]` with `m is None`
    | some (pre, lastWord) =>
      match ℓ with
      | .en =>
        match lookup lastWord ordEnExceptions with
        | some o => pure (pre ++ o)
        | none => if lastIs s ordYEn then pure (dropRight s 1 ++ ordIethEn) else pure (s ++ ordThEn)
      | .fr =>
        if s = ordUnFr then pure (if g = .f then ordPremiereFr else ordPremierFr)
        else if lastWord = ordUn2Fr then pure (s ++ ordIeme1Fr)
        else match lookup lastWord ordFrExceptions with
          | some o => pure (pre ++ o)
          | none =>
            if lastIs s ordEFr || pluralMarked lastWord then pure (dropRight s 1 ++ ordIeme2Fr)
            else pure (s ++ ordIeme3Fr)

def ordinal (ℓ : Lang) (n : Int) (g : Gender) : Except Crash Str :=
  match enToutesLettres ℓ n with
  | .error e => .error e
  | .ok s => ordinalOf ℓ g s

/-! ### `roman` (Number.py:145-154) -/

/-- `units(i,v,x,value)` : the `value`-th pattern with the three symbols substituted -/
def romanUnitsAt (lvl : Nat) (value : Nat) : Except Crash Str :=
  match idx romanLevels lvl, idx romanUnits value with
  | .ok (i, v, x), .ok pat => pure (pat.flatMap (fun c => if c = 'i' then i else if c = 'v' then v else x))
  | .error e, _ => .error e
  | _, .error e => .error e

/-- `roman(val)` for `val ≤ 10`, `≤ 100`, `≤ 1000`: the recursive calls `roman(val%10)`, `roman(val%100)`,
    `roman(val%1000)` always land in a lower layer, so the recursion is unfolded layer by layer. -/
def roman1 (v : Nat) : Except Crash Str := romanUnitsAt 0 v
def roman2 (v : Nat) : Except Crash Str :=
  if v ≤ 10 then roman1 v else do let a ← romanUnitsAt 1 (v / 10); let b ← roman1 (v % 10); pure (a ++ b)
def roman3 (v : Nat) : Except Crash Str :=
  if v ≤ 100 then roman2 v else do let a ← romanUnitsAt 2 (v / 100); let b ← roman2 (v % 100); pure (a ++ b)

def roman (val : Int) : Except Crash Str :=
  if val < 0 then pure romanTooSmall
  else
    let v := val.toNat
    if v ≤ 1000 then roman3 v
    else if val < romanLimit then do
      let b ← roman3 (v % 1000)
      pure ((List.replicate (v / 1000) romanM).flatten ++ b)
    else pure romanTooBig

end Pyrealb.Number
