import Pyrealb.Model.Date
import Pyrealb.Gen.DateRules
/-! The shipped date rules of both languages, assembled from the generated tables (`Gen/DateRules`, regenerated
    from data/rules-en.json and data/rules-fr.json on every run). -/
namespace Pyrealb.Date
open Pyrealb.Gen.DateRules

def rulesEn : DateRules :=
  { natural := enNatural, nonNatural := enNonNatural, relative := enRelative,
    weekday := enWeekday, month := enMonth, meridiem := enMeridiem }

def rulesFr : DateRules :=
  { natural := frNatural, nonNatural := frNonNatural, relative := frRelative,
    weekday := frWeekday, month := frMonth, meridiem := frMeridiem }

inductive Lang where
  | en | fr
  deriving DecidableEq, Repr

def rulesOf : Lang → DateRules
  | .en => rulesEn
  | .fr => rulesFr

end Pyrealb.Date
