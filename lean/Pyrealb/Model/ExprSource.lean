import Pyrealb.Model.Json
/-! # `toSource` and an evaluator of the printed source

* `toSource` : Terminal.toSource (the lemma escaped by `quoteSource`, `lang=` where the language is not the root's), Phrase.py:560-565,
  Dependent.py:499-503, `addOptSource` (`repr` of the value) and the special case of `tag` with attributes
  (Constituent.py:142-158).  Children added with `add()` are printed as arguments: the printed source never
  contains `.add(…)`.
* `parseSrc` stands for Python's `eval` of that text in a namespace `from pyrealb import *`: the constructor-call
  syntax with string / integer / `True|False|None` / dict literals, adjacent string literals concatenated, the
  escapes `\\ \' \" \n \r \t \a \b \f \v` (any other backslash pair is kept, as Python does with a warning;
  `\x \u \U \N \0-7` and triple quotes are outside the model and never generated); the name `datetime` is unbound. -/
namespace Pyrealb.Expr
open Pyrealb

/-! ### `repr` -/

def pad2 (n : Nat) : Str := if n < 10 then '0' :: natDigits n else natDigits n
def pad4 (n : Nat) : Str :=
  if n < 10 then s "000" ++ natDigits n else if n < 100 then s "00" ++ natDigits n
  else if n < 1000 then '0' :: natDigits n else natDigits n

/-- `not c.isprintable()` for the characters that occur: the ASCII controls and the table lifted from the harness'
    alphabet by running Python (Gen.OptionTable.nonPrintable) -/
def isNonPrintable (c : Char) : Bool :=
  c.toNat < 32 || c.toNat = 127 || Gen.OptionTable.nonPrintable.contains c.toNat

/-- `n` as `k` lower-case hexadecimal digits -/
def hexDigits : Nat → Nat → Str
  | 0, _ => []
  | k + 1, n => hexDigits k (n / 16) ++ [hexDigit (n % 16)]

def reprChar (q : Char) (c : Char) : Str :=
  if c = '\\' then ['\\', '\\']
  else if c = q then ['\\', q]
  else if c = '\n' then ['\\', 'n']
  else if c = '\r' then ['\\', 'r']
  else if c = '\t' then ['\\', 't']
  else if isNonPrintable c then
    (if c.toNat < 256 then '\\' :: 'x' :: hexDigits 2 c.toNat
     else if c.toNat < 65536 then '\\' :: 'u' :: hexDigits 4 c.toNat
     else '\\' :: 'U' :: hexDigits 8 c.toNat)
  else [c]

def reprBody (q : Char) : Str → Str
  | [] => []
  | c :: r => reprChar q c ++ reprBody q r

/-- `repr(str)` : single quotes unless the string contains a single quote and no double quote -/
def reprStr (x : Str) : Str :=
  let q := if x.contains '\'' && !x.contains '"' then '"' else '\''
  q :: reprBody q x ++ [q]

def reprAtom : Atom → Str
  | .none => s "None"
  | .bool true => s "True"
  | .bool false => s "False"
  | .int i => intStr i
  | .str x => reprStr x
  | .dt y mo d h mi sec =>
    s "datetime.datetime(" ++ natDigits y ++ s ", " ++ natDigits mo ++ s ", " ++ natDigits d ++ s ", " ++ natDigits h
      ++ s ", " ++ natDigits mi ++ (if sec = 0 then [] else s ", " ++ natDigits sec) ++ s ")"

def reprItems : List (Str × Atom) → Str
  | [] => []
  | [(k, v)] => reprStr k ++ s ": " ++ reprAtom v
  | (k, v) :: r => reprStr k ++ s ": " ++ reprAtom v ++ s ", " ++ reprItems r

def reprDict (d : List (Str × Atom)) : Str := '{' :: reprItems d ++ ['}']

def reprAtoms : List Atom → Str
  | [] => []
  | [a] => reprAtom a
  | a :: r => reprAtom a ++ s ", " ++ reprAtoms r

def reprPVal : PVal → Str
  | .atom a => reprAtom a
  | .dict d => reprDict d
  | .list l => '[' :: reprAtoms l ++ [']']
  | .tags _ => s "<tags>"        -- never an argument

/-- `str(lemma)` -/
def strAtom : Atom → Str
  | .str x => x
  | .int i => intStr i
  | .none => s "None"
  | .bool true => s "True"
  | .bool false => s "False"
  | .dt y mo d h mi sec =>
    pad4 y ++ ['-'] ++ pad2 mo ++ ['-'] ++ pad2 d ++ [' '] ++ pad2 h ++ [':'] ++ pad2 mi ++ [':'] ++ pad2 sec

/-- `Constituent.quoteSource` : a string as a double-quoted Python literal (repairs a4c65f5, 2b9e5f9) -/
def quoteSrcBody : Str → Str
  | [] => []
  | c :: r =>
    (if c = '\\' then ['\\', '\\'] else if c = '"' then ['\\', '"'] else if c = '\n' then ['\\', 'n']
     else if c = '\r' then ['\\', 'r'] else if c = Char.ofNat 0 then ['\\', 'x', '0', '0'] else [c])
      ++ quoteSrcBody r

def quoteSrc (x : Str) : Str := '"' :: quoteSrcBody x ++ ['"']

def printCall : Call → Str
  | .opt name arg => '.' :: name ++ ['('] ++ reprPVal arg ++ [')']
  | .tag2 name attrs => s ".tag(" ++ quoteSrc name ++ [','] ++ reprDict attrs ++ [')']

def printHist : List Call → Str
  | [] => []
  | c :: r => printCall c ++ printHist r

/-- `Constituent.langSource` (repair 09cd540) : `lang="…"` on every constituent that is not the root and whose language
    is not the root's; `root = none` at the root itself -/
def langArg (root : Option Lang) (lang : Lang) (first : Bool) : Str :=
  match root with
  | some l => if lang = l then [] else (if first then [] else [',']) ++ s "lang=\"" ++ lang.code ++ ['"']
  | none => []

mutual
/-- `toSource()` of a constituent inside an expression whose root has language `root` (`none`: the root itself) -/
def srcOf (root : Option Lang) : Expr → Str
  | .term n lemma _ => n.kind ++ ['('] ++ quoteSrc (strAtom lemma) ++ langArg root n.lang false ++ [')'] ++ printHist n.hist
  | .phr n es =>
    n.kind ++ ['('] ++ srcOfList (some (root.getD n.lang)) es ++ langArg root n.lang es.isEmpty ++ [')'] ++ printHist n.hist
  | .dep n t ds =>
    n.kind ++ ['('] ++ srcOf (some (root.getD n.lang)) t ++
      (if ds.isEmpty then [] else ',' :: srcOfList (some (root.getD n.lang)) ds) ++ langArg root n.lang false ++ [')']
      ++ printHist n.hist
def srcOfList (root : Option Lang) : List Expr → Str
  | [] => []
  | [e] => srcOf root e
  | e :: r => srcOf root e ++ [','] ++ srcOfList root r
end

/-- `e.toSource()` -/
def toSource (e : Expr) : Str := srcOf none e

/-! ### reading the source back -/

def isIdentChar (c : Char) : Bool := c.isAlphanum || c = '_'

def readIdent (x : Str) : Str × Str := (x.takeWhile isIdentChar, x.dropWhile isIdentChar)

/-- what a backslash followed by `e` denotes inside a Python string literal: `some (some c)` = the character `c`,
    `some none` = the two characters are kept (unknown escape), `none` = outside the model -/
def pyEscape (e : Char) : Option (Option Char) :=
  if e = '\\' then some (some '\\') else if e = '\'' then some (some '\'') else if e = '"' then some (some '"')
  else if e = 'n' then some (some '\n') else if e = 'r' then some (some '\r') else if e = 't' then some (some '\t')
  else if e = 'a' then some (some (Char.ofNat 7)) else if e = 'b' then some (some (Char.ofNat 8))
  else if e = 'f' then some (some (Char.ofNat 12)) else if e = 'v' then some (some (Char.ofNat 11))
  else if e = 'x' || e = 'u' || e = 'U' || e = 'N' || isDigit e || e = '\n' then none
  else some none

/-- the value of a list of hexadecimal digits -/
def hexOf : Str → Option Nat
  | [] => some 0
  | l => l.foldl (fun acc c => match acc, hexVal c with
      | some v, some d => some (v * 16 + d)
      | _, _ => none) (some 0)

/-- body of a Python string literal opened with `q`; `valueError` = an escape outside the model
    (`\N{…}`, octal); a raw line break (LF or CR) ends the line: SyntaxError -/
def readPyStr (q : Char) : Str → Except RouteErr (Str × Str)
  | [] => .error .syntaxError
  | c :: r =>
    if c = '\\' then
      match r with
      | [] => .error .syntaxError
      | e :: r1 =>
        if e = 'x' then
          match r1 with
          | a :: b :: r2 =>
            match hexOf [a, b], readPyStr q r2 with
            | some v, .ok (x, rest) => .ok (Char.ofNat v :: x, rest)
            | none, _ => .error .syntaxError
            | _, .error err => .error err
          | _ => .error .syntaxError
        else if e = 'u' then
          match r1 with
          | a :: b :: c :: d :: r2 =>
            match hexOf [a, b, c, d], readPyStr q r2 with
            | some v, .ok (x, rest) => .ok (Char.ofNat v :: x, rest)
            | none, _ => .error .syntaxError
            | _, .error err => .error err
          | _ => .error .syntaxError
        else if e = 'U' then
          match r1 with
          | a :: b :: c :: d :: a' :: b' :: c' :: d' :: r2 =>
            match hexOf [a, b, c, d, a', b', c', d'], readPyStr q r2 with
            | some v, .ok (x, rest) => .ok (Char.ofNat v :: x, rest)
            | none, _ => .error .syntaxError
            | _, .error err => .error err
          | _ => .error .syntaxError
        else
        match pyEscape e with
        | none => .error .valueError
        | some esc =>
          match readPyStr q r1 with
          | .error err => .error err
          | .ok (x, rest) =>
            match esc with
            | some ch => .ok (ch :: x, rest)
            | none => .ok ('\\' :: e :: x, rest)
    else if c = q then .ok ([], r)
    else if c = '\n' || c = '\r' then .error .syntaxError
    else match readPyStr q r with
      | .ok (x, rest) => .ok (c :: x, rest)
      | .error err => .error err

/-- one or more adjacent string literals (implicitly concatenated); `x` starts at a quote -/
def readPyStrs : Nat → Str → Except RouteErr (Str × Str)
  | 0, _ => .error .valueError
  | fuel + 1, x =>
    match x with
    | q :: r =>
      if q = '"' || q = '\'' then
        match r with
        | q1 :: q2 :: _ => if q1 = q && q2 = q then .error .syntaxError else    -- a triple quote: outside the model
          match readPyStr q r with
          | .error err => .error err
          | .ok (a, rest) =>
            match skipWs rest with
            | c :: rest' =>
              if c = '"' || c = '\'' then
                match readPyStrs fuel (c :: rest') with
                | .ok (b, rest'') => .ok (a ++ b, rest'')
                | .error err => .error err
              else .ok (a, skipWs rest)
            | [] => .ok (a, [])
        | _ =>
          match readPyStr q r with
          | .error err => .error err
          | .ok (a, rest) => .ok (a, skipWs rest)
      else .error .syntaxError
    | [] => .error .syntaxError

/-- an atomic literal; `nameError` for `datetime…` and any other free name -/
def readAtomLit (x : Str) : Except RouteErr (Atom × Str) :=
  match skipWs x with
  | [] => .error .syntaxError
  | c :: r =>
    if c = '"' || c = '\'' then
      match readPyStrs (r.length + 1) (c :: r) with
      | .ok (a, rest) => .ok (.str a, rest)
      | .error err => .error err
    else if isDigit c then let p := readNat (c :: r); .ok (.int p.1, p.2)
    else if c = '-' then
      match r with
      | d :: _ => if isDigit d then let p := readNat r; .ok (.int (-(p.1 : Int)), p.2) else .error .syntaxError
      | [] => .error .syntaxError
    else
      let p := readIdent (c :: r)
      if p.1 = s "True" then .ok (.bool true, p.2)
      else if p.1 = s "False" then .ok (.bool false, p.2)
      else if p.1 = s "None" then .ok (.none, p.2)
      else if p.1.isEmpty then .error .syntaxError
      else .error .nameError

/-- `'k': v, …}` after the opening brace -/
def readDictItems : Nat → Str → Except RouteErr (List (Str × Atom) × Str)
  | 0, _ => .error .valueError
  | fuel + 1, x =>
    match readAtomLit x with
    | .error err => .error err
    | .ok (.str k, r) =>
      match skipWs r with
      | ':' :: r1 =>
        match readAtomLit r1 with
        | .error err => .error err
        | .ok (v, r2) =>
          match skipWs r2 with
          | ',' :: r3 =>
            match readDictItems fuel r3 with
            | .ok (d, rest) => .ok ((k, v) :: d, rest)
            | .error err => .error err
          | '}' :: r3 => .ok ([(k, v)], r3)
          | _ => .error .syntaxError
      | _ => .error .syntaxError
    | .ok _ => .error .valueError

/-- a literal argument of an option call -/
def readLit (x : Str) : Except RouteErr (PVal × Str) :=
  match skipWs x with
  | '{' :: r =>
    match skipWs r with
    | '}' :: r' => .ok (.dict [], r')
    | r' =>
      match readDictItems (r'.length + 1) r' with
      | .ok (d, rest) => .ok (.dict d, rest)
      | .error err => .error err
  | y =>
    match readAtomLit y with
    | .ok (a, rest) => .ok (.atom a, rest)
    | .error err => .error err

/-- skip one argument whose evaluation raises NameError: up to the `,` or closing bracket that ends it -/
def skipArg : Nat → Nat → Str → Except RouteErr Str
  | 0, _, _ => .error .valueError
  | _ + 1, _, [] => .error .syntaxError
  | fuel + 1, depth, c :: r =>
    if c = '"' || c = '\'' then
      match readPyStr c r with
      | .ok (_, rest) => skipArg fuel depth rest
      | .error err => .error err
    else if c = '(' || c = '[' || c = '{' then skipArg fuel (depth + 1) r
    else if c = ')' || c = ']' || c = '}' then
      if depth = 0 then .ok (c :: r) else skipArg fuel (depth - 1) r
    else if c = ',' && depth = 0 then .ok (c :: r)
    else skipArg fuel depth r

def termKindsSrc : List Str := jsonTermKinds
def phraseKindsSrc : List Str := jsonPhraseKinds

inductive Arg where
  | e (p : Prog)
  | v (v : PVal)
  | kw (lang : Str)          -- `lang="…"`
  | nameErr

def argProgs : List Arg → Option (List Prog)
  | [] => some []
  | .e p :: r => (argProgs r).map (p :: ·)
  | .v (.atom (.str x)) :: r => (argProgs r).map (Prog.lit x :: ·)
  | _ :: _ => none

def argVals : List Arg → Option (List PVal)
  | [] => some []
  | .v v :: r => (argVals r).map (v :: ·)
  | _ :: _ => none

def hasNameErr : List Arg → Bool
  | [] => false
  | .nameErr :: _ => true
  | _ :: r => hasNameErr r

/-- the positional arguments and the `lang=` keyword argument (last) -/
def splitKw : List Arg → List Arg × Option Str
  | [] => ([], none)
  | [.kw x] => ([], some x)
  | a :: r => let p := splitKw r; (a :: p.1, p.2)

/-- the factory functions: `if lang == "en": …En else …Fr`; without `lang=`, the current language -/
def kwLang (cur : Lang) : Option Str → Lang
  | none => cur
  | some x => if x = s "en" then .en else .fr

/-- the node a constructor call denotes when evaluated under the current language `cur` -/
def mkNode (cur : Lang) (name : Str) (args0 : List Arg) : Except RouteErr Prog :=
  let args := (splitKw args0).1
  let lang := kwLang cur (splitKw args0).2
  if termKindsSrc.contains name then
    match args with
    | [] => .ok (.term name .none lang)
    | [.v (.atom a)] => .ok (.term name a lang)
    | _ => .error .valueError            -- a second positional argument (`lang`) is outside the model
  else if phraseKindsSrc.contains name then
    match argProgs args with
    | some ps => .ok (.phr name lang ps)
    | none => .error .valueError
  else if deprels.contains name then
    match argProgs args with
    | some (t :: ps) => .ok (.dep name lang t ps)
    | _ => .error .valueError
  else .error .nameError

/-- does the text start with a constructor call `Kind(` ? -/
def startsCall (y : Str) : Bool :=
  let id := readIdent y
  !id.1.isEmpty && (skipWs id.2).head? = some '(' &&
    (termKindsSrc.contains id.1 || phraseKindsSrc.contains id.1 || deprels.contains id.1)

/-- one argument: a constituent expression (read by `rx`) or a literal -/
def readOne (rx : Str → Except RouteErr (Prog × Str)) (y : Str) : Except RouteErr (Arg × Str) :=
  if (readIdent y).1 = s "lang" && (readIdent y).2.head? = some '=' then
    match readAtomLit ((readIdent y).2.drop 1) with
    | .ok (.str x, rest) => .ok (.kw x, rest)
    | .ok _ => .error .valueError
    | .error err => .error err
  else if startsCall y then
    match rx y with
    | .ok (p, rest) => .ok (.e p, rest)
    | .error err => .error err
  else
    match readLit y with
    | .ok (v, rest) => .ok (.v v, rest)
    | .error .nameError =>
      -- an unbound name (in printed sources: `datetime.datetime(…)` inside an option argument)
      match skipArg (y.length + 1) 0 y with
      | .ok rest => .ok (.nameErr, rest)
      | .error err => .error err
    | .error err => .error err

mutual
/-- `Name(args)trailers` -/
def readExpr (cur : Lang) : Nat → Str → Except RouteErr (Prog × Str)
  | 0, _ => .error .valueError
  | fuel + 1, x =>
    let p := readIdent (skipWs x)
    if p.1.isEmpty then .error .syntaxError else
    match skipWs p.2 with
    | '(' :: r =>
      match readArgs cur fuel r with
      | .error err => .error err
      | .ok (args, rest) =>
        if hasNameErr args then .error .nameError else
        match mkNode cur p.1 args with
        | .error err => .error err
        | .ok node => readTrailers cur fuel node rest
    | _ => .error .nameError
/-- `arg, arg, … )` after the opening parenthesis -/
def readArgs (cur : Lang) : Nat → Str → Except RouteErr (List Arg × Str)
  | 0, _ => .error .valueError
  | fuel + 1, x =>
    match skipWs x with
    | ')' :: r => .ok ([], r)
    | y =>
      let one := readOne (readExpr cur fuel) y
      match one with
      | .error err => .error err
      | .ok (a, rest) =>
        match skipWs rest with
        | ',' :: r1 =>
          match readArgs cur fuel r1 with
          | .ok (as, rest') => .ok (a :: as, rest')
          | .error err => .error err
        | ')' :: r1 => .ok ([a], r1)
        | _ => .error .syntaxError
/-- `.name(args)` … -/
def readTrailers (cur : Lang) : Nat → Prog → Str → Except RouteErr (Prog × Str)
  | 0, _, _ => .error .valueError
  | fuel + 1, recv, x =>
    match skipWs x with
    | '.' :: r =>
      let p := readIdent r
      if p.1.isEmpty then .error .syntaxError else
      match skipWs p.2 with
      | '(' :: r1 =>
        match readArgs cur fuel r1 with
        | .error err => .error err
        | .ok (args, rest) =>
          if hasNameErr args then readTrailers cur fuel (.raiseName recv p.1) rest
          else if p.1 = s "add" then
            match args with
            | [.e a] => readTrailers cur fuel (.add recv a none) rest
            | [.v (.atom (.str a))] => readTrailers cur fuel (.add recv (.lit a) none) rest
            | [.e a, .v (.atom (.int i))] => readTrailers cur fuel (.add recv a (some i)) rest
            | _ => .error .valueError
          else
            match argVals args with
            | some vs => readTrailers cur fuel (.call recv p.1 vs) rest
            | none => .error .valueError
      | _ => .error .valueError
    | y => .ok (recv, y)
end

/-- `eval(text)` as a construction program, every constructor being called under the current language `cur` -/
def parseSrc (cur : Lang) (x : Str) : Except RouteErr Prog :=
  match readExpr cur (x.length + 1) x with
  | .ok (p, rest) => if (skipWs rest).isEmpty then .ok p else .error .syntaxError
  | .error err => .error err

/-- `eval(e.toSource())` while `cur` is current -/
def routeSource (env : Env) (cur : Lang) (e : Expr) : Except RouteErr (Expr × Nat) :=
  match parseSrc cur (toSource e) with
  | .error err => .error err
  | .ok p => build env cur p

end Pyrealb.Expr
