import Pyrealb.Model.HeapOps
/-! # C03 — the agreement structure, stated on the TREE (declarative specification)

`Model/HeapLink.plan` mirrors the order in which `linkProperties` performs its assignments.  This file states, without
any notion of order or of intermediate state, WHICH nodes of a noun phrase / clause / dependency node must end up
sharing the person-number-gender record of WHICH controller:

* `npDeps h p`      — the nodes that share the record of the head of the noun phrase `p`;
* `npNumberWriters` — the values that children (a numeral before the head, English `no`) impose on the head's number;
* `sSubject h p`, `sDeps h p subj` — the subject of a clause and the nodes that share its record;
* `DepGoal` (in `depGoals h p`) — for a dependency node: (node, whose record it must hold).

All of them are functions of the tree (kinds, lemmata, own properties, child lists) only; they are executable, and the
driver evaluates them on the histories of the correspondence check so that the harness can test them directly on the
live Python objects.  `Props/C03` proves that `exec (plan …)` establishes them. -/
namespace Pyrealb.Agree
open Pyrealb Pyrealb.Heap

/-- does the determiner / adjective / participle `e`, child of a noun phrase of language `lang`, agree with the head?
    English: adjectives, and determiners other than `no` and than possessives with an explicit owner number;
    French: adjectives, determiners, past participles. -/
def davAgrees (h : Heap) (lang : Lang) (e : Nat) : Bool :=
  match lang with
  | .en => h.kind e = .A || (h.kind e = .D && h.lemmaOf e != s "no" && !h.hasProp e ownKey)
  | .fr => (h.kind e = .A && h.lemmaOf e != s "quelques") || h.kind e = .D || isPP h e

/-- the nodes below the child `e` of a noun phrase that agree with its head -/
def npDepsOf (h : Heap) (lang : Lang) (e : Nat) : List Nat :=
  if h.isA e [.D, .A, .V] then (if davAgrees h lang e then [e] else [])
  else if h.kind e = .CP then e :: (h.kids e).filter (fun el => h.isA el [.A, .NO])
  else if h.isA e [.AP, .AdvP] then (h.kids e).filter (fun el => davAgrees h lang el)
  else []

/-- the children of `p` other than its head, with their index -/
def nonHead (h : Heap) (p : Nat) : List (Nat × Nat) :=
  (h.kids p).zipIdx.filter (fun ei => ei.2 != npHeadIndex h p)

/-- a subject pronoun in the genitive is not linked -/
def isGenPro (h : Heap) (subject : Nat) : Bool :=
  h.kind subject = .Pro && lookup cKey (h.node subject).props == some (.s (s "gen"))

/-- the `terminal` of the `phrase` child of `self` (else a `terminal` child of `self`) agrees with `subject`, and so
    does the phrase that contains it: (the nodes, the terminal); none when there is no such terminal or the subject is
    a genitive pronoun -/
def pwsFind (h : Heap) (self : Nat) (phrase terminal : Kind) (subject : Nat) : Option (List Nat × Nat) :=
  if isGenPro h subject then none
  else match h.getFromPath self [([phrase], false), ([terminal], false)] with
    | some pt =>
      match h.parentOf pt with
      | some pp => some ([pp, pt], pt)
      | none => some ([], pt)
    | none =>
      match h.getFromPath self [([terminal], false)] with
      | some pt => some ([pt], pt)
      | none => none

def pwsTargets (h : Heap) (self : Nat) (phrase terminal : Kind) (subject : Nat) : List Nat :=
  match pwsFind h self phrase terminal subject with
  | some (l, _) => l
  | none => []

/-- French: the attributes and past participles after the copula `v` (`vpcp` = a coordination of attributes inside the
    VP, if any) that agree with `subject`: with a coordination its adjectives, participles, APs and participial VPs;
    otherwise the adjective (phrase) of the VP or, failing that, EVERY past participle after the copula -/
def attrDeps (h : Heap) (lang : Lang) (v : Nat) (vpcp : Option Nat) (subject : Nat) : List Nat :=
  match lang with
  | .en => []
  | .fr =>
    if copulasFr.contains (h.lemmaOf v) then
      match vpcp with
      | some cp =>
        (h.kids cp).flatMap (fun e =>
          if h.kind e = .A then [e]
          else if isPP h e then [e]
          else if h.kind e = .AP then pwsTargets h e .AP .A subject
          else if h.kind e = .VP then
            match h.getConst e [.V] with
            | some w => if h.getProp w Heap.tKey == ppVal then [w] else []
            | none => []
          else [])
      | none =>
        match h.parentOf v with
        | none => []
        | some vp =>
          match pwsFind h vp .AP .A subject with
          | some (l, _) => l
          | none =>
            match (h.kids vp).idxOf? v with
            | none => []
            | some i => ((h.kids vp).drop (i + 1)).filter (fun e => isPP h e)
    else []

/-- `getattr(sp, "subject", None)`: the subject a clause has recorded (none when it has none) -/
def subjectAttr (h : Heap) (sp : Nat) : Option Nat :=
  match h.subject sp with
  | none => none
  | some subject => subject

/-- the relative clause of a noun phrase: (relative pronoun, its clause, the verb of the clause, the subject the clause
    has recorded — none when it has none) -/
def npRel (h : Heap) (p : Nat) : Option (Nat × Nat × Nat × Option Nat) :=
  match h.getFromPath p [([.S, .SP], false), ([.Pro], false)] with
  | none => none
  | some pro =>
    match h.parentOf pro with
    | none => none
    | some sp =>
      match h.getFromPath sp [([.VP], false), ([.V], false)] with
      | none => none
      | some v => some (pro, sp, v, subjectAttr h sp)

/-- the nodes of the relative clause that agree with the antecedent `p`: the verb after a SUBJECT relative pronoun
    (English `who, which, that`, French `qui, lequel`, when the pronoun is the subject of its clause — or, English
    `that`, when the clause has no other subject) with its French attributes; the pronouns `lequel, duquel, auquel`
    themselves. -/
def npRelDeps (h : Heap) (p : Nat) : List Nat :=
  match npRel h p with
  | none => []
  | some (pro, _, v, subject) =>
    let vpcp := h.getFromPath p [([.VP], false), ([.CP], false)]
    match (h.node p).lang with
    | .en => if relProsEn.contains (h.lemmaOf pro) && (subject == none || subject == some pro) then [v] else []
    | .fr =>
      let lem := h.lemmaOf pro
      if (lem = s "qui" || lem = s "lequel") && subject == some pro then
        [v] ++ (if lem = s "lequel" then [pro] else []) ++ attrDeps h .fr v vpcp p
      else if lem = s "duquel" || lem = s "auquel" then [pro]
      else []

/-- **the agreement class of a noun phrase**: every node that must share the record of the head of `p` -/
def npDeps (h : Heap) (p : Nat) : List Nat :=
  (nonHead h p).flatMap (fun ei => npDepsOf h (h.node p).lang ei.1) ++ npRelDeps h p

/-- a word that makes its noun phrase plural: the English determiner `no`, the French adjective `quelques` -/
def pluralMaker (h : Heap) (lang : Lang) (e : Nat) : Bool :=
  match lang with
  | .en => h.kind e = .D && h.lemmaOf e = s "no"
  | .fr => h.kind e = .A && h.lemmaOf e = s "quelques"

/-- the numbers imposed on the head by the child `e` at index `i` (head at `hi`): a numeral BEFORE the head gives its
    grammatical number, English `no` / French `quelques` (also inside an adjective phrase) give plural -/
def numberWrites (h : Heap) (lang : Lang) (hi : Nat) (ei : Nat × Nat) : List Val :=
  let isNo := fun (e : Nat) => pluralMaker h lang e
  if ei.2 = hi then []
  else if h.kind ei.1 = .NO && ei.2 < hi then [h.gramNumber ei.1]
  else if isNo ei.1 then [.s ['p']]
  else if h.isA ei.1 [.AP, .AdvP] then ((h.kids ei.1).filter isNo).map (fun _ => .s ['p'])
  else []

def npNumberWriters (h : Heap) (p : Nat) : List Val :=
  (h.kids p).zipIdx.flatMap (numberWrites h (h.node p).lang (npHeadIndex h p))

/-! ### clauses -/

def subjKinds : List Kind := [.NP, .N, .CP, .Pro]

/-- the verb of a clause: the V of its VP, else a V child -/
def sVerb (h : Heap) (p : Nat) : Option Nat := h.getFromPath p [([.VP], true), ([.V], false)]

/-- **the subject of a clause**: the first NP/N/CP/Pro child; in a subordinate (SP) whose first such child is a relative
    pronoun that cannot be subject (English `that`; French `que, où, dont`, `qui` after a preposition) the next one;
    none for an imperative. -/
def sSubject (h : Heap) (p : Nat) : Option Nat :=
  let els := h.kids p
  if (match sVerb h p with | some v => h.getProp v Heap.tKey == ipVal | none => false) then none
  else match h.getIndex p subjKinds with
    | none => none
    | some i =>
      match els[i]? with
      | none => none
      | some s0 =>
        if h.kind p = .SP && h.kind s0 = .Pro && shouldTryAnotherSubject h (h.node p).lang p (h.lemmaOf s0) i then
          match findIdxFrom (fun x => h.isA x subjKinds) (els.drop (i + 1)) (i + 1) with
          | some j => els[j]?
          | none => none
        else some s0

/-- **the agreement class of a clause**: the nodes that must share the record of the subject `subj`: the verb and
    its VP with the French attributes of a copula; or, when the verb phrases are coordinated, for EVERY coordination
    other than the subject that contains a VP: the verb (and VP) of each member and the French attributes of each -/
def sDeps (h : Heap) (p subj : Nat) : List Nat :=
  let lang := (h.node p).lang
  match pwsFind h p .VP .V subj with
  | some (l, v) => l ++ attrDeps h lang v (h.getFromPath p [([.VP], false), ([.CP], false)]) subj
  | none =>
    (h.kids p).flatMap (fun cp =>
      if h.kind cp = .CP && cp != subj && (h.getConst cp [.VP]).isSome then
        (h.kids cp).flatMap (fun e =>
          if (h.kind e).isPhrase then
            match pwsFind h e .VP .V subj with
            | some (l, v) => l ++ attrDeps h lang v (h.getFromPath e [([.CP], false)]) subj
            | none => []
          else [])
      else [])

/-! ### dependency nodes -/

/-- the record a node must hold after `linkProperties` of the dependency node `p`, as "the record that node `src` held
    before the run" -/
structure DepGoal where
  node : Nat
  src : Nat
  deriving DecidableEq, Repr

/-- French attribute of a copula: the subject dependent it agrees with -/
def depAttrSubject (h : Heap) (p headTerm : Nat) : Option Nat :=
  match (h.node p).lang with
  | .en => none
  | .fr =>
    if copulasFr.contains (h.lemmaOf headTerm) then
      match depFindIndex h p (fun d0 => h.kind d0 = .subj && termKindIs h d0 [.N, .Pro]) with
      | some i => (h.kids p)[i]?
      | none => none
    else none

/-- the index, among the dependents of the verbal dependent `dep`, of its relative pronoun (subj/comp/mod with a
    terminal Pro among the relative pronouns of the language) -/
def relIndex (h : Heap) (p dep : Nat) : Option Nat :=
  depFindIndex h dep (fun dI => h.isA dI [.subj, .comp, .mod] && termKindIs h dI [.Pro] &&
    (match (h.node p).lang with | .en => relProsEn | .fr => relProsFr).contains (termLemma h dI))

/-- goals of the dependents whose source is never re-pointed by the run: determiners, adjectives, participles,
    relative clauses, coordinated subjects (source = the node `p` itself or a subject dependent) -/
def depGoalsOf (h : Heap) (p headTerm : Nat) (dep : Nat) : List DepGoal :=
  match (h.node dep).term with
  | none => []
  | some depTerm =>
    match h.kind dep with
    | .det => if h.kind depTerm = .D then [⟨depTerm, p⟩] else []
    | .mod | .comp =>
      if h.kind depTerm = .A || isPP h depTerm then
        match depAttrSubject h p headTerm with
        | some sd => if h.kind sd = .subj then [⟨depTerm, sd⟩] else []   -- (a coordination of subjects: see coord)
        | none => [⟨depTerm, p⟩]
      else if h.kind depTerm = .V then
        match relIndex h p dep with
        | some i =>
          match (h.kids dep)[i]? with
          | some dr => if h.kind dr = .subj then [⟨depTerm, p⟩] else []
          | none => []
        | none => []
      else []
    | .coord =>
      match (h.kids dep).head? with
      | some firstDep => if h.kind firstDep = .subj then [⟨dep, p⟩] else []
      | none => []
    | _ => []

/-- the nodes that the step of `linkProperties` for the dependent `d` may re-point (besides the head terminal) -/
def depNodes (h : Heap) (d : Nat) : List Nat :=
  d :: ((h.node d).term.toList ++ (h.kids d).flatMap (fun dI => dI :: (h.node dI).term.toList))

/-- the dependency node `p` (head terminal `ht`) is a TREE: its dependents are distinct, the sub-trees of two dependents
    share no node, and neither `p` nor its head terminal occurs below a dependent -/
structure DepTree (h : Heap) (p ht : Nat) : Prop where
  nodup : (h.kids p).Nodup
  disj : ∀ d1 ∈ h.kids p, ∀ d2 ∈ h.kids p, d1 ≠ d2 → ∀ x ∈ depNodes h d1, x ∉ depNodes h d2
  pOut : ∀ d ∈ h.kids p, p ∉ depNodes h d
  hOut : ∀ d ∈ h.kids p, ht ∉ depNodes h d
  pNe : p ≠ ht

/-- the subject dependents of a verb-headed node, in order: the verb takes the record of the LAST one -/
def depSubjects (h : Heap) (p : Nat) : List Nat := (h.kids p).filter (fun d => h.kind d = .subj)

def depGoals (h : Heap) (p : Nat) : List DepGoal :=
  match (h.node p).term with
  | none => []
  | some headTerm =>
    (h.kids p).flatMap (depGoalsOf h p headTerm) ++
    (if h.kind headTerm = .V then
      match (depSubjects h p).getLast? with
      | some d => [⟨headTerm, d⟩]
      | none => []
     else [])

/-! ### the read rule and "linked" -/

/-- `d` reads its person/number/gender from the record of `c` -/
def Linked (h : Heap) (c d : Nat) : Prop := h.peng d = h.peng c ∧ (h.peng c).isSome

def isPengKey (k : Str) : Bool := k == Heap.peKey || k == Heap.nKey || k == Heap.gKey

end Pyrealb.Agree
