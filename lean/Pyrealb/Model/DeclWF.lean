import Pyrealb.Model.Decl
/-! # Well-formedness predicates for the declension model (decidable; evaluated by the driver on every real
lexicon entry, proved of the generated tables by `decide +kernel` in `Props/C02`). They are the hypotheses of the
totality theorems. -/
namespace Pyrealb.Decl

/-- every table has at least one row, and when its first row carries `pe` every row does
    (`Terminal.setLemma` indexes `dd[0]` and `dd[i]["pe"]`; `Terminal.decline` indexes `declension[0]`) -/
def WFTable (tb : Table) : Prop :=
  match tb.rows with
  | [] => False
  | d0 :: _ => d0.get Feat.pe ≠ none → ∀ d ∈ tb.rows, d.get Feat.pe ≠ none

instance (tb : Table) : Decidable (WFTable tb) := by
  unfold WFTable; split <;> infer_instance

def WFRules (rules : Rules) : Prop := ∀ p ∈ rules, WFTable p.2

instance (rules : Rules) : Decidable (WFRules rules) := by unfold WFRules; infer_instance

/-- `int(p)` succeeds on the person the terminal carries (or it carries none) -/
def PeVal (v : FV) : Prop :=
  v = FV.none ∨ (∃ i, v = FV.int i) ∨ (∃ b, v = FV.bool b) ∨ (∃ s, v = FV.str s ∧ s ≠ [] ∧ digitsVal s 0 ≠ none)

/-- `lexicon[lemma][pos]` -/
def lexPos (lex : Lex) (lemma pos : Str) : Option PosEntry :=
  match lookup lemma lex with
  | none => none
  | some info => lookup pos info

/-- a constructed terminal whose lexicon entry is usable: its table exists and its ending matches the lemma (or the
    lemma is simply unknown, or it is an adverb); the person it carries is a number; an English noun says whether
    it is countable; an English adjective or adverb that has an adjective entry points to an existing adjective table -/
def Usable (rules : Rules) (lex : Lex) (t : Term) : Prop :=
  (t.tab = none → t.pos ≠ Pos.Adv → t.real ≠ none) ∧
  PeVal t.getPe ∧
  (t.lang = Lang.en → t.pos = Pos.N → ∀ e, lexPos lex t.lemma "N".toList = some e → lookup "cnt".toList e ≠ none) ∧
  (t.lang = Lang.en → (t.pos = Pos.A ∨ t.pos = Pos.Adv) → ∀ e, lexPos lex t.lemma "A".toList = some e →
      ∃ atab atable, lookup "tab".toList e = some (LV.str atab) ∧ lookup atab rules = some atable)

/-- executable version of `Usable` for the driver's sweep over the real lexicons -/
def peValB : FV → Bool
  | .none => true
  | .int _ => true
  | .bool _ => true
  | .str s => s ≠ [] ∧ (digitsVal s 0).isSome

def usableB (rules : Rules) (lex : Lex) (t : Term) : Bool :=
  (t.tab.isSome || t.pos = Pos.Adv || t.real.isSome) &&
  peValB t.getPe &&
  (!(t.lang = Lang.en ∧ t.pos = Pos.N) ||
    (match lexPos lex t.lemma "N".toList with | some e => (lookup "cnt".toList e).isSome | none => true)) &&
  (!(t.lang = Lang.en ∧ (t.pos = Pos.A ∨ t.pos = Pos.Adv)) ||
    (match lexPos lex t.lemma "A".toList with
     | some e => (match lookup "tab".toList e with
        | some (LV.str atab) => (lookup atab rules).isSome
        | _ => false)
     | none => true))

/-- option calls inside the modelled value domain, `.maje()` apart -/
def ValidOpts (opts : List (Str × OV)) : Prop :=
  ∀ o ∈ opts, validVals o.1 ≠ none ∧ ∀ b, o.2 ≠ OV.bool b

end Pyrealb.Decl
