import Pyrealb.Model.Basic
/-! # Data types of the declension model (C02, C18)

`rules-*.json:declension` and the fragment of a lexicon that a terminal consults, as Lean data.
The tables themselves are generated (`Pyrealb/Gen/DeclEn.lean`, `DeclFr.lean`); the lexicons are not turned into
Lean source: the few entries a realization consults travel with the request (`Lex`).

API for other families (C18): `Feat`, `FV`, `Row`, `Table`, `Rules`, `Row.get`, `LV`, `PosEntry`, `LexEntry`, `Lex`,
`Lang`, `Pos`, `OV`. -/
namespace Pyrealb.Decl

/-- decidable equality of results (core has none for `Except`) -/
instance exceptDecEq {ε α : Type} [DecidableEq ε] [DecidableEq α] : DecidableEq (Except ε α)
  | .ok a, .ok b => if h : a = b then isTrue (by rw [h]) else isFalse (by intro hh; cases hh; exact h rfl)
  | .error a, .error b => if h : a = b then isTrue (by rw [h]) else isFalse (by intro hh; cases hh; exact h rfl)
  | .ok _, .error _ => isFalse (by intro hh; cases hh)
  | .error _, .ok _ => isFalse (by intro hh; cases hh)

inductive Lang where
  | en | fr
  deriving DecidableEq, Repr, Inhabited

/-- the five declinable terminal types -/
inductive Pos where
  | N | A | Adv | D | Pro
  deriving DecidableEq, Repr, Inhabited

def Pos.name : Pos → Str
  | .N => "N".toList | .A => "A".toList | .Adv => "Adv".toList | .D => "D".toList | .Pro => "Pro".toList

/-- feature names that occur as keys of a declension row (`val` apart) or of the request (`keyVals`) -/
inductive Feat where
  | g | n | pe | own | tn | c | f | pt
  | other (name : Str)
  deriving DecidableEq, Repr, Inhabited

/-- a feature value: JSON string or integer; `none` is Python's `None` and `bool` a Python bool (both possible
    in a request only: `.tn()` without argument stores `True`) -/
inductive FV where
  | str (v : Str)
  | int (i : Int)
  | none
  | bool (b : Bool)
  deriving DecidableEq, Repr, Inhabited

/-- the wildcard value `"x"` -/
def FV.x : FV := .str ['x']

/-- one row of a declension table: `{"val": …, <feature>: <value>, …}` -/
structure Row where
  val : Str
  feats : List (Feat × FV)
  deriving DecidableEq, Repr, Inhabited

/-- `d[key]` / `key in d` on a row (JSON objects have unique keys; first binding) -/
def Row.get (r : Row) (k : Feat) : Option FV :=
  match r.feats.find? (fun p => p.1 = k) with
  | some p => some p.2
  | none => none

/-- `rules["declension"][tab]` -/
structure Table where
  ending : Str
  rows : List Row
  deriving DecidableEq, Repr, Inhabited

/-- `rules["declension"]`: table id ↦ table, in file order -/
abbrev Rules := List (Str × Table)

/-- a value in a lexicon entry (`tab`, `g`, `n`, `pe`, `cnt`, … ; anything else is `other`) -/
inductive LV where
  | str (v : Str)
  | int (i : Int)
  | other
  deriving DecidableEq, Repr, Inhabited

def LV.toFV : LV → FV
  | .str v => .str v
  | .int i => .int i
  | .other => .none

/-- `lexicon[lemma][pos]` with its keys in file order (the order is significant: `Terminal.setLemma` iterates) -/
abbrev PosEntry := List (Str × LV)
/-- `lexicon[lemma]`: the dict-valued keys (parts of speech) -/
abbrev LexEntry := List (Str × PosEntry)
/-- the part of the current language's lexicon a request can consult -/
abbrev Lex := List (Str × LexEntry)

/-- an option value as written by the user: `"m"`, `2`, `None`, `True` -/
inductive OV where
  | str (v : Str)
  | int (i : Int)
  | none
  | bool (b : Bool)
  deriving DecidableEq, Repr, Inhabited

end Pyrealb.Decl
