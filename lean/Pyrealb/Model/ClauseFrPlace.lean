import Pyrealb.Model.ClauseFr
/-! # French clause model — `NonTerminalFr.doPronounPlacement`, `ConstituentFr.check_for_t`, liaison

`doPronounPlacement` (NonTerminalFr.py:163-253) works on the flat list of realized terminals with index
arithmetic; the model is the same computation written by structural recursion on the list:

* loop 1 (`negModProg`): the first verb that carries `neg2` AND is a modality/progressive auxiliary gets
  `ne` before it and the second negative word right after it (after the next token when the verb is `lier`);
  the scan of loop 2 starts 3 (5 for the progressive) tokens after `ne`;
* loop 2: `findVerb` skips to the first verb that is not such an auxiliary, `collect` pops the clitic pronouns
  that follow it until a preposition / conjunction / adverb / relative pronoun stops the scan;
* the popped pronouns (preceded by `ne`, the second negative word of an infinitive, a reflexive pronoun) are put
  back before the verb — after it for a positive imperative — after `pros.sort(key=…)`. -/
namespace Pyrealb.ClauseFr
open Pyrealb
open Pyrealb.Gen.ClauseFr

/-- Python `list.insert(i, x)` (an index beyond the end appends) -/
def pyInsert {α} : Nat → α → List α → List α
  | 0, x, l => x :: l
  | _ + 1, x, [] => [x]
  | k + 1, x, a :: r => a :: pyInsert k x r

/-- loop 1. Returns the new list and `iDeb`; `none` when no verb qualifies. -/
def negModProg : List Tok → Option (List Tok × Nat)
  | [] => none
  | c :: rest =>
    match c with
    | .v x form =>
      match x.neg2 with
      | some w =>
        if x.isMod ∨ x.isProg then
          some (.adv ne :: .v { x with neg2 := none } form :: pyInsert (if x.lier then 1 else 0) (.q w) rest,
                3 + (if x.isProg then 2 else 0))
        else (negModProg rest).map (fun r => (c :: r.1, r.2 + 1))
      | none => (negModProg rest).map (fun r => (c :: r.1, r.2 + 1))
    | _ => (negModProg rest).map (fun r => (c :: r.1, r.2 + 1))

/-- what loop 2 finds: the tokens before the verb, the last progressive auxiliary seen, the verb, what follows -/
structure Found where
  pre : List Tok
  prog : Option VT
  verb : VT
  form : Str
  post : List Tok
  deriving Repr

/-- loop 2, first part: skip to the first `V` that is neither `isProg` nor `isMod` -/
def findVerb (prog : Option VT) : List Tok → Option Found
  | [] => none
  | c :: rest =>
    match c with
    | .v x f =>
      if x.isProg ∨ x.isMod then
        (findVerb (if x.isProg then some x else prog) rest).map (fun r => { r with pre := c :: r.pre })
      else some { pre := [], prog := prog, verb := x, form := f, post := rest }
    | _ => (findVerb prog rest).map (fun r => { r with pre := c :: r.pre })

/-! ### `sepWordREC` of ConstituentFr: `((?:[^<\w…'-]*(?:<[^>]+>)?)*)([\w…'-]+)?(.*)` — the first word of a realization -/

/-- the word class `[\w…'-]` (with `re.I`) on the alphabet of the realizations: ASCII, the Latin-1 and Latin Extended
    letters, the characters listed in the pattern (`Gen.sepWordExtra`) -/
def isWordCh (c : Char) : Bool :=
  c.isAlphanum || c == '_' || sepWordExtra.contains c ||
    (192 ≤ c.toNat && c.toNat ≤ 591 && c.toNat != 215 && c.toNat != 247) ||
    c.toNat == 170 || c.toNat == 181 || c.toNat == 186

/-- `[^>]+>` can match right after a `<` -/
def tagOK : Str → Bool
  | [] => false
  | c :: cs => c != '>' && cs.contains '>'

/-- what group 1 leaves: runs of non-word characters other than `<`, and complete tags `<…>`, are skipped -/
def skipPre : Bool → Str → Str
  | false, [] => []
  | false, c :: cs =>
    if c == '<' then (if tagOK cs then skipPre true cs else c :: cs)
    else if isWordCh c then c :: cs else skipPre false cs
  | true, [] => []
  | true, c :: cs => if c == '>' then skipPre false cs else skipPre true cs

/-- group 2 of `sepWordREC.match(x)`: the first word, `none` when there is none -/
def firstWord (x : Str) : Option Str :=
  let w := (skipPre false x).takeWhile isWordCh
  if w.isEmpty then none else some w

/-- the guard « already elided » of loop 2: `realization.endswith("'")` before commit c4595d2, the first word of the
    realization ends with an apostrophe since (`Gen.elidedFirstWord`) -/
def elidedForm (form : Str) : Bool :=
  if elidedFirstWord then
    match firstWord form with
    | some w => endsWith w ['\'']
    | none => false
  else endsWith form ['\'']

/-- the test of loop 2 on a pronoun that follows the verb: not elided, case refl/acc/dat or lemma y/en -/
def isCliticPro (x : ProT) (form : Str) : Bool :=
  !(elidedForm form) &&
    ((match x.c with | some c => cliticCases.contains c.str | none => false) || x.lemma == yStr || x.lemma == enStr)

/-- loop 2, second part: `(popped clitics, what stays after the verb)` -/
def collect : List Tok → List Tok × List Tok
  | [] => ([], [])
  | c :: rest =>
    match c with
    | .pro x f =>
      if isCliticPro x f then
        let r := collect rest
        (c :: r.1, r.2)
      else if relativeStop.contains x.lemma then ([], c :: rest)
      else
        let r := collect rest
        (r.1, c :: r.2)
    | .p l =>
      if l = par then
        match rest with
        | .pro y g :: rest' =>
          let r := collect rest'
          (r.1, c :: .pro y g :: r.2)
        | _ => ([], c :: rest)
      else ([], c :: rest)
    | .adv l =>
      if l = par then
        match rest with
        | .pro y g :: rest' =>
          let r := collect rest'
          (r.1, c :: .pro y g :: r.2)
        | _ => ([], c :: rest)
      else ([], c :: rest)
    | _ =>
      let r := collect rest
      (r.1, c :: r.2)

/-- which of the four rank tables `doPronounPlacement` selects -/
inductive CTable where | std | ipNeg | ipPos | inf
  deriving DecidableEq, Repr

def CTable.ranks : CTable → List (Str × Nat)
  | .std => proclitiqueOrdre
  | .ipNeg => proclitiqueOrdreImperatifNeg
  | .ipPos => proclitiqueOrdreImperatifPos
  | .inf => proclitiqueOrdreInfinitif

def tableFor (x : VT) : CTable :=
  if x.t = .ip then (if x.neg2.isSome then .ipNeg else .ipPos)
  else if x.t = .b then .inf else .std

/-- realization of a token (what the rank tables are keyed on) -/
def Tok.form : Tok → Str
  | .v _ f => f
  | .qv l _ => bracket l
  | .pro _ f => f
  | .adv l => l
  | .q l => l
  | .p l => l
  | .d _ => ['l','e']
  | .n _ => ['n']

/-- the sort key once it looks a string up: the realization — the second negative word standing for "pas" when the
    key says so (`Gen.sortNegAsPas`; comment of the tables: « pas — s'applique aussi aux autres négations ») ;
    unknown → 100 -/
def rankOf (tb : CTable) (c : Tok) : Nat :=
  let key := match c with
    | .q _ => if sortNegAsPas then pas else c.form
    | _ => c.form
  (lookup key tb.ranks).getD 100

/-- stable insertion sort by key (Python `list.sort(key=…)` is stable): an element goes before the first
    already-sorted (i.e. later) element whose key is not smaller -/
def insertBy {α} (k : α → Nat) (x : α) : List α → List α
  | [] => [x]
  | a :: r => if k x ≤ k a then x :: a :: r else a :: insertBy k x r

def sortBy {α} (k : α → Nat) : List α → List α
  | [] => []
  | a :: r => insertBy k a (sortBy k r)

/-- `pros.sort(key=lambda pro: cliticTable[pro] if pro in cliticTable else 100)`: the key tests the Terminal object
    against a dict of strings, so every key is 100 and the stable sort is the identity — unless the repository's
    lambda looks the realization up (`Gen.sortKeyOnString`, lifted from the source on every run). -/
def sortPros (tb : CTable) (pros : List Tok) : List Tok :=
  if sortKeyOnString then sortBy (rankOf tb) pros else pros

/-- the reflexive pronoun `Pro("moi").c("refl").pe(..).n(..).g(..)` realized -/
def reflPro (src : VT) : Tok :=
  let p : ProT := { lemma := moi, c := some .refl, tn := false, pe := src.epe, n := src.en, g := src.g }
  .pro p ((proForm p).getD (bracket moi))

/-- `NonTerminalFr.doPronounPlacement(cList)`; `refl` = the clause's `typ.refl` (read by `isReflexive`) -/
def placePronouns (refl : Bool) (cl : List Tok) : Except Crash (List Tok) :=
  let (cl1, iDeb) := match negModProg cl with
    | some r => r
    | none => (cl, 0)
  match findVerb none (cl1.drop iDeb) with
  | none => .ok cl1
  | some fd => do
    let x := fd.verb
    let tb := tableFor x
    let negToks : List Tok := match x.neg2 with
      | none => []
      | some w => if x.t = .b then [.adv ne, .q w] else [.adv ne]
    let after : Option Str := match x.neg2 with
      | some w => if x.t = .b then none else some w
      | none => none
    let x' : VT := if x.t = .b then x else { x with neg2 := none }
    let isR ← isReflexive x refl
    let reflToks : List Tok := if isR ∧ x.t ≠ .pp then [reflPro (fd.prog.getD x)] else []
    let r := collect fd.post
    let pros := sortPros tb (negToks ++ reflToks ++ r.1)
    let post := match after with
      | some w => pyInsert (if x.lier then 1 else 0) (.q w) r.2
      | none => r.2
    let head := cl1.take iDeb ++ fd.pre
    if tb = .ipPos then pure (head ++ [.v x' fd.form] ++ pros ++ post)
    else pure (head ++ pros ++ [.v x' fd.form] ++ post)

/-! ## output: liaison, `-t-`, noun phrases collapsed -/

structure OutTok where
  kind : Str
  lemma : Str
  form : Str
  link : Str
  deriving DecidableEq, Repr

def Tok.lier : Tok → Bool
  | .v x _ => x.lier
  | .qv _ l => l
  | _ => false

def lastChar? (x : Str) : Option Char := x.getLast?

/-- `ConstituentFr.check_for_t(terminals, i)`: `(what follows the hyphen, realization of terminals[i] afterwards)`.
    `bPlain`: the realization of `terminals[i+1]` is still the bare word (the last terminal of the clause already
    carries the punctuation `.a(..)` appended, so `== "je"` fails there while the `\w+` prefix test of `-t-` does not). -/
def checkForT (a b : Tok) (bPlain : Bool := true) : Str × Str :=
  match a, b with
  | .v _ fa, .pro _ fb =>
    let notDT : Bool := match lastChar? fa with
      | some ch => !(tNotAfter.contains ch)
      | none => false
    if notDT && tPronouns.contains fb then (['t','-'], fa)
    else if fa = ['p','e','u','x'] ∧ fb = je ∧ bPlain then ([], ['p','u','i','s'])
    else ([], fa)
  | _, _ => ([], a.form)

def kindStr : Tok → Str
  | .v _ _ => ['V'] | .qv _ _ => ['Q'] | .pro _ _ => ['P','r','o'] | .adv _ => ['A','d','v'] | .q _ => ['Q']
  | .p _ => ['P'] | .d _ => ['D'] | .n _ => ['N']

def lemmaStr : Tok → Str
  | .v x _ => x.lex.lemma | .qv l _ => l | .pro x _ => x.lemma | .adv l => l | .q l => l | .p l => l
  | .d _ => [] | .n _ => []

def natStr (n : Nat) : Str := (toString n).toList

/-- tokens with their link to the next token; `lier` on the last token is ignored by `detokenize`.
    `hasEnd`: something was appended to the last terminal by `.a(..)` -/
def outToks (hasEnd : Bool) : List Tok → List OutTok
  | [] => []
  | [a] => [one a [] a.form]
  | a :: b :: rest =>
    (if a.lier then
      let r := checkForT a b (!(rest.isEmpty && hasEnd))
      one a (['-'] ++ r.1) r.2
    else one a [] a.form) :: outToks hasEnd (b :: rest)
where
  one (a : Tok) (link : Str) (form : Str) : OutTok :=
    match a with
    | .d i => { kind := ['N','P'], lemma := natStr i, form := [], link := link }
    | .n i => { kind := ['N','P'], lemma := natStr i, form := [], link := link }
    | _ => { kind := kindStr a, lemma := lemmaStr a, form := form, link := link }

/-- adjacent tokens of the same noun phrase become one symbolic token (the link of the last one is kept) -/
def collapseNP : List OutTok → List OutTok
  | [] => []
  | a :: rest =>
    match collapseNP rest with
    | [] => [a]
    | b :: r => if a.kind = ['N','P'] ∧ b.kind = ['N','P'] ∧ a.lemma = b.lemma then b :: r else a :: b :: r

/-- `removeEmpty`: `if cList[i].realization=="" and len(cList)>1: del cList[i]` -/
def removeEmptyAux (kept : Nat) : List Tok → List Tok
  | [] => []
  | a :: rest =>
    if a.form.isEmpty ∧ kept + rest.length + 1 > 1 then removeEmptyAux kept rest
    else a :: removeEmptyAux (kept + 1) rest

def removeEmpty (l : List Tok) : List Tok := removeEmptyAux 0 l

end Pyrealb.ClauseFr
