import Pyrealb.Model.ClauseFrDep
/-! # French clause model — entry point: one specification, either notation -/
namespace Pyrealb.ClauseFr

inductive Notation where | phrase | dep
  deriving DecidableEq, Repr

/-- realization of a clause specification rendered into the given notation: the token list (pronouns placed,
    liaison decided, noun phrases symbolic) and what is appended to the last token, or the exception raised -/
def realize (nota : Notation) (sp : Spec) : Except Crash Out :=
  match nota with
  | .phrase => realizePhrase sp
  | .dep => realizeDep sp

/-- the terminals of the realized clause (pronouns placed), before the liaison step -/
def realizeToks (nota : Notation) (sp : Spec) : Except Crash (List Tok) :=
  match nota with
  | .phrase => (phraseToks sp).map (·.1)
  | .dep => (depToks sp).map (·.1)

end Pyrealb.ClauseFr
