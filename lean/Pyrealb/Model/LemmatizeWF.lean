import Pyrealb.Model.Lemmatize
import Pyrealb.Gen.ConjEn
import Pyrealb.Gen.ConjFr
import Pyrealb.Gen.DeclEn
import Pyrealb.Gen.DeclFr
/-! # C18 — the declarative side (which forms an entry can take) and the decidable hypotheses of the theorems

* `derivable…`: the forms a lexicon entry can take *according to its table*: every non-null cell of every row, asked
  of the realizer with the cell's OWN coordinates as options (tense/person/number, or gender/number of a participle;
  every feature of a declension row) and kept when the realizer answers that very cell without a warning.  No
  reference to `lemmatize.py`'s option inference.  This is the spec side of `expand_complete`.
* `wfConj…`, `DistinctRows…`, `CtorOK`: decidable hypotheses of the soundness theorems; proved of every generated
  table by `decide +kernel` in `Props/C18`, evaluated on every real lexicon entry by the driver (`entryWF`). -/
namespace Pyrealb.Lemmatize
open Pyrealb Pyrealb.Decl

/-! ## forms derivable from a conjugation table -/

/-- the verb's own token when `conjugate` succeeds without a warning -/
def verbForm (env : Env) (lemma : Str) (verb : Option Conj.Verb) (o : VOpts) : Option Str :=
  match env.lang with
  | .en =>
    match ConjEn.conjugate env.conj env.en lemma verb o.pe o.n o.t with
    | .ok r => if r.warns = 0 then some r.self else none
    | .error _ => none
  | .fr =>
    match ConjFr.conjugate env.conj env.fr lemma verb none o.pe o.n o.g o.t with
    | .ok r => if r.warns = 0 then (r.toks.find? (·.isV)).map (·.real) else none
    | .error _ => none

def personOf (i : Nat) : Conj.Person := if i % 3 = 0 then .p1 else if i % 3 = 1 then .p2 else .p3

/-- the coordinates of the cells of one row: (cell, options) -/
def rowCoords (t : Conj.Tense) : Conj.Row → List (Str × VOpts)
  | .null => []
  | .str x => [(x, { t := t })]
  | .list l =>
    if l.length = 6 then
      (List.range 6).filterMap (fun i => match l[i]? with
        | some (some c) => some (c, { t := t, pe := personOf i, n := if i ≥ 3 then .p else .s })
        | _ => none)
    else if l.length = 4 then
      (List.range 4).filterMap (fun i => match l[i]? with
        | some (some c) => some (c, { t := t, g := if i % 2 = 1 then .f else .m, n := if i ≥ 2 then .p else .s })
        | _ => none)
    else []

/-- every form the verb can take according to its table -/
def derivableConj (env : Env) (lemma : Str) (verb : Option Conj.Verb) : List Str :=
  match verb with
  | none => []
  | some v =>
    match lookup v.tab env.conj with
    | none => []
    | some tb =>
      if endsWith lemma tb.ending then
        let radical := dropRight lemma tb.ending.length
        tb.rows.flatMap (fun (kr : Str × Conj.Row) =>
          match Conj.Tense.ofCode? kr.1 with
          | none => []
          | some t =>
            (rowCoords t kr.2).filterMap (fun (c, o) =>
              if verbForm env lemma verb o = some (radical ++ c) then some (radical ++ c) else none))
      else []

/-! ## forms derivable from a declension table -/

/-- a row's features as option calls (`own` is set by `.ow()`; features without an option method are skipped) -/
def rowOpts (d : Row) : List (Str × OV) :=
  d.feats.filterMap (fun (ft, v) =>
    match ft with
    | .g => some ("g".toList, fvToOV v)
    | .n => some ("n".toList, fvToOV v)
    | .pe => some ("pe".toList, fvToOV v)
    | .own => some ("ow".toList, fvToOV v)
    | .tn => some ("tn".toList, fvToOV v)
    | .c => some ("c".toList, fvToOV v)
    | .f => some ("f".toList, fvToOV v)
    | _ => none)

def derivableDecl (env : Env) (lex : Lex) (lemma : Str) (pos : Pos) (tab : Str) : List Str :=
  match lookup tab env.decl with
  | none =>
    -- not a declension table ("regular"): the bare terminal
    (match realize env.decl lex ⟨env.lang, pos, lemma, []⟩ with
     | .ok o => if o.warns = 0 ∧ detok o.toks = lemma then [lemma] else []
     | .error _ => [])
  | some tb =>
    if endsWith lemma tb.ending then
      let radical := dropRight lemma tb.ending.length
      tb.rows.filterMap (fun d =>
        match realize env.decl lex ⟨env.lang, pos, lemma, rowOpts d⟩ with
        | .ok o => if o.warns = 0 ∧ detok o.toks = radical ++ d.val then some (radical ++ d.val) else none
        | .error _ => none)
    else []

/-- (form, pos) for every form derivable from the tables of one lexicon entry -/
def derivableEntry (env : Env) (lex : Lex) (lemma : Str) (verb : Option Conj.Verb) (entry : List (Str × EVal)) :
    List (Str × Str) :=
  entry.flatMap (fun (pos, val) =>
    if skipKeys.contains pos then []
    else if pos = "V".toList then (derivableConj env lemma verb).map (fun f => (f, pos))
    else
      match val with
      | .scalar => []
      | .dict e =>
        match lookup "tab".toList e with
        | some (.str tab) =>
          match posOf? pos with
          | some p => (derivableDecl env lex lemma p tab).map (fun f => (f, pos))
          | none => [(lemma, pos)]
        | _ => [])

/-! ## hypotheses of the conjugation theorems -/

def noLeadSpace (x : Str) : Bool := x.head? != some ' '

def Conj.Row.cellsOK : Conj.Row → Bool
  | .null => true
  | .str x => noLeadSpace x
  | .list l => l.all (fun c => match c with | some x => noLeadSpace x | none => true)

/-- no ending of the table starts with a blank (`detokenize` drops one leading blank of a token) -/
def cellsNoLeadSpace (tb : Conj.Table) : Bool := tb.rows.all (fun kr => Conj.Row.cellsOK kr.2)

/-- French imperative: no form for the persons the realizer refuses (1s, 3s, 3p) -/
def ipOK (tb : Conj.Table) : Bool :=
  match tb.row? "ip".toList with
  | some (.list l) => l[0]? == some none && l[2]? == some none && l[5]? == some none
  | _ => true

/-- the tense keys of the `"t"` dictionary are distinct (a JSON object) -/
def keysNodup (tb : Conj.Table) : Bool := decide ((tb.rows.map (·.1)).Nodup)

/-- the verb's table is the kind of table the expansion is written for -/
def wfConjEn (tb : Conj.Table) : Bool := Conj.wfTableEn tb && cellsNoLeadSpace tb && keysNodup tb
def wfConjFr (tb : Conj.Table) : Bool := Conj.wfTableFr tb && cellsNoLeadSpace tb && keysNodup tb && ipOK tb

/-! ## hypotheses of the declension theorem (open classes `N`, `A`, `Adv`)

`DistinctRows`: every row that the expansion lists is the row that the realizer's `bestMatch` selects for the request
built from the options `genExp` infers (and no veto of the realizer applies).  It depends on the entry only through
`Ctor`: what a freshly constructed terminal carries (`getProp("g")`, `getProp("n")`: the lexicon's value or the
default) and the two lexicon values `genExp`/the vetoes read. -/

structure Ctor where
  /-- `getProp("g")` / `getProp("n")` of the fresh terminal (`FV.none` = Python `None`) -/
  g : FV
  n : FV
  /-- `lexicon[lemma][pos].get("g")`, `.get("cnt")` -/
  lexG : Option LV := none
  cnt : Option LV := none
  deriving DecidableEq, Repr

/-- the rows the `seenVals` filter lets through: the first row of each `val` -/
def firstRows : List Row → List Str → List Row
  | [], _ => []
  | d :: ds, seen => if seen.contains d.val then firstRows ds seen else d :: firstRows ds (seen ++ [d.val])

/-- the value of the LAST call of option `name` (a later call overwrites an earlier one) -/
def optVal (name : String) (opts : List (Str × OV)) : Option OV :=
  opts.foldl (fun acc o => if o.1 = name.toList then some o.2 else acc) none

/-- `getProp(name)` after the option calls; `ctor` = its value on the fresh terminal -/
def afterOpts (name : String) (opts : List (Str × OV)) (ctor : FV) : FV :=
  opts.foldl (fun acc o => if o.1 = name.toList then o.2.toFV else acc) ctor

/-- every option is `g`, `n` or `f`, applicable to the part of speech, with a value its method accepts (else the
    call only warns and sets nothing) -/
def optsValid (pos : Pos) (opts : List (Str × OV)) : Bool :=
  opts.all (fun o =>
    (o.1 = "g".toList ∨ o.1 = "n".toList ∨ o.1 = "f".toList) && decide (pos ∈ allowedPos o.1) &&
    match validVals o.1 with
    | some vals => vals.contains o.2
    | none => false)

/-- the ending the realizer attaches for request `kv`: the single row's, else `bestMatch` (Terminal.decline) -/
def selRow (rows : List Row) (kv : KeyVals) (val : Str) : Bool :=
  match rows with
  | [d1] => d1.val == val
  | rows => bestMatch rows kv == some val

/-- `check_gender_lexicon` (French) / `check_countable` (English) let the form through -/
def nounOK (lang : Lang) (lexG cnt : Option LV) (g n : FV) : Bool :=
  match lang with
  | .fr => (match lexG with
      | some lg => decide (lg.toFV = FV.x ∨ lg.toFV = g)
      | none => false)
  | .en => decide (n ≠ fvStr "p") ||
      (match cnt with
       | some cn => decide (cn ≠ LV.str "no".toList)
       | none => false)

/-- `g`/`n` of the request of a noun: `None` is replaced by `m`/`s` (Terminal.decline) -/
def dfltG (g : FV) : FV := if g = .none then fvStr "m" else g
def dfltN (n : FV) : FV := if n = .none then fvStr "s" else n

/-- row `d`, listed with expression `e`, is what the realizer answers for `e` -/
def rowOK (lang : Lang) (pos : Pos) (name : Str) (tb : Table) (c : Ctor) (d : Row) (e : Exp) : Bool :=
  optsValid pos e.opts &&
  match pos with
  | .N =>
    let g := dfltG (afterOpts "g" e.opts c.g)
    let n := dfltN (afterOpts "n" e.opts c.n)
    optVal "f" e.opts == none &&
    selRow tb.rows [(Feat.g, g), (Feat.n, n)] d.val && nounOK lang c.lexG c.cnt g n
  | .A | .Adv =>
    (match lang with
     | .fr => optVal "f" e.opts == none &&
        bestMatch tb.rows [(Feat.g, afterOpts "g" e.opts c.g), (Feat.n, afterOpts "n" e.opts c.n)] == some d.val
     | .en => (match optVal "f" e.opts with
        | none => d.val == tb.ending                              -- no comparison: the lemma itself
        | some (.str fs) => decide (name ≠ "a1".toList) && decide (name ≠ "b1".toList) &&
                    bestMatch tb.rows [(Feat.f, .str fs)] == some d.val
        | some _ => false))
  | _ => false

def rowNoLeadSpace (tb : Table) : Bool := tb.rows.all (fun d => noLeadSpace d.val)

def DistinctRows (lang : Lang) (pos : Pos) (name : Str) (tb : Table) (c : Ctor) : Bool :=
  rowNoLeadSpace tb &&
  (firstRows tb.rows []).all (fun d =>
    match genExpCore lang d pos.name [] c.lexG c.cnt with
    | .ok (some e) => rowOK lang pos name tb c d e
    | _ => true)

/-- what the constructor leaves on the terminal, as far as the theorem needs it (decidable; evaluated by the driver
    on every real entry) -/
def ctorOK (rules : Decl.Rules) (lex : Lex) (lang : Lang) (pos : Pos) (lemma name : Str) (radical : Str)
    (entry : PosEntry) (c : Ctor) : Bool :=
  match mkTerm rules lex lang pos lemma with
  | .error _ => false
  | .ok t0 =>
    t0.lang = lang && t0.pos = pos && t0.lemma = lemma && t0.tab = some name && t0.stem = some radical &&
    t0.getG = c.g && t0.getN = c.n && t0.pOwn = none && t0.pF = none && t0.warns = 0 &&
    lexPos lex lemma pos.name = some entry && lookup "g".toList entry = c.lexG && lookup "cnt".toList entry = c.cnt

/-- the `Ctor` of a real entry -/
def ctorOf (rules : Decl.Rules) (lex : Lex) (lang : Lang) (pos : Pos) (lemma : Str) (entry : PosEntry) : Ctor :=
  match mkTerm rules lex lang pos lemma with
  | .ok t0 => { g := t0.getG, n := t0.getN, lexG := lookup "g".toList entry, cnt := lookup "cnt".toList entry }
  | .error _ => { g := .none, n := .none }

/-- the part-of-speech classes of the declension tables, by the first letter of the table id: `n…` nouns (and, in
    French, adjectives), `a…` English adjectives, `b…` English adverbs.  (`d…`, `pn…`: determiners and pronouns.) -/
def classOf (lang : Lang) (pos : Pos) (name : Str) : Bool :=
  match lang, pos with
  | _, .N => name.head? == some 'n'
  | .en, .A => name.head? == some 'a'
  | .fr, .A => name.head? == some 'n'
  | .en, .Adv => name.head? == some 'b'
  | _, _ => false

/-- every form of the table exists in gender `g` (a French noun of fixed gender `g` can use the table) -/
def genderCovers (tb : Table) (g : String) : Bool :=
  tb.rows.all (fun d => tb.rows.any (fun d' => d'.get .g == some (fvStr g) && d'.val == d.val))

/-- the constructor states for which `DistinctRows` is PROVED of every generated table of the class
    (`distinct_rows_tbl`): French nouns of lexicon gender `x`, or of a gender in which every form of the table
    exists; English nouns of every lexicon gender (absent, `m`, `f`, `x`), countable or not; adjectives and adverbs
    with the defaults.  (A French noun of gender `m` in a table with a feminine-only form would be listed WITHOUT
    options under that form — `genExp`'s last `else` — and no lexicon entry is like that: the driver evaluates
    `DistinctRows` on the actual constructor state of every entry.) -/
def stdCtors (lang : Lang) (pos : Pos) (name : Str) (tb : Table) : List Ctor :=
  let n : FV := if pos = .N ∧ name ∈ alwaysPlural lang then fvStr "p" else fvStr "s"
  match lang, pos with
  | .fr, .N =>
    ((["m", "f"].filter (genderCovers tb)) ++ ["x"]).map
      (fun g => { g := fvStr g, n := n, lexG := some (.str g.toList) })
  | .en, .N =>
    ["yes", "no", "both"].flatMap (fun k =>
      ({ g := fvStr "n", n := n, cnt := some (.str k.toList) } : Ctor) ::
      ["m", "f", "x"].map (fun g => { g := fvStr g, n := n, lexG := some (.str g.toList), cnt := some (.str k.toList) }))
  | .fr, .A => [{ g := fvStr "m", n := fvStr "s" }]
  | .en, .A => [{ g := fvStr "n", n := fvStr "s" }]
  | _, .Adv => [{ g := .none, n := .none }]
  | _, _ => []

/-- the (table, part of speech, constructor state) triples of one language on which `DistinctRows` fails -/
def distinctFailures (lang : Lang) (rules : Decl.Rules) : List (Str × Pos × Ctor) :=
  rules.flatMap (fun (p : Str × Table) =>
    [Pos.N, Pos.A, Pos.Adv].flatMap (fun pos =>
      if classOf lang pos p.1 then
        (stdCtors lang pos p.1 p.2).filterMap (fun c =>
          if DistinctRows lang pos p.1 p.2 c then none else some (p.1, pos, c))
      else []))

/-! ## what the driver reports per entry and per table (filled in below as the theorems need it) -/

/-- the hypotheses of `expandConj_sound_*` and `expandDecl_sound` evaluated on one real lexicon entry: the names of
    those that fail (`info:` items are not hypotheses: they say that the entry's constructor state is not one of
    the standard ones for which `DistinctRows` is kernel-proved, so that for this entry it is only evaluated) -/
def entryWF (lang : Lang) (conj : Conj.Rules) (decl : Decl.Rules) (lex : Lex) (lemma : Str)
    (verb : Option Conj.Verb) (entry : List (Str × EVal)) : List String :=
  let v : List String := match verb with
    | none => []
    | some v =>
      match lookup v.tab conj with
      | none => ["conj:table-missing"]
      | some tb =>
        (if (match lang with | .en => wfConjEn tb | .fr => wfConjFr tb) then [] else ["conj:table-shape"]) ++
        (if endsWith lemma tb.ending then [] else ["conj:ending-not-suffix"]) ++
        (if noLeadSpace lemma then [] else ["conj:lemma-leading-space"])
  let d : List String := entry.flatMap (fun (posS, val) =>
    match posOf? posS, val with
    | some pos, .dict e =>
      if pos = .N ∨ pos = .A ∨ pos = .Adv then
        match lookup "tab".toList e with
        | some (.str name) =>
          match lookup name decl with
          | none => []                                  -- not a declension table: the bare lemma is listed
          | some tb =>
            let tag := "decl:" ++ String.ofList posS ++ ":"
            let c := ctorOf decl lex lang pos lemma e
            (if endsWith lemma tb.ending then [] else [tag ++ "ending-not-suffix"]) ++
            (if noLeadSpace lemma then [] else [tag ++ "lemma-leading-space"]) ++
            (if ctorOK decl lex lang pos lemma name (dropRight lemma tb.ending.length) e c then []
             else [tag ++ "constructor-state"]) ++
            (if DistinctRows lang pos name tb c then [] else [tag ++ "distinct-rows"]) ++
            (if classOf lang pos name && (stdCtors lang pos name tb).contains c then []
             else ["info:" ++ tag ++ "non-standard-constructor-state"])
        | _ => []
      else []
    | _, _ => [])
  v ++ d

/-! ## closed classes (determiners, pronouns): the shipped paradigms -/

/-- the environment of the shipped data: generated tables, the auxiliaries' entries, the shipped pronoun paradigms -/
def genEnv (lang : Lang) : Env :=
  { lang := lang
    conj := match lang with | .en => Gen.ConjEn.tables | .fr => Gen.ConjFr.tables
    decl := match lang with | .en => Gen.DeclEn.tables | .fr => Gen.DeclFr.tables
    en := { will := Gen.ConjEn.will, have_ := Gen.ConjEn.have_ }
    fr := { avoir := Gen.ConjFr.avoir, etre := Gen.ConjFr.etre, reflPro := ConjFr.reflProFr,
            tonicPro := ConjFr.tonicProFr } }

/-- the parts of speech of a determiner / pronoun table (`pn…`: pronouns; `d…`: determiners, also used by pronouns) -/
def closedPos (name : Str) : List Pos :=
  if name.take 2 = "pn".toList then [.Pro] else if name.head? = some 'd' then [.D, .Pro] else []

/-- the pairs of the expansion of the word whose lemma is the table's own ending (`le`, `mon`, `moi`, `me`, `on`, … —
    the closed-class words are the endings of their tables) that the model does NOT realize to their form -/
def closedBad (lang : Lang) (pos : Pos) (name : Str) (tb : Table) : List (Str × Str) :=
  let lemma := tb.ending
  let entry : PosEntry := [("tab".toList, .str name)]
  let lex : Lex := [(lemma, [(pos.name, entry)])]
  match expandDeclension lang (genEnv lang).decl lemma pos.name (.str name) entry with
  | .error _ => [(name, [])]
  | .ok l => l.filterMap (fun p =>
      if realizeExp (genEnv lang) lex none p.2 = .ok (p.1, 0) then none else some (name, p.1))

def closedBadAll (lang : Lang) : List (Str × Str) :=
  (genEnv lang).decl.flatMap (fun p => (closedPos p.1).flatMap (fun pos => closedBad lang pos p.1 p.2))

/-- the (table, part of speech, lexicon gender) triples of the generated French tables on which `DistinctRows`
    fails for a standard constructor state — the complete list: a noun of the stated FIXED gender would be listed
    without options under a form whose first row in the table has the other gender (`genExp`'s last `else`;
    n25: feminine plural `-s` behind the masculine one; n79, n91: masculine plural `-a` behind the feminine
    singular `-a`; n88: feminine plural `-i`).  No lexicon entry has such a (table, gender) pair: the driver
    evaluates `DistinctRows` on every real entry. -/
def distinctExceptionsFr : List (Str × Decl.Pos × Option Decl.LV) :=
  [("n25".toList, .N, some (.str "f".toList)), ("n79".toList, .N, some (.str "m".toList)),
   ("n88".toList, .N, some (.str "f".toList)), ("n91".toList, .N, some (.str "m".toList))]

/-- executable twin of `conj_wf_tbl` and `distinct_rows_tbl`: the table elements on which they fail -/
def tblWitnesses : List String :=
  (Gen.ConjEn.tables.filterMap (fun p =>
    if !(Gen.ConjEn.used.contains p.1) || wfConjEn p.2 then none else some ("conj-en:" ++ String.ofList p.1))) ++
  (Gen.ConjFr.tables.filterMap (fun p =>
    if !(Gen.ConjFr.used.contains p.1) || wfConjFr p.2 then none else some ("conj-fr:" ++ String.ofList p.1))) ++
  ((distinctFailures .en Gen.DeclEn.tables).map (fun x =>
    "decl-en:" ++ String.ofList x.1 ++ ":" ++ String.ofList x.2.1.name)) ++
  (((distinctFailures .fr Gen.DeclFr.tables).filter (fun x => !(distinctExceptionsFr.contains (x.1, x.2.1, x.2.2.lexG)))).map
    (fun x => "decl-fr:" ++ String.ofList x.1 ++ ":" ++ String.ofList x.2.1.name)) ++
  (distinctExceptionsFr.filterMap (fun x =>
    if ((distinctFailures .fr Gen.DeclFr.tables).map (fun y => (y.1, y.2.1, y.2.2.lexG))).contains x then none
    else some ("decl-fr:stale-exception:" ++ String.ofList x.1))) ++
  ((closedBadAll .en).map (fun x => "closed-en:" ++ String.ofList x.1 ++ ":" ++ String.ofList x.2)) ++
  ((closedBadAll .fr).map (fun x => "closed-fr:" ++ String.ofList x.1 ++ ":" ++ String.ofList x.2))

end Pyrealb.Lemmatize
