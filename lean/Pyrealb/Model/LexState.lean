import Pyrealb.Model.Basic
/-! Model of `src/pyrealb/Lexicon.py` (whole file) and of the lexicon lookup of `Terminal.setLemma`
(`src/pyrealb/Terminal.py:29-35, 94-121`, after fix 8586a6a) and `utils.terminal` (`utils.py:146-149`).

Process-global state = current language, the two lexicon dicts, the two rule sets.
A lexicon is a Python `dict` lemma ↦ entry **object**; an entry is a `dict` category-key ↦ value (values are
opaque here: `"N" ↦ {"tab":"n1",…}` is one value). Entries are dict OBJECTS in a heap: `getLemma` and
`addToLexicon` return the stored object itself and `lexicon[lemma].update(newInfos)` mutates it in place.
Since fix 3c7823e a new entry is `dict(newInfos)`: a FRESH object holding a shallow copy (the category values
themselves are shared with the caller's dict; `Lexicon.py` never mutates a value, so values stay opaque).
A dict argument is therefore either a caller-owned dict, which the library neither stores nor mutates (only its
content matters: `lit`), or a library object obtained from an earlier call (`obj`), read at call time.

Domain: `newInfos` / the values of the single-dict form / of `newLexicon` are dicts; `lang` is `None`, `"en"`,
`"fr"` or another string (→ `KeyError`). Non-dict infos (e.g. `{"w": None}`) are outside the model.
-/
namespace Pyrealb.LexState

inductive Lang where
  | en | fr
  deriving DecidableEq, Repr, Inhabited

/-- what a caller can pass as `lang=` (or to `load`): `"en"`, `"fr"`, or any other string -/
inductive LangArg where
  | en | fr | bad
  deriving DecidableEq, Repr

def Lang.toArg : Lang → LangArg
  | .en => .en
  | .fr => .fr

abbrev Lemma := Str
abbrev Cat := Str
/-- opaque value stored under a category key (the harness passes the canonical JSON text of the value) -/
abbrev Val := Str
/-- identity of a Python dict object -/
abbrev Ref := Nat

/-! ### Python `dict` = association list in insertion order -/
section Dict
variable {κ : Type} [DecidableEq κ] {α : Type}

/-- `d[k]` / `k in d` -/
def dget (k : κ) : List (κ × α) → Option α
  | [] => none
  | (k', v) :: r => if k' = k then some v else dget k r

/-- `d[k] = v` : an existing key keeps its position, a new key goes to the end -/
def dset (k : κ) (v : α) : List (κ × α) → List (κ × α)
  | [] => [(k, v)]
  | (k', v') :: r => if k' = k then (k', v) :: r else (k', v') :: dset k v r

/-- `del d[k]` (no-op when absent) -/
def ddel (k : κ) (d : List (κ × α)) : List (κ × α) := d.filter (fun kv => !decide (kv.1 = k))

/-- `d.update(new)` : the items of `new` are assigned in order -/
def dupdate (d new : List (κ × α)) : List (κ × α) := new.foldl (fun acc kv => dset kv.1 kv.2 acc) d

def dkeys (d : List (κ × α)) : List κ := d.map Prod.fst
end Dict

abbrev Entry := List (Cat × Val)
abbrev Lexicon := List (Lemma × Ref)
abbrev Heap := Ref → Option Entry

structure State where
  cur : Lang             -- `__lexicon.lang`
  en : Lexicon           -- `__lexicon.lexicon["en"]`
  fr : Lexicon           -- `__lexicon.lexicon["fr"]`
  heap : Heap            -- the entry objects
  fresh : Ref            -- identity of the next dict object the library creates
  rulesEn : Nat          -- `__lexicon.rules["en"]` (opaque identity)
  rulesFr : Nat

def State.lexOf (st : State) : Lang → Lexicon
  | .en => st.en
  | .fr => st.fr

def State.setLex (st : State) (l : Lang) (lx : Lexicon) : State :=
  match l with
  | .en => { st with en := lx }
  | .fr => { st with fr := lx }

def State.setHeap (st : State) (h : Heap) : State := { st with heap := h }
def State.setCur (st : State) (l : Lang) : State := { st with cur := l }
def State.setFresh (st : State) (r : Ref) : State := { st with fresh := r }

def State.rulesOf (st : State) : Lang → Nat
  | .en => st.rulesEn
  | .fr => st.rulesFr

/-- content of a dict object (an object that does not exist reads as empty; the harness never names one) -/
def content (h : Heap) (r : Ref) : Entry := (h r).getD []

/-- a dict passed by the caller -/
inductive DictArg where
  | lit (e : Entry)      -- a dict the caller owns: never stored, never mutated by the library; only its content matters
  | obj (r : Ref)        -- a library object (what `getLemma` / `addToLexicon` returned earlier), read at call time

/-- what the argument contains at the time of the call -/
def argContent (st : State) : DictArg → Entry
  | .lit e => e
  | .obj r => content st.heap r

/-- operations that do not take `lang` -/
inductive Ctl where
  | loadEn | loadFr
  | load (l : LangArg)
  | getLanguage

/-- the five functions that take `lang=None`, after the language has been resolved -/
inductive LOp where
  | add (lemma : Lemma) (infos : DictArg)             -- `addToLexicon(lemma, newInfos, lang)`, newInfos a dict
  | addSingle (items : List (Lemma × DictArg))        -- `addToLexicon({lemma: infos, …}, <ignored>, lang)`
  | remove (lemma : Lemma)                            -- `addToLexicon(lemma, None, lang)`
  | update (newLex : List (Lemma × DictArg))          -- `updateLexicon(newLexicon, lang)`
  | getLemma (lemma : Lemma)
  | getLexicon
  | getRules

inductive Op where
  | ctl (c : Ctl)
  | lex (o : LOp) (lang : Option LangArg)

/-- what a call returns -/
inductive Ret where
  | none                                       -- `None`
  | dict (r : Ref) (e : Entry)                 -- a dict object: which one, and what it contains now
  | lexicon (l : Lang) (keys : List Lemma)     -- THE lexicon dict of language `l`
  | rules (l : Lang) (id : Nat)                -- THE rules dict of language `l`
  | lang (l : Lang)
  | warned                                     -- `load("xx")`: one warning, returns `None`
  deriving DecidableEq, Repr

/-- `getLexicon(lang)` / `getRules(lang)` : `__lexicon.lexicon[lang]` when `lang is not None`, else the current one -/
def resolve (cur : Lang) : Option LangArg → Except Crash Lang
  | none => .ok cur
  | some .en => .ok .en
  | some .fr => .ok .fr
  | some .bad => .error .keyError

/-- `lexicon[lemma]=dict(newInfos)` : a fresh object holding a (shallow) copy is stored -/
def storeArg (st : State) (l : Lang) (lemma : Lemma) (a : DictArg) : State :=
  ((st.setLex l (dset lemma st.fresh (st.lexOf l))).setHeap
    (fun x => if x = st.fresh then some (argContent st a) else st.heap x)).setFresh (st.fresh + 1)

/-- lines 66-70 of Lexicon.py -/
def addCore (st : State) (l : Lang) (lemma : Lemma) (a : DictArg) : Ret × State :=
  match dget lemma (st.lexOf l) with
  | some r =>            -- `lexicon[lemma].update(newInfos)` ; `return lexicon[lemma]`
    let e' := dupdate (content st.heap r) (argContent st a)
    (.dict r e', st.setHeap (fun x => if x = r then some e' else st.heap x))
  | none =>              -- `lexicon[lemma]=dict(newInfos)` ; `return lexicon[lemma]` (the new object)
    (.dict st.fresh (argContent st a), storeArg st l lemma a)

/-- `return lexicon[lemma] if lemma in lexicon else None` : the stored object itself -/
def getLemmaRet (st : State) (l : Lang) (lemma : Lemma) : Ret :=
  match dget lemma (st.lexOf l) with
  | some r => .dict r (content st.heap r)
  | none => .none

def exec (st : State) (l : Lang) : LOp → Except Crash (Ret × State)
  | .add lemma a => .ok (addCore st l lemma a)
  | .addSingle [] => .error .indexError                    -- `list(lemma.items())[0]`
  | .addSingle ((lemma, a) :: _) => .ok (addCore st l lemma a)
  | .remove lemma => .ok (.none, st.setLex l (ddel lemma (st.lexOf l)))
  | .update newLex => .ok (.none, newLex.foldl (fun s p => storeArg s l p.1 p.2) st)   -- one copy per item, in order
  | .getLemma lemma => .ok (getLemmaRet st l lemma, st)
  | .getLexicon => .ok (.lexicon l (dkeys (st.lexOf l)), st)
  | .getRules => .ok (.rules l (st.rulesOf l), st)

def step (st : State) : Op → Except Crash (Ret × State)
  | .ctl .loadEn => .ok (.none, st.setCur .en)
  | .ctl .loadFr => .ok (.none, st.setCur .fr)
  | .ctl (.load .en) => .ok (.none, st.setCur .en)
  | .ctl (.load .fr) => .ok (.none, st.setCur .fr)
  | .ctl (.load .bad) => .ok (.warned, st)
  | .ctl .getLanguage => .ok (.lang st.cur, st)
  | .lex o lang =>
    match resolve st.cur lang with
    | .error c => .error c                       -- `__lexicon.lexicon[lang]` raises before anything else happens
    | .ok l => exec st l o

/-- the state after the call (an exception leaves it as it was) -/
def next (st : State) (op : Op) : State :=
  match step st op with
  | .ok (_, s) => s
  | .error _ => st

def ret (st : State) (op : Op) : Except Crash Ret :=
  match step st op with
  | .ok (r, _) => .ok r
  | .error c => .error c

def run (st : State) (ops : List Op) : State := ops.foldl next st

/-! ### what a new terminal sees (`utils.terminal` + `Terminal.setLemma`, categories N A Pro D V Adv C P) -/

/-- `lemma.replace("œ","oe").replace("æ","ae")` -/
def normLemma (lemma : Str) : Str :=
  lemma.flatMap (fun c => if c = 'œ' then ['o', 'e'] else if c = 'æ' then ['a', 'e'] else [c])

/-- `utils.terminal`: `lang ?? getLanguage()`, then `"en"` → TerminalEn, anything else → TerminalFr -/
def termLang (cur : Lang) : Option LangArg → Lang
  | none => cur
  | some .en => .en
  | some _ => .fr

inductive TermLookup where
  | unknown (tlang : Lang)                            -- warn("not in lexicon", self.lang(), None) ; `[[lemma]]`
  | otherPOS (tlang : Lang) (pos : List Cat)          -- warn("not in lexicon", self.lang(), otherPOS) ; `[[lemma]]`
  | found (v : Val) (tlang : Lang) (rules : Nat)      -- tab/props read from `v`, tables from `getRules(self.lang())`
  deriving DecidableEq, Repr

def ldv : Str := ['l', 'd', 'v']

/-- `getLemma(self.lemma, self.lang())` (Terminal.py:99, since fix 8586a6a): the lexicon of the TERMINAL'S language
    is read — the language named at construction, else the one current at construction — under the normalised
    spelling of the lemma. -/
def lookupForTerminal (st : State) (tl : Option LangArg) (lemma : Lemma) (cat : Cat) : TermLookup :=
  let tlang := termLang st.cur tl
  match dget (normLemma lemma) (st.lexOf tlang) with
  | none => .unknown tlang
  | some r =>
    let e := content st.heap r
    match dget cat e with
    | none => .otherPOS tlang ((dkeys e).filter (fun k => !decide (k = ldv)))
    | some v => .found v tlang (st.rulesOf tlang)

end Pyrealb.LexState
