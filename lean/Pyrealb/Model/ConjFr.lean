import Pyrealb.Model.ConjSurface
/-! # `TerminalFr.conjugate` (src/pyrealb/TerminalFr.py:86-230) for a verb realized alone

`V(lemma).t(t).pe(pe).n(n).g(g)[.aux(a)].realize()` with the current language French and no parent constituent
(`parentConst is None`, no `cod`, not majestic, no `lier`/`neg2` set by a clause).

* compound tenses (`pc pq cp pa fa spa spq bp`): defectiveness test on the auxiliary's tense row, choice of the
  auxiliary (`isReflexive()` ⇒ être + `pat=["réfl"]` on the auxiliary; `taux["aux"] == "êt"` ⇒ être; otherwise
  avoir with `g="m"`, `n="s"` for the participle), `aux.realize()`, a fresh `V(lemma).g(g).n(n).t("pp").realize()`;
* simple tenses: person cell, imperative person filter, participle agreement index, the restriction on
  intransitive verbs conjugated with avoir, `b`/`pr`, reflexive pronoun for `pat == ["réfl"]`.

The two nested `realize()` calls use simple tenses only, so they run the `else` block of the method
(`conjugateSimple`); the recursion of the Python method is thereby unrolled exactly.

The reflexive/tonic pronoun realizations (`Pro("moi").c("refl").pe(pe).n(n).g(g)`, `Pro("moi").tn("")…`) belong to
the declension family (C02); here they are data (`FrEnv.reflPro`, `FrEnv.tonicPro`), tied by correspondence. -/
namespace Pyrealb.ConjFr
open Pyrealb Pyrealb.Conj

structure FrEnv where
  /-- lexicon entry of `avoir` / `être` (`none` = not in the lexicon) -/
  avoir : Option Verb
  etre : Option Verb
  /-- realization of `Pro("moi","fr").c("refl").pe(pe).n(n).g(g)` -/
  reflPro : Person → Num → Gender → Str
  /-- realization of `Pro("moi","fr").tn("").pe(pe).n(n).g(g)` -/
  tonicPro : Person → Num → Gender → Str

/-- the shipped paradigms (rules-fr.json declension of `moi`, realized by C02's code) -/
def reflProFr : Person → Num → Gender → Str
  | .p1, .s, _ => s "me" | .p2, .s, _ => s "te" | .p3, .s, _ => s "se"
  | .p1, .p, _ => s "nous" | .p2, .p, _ => s "vous" | .p3, .p, _ => s "se"
def tonicProFr : Person → Num → Gender → Str
  | .p1, .s, _ => s "moi" | .p2, .s, _ => s "toi" | .p3, .s, .m => s "lui" | .p3, .s, .f => s "elle"
  | .p1, .p, _ => s "nous" | .p2, .p, _ => s "vous" | .p3, .p, .m => s "eux" | .p3, .p, .f => s "elles"

/-- the state of a French verb terminal that `conjugate` reads -/
structure FrVerb where
  st : VState
  /-- `getProp("pat")` -/
  pat : Option (List Str)
  /-- `getProp("aux")`: `.aux()` option, else lexicon `aux`, else the default `"av"` -/
  aux : Str
  /-- lexicon `"h": 1` of the lemma -/
  hAsp : Bool
  deriving DecidableEq, Repr

def reflPat : List Str := [s "réfl"]
def intrPat : List Str := [s "intr"]

/-- `isReflexive()` without a parent: `pat is not None and len(pat)==1 and pat[0]=="réfl"` -/
def FrVerb.isReflexive (v : FrVerb) : Bool := decide (v.pat = some reflPat)

/-- `V(lemma,"fr")` [`.aux(a)`] -/
def mkVerb (rules : Rules) (lemma : Str) (entry : Option Verb) (auxOpt : Option Str) : FrVerb :=
  { st := setLemma rules lemma entry
    pat := entry.bind (·.pat)
    aux := match auxOpt with
      | some a => a
      | none => (entry.bind (·.aux)).getD (s "av")
    hAsp := (entry.map (·.hAsp)).getD false }

def selfTok (v : FrVerb) (real : Str) (lier := false) : Tok :=
  { real := real, isV := true, hAsp := v.hAsp, lier := lier }

/-- participle agreement index: `idx = 0 if n=="s" else 2; if g=="f": idx += 1` -/
def idx4 (n : Num) (g : Gender) : Nat := (if n = .s then 0 else 2) + (if g = .f then 1 else 0)

/-- the `else` block (simple tenses), lines 171-230 -/
def conjugateSimple (rules : Rules) (env : FrEnv) (v : FrVerb) (pe : Person) (n : Num) (g : Gender)
    (t : Tense) : Except Crash Out :=
  let w := v.st.warns
  let lemma := v.st.lemma
  match v.st.tab with
  | none => .ok (morphoError lemma w)                                  -- "conjugate_fr:tab"
  | some tab =>
    match lookup tab rules with
    | none => .error .keyError
    | some tb =>
      if tb.hasRow t.code then
        match tb.row? t.code with
        | none => .error .keyError                                     -- unreachable (hasRow)
        | some row =>
          match t with
          | .p | .i | .f | .ps | .c | .s | .si =>
            match row.at (idx6 pe n) with
            | .error e => .error e
            | .ok none => .ok (morphoError lemma w)                    -- "verbe défectif pour ces personnes et nombre"
            | .ok (some term) =>
              let me := selfTok v (v.st.stem ++ term)
              if v.isReflexive then
                .ok { toks := [{ real := env.reflPro pe n g, isPro := true }, me], warns := w }
              else .ok { toks := [me], warns := w }
          | .ip =>
            if (n = .s ∧ pe ≠ .p2) ∨ (n = .p ∧ pe = .p3) then
              .ok (morphoError lemma w)                                -- "impératif non conjugable…"
            else
              match row.at (idx6 pe n) with
              | .error e => .error e
              | .ok none => .ok (morphoError lemma w)                  -- "impératif non existant"
              | .ok (some term) =>
                if v.isReflexive then
                  .ok { toks := [selfTok v (v.st.stem ++ term) true,
                                 { real := env.tonicPro pe n g, isPro := true }], warns := w }
                else .ok { toks := [selfTok v (v.st.stem ++ term)], warns := w }
          | .pp =>
            let idx := idx4 n g
            match row.at idx with
            | .error e => .error e
            | .ok none => .ok (morphoError lemma w)                    -- "verbe défectif pour ces personne et nombre"
            | .ok (some termPP) =>
              if idx > 0 ∧ v.pat = some intrPat ∧ v.aux = s "av" then
                .ok (morphoError lemma w)                              -- "pas de flexion pour un participe passé d'un verbe intransitif"
              else .ok { toks := [selfTok v (v.st.stem ++ termPP)], warns := w }
          | .b | .pr =>
            match row with
            | .null => .ok (morphoError lemma w)                       -- "verbe défectif à ce temps"
            | _ =>
            match row.concat v.st.stem with
            | .error e => .error e
            | .ok r =>
              if v.isReflexive then
                .ok { toks := [{ real := env.reflPro pe n g, isPro := true }, selfTok v r], warns := w }
              else .ok { toks := [selfTok v r], warns := w }
          | _ => .ok (morphoError lemma w)                             -- "temps de conjugaison non traité"
      else .ok (morphoError lemma w)                                   -- "pas de conjugaison trouvée"

/-- `x.realize()` of a verb whose tense is simple -/
def realizeSimple (rules : Rules) (env : FrEnv) (v : FrVerb) (pe : Person) (n : Num) (g : Gender)
    (t : Tense) : Except Crash Real :=
  match conjugateSimple rules env v pe n g t with
  | .error e => .error e
  | .ok o =>
    match surfaceFr o.toks with
    | .error e => .error e
    | .ok txt => .ok { text := txt, warns := o.warns }

/-- `tempsAux` -/
def tempsAux : Tense → Option Tense
  | .pc => some .p | .pq => some .i | .cp => some .c | .pa => some .ps | .fa => some .f
  | .spa => some .s | .spq => some .si | .bp => some .b
  | _ => none

/-- after `V("avoir","fr")`, `aux.setLemma("être")` overwrites what être's entry has and keeps the rest -/
def auxAsEtre (rules : Rules) (env : FrEnv) (reflexive : Bool) : FrVerb :=
  let a := mkVerb rules (s "avoir") env.avoir none
  let e := mkVerb rules (s "être") env.etre none
  { st := { e.st with warns := a.st.warns + e.st.warns }
    pat := if reflexive then some reflPat else
           match env.etre.bind (·.pat) with
           | some p => some p
           | none => a.pat
    aux := e.aux
    hAsp := e.hAsp }

/-- `isinstance(row, list) and row[i] is None` (line 104) -/
def rowDefective (row : Row) (i : Nat) : Except Crash Bool :=
  match row with
  | .list _ =>
    match row.at i with
    | .error e => .error e
    | .ok cell => .ok cell.isNone
  | _ => .ok false

/-- lines 107-125: the auxiliary, and the gender and number that the participle will agree with -/
def chooseAux (rules : Rules) (env : FrEnv) (v : FrVerb) (g : Gender) (n : Num) : FrVerb × Gender × Num :=
  if v.isReflexive then (auxAsEtre rules env true, g, n)          -- + `aux.setProp("pat", ["réfl"])`
  else if v.aux = s "êt" then (auxAsEtre rules env false, g, n)
  else (mkVerb rules (s "avoir") env.avoir none, Gender.m, Num.s)  -- `g = "m"; n = "s"` (no `cod`)

/-- `TerminalFr.conjugate` -/
def conjugate (rules : Rules) (env : FrEnv) (lemma : Str) (entry : Option Verb) (auxOpt : Option Str)
    (pe : Person) (n : Num) (g : Gender) (t : Tense) : Except Crash Out :=
  let v := mkVerb rules lemma entry auxOpt
  let w := v.st.warns
  match v.st.tab with
  | none => .ok (morphoError lemma w)
  | some tab =>
    match tempsAux t with
    | none => conjugateSimple rules env v pe n g t
    | some ta =>
      match lookup tab rules with
      | none => .error .keyError
      | some tb =>
        if !tb.hasT then .ok (morphoError lemma w)                     -- "pas de conjugaison trouvée"
        else
          match tb.row? ta.code with
          | none => .error .keyError                                   -- conjugationTable["t"][tempsAux]
          | some row =>
            match rowDefective row (idx6 pe n) with
            | .error e => .error e
            | .ok true => .ok (morphoError lemma w)                    -- "conjugaison impossible à ces personnes et nombres"
            | .ok false =>
              match chooseAux rules env v g n with
              | (auxV, gpp, npp) =>
              match realizeSimple rules env auxV pe n g ta with
              | .error e => .error e
              | .ok auxR =>
                -- `pp = V(self.lemma,"fr")`: a fresh verb (lexicon `aux`, no `.aux()` option), person 3
                let ppV := mkVerb rules lemma entry none
                match realizeSimple rules env ppV .p3 npp gpp .pp with
                | .error e => .error e
                | .ok ppR =>
                  .ok { toks := [{ real := auxR.text, isV := true, hAsp := auxV.hAsp }, selfTok v ppR.text]
                        warns := w + auxR.warns + ppR.warns }

/-- `V(lemma).t(t).pe(pe).n(n).g(g)[.aux(a)].realize()` -/
def realize (rules : Rules) (env : FrEnv) (lemma : Str) (entry : Option Verb) (auxOpt : Option Str)
    (pe : Person) (n : Num) (g : Gender) (t : Tense) : Except Crash Real :=
  match conjugate rules env lemma entry auxOpt pe n g t with
  | .error e => .error e
  | .ok o =>
    match surfaceFr o.toks with
    | .error e => .error e
    | .ok txt => .ok { text := txt, warns := o.warns }

end Pyrealb.ConjFr
