import Pyrealb.Model.ConjWF
import Pyrealb.Model.DeclWF
/-! # `lemmatize.py` lines 26-191: `jsrExpInit`, `genExp`, `expandConjugation`, `expandDeclension`, and the
    per-entry body of `buildLemmataMap` — branch for branch.

The lemmatization map is `form ↦ [expression, …]`.  An expression is what `jsrExpInit(pos,lemma)` followed by option
calls builds: a terminal constructor, a lemma and the option calls in order (`Exp`).  The model produces, for ONE
lexicon entry and the rule tables, the list of `(form, expression)` pairs in the order in which `addLemma` is called;
the map itself (a dict of lists in insertion order) is assembled from these lists by the harness exactly as
`addLemma` does (append to `lemmata[word]`, or create it).

Python partiality: `declension["n"]`, `declension["g"]`, `lexiconEntry["cnt"]`, `conjug["t"]`,
`getLexicon("fr")[lemma]["V"]`, `entryInfos[pos]["tab"]`, `radical+None` are `Except Crash` steps.

`realizeExp` is the realization of such an expression by the models of the two families this one builds on:
`ConjEn.realize` / `ConjFr.realize` (C01) for `V`, `Decl.realizeText` (C02) for `N A Adv D Pro`; a terminal of any
other type (`P`, `C`, `Q`) realizes as its lemma (Terminal.py:441-443).

API: `Exp`, `Pair`, `genExp`, `expandConjugation`, `expandDeclension`, `expandEntry`, `realizeExp`. -/
namespace Pyrealb.Lemmatize
open Pyrealb Pyrealb.Decl

/-- `jsrExpInit(pos,lemma)` followed by option calls, in call order (`.ow(v)` is recorded as `ow`) -/
structure Exp where
  pos : Str
  lemma : Str
  opts : List (Str × OV) := []
  deriving DecidableEq, Repr

/-- one call of `addLemma(lemmata, word, jsrExp)` -/
abbrev Pair := Str × Exp

/-- `jsrExpInit(pos,lemma)` -/
def expInit (pos lemma : Str) : Exp := { pos := pos, lemma := lemma }

/-- `jsrExp.<name>(v)` -/
def Exp.opt (e : Exp) (name : String) (v : OV) : Exp := { e with opts := e.opts ++ [(name.toList, v)] }

def fvStr (x : String) : FV := .str x.toList
def ovStr (x : String) : OV := .str x.toList

/-! ## `genExp` (lines 33-97) -/

/-- the `pos=="N"` branch; `lexG` = `lexiconEntry.get("g")`, `cnt` = `lexiconEntry.get("cnt")` (`none`: key absent) -/
def genExpN (lang : Lang) (d : Row) (e : Exp) (lexG cnt : Option LV) : Except Crash (Option Exp) :=
  -- `g=lexiconEntry["g"] if "g" in lexiconEntry else None`
  let g : FV := match lexG with
    | some v => v.toFV
    | none => .none
  match lang with
  | .en =>
    match d.get .n with
    | none => .error .keyError                                  -- declension["n"]
    | some dn =>
      if dn = fvStr "p" then
        match cnt with
        | none => .error .keyError                              -- lexiconEntry["cnt"]
        | some c => if c = LV.str "no".toList then .ok none else .ok (some (e.opt "n" (ovStr "p")))
      else .ok (some e)
  | .fr =>
    match d.get .g with
    | none => .error .keyError                                  -- declension["g"]
    | some dg =>
      if dg = g then
        match d.get .n with
        | none => .error .keyError
        | some dn => if dn = fvStr "p" then .ok (some (e.opt "n" (ovStr "p"))) else .ok (some e)
      else if g = fvStr "x" then
        let e1 := if dg = fvStr "f" then e.opt "g" (ovStr "f") else e
        match d.get .n with
        | none => .error .keyError
        | some dn => if dn = fvStr "p" then .ok (some (e1.opt "n" (ovStr "p"))) else .ok (some e1)
      else .ok (some e)

/-- the `pos=="Pro" or pos=="D"` branch -/
def genExpProD (lang : Lang) (d : Row) (e : Exp) (lemma : Str) : Exp :=
  let defaultG : FV := match lang with | .fr => fvStr "m" | .en => fvStr "n"
  let dg : FV := match d.get .g with
    | some v => if v = fvStr "x" ∨ v = fvStr "n" then defaultG else v
    | none => defaultG
  let e := if dg ≠ defaultG then e.opt "g" (fvToOV dg) else e
  let e := match d.get .n with
    | some dn =>
      let dn := if dn = fvStr "x" then fvStr "s" else dn
      if dn ≠ fvStr "s" then e.opt "n" (fvToOV dn) else e
    | none => e
  let e := match d.get .pe with
    | some pe => if pe ≠ FV.int 3 ∨ lemma = "moi".toList then e.opt "pe" (fvToOV pe) else e
    | none => e
  let e := match d.get .own with
    | some o => e.opt "ow" (fvToOV o)
    | none => e
  match d.get .tn with
  | some v => e.opt "tn" (fvToOV v)
  | none =>
    match d.get .c with
    | some v => e.opt "c" (fvToOV v)
    | none => e

/-- the `pos=="A"` branch -/
def genExpA (lang : Lang) (d : Row) (e : Exp) : Except Crash Exp :=
  match lang with
  | .fr =>
    match d.get .g with
    | none => .error .keyError                                  -- g=declension["g"]
    | some g =>
      -- `if "g" not in declension or declension["g"]=="x": g=declension["g"]` changes nothing
      let e := if g ≠ fvStr "m" then e.opt "g" (fvToOV g) else e
      let n : FV := match d.get .n with | some n => n | none => fvStr "s"
      .ok (if n ≠ fvStr "s" then e.opt "n" (fvToOV n) else e)
  | .en =>
    match d.get .f with
    | some f => .ok (e.opt "f" (fvToOV f))
    | none => .ok e

/-- `genExp` as a function of the two lexicon values it reads (`lexiconEntry.get("g")`, `.get("cnt")`) -/
def genExpCore (lang : Lang) (d : Row) (pos lemma : Str) (lexG cnt : Option LV) : Except Crash (Option Exp) :=
  let e := expInit pos lemma
  if pos = "N".toList then genExpN lang d e lexG cnt
  else if pos = "Pro".toList ∨ pos = "D".toList then .ok (some (genExpProD lang d e lemma))
  else if pos = "A".toList then (genExpA lang d e).map some
  else if pos = "Adv".toList then
    match lang with
    | .en => (match d.get .f with
        | some f => .ok (some (e.opt "f" (fvToOV f)))
        | none => .ok (some e))
    | .fr => .ok (some e)
  else .ok (some e)                                             -- "***POS not implemented" on stderr

/-- `genExp(lang,declension,pos,lemma,lexiconEntry)`; `.ok none` is Python's `None` -/
def genExp (lang : Lang) (d : Row) (pos lemma : Str) (entry : PosEntry) : Except Crash (Option Exp) :=
  genExpCore lang d pos lemma (lookup "g".toList entry) (lookup "cnt".toList entry)

/-! ## `expandDeclension` (lines 151-176) -/

/-- the `for l in range(0,len(decl))` loop with `seenVals` -/
def declLoop (lang : Lang) (pos lemma : Str) (entry : PosEntry) (radical : Str) :
    List Row → List Str → Except Crash (List Pair)
  | [], _ => .ok []
  | d :: ds, seen =>
    if seen.contains d.val then declLoop lang pos lemma entry radical ds seen
    else
      match genExp lang d pos lemma entry with
      | .error c => .error c
      | .ok r =>
        match declLoop lang pos lemma entry radical ds (seen ++ [d.val]) with
        | .error c => .error c
        | .ok rest =>
          match r with
          | none => .ok rest
          | some e => .ok ((radical ++ d.val, e) :: rest)

/-- `expandDeclension(lang,lexicon,lemmata,rules,entry,pos,tab)`; `tab` is `lexicon[entry][pos]["tab"]` and
    `entry = lexicon[lemma][pos]` -/
def expandDeclension (lang : Lang) (rules : Decl.Rules) (lemma pos : Str) (tab : LV) (entry : PosEntry) :
    Except Crash (List Pair) :=
  let regular : Except Crash (List Pair) := .ok [(lemma, expInit pos lemma)]
  match tab with
  | .other => .error .typeError                                 -- an unhashable `tab`
  | .int _ => regular
  | .str tab =>
    match lookup tab rules with
    | none => regular                                           -- `tab in rules["regular"] or declension is None`
    | some tb =>
      if endsWith lemma tb.ending then
        declLoop lang pos lemma entry (dropRight lemma tb.ending.length) tb.rows []
      else .ok []                                               -- "strange ending"

/-! ## `expandConjugation` (lines 99-149) -/

/-- the options of a finite form: `if t != "p": .t(t)`, `if pe3 != 3: .pe(pe3)`, `if n != "s": .n(n)` -/
def finiteExp (lemma t : Str) (pe : Nat) : Exp :=
  let e := expInit "V".toList lemma
  let e := if t ≠ "p".toList then e.opt "t" (.str t) else e
  let pe3 := pe % 3 + 1
  let e := if pe3 ≠ 3 then e.opt "pe" (.int (Int.ofNat pe3)) else e
  if pe ≥ 3 then e.opt "n" (ovStr "p") else e

/-- `for pe in range(0,6)` -/
def sixLoop (lemma radical t : Str) (cells : List (Option Str)) : List Pair :=
  (List.range 6).filterMap (fun pe =>
    match cells[pe]? with
    | some (some c) => some (radical ++ c, finiteExp lemma t pe)
    | _ => none)

/-- the four `(g,n)` of `for g in "mf": for n in "sp"` with `idx = (0 if n=="s" else 2)+(0 if g=="m" else 1)` -/
def ppGrid : List (Nat × Bool × Bool) := [(0, false, false), (2, false, true), (1, true, false), (3, true, true)]

def ppExp (lemma : Str) (fem plu : Bool) : Exp :=
  let e := (expInit "V".toList lemma).opt "t" (ovStr "pp")
  let e := if fem then e.opt "g" (ovStr "f") else e
  if plu then e.opt "n" (ovStr "p") else e

/-- the `len(persons)==4` branch; `frV` = `getLexicon("fr")[lemma]["V"]` (`none`: `KeyError`) -/
def fourBranch (lemma radical : Str) (cells : List (Option Str)) (frV : Option Conj.Verb) :
    Except Crash (List Pair) :=
  match frV with
  | none => .error .keyError
  | some v =>
    -- `"pat" in v_infos and len(pat)==1 and pat[0]=="intr" and v_infos.get("aux","av")=="av"` (commit 73767de)
    if v.pat = some [ "intr".toList ] ∧ v.aux.getD "av".toList = "av".toList then
      match cells[0]? with
      | some (some c) => .ok [(radical ++ c, (expInit "V".toList lemma).opt "t" (ovStr "pp"))]
      | _ => .error .typeError                                  -- `radical+None`
    else
      .ok (ppGrid.filterMap (fun (idx, fem, plu) =>
        match cells[idx]? with
        | some (some c) => some (radical ++ c, ppExp lemma fem plu)
        | _ => none))

/-- `word[:-1]+"u"` when `word.endswith("û")` -/
def circU (word : Str) : Str := if endsWith word ['û'] then word.dropLast ++ ['u'] else word

/-- the `isinstance(persons,str)` branch -/
def strBranch (lang : Lang) (lemma radical t x : Str) : List Pair :=
  let word := radical ++ x
  let e := expInit "V".toList lemma
  let e := if t ≠ "p".toList then e.opt "t" (.str t) else e
  if t = "pp".toList ∧ lang = .fr ∧ word ≠ "été".toList then
    let w := circU word
    [(word, e),
     (w ++ ['e'], e.opt "g" (ovStr "f")),
     (w ++ (if endsWith w ['s'] then [] else ['s']), (e.opt "g" (ovStr "m")).opt "n" (ovStr "p")),
     (w ++ ['e', 's'], (e.opt "g" (ovStr "f")).opt "n" (ovStr "p"))]
  else [(word, e)]

/-- one iteration of `for t in conjug["t"]` -/
def tenseRow (lang : Lang) (lemma radical : Str) (frV : Option Conj.Verb) (t : Str) (row : Conj.Row) :
    Except Crash (List Pair) :=
  match row with
  | .null => .ok []
  | .list l =>
    if l.length = 6 then .ok (sixLoop lemma radical t l)
    else if l.length = 4 then fourBranch lemma radical l frV
    else .ok []
  | .str x => .ok (strBranch lang lemma radical t x)

def tenseRows (lang : Lang) (lemma radical : Str) (frV : Option Conj.Verb) :
    List (Str × Conj.Row) → Except Crash (List Pair)
  | [] => .ok []
  | (t, row) :: rest =>
    match tenseRow lang lemma radical frV t row with
    | .error c => .error c
    | .ok a =>
      match tenseRows lang lemma radical frV rest with
      | .error c => .error c
      | .ok b => .ok (a ++ b)

/-- `expandConjugation(lang,lemmata,rules,lemma,tab)` -/
def expandConjugation (lang : Lang) (rules : Conj.Rules) (lemma tab : Str) (frV : Option Conj.Verb) :
    Except Crash (List Pair) :=
  match lookup tab rules with
  | none => .ok []                                              -- `if tab not in rules["conjugation"]:return`
  | some tb =>
    if endsWith lemma tb.ending then
      if tb.hasT then tenseRows lang lemma (dropRight lemma tb.ending.length) frV tb.rows
      else .error .keyError                                     -- conjug["t"]
    else .ok []                                                 -- "strange ending"

/-! ## the body of the `for entry,entryInfos in lexicon.items()` loop of `buildLemmataMap` (lines 178-191) -/

/-- a value of `lexicon[lemma]`: a dict (a part of speech) or anything else (`ldv: true`, `value: 12`) -/
inductive EVal where
  | dict (e : PosEntry)
  | scalar
  deriving DecidableEq, Repr, Inhabited

def skipKeys : List Str := ["ldv".toList, "niveau".toList, "value".toList, "Pc".toList]

/-- `entryInfos[pos]["tab"]` -/
def tabOf : EVal → Except Crash LV
  | .scalar => .error .typeError
  | .dict e => match lookup "tab".toList e with
    | some v => .ok v
    | none => .error .keyError

def expandKey (lang : Lang) (conj : Conj.Rules) (decl : Decl.Rules) (lemma : Str) (frV : Option Conj.Verb)
    (pos : Str) (val : EVal) : Except Crash (List Pair) :=
  if skipKeys.contains pos then .ok []
  else
    match tabOf val with
    | .error c => .error c
    | .ok tab =>
      if pos = "V".toList then
        match tab with
        | .str tb => expandConjugation lang conj lemma tb frV
        | .int _ => .ok []                                      -- not a key of rules["conjugation"]
        | .other => .error .typeError
      else
        match val with
        | .dict e => expandDeclension lang decl lemma pos tab e
        | .scalar => .error .typeError

def expandEntry (lang : Lang) (conj : Conj.Rules) (decl : Decl.Rules) (lemma : Str) (frV : Option Conj.Verb) :
    List (Str × EVal) → Except Crash (List Pair)
  | [] => .ok []
  | (pos, val) :: rest =>
    match expandKey lang conj decl lemma frV pos val with
    | .error c => .error c
    | .ok a =>
      match expandEntry lang conj decl lemma frV rest with
      | .error c => .error c
      | .ok b => .ok (a ++ b)

/-! ## realization of an expression by the models of C01 / C02 -/

/-- what the option calls of a `V` expression leave for `conjugate` to read; `none`: a value outside the domain of
    the conjugation model (never produced by the expansion of a well-formed table) -/
structure VOpts where
  t : Conj.Tense := .p
  pe : Conj.Person := .p3
  n : Conj.Num := .s
  g : Conj.Gender := .m
  deriving DecidableEq, Repr

def vOpt (o : VOpts) (name : Str) (v : OV) : Option VOpts :=
  if name = "t".toList then
    match v with
    | .str c => (Conj.Tense.ofCode? c).map (fun t => { o with t := t })
    | _ => none
  else if name = "pe".toList then
    if v = .int 1 then some { o with pe := .p1 } else if v = .int 2 then some { o with pe := .p2 }
    else if v = .int 3 then some { o with pe := .p3 } else none
  else if name = "n".toList then
    if v = ovStr "s" then some { o with n := .s } else if v = ovStr "p" then some { o with n := .p } else none
  else if name = "g".toList then
    if v = ovStr "m" then some { o with g := .m } else if v = ovStr "f" then some { o with g := .f } else none
  else none

def vOpts : VOpts → List (Str × OV) → Option VOpts
  | o, [] => some o
  | o, (k, v) :: r => match vOpt o k v with
    | some o1 => vOpts o1 r
    | none => none

/-- the environment of a realization: the rule tables of the language, the auxiliaries' entries (C01) -/
structure Env where
  lang : Lang
  conj : Conj.Rules
  decl : Decl.Rules
  en : ConjEn.EnEnv
  fr : ConjFr.FrEnv

/-- `V(lemma).opts….realize()` : text and number of warnings -/
def realizeV (env : Env) (lemma : Str) (verb : Option Conj.Verb) (opts : List (Str × OV)) :
    Except Crash Conj.Real :=
  match vOpts {} opts with
  | none => .error .other
  | some o =>
    match env.lang with
    | .en => ConjEn.realize env.conj env.en lemma verb o.pe o.n o.t
    | .fr => ConjFr.realize env.conj env.fr lemma verb none o.pe o.n o.g o.t

def posOf? (p : Str) : Option Pos :=
  if p = "N".toList then some .N else if p = "A".toList then some .A else if p = "Adv".toList then some .Adv
  else if p = "D".toList then some .D else if p = "Pro".toList then some .Pro else none

/-- `exp.realize()` with the language of the map current: text and number of warnings.
    `lex` = the part of the lexicon the realization consults; `verb` = `lexicon[lemma]["V"]` -/
def realizeExp (env : Env) (lex : Lex) (verb : Option Conj.Verb) (e : Exp) : Except Crash (Str × Nat) :=
  if e.pos = "V".toList then
    match realizeV env e.lemma verb e.opts with
    | .error c => .error c
    | .ok r => .ok (r.text, r.warns)
  else
    match posOf? e.pos with
    | some pos =>
      match realize env.decl lex ⟨env.lang, pos, e.lemma, e.opts⟩ with
      | .error c => .error c
      | .ok o => .ok (detok o.toks, o.warns)
    | none =>
      -- `C`, `P`: found in the lexicon, table not a declension table, realization = lemma; `Q`: the lemma
      if e.opts = [] then .ok (Decl.stripLead e.lemma, 0) else .error .other

end Pyrealb.Lemmatize
