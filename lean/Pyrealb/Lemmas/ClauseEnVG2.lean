import Pyrealb.Lemmas.ClauseEnVG
/-! Shape of the words `affixHopping` returns, and the place of `not` among them: `decide` over every verb class,
    tense and flag combination. -/
namespace Pyrealb.ClauseEn

/-- a token of the verb group -/
def Tok.isWord : Tok → Bool
  | .verb .. | .cannot | .not_ | .to_ => true
  | _ => false

/-- `not` directly after the first element (`cannot` carries its own), nowhere else; none without `neg` -/
def notPlaced (neg : Bool) (ws : List Tok) : Bool :=
  if neg then
    match ws with
    | .cannot :: r => notCount r == 0
    | .verb _ _ _ :: .not_ :: r => notCount r == 0
    | _ => false
  else notCount ws == 0

/-- the three shapes of the word list: a verb first; `cannot` alone; `cannot` followed by a verb -/
def wordsShape (ws : List Tok) : Bool :=
  ws.all Tok.isWord &&
  match ws with
  | .verb _ _ .shared :: r => r.all (fun t => match t with | .verb _ _ .shared => false | _ => true)
  | [.cannot] => true
  | .cannot :: .verb _ _ (.fixed _) :: r => r.all (fun t => match t with | .verb _ _ .shared => false | _ => true)
  | _ => false

set_option maxRecDepth 100000 in
theorem words_shape_fin : ∀ v ∈ VLemma.all, ∀ t ∈ Tense.all, ∀ ty ∈ Typ.verbFlags3,
    (notPlaced ty.neg (words v t ty) = true ∧ wordsShape (words v t ty) = true) := by
  decide +kernel

theorem words_notPlaced (v : VLemma) (t : Tense) (ty : Typ) : notPlaced ty.neg (words v t ty) = true :=
  forall_of_norm (P := fun v t ty => notPlaced ty.neg (words v t ty) = true)
    (fun v t ty h => by rw [words_norm] at h; exact h)
    (fun v hv t ht ty hty => (words_shape_fin v hv t ht ty hty).1) v t ty

theorem words_shape (v : VLemma) (t : Tense) (ty : Typ) : wordsShape (words v t ty) = true :=
  forall_of_norm (P := fun v t ty => wordsShape (words v t ty) = true)
    (fun v t ty h => by rw [words_norm] at h; exact h)
    (fun v hv t ht ty hty => (words_shape_fin v hv t ht ty hty).2) v t ty

/-- `cannot` stands alone exactly for: main verb `can`, present, negated, no auxiliary -/
def cannotAlone (v : VLemma) (t : Tense) (ty : Typ) : Bool :=
  v == .can && t == .p && ty.neg && ty.mod.isNone && !ty.perf && !ty.prog && !ty.pas && !ty.questioned

set_option maxRecDepth 100000 in
theorem cannot_alone_fin : ∀ v ∈ VLemma.all, ∀ t ∈ Tense.all, ∀ ty ∈ Typ.verbFlags3,
    (words v t ty = [.cannot] ↔ cannotAlone v t ty = true) := by
  decide +kernel

theorem cannot_alone (v : VLemma) (t : Tense) (ty : Typ) : words v t ty = [.cannot] ↔ cannotAlone v t ty = true :=
  forall_of_norm (P := fun v t ty => words v t ty = [.cannot] ↔ cannotAlone v t ty = true)
    (fun v t ty h => by
      have hq : cannotAlone v t ty.norm = cannotAlone v t ty := by
        unfold cannotAlone; rw [questioned_norm]; rfl
      rw [words_norm, hq] at h; exact h)
    cannot_alone_fin v t ty

end Pyrealb.ClauseEn
