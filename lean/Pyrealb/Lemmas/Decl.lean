import Pyrealb.Model.Decl
/-! Helper lemmas for C02 about `setLemma`: it never changes the (normalized) lemma it stored. -/
namespace Pyrealb.Decl

@[simp] theorem Term.warn_lemma (t : Term) : t.warn.lemma = t.lemma := rfl
@[simp] theorem Term.setPe_lemma (t : Term) (v : FV) (b : Bool) : (t.setPe v b).lemma = t.lemma := by
  unfold Term.setPe; split <;> rfl
@[simp] theorem Term.setN_lemma (t : Term) (v : FV) (b : Bool) : (t.setN v b).lemma = t.lemma := by
  unfold Term.setN; split <;> rfl
@[simp] theorem Term.setG_lemma (t : Term) (v : FV) (b : Bool) : (t.setG v b).lemma = t.lemma := by
  unfold Term.setG; split <;> rfl
@[simp] theorem badTable_lemma (t : Term) : (badTable t).lemma = t.lemma := by
  unfold badTable; dsimp only; split <;> rfl

theorem setLemmaKey_lemma (rules : Rules) (t t' : Term) (k : Str) (v : LV)
    (h : setLemmaKey rules t k v = .ok t') : t'.lemma = t.lemma := by
  unfold setLemmaKey at h
  split at h
  · split at h
    · split at h
      · simp only [bind, Except.bind] at h
        split at h
        · cases h
        · rename_i t1 ht1
          have h1 : t1.lemma = t.lemma := by
            split at ht1
            · split at ht1
              · cases ht1
              · simp only [pure, Except.pure, Except.ok.injEq] at ht1
                subst ht1
                split <;> first | rfl | simp
            · split at ht1
              · simp only [pure, Except.pure, Except.ok.injEq] at ht1
                subst ht1; simp
              · simp only [pure, Except.pure, Except.ok.injEq] at ht1
                subst ht1; rfl
          split at h
          · simp only [pure, Except.pure, Except.ok.injEq] at h
            subst h; exact h1
          · simp only [pure, Except.pure, Except.ok.injEq] at h
            subst h; simp [h1]
      · simp only [pure, Except.pure, Except.ok.injEq] at h
        subst h; simp
    · simp only [pure, Except.pure, Except.ok.injEq] at h
      subst h; simp
  · repeat' split at h
    all_goals (simp only [pure, Except.pure, Except.ok.injEq] at h; subst h; simp)

theorem setLemmaKeys_lemma (rules : Rules) (entry : PosEntry) (t t' : Term)
    (h : setLemmaKeys rules t entry = .ok t') : t'.lemma = t.lemma := by
  induction entry generalizing t with
  | nil => simp only [setLemmaKeys, pure, Except.pure, Except.ok.injEq] at h; subst h; rfl
  | cons p r ih =>
    obtain ⟨k, v⟩ := p
    simp only [setLemmaKeys, bind, Except.bind] at h
    split at h
    · cases h
    · rename_i t1 ht1
      rw [ih t1 h, setLemmaKey_lemma rules t t1 k v ht1]

theorem setLemma_lemma (rules : Rules) (lex : Lex) (t t' : Term) (lemma : Str)
    (h : setLemma rules lex t lemma = .ok t') : t'.lemma = normLemma lemma := by
  unfold setLemma at h
  simp only [] at h
  split at h
  · simp only [pure, Except.pure, Except.ok.injEq] at h; subst h; rfl
  · split at h
    · simp only [pure, Except.pure, Except.ok.injEq] at h; subst h; rfl
    · exact setLemmaKeys_lemma rules _ _ _ h

theorem mkTerm_lemma (rules : Rules) (lex : Lex) (lang : Lang) (pos : Pos) (lemma : Str) (t : Term)
    (h : mkTerm rules lex lang pos lemma = .ok t) : t.lemma = normLemma lemma :=
  setLemma_lemma rules lex _ t lemma h

end Pyrealb.Decl
