import Pyrealb.Model.ConjWF
/-! Consequences of the well-formedness predicates of `Model/ConjWF` (used by `Props/C01`). -/
namespace Pyrealb.Conj
open Pyrealb

theorem lookup_mem {α} {k : Str} {l : List (Str × α)} {v : α} (h : lookup k l = some v) : (k, v) ∈ l := by
  induction l with
  | nil => simp [lookup] at h
  | cons kv r ih =>
    obtain ⟨k', v'⟩ := kv
    by_cases hk : k' = k
    · subst hk
      simp [lookup] at h
      subst h
      exact List.mem_cons_self
    · simp [lookup, hk] at h
      exact List.mem_cons_of_mem _ (ih h)

theorem ofCode_code (t : Tense) : Tense.ofCode? t.code = some t := by
  cases t <;> rfl

theorem list_len6 {α} {l : List α} (h : l.length = 6) : ∃ a b c d e f, l = [a, b, c, d, e, f] := by
  match l, h with
  | [a, b, c, d, e, f], _ => exact ⟨a, b, c, d, e, f, rfl⟩

theorem list_len4 {α} {l : List α} (h : l.length = 4) : ∃ a b c d, l = [a, b, c, d] := by
  match l, h with
  | [a, b, c, d], _ => exact ⟨a, b, c, d, rfl⟩

theorem isListOf_elim {k : Nat} {r : Row} (h : r.isListOf k = true) : ∃ l, r = .list l ∧ l.length = k := by
  cases r with
  | null => simp [Row.isListOf] at h
  | str x => simp [Row.isListOf] at h
  | list l => exact ⟨l, rfl, by simpa [Row.isListOf] using h⟩

theorem isStr_elim {r : Row} (h : r.isStr = true) : ∃ x, r = .str x := by
  cases r with
  | null => simp [Row.isStr] at h
  | str x => exact ⟨x, rfl⟩
  | list l => simp [Row.isStr] at h

theorem isNull_elim {r : Row} (h : r.isNull = true) : r = .null := by
  cases r <;> simp [Row.isNull] at h ⊢

/-- the facts about a well-formed verb that the proofs use -/
theorem wfVerb_elim {wfTable : Table → Bool} {rules : Rules} {v : Verb} (h : wfVerb wfTable rules v = true) :
    ∃ tb, lookup v.tab rules = some tb ∧ wfTable tb = true ∧ endsWith v.lemma tb.ending = true := by
  unfold wfVerb at h
  split at h
  · next tb htb =>
    simp only [Bool.and_eq_true] at h
    exact ⟨tb, htb, h.1, h.2⟩
  · simp at h

theorem setLemma_wf {rules : Rules} {v : Verb} {tb : Table} (htb : lookup v.tab rules = some tb)
    (hend : endsWith v.lemma tb.ending = true) :
    setLemma rules v.lemma (some v) =
      { lemma := v.lemma, tab := some v.tab, stem := dropRight v.lemma tb.ending.length, warns := 0 } := by
  simp [setLemma, htb, hend]

/-! ### English tables -/

structure EnRows (tb : Table) : Prop where
  hasT : tb.hasT = true
  /-- a row exists only for `b pp pr` (a string) and `p ps` (a string or six cells) -/
  row : ∀ (t : Tense) (r : Row), tb.row? t.code = some r →
    ((t = .b ∨ t = .pp ∨ t = .pr) ∧ ∃ x, r = .str x) ∨
    ((t = .p ∨ t = .ps) ∧ ((∃ x, r = .str x) ∨ ∃ a b c d e f, r = .list [a, b, c, d, e, f]))

theorem wfRowEn_elim {t : Tense} {r : Row} (h : wfRowEn t.code r = true) :
    ((t = .b ∨ t = .pp ∨ t = .pr) ∧ ∃ x, r = .str x) ∨
    ((t = .p ∨ t = .ps) ∧ ((∃ x, r = .str x) ∨ ∃ a b c d e f, r = .list [a, b, c, d, e, f])) := by
  unfold wfRowEn at h
  rw [ofCode_code] at h
  cases t <;> simp at h <;> first
    | exact Or.inl ⟨by simp, isStr_elim h⟩
    | (refine Or.inr ⟨by simp, ?_⟩
       rcases h with h | h
       · exact Or.inl (isStr_elim h)
       · obtain ⟨l, rfl, hl⟩ := isListOf_elim h
         obtain ⟨a, b, c, d, e, f, rfl⟩ := list_len6 hl
         exact Or.inr ⟨a, b, c, d, e, f, rfl⟩)

theorem wfTableEn_elim {tb : Table} (h : wfTableEn tb = true) : EnRows tb := by
  unfold wfTableEn at h
  simp only [Bool.and_eq_true] at h
  obtain ⟨h1, h3⟩ := h
  refine ⟨h1, ?_⟩
  intro t r hr
  have hm := lookup_mem (show lookup t.code tb.rows = some r from hr)
  rw [List.all_eq_true] at h3
  exact wfRowEn_elim (h3 _ hm)

/-! ### French tables -/

structure FrRows (tb : Table) : Prop where
  hasT : tb.hasT = true
  /-- the eight person rows -/
  fin : ∀ t : Tense, t ∈ [Tense.p, .i, .f, .ps, .c, .s, .si, .ip] →
    ∃ a b c d e f, tb.row? t.code = some (.list [a, b, c, d, e, f])
  pp : ∃ a b c d, tb.row? Tense.pp.code = some (.list [a, b, c, d])
  pr : (∃ x, tb.row? Tense.pr.code = some (.str x)) ∨ tb.row? Tense.pr.code = some .null
  b : ∃ x, tb.row? Tense.b.code = some (.str x)
  /-- no other row -/
  none : ∀ t : Tense, t ∈ [Tense.bTo, .pc, .pq, .cp, .pa, .fa, .spa, .spq, .bp, .bpTo] → tb.row? t.code = none

theorem wfTableFr_elim {tb : Table} (h : wfTableFr tb = true) : FrRows tb := by
  unfold wfTableFr at h
  simp only [Bool.and_eq_true] at h
  obtain ⟨⟨h1, h3⟩, h4⟩ := h
  rw [List.all_eq_true] at h3 h4
  have shape : ∀ (t : Tense) (r : Row), tb.row? t.code = some r → wfRowFr t.code r = true := by
    intro t r hr
    exact h3 _ (lookup_mem (show lookup t.code tb.rows = some r from hr))
  have present : ∀ t ∈ frRowCodes, ∃ r, tb.row? t.code = some r := by
    intro t ht
    have := h4 t ht
    exact Option.isSome_iff_exists.mp this
  refine ⟨h1, ?_, ?_, ?_, ?_, ?_⟩
  · intro t ht
    have hin : t ∈ frRowCodes := by
      simp only [List.mem_cons, List.not_mem_nil, or_false] at ht
      rcases ht with rfl | rfl | rfl | rfl | rfl | rfl | rfl | rfl <;> simp [frRowCodes]
    obtain ⟨r, hr⟩ := present t hin
    have hs := shape t r hr
    unfold wfRowFr at hs
    rw [ofCode_code] at hs
    simp only [List.mem_cons, List.not_mem_nil, or_false] at ht
    rcases ht with rfl | rfl | rfl | rfl | rfl | rfl | rfl | rfl <;>
      (simp only at hs
       obtain ⟨l, rfl, hl⟩ := isListOf_elim hs
       obtain ⟨a, b, c, d, e, f, rfl⟩ := list_len6 hl
       exact ⟨a, b, c, d, e, f, hr⟩)
  · obtain ⟨r, hr⟩ := present .pp (by simp [frRowCodes])
    have hs := shape _ r hr
    unfold wfRowFr at hs
    rw [ofCode_code] at hs
    simp only at hs
    obtain ⟨l, rfl, hl⟩ := isListOf_elim hs
    obtain ⟨a, b, c, d, rfl⟩ := list_len4 hl
    exact ⟨a, b, c, d, hr⟩
  · obtain ⟨r, hr⟩ := present .pr (by simp [frRowCodes])
    have hs := shape _ r hr
    unfold wfRowFr at hs
    rw [ofCode_code] at hs
    simp only [Bool.or_eq_true] at hs
    rcases hs with hs | hs
    · obtain ⟨x, rfl⟩ := isStr_elim hs
      exact Or.inl ⟨x, hr⟩
    · rw [isNull_elim hs] at hr
      exact Or.inr hr
  · obtain ⟨r, hr⟩ := present .b (by simp [frRowCodes])
    have hs := shape _ r hr
    unfold wfRowFr at hs
    rw [ofCode_code] at hs
    simp only at hs
    obtain ⟨x, rfl⟩ := isStr_elim hs
    exact ⟨x, hr⟩
  · intro t ht
    cases hr : tb.row? t.code with
    | none => rfl
    | some r =>
      have hs := shape t r hr
      unfold wfRowFr at hs
      rw [ofCode_code] at hs
      simp only [List.mem_cons, List.not_mem_nil, or_false] at ht
      rcases ht with rfl | rfl | rfl | rfl | rfl | rfl | rfl | rfl | rfl | rfl <;> simp at hs

/-! ### indexing six- and four-cell rows -/

/-- the cell of a six-cell row for a person and number -/
def pick6 {α} (a b c d e f : α) : Person → Num → α
  | .p1, .s => a | .p2, .s => b | .p3, .s => c
  | .p1, .p => d | .p2, .p => e | .p3, .p => f

/-- the cell of a four-cell participle row for a number and gender -/
def pick4 {α} (a b c d : α) : Num → Gender → α
  | .s, .m => a | .s, .f => b | .p, .m => c | .p, .f => d

theorem at6 (a b c d e f : Option Str) (pe : Person) (n : Num) :
    Row.at (.list [a, b, c, d, e, f]) (idx6 pe n) = .ok (pick6 a b c d e f pe n) := by
  cases pe <;> cases n <;> rfl

theorem at4 (a b c d : Option Str) (n : Num) (g : Gender) :
    Row.at (.list [a, b, c, d]) (ConjFr.idx4 n g) = .ok (pick4 a b c d n g) := by
  cases n <;> cases g <;> rfl

theorem idx4_pos (n : Num) (g : Gender) : (ConjFr.idx4 n g > 0) = (ConjFr.idx4 n g ≠ 0) := by
  cases n <;> cases g <;> simp [ConjFr.idx4]

/-! ### English: tenses without a row -/

theorem noRowEn {tb : Table} (R : EnRows tb) {t : Tense}
    (ht : t ≠ .p ∧ t ≠ .ps ∧ t ≠ .pr ∧ t ≠ .pp ∧ t ≠ .b) : tb.hasRow t.code = false := by
  cases hrow : tb.row? t.code with
  | none => simp [Table.hasRow, hrow]
  | some r =>
    rcases R.row t r hrow with ⟨h, _⟩ | ⟨h, _⟩
    · rcases h with rfl | rfl | rfl <;> simp at ht
    · rcases h with rfl | rfl <;> simp at ht

/-! ### the surface model fails only with its fragment marker -/

/-- the only error of the surface model is its fragment marker -/
theorem elideLoopFr_error_aux (k : Nat) : ∀ (pl : Bool) (l : List Tok) (err : Crash), l.length ≤ k →
    elideLoopFr pl l = .error err → err = .other := by
  induction k with
  | zero =>
    intro pl l err hn h
    match l, hn with
    | [], _ => simp [elideLoopFr] at h
  | succ k ih' =>
    intro pl l err hn h
    have ih : ∀ m, m ≤ k → ∀ (pl : Bool) (l : List Tok) {e2 : Crash}, elideLoopFr pl l = .error e2 → l.length = m →
        e2 = .other := fun m hm pl l e2 hl hlen => ih' pl l e2 (by omega) hl
    match l, hn with
    | [], _ => simp [elideLoopFr] at h
    | [a], _ => simp [elideLoopFr] at h
    | a :: b :: rest, hn =>
      unfold elideLoopFr at h
      split at h
      · -- previous token is `lier`
        cases hr : elideLoopFr a.lier (b :: rest) with
        | error e2 =>
          have := ih (b :: rest).length (by simp at hn ⊢; omega) a.lier (b :: rest) hr rfl
          simp [hr, bind, Except.bind] at h
          rw [← h]; exact this
        | ok r => simp [hr, bind, Except.bind, pure, Except.pure] at h
      · split at h
        · split at h
          · cases hr : elideLoopFr b.lier rest with
            | error e2 =>
              have := ih rest.length (by simp at hn ⊢; omega) b.lier rest hr rfl
              simp [hr, bind, Except.bind] at h
              rw [← h]; exact this
            | ok r => simp [hr, bind, Except.bind, pure, Except.pure] at h
          · split at h
            · cases h; rfl
            · split at h
              · cases h; rfl
              · cases hr : elideLoopFr a.lier (b :: rest) with
                | error e2 =>
                  have := ih (b :: rest).length (by simp at hn ⊢; omega) a.lier (b :: rest) hr rfl
                  simp [hr, bind, Except.bind] at h
                  rw [← h]; exact this
                | ok r => simp [hr, bind, Except.bind, pure, Except.pure] at h
        · cases hr : elideLoopFr a.lier (b :: rest) with
          | error e2 =>
            have := ih (b :: rest).length (by simp at hn ⊢; omega) a.lier (b :: rest) hr rfl
            simp [hr, bind, Except.bind] at h
            rw [← h]; exact this
          | ok r => simp [hr, bind, Except.bind, pure, Except.pure] at h

theorem elideLoopFr_error (pl : Bool) (l : List Tok) (err : Crash) (h : elideLoopFr pl l = .error err) :
    err = .other := elideLoopFr_error_aux l.length pl l err (Nat.le_refl _) h

theorem surfaceFr_error (toks : List Tok) (err : Crash) (h : surfaceFr toks = .error err) : err = .other := by
  unfold surfaceFr at h
  simp only [bind, Except.bind, pure, Except.pure] at h
  split at h
  · cases h
  · split at h
    · next hh => cases h; exact elideLoopFr_error _ _ _ hh
    · cases h


end Pyrealb.Conj
