import Pyrealb.Model.ConjWF
/-! Consequences of the well-formedness predicates of `Model/ConjWF` (used by `Props/C01`). -/
namespace Pyrealb.Conj
open Pyrealb

theorem lookup_mem {α} {k : Str} {l : List (Str × α)} {v : α} (h : lookup k l = some v) : (k, v) ∈ l := by
  induction l with
  | nil => simp [lookup] at h
  | cons kv r ih =>
    obtain ⟨k', v'⟩ := kv
    by_cases hk : k' = k
    · subst hk
      simp [lookup] at h
      subst h
      exact List.mem_cons_self
    · simp [lookup, hk] at h
      exact List.mem_cons_of_mem _ (ih h)

theorem ofCode_code (t : Tense) : Tense.ofCode? t.code = some t := by
  cases t <;> rfl

theorem list_len6 {α} {l : List α} (h : l.length = 6) : ∃ a b c d e f, l = [a, b, c, d, e, f] := by
  match l, h with
  | [a, b, c, d, e, f], _ => exact ⟨a, b, c, d, e, f, rfl⟩

theorem list_len4 {α} {l : List α} (h : l.length = 4) : ∃ a b c d, l = [a, b, c, d] := by
  match l, h with
  | [a, b, c, d], _ => exact ⟨a, b, c, d, rfl⟩

theorem isListOf_elim {k : Nat} {r : Row} (h : r.isListOf k = true) : ∃ l, r = .list l ∧ l.length = k := by
  cases r with
  | null => simp [Row.isListOf] at h
  | str x => simp [Row.isListOf] at h
  | list l => exact ⟨l, rfl, by simpa [Row.isListOf] using h⟩

theorem isStr_elim {r : Row} (h : r.isStr = true) : ∃ x, r = .str x := by
  cases r with
  | null => simp [Row.isStr] at h
  | str x => exact ⟨x, rfl⟩
  | list l => simp [Row.isStr] at h

theorem isNull_elim {r : Row} (h : r.isNull = true) : r = .null := by
  cases r <;> simp [Row.isNull] at h ⊢

/-- the facts about a well-formed verb that the proofs use -/
theorem wfVerb_elim {wfTable : Table → Bool} {rules : Rules} {v : Verb} (h : wfVerb wfTable rules v = true) :
    ∃ tb, lookup v.tab rules = some tb ∧ wfTable tb = true ∧ endsWith v.lemma tb.ending = true := by
  unfold wfVerb at h
  split at h
  · next tb htb =>
    simp only [Bool.and_eq_true] at h
    exact ⟨tb, htb, h.1, h.2⟩
  · simp at h

theorem setLemma_wf {rules : Rules} {v : Verb} {tb : Table} (htb : lookup v.tab rules = some tb)
    (hend : endsWith v.lemma tb.ending = true) :
    setLemma rules v.lemma (some v) =
      { lemma := v.lemma, tab := some v.tab, stem := dropRight v.lemma tb.ending.length, warns := 0 } := by
  simp [setLemma, htb, hend]

/-! ### English tables -/

structure EnRows (tb : Table) : Prop where
  hasT : tb.hasT = true
  keys : ∀ t : Tense, tb.keys.contains t.code = false
  /-- a row exists only for `b pp pr` (a string) and `p ps` (a string or six cells) -/
  row : ∀ (t : Tense) (r : Row), tb.row? t.code = some r →
    ((t = .b ∨ t = .pp ∨ t = .pr) ∧ ∃ x, r = .str x) ∨
    ((t = .p ∨ t = .ps) ∧ ((∃ x, r = .str x) ∨ ∃ a b c d e f, r = .list [a, b, c, d, e, f]))

theorem wfRowEn_elim {t : Tense} {r : Row} (h : wfRowEn t.code r = true) :
    ((t = .b ∨ t = .pp ∨ t = .pr) ∧ ∃ x, r = .str x) ∨
    ((t = .p ∨ t = .ps) ∧ ((∃ x, r = .str x) ∨ ∃ a b c d e f, r = .list [a, b, c, d, e, f])) := by
  unfold wfRowEn at h
  rw [ofCode_code] at h
  cases t <;> simp at h <;> first
    | exact Or.inl ⟨by simp, isStr_elim h⟩
    | (refine Or.inr ⟨by simp, ?_⟩
       rcases h with h | h
       · exact Or.inl (isStr_elim h)
       · obtain ⟨l, rfl, hl⟩ := isListOf_elim h
         obtain ⟨a, b, c, d, e, f, rfl⟩ := list_len6 hl
         exact Or.inr ⟨a, b, c, d, e, f, rfl⟩)

theorem keysOK_elim {tb : Table} (h : tb.keysOK = true) (t : Tense) : tb.keys.contains t.code = false := by
  unfold Table.keysOK at h
  rw [List.all_eq_true] at h
  cases hc : tb.keys.contains t.code with
  | false => rfl
  | true =>
    have hm : t.code ∈ tb.keys := by simpa using hc
    have := h _ hm
    rw [ofCode_code] at this
    simp at this

theorem wfTableEn_elim {tb : Table} (h : wfTableEn tb = true) : EnRows tb := by
  unfold wfTableEn at h
  simp only [Bool.and_eq_true] at h
  obtain ⟨⟨h1, h2⟩, h3⟩ := h
  refine ⟨h1, keysOK_elim h2, ?_⟩
  intro t r hr
  have hm := lookup_mem (show lookup t.code tb.rows = some r from hr)
  rw [List.all_eq_true] at h3
  exact wfRowEn_elim (h3 _ hm)

/-! ### French tables -/

structure FrRows (tb : Table) : Prop where
  hasT : tb.hasT = true
  /-- the eight person rows -/
  fin : ∀ t : Tense, t ∈ [Tense.p, .i, .f, .ps, .c, .s, .si, .ip] →
    ∃ a b c d e f, tb.row? t.code = some (.list [a, b, c, d, e, f])
  pp : ∃ a b c d, tb.row? Tense.pp.code = some (.list [a, b, c, d])
  pr : (∃ x, tb.row? Tense.pr.code = some (.str x)) ∨ tb.row? Tense.pr.code = some .null
  b : ∃ x, tb.row? Tense.b.code = some (.str x)
  /-- no other row -/
  none : ∀ t : Tense, t ∈ [Tense.bTo, .pc, .pq, .cp, .pa, .fa, .spa, .spq, .bp, .bpTo] → tb.row? t.code = none

theorem wfTableFr_elim {tb : Table} (h : wfTableFr tb = true) : FrRows tb := by
  unfold wfTableFr at h
  simp only [Bool.and_eq_true] at h
  obtain ⟨⟨⟨h1, _⟩, h3⟩, h4⟩ := h
  rw [List.all_eq_true] at h3 h4
  have shape : ∀ (t : Tense) (r : Row), tb.row? t.code = some r → wfRowFr t.code r = true := by
    intro t r hr
    exact h3 _ (lookup_mem (show lookup t.code tb.rows = some r from hr))
  have present : ∀ t ∈ frRowCodes, ∃ r, tb.row? t.code = some r := by
    intro t ht
    have := h4 t ht
    exact Option.isSome_iff_exists.mp this
  refine ⟨h1, ?_, ?_, ?_, ?_, ?_⟩
  · intro t ht
    have hin : t ∈ frRowCodes := by
      simp only [List.mem_cons, List.not_mem_nil, or_false] at ht
      rcases ht with rfl | rfl | rfl | rfl | rfl | rfl | rfl | rfl <;> simp [frRowCodes]
    obtain ⟨r, hr⟩ := present t hin
    have hs := shape t r hr
    unfold wfRowFr at hs
    rw [ofCode_code] at hs
    simp only [List.mem_cons, List.not_mem_nil, or_false] at ht
    rcases ht with rfl | rfl | rfl | rfl | rfl | rfl | rfl | rfl <;>
      (simp only at hs
       obtain ⟨l, rfl, hl⟩ := isListOf_elim hs
       obtain ⟨a, b, c, d, e, f, rfl⟩ := list_len6 hl
       exact ⟨a, b, c, d, e, f, hr⟩)
  · obtain ⟨r, hr⟩ := present .pp (by simp [frRowCodes])
    have hs := shape _ r hr
    unfold wfRowFr at hs
    rw [ofCode_code] at hs
    simp only at hs
    obtain ⟨l, rfl, hl⟩ := isListOf_elim hs
    obtain ⟨a, b, c, d, rfl⟩ := list_len4 hl
    exact ⟨a, b, c, d, hr⟩
  · obtain ⟨r, hr⟩ := present .pr (by simp [frRowCodes])
    have hs := shape _ r hr
    unfold wfRowFr at hs
    rw [ofCode_code] at hs
    simp only [Bool.or_eq_true] at hs
    rcases hs with hs | hs
    · obtain ⟨x, rfl⟩ := isStr_elim hs
      exact Or.inl ⟨x, hr⟩
    · rw [isNull_elim hs] at hr
      exact Or.inr hr
  · obtain ⟨r, hr⟩ := present .b (by simp [frRowCodes])
    have hs := shape _ r hr
    unfold wfRowFr at hs
    rw [ofCode_code] at hs
    simp only at hs
    obtain ⟨x, rfl⟩ := isStr_elim hs
    exact ⟨x, hr⟩
  · intro t ht
    cases hr : tb.row? t.code with
    | none => rfl
    | some r =>
      have hs := shape t r hr
      unfold wfRowFr at hs
      rw [ofCode_code] at hs
      simp only [List.mem_cons, List.not_mem_nil, or_false] at ht
      rcases ht with rfl | rfl | rfl | rfl | rfl | rfl | rfl | rfl | rfl | rfl <;> simp at hs

end Pyrealb.Conj
