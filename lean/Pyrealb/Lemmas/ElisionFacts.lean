import Pyrealb.Lemmas.ElisionWords
/-! The finite facts about the tables lifted from ConstituentFr.py / ConstituentEn.py that the C06 proofs use.
    Each is a closed proposition over `Gen.Elision`, decided by the kernel, hence RE-PROVED whenever the source
    tables change (a failure here names the fact that the new table breaks). -/
namespace Pyrealb.Elision
open Pyrealb Pyrealb.Gen.Elision

def allH : List HFlag := [.mute, .aspire, .crash]
theorem mem_allH (h : HFlag) : h ∈ allH := by cases h <;> simp [allH]

/-- the words whose last letter `doElision` may replace by an apostrophe -/
def EE : List Str := elidableFr ++ euphonicFr

/-- an elided form (`l'`, `qu'`, `c'`, …) is not itself elidable, euphonic, prevocalic, à/de, le/les, nor part of
    a key of the contraction table -/
theorem fact_elided_inert : ∀ e ∈ EE,
    elidableFr.contains (elidedOf e) = false ∧ euphonicFr.contains (elidedOf e) = false ∧
    prevocalicOnly.contains (elidedOf e) = false ∧ aDe.contains (elidedOf e) = false ∧
    leLes.contains (elidedOf e) = false ∧
    (∀ tr ∈ triples, lower tr.1 ≠ elidedOf e ∧ lower tr.2.1 ≠ elidedOf e) := by decide +kernel

/-- no elidable or euphonic word begins with a vowel or an h; eliding keeps the first letter -/
theorem fact_heads : ∀ e ∈ EE, (∀ h ∈ allH, nextClass e.head? h = .ok false) ∧ (elidedOf e).head? = e.head? ∧ e ≠ [] := by
  decide +kernel

/-- what the euphony branch may write: a value of the table, as it is or capitalised -/
def euphResults : List Str := euphonieFrTable.flatMap (fun kv => [kv.2, capitalizePy kv.2])

/-- the prevocalic forms of the euphony table (capitalised or not) are words, inert for every other rule, begin
    with a consonant, and are no euphony exception -/
theorem fact_euph_values : ∀ v ∈ euphResults,
    v ≠ [] ∧ v.all (isWd .fr) = true ∧ elidableFr.contains (lower v) = false ∧
    euphonicFr.contains (lower v) = false ∧ aDe.contains (lower v) = false ∧
    leLes.contains (lower v) = false ∧ (∀ tr ∈ triples, tr.1 ≠ v ∧ tr.2.1 ≠ v) ∧
    (∀ h ∈ allH, nextClass (lower v).head? h = .ok false) ∧
    euphExc v = false := by decide +kernel

/-- every word of `euphonieFrRE` is a key of `euphonieFrTable` (no KeyError), and `euphForm` yields a result -/
theorem fact_euph_total : ∀ e ∈ euphonicFr, ∃ v, lookup e euphonieFrTable = some v ∧
    v ∈ euphResults ∧ capitalizePy v ∈ euphResults := by decide +kernel

/-- a euphonic word is not elidable, not a prevocalic form, not à/de, and starts no key of the contraction table -/
theorem fact_euphonic_disjoint : ∀ e ∈ euphonicFr,
    elidableFr.contains e = false ∧ prevocalicOnly.contains e = false ∧ aDe.contains e = false ∧
    (∀ tr ∈ triples, lower tr.1 ≠ e) := by decide +kernel

/-- the contraction table: first parts are inert for the other rules, results are words that keep the first
    letter's class (vowel / h / consonant), are neither le/les nor euphony exceptions -/
theorem fact_triples : ∀ tr ∈ triples,
    isElidedForm tr.1 = false ∧ isEuphonic tr.1 = false ∧ isPrevocalicOnly tr.1 = false ∧
    euphExc tr.1 = false ∧ euphExc tr.2.2 = false ∧
    (∀ h ∈ allH, nextClass (lower tr.2.2).head? h = nextClass (lower tr.1).head? h) ∧
    leLes.contains (lower tr.2.2) = false ∧ tr.2.2 ≠ [] ∧ tr.2.2.all (isWd .fr) = true := by decide +kernel

/-- à/de + le/les are keys of the contraction table -/
theorem fact_obligatory : ∀ a ∈ aDe, ∀ b ∈ leLes, (contrFr a b).isSome = true := by decide +kernel

/-- none of the euphony exceptions is `est`, `étai…`, `a` -/
theorem fact_exc_not_ceverb : ∀ x ∈ euphExceptionsFr, ceVerb x = false := by decide +kernel

theorem fact_apos_wd : isWd .fr '\'' = true ∧ isWd .en '\'' = true := by decide

/-- the lifted tables are the ones the property text names (a change of the source lists breaks this) -/
theorem fact_tables_match_property :
    elidableFr = [['l','a'], ['l','e'], ['j','e'], ['m','e'], ['t','e'], ['s','e'], ['d','e'], ['n','e'], ['q','u','e'],
                  ['p','u','i','s','q','u','e'], ['l','o','r','s','q','u','e'], ['j','u','s','q','u','e'],
                  ['q','u','o','i','q','u','e']] ∧
    euphonieFrTable.map (·.1) = [['m','a'], ['t','a'], ['s','a'], ['c','e'], ['b','e','a','u'], ['f','o','u'], ['m','o','u'],
                  ['n','o','u','v','e','a','u'], ['v','i','e','u','x']] ∧
    euphonicFr = euphonieFrTable.map (·.1) ∧
    prevocalicOnly = [['c','e','t'], ['b','e','l'], ['f','o','l'], ['m','o','l'], ['n','o','u','v','e','l'], ['v','i','e','i','l']] ∧
    vowelsFr = ['a','e','i','o','u','y','à','â','é','è','ê','ë','î','ï','ô','ö','ù','ü','œ','æ'] ∧
    contrFr ['à'] ['l','e'] = some ['a','u'] ∧ contrFr ['à'] ['l','e','s'] = some ['a','u','x'] ∧
    contrFr ['d','e'] ['l','e'] = some ['d','u'] ∧ contrFr ['d','e'] ['l','e','s'] = some ['d','e','s'] := by decide +kernel

end Pyrealb.Elision
