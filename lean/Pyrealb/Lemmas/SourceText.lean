import Pyrealb.Lemmas.JsonSource
import Pyrealb.Lemmas.JsonText
set_option linter.unusedSimpArgs false
/-! The printed source reads back as the construction program it denotes (C12, source route, text level):
    `parseSrc cur (toSource e) = progOf cur e` for expressions whose lemmata and option values are printable. -/
namespace Pyrealb.Expr
open Pyrealb

/-! ### identifiers -/

theorem readIdent_append (name : Str) (c : Char) (rest : Str) (hn : name.all isIdentChar = true)
    (hc : isIdentChar c = false) : readIdent (name ++ c :: rest) = (name, c :: rest) := by
  unfold readIdent
  induction name with
  | nil => simp [hc]
  | cons d r ih =>
    simp only [List.all_cons, Bool.and_eq_true] at hn
    have := ih hn.2
    simp only [Prod.mk.injEq] at this
    simp [hn.1, this.1, this.2]

/-! ### the unescaped lemma between double quotes -/

/-- no double quote, backslash or line break: the characters `toSource` can print unescaped between double quotes -/
def SrcCleanStr (x : Str) : Prop := ∀ c ∈ x, c ≠ '"' ∧ c ≠ '\\' ∧ c ≠ '\n'

theorem readPyStr_cons (q c : Char) (r : Str) : readPyStr q (c :: r) =
    if c = '\\' then
      match r with
      | [] => .error .syntaxError
      | e :: r1 =>
        match pyEscape e with
        | none => .error .valueError
        | some esc =>
          match readPyStr q r1 with
          | .error err => .error err
          | .ok (x, rest) =>
            match esc with
            | some ch => .ok (ch :: x, rest)
            | none => .ok ('\\' :: e :: x, rest)
    else if c = q then .ok ([], r)
    else if c = '\n' then .error .syntaxError
    else match readPyStr q r with
      | .ok (x, rest) => .ok (c :: x, rest)
      | .error err => .error err := by
  rw [readPyStr.eq_def]
  rfl

theorem readPyStr_clean (x rest : Str) (h : SrcCleanStr x) : readPyStr '"' (x ++ '"' :: rest) = .ok (x, rest) := by
  induction x with
  | nil => simp [readPyStr_cons]
  | cons c r ih =>
    have hc := h c (by simp)
    have ih' := ih (fun d hd => h d (by simp [hd]))
    simp [readPyStr_cons, hc.1, hc.2.1, hc.2.2, ih']

/-! ### `repr` of a string -/

/-- the characters whose `repr` the model prints as Python does and reads back: everything except the control
    characters other than `\n \r \t` -/
def ReprOK (x : Str) : Prop := ∀ c ∈ x, ¬ (c.toNat < 32 ∨ c.toNat = 127) ∨ c = '\n' ∨ c = '\r' ∨ c = '\t'

theorem pyEscape_facts : pyEscape '\\' = some (some '\\') ∧ pyEscape '\'' = some (some '\'') ∧ pyEscape '"' = some (some '"')
    ∧ pyEscape 'n' = some (some '\n') ∧ pyEscape 'r' = some (some '\r') ∧ pyEscape 't' = some (some '\t') := by decide

theorem readPyStr_repr (q : Char) (hq : q = '"' ∨ q = '\'') (x rest : Str) (h : ReprOK x) :
    readPyStr q (reprBody q x ++ q :: rest) = .ok (x, rest) := by
  have hqb : q ≠ '\\' := by rcases hq with h | h <;> (subst h; decide)
  have hqn : q ≠ '\n' := by rcases hq with h | h <;> (subst h; decide)
  induction x with
  | nil => simp [reprBody, readPyStr_cons, hqb]
  | cons c r ih =>
    have hc := h c (by simp)
    have ih' := ih (fun d hd => h d (by simp [hd]))
    obtain ⟨e1, e2, e3, e4, e5, e6⟩ := pyEscape_facts
    simp only [reprBody, reprChar]
    by_cases h1 : c = '\\'
    · subst h1; simp [readPyStr_cons, e1, ih']
    · by_cases h2 : c = q
      · subst h2
        rcases hq with hq | hq
        · subst hq; simp [readPyStr_cons, e3, ih']
        · subst hq; simp [readPyStr_cons, e2, ih']
      · by_cases h3 : c = '\n'
        · subst h3; simp [h2, readPyStr_cons, e4, ih']
        · by_cases h4 : c = '\r'
          · subst h4; simp [h2, readPyStr_cons, e5, ih']
          · by_cases h5 : c = '\t'
            · subst h5; simp [h2, readPyStr_cons, e6, ih']
            · have h6 : ¬ (c.toNat < 32 ∨ c.toNat = 127) := by
                rcases hc with hc | hc | hc | hc
                · exact hc
                · exact absurd hc h3
                · exact absurd hc h4
                · exact absurd hc h5
              have h6' : (decide (c.toNat < 32) || decide (c.toNat = 127)) = false := by
                simp only [not_or] at h6
                simp [h6.1, h6.2]
              simp [h1, h2, h3, h4, h5, h6', readPyStr_cons, ih']

/-- what follows a literal in a printed source: a closing bracket, a comma or a colon -/
def Follower (rest : Str) : Prop := ∃ c r, rest = c :: r ∧ (c = ')' ∨ c = ',' ∨ c = '}' ∨ c = ':')

theorem follower_facts (c : Char) (h : c = ')' ∨ c = ',' ∨ c = '}' ∨ c = ':') :
    c ≠ ' ' ∧ c ≠ '"' ∧ c ≠ '\'' ∧ isDigit c = false ∧ isIdentChar c = false ∧ c ≠ '(' ∧ c ≠ '.' := by
  rcases h with h | h | h | h <;> (subst h; decide)

theorem skipWs_follower (rest : Str) (h : Follower rest) : skipWs rest = rest := by
  obtain ⟨c, r, rfl, hc⟩ := h
  exact skipWs_cons c r (follower_facts c hc).1

theorem readPyStrs_lit (fuel : Nat) (q : Char) (hq : q = '"' ∨ q = '\'') (body x rest : Str)
    (hbody : readPyStr q (body ++ q :: rest) = .ok (x, rest))
    (hstart : ∀ b bs, body = b :: bs → b ≠ q) (hf : Follower rest) :
    readPyStrs (fuel + 1) (q :: (body ++ q :: rest)) = .ok (x, rest) := by
  obtain ⟨c, r', hrest, hc⟩ := hf
  obtain ⟨f1, f2, f3, _, _, _, _⟩ := follower_facts c hc
  have hqq : (q = '"' || q = '\'') = true := by rcases hq with h | h <;> simp [h]
  have hcq : c ≠ q := by rcases hq with h | h <;> (subst h; assumption)
  have hsk : skipWs rest = rest := by rw [hrest]; exact skipWs_cons c r' f1
  unfold readPyStrs
  simp only [hqq, if_true]
  cases body with
  | nil =>
    subst hrest
    simp only [List.nil_append] at hbody ⊢
    have : (decide (q = q) && decide (c = q)) = false := by simp [hcq]
    simp only [this, hbody, skipWs_cons c r' f1]
    simp [f2, f3, hcq]
  | cons b bs =>
    have hb := hstart b bs rfl
    have hne : ∃ y ys, bs ++ q :: rest = y :: ys := by
      cases bs with
      | nil => exact ⟨q, rest, rfl⟩
      | cons y ys => exact ⟨y, ys ++ q :: rest, rfl⟩
    obtain ⟨y, ys, hy⟩ := hne
    simp only [List.cons_append] at hbody ⊢
    rw [hy] at hbody ⊢
    have : (decide (b = q) && decide (y = q)) = false := by simp [hb]
    simp only [this, hbody, hsk]
    subst hrest
    simp [skipWs_cons c r' f1, f2, f3]

/-! ### atomic literals -/

theorem reprBody_head (q : Char) (hq : q = '"' ∨ q = '\'') (x : Str) : ∀ b bs, reprBody q x = b :: bs → b ≠ q := by
  intro b bs h
  cases x with
  | nil => simp [reprBody] at h
  | cons c r =>
    have hqb : q ≠ '\\' := by rcases hq with h | h <;> (subst h; decide)
    simp only [reprBody, reprChar] at h
    by_cases h1 : c = '\\'
    · simp [h1] at h; rw [← h.1]; exact hqb.symm
    · by_cases h2 : c = q
      · simp [h1, h2] at h
        by_cases hq' : q = '\\'
        · exact absurd hq' hqb
        · simp [hq'] at h; rw [← h.1]; exact hqb.symm
      · by_cases h3 : c = '\n'
        · simp [h1, h2, h3] at h; split at h <;> (simp at h; rw [← h.1]; exact hqb.symm)
        · by_cases h4 : c = '\r'
          · simp [h1, h2, h3, h4] at h; split at h <;> (simp at h; rw [← h.1]; exact hqb.symm)
          · by_cases h5 : c = '\t'
            · simp [h1, h2, h3, h4, h5] at h; split at h <;> (simp at h; rw [← h.1]; exact hqb.symm)
            · simp only [h1, h2, h3, h4, h5, if_false] at h
              split at h
              · simp at h; rw [← h.1]; exact hqb.symm
              · simp at h; rw [← h.1]; exact h2

/-- atoms whose `repr` reads back: no `datetime` (the name is unbound), strings without exotic control characters -/
def AtomOK : Atom → Prop
  | .dt .. => False
  | .str x => ReprOK x
  | _ => True

theorem noDigit_of_follower (rest : Str) (h : Follower rest) : NoDigitHead rest := by
  obtain ⟨c, r, rfl, hc⟩ := h
  intro c' r' he; cases he; exact (follower_facts c hc).2.2.2.1

theorem s_True : s "True" = ['T', 'r', 'u', 'e'] := by decide
theorem s_False : s "False" = ['F', 'a', 'l', 's', 'e'] := by decide
theorem s_None : s "None" = ['N', 'o', 'n', 'e'] := by decide

theorem kw_facts :
    ((s "True").all isIdentChar = true ∧ (s "False").all isIdentChar = true ∧ (s "None").all isIdentChar = true) ∧
    (s "True" ≠ s "False" ∧ s "True" ≠ s "None" ∧ s "False" ≠ s "True" ∧ s "False" ≠ s "None" ∧ s "None" ≠ s "True"
      ∧ s "None" ≠ s "False") := by decide

theorem readAtomLit_kw (kw : Str) (c0 : Char) (r0 rest : Str) (hkw : kw = c0 :: r0) (hall : kw.all isIdentChar = true)
    (h0 : c0 ≠ ' ' ∧ c0 ≠ '"' ∧ c0 ≠ '\'' ∧ isDigit c0 = false ∧ c0 ≠ '-') (hf : Follower rest) :
    readAtomLit (kw ++ rest) =
      (if kw = s "True" then .ok (.bool true, rest) else if kw = s "False" then .ok (.bool false, rest)
       else if kw = s "None" then .ok (.none, rest) else if kw.isEmpty then .error .syntaxError else .error .nameError) := by
  obtain ⟨c, r, hrest, hc⟩ := hf
  have hi := (follower_facts c hc).2.2.2.2.1
  have hid := readIdent_append kw c r hall hi
  subst hrest
  unfold readAtomLit
  rw [hkw] at hid ⊢
  simp only [List.cons_append, skipWs_cons c0 _ h0.1]
  simp only [List.cons_append] at hid
  simp [h0.2.1, h0.2.2.1, h0.2.2.2.1, h0.2.2.2.2, hid]

theorem readAtomLit_repr (a : Atom) (rest : Str) (ha : AtomOK a) (hf : Follower rest) :
    readAtomLit (reprAtom a ++ rest) = .ok (a, rest) := by
  cases a with
  | none =>
    have := readAtomLit_kw (s "None") 'N' ['o', 'n', 'e'] rest s_None kw_facts.1.2.2 (by decide) hf
    simp only [reprAtom]
    rw [this]
    simp [kw_facts.2.2.2.2.2.1, kw_facts.2.2.2.2.2.2]
  | bool b =>
    cases b
    · have := readAtomLit_kw (s "False") 'F' ['a', 'l', 's', 'e'] rest s_False kw_facts.1.2.1 (by decide) hf
      simp only [reprAtom]
      rw [this]
      simp [kw_facts.2.2.2.1]
    · have := readAtomLit_kw (s "True") 'T' ['r', 'u', 'e'] rest s_True kw_facts.1.1 (by decide) hf
      simp only [reprAtom]
      rw [this]
      simp
  | int i =>
    have hnd := noDigit_of_follower rest hf
    simp only [reprAtom]
    cases i with
    | ofNat n =>
      have hall := natDigits_all n
      have hrd := readNat_append (natDigits n) rest hall hnd
      cases hd : natDigits n with
      | nil => exact absurd hd (natDigits_ne_nil n)
      | cons c r =>
        rw [hd] at hall hrd
        have hc : isDigit c = true := by simp only [List.all_cons, Bool.and_eq_true] at hall; exact hall.1
        obtain ⟨h1, _, _, _, h5⟩ := digit_ne c hc
        have h6 : c ≠ '\'' := by intro he; subst he; exact absurd hc (by decide)
        unfold readAtomLit
        simp only [intStr, hd, List.cons_append, skipWs_cons c _ h5]
        simp only [List.cons_append] at hrd
        simp [h1, h6, hc, hrd, ← hd, natOfDigits_natDigits]
    | negSucc n =>
      have hall := natDigits_all (n + 1)
      have hrd := readNat_append (natDigits (n + 1)) rest hall hnd
      cases hd : natDigits (n + 1) with
      | nil => exact absurd hd (natDigits_ne_nil (n + 1))
      | cons c r =>
        rw [hd] at hall hrd
        have hc : isDigit c = true := by simp only [List.all_cons, Bool.and_eq_true] at hall; exact hall.1
        unfold readAtomLit
        have m0 : ('-' : Char) ≠ ' ' := by decide
        simp only [intStr, hd, List.cons_append, skipWs_cons '-' _ m0]
        simp only [List.cons_append] at hrd
        have m1 : ('-' : Char) ≠ '"' := by decide
        have m2 : ('-' : Char) ≠ '\'' := by decide
        have m3 : isDigit '-' = false := by decide
        simp [m1, m2, m3, hc, hrd, ← hd, natOfDigits_natDigits, Int.negSucc_eq]
  | str x =>
    simp only [AtomOK] at ha
    simp only [reprAtom, reprStr]
    generalize hq : (if x.contains '\'' && !x.contains '"' then '"' else '\'') = q
    have hq' : q = '"' ∨ q = '\'' := by rw [← hq]; split <;> simp
    have hsp : q ≠ ' ' := by rcases hq' with h | h <;> (subst h; decide)
    have hbody := readPyStr_repr q hq' x rest ha
    have hlit := fun n => readPyStrs_lit n q hq' (reprBody q x) x rest hbody (reprBody_head q hq' x) hf
    unfold readAtomLit
    simp only [List.cons_append, List.append_assoc, List.singleton_append, skipWs_cons q _ hsp]
    have hqq : (q = '"' || q = '\'') = true := by rcases hq' with h | h <;> simp [h]
    simp [hqq, hlit]
  | dt y mo d h mi sec => exact absurd ha (by simp [AtomOK])

/-! ### dictionaries and arguments -/

theorem readAtomLit_space (x : Str) : readAtomLit (' ' :: x) = readAtomLit x := by
  unfold readAtomLit
  simp [skipWs]

theorem readAtomLit_space_repr (a : Atom) (rest : Str) (ha : AtomOK a) (hf : Follower rest) :
    readAtomLit (' ' :: (reprAtom a ++ rest)) = .ok (a, rest) := by
  rw [readAtomLit_space]; exact readAtomLit_repr a rest ha hf

def DictOK (d : List (Str × Atom)) : Prop := ∀ kv ∈ d, ReprOK kv.1 ∧ AtomOK kv.2

theorem s_colon' : s ": " = [':', ' '] := by decide
theorem s_comma' : s ", " = [',', ' '] := by decide

theorem follower_cons (c : Char) (r : Str) (h : c = ')' ∨ c = ',' ∨ c = '}' ∨ c = ':') : Follower (c :: r) :=
  ⟨c, r, rfl, h⟩

theorem readDictItems_space (fuel : Nat) (x : Str) : readDictItems fuel (' ' :: x) = readDictItems fuel x := by
  cases fuel with
  | zero => simp [readDictItems]
  | succ f => simp [readDictItems, readAtomLit_space]

theorem readDictItems_repr : ∀ (d : List (Str × Atom)) (fuel : Nat) (rest : Str), d ≠ [] → DictOK d → d.length ≤ fuel →
    readDictItems fuel (reprItems d ++ '}' :: rest) = .ok (d, rest)
  | [], _, _, h, _, _ => absurd rfl h
  | [(k, v)], fuel, rest, _, hd, hf => by
    cases fuel with
    | zero => simp at hf
    | succ f =>
      obtain ⟨hk, hv⟩ := hd (k, v) (by simp)
      have h1 : readAtomLit (reprStr k ++ ':' :: ' ' :: (reprAtom v ++ '}' :: rest)) = .ok (.str k, _) :=
        readAtomLit_repr (.str k) (':' :: ' ' :: (reprAtom v ++ '}' :: rest)) hk (follower_cons _ _ (by simp))
      have h2 := readAtomLit_space_repr v ('}' :: rest) hv (follower_cons _ _ (by simp))
      have c1 : (':' : Char) ≠ ' ' := by decide
      have c2 : ('}' : Char) ≠ ' ' := by decide
      simp only [reprItems, s_colon', List.append_assoc, List.cons_append, List.nil_append]
      generalize reprAtom v = tv at h1 h2 ⊢
      simp [readDictItems, h1, skipWs_cons ':' _ c1, h2, skipWs_cons '}' _ c2]
  | (k, v) :: m :: r, fuel, rest, _, hd, hf => by
    cases fuel with
    | zero => simp at hf
    | succ f =>
      obtain ⟨hk, hv⟩ := hd (k, v) (by simp)
      have hd' : DictOK (m :: r) := fun kv hkv => hd kv (by simp [hkv])
      have ih := readDictItems_repr (m :: r) f rest (by simp) hd' (by simp at hf ⊢; omega)
      have h1 : readAtomLit (reprStr k ++ ':' :: ' ' :: (reprAtom v ++ ',' :: ' ' :: (reprItems (m :: r) ++ '}' :: rest)))
          = .ok (.str k, _) :=
        readAtomLit_repr (.str k) (':' :: ' ' :: (reprAtom v ++ ',' :: ' ' :: (reprItems (m :: r) ++ '}' :: rest))) hk
          (follower_cons _ _ (by simp))
      have h2 := readAtomLit_space_repr v (',' :: ' ' :: (reprItems (m :: r) ++ '}' :: rest)) hv (follower_cons _ _ (by simp))
      have c1 : (':' : Char) ≠ ' ' := by decide
      have c2 : (',' : Char) ≠ ' ' := by decide
      simp only [reprItems, s_colon', s_comma', List.append_assoc, List.cons_append, List.nil_append]
      generalize reprAtom v = tv at h1 h2 ⊢
      generalize reprItems (m :: r) = tr at h1 h2 ih ⊢
      simp [readDictItems, h1, skipWs_cons ':' _ c1, h2, skipWs_cons ',' _ c2, ih, readDictItems_space]

/-! ### arguments of option calls -/

/-- the first character of a printed atom: not a space, not a brace, not a closing parenthesis -/
theorem reprAtom_head (a : Atom) (ha : AtomOK a) (tl : Str) :
    ∃ c r, reprAtom a ++ tl = c :: r ∧ c ≠ ' ' ∧ c ≠ '{' ∧ c ≠ ')' ∧ c ≠ '}' := by
  cases a with
  | none => exact ⟨'N', 'o' :: 'n' :: 'e' :: tl, by simp [reprAtom, s_None], by decide, by decide, by decide, by decide⟩
  | bool b =>
    cases b
    · exact ⟨'F', 'a' :: 'l' :: 's' :: 'e' :: tl, by simp [reprAtom, s_False], by decide, by decide, by decide, by decide⟩
    · exact ⟨'T', 'r' :: 'u' :: 'e' :: tl, by simp [reprAtom, s_True], by decide, by decide, by decide, by decide⟩
  | int i =>
    cases i with
    | ofNat n =>
      have hall := natDigits_all n
      cases hd : natDigits n with
      | nil => exact absurd hd (natDigits_ne_nil n)
      | cons c r =>
        rw [hd] at hall
        have hc : isDigit c = true := by simp only [List.all_cons, Bool.and_eq_true] at hall; exact hall.1
        refine ⟨c, r ++ tl, by simp [reprAtom, intStr, hd], (digit_ne c hc).2.2.2.2, ?_, ?_, ?_⟩ <;>
          (intro he; subst he; exact absurd hc (by decide))
    | negSucc n => exact ⟨'-', natDigits (n + 1) ++ tl, by simp [reprAtom, intStr], by decide, by decide, by decide, by decide⟩
  | str x =>
    simp only [reprAtom, reprStr]
    generalize hq : (if x.contains '\'' && !x.contains '"' then '"' else '\'') = q
    have hq' : q = '"' ∨ q = '\'' := by rw [← hq]; split <;> simp
    refine ⟨q, reprBody q x ++ [q] ++ tl, by simp, ?_, ?_, ?_, ?_⟩ <;> (rcases hq' with h | h <;> (subst h; decide))
  | dt y mo d h mi sec => exact absurd ha (by simp [AtomOK])

/-- arguments whose `repr` reads back -/
def PValOK : PVal → Prop
  | .atom a => AtomOK a
  | .dict d => DictOK d
  | _ => False

theorem reprItems_len (d : List (Str × Atom)) : d.length ≤ (reprItems d).length + 1 := by
  induction d with
  | nil => simp
  | cons x r ih =>
    obtain ⟨k, v⟩ := x
    cases r with
    | nil => simp [reprItems]
    | cons y q =>
      have c1 : (s ": ").length = 2 := by decide
      have c2 : (s ", ").length = 2 := by decide
      simp only [reprItems, List.length_append, List.length_cons, c1, c2] at ih ⊢
      omega

theorem reprItems_head (k : Str) (v : Atom) (r : List (Str × Atom)) (tl : Str) :
    ∃ c q, reprItems ((k, v) :: r) ++ tl = c :: q ∧ c ≠ ' ' ∧ c ≠ '}' := by
  have : ∃ tl', reprItems ((k, v) :: r) ++ tl = reprStr k ++ tl' := by
    cases r with
    | nil => exact ⟨s ": " ++ (reprAtom v ++ tl), by simp [reprItems, List.append_assoc]⟩
    | cons y q => exact ⟨s ": " ++ (reprAtom v ++ (s ", " ++ (reprItems (y :: q) ++ tl))), by simp [reprItems, List.append_assoc]⟩
  obtain ⟨tl', h⟩ := this
  rw [h]
  simp only [reprStr]
  generalize hq : (if k.contains '\'' && !k.contains '"' then '"' else '\'') = q
  have hq' : q = '"' ∨ q = '\'' := by rw [← hq]; split <;> simp
  refine ⟨q, reprBody q k ++ [q] ++ tl', by simp, ?_, ?_⟩ <;> (rcases hq' with h | h <;> (subst h; decide))

theorem readLit_repr (v : PVal) (rest : Str) (hv : PValOK v) (hf : Follower rest) :
    readLit (reprPVal v ++ rest) = .ok (v, rest) := by
  cases v with
  | atom a =>
    obtain ⟨c, r, hcr, h1, h2, _, _⟩ := reprAtom_head a hv rest
    have := readAtomLit_repr a rest hv hf
    unfold readLit
    simp only [reprPVal]
    rw [hcr] at this ⊢
    rw [skipWs_cons c r h1]
    split
    · rename_i heq; cases heq; exact absurd rfl h2
    · simp [this]
  | dict d =>
    have b1 : ('{' : Char) ≠ ' ' := by decide
    unfold readLit
    simp only [reprPVal, reprDict, List.cons_append, List.append_assoc, skipWs_cons '{' _ b1]
    cases d with
    | nil => simp [reprItems, skipWs]
    | cons x r =>
      obtain ⟨k, w⟩ := x
      obtain ⟨c, q, hcq, h1, h2⟩ := reprItems_head k w r ('}' :: rest)
      have hlen := reprItems_len ((k, w) :: r)
      have hrd := readDictItems_repr ((k, w) :: r) ((reprItems ((k, w) :: r) ++ '}' :: rest).length + 1) rest (by simp) hv
        (by simp only [List.length_append, List.length_cons] at hlen ⊢; omega)
      simp only [List.singleton_append, List.nil_append]
      rw [hcq] at hrd ⊢
      rw [skipWs_cons c q h1]
      split
      · rename_i heq; cases heq; exact absurd rfl h2
      · simp only [List.length_cons] at hrd
        simp [hrd]
  | list l => exact absurd hv (by simp [PValOK])
  | tags l => exact absurd hv (by simp [PValOK])


/-! ### one literal argument -/

theorem skipWs_idem_of_head (c : Char) (r : Str) (h : c ≠ ' ') : skipWs (c :: r) = c :: r := skipWs_cons c r h

/-- a printed atom either is a word of identifier characters (`None`, `True`, `False`, digits) or starts with a
    character that is not one (`-`, a quote) -/
theorem reprAtom_shape (a : Atom) (ha : AtomOK a) :
    (reprAtom a).all isIdentChar = true ∨ ∃ c r, reprAtom a = c :: r ∧ isIdentChar c = false := by
  cases a with
  | none => exact Or.inl (by decide)
  | bool b => cases b <;> exact Or.inl (by decide)
  | int i =>
    cases i with
    | ofNat n =>
      left
      have hall := natDigits_all n
      simp only [reprAtom, intStr]
      rw [List.all_eq_true] at hall ⊢
      intro c hc
      have := hall c hc
      unfold isIdentChar
      unfold isDigit at this
      simp only [Bool.and_eq_true, decide_eq_true_eq] at this
      simp [Char.isAlphanum, Char.isDigit, this.1, this.2]
      left; right
      exact ⟨this.1, this.2⟩
    | negSucc n => exact Or.inr ⟨'-', natDigits (n + 1), by simp [reprAtom, intStr], by decide⟩
  | str x =>
    right
    simp only [reprAtom, reprStr]
    generalize hq : (if x.contains '\'' && !x.contains '"' then '"' else '\'') = q
    have hq' : q = '"' ∨ q = '\'' := by rw [← hq]; split <;> simp
    exact ⟨q, reprBody q x ++ [q], rfl, by rcases hq' with h | h <;> (subst h; decide)⟩
  | dt y mo d h mi sec => exact absurd ha (by simp [AtomOK])

theorem startsCall_lit (v : PVal) (rest : Str) (hv : PValOK v) (hf : Follower rest) :
    startsCall (reprPVal v ++ rest) = false := by
  obtain ⟨c, r, hrest, hc⟩ := hf
  obtain ⟨_, _, _, _, hci, hcp, _⟩ := follower_facts c hc
  unfold startsCall
  cases v with
  | atom a =>
    rcases reprAtom_shape a hv with h | ⟨c0, r0, h0, hc0⟩
    · have := readIdent_append (reprAtom a) c r h hci
      simp only [reprPVal, hrest, this]
      simp [skipWs_cons c r (follower_facts c hc).1, hcp]
    · simp only [reprPVal, h0, List.cons_append, readIdent]
      simp [hc0]
  | dict d =>
    have : isIdentChar '{' = false := by decide
    simp only [reprPVal, reprDict, List.cons_append, readIdent]
    simp [this]
  | list l => exact absurd hv (by simp [PValOK])
  | tags l => exact absurd hv (by simp [PValOK])

theorem readOne_lit (rx : Str → Except RouteErr (Prog × Str)) (v : PVal) (rest : Str) (hv : PValOK v)
    (hf : Follower rest) : readOne rx (reprPVal v ++ rest) = .ok (.v v, rest) := by
  unfold readOne
  simp [startsCall_lit v rest hv hf, readLit_repr v rest hv hf]

/-! ### the calls of a history -/

theorem reprPVal_head (v : PVal) (hv : PValOK v) (tl : Str) :
    ∃ c r, reprPVal v ++ tl = c :: r ∧ c ≠ ' ' ∧ c ≠ ')' := by
  cases v with
  | atom a =>
    obtain ⟨c, r, h, h1, _, h3, _⟩ := reprAtom_head a hv tl
    exact ⟨c, r, h, h1, h3⟩
  | dict d => exact ⟨'{', reprItems d ++ '}' :: tl, by simp [reprPVal, reprDict], by decide, by decide⟩
  | list l => exact absurd hv (by simp [PValOK])
  | tags l => exact absurd hv (by simp [PValOK])

theorem readArgs_one (cur : Lang) (f : Nat) (v : PVal) (rest : Str) (hv : PValOK v) :
    readArgs cur (f + 1) (reprPVal v ++ ')' :: rest) = .ok ([.v v], rest) := by
  obtain ⟨c, r, hcr, h1, h2⟩ := reprPVal_head v hv (')' :: rest)
  have hone := readOne_lit (readExpr cur f) v (')' :: rest) hv (follower_cons _ _ (by simp))
  have p1 : (')' : Char) ≠ ' ' := by decide
  unfold readArgs
  rw [hcr] at hone ⊢
  rw [skipWs_cons c r h1]
  split
  · rename_i heq; cases heq; exact absurd rfl h2
  · simp [hone, skipWs_cons ')' rest p1]

/-- the string literal `"name"` that `tag` prints for a name with attributes -/
theorem readOne_dq (rx : Str → Except RouteErr (Prog × Str)) (nm rest : Str) (h : SrcCleanStr nm) (hf : Follower rest) :
    readOne rx ('"' :: (nm ++ '"' :: rest)) = .ok (.v (.atom (.str nm)), rest) := by
  have hbody := readPyStr_clean nm rest h
  have hstart : ∀ b bs, nm = b :: bs → b ≠ '"' := fun b bs he => (h b (by simp [he])).1
  have hlit := fun n => readPyStrs_lit n '"' (Or.inl rfl) nm nm rest hbody hstart hf
  have q0 : ('"' : Char) ≠ ' ' := by decide
  have q1 : isIdentChar '"' = false := by decide
  unfold readOne startsCall
  simp only [readIdent, List.takeWhile_cons, q1]
  simp only [readLit, skipWs_cons '"' _ q0]
  simp [readAtomLit, skipWs_cons '"' _ q0, hlit]

theorem readArgs_tag2 (cur : Lang) (f : Nat) (nm : Str) (d : List (Str × Atom)) (rest : Str)
    (h : SrcCleanStr nm) (hd : DictOK d) :
    readArgs cur (f + 2) ('"' :: (nm ++ '"' :: ',' :: (reprDict d ++ ')' :: rest))) =
      .ok ([.v (.atom (.str nm)), .v (.dict d)], rest) := by
  have hone := readOne_dq (readExpr cur (f + 1)) nm (',' :: (reprDict d ++ ')' :: rest)) h (follower_cons _ _ (by simp))
  have h2 := readArgs_one cur f (.dict d) rest hd
  simp only [reprPVal] at h2
  have q0 : ('"' : Char) ≠ ' ' := by decide
  have c0 : (',' : Char) ≠ ' ' := by decide
  unfold readArgs
  rw [skipWs_cons '"' _ q0]
  simp [hone, skipWs_cons ',' _ c0, h2]

/-- a method name that the history can contain -/
def IdentOK (name : Str) : Prop := name ≠ [] ∧ name.all isIdentChar = true ∧ name ≠ s "add"

def CallOK : Call → Prop
  | .opt name arg => IdentOK name ∧ PValOK arg
  | .tag2 nm attrs => SrcCleanStr nm ∧ DictOK attrs

/-- where the trailers stop: the end of the text, or the `,` / `)` that follows a child -/
def TrailEnd (rest : Str) : Prop := rest = [] ∨ Follower rest

theorem readTrailers_end (cur : Lang) (f : Nat) (recv : Prog) (rest : Str) (h : TrailEnd rest) :
    readTrailers cur (f + 1) recv rest = .ok (recv, rest) := by
  unfold readTrailers
  rcases h with h | ⟨c, r, hr, hc⟩
  · subst h; simp [skipWs]
  · subst hr
    obtain ⟨h1, _, _, _, _, _, h7⟩ := follower_facts c hc
    rw [skipWs_cons c r h1]
    split
    · rename_i heq; cases heq; exact absurd rfl h7
    · rfl

theorem readTrailers_hist (cur : Lang) : ∀ (hist : List Call) (f : Nat) (recv : Prog) (rest : Str),
    (∀ c ∈ hist, CallOK c) → TrailEnd rest → hist.length + 3 ≤ f →
    readTrailers cur f recv (printHist hist ++ rest) = .ok (withCalls recv hist, rest)
  | [], f, recv, rest, _, he, hf => by
    obtain ⟨f', rfl⟩ : ∃ f', f = f' + 1 := ⟨f - 1, by omega⟩
    simpa [printHist, withCalls] using readTrailers_end cur f' recv rest he
  | c :: r, f, recv, rest, hok, he, hf => by
    obtain ⟨f', rfl⟩ : ∃ f', f = f' + 3 := ⟨f - 3, by simp at hf; omega⟩
    have ih := readTrailers_hist cur r (f' + 2) (.call recv (callArgs c).1 (callArgs c).2) rest
      (fun d hd => hok d (by simp [hd])) he (by simp at hf ⊢; omega)
    have hc := hok c (by simp)
    have d0 : ('.' : Char) ≠ ' ' := by decide
    have p0 : ('(' : Char) ≠ ' ' := by decide
    have p1 : isIdentChar '(' = false := by decide
    cases c with
    | opt name arg =>
      obtain ⟨⟨hn1, hn2, hn3⟩, harg⟩ := hc
      have hid := readIdent_append name '(' (reprPVal arg ++ ')' :: (printHist r ++ rest)) hn2 p1
      have hargs := readArgs_one cur (f' + 1) arg (printHist r ++ rest) harg
      have hne : name.isEmpty = false := by cases name <;> simp_all
      simp only [printHist, printCall, List.cons_append, List.append_assoc, List.singleton_append, List.nil_append]
      unfold readTrailers
      rw [skipWs_cons '.' _ d0]
      simp only [hid, hne, skipWs_cons '(' _ p0, hargs]
      simp [hasNameErr, hn3, argVals, withCalls, callArgs] at ih ⊢
      exact ih
    | tag2 nm attrs =>
      obtain ⟨hnm, hd⟩ := hc
      have t1 : (s ".tag(\"") = '.' :: 't' :: 'a' :: 'g' :: '(' :: ['"'] := by decide
      have t2 : (s "\",") = ['"', ','] := by decide
      have hid : readIdent ('t' :: 'a' :: 'g' :: '(' :: '"' :: (nm ++ '"' :: ',' :: (reprDict attrs ++ ')' :: (printHist r ++ rest))))
          = (s "tag", '(' :: '"' :: (nm ++ '"' :: ',' :: (reprDict attrs ++ ')' :: (printHist r ++ rest)))) := by
        have := readIdent_append (s "tag") '(' ('"' :: (nm ++ '"' :: ',' :: (reprDict attrs ++ ')' :: (printHist r ++ rest))))
          (by decide) p1
        have t3 : s "tag" = ['t', 'a', 'g'] := by decide
        rw [t3] at this ⊢
        simpa using this
      have hargs := readArgs_tag2 cur f' nm attrs (printHist r ++ rest) hnm hd
      have hne : (s "tag").isEmpty = false := by decide
      have hna : s "tag" ≠ s "add" := by decide
      simp only [printHist, printCall, t1, t2, List.cons_append, List.append_assoc, List.singleton_append, List.nil_append]
      unfold readTrailers
      rw [skipWs_cons '.' _ d0]
      simp only [hid, hne, skipWs_cons '(' _ p0, hargs]
      simp [hasNameErr, hna, argVals, withCalls, callArgs] at ih ⊢
      exact ih


/-! ### constituents -/

theorem readArgs_dq (cur : Lang) (f : Nat) (nm rest : Str) (h : SrcCleanStr nm) :
    readArgs cur (f + 1) ('"' :: (nm ++ '"' :: ')' :: rest)) = .ok ([.v (.atom (.str nm))], rest) := by
  have hone := readOne_dq (readExpr cur f) nm (')' :: rest) h (follower_cons _ _ (by simp))
  have q0 : ('"' : Char) ≠ ' ' := by decide
  have p0 : (')' : Char) ≠ ' ' := by decide
  unfold readArgs
  rw [skipWs_cons '"' _ q0]
  simp [hone, skipWs_cons ')' _ p0]

/-- facts about the constructor names (closed lists lifted from the source) -/
theorem kind_facts0 : ∀ k ∈ termKindsSrc ++ phraseKindsSrc ++ deprels,
    k.all isIdentChar = true ∧ k.isEmpty = false ∧ k.head?.map (fun c => c ≠ ' ' && c ≠ ')') = some true := by
  decide
theorem kind_facts (k : Str) (hk : k ∈ termKindsSrc ++ phraseKindsSrc ++ deprels) :
    k.all isIdentChar = true ∧ k.isEmpty = false ∧ (∃ c r, k = c :: r ∧ c ≠ ' ' ∧ c ≠ ')') := by
  obtain ⟨h1, h2, h3⟩ := kind_facts0 k hk
  refine ⟨h1, h2, ?_⟩
  cases k with
  | nil => simp at h2
  | cons c r =>
    simp at h3
    exact ⟨c, r, rfl, h3.1, h3.2⟩
theorem kinds_disjoint : (∀ k ∈ phraseKindsSrc, termKindsSrc.contains k = false) ∧
    (∀ k ∈ deprels, termKindsSrc.contains k = false ∧ phraseKindsSrc.contains k = false) := by decide

mutual
def SrcOK : Expr → Prop
  | .term n lemma _ => n.kind ∈ termKindsSrc ∧ SrcCleanStr (strAtom lemma) ∧ ∀ c ∈ n.hist, CallOK c
  | .phr n es => n.kind ∈ phraseKindsSrc ∧ (∀ c ∈ n.hist, CallOK c) ∧ SrcOKList es
  | .dep n t ds => n.kind ∈ deprels ∧ (∀ c ∈ n.hist, CallOK c) ∧ SrcOK t ∧ SrcOKList ds
def SrcOKList : List Expr → Prop
  | [] => True
  | e :: r => SrcOK e ∧ SrcOKList r
end

mutual
/-- the fuel the source reader needs -/
def needE : Expr → Nat
  | .term n _ _ => n.hist.length + 4
  | .phr n es => max (needA es) (n.hist.length + 3) + 1
  | .dep n t ds => max (max (needE t) (needA ds) + 1) (n.hist.length + 3) + 1
def needA : List Expr → Nat
  | [] => 1
  | e :: r => max (needE e) (needA r) + 1
end

theorem s_open : s "(\"" = ['(', '"'] := by decide
theorem s_close : s "\")" = ['"', ')'] := by decide

/-- the printed form of a constituent starts with its constructor name followed by `(` -/
theorem toSource_shape (e : Expr) : ∃ tl, toSource e = e.kind ++ '(' :: tl := by
  cases e with
  | term n l i => exact ⟨'"' :: (strAtom l ++ s "\")" ++ printHist n.hist), by simp [toSource, s_open, Expr.kind, Expr.node]⟩
  | phr n es => exact ⟨toSourceList es ++ [')'] ++ printHist n.hist, by simp [toSource, Expr.kind, Expr.node]⟩
  | dep n t ds => exact ⟨toSource t ++ (if ds.isEmpty then [] else ',' :: toSourceList ds) ++ [')'] ++ printHist n.hist,
      by simp [toSource, Expr.kind, Expr.node]⟩

def KindOK (e : Expr) : Prop := e.kind ∈ termKindsSrc ++ phraseKindsSrc ++ deprels

theorem startsCall_toSource (e : Expr) (rest : Str) (hk : KindOK e) : startsCall (toSource e ++ rest) = true ∧
    ∃ c q, toSource e ++ rest = c :: q ∧ c ≠ ' ' ∧ c ≠ ')' := by
  obtain ⟨tl, htl⟩ := toSource_shape e
  obtain ⟨hall, hne, c, r, hcr, h1, h2⟩ := kind_facts e.kind hk
  have p1 : isIdentChar '(' = false := by decide
  have p0 : ('(' : Char) ≠ ' ' := by decide
  have hid := readIdent_append e.kind '(' (tl ++ rest) hall p1
  constructor
  · unfold startsCall
    rw [htl]
    simp only [List.append_assoc, List.cons_append] at hid ⊢
    rw [hid]
    simp only [hne, skipWs_cons '(' _ p0]
    have hk' : e.kind ∈ termKindsSrc ∨ e.kind ∈ phraseKindsSrc ∨ e.kind ∈ deprels := by
      simpa [KindOK, List.mem_append] using hk
    simp only [Bool.and_true, Bool.not_false, Bool.true_and, List.head?_cons, decide_true]
    rcases hk' with h | h | h <;> simp [h]
  · exact ⟨c, r ++ '(' :: tl ++ rest, by rw [htl, hcr]; simp, h1, h2⟩


theorem srcOK_kind (e : Expr) (h : SrcOK e) : KindOK e := by
  unfold KindOK
  cases e with
  | term n l i => simp only [SrcOK] at h; simp [Expr.kind, Expr.node, h.1]
  | phr n es => simp only [SrcOK] at h; simp [Expr.kind, Expr.node, h.1]
  | dep n t ds => simp only [SrcOK] at h; simp [Expr.kind, Expr.node, h.1]

def argsOf (cur : Lang) : List Expr → List Arg
  | [] => []
  | e :: r => .e (progOf cur e) :: argsOf cur r

theorem argProgs_argsOf (cur : Lang) (es : List Expr) : argProgs (argsOf cur es) = some (progOfList cur es) := by
  induction es with
  | nil => rfl
  | cons e r ih => simp [argsOf, argProgs, progOfList, ih]

theorem hasNameErr_argsOf (cur : Lang) (es : List Expr) : hasNameErr (argsOf cur es) = false := by
  induction es with
  | nil => rfl
  | cons e r ih => simp [argsOf, hasNameErr, ih]

theorem readArgs_last (cur : Lang) (e : Expr) (f' : Nat) (rest : Str) (hke : KindOK e)
    (ih : readExpr cur f' (toSource e ++ ')' :: rest) = .ok (progOf cur e, ')' :: rest)) :
    readArgs cur (f' + 1) (toSource e ++ ')' :: rest) = .ok ([.e (progOf cur e)], rest) := by
  obtain ⟨hsc, c, q, hcq, h1, h2⟩ := startsCall_toSource e (')' :: rest) hke
  have p0 : (')' : Char) ≠ ' ' := by decide
  unfold readArgs
  rw [hcq, skipWs_cons c q h1]
  split
  · rename_i heq; cases heq; exact absurd rfl h2
  · rw [← hcq]
    simp [readOne, hsc, ih, skipWs_cons ')' _ p0]

theorem readArgs_more (cur : Lang) (e : Expr) (f' : Nat) (more rest : Str) (args : List Arg) (hke : KindOK e)
    (ih : readExpr cur f' (toSource e ++ ',' :: more) = .ok (progOf cur e, ',' :: more))
    (ih2 : readArgs cur f' more = .ok (args, rest)) :
    readArgs cur (f' + 1) (toSource e ++ ',' :: more) = .ok (.e (progOf cur e) :: args, rest) := by
  obtain ⟨hsc, c, q, hcq, h1, h2⟩ := startsCall_toSource e (',' :: more) hke
  have c0 : (',' : Char) ≠ ' ' := by decide
  unfold readArgs
  rw [hcq, skipWs_cons c q h1]
  split
  · rename_i heq; cases heq; exact absurd rfl h2
  · rw [← hcq]
    simp [readOne, hsc, ih, skipWs_cons ',' _ c0, ih2]

mutual
theorem readExpr_toSource (cur : Lang) : ∀ (e : Expr) (f : Nat) (rest : Str), SrcOK e → TrailEnd rest → needE e ≤ f →
    readExpr cur f (toSource e ++ rest) = .ok (progOf cur e, rest)
  | .term n lemma info, f, rest, hok, he, hf => by
    obtain ⟨hk, hl, hh⟩ := hok
    obtain ⟨f', rfl⟩ : ∃ f', f = f' + 1 := ⟨f - 1, by simp [needE] at hf; omega⟩
    obtain ⟨f'', rfl⟩ : ∃ f'', f' = f'' + 1 := ⟨f' - 1, by simp [needE] at hf; omega⟩
    obtain ⟨hall, hne, c, r, hcr, h1, _⟩ := kind_facts n.kind (by simp [hk])
    have p1 : isIdentChar '(' = false := by decide
    have p0 : ('(' : Char) ≠ ' ' := by decide
    have hid := readIdent_append n.kind '(' ('"' :: (strAtom lemma ++ '"' :: ')' :: (printHist n.hist ++ rest))) hall p1
    have hargs := readArgs_dq cur f'' (strAtom lemma) (printHist n.hist ++ rest) hl
    have htr := readTrailers_hist cur n.hist (f'' + 1) (.term n.kind (.str (strAtom lemma)) cur) rest hh he
      (by simp [needE] at hf; omega)
    have hsk : skipWs (n.kind ++ '(' :: '"' :: (strAtom lemma ++ '"' :: ')' :: (printHist n.hist ++ rest))) =
        n.kind ++ '(' :: '"' :: (strAtom lemma ++ '"' :: ')' :: (printHist n.hist ++ rest)) := by
      rw [hcr]; exact skipWs_cons c _ h1
    have hterm : termKindsSrc.contains n.kind = true := by simpa using hk
    simp only [toSource, s_open, s_close, List.append_assoc, List.cons_append, List.nil_append]
    unfold readExpr
    simp only [hsk, hid, hne, skipWs_cons '(' _ p0, hargs]
    simp [hasNameErr, mkNode, hterm, hk, htr, progOf]
  | .phr n es, f, rest, hok, he, hf => by
    obtain ⟨hk, hh, hes⟩ := hok
    obtain ⟨f', rfl⟩ : ∃ f', f = f' + 1 := ⟨f - 1, by simp [needE] at hf; omega⟩
    obtain ⟨hall, hne, c, r, hcr, h1, _⟩ := kind_facts n.kind (by simp [hk])
    have p1 : isIdentChar '(' = false := by decide
    have p0 : ('(' : Char) ≠ ' ' := by decide
    have hid := readIdent_append n.kind '(' (toSourceList es ++ ')' :: (printHist n.hist ++ rest)) hall p1
    have hargs := readArgs_children cur es f' (printHist n.hist ++ rest) hes (by simp [needE] at hf; omega)
    have htr := readTrailers_hist cur n.hist f' (.phr n.kind cur (progOfList cur es)) rest hh he
      (by simp [needE] at hf; omega)
    have hsk : skipWs (n.kind ++ '(' :: (toSourceList es ++ ')' :: (printHist n.hist ++ rest))) =
        n.kind ++ '(' :: (toSourceList es ++ ')' :: (printHist n.hist ++ rest)) := by
      rw [hcr]; exact skipWs_cons c _ h1
    have hnt : termKindsSrc.contains n.kind = false := kinds_disjoint.1 n.kind hk
    have hph : phraseKindsSrc.contains n.kind = true := by simpa using hk
    simp only [toSource, List.append_assoc, List.cons_append, List.nil_append]
    unfold readExpr
    simp only [hsk, hid, hne, skipWs_cons '(' _ p0, hargs]
    have hnt' : n.kind ∉ termKindsSrc := by simpa using hnt
    simp [hasNameErr_argsOf, mkNode, hnt', hk, argProgs_argsOf, htr, progOf]
  | .dep n t ds, f, rest, hok, he, hf => by
    obtain ⟨hk, hh, ht, hds⟩ := hok
    obtain ⟨f', rfl⟩ : ∃ f', f = f' + 1 := ⟨f - 1, by simp [needE] at hf; omega⟩
    obtain ⟨f'', rfl⟩ : ∃ f'', f' = f'' + 1 := ⟨f' - 1, by simp [needE] at hf; omega⟩
    obtain ⟨hall, hne, c, r, hcr, h1, _⟩ := kind_facts n.kind (by simp [hk])
    have p1 : isIdentChar '(' = false := by decide
    have p0 : ('(' : Char) ≠ ' ' := by decide
    have hkt := srcOK_kind t ht
    have hargs : readArgs cur (f'' + 1) (toSource t ++ ((if ds.isEmpty then [] else ',' :: toSourceList ds) ++
        ')' :: (printHist n.hist ++ rest))) = .ok (.e (progOf cur t) :: argsOf cur ds, printHist n.hist ++ rest) := by
      cases ds with
      | nil =>
        have ih := readExpr_toSource cur t f'' (')' :: (printHist n.hist ++ rest)) ht
          (Or.inr (follower_cons _ _ (by simp))) (by simp [needE] at hf; omega)
        simpa [argsOf] using readArgs_last cur t f'' (printHist n.hist ++ rest) hkt ih
      | cons d ds' =>
        have ih := readExpr_toSource cur t f'' (',' :: (toSourceList (d :: ds') ++ ')' :: (printHist n.hist ++ rest))) ht
          (Or.inr (follower_cons _ _ (by simp))) (by simp [needE] at hf; omega)
        have ih2 := readArgs_children cur (d :: ds') f'' (printHist n.hist ++ rest) hds (by simp [needE] at hf; omega)
        simpa using readArgs_more cur t f'' _ _ _ hkt ih ih2
    have hid := readIdent_append n.kind '(' (toSource t ++ ((if ds.isEmpty then [] else ',' :: toSourceList ds) ++
        ')' :: (printHist n.hist ++ rest))) hall p1
    have htr := readTrailers_hist cur n.hist (f'' + 1) (.dep n.kind cur (progOf cur t) (progOfList cur ds)) rest hh he
      (by simp [needE] at hf; omega)
    have hsk : skipWs (n.kind ++ '(' :: (toSource t ++ ((if ds.isEmpty then [] else ',' :: toSourceList ds) ++
        ')' :: (printHist n.hist ++ rest)))) =
        n.kind ++ '(' :: (toSource t ++ ((if ds.isEmpty then [] else ',' :: toSourceList ds) ++
        ')' :: (printHist n.hist ++ rest))) := by
      rw [hcr]; exact skipWs_cons c _ h1
    obtain ⟨hnt, hnp⟩ := kinds_disjoint.2 n.kind hk
    have hnt' : n.kind ∉ termKindsSrc := by simpa using hnt
    have hnp' : n.kind ∉ phraseKindsSrc := by simpa using hnp
    simp only [toSource, List.append_assoc, List.cons_append, List.nil_append]
    unfold readExpr
    simp only [hsk, hid, hne, skipWs_cons '(' _ p0, hargs]
    simp [hasNameErr_argsOf, hasNameErr, mkNode, hnt', hnp', hk, argProgs_argsOf, argProgs, htr, progOf]
theorem readArgs_children (cur : Lang) : ∀ (es : List Expr) (f : Nat) (rest : Str), SrcOKList es → needA es ≤ f →
    readArgs cur f (toSourceList es ++ ')' :: rest) = .ok (argsOf cur es, rest)
  | [], f, rest, _, hf => by
    obtain ⟨f', rfl⟩ : ∃ f', f = f' + 1 := ⟨f - 1, by simp [needA] at hf; omega⟩
    have p0 : (')' : Char) ≠ ' ' := by decide
    simp [toSourceList, readArgs, skipWs_cons ')' _ p0, argsOf]
  | [e], f, rest, hok, hf => by
    obtain ⟨f', rfl⟩ : ∃ f', f = f' + 1 := ⟨f - 1, by simp [needA] at hf; omega⟩
    have ih := readExpr_toSource cur e f' (')' :: rest) hok.1 (Or.inr (follower_cons _ _ (by simp)))
      (by simp [needA] at hf; omega)
    simpa [toSourceList, argsOf] using readArgs_last cur e f' rest (srcOK_kind e hok.1) ih
  | e :: e2 :: r, f, rest, hok, hf => by
    obtain ⟨f', rfl⟩ : ∃ f', f = f' + 1 := ⟨f - 1, by simp [needA] at hf; omega⟩
    have ih := readExpr_toSource cur e f' (',' :: (toSourceList (e2 :: r) ++ ')' :: rest)) hok.1
      (Or.inr (follower_cons _ _ (by simp))) (by simp [needA] at hf; omega)
    have ih2 := readArgs_children cur (e2 :: r) f' rest hok.2 (by simp [needA] at hf ⊢; omega)
    simpa [toSourceList, argsOf] using readArgs_more cur e f' _ _ _ (srcOK_kind e hok.1) ih ih2
end


/-! ### the fuel `parseSrc` starts with is enough -/

theorem printCall_len (c : Call) : 1 ≤ (printCall c).length := by
  cases c with
  | opt name arg => simp [printCall]
  | tag2 nm attrs => simp only [printCall, List.length_append, List.length_cons]; omega

theorem printHist_len (h : List Call) : h.length ≤ (printHist h).length := by
  induction h with
  | nil => simp
  | cons c r ih =>
    have := printCall_len c
    simp only [printHist, List.length_append, List.length_cons]
    omega

theorem toSource_len (e : Expr) : 1 ≤ (toSource e).length := by
  obtain ⟨tl, h⟩ := toSource_shape e
  rw [h]; simp only [List.length_append, List.length_cons]; omega

theorem kind_len (k : Str) (h : k ∈ termKindsSrc ++ phraseKindsSrc ++ deprels) : 1 ≤ k.length := by
  obtain ⟨_, h2, _⟩ := kind_facts k h
  cases k with
  | nil => simp at h2
  | cons c r => simp

mutual
theorem needE_le : ∀ (e : Expr), SrcOK e → needE e ≤ (toSource e).length + 1
  | .term n l i, hok => by
    have h1 := printHist_len n.hist
    have c1 : (s "(\"").length = 2 := by decide
    have c2 : (s "\")").length = 2 := by decide
    simp only [needE, toSource, List.length_append, c1, c2]
    omega
  | .phr n es, hok => by
    have h1 := printHist_len n.hist
    have h2 := needA_le es hok.2.2
    have h3 := kind_len n.kind (by simp [hok.1])
    simp only [needE, toSource, List.length_append, List.length_cons, List.length_nil]
    omega
  | .dep n t ds, hok => by
    have h1 := printHist_len n.hist
    have h2 := needE_le t hok.2.2.1
    have h3 := needA_le ds hok.2.2.2
    have h4 := kind_len n.kind (by simp [hok.1])
    have h5 := toSource_len t
    cases ds with
    | nil =>
      simp only [needE, needA, toSource, List.length_append, List.length_cons, List.length_nil, List.isEmpty_nil, if_true]
      omega
    | cons d r =>
      simp only [needE, toSource, List.length_append, List.length_cons, List.length_nil, List.isEmpty_cons] at h3 ⊢
      simp only [Bool.false_eq_true, if_false, List.length_cons]
      omega
theorem needA_le : ∀ (es : List Expr), SrcOKList es → needA es ≤ (toSourceList es).length + 2
  | [], _ => by simp [needA]
  | [e], hok => by
    have := needE_le e hok.1
    simp only [needA, toSourceList]
    omega
  | e :: e2 :: r, hok => by
    have h1 := needE_le e hok.1
    have h2 := needA_le (e2 :: r) hok.2
    have h3 := toSource_len e
    simp only [needA, toSourceList, List.length_append, List.length_cons, List.length_nil] at h2 ⊢
    omega
end

/-- **the printed source reads back as the construction program it denotes**, for every expression whose lemmata are
    free of `"`, `\` and line breaks and whose recorded option values have a `repr` the model covers (`SrcOK`) -/
theorem parseSrc_toSource (cur : Lang) (e : Expr) (h : SrcOK e) : parseSrc cur (toSource e) = .ok (progOf cur e) := by
  have := readExpr_toSource cur e ((toSource e).length + 1) [] h (Or.inl rfl) (needE_le e h)
  simp only [List.append_nil] at this
  unfold parseSrc
  rw [this]
  simp [skipWs]


end Pyrealb.Expr
