import Pyrealb.Lemmas.ClauseFrClause
import Pyrealb.Lemmas.ClauseFrRank
/-! `doPronounPlacement` neither adds, removes, reorders nor re-tenses a verb: the tenses of the verb tokens, in
    order, are the same before and after (for ANY token list). -/
namespace Pyrealb.ClauseFr
open Pyrealb

/-- the tenses of the verb tokens of a list, in order -/
def Tok.vt? : Tok → Option Tense
  | .v y _ => some y.t
  | _ => none

def vts (l : List Tok) : List Tense := l.filterMap Tok.vt?

theorem vts_append (a b : List Tok) : vts (a ++ b) = vts a ++ vts b := by simp [vts, List.filterMap_append]

theorem vts_cons (t : Tok) (l : List Tok) : vts (t :: l) = t.vt?.toList ++ vts l := by
  cases h : t.vt? <;> simp [vts, List.filterMap_cons, h]

theorem vts_cons_v (y : VT) (f : Str) (l : List Tok) : vts (.v y f :: l) = y.t :: vts l := rfl

theorem vts_cons_nonV (t : Tok) (l : List Tok) (h : t.isV = false) : vts (t :: l) = vts l := by
  cases t <;> first | rfl | simp [Tok.isV] at h

theorem vts_nil_of_noV (l : List Tok) (h : ∀ t ∈ l, t.isV = false) : vts l = [] := by
  induction l with
  | nil => rfl
  | cons a r ih =>
    rw [vts_cons_nonV a r (h a List.mem_cons_self)]
    exact ih (fun t ht => h t (List.mem_cons_of_mem _ ht))

theorem vts_pyInsert (k : Nat) (q : Tok) (l : List Tok) (h : q.isV = false) : vts (pyInsert k q l) = vts l := by
  rw [pyInsert_split, vts_append, vts_cons_nonV q _ h, ← vts_append, List.take_append_drop]

theorem vts_collect (l : List Tok) : vts (collect l).2 = vts l := by
  fun_induction collect l <;> simp_all +zetaDelta [vts_cons]
  all_goals rfl

theorem vts_collect_fst (l : List Tok) : vts (collect l).1 = [] := by
  apply vts_nil_of_noV
  intro t ht
  have := collect_fst_clitic l t ht
  cases t <;> simp_all [Tok.isClitic, Tok.isV]

theorem vts_sortPros_nil (tb : CTable) (l : List Tok) (h : vts l = []) : vts (sortPros tb l) = [] := by
  have hp : (vts (sortPros tb l)).Perm (vts l) := (sortPros_perm tb l).filterMap _
  rw [h] at hp
  exact List.Perm.eq_nil hp

theorem vts_negModProg (cl cl1 : List Tok) (d : Nat) (h : negModProg cl = some (cl1, d)) : vts cl1 = vts cl := by
  induction cl generalizing cl1 d with
  | nil => simp [negModProg] at h
  | cons c rest ih =>
    cases c with
    | v x f =>
      unfold negModProg at h
      cases hn : x.neg2 with
      | none =>
        simp only [hn, Option.map_eq_some_iff] at h
        obtain ⟨r, hr, heq⟩ := h
        cases heq
        rw [vts_cons_v, vts_cons_v, ih r.1 r.2 (by cases r; exact hr)]
      | some w =>
        simp only [hn] at h
        split at h
        · simp only [Option.some.injEq, Prod.mk.injEq] at h
          rw [← h.1, vts_cons_nonV _ _ rfl, vts_cons_v, vts_cons_v, vts_pyInsert _ _ _ rfl]
        · simp only [Option.map_eq_some_iff] at h
          obtain ⟨r, hr, heq⟩ := h
          cases heq
          rw [vts_cons_v, vts_cons_v, ih r.1 r.2 (by cases r; exact hr)]
    | _ =>
      simp only [negModProg, Option.map_eq_some_iff] at h
      obtain ⟨r, hr, heq⟩ := h
      cases heq
      rw [vts_cons_nonV _ _ rfl, vts_cons_nonV _ _ rfl, ih r.1 r.2 (by cases r; exact hr)]

/-- **placement keeps the verbs**: same verb tokens, same order, same tenses -/
theorem vts_place (refl : Bool) (cl out : List Tok) (h : placePronouns refl cl = .ok out) : vts out = vts cl := by
  unfold placePronouns at h
  have fin : ∀ (cl1 : List Tok) (iDeb : Nat), vts cl1 = vts cl →
      (match findVerb none (List.drop iDeb cl1) with
        | none => Except.ok cl1
        | some fd =>
          have x := fd.verb;
          have tb := tableFor x;
          have negToks : List Tok :=
            match x.neg2 with
            | none => []
            | some w => if x.t = Tense.b then [Tok.adv ne, Tok.q w] else [Tok.adv ne];
          have after : Option Str :=
            match x.neg2 with
            | some w => if x.t = Tense.b then none else some w
            | none => none;
          have x' : VT := if x.t = Tense.b then x else { x with neg2 := none };
          do
          let isR ← isReflexive x refl
          have reflToks : List Tok := if isR = true ∧ x.t ≠ Tense.pp then [reflPro (fd.prog.getD x)] else []
          have r : List Tok × List Tok := collect fd.post
          have pros : List Tok := sortPros tb (negToks ++ reflToks ++ r.fst)
          have post : List Tok :=
            match after with
            | some w => pyInsert (if x.lier = true then 1 else 0) (Tok.q w) r.snd
            | none => r.snd
          have head : List Tok := List.take iDeb cl1 ++ fd.pre
          if tb = CTable.ipPos then pure (head ++ [Tok.v x' fd.form] ++ pros ++ post)
            else pure (head ++ pros ++ [Tok.v x' fd.form] ++ post)) = Except.ok out → vts out = vts cl := by
    intro cl1 iDeb hcl1 hh
    cases hf : findVerb none (cl1.drop iDeb) with
    | none => simp only [hf, Except.ok.injEq] at hh; rw [← hh, hcl1]
    | some fd =>
      have hsplit := findVerb_split none _ fd hf
      simp only [hf, bind, Except.bind] at hh
      cases hr : isReflexive fd.verb refl with
      | error e => simp [hr] at hh
      | ok isR =>
        simp only [hr, pure, Except.pure] at hh
        have hcl : vts cl = vts (cl1.take iDeb) ++ (vts fd.pre ++ (fd.verb.t :: vts fd.post)) := by
          rw [← hcl1]
          conv => lhs; rw [← List.take_append_drop iDeb cl1, hsplit]
          rw [vts_append, vts_append, vts_cons_v]
        have hx't : (if fd.verb.t = Tense.b then fd.verb else { fd.verb with neg2 := none }).t = fd.verb.t := by
          split <;> rfl
        have hneg : vts (match fd.verb.neg2 with
              | none => ([] : List Tok)
              | some w => if fd.verb.t = Tense.b then [Tok.adv ne, Tok.q w] else [Tok.adv ne]) = [] := by
          cases fd.verb.neg2 with
          | none => rfl
          | some w => simp only []; split <;> rfl
        have hrefl : vts (if isR = true ∧ fd.verb.t ≠ Tense.pp then [reflPro (fd.prog.getD fd.verb)] else []) = [] := by
          split <;> rfl
        have hpost : vts (match (match fd.verb.neg2 with
              | some w => if fd.verb.t = Tense.b then none else some w
              | none => none) with
            | some w => pyInsert (if fd.verb.lier = true then 1 else 0) (Tok.q w) (collect fd.post).2
            | none => (collect fd.post).2) = vts fd.post := by
          split
          · rw [vts_pyInsert _ _ _ rfl, vts_collect]
          · exact vts_collect _
        split at hh <;> simp only [Except.ok.injEq] at hh <;> rw [← hh, hcl] <;>
          simp only [vts_append, vts_cons_v, hpost, hx't] <;>
          rw [vts_sortPros_nil _ _ (by simp only [vts_append, hneg, hrefl, vts_collect_fst, List.append_nil])] <;>
          simp [vts]
  cases hl : negModProg cl with
  | none => simp only [hl] at h; exact fin cl 0 rfl h
  | some p =>
    obtain ⟨cl1, iDeb⟩ := p
    simp only [hl] at h
    exact fin cl1 iDeb (vts_negModProg cl cl1 iDeb hl) h

/-! ## one finite verb, on the tokens of the whole clause -/

/-- the label of a token that is not a finite form: an infinitive, a past participle, or the participle that
    `conjugate` returns for a verb in a compound tense (that token keeps the compound tense as its label) -/
def NonFin (t : Tense) : Prop := t = .b ∨ t = .pp ∨ t.auxTense.isSome = true

theorem mem_tail_append {α} (a b : List α) (t : α) (h : t ∈ (a ++ b).tail) : t ∈ a.tail ∨ t ∈ b := by
  cases a with
  | nil => exact Or.inr (List.mem_of_mem_tail h)
  | cons x r => simpa using h

theorem tail_sublist_nonfin (l l' : List Tense) (hs : l'.Sublist l) (h : ∀ t ∈ l.tail, NonFin t) :
    ∀ t ∈ l'.tail, NonFin t := by
  cases hs with
  | slnil => simp
  | cons a hs' => exact fun t ht => h t (hs'.subset (List.mem_of_mem_tail ht))
  | cons_cons a hs' => exact fun t ht => h t (hs'.subset ht)

theorem vts_sublist (l l' : List Tok) (h : l'.Sublist l) : (vts l').Sublist (vts l) := h.filterMap _

theorem removeEmptyAux_sublist (k : Nat) (l : List Tok) : (removeEmptyAux k l).Sublist l := by
  induction l generalizing k with
  | nil => exact List.Sublist.slnil
  | cons a r ih =>
    unfold removeEmptyAux
    split
    · exact List.Sublist.cons _ (ih k)
    · exact List.Sublist.cons_cons _ (ih (k + 1))

theorem removeEmpty_sublist (l : List Tok) : (removeEmpty l).Sublist l := removeEmptyAux_sublist 0 l

theorem vts_tokOfConj (v : VT) (cr : ConjRes) : vts [tokOfConj v cr] = [] ∨ vts [tokOfConj v cr] = [v.t] := by
  cases cr
  · exact Or.inr rfl
  · exact Or.inl rfl

/-- the tokens of ONE conjugated verb: everything behind its first verb token is a participle; all of it when the verb
    is an infinitive or a participle -/
theorem conj_vts (x : VT) (refl : Bool) (np : Option Tok) (r : List Tok × Bool)
    (hnp : ∀ q, np = some q → q.isV = false) (h : conjugate x refl np = .ok r) :
    (∀ t ∈ (vts r.1).tail, NonFin t) ∧ ((x.t = .b ∨ x.t = .pp) → ∀ t ∈ vts r.1, NonFin t) := by
  rcases conjugate_cases x refl np r h with rfl | ⟨hta, cr, rfl⟩ | ⟨ta, aux, ra, form, hta, rfl, _⟩
  · have h0 : vts [Tok.qv x.lex.lemma x.lier] = [] := rfl
    simp only [h0]
    exact ⟨by simp, fun _ => by simp⟩
  · rcases vts_tokOfConj x cr with h0 | h0 <;> simp only [h0]
    · exact ⟨by simp, fun _ => by simp⟩
    · refine ⟨by simp, fun hx t ht => ?_⟩
      simp at ht; subst ht
      rcases hx with hx | hx
      · exact Or.inl hx
      · exact Or.inr (Or.inl hx)
  · have hx : NonFin x.t := Or.inr (Or.inr (by rw [hta]; rfl))
    have hb : ¬ (x.t = .b ∨ x.t = .pp) := by
      intro hc
      have hb0 : Tense.b.auxTense = none := by decide
      have hp0 : Tense.pp.auxTense = none := by decide
      rcases hc with hc | hc <;> rw [hc] at hta
      · rw [hb0] at hta; cases hta
      · rw [hp0] at hta; cases hta
    refine ⟨?_, fun hc => absurd hc hb⟩
    have key : ∀ mid : List Tok, (∀ q ∈ mid, q.isV = false) →
        ∀ t ∈ (vts (tokOfConj { aux with neg2 := x.neg2, lier := x.lier } ra :: (mid ++
          [.v { x with neg2 := none, lier := false } form]))).tail, NonFin t := by
      intro mid hmid t ht
      have hm : vts (mid ++ [Tok.v { x with neg2 := none, lier := false } form]) = [x.t] := by
        rw [vts_append, vts_nil_of_noV mid hmid]; rfl
      have hsplit : vts (tokOfConj { aux with neg2 := x.neg2, lier := x.lier } ra :: (mid ++
          [.v { x with neg2 := none, lier := false } form])) =
          vts [tokOfConj { aux with neg2 := x.neg2, lier := x.lier } ra] ++ [x.t] := by
        rw [← hm, ← vts_append]; rfl
      rw [hsplit] at ht
      rcases vts_tokOfConj { aux with neg2 := x.neg2, lier := x.lier } ra with h0 | h0 <;> rw [h0] at ht <;>
        simp at ht
      subst ht; exact hx
    simp only [compoundToks]
    split
    · cases np with
      | some q =>
        exact key [q] (by intro q' hq'; simp at hq'; subst hq'; exact hnp _ rfl)
      | none => exact key [] (by simp)
    · exact key [] (by simp)

theorem elToks_vts (e : El) (h : e.isV = false) : vts e.toks = [] :=
  vts_nil_of_noV _ (elToks_noV e h)

/-- the tokens of elements whose verbs are all infinitives or participles -/
theorem realVPToks_nonfin (refl : Bool) (l : List El) (ts : List Tok) (hl : ∀ e ∈ l, TailOk e)
    (h : realVPToks refl l = .ok ts) : ∀ t ∈ vts ts, NonFin t := by
  induction l generalizing ts with
  | nil => simp [realVPToks] at h; subst h; simp [vts]
  | cons e tail ih =>
    have htail : ∀ e' ∈ tail, TailOk e' := fun e' he' => hl e' (List.mem_cons_of_mem _ he')
    by_cases hv : e.isV = true
    · cases e with
      | v x =>
        have hx := hl (.v x) List.mem_cons_self
        simp only [TailOk] at hx
        rw [realVPToks_v] at h
        split at h
        · rename_i p rest
          obtain ⟨r, hr, h⟩ := bindE_ok _ _ _ h
          have hc := (conj_vts x refl _ r (by intro q hq; cases hq; rfl) hr).2 hx.2.2
          have hcl := conj_clean x refl _ r hx.1 hx.2.1 hr
          simp only [hcl.2, Bool.false_eq_true, if_false] at h
          obtain ⟨more, hm, h⟩ := bindE_ok _ _ _ h
          simp only [pure, Except.pure, Except.ok.injEq] at h
          subst h
          intro t ht
          rw [vts_append] at ht
          rcases List.mem_append.mp ht with ht | ht
          · exact hc t ht
          · exact ih more htail hm t ht
        · obtain ⟨r, hr, h⟩ := bindE_ok _ _ _ h
          have hc := (conj_vts x refl _ r (by intro q hq; cases hq) hr).2 hx.2.2
          obtain ⟨more, hm, h⟩ := bindE_ok _ _ _ h
          simp only [pure, Except.pure, Except.ok.injEq] at h
          subst h
          intro t ht
          rw [vts_append] at ht
          rcases List.mem_append.mp ht with ht | ht
          · exact hc t ht
          · exact ih more htail hm t ht
      | _ => simp [El.isV] at hv
    · have hv' : e.isV = false := by cases h' : e.isV <;> simp_all
      rw [realVPToks_nonV refl e tail hv'] at h
      obtain ⟨more, hm, h⟩ := bindE_ok _ _ _ h
      simp only [pure, Except.pure, Except.ok.injEq] at h
      subst h
      intro t ht
      rw [vts_append, elToks_vts e hv'] at ht
      exact ih more htail hm t ht

/-- the tokens of a VP: only the very first verb token can be a finite form -/
theorem realVPToks_one_finite (refl : Bool) (x : VT) (r : List El) (ts : List Tok) (hr : ∀ e ∈ r, TailOk e)
    (h : realVPToks refl (.v x :: r) = .ok ts) : ∀ t ∈ (vts ts).tail, NonFin t := by
  rw [realVPToks_v] at h
  split at h
  · rename_i p rest
    obtain ⟨cr, hcr, h⟩ := bindE_ok _ _ _ h
    have hc := (conj_vts x refl _ cr (by intro q hq; cases hq; rfl) hcr).1
    have hrest : ∀ e ∈ rest, TailOk e := fun e he => hr e (List.mem_cons_of_mem _ he)
    split at h <;>
    · obtain ⟨more, hm, h⟩ := bindE_ok _ _ _ h
      simp only [pure, Except.pure, Except.ok.injEq] at h
      subst h
      intro t ht
      rw [vts_append] at ht
      rcases mem_tail_append _ _ t ht with ht | ht
      · exact hc t ht
      · first | exact realVPToks_nonfin refl _ more hrest hm t ht | exact realVPToks_nonfin refl _ more hr hm t ht
  · obtain ⟨cr, hcr, h⟩ := bindE_ok _ _ _ h
    have hc := (conj_vts x refl none cr (by intro q hq; cases hq) hcr).1
    obtain ⟨more, hm, h⟩ := bindE_ok _ _ _ h
    simp only [pure, Except.pure, Except.ok.injEq] at h
    subst h
    intro t ht
    rw [vts_append] at ht
    rcases mem_tail_append _ _ t ht with ht | ht
    · exact hc t ht
    · exact realVPToks_nonfin refl r more hr hm t ht

/-- **one finite verb, whole clause** (constituent notation, any VP whose first element is a verb and whose other verbs
    are infinitives or participles): among the verb tokens of the realized clause only the first can be a finite form -/
theorem phraseReal_one_finite (refl : Bool) (sel vp : List El) (toks : List Tok) (w : Option Str) (b : Bool)
    (hsel : SelShape sel) (hvp : VPI w b vp) (h : phraseReal refl sel vp = .ok toks) :
    ∀ t ∈ (vts toks).tail, NonFin t := by
  unfold phraseReal at h
  obtain ⟨raw, hraw, h⟩ := bindE_ok _ _ _ h
  obtain ⟨placed, hplaced, h⟩ := bindE_ok _ _ _ h
  simp only [pure, Except.pure, Except.ok.injEq] at h
  obtain ⟨x, r, hvpe, _, _, hr⟩ := vpi_of_esig _ _ vp (pronominalizeVP vp) (pronominalizeVP_esig vp) hvp
  rw [hvpe] at hraw
  have h1 := realVPToks_one_finite refl x r raw hr hraw
  have h2 := tail_sublist_nonfin _ _ (vts_sublist _ _ (removeEmpty_sublist raw)) h1
  rw [← vts_place refl _ placed hplaced] at h2
  obtain ⟨pre, rfl, hpre⟩ := hsel
  rw [flatMap_selToks pre placed (fun e he => (hpre e he).2)] at h
  have h3 : vts (pre.flatMap El.toks ++ placed) = vts placed := by
    rw [vts_append, vts_nil_of_noV, List.nil_append]
    intro t ht
    obtain ⟨e, he, hte⟩ := List.mem_flatMap.mp ht
    exact elToks_noV e (hpre e he).1 t hte
  rw [← h3] at h2
  rw [← h]
  exact tail_sublist_nonfin _ _ (vts_sublist _ _ (removeEmpty_sublist _)) h2

end Pyrealb.ClauseFr
