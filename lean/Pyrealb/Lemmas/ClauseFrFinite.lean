import Pyrealb.Lemmas.ClauseFrClause
import Pyrealb.Lemmas.ClauseFrRank
/-! `doPronounPlacement` neither adds, removes, reorders nor re-tenses a verb: the tenses of the verb tokens, in
    order, are the same before and after (for ANY token list). -/
namespace Pyrealb.ClauseFr
open Pyrealb

/-- the tenses of the verb tokens of a list, in order -/
def Tok.vt? : Tok → Option Tense
  | .v y _ => some y.t
  | _ => none

def vts (l : List Tok) : List Tense := l.filterMap Tok.vt?

theorem vts_append (a b : List Tok) : vts (a ++ b) = vts a ++ vts b := by simp [vts, List.filterMap_append]

theorem vts_cons (t : Tok) (l : List Tok) : vts (t :: l) = t.vt?.toList ++ vts l := by
  cases h : t.vt? <;> simp [vts, List.filterMap_cons, h]

theorem vts_cons_v (y : VT) (f : Str) (l : List Tok) : vts (.v y f :: l) = y.t :: vts l := rfl

theorem vts_cons_nonV (t : Tok) (l : List Tok) (h : t.isV = false) : vts (t :: l) = vts l := by
  cases t <;> first | rfl | simp [Tok.isV] at h

theorem vts_nil_of_noV (l : List Tok) (h : ∀ t ∈ l, t.isV = false) : vts l = [] := by
  induction l with
  | nil => rfl
  | cons a r ih =>
    rw [vts_cons_nonV a r (h a List.mem_cons_self)]
    exact ih (fun t ht => h t (List.mem_cons_of_mem _ ht))

theorem vts_pyInsert (k : Nat) (q : Tok) (l : List Tok) (h : q.isV = false) : vts (pyInsert k q l) = vts l := by
  rw [pyInsert_split, vts_append, vts_cons_nonV q _ h, ← vts_append, List.take_append_drop]

theorem vts_collect (l : List Tok) : vts (collect l).2 = vts l := by
  fun_induction collect l <;> simp_all +zetaDelta [vts_cons]
  all_goals rfl

theorem vts_collect_fst (l : List Tok) : vts (collect l).1 = [] := by
  apply vts_nil_of_noV
  intro t ht
  have := collect_fst_clitic l t ht
  cases t <;> simp_all [Tok.isClitic, Tok.isV]

theorem vts_sortPros_nil (tb : CTable) (l : List Tok) (h : vts l = []) : vts (sortPros tb l) = [] := by
  have hp : (vts (sortPros tb l)).Perm (vts l) := (sortPros_perm tb l).filterMap _
  rw [h] at hp
  exact List.Perm.eq_nil hp

theorem vts_negModProg (cl cl1 : List Tok) (d : Nat) (h : negModProg cl = some (cl1, d)) : vts cl1 = vts cl := by
  induction cl generalizing cl1 d with
  | nil => simp [negModProg] at h
  | cons c rest ih =>
    cases c with
    | v x f =>
      unfold negModProg at h
      cases hn : x.neg2 with
      | none =>
        simp only [hn, Option.map_eq_some_iff] at h
        obtain ⟨r, hr, heq⟩ := h
        cases heq
        rw [vts_cons_v, vts_cons_v, ih r.1 r.2 (by cases r; exact hr)]
      | some w =>
        simp only [hn] at h
        split at h
        · simp only [Option.some.injEq, Prod.mk.injEq] at h
          rw [← h.1, vts_cons_nonV _ _ rfl, vts_cons_v, vts_cons_v, vts_pyInsert _ _ _ rfl]
        · simp only [Option.map_eq_some_iff] at h
          obtain ⟨r, hr, heq⟩ := h
          cases heq
          rw [vts_cons_v, vts_cons_v, ih r.1 r.2 (by cases r; exact hr)]
    | _ =>
      simp only [negModProg, Option.map_eq_some_iff] at h
      obtain ⟨r, hr, heq⟩ := h
      cases heq
      rw [vts_cons_nonV _ _ rfl, vts_cons_nonV _ _ rfl, ih r.1 r.2 (by cases r; exact hr)]

/-- **placement keeps the verbs**: same verb tokens, same order, same tenses -/
theorem vts_place (refl : Bool) (cl out : List Tok) (h : placePronouns refl cl = .ok out) : vts out = vts cl := by
  unfold placePronouns at h
  have fin : ∀ (cl1 : List Tok) (iDeb : Nat), vts cl1 = vts cl →
      (match findVerb none (List.drop iDeb cl1) with
        | none => Except.ok cl1
        | some fd =>
          have x := fd.verb;
          have tb := tableFor x;
          have negToks : List Tok :=
            match x.neg2 with
            | none => []
            | some w => if x.t = Tense.b then [Tok.adv ne, Tok.q w] else [Tok.adv ne];
          have after : Option Str :=
            match x.neg2 with
            | some w => if x.t = Tense.b then none else some w
            | none => none;
          have x' : VT := if x.t = Tense.b then x else { x with neg2 := none };
          do
          let isR ← isReflexive x refl
          have reflToks : List Tok := if isR = true ∧ x.t ≠ Tense.pp then [reflPro (fd.prog.getD x)] else []
          have r : List Tok × List Tok := collect fd.post
          have pros : List Tok := sortPros tb (negToks ++ reflToks ++ r.fst)
          have post : List Tok :=
            match after with
            | some w => pyInsert (if x.lier = true then 1 else 0) (Tok.q w) r.snd
            | none => r.snd
          have head : List Tok := List.take iDeb cl1 ++ fd.pre
          if tb = CTable.ipPos then pure (head ++ [Tok.v x' fd.form] ++ pros ++ post)
            else pure (head ++ pros ++ [Tok.v x' fd.form] ++ post)) = Except.ok out → vts out = vts cl := by
    intro cl1 iDeb hcl1 hh
    cases hf : findVerb none (cl1.drop iDeb) with
    | none => simp only [hf, Except.ok.injEq] at hh; rw [← hh, hcl1]
    | some fd =>
      have hsplit := findVerb_split none _ fd hf
      simp only [hf, bind, Except.bind] at hh
      cases hr : isReflexive fd.verb refl with
      | error e => simp [hr] at hh
      | ok isR =>
        simp only [hr, pure, Except.pure] at hh
        have hcl : vts cl = vts (cl1.take iDeb) ++ (vts fd.pre ++ (fd.verb.t :: vts fd.post)) := by
          rw [← hcl1]
          conv => lhs; rw [← List.take_append_drop iDeb cl1, hsplit]
          rw [vts_append, vts_append, vts_cons_v]
        have hx't : (if fd.verb.t = Tense.b then fd.verb else { fd.verb with neg2 := none }).t = fd.verb.t := by
          split <;> rfl
        have hneg : vts (match fd.verb.neg2 with
              | none => ([] : List Tok)
              | some w => if fd.verb.t = Tense.b then [Tok.adv ne, Tok.q w] else [Tok.adv ne]) = [] := by
          cases fd.verb.neg2 with
          | none => rfl
          | some w => simp only []; split <;> rfl
        have hrefl : vts (if isR = true ∧ fd.verb.t ≠ Tense.pp then [reflPro (fd.prog.getD fd.verb)] else []) = [] := by
          split <;> rfl
        have hpost : vts (match (match fd.verb.neg2 with
              | some w => if fd.verb.t = Tense.b then none else some w
              | none => none) with
            | some w => pyInsert (if fd.verb.lier = true then 1 else 0) (Tok.q w) (collect fd.post).2
            | none => (collect fd.post).2) = vts fd.post := by
          split
          · rw [vts_pyInsert _ _ _ rfl, vts_collect]
          · exact vts_collect _
        split at hh <;> simp only [Except.ok.injEq] at hh <;> rw [← hh, hcl] <;>
          simp only [vts_append, vts_cons_v, hpost, hx't] <;>
          rw [vts_sortPros_nil _ _ (by simp only [vts_append, hneg, hrefl, vts_collect_fst, List.append_nil])] <;>
          simp [vts]
  cases hl : negModProg cl with
  | none => simp only [hl] at h; exact fin cl 0 rfl h
  | some p =>
    obtain ⟨cl1, iDeb⟩ := p
    simp only [hl] at h
    exact fin cl1 iDeb (vts_negModProg cl cl1 iDeb hl) h

end Pyrealb.ClauseFr
