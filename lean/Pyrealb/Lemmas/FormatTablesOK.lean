import Pyrealb.Model.FormatTables
import Pyrealb.Lemmas.FormatComma
import Pyrealb.Lemmas.FormatTree
/-! The hypotheses on the case map, proved of the tabulated Python case map (`decide` over the generated table). -/
namespace Pyrealb.Format
open Pyrealb.Gen

theorem caseLookup_mem (c : Char) (tbl : List (Char × Char × Char × Bool)) (v : Char × Char × Bool)
    (h : caseLookup c tbl = some v) : (c, v) ∈ tbl := by
  induction tbl with
  | nil => simp [caseLookup] at h
  | cons kv r ih =>
    obtain ⟨k, w⟩ := kv
    simp only [caseLookup] at h
    split at h
    · rename_i hk; cases h; subst hk; simp
    · exact List.mem_cons_of_mem _ (ih h)

set_option maxRecDepth 100000 in
theorem caseTable_punct :
    ∀ e ∈ PunctRules.caseTable, (e.2.1 == ' ') = (e.1 == ' ') ∧ isCS e.2.1 = isCS e.1 := by
  decide +kernel

theorem pyCase_punctOK : PunctOK pyCase := by
  intro c
  simp only [pyCase]
  cases h : caseLookup c PunctRules.caseTable with
  | none => simp
  | some v =>
    obtain ⟨u, l, w⟩ := v
    exact caseTable_punct (c, u, l, w) (caseLookup_mem c _ _ h)

theorem pyCase_spaceOK : SpaceOK pyCase := fun c => pyCase_punctOK.sp c

set_option maxRecDepth 100000 in
theorem caseTable_angle :
    ∀ e ∈ PunctRules.caseTable, e.1 ≠ '<' → e.1 ≠ '>' →
      e.2.1 ≠ '<' ∧ e.2.1 ≠ '>' ∧ e.2.2.1 ≠ '<' ∧ e.2.2.1 ≠ '>' := by
  decide +kernel

theorem pyCase_angOK : AngOK pyCase := by
  refine ⟨?_, by decide +kernel, by decide +kernel⟩
  intro c h1 h2
  simp only [pyCase]
  cases h : caseLookup c PunctRules.caseTable with
  | none => exact ⟨h1, h2, h1, h2⟩
  | some v =>
    obtain ⟨u, l, w⟩ := v
    exact caseTable_angle (c, u, l, w) (caseLookup_mem c _ _ h) h1 h2

end Pyrealb.Format
