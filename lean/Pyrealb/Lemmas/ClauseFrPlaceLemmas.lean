import Pyrealb.Lemmas.ClauseFrSort
/-! `doPronounPlacement` computed in closed form on a token list split at its first verb (any prefix, any suffix). -/
namespace Pyrealb.ClauseFr
open Pyrealb

/-- no verb of the list carries `neg2` while being a modality / progressive auxiliary (loop 1 finds nothing) -/
def NoAuxNeg (l : List Tok) : Prop :=
  ∀ t ∈ l, match t with
    | .v y _ => y.neg2 = none ∨ (y.isMod = false ∧ y.isProg = false)
    | _ => True

theorem negModProg_none (l : List Tok) (h : NoAuxNeg l) : negModProg l = none := by
  induction l with
  | nil => rfl
  | cons c rest ih =>
    have hc := h c List.mem_cons_self
    have hr : NoAuxNeg rest := fun t ht => h t (List.mem_cons_of_mem _ ht)
    cases c with
    | v x f =>
      simp only at hc
      unfold negModProg
      rcases hc with hc | ⟨h1, h2⟩
      · simp [hc, ih hr]
      · cases hn : x.neg2 <;> simp [hn, h1, h2, ih hr]
    | _ => simp [negModProg, ih hr]

/-- every verb of the list is an auxiliary of modality / progressive (loop 2 steps over them) -/
def OnlyAuxV (l : List Tok) : Prop :=
  ∀ t ∈ l, match t with
    | .v y _ => y.isProg = true ∨ y.isMod = true
    | _ => True

/-- the progressive auxiliary loop 2 remembers while it steps over `l` -/
def lastProg (pg : Option VT) : List Tok → Option VT
  | [] => pg
  | .v y _ :: r => lastProg (if y.isProg then some y else pg) r
  | _ :: r => lastProg pg r

theorem onlyAuxV_of_noV (l : List Tok) (h : ∀ t ∈ l, t.isV = false) : OnlyAuxV l := by
  intro t ht
  have := h t ht
  cases t <;> simp_all [Tok.isV]

theorem lastProg_of_noV (pg : Option VT) (l : List Tok) (h : ∀ t ∈ l, t.isV = false) : lastProg pg l = pg := by
  induction l with
  | nil => rfl
  | cons c r ih =>
    have hc := h c List.mem_cons_self
    have hr : ∀ t ∈ r, t.isV = false := fun t ht => h t (List.mem_cons_of_mem _ ht)
    cases c <;> simp_all [lastProg, Tok.isV]

/-- loop 2 stops at the first verb that is not an auxiliary of modality / progressive -/
theorem findVerb_first (pg : Option VT) (pre post : List Tok) (x : VT) (f : Str)
    (hpre : OnlyAuxV pre) (hp : x.isProg = false) (hm : x.isMod = false) :
    findVerb pg (pre ++ .v x f :: post) =
      some { pre := pre, prog := lastProg pg pre, verb := x, form := f, post := post } := by
  induction pre generalizing pg with
  | nil => simp [findVerb, hp, hm, lastProg]
  | cons c r ih =>
    have hc := hpre c List.mem_cons_self
    have hr : OnlyAuxV r := fun t ht => hpre t (List.mem_cons_of_mem _ ht)
    cases c with
    | v y g =>
      simp only at hc
      have : (y.isProg = true ∨ y.isMod = true) := hc
      simp [findVerb, this, ih _ hr, lastProg]
    | _ => simp [findVerb, ih _ hr, lastProg]

/-- what `doPronounPlacement` puts next to the verb `x`: `ne`, the second negative word of an infinitive, the
    reflexive pronoun, the collected clitics — after `pros.sort(key=…)` -/
def prosRaw (x : VT) (isR : Bool) (pg : Option VT) (collected : List Tok) : List Tok :=
  (match x.neg2 with
    | none => []
    | some w => if x.t = .b then [.adv ne, .q w] else [.adv ne])
   ++ (if isR ∧ x.t ≠ .pp then [reflPro (pg.getD x)] else [])
   ++ collected

/-- …after `pros.sort(key=…)` -/
def prosOf (x : VT) (isR : Bool) (pg : Option VT) (collected : List Tok) : List Tok :=
  sortPros (tableFor x) (prosRaw x isR pg collected)

/-- the list `doPronounPlacement` returns when loop 1 finds nothing and `x` is the verb loop 2 stops at -/
def placedAt (pre post : List Tok) (x : VT) (f : Str) (isR : Bool) (pg : Option VT := none) : List Tok :=
  let x' : VT := if x.t = .b then x else { x with neg2 := none }
  let after : List Tok := match x.neg2 with
    | some w => if x.t = .b then (collect post).2 else pyInsert (if x.lier then 1 else 0) (.q w) (collect post).2
    | none => (collect post).2
  if tableFor x = .ipPos then pre ++ [.v x' f] ++ prosOf x isR pg (collect post).1 ++ after
  else pre ++ prosOf x isR pg (collect post).1 ++ [.v x' f] ++ after

/-- closed form of `doPronounPlacement` when loop 1 finds nothing and the first verb is not an auxiliary of
    modality / progressive: for ANY tokens before it and ANY tokens after it -/
theorem place_first_verb (refl : Bool) (pre post : List Tok) (x : VT) (f : Str)
    (hpre : OnlyAuxV pre) (hp : x.isProg = false) (hm : x.isMod = false)
    (hna : NoAuxNeg (pre ++ .v x f :: post)) :
    placePronouns refl (pre ++ .v x f :: post) =
      (isReflexive x refl).bind (fun isR => .ok (placedAt pre post x f isR (lastProg none pre))) := by
  unfold placePronouns
  rw [negModProg_none _ hna]
  simp only [List.drop_zero, List.take_zero, List.nil_append]
  rw [findVerb_first none pre post x f hpre hp hm]
  cases hr : isReflexive x refl with
  | error e => simp [bind, Except.bind, hr]
  | ok isR =>
    simp only [placedAt, prosOf, prosRaw]
    cases hn : x.neg2 <;> by_cases hb : x.t = .b <;> by_cases htb : tableFor x = .ipPos <;>
      simp [hr, hb, htb, bind, Except.bind, pure, Except.pure]

end Pyrealb.ClauseFr

namespace Pyrealb.ClauseFr
open Pyrealb

theorem pyInsert_split {α} (k : Nat) (x : α) (l : List α) : pyInsert k x l = l.take k ++ x :: l.drop k := by
  induction k generalizing l with
  | zero => simp [pyInsert]
  | succ k ih =>
    cases l with
    | nil => simp [pyInsert]
    | cons a r => simp [pyInsert, ih]

/-- loop 1 on a list split at its first verb, when that verb carries `neg2` and is a modality / progressive auxiliary -/
theorem negModProg_first (pre post : List Tok) (x : VT) (f : Str) (w : Str)
    (hpre : ∀ t ∈ pre, t.isV = false) (hn : x.neg2 = some w) (ha : x.isMod = true ∨ x.isProg = true) :
    negModProg (pre ++ .v x f :: post) =
      some (pre ++ .adv ne :: .v { x with neg2 := none } f :: pyInsert (if x.lier then 1 else 0) (.q w) post,
            pre.length + (3 + (if x.isProg then 2 else 0))) := by
  induction pre with
  | nil =>
    have : (x.isMod = true ∨ x.isProg = true) := ha
    simp [negModProg, hn, this]
  | cons c r ih =>
    have hc := hpre c List.mem_cons_self
    have hr : ∀ t ∈ r, t.isV = false := fun t ht => hpre t (List.mem_cons_of_mem _ ht)
    cases c <;> simp_all [negModProg, Tok.isV] <;> omega

/-- `findVerb` only moves non-verbs (and auxiliaries) into `pre`: the leading non-verbs of the list stay in front -/
theorem findVerb_pre_takeWhile (pg : Option VT) (l : List Tok) (fd : Found) (h : findVerb pg l = some fd) :
    ∃ r, fd.pre = l.takeWhile (fun t => !t.isV) ++ r := by
  induction l generalizing pg fd with
  | nil => simp [findVerb] at h
  | cons c rest ih =>
    cases c with
    | v x f =>
      exact ⟨fd.pre, by simp [Tok.isV]⟩
    | _ =>
      simp only [findVerb, Option.map_eq_some_iff] at h
      obtain ⟨fd', hfd', rfl⟩ := h
      obtain ⟨r, hr⟩ := ih pg fd' hfd'
      exact ⟨r, by simp [Tok.isV, hr]⟩

/-- whatever loop 2 does, the tokens before `iDeb` and the non-verbs that follow stay where loop 1 left them -/
theorem place_keeps_prefix (refl : Bool) (cl out : List Tok) (h : placePronouns refl cl = .ok out) :
    ∃ r, out = (match negModProg cl with
                | some p => p.1.take p.2 ++ (p.1.drop p.2).takeWhile (fun t => !t.isV)
                | none => cl.takeWhile (fun t => !t.isV)) ++ r := by
  unfold placePronouns at h
  cases hl : negModProg cl with
  | none =>
    simp only [hl, List.drop_zero, List.take_zero, List.nil_append] at h
    cases hf : findVerb none cl with
    | none =>
      simp [hf] at h
      exact ⟨cl.dropWhile (fun t => !t.isV), by rw [← h]; exact (List.takeWhile_append_dropWhile).symm⟩
    | some fd =>
      obtain ⟨r, hr⟩ := findVerb_pre_takeWhile none cl fd hf
      simp only [hf, bind, Except.bind] at h
      split at h
      · cases h
      · rename_i isR _
        simp only [pure, Except.pure] at h
        split at h <;> (simp only [Except.ok.injEq] at h; rw [← h, hr]; simp [List.append_assoc]) <;> exact ⟨_, rfl⟩
  | some p =>
    obtain ⟨cl1, iDeb⟩ := p
    simp only [hl] at h
    cases hf : findVerb none (cl1.drop iDeb) with
    | none =>
      simp [hf] at h
      refine ⟨(cl1.drop iDeb).dropWhile (fun t => !t.isV), ?_⟩
      rw [← h, List.append_assoc, List.takeWhile_append_dropWhile, List.take_append_drop]
    | some fd =>
      obtain ⟨r, hr⟩ := findVerb_pre_takeWhile none _ fd hf
      simp only [hf, bind, Except.bind] at h
      split at h
      · cases h
      · simp only [pure, Except.pure] at h
        split at h <;> (simp only [Except.ok.injEq] at h; rw [← h, hr]; simp [List.append_assoc]) <;> exact ⟨_, rfl⟩

end Pyrealb.ClauseFr

namespace Pyrealb.ClauseFr
open Pyrealb

theorem take_takeWhile_keeps (P D : List Tok) (q : Tok) (j : Nat) (hq : q.isV = false) (hP : P.length ≤ j) :
    ∃ r', (P ++ q :: D).take j ++ ((P ++ q :: D).drop j).takeWhile (fun t => !t.isV) = P ++ q :: r' := by
  induction P generalizing j with
  | nil =>
    cases j with
    | zero => exact ⟨D.takeWhile (fun t => !t.isV), by simp [hq]⟩
    | succ j' => exact ⟨D.take j' ++ (D.drop j').takeWhile (fun t => !t.isV), by simp⟩
  | cons p P ih =>
    cases j with
    | zero => simp at hP
    | succ j' =>
      obtain ⟨r', hr'⟩ := ih j' (by simpa using hP)
      exact ⟨r', by simp only [List.cons_append, List.take_succ_cons, List.drop_succ_cons]; rw [hr']⟩

/-- shape of the result when the first verb carries `neg2` and is a modality / progressive auxiliary: loop 1 wrote
    `ne` before it and the second negative word after it (after one more token when the verb is `lier`), and loop 2
    leaves that alone -/
theorem place_aux_shape (refl : Bool) (pre post out : List Tok) (x : VT) (f w : Str)
    (hpre : ∀ t ∈ pre, t.isV = false) (hn : x.neg2 = some w) (ha : x.isMod = true ∨ x.isProg = true)
    (h : placePronouns refl (pre ++ .v x f :: post) = .ok out) :
    ∃ r, out = pre ++ .adv ne :: .v { x with neg2 := none } f ::
                 (post.take (if x.lier then 1 else 0) ++ .q w :: r) := by
  obtain ⟨r, hr⟩ := place_keeps_prefix refl _ out h
  rw [negModProg_first pre post x f w hpre hn ha] at hr
  simp only at hr
  rw [pyInsert_split] at hr
  have hlen : (post.take (if x.lier then 1 else 0)).length ≤ 1 + (if x.isProg then 2 else 0) := by
    rw [List.length_take]; split <;> omega
  obtain ⟨r', hr'⟩ := take_takeWhile_keeps (post.take (if x.lier then 1 else 0))
      (post.drop (if x.lier then 1 else 0)) (.q w) (1 + (if x.isProg then 2 else 0)) rfl hlen
  refine ⟨r' ++ r, ?_⟩
  rw [hr]
  have e1 : pre.length + (3 + if x.isProg = true then 2 else 0) = pre.length + ((1 + if x.isProg = true then 2 else 0) + 2) := by omega
  rw [e1, List.take_append, List.drop_append]
  simp only [List.take_of_length_le (Nat.le_add_right _ _), Nat.add_sub_cancel_left, List.take_succ_cons,
    List.drop_succ_cons, List.drop_of_length_le (Nat.le_add_right _ _), List.nil_append, List.append_assoc,
    List.cons_append]
  rw [← List.append_assoc, hr']
  simp

/-- the guard of loop 2: a pronoun recognised as already elided (`elidedForm`: since commit c4595d2 the FIRST WORD of
    its realization ends with an apostrophe; before, the realization itself) is never popped -/
theorem isCliticPro_elided (x : ProT) (f : Str) (h : elidedForm f = true) : isCliticPro x f = false := by
  simp [isCliticPro, h]

theorem takeWhile_all {α} (p : α → Bool) (l : List α) (h : ∀ c ∈ l, p c = true) : l.takeWhile p = l := by
  induction l with
  | nil => rfl
  | cons a r ih =>
    simp [List.takeWhile, h a List.mem_cons_self, ih (fun c hc => h c (List.mem_cons_of_mem _ hc))]

/-- on a realization that is one bare word (no tag, no punctuation, no space) both versions of the guard agree -/
theorem elidedForm_bare (f : Str) (hne : f ≠ []) (hw : ∀ c ∈ f, isWordCh c = true) : elidedForm f = endsWith f ['\''] := by
  unfold elidedForm
  split
  · have hs : skipPre false f = f := by
      cases f with
      | nil => exact absurd rfl hne
      | cons c cs =>
        have hc := hw c List.mem_cons_self
        have hlt : (c == '<') = false := by
          cases hcl : c == '<'
          · rfl
          · have : c = '<' := by simpa using hcl
            subst this; revert hc; decide
        simp [skipPre, hlt, hc]
    have ht : f.takeWhile isWordCh = f := takeWhile_all _ f hw
    simp only [firstWord, hs, ht]
    cases f with
    | nil => exact absurd rfl hne
    | cons c cs => simp
  · rfl

end Pyrealb.ClauseFr
