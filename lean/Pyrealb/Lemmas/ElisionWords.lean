import Pyrealb.Model.ElisionSpec
import Pyrealb.Lemmas.ElisionSep
/-! Word-level lemmas for C06: every needed fact about the lifted tables is a closed `decide` over
    `Gen.Elision` (re-proved when the source changes), lifted to arbitrary words by the lemmas below. -/
namespace Pyrealb.Elision
open Pyrealb Pyrealb.Gen.Elision

/-! ### lower-casing -/

theorem lower_append (a b : Str) : lower (a ++ b) = lower a ++ lower b := by simp [lower]
theorem lower_dropLast (a : Str) : lower a.dropLast = (lower a).dropLast := by
  simp [lower, List.map_dropLast]
theorem lower_head (a : Str) : (lower a).head? = a.head?.map lowerC := by
  cases a <;> simp [lower]
theorem lower_apos : lower ['\''] = ['\''] := by decide

/-- `w[:-1] + "'"` -/
def elidedOf (w : Str) : Str := w.dropLast ++ ['\'']

theorem lower_elidedOf (w : Str) : lower (elidedOf w) = elidedOf (lower w) := by
  simp [elidedOf, lower_append, lower_dropLast, lower_apos]

/-! ### `isElidableFr` depends on the lower-cased first character only -/

def nextClass (oc : Option Char) (h : HFlag) : Except Crash Bool :=
  match oc with
  | none => .ok false
  | some lc =>
    if vowelsFr.contains lc then .ok true
    else if lc == 'h' then hAnswer h
    else .ok false

theorem elidableNext_eq (x : Str) (h : HFlag) : elidableNext x h = nextClass ((lower x).head?) h := by
  cases x with
  | nil => rfl
  | cons c cs => simp [elidableNext, nextClass, lower, isVowelFr]

theorem vowelOrMuteH_eq (w : Str) (t : Tok) :
    vowelOrMuteH w t = isOkTrue (nextClass ((lower w).head?) t.hW) := by
  simp [vowelOrMuteH, elidableNext_eq]

/-- two words with the same lower-cased first character are alike for `isElidableFr` -/
theorem vowelOrMuteH_congr (w w' : Str) (t t' : Tok)
    (hh : nextClass (lower w).head? t.hW = nextClass (lower w').head? t'.hW) :
    vowelOrMuteH w t = vowelOrMuteH w' t' := by
  simp [vowelOrMuteH_eq, hh]

/-! ### the contraction table as triples -/

def firstPart (k : Str) : Str := k.takeWhile (· != '+')
def secondPart (k : Str) : Str := (k.dropWhile (· != '+')).drop 1
def triples : List (Str × Str × Str) := contractionFrTable.map (fun kv => (firstPart kv.1, secondPart kv.1, kv.2))

theorem lookup_mem {α} (k : Str) : ∀ (tbl : List (Str × α)) (v : α), lookup k tbl = some v → (k, v) ∈ tbl := by
  intro tbl
  induction tbl with
  | nil => intro v h; simp [lookup] at h
  | cons kv r ih =>
    intro v h
    obtain ⟨k', v'⟩ := kv
    by_cases hk : k' = k
    · simp [lookup, hk] at h; simp [hk, h]
    · simp [lookup, hk] at h; simp [ih v h]

theorem split_plus (w1 w2 : Str) (h1 : ∀ x ∈ w1, x ≠ '+') :
    firstPart (w1 ++ '+' :: w2) = w1 ∧ secondPart (w1 ++ '+' :: w2) = w2 := by
  have := takeWhile_append_stop (fun c : Char => c != '+') w1 ('+' :: w2)
    (by intro c hc; simpa using h1 c hc) (by intro c t h; simp at h; simp [← h.1])
  simp [firstPart, secondPart, this.1, this.2]

theorem contrFr_triple (w1 w2 c : Str) (h1 : ∀ x ∈ w1, x ≠ '+') (h : contrFr w1 w2 = some c) :
    (w1, w2, c) ∈ triples := by
  have hm := lookup_mem _ _ _ h
  have sp := split_plus w1 w2 h1
  simp only [triples, List.mem_map]
  exact ⟨(w1 ++ '+' :: w2, c), hm, by simp [sp.1, sp.2]⟩

theorem isWd_plus : isWd .fr '+' = false := by decide

theorem noPlus_of_wd (w : Str) (h : ∀ c ∈ w, isWd .fr c = true) : ∀ x ∈ w, x ≠ '+' := by
  intro x hx he
  have := h x hx
  rw [he, isWd_plus] at this
  exact absurd this (by decide)

end Pyrealb.Elision
