import Pyrealb.Lemmas.ElisionClauses
/-! Token-level lemmas for C06 (French): what one step of the loop does, and the induction over the pass. -/
namespace Pyrealb.Elision
open Pyrealb Pyrealb.Gen.Elision

/-! ### views -/

@[simp] theorem setReal_ct (t : Tok) (x : Str) : (t.setReal x).ct = t.ct := rfl
@[simp] theorem setReal_lier (t : Tok) (x : Str) : (t.setReal x).lier = t.lier := rfl
@[simp] theorem setReal_sg (t : Tok) (x : Str) : (t.setReal x).sg = t.sg := rfl
@[simp] theorem setReal_hW (t : Tok) (x : Str) : (t.setReal x).hW = t.hW := rfl
@[simp] theorem setReal_hR (t : Tok) (x : Str) : (t.setReal x).hR = t.hR := rfl
@[simp] theorem setReal_real (t : Tok) (x : Str) : (t.setReal x).real = some x := rfl
@[simp] theorem setReal_fr (t : Tok) (x : Str) : (t.setReal x).fr = t.fr := rfl

theorem view_spec (ℓ : Lang) (t : Tok) (v : View) (h : view ℓ t = some v) :
    ∃ x, t.real = some x ∧ sepWord ℓ x = ⟨v.pre, some v.w, v.rest⟩ := by
  unfold view at h
  cases hr : t.real with
  | none => simp [hr] at h
  | some x =>
    simp only [hr] at h
    cases hw : (sepWord ℓ x).word with
    | none => simp [hw] at h
    | some w =>
      simp only [hw, Option.some.injEq] at h
      refine ⟨x, rfl, ?_⟩
      rw [← h]
      cases hs : sepWord ℓ x with
      | mk p w0 r => rw [hs] at hw; simp at hw; simp [hw]

theorem view_wd (ℓ : Lang) (t : Tok) (v : View) (h : view ℓ t = some v) :
    v.w ≠ [] ∧ ∀ c ∈ v.w, isWd ℓ c = true := by
  obtain ⟨x, _, hs⟩ := view_spec ℓ t v h
  have := sepWord_word_spec ℓ x _ _ _ hs
  exact ⟨this.1, this.2.1⟩

theorem view_setReal (ℓ : Lang) (t : Tok) (v : View) (h : view ℓ t = some v) (w' : Str)
    (hne : w' ≠ []) (hall : ∀ c ∈ w', isWd ℓ c = true) :
    view ℓ (t.setReal (v.rebuild w')) = some ⟨v.pre, w', v.rest⟩ := by
  obtain ⟨x, _, hs⟩ := view_spec ℓ t v h
  have := sepWord_rebuild ℓ x _ _ _ w' hs hne hall
  simp only [view, View.rebuild, setReal_real, this]

theorem view_none_pairOK (t : Tok) (h : view .fr t = none) (b : Tok) : pairOKFr t b = true ∧ pairOKFr b t = true := by
  constructor
  · cases hb : view .fr b <;> simp [pairOKFr, h, hb]
  · cases hb : view .fr b <;> simp [pairOKFr, h, hb]

theorem elidableNext_ok (x : Str) (h : HFlag) (hc : h ≠ .crash) :
    elidableNext x h = .ok (isOkTrue (elidableNext x h)) := by
  cases x with
  | nil => rfl
  | cons c cs =>
    simp only [elidableNext]
    split
    · rfl
    · split
      · cases h <;> simp_all [hAnswer, isOkTrue]
      · rfl

theorem tokWF_spec (t : Tok) (h : tokWF t = true) : (∃ x, t.real = some x) ∧ t.hW ≠ .crash ∧ t.hR = t.hW := by
  simp only [tokWF, Bool.and_eq_true, bne_iff_ne, ne_eq, beq_iff_eq] at h
  refine ⟨?_, h.1.2, h.2⟩
  cases hr : t.real with
  | none => simp [hr] at h
  | some x => exact ⟨x, rfl⟩

theorem stepFr_of_views (t1 t2 : Tok) (t3 : Option Tok) (w1 : tokWF t1 = true) (w2 : tokWF t2 = true) :
    stepFr t1 t2 t3 =
      if !t1.fr then .ok .keep else
      match view .fr t1, view .fr t2 with
      | some v1, some v2 => stepFrCore t1 t2 t3 v1 v2 (vowelOrMuteH v2.w t2)
      | _, _ => .ok .keep := by
  obtain ⟨⟨x1, h1⟩, _, _⟩ := tokWF_spec t1 w1
  obtain ⟨⟨x2, h2⟩, hc2, _⟩ := tokWF_spec t2 w2
  unfold stepFr
  cases t1.fr with
  | false => rfl
  | true =>
    simp only [h1, h2, Bool.not_true, Bool.false_eq_true, if_false]
    cases view .fr t1 with
    | none => rfl
    | some v1 =>
      cases view .fr t2 with
      | none => rfl
      | some v2 =>
        simp only []
        rw [elidableNext_ok v2.w t2.hW hc2]
        rfl

/-- a window whose first word is not French: the loop skips it and the clauses ask nothing -/
theorem pairOK_not_fr (t1 t2 : Tok) (h : t1.fr = false) : pairOKFr t1 t2 = true := by
  unfold pairOKFr
  cases view .fr t1 <;> cases view .fr t2 <;> simp [h]

/-! ### how the pass may have rewritten the head of the rest of the list -/

def Rew (t : Tok) (nxt : Option Tok) (h : Tok) : Prop :=
  h = t ∨ ∃ v w', view .fr t = some v ∧ h = t.setReal (v.rebuild w') ∧
    ((lower v.w ∈ EE ∧ w' = elidedOf v.w) ∨ (lower v.w ∈ EE ∧ w' ∈ euphResults) ∨
     (∃ t3 v3, nxt = some t3 ∧ view .fr t3 = some v3 ∧ contrFr v.w v3.w = some w' ∧ t.fr = true ∧ t3.fr = true))

theorem Rew.lier {t nxt h} (hr : Rew t nxt h) : h.lier = t.lier := by
  cases hr with
  | inl e => rw [e]
  | inr e => obtain ⟨v, w', _, e, _⟩ := e; rw [e]; rfl

theorem vowelOrMuteH_false_of_EE (w : Str) (t : Tok) (h : lower w ∈ EE) : vowelOrMuteH w t = false := by
  have := (fact_heads _ h).1 t.hW (mem_allH _)
  simp [vowelOrMuteH_eq, this, isOkTrue]

theorem vowelOrMuteH_elidedOf (w : Str) (t : Tok) (h : lower w ∈ EE) : vowelOrMuteH (elidedOf w) t = false := by
  have f := fact_heads _ h
  have := f.1 t.hW (mem_allH _)
  simp [vowelOrMuteH_eq, lower_elidedOf, f.2.1, this, isOkTrue]

/-- contracting `t2` with the token after it does not create a new contractable pair with `t1` -/
def NoNewContr (t1 t2 : Tok) (nxt : Option Tok) : Prop :=
  ∀ t3 v1 v2 v3 c, nxt = some t3 → view .fr t1 = some v1 → view .fr t2 = some v2 → view .fr t3 = some v3 →
    t1.fr = true → t2.fr = true → t3.fr = true → contrFr v2.w v3.w = some c → contrFr v1.w c = none

/-- the fourth side condition, extracted from `tameWinFr` -/
theorem noNewContr_of_tame (t1 t2 : Tok) (nxt : Option Tok) (ht : tameWinFr t1 t2 nxt = true) :
    NoNewContr t1 t2 nxt := by
  intro t3 v1 v2 v3 c hn h1 h2 h3 hf1 hf2 hf3 hc
  subst hn
  simp only [tameWinFr, h1, h2, h3, hc, hf1, hf2, hf3, Bool.not_true, Bool.false_or, Bool.and_eq_true, Bool.and_self] at ht
  have := ht.2
  simpa using this

/-- a first word that starts no key of the contraction table (an elided form, a prevocalic form) -/
theorem noNewContr_of_inert (t1 t2 : Tok) (nxt : Option Tok) (v1 : View) (h1 : view .fr t1 = some v1)
    (hi : ∀ c, contrFr v1.w c = none) : NoNewContr t1 t2 nxt := by
  intro t3 v1' v2 v3 c _ h1' _ _ _ _ _ _
  rw [h1] at h1'; cases h1'
  exact hi c

/-- transfer: a settled pair stays settled when its second token is rewritten later by the pass -/
theorem pairOK_transfer (t1 t2 h : Tok) (nxt : Option Tok) (hr : Rew t2 nxt h) (hok : pairOKFr t1 t2 = true)
    (ht4 : NoNewContr t1 t2 nxt) : pairOKFr t1 h = true := by
  cases hf1 : t1.fr with
  | false => exact pairOK_not_fr _ _ hf1
  | true =>
  cases hr with
  | inl e => rw [e]; exact hok
  | inr e =>
    obtain ⟨v2, w', hv2, eh, kind⟩ := e
    subst eh
    cases hv1 : view .fr t1 with
    | none => exact (view_none_pairOK t1 hv1 _).1
    | some v1 =>
      have wd1 := (view_wd _ _ _ hv1).2
      have wd2 := (view_wd _ _ _ hv2).2
      simp only [pairOKFr, hv1, hv2, hf1, Bool.not_true, Bool.false_or] at hok
      -- the rewritten token has the same groups 1 and 3 and `w'` as its first word
      have hvh : view .fr (t2.setReal (v2.rebuild w')) = some ⟨v2.pre, w', v2.rest⟩ := by
        rcases kind with ⟨hE, rfl⟩ | ⟨_, hv⟩ | ⟨t3, v3, _, _, hc, _, _⟩
        · exact view_setReal _ _ _ hv2 _ (elidedOf_ne_nil _) (wd_elidedOf _ wd2)
        · have g := fact_euph_values _ hv
          exact view_setReal _ _ _ hv2 _ g.1 (by simpa [List.all_eq_true] using g.2.1)
        · have tr := contrFr_triple _ _ _ (noPlus_of_wd _ wd2) hc
          have g := fact_triples _ tr
          exact view_setReal _ _ _ hv2 _ g.2.2.2.2.2.2.2.1 (by simpa [List.all_eq_true] using g.2.2.2.2.2.2.2.2)
      cases hnw : noWords v1.rest with
      | false => simp [pairOKFr, hv1, hvh, hnw]
      | true =>
        simp only [hnw, Bool.not_true, Bool.false_or] at hok
        rcases kind with ⟨hE, rfl⟩ | ⟨hE, hv⟩ | ⟨t3, v3, hn, hv3, hc, hf2, hf3⟩
        · have V0 := vowelOrMuteH_false_of_EE v2.w t2 hE
          have V1 : vowelOrMuteH (elidedOf v2.w) (t2.setReal (v2.rebuild (elidedOf v2.w))) = false :=
            vowelOrMuteH_elidedOf _ _ hE
          rw [V0] at hok
          have := clauses_transfer_elided v1.w v2.w t1.sg (t2.ct == ['D']) t2.fr hE wd1 hok
          simp [pairOKFr, hv1, hvh, hnw, V1, this]
        · have g := fact_euph_values _ hv
          have V0 := vowelOrMuteH_false_of_EE v2.w t2 hE
          have V1 : vowelOrMuteH w' (t2.setReal (v2.rebuild w')) = false := by
            have e1 := g.2.2.2.2.2.2.2.1 t2.hW (mem_allH _)
            simp [vowelOrMuteH_eq, e1, isOkTrue]
          rw [V0] at hok
          have := clauses_transfer_euph v1.w v2.w w' t1.sg (t2.ct == ['D']) t2.fr hv wd1 hok
          simp [pairOKFr, hv1, hvh, hnw, V1, this]
        · have tr := contrFr_triple _ _ _ (noPlus_of_wd _ wd2) hc
          have g := fact_triples _ tr
          have V1 : vowelOrMuteH w' (t2.setReal (v2.rebuild w')) = vowelOrMuteH v2.w t2 := by
            apply vowelOrMuteH_congr
            have e1 := g.2.2.2.2.2.1 t2.hW (mem_allH _)
            simp only [] at e1
            simpa using e1
          have t4 := ht4 t3 v1 v2 v3 w' hn hv1 hv2 hv3 hf1 hf2 hf3 hc
          have := clauses_transfer_contr v1.w v2.w v3.w w' t1.sg _ (t2.ct == ['D']) t2.fr hc wd2 t4 hok
          simp [pairOKFr, hv1, hvh, hnw, V1, this]

end Pyrealb.Elision
