import Pyrealb.Lemmas.FormatSpace
/-! `detokenize` never doubles a space and never starts with one (for C10). -/
namespace Pyrealb.Format

theorem checkForT_fst (cm : CaseMap) (lang : Lang) (r : Str) (c : Cat) (nxt : Tok) :
    (checkForT cm lang r c nxt).1 = r ∨ (checkForT cm lang r c nxt).1 = ['p', 'u', 'i', 's'] := by
  unfold checkForT
  cases lang <;> simp only
  · left; trivial
  · repeat' split
    all_goals first | (left; rfl) | (right; rfl)

theorem checkForT_snd (cm : CaseMap) (lang : Lang) (r : Str) (c : Cat) (nxt : Tok) :
    (checkForT cm lang r c nxt).2 = [] ∨ (checkForT cm lang r c nxt).2 = ['t', '-'] := by
  unfold checkForT
  cases lang <;> simp only
  · left; trivial
  · repeat' split
    all_goals first | (left; rfl) | (right; rfl)

theorem endsSep_false_last {x : Str} (h : endsSep x = false) : x.getLast? ≠ some ' ' := by
  unfold endsSep at h
  cases hx : x.getLast? with
  | none => simp
  | some c =>
    rw [hx] at h
    intro e
    cases e
    simp at h

/-- what one terminal contributes to the joined string -/
theorem chunk_ok (cm : CaseMap) (lang : Lang) (t nxt : Tok) (h : ndb t.real = true) :
    ndb (chunk cm lang t nxt) = true ∧ (chunk cm lang t nxt).head? ≠ some ' ' := by
  have h1 := stripLead_ndb h
  have h2 := stripLead_head h
  unfold chunk
  simp only
  split
  · -- lier
    have hf := checkForT_fst cm lang (stripLead t.real) t.cat nxt
    have hs := checkForT_snd cm lang (stripLead t.real) t.cat nxt
    generalize checkForT cm lang (stripLead t.real) t.cat nxt = p at hf hs
    obtain ⟨r', lia⟩ := p
    simp only at hf hs ⊢
    have hl : ndb ('-' :: lia) = true := by
      rcases hs with rfl | rfl <;> decide
    rcases hf with rfl | rfl
    · refine ⟨ndb_append h1 hl (Or.inr (by simp)), ?_⟩
      rw [List.head?_append]
      cases hh : (stripLead t.real).head? with
      | none => simp
      | some c => simp; intro e; exact h2 (by rw [hh, e])
    · refine ⟨ndb_append (by decide) hl (Or.inr (by simp)), by simp⟩
  · split
    · exact ⟨h1, h2⟩
    · split
      · rename_i hsep _
        have hsep' : endsSep (stripLead t.real) = false := by simpa using hsep
        refine ⟨ndb_append h1 (by decide) (Or.inl (endsSep_false_last hsep')), ?_⟩
        rw [List.head?_append]
        cases hh : (stripLead t.real).head? with
        | none =>
          have : stripLead t.real = [] := by simpa using hh
          simp_all
        | some c => simp; intro e; exact h2 (by rw [hh, e])
      · exact ⟨rfl, by simp⟩

theorem titleCase_ndb (cm : CaseMap) (hc : SpaceOK cm) (t t' : Tok) (h : titleCase cm t = .ok t') :
    ndb t'.real = ndb t.real := by
  unfold titleCase at h
  split at h
  · cases h; rfl
  · split at h
    · cases h; simp [upperAt_ndb cm hc]
    · cases h; rfl

theorem joinToks_ok (cm : CaseMap) (hc : SpaceOK cm) (lang : Lang) (tit : Bool) (toks : List Tok)
    (h : ∀ t ∈ toks, ndb t.real = true) (x : Str) (hx : joinToks cm lang tit toks = .ok x) :
    ndb x = true ∧ x.head? ≠ some ' ' := by
  induction toks generalizing x with
  | nil => simp [joinToks] at hx; subst hx; simp [ndb]
  | cons t rest ih =>
    cases rest with
    | nil =>
      simp only [joinToks] at hx
      cases tit with
      | false =>
        simp at hx; subst hx
        exact ⟨stripLead_ndb (h t (by simp)), stripLead_head (h t (by simp))⟩
      | true =>
        simp only [if_true] at hx
        cases ht : titleCase cm t with
        | error e => rw [ht] at hx; cases hx
        | ok t' =>
          rw [ht] at hx
          simp at hx; subst hx
          have := titleCase_ndb cm hc t t' ht
          have h' : ndb t'.real = true := by rw [this]; exact h t (by simp)
          exact ⟨stripLead_ndb h', stripLead_head h'⟩
    | cons t2 rest =>
      simp only [joinToks] at hx
      have hrest : ∀ u ∈ t2 :: rest, ndb u.real = true := fun u hu => h u (List.mem_cons_of_mem _ hu)
      cases tit with
      | false =>
        simp only [Bool.false_eq_true, if_false] at hx
        cases hj : joinToks cm lang false (t2 :: rest) with
        | error e => rw [hj] at hx; cases hx
        | ok tail =>
          rw [hj] at hx
          simp at hx; subst hx
          obtain ⟨i1, i2⟩ := ih hrest tail hj
          obtain ⟨c1, c2⟩ := chunk_ok cm lang t t2 (h t (by simp))
          refine ⟨ndb_append c1 i1 (Or.inr i2), ?_⟩
          rw [List.head?_append]
          cases hh : (chunk cm lang t t2).head? with
          | none => simpa using i2
          | some c => simp; intro e; exact c2 (by rw [hh, e])
      | true =>
        simp only [if_true] at hx
        cases ht : titleCase cm t with
        | error e => rw [ht] at hx; cases hx
        | ok t' =>
          rw [ht] at hx
          cases hj : joinToks cm lang true (t2 :: rest) with
          | error e => rw [hj] at hx; cases hx
          | ok tail =>
            rw [hj] at hx
            simp at hx; subst hx
            have := titleCase_ndb cm hc t t' ht
            have h' : ndb t'.real = true := by rw [this]; exact h t (by simp)
            obtain ⟨i1, i2⟩ := ih hrest tail hj
            obtain ⟨c1, c2⟩ := chunk_ok cm lang t' t2 h'
            refine ⟨ndb_append c1 i1 (Or.inr i2), ?_⟩
            rw [List.head?_append]
            cases hh : (chunk cm lang t' t2).head? with
            | none => simpa using i2
            | some c => simp; intro e; exact c2 (by rw [hh, e])

theorem finish_ok (cm : CaseMap) (hc : SpaceOK cm) (cfg : DetokCfg) (x : Str)
    (h1 : ndb x = true) (h2 : x.head? ≠ some ' ') :
    ndb (finish cm cfg x) = true ∧ (finish cm cfg x).head? ≠ some ' ' := by
  have u1 : ndb (upperAt cm x (sepWord cm x).1) = true := by rw [upperAt_ndb cm hc]; exact h1
  have u2 : (upperAt cm x (sepWord cm x).1).head? ≠ some ' ' := by
    rw [Ne, upperAt_head cm hc]; exact h2
  have u3 : ndb (upperAt cm x (sepWord cm x).1 ++ ['.', ' ']) = true :=
    ndb_append u1 (by decide) (Or.inr (by simp))
  have u4 : (upperAt cm x (sepWord cm x).1 ++ ['.', ' ']).head? ≠ some ' ' := by
    rw [List.head?_append]
    cases hh : (upperAt cm x (sepWord cm x).1).head? with
    | none => simp
    | some c => simp; intro e; exact u2 (by rw [hh, e])
  unfold finish
  simp only
  split
  · split
    · split
      · split
        · split
          · exact ⟨u1, u2⟩
          · exact ⟨u3, u4⟩
        · exact ⟨u1, u2⟩
      · exact ⟨u1, u2⟩
    · exact ⟨h1, h2⟩
  · exact ⟨h1, h2⟩

theorem detokenize_spaces (cm : CaseMap) (hc : SpaceOK cm) (cfg : DetokCfg) (toks : List Tok)
    (h : ∀ t ∈ toks, ndb t.real = true) (x : Str) (hx : detokenize cm cfg toks = .ok x) :
    ndb x = true ∧ x.head? ≠ some ' ' := by
  unfold detokenize at hx
  split at hx
  · cases hx; simp [ndb]
  · cases hj : joinToks cm cfg.lang (decide (cfg.lang = Lang.en ∧ cfg.cap = Cap.tit)) toks with
    | error e => rw [hj] at hx; cases hx
    | ok y =>
      rw [hj] at hx
      simp at hx; subst hx
      obtain ⟨a, b⟩ := joinToks_ok cm hc cfg.lang _ toks h y hj
      exact finish_ok cm hc cfg y a b

end Pyrealb.Format
