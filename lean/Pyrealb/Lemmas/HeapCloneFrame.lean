import Pyrealb.Model.HeapClone
/-! # Frames: what an operation may write

`Closed h D`: the set of nodes `D` is closed under the references of the object graph (children, terminal, parentConst,
cod, subject).  `Frame D h0 h1`: going from `h0` to `h1` nothing outside `D` was written — neither a node outside `D`, nor
its `peng`/`taux`/`cod`/`subject`, nor the content of a record that no node of `D` pointed to — and the records the nodes
of `D` point to afterwards are records they pointed to before, or fresh ones. -/
namespace Pyrealb.Heap
open Pyrealb

def Closed (h : Heap) (D : List Nat) : Prop := ∀ x ∈ D, x < h.n ∧ ∀ y ∈ nbrs h x, y ∈ D

theorem closedB_iff (h : Heap) (S : List Nat) : closedB h S = true ↔ Closed h S := by
  simp [closedB, Closed, List.all_eq_true]

def RecOf (h : Heap) (D : List Nat) (r : Nat) : Prop := ∃ x ∈ D, h.peng x = some r
def TRecOf (h : Heap) (D : List Nat) (r : Nat) : Prop := ∃ x ∈ D, h.taux x = some r

structure Frame (D : List Nat) (h0 h1 : Heap) : Prop where
  n : h1.n = h0.n
  node : ∀ y, ¬ y ∈ D → h1.node y = h0.node y
  peng : ∀ y, ¬ y ∈ D → h1.peng y = h0.peng y
  taux : ∀ y, ¬ y ∈ D → h1.taux y = h0.taux y
  cod : ∀ y, ¬ y ∈ D → h1.cod y = h0.cod y
  subject : ∀ y, ¬ y ∈ D → h1.subject y = h0.subject y
  nRec : h0.nRec ≤ h1.nRec
  nTRec : h0.nTRec ≤ h1.nTRec
  recOf : ∀ r, RecOf h1 D r → RecOf h0 D r ∨ ∃ x ∈ D, r = freshRec x
  trecOf : ∀ r, TRecOf h1 D r → TRecOf h0 D r
  prec : ∀ r, ¬ RecOf h0 D r → (∀ x ∈ D, r ≠ freshRec x) → h1.prec r = h0.prec r
  trec : ∀ r, ¬ TRecOf h0 D r → h1.trec r = h0.trec r

theorem Frame.refl (D : List Nat) (h : Heap) : Frame D h h :=
  ⟨rfl, fun _ _ => rfl, fun _ _ => rfl, fun _ _ => rfl, fun _ _ => rfl, fun _ _ => rfl, Nat.le_refl _, Nat.le_refl _,
   fun _ hr => Or.inl hr, fun _ hr => hr, fun _ _ _ => rfl, fun _ _ => rfl⟩

theorem Frame.trans {D : List Nat} {h0 h1 h2 : Heap} (a : Frame D h0 h1) (b : Frame D h1 h2) : Frame D h0 h2 where
  n := b.n.trans a.n
  node y hy := (b.node y hy).trans (a.node y hy)
  peng y hy := (b.peng y hy).trans (a.peng y hy)
  taux y hy := (b.taux y hy).trans (a.taux y hy)
  cod y hy := (b.cod y hy).trans (a.cod y hy)
  subject y hy := (b.subject y hy).trans (a.subject y hy)
  nRec := Nat.le_trans a.nRec b.nRec
  nTRec := Nat.le_trans a.nTRec b.nTRec
  recOf r hr := by
    rcases b.recOf r hr with h | h
    · exact a.recOf r h
    · exact Or.inr h
  trecOf r hr := a.trecOf r (b.trecOf r hr)
  prec r hn hf := by
    rw [b.prec r _ hf, a.prec r hn hf]
    intro h1
    rcases a.recOf r h1 with h | ⟨x, hx, e⟩
    · exact hn h
    · exact hf x hx e
  trec r hn := by
    rw [b.trec r _, a.trec r hn]
    intro h1
    exact hn (a.trecOf r h1)

/-- a change of node fields only (kids, parent, props, kind …) of nodes of `D` -/
theorem frame_of_nodes (D : List Nat) (h h' : Heap)
    (hn : h'.n = h.n) (hnode : ∀ y, ¬ y ∈ D → h'.node y = h.node y)
    (hp : h'.peng = h.peng) (ht : h'.taux = h.taux) (hc : h'.cod = h.cod) (hs : h'.subject = h.subject)
    (hpr : h'.prec = h.prec) (htr : h'.trec = h.trec) (hr : h'.nRec = h.nRec) (htn : h'.nTRec = h.nTRec) :
    Frame D h h' where
  n := hn
  node := hnode
  peng y _ := by rw [hp]
  taux y _ := by rw [ht]
  cod y _ := by rw [hc]
  subject y _ := by rw [hs]
  nRec := by omega
  nTRec := by omega
  recOf r := by unfold RecOf; rw [hp]; exact Or.inl
  trecOf r := by unfold TRecOf; rw [ht]; exact id
  prec r _ _ := by rw [hpr]
  trec r _ := by rw [htr]

theorem frame_setNode (D : List Nat) (h : Heap) (x : Nat) (nd : Node) (hx : x ∈ D) : Frame D h (h.setNode x nd) := by
  apply frame_of_nodes <;> try rfl
  intro y hy
  have : y ≠ x := fun e => hy (e ▸ hx)
  simp [Heap.setNode, upd, this]

theorem frame_warn (D : List Nat) (h : Heap) (k : Nat) : Frame D h (h.warn k) := by
  apply frame_of_nodes <;> first | rfl | (intro y _; rfl)

/-! ### one assignment of a link run -/

theorem step_frame (D : List Nat) (s s' : Heap) (a : Act) (hn : ∀ y ∈ a.nodes, y ∈ D) (hs : step s a = .ok s') :
    Frame D s s' := by
  cases a with
  | setPeng strict x y =>
    have hx : x ∈ D := hn x (by simp [Act.nodes])
    have hy : y ∈ D := hn y (by simp [Act.nodes])
    simp only [step] at hs
    cases hq : s.peng y with
    | none => rw [hq] at hs; cases strict <;> simp at hs; subst hs; exact Frame.refl _ _
    | some r =>
      rw [hq] at hs; simp only [Except.ok.injEq] at hs; subst hs
      refine ⟨rfl, fun _ _ => rfl, ?_, fun _ _ => rfl, fun _ _ => rfl, fun _ _ => rfl, Nat.le_refl _, Nat.le_refl _, ?_,
              fun _ h => h, fun _ _ _ => rfl, fun _ _ => rfl⟩
      · intro z hz
        have : z ≠ x := fun e => hz (e ▸ hx)
        simp [upd, this]
      · rintro r' ⟨z, hz, hzr⟩
        by_cases e : z = x
        · subst e; simp [upd] at hzr; subst hzr; exact Or.inl ⟨y, hy, hq⟩
        · simp [upd, e] at hzr; exact Or.inl ⟨z, hz, hzr⟩
  | setTaux strict x y =>
    have hx : x ∈ D := hn x (by simp [Act.nodes])
    have hy : y ∈ D := hn y (by simp [Act.nodes])
    simp only [step] at hs
    cases hq : s.taux y with
    | none => rw [hq] at hs; cases strict <;> simp at hs; subst hs; exact Frame.refl _ _
    | some r =>
      rw [hq] at hs; simp only [Except.ok.injEq] at hs; subst hs
      refine ⟨rfl, fun _ _ => rfl, fun _ _ => rfl, ?_, fun _ _ => rfl, fun _ _ => rfl, Nat.le_refl _, Nat.le_refl _,
              fun _ h => Or.inl h, ?_, fun _ _ _ => rfl, fun _ _ => rfl⟩
      · intro z hz
        have : z ≠ x := fun e => hz (e ▸ hx)
        simp [upd, this]
      · rintro r' ⟨z, hz, hzr⟩
        by_cases e : z = x
        · subst e; simp [upd] at hzr; subst hzr; exact ⟨y, hy, hq⟩
        · simp [upd, e] at hzr; exact ⟨z, hz, hzr⟩
  | writeN strict y v =>
    have hy : y ∈ D := hn y (by simp [Act.nodes])
    simp only [step] at hs
    cases hq : s.peng y with
    | none => rw [hq] at hs; cases strict <;> simp at hs; subst hs; exact Frame.refl _ _
    | some r =>
      rw [hq] at hs; simp only [Except.ok.injEq] at hs; subst hs
      refine ⟨rfl, fun _ _ => rfl, fun _ _ => rfl, fun _ _ => rfl, fun _ _ => rfl, fun _ _ => rfl, Nat.le_refl _,
              Nat.le_refl _, fun _ h => Or.inl h, fun _ h => h, ?_, fun _ _ => rfl⟩
      intro r' hnr _
      have : r' ≠ r := fun e => hnr ⟨y, hy, e ▸ hq⟩
      simp [upd, this]
  | copyG strict t y =>
    have ht : t ∈ D := hn t (by simp [Act.nodes])
    simp only [step] at hs
    cases hq : s.peng y with
    | none => rw [hq] at hs; cases strict <;> simp at hs; subst hs; exact Frame.refl _ _
    | some r =>
      rw [hq] at hs; simp only at hs
      cases hg : (s.prec r).g with
      | none => rw [hg] at hs; simp at hs
      | some gv =>
        rw [hg] at hs; simp only at hs
        cases hqt : s.peng t with
        | none => rw [hqt] at hs; simp at hs
        | some rt =>
          rw [hqt] at hs; simp only [Except.ok.injEq] at hs; subst hs
          refine ⟨rfl, fun _ _ => rfl, fun _ _ => rfl, fun _ _ => rfl, fun _ _ => rfl, fun _ _ => rfl, Nat.le_refl _,
                  Nat.le_refl _, fun _ h => Or.inl h, fun _ h => h, ?_, fun _ _ => rfl⟩
          intro r' hnr _
          have : r' ≠ rt := fun e => hnr ⟨t, ht, e ▸ hqt⟩
          simp [upd, this]
  | fresh x ifNone =>
    have hx : x ∈ D := hn x (by simp [Act.nodes])
    simp only [step] at hs
    split at hs
    · simp only [Except.ok.injEq] at hs; subst hs; exact Frame.refl _ _
    · simp only [Except.ok.injEq] at hs; subst hs
      refine ⟨rfl, fun _ _ => rfl, ?_, fun _ _ => rfl, fun _ _ => rfl, fun _ _ => rfl, Nat.le_refl _, Nat.le_refl _, ?_,
              fun _ h => h, ?_, fun _ _ => rfl⟩
      · intro z hz
        have : z ≠ x := fun e => hz (e ▸ hx)
        simp [upd, this]
      · rintro r' ⟨z, hz, hzr⟩
        by_cases e : z = x
        · subst e; simp [upd] at hzr; subst hzr; exact Or.inr ⟨z, hx, rfl⟩
        · simp [upd, e] at hzr; exact Or.inl ⟨z, hz, hzr⟩
      · intro r' _ hf
        have : r' ≠ freshRec x := hf x hx
        simp [upd, this]
  | setCod x y =>
    have hx : x ∈ D := hn x (by simp [Act.nodes])
    simp only [step, Except.ok.injEq] at hs; subst hs
    refine ⟨rfl, fun _ _ => rfl, fun _ _ => rfl, fun _ _ => rfl, ?_, fun _ _ => rfl, Nat.le_refl _, Nat.le_refl _,
            fun _ h => Or.inl h, fun _ h => h, fun _ _ _ => rfl, fun _ _ => rfl⟩
    intro z hz
    have : z ≠ x := fun e => hz (e ▸ hx)
    simp [upd, this]
  | setSubject x y =>
    have hx : x ∈ D := hn x (by simp [Act.nodes])
    simp only [step, Except.ok.injEq] at hs; subst hs
    refine ⟨rfl, fun _ _ => rfl, fun _ _ => rfl, fun _ _ => rfl, fun _ _ => rfl, ?_, Nat.le_refl _, Nat.le_refl _,
            fun _ h => Or.inl h, fun _ h => h, fun _ _ _ => rfl, fun _ _ => rfl⟩
    intro z hz
    have : z ≠ x := fun e => hz (e ▸ hx)
    simp [upd, this]
  | morphoError x =>
    have hx : x ∈ D := hn x (by simp [Act.nodes])
    simp only [step, Except.ok.injEq] at hs; subst hs
    refine ⟨rfl, ?_, fun _ _ => rfl, fun _ _ => rfl, fun _ _ => rfl, fun _ _ => rfl, Nat.le_refl _, Nat.le_refl _,
            fun _ h => Or.inl h, fun _ h => h, fun _ _ _ => rfl, fun _ _ => rfl⟩
    intro z hz
    have : z ≠ x := fun e => hz (e ▸ hx)
    simp [Heap.warn, upd, this]
  | guardHas o => simp only [step, Except.ok.injEq] at hs; subst hs; exact Frame.refl _ _
  | crash c => simp [step] at hs

theorem nbrs_congr (h h' : Heap) (x : Nat) (hk : (h'.node x).kids = (h.node x).kids)
    (ht : (h'.node x).term = (h.node x).term) (hp : (h'.node x).parent = (h.node x).parent)
    (hc : h'.cod x = h.cod x) (hs : h'.subject x = h.subject x) : nbrs h' x = nbrs h x := by
  simp [nbrs, Heap.kids, hk, ht, hp, hc, hs]

/-- one assignment keeps a closed set closed -/
theorem step_closed (D : List Nat) (s s' : Heap) (a : Act) (hn : ∀ y ∈ a.nodes, y ∈ D) (hs : step s a = .ok s')
    (cl : Closed s D) : Closed s' D := by
  have same : ∀ (t : Heap), t.n = s.n → t.node = s.node → t.cod = s.cod → t.subject = s.subject → Closed t D := by
    intro t hn' hnode hc hsb x hx
    obtain ⟨h1, h2⟩ := cl x hx
    refine ⟨by omega, ?_⟩
    rw [nbrs_congr s t x (by rw [hnode]) (by rw [hnode]) (by rw [hnode]) (by rw [hc]) (by rw [hsb])]
    exact h2
  cases a with
  | setPeng strict x y =>
    simp only [step] at hs
    cases hq : s.peng y with
    | none => rw [hq] at hs; cases strict <;> simp at hs; subst hs; exact cl
    | some r => rw [hq] at hs; simp only [Except.ok.injEq] at hs; subst hs; exact same _ rfl rfl rfl rfl
  | setTaux strict x y =>
    simp only [step] at hs
    cases hq : s.taux y with
    | none => rw [hq] at hs; cases strict <;> simp at hs; subst hs; exact cl
    | some r => rw [hq] at hs; simp only [Except.ok.injEq] at hs; subst hs; exact same _ rfl rfl rfl rfl
  | writeN strict y v =>
    simp only [step] at hs
    cases hq : s.peng y with
    | none => rw [hq] at hs; cases strict <;> simp at hs; subst hs; exact cl
    | some r => rw [hq] at hs; simp only [Except.ok.injEq] at hs; subst hs; exact same _ rfl rfl rfl rfl
  | copyG strict t y =>
    simp only [step] at hs
    cases hq : s.peng y with
    | none => rw [hq] at hs; cases strict <;> simp at hs; subst hs; exact cl
    | some r =>
      rw [hq] at hs; simp only at hs
      cases hg : (s.prec r).g with
      | none => rw [hg] at hs; simp at hs
      | some gv =>
        rw [hg] at hs; simp only at hs
        cases hqt : s.peng t with
        | none => rw [hqt] at hs; simp at hs
        | some rt => rw [hqt] at hs; simp only [Except.ok.injEq] at hs; subst hs; exact same _ rfl rfl rfl rfl
  | fresh x ifNone =>
    simp only [step] at hs
    split at hs
    · simp only [Except.ok.injEq] at hs; subst hs; exact cl
    · simp only [Except.ok.injEq] at hs; subst hs; exact same _ rfl rfl rfl rfl
  | setCod x y =>
    have hy : y ∈ D := hn y (by simp [Act.nodes])
    simp only [step, Except.ok.injEq] at hs; subst hs
    intro z hz
    obtain ⟨h1, h2⟩ := cl z hz
    refine ⟨h1, ?_⟩
    intro w hw
    by_cases e : z = x
    · subst e
      simp only [nbrs, Heap.kids, upd_same, Option.toList, List.mem_append] at hw h2 ⊢
      rcases hw with ((((hw | hw) | hw) | hw) | hw)
      · exact h2 w (Or.inl (Or.inl (Or.inl (Or.inl hw))))
      · exact h2 w (Or.inl (Or.inl (Or.inl (Or.inr hw))))
      · exact h2 w (Or.inl (Or.inl (Or.inr hw)))
      · simp at hw; subst hw; exact hy
      · exact h2 w (Or.inr hw)
    · apply h2
      have : nbrs { s with cod := upd s.cod x (some y) } z = nbrs s z := by
        simp [nbrs, Heap.kids, upd, e]
      rwa [this] at hw
  | setSubject x y =>
    simp only [step, Except.ok.injEq] at hs; subst hs
    intro z hz
    obtain ⟨h1, h2⟩ := cl z hz
    refine ⟨h1, ?_⟩
    intro w hw
    by_cases e : z = x
    · subst e
      simp only [nbrs, Heap.kids, upd_same, List.mem_append] at hw h2 ⊢
      rcases hw with (hw | hw)
      · exact h2 w (Or.inl hw)
      · cases y with
        | none => simp at hw
        | some y0 =>
          simp at hw; subst hw
          exact hn w (by simp [Act.nodes])
    · apply h2
      have : nbrs { s with subject := upd s.subject x (some y) } z = nbrs s z := by
        simp [nbrs, Heap.kids, upd, e]
      rwa [this] at hw
  | morphoError x =>
    simp only [step, Except.ok.injEq] at hs; subst hs
    intro z hz
    obtain ⟨h1, h2⟩ := cl z hz
    refine ⟨h1, ?_⟩
    have : nbrs (({ s with node := upd s.node x { s.node x with kind := .Q } } : Heap).warn) z = nbrs s z := by
      by_cases e : z = x
      · subst e; simp [nbrs, Heap.kids, Heap.warn, upd]
      · simp [nbrs, Heap.kids, Heap.warn, upd, e]
    rw [this]; exact h2
  | guardHas o => simp only [step, Except.ok.injEq] at hs; subst hs; exact cl
  | crash c => simp [step] at hs

/-- a run of assignments that only mention nodes of `D` writes inside `D` and keeps `D` closed -/
theorem exec_frame (D : List Nat) (acts : List Act) (s s' : Heap) (hn : ∀ a ∈ acts, ∀ y ∈ a.nodes, y ∈ D)
    (hs : exec s acts = .ok s') (cl : Closed s D) : Frame D s s' ∧ Closed s' D := by
  induction acts generalizing s with
  | nil => simp [exec] at hs; subst hs; exact ⟨Frame.refl _ _, cl⟩
  | cons a as ih =>
    simp only [exec] at hs
    split at hs
    · simp only [Except.ok.injEq] at hs; subst hs; exact ⟨Frame.refl _ _, cl⟩
    · cases hst : step s a with
      | error c => rw [hst] at hs; simp at hs
      | ok s1 =>
        rw [hst] at hs
        have f1 := step_frame D s s1 a (hn a List.mem_cons_self) hst
        have c1 := step_closed D s s1 a (hn a List.mem_cons_self) hst cl
        obtain ⟨f2, c2⟩ := ih s1 (fun b hb => hn b (List.mem_cons_of_mem _ hb)) hs c1
        exact ⟨f1.trans f2, c2⟩

end Pyrealb.Heap
