import Pyrealb.Lemmas.ClauseEnDepNF
/-! The loop of Dependent.py:336-352 (prepositional questions in the dependency notation) against `questionPPDep`. -/
namespace Pyrealb.ClauseEn
set_option linter.unusedSimpArgs false

theorem findPPDep_shift (i : Int) (l : List DNode) (k : Nat) :
    findPPDep i l k = (findPPDep i l 0).map (fun x => (x.1 + k, x.2)) := by
  induction l generalizing k with
  | nil => rfl
  | cons d r ih =>
    have h1 := ih (k + 1)
    have h0 := ih 1
    unfold findPPDep
    cases hd : d.head <;> simp only [hd]
    case pp prep a =>
      split
      · split
        · split
          · simp
          · rw [h1, h0]; cases findPPDep i r 0 <;> simp [Nat.add_comm, Nat.add_left_comm]
        · split
          · split
            · simp
            · rw [h1, h0]; cases findPPDep i r 0 <;> simp [Nat.add_comm, Nat.add_left_comm]
          · split
            · simp
            · rw [h1, h0]; cases findPPDep i r 0 <;> simp [Nat.add_comm, Nat.add_left_comm]
      · rw [h1, h0]; cases findPPDep i r 0 <;> simp [Nat.add_comm, Nat.add_left_comm]
    all_goals (rw [h1, h0]; cases findPPDep i r 0 <;> simp [Nat.add_comm, Nat.add_left_comm])

/-- prefix and dependents left by the loop -/
def dropPP (i : Int) (deps : List DNode) : Str × List DNode :=
  match findPPDep i deps 0 with
  | some (k, pre) => (pre, removeAt deps k)
  | none => (intPrefix i, deps)

theorem dropPP_skip (i : Int) (x : DNode) (r : List DNode) (hx : ∀ k, findPPDep i (x :: r) k = findPPDep i r (k + 1)) :
    dropPP i (x :: r) = ((dropPP i r).1, x :: (dropPP i r).2) := by
  unfold dropPP
  rw [hx 0, findPPDep_shift i r 1]
  cases findPPDep i r 0 with
  | none => rfl
  | some kp => obtain ⟨k, p⟩ := kp; simp [removeAt]

theorem skip_dSubj (i : Int) (a : ArgTok) (r : List DNode) (k : Nat) :
    findPPDep i (dSubj a :: r) k = findPPDep i r (k + 1) := by simp [findPPDep, dSubj]
theorem skip_dObj (i : Int) (a : ArgTok) (r : List DNode) (k : Nat) :
    findPPDep i (dObj a :: r) k = findPPDep i r (k + 1) := by simp [findPPDep, dObj]
theorem skip_dPre (i : Int) (t : Tok) (r : List DNode) (k : Nat) :
    findPPDep i (dPre t :: r) k = findPPDep i r (k + 1) := by simp [findPPDep, dPre]
theorem skip_dIt (i : Int) (r : List DNode) (k : Nat) :
    findPPDep i (dIt :: r) k = findPPDep i r (k + 1) := by simp [findPPDep, dIt]

theorem dropPP_words (i : Int) (ws : List Tok) : dropPP i (ws.map dPre) = (intPrefix i, ws.map dPre) := by
  unfold dropPP; rw [findPPDep_words]

theorem findPPDep_dPP (i : Int) (p : Str) (a : ArgTok) (r : List DNode) (k : Nat) :
    findPPDep i (dPP (p, a) :: r) k =
      if prepQualifies i p then some (k, if i == .whe || i == .whn then intPrefix i else p ++ s " " ++ whomOrWhat i)
      else findPPDep i r (k + 1) := by
  cases i <;> simp [findPPDep, dPP, prepQualifies]

/-- the loop over the prepositional dependents followed by anything it skips -/
theorem dropPP_pps (i : Int) (ql : List (Str × ArgTok)) (R : List DNode) (hR : dropPP i R = (intPrefix i, R)) :
    dropPP i (ql.map dPP ++ R) = ((questionPPDep i ql).1, (questionPPDep i ql).2.map dPP ++ R) := by
  induction ql with
  | nil => simpa [questionPPDep] using hR
  | cons pa r ih =>
    obtain ⟨p, a⟩ := pa
    by_cases hq : prepQualifies i p = true
    · simp only [List.map_cons, List.cons_append, questionPPDep, hq, if_true]
      unfold dropPP
      rw [findPPDep_dPP, if_pos hq]
      simp [removeAt]
    · simp only [List.map_cons, List.cons_append, questionPPDep, hq]
      rw [dropPP_skip i _ _ (fun k => by rw [findPPDep_dPP, if_neg hq]), ih]
      simp

theorem dropPP_plain (i : Int) (sj : ArgTok) (obj : Option ArgTok) (ql : List (Str × ArgTok)) (ws : List Tok) :
    dropPP i (dSubj sj :: (optL dObj obj ++ (ql.map dPP ++ ws.map dPre)))
      = ((questionPPDep i ql).1, dSubj sj :: (optL dObj obj ++ ((questionPPDep i ql).2.map dPP ++ ws.map dPre))) := by
  rw [dropPP_skip i _ _ (skip_dSubj i sj _)]
  cases obj with
  | none => simp only [optL, List.nil_append]; rw [dropPP_pps i ql _ (dropPP_words i ws)]
  | some o =>
    simp only [optL, List.cons_append, List.nil_append]
    rw [dropPP_skip i _ _ (skip_dObj i o _), dropPP_pps i ql _ (dropPP_words i ws)]

theorem dropPP_it (i : Int) (bl : List (Str × ArgTok)) (ws : List Tok) :
    dropPP i (dIt :: (bl.map dPP ++ ws.map dPre))
      = ((questionPPDep i bl).1, dIt :: ((questionPPDep i bl).2.map dPP ++ ws.map dPre)) := by
  rw [dropPP_skip i _ _ (skip_dIt i _), dropPP_pps i bl _ (dropPP_words i ws)]

end Pyrealb.ClauseEn

namespace Pyrealb.ClauseEn
set_option linter.unusedSimpArgs false

/-- a prepositional question on a state: the loop, then `move_object`, then the prefix -/
theorem processIntDep_ppq (ty : Typ) (i : Int) (hi : i.isPPq = true) (st : DState) :
    processIntDep ty i st =
      .ok { moveObjectDep { st with deps := (dropPP i st.deps).2 } with
            deps := ⟨.pre, .word (.q (dropPP i st.deps).1), false, false⟩ ::
                      (moveObjectDep { st with deps := (dropPP i st.deps).2 }).deps } := by
  have key : ∀ j : Int, (j = .woi ∨ j = .wai ∨ j = .whe ∨ j = .whn) → i = j →
      processIntDep ty i st =
      .ok { moveObjectDep { st with deps := (dropPP i st.deps).2 } with
            deps := ⟨.pre, .word (.q (dropPP i st.deps).1), false, false⟩ ::
                      (moveObjectDep { st with deps := (dropPP i st.deps).2 }).deps } := by
    intro j hj e
    subst e
    rcases hj with rfl | rfl | rfl | rfl <;>
    · simp only [processIntDep, Gen.ClauseEn.depHasPrepositionList, Bool.not_true, Bool.and_false, Bool.false_eq_true,
        if_false, dropPP]
      cases findPPDep _ st.deps 0 with
      | none => rfl
      | some kp => rfl
  cases i <;> simp [Int.isPPq] at hi
  · exact key .woi (Or.inl rfl) rfl
  · exact key .wai (Or.inr (Or.inl rfl)) rfl
  · exact key .whe (Or.inr (Or.inr (Or.inl rfl))) rfl
  · exact key .whn (Or.inr (Or.inr (Or.inr rfl))) rfl

end Pyrealb.ClauseEn

namespace Pyrealb.ClauseEn
set_option linter.unusedSimpArgs false

def hasQual (i : Int) (ql : List (Str × ArgTok)) : Bool := ql.any (fun pa => prepQualifies i pa.1)

theorem questionPPDep_append (i : Int) (l1 l2 : List (Str × ArgTok)) :
    questionPPDep i (l1 ++ l2) =
      if hasQual i l1 then ((questionPPDep i l1).1, (questionPPDep i l1).2 ++ l2)
      else ((questionPPDep i l2).1, l1 ++ (questionPPDep i l2).2) := by
  induction l1 with
  | nil => simp [hasQual]
  | cons pa r ih =>
    obtain ⟨p, a⟩ := pa
    by_cases hq : prepQualifies i p = true
    · simp [questionPPDep, hasQual, hq]
    · have hq' : prepQualifies i p = false := by simpa using hq
      simp only [List.cons_append, questionPPDep, hq', Bool.false_eq_true, if_false, ih, hasQual, List.any_cons,
        Bool.false_or]
      by_cases h : (r.any fun pa => prepQualifies i pa.fst) = true <;> simp [h]

theorem dropPP_pps_gen (i : Int) (ql : List (Str × ArgTok)) (R : List DNode) :
    dropPP i (ql.map dPP ++ R) =
      if hasQual i ql then ((questionPPDep i ql).1, (questionPPDep i ql).2.map dPP ++ R)
      else ((dropPP i R).1, ql.map dPP ++ (dropPP i R).2) := by
  induction ql with
  | nil => simp [hasQual]
  | cons pa r ih =>
    obtain ⟨p, a⟩ := pa
    by_cases hq : prepQualifies i p = true
    · simp only [List.map_cons, List.cons_append, questionPPDep, hq, if_true, hasQual, List.any_cons, Bool.true_or]
      unfold dropPP
      rw [findPPDep_dPP, if_pos hq]
      simp [removeAt]
    · have hq' : prepQualifies i p = false := by simpa using hq
      simp only [List.map_cons, List.cons_append, questionPPDep, hq', Bool.false_eq_true, if_false, hasQual,
        List.any_cons, Bool.false_or]
      rw [dropPP_skip i _ _ (fun k => by rw [findPPDep_dPP, if_neg hq]), ih]
      unfold hasQual
      by_cases h : (r.any fun pa => prepQualifies i pa.fst) = true <;> simp [h]

/-- the loop on an objectless passive: the dependents before and after `*pre*(it)` are one list for the question -/
theorem dropPP_dummy (i : Int) (pps bl : List (Str × ArgTok)) (ws : List Tok) :
    ∃ p1 b1, dropPP i (pps.map dPP ++ (dIt :: (bl.map dPP ++ ws.map dPre)))
        = ((questionPPDep i (pps ++ bl)).1, p1.map dPP ++ (dIt :: (b1.map dPP ++ ws.map dPre))) ∧
      p1 ++ b1 = (questionPPDep i (pps ++ bl)).2 := by
  rw [dropPP_pps_gen, questionPPDep_append]
  by_cases h : hasQual i pps = true
  · simp only [h, if_true]
    exact ⟨_, bl, rfl, rfl⟩
  · have h' : hasQual i pps = false := by simpa using h
    simp only [h', Bool.false_eq_true, if_false, dropPP_it]
    exact ⟨pps, _, rfl, rfl⟩

end Pyrealb.ClauseEn
