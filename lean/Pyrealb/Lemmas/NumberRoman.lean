import Pyrealb.Model.Number
import Pyrealb.Model.NumberEval
/-! Roman numerals: the finite fact, by kernel evaluation of the model of `roman` on every `n < 4000`. -/
namespace Pyrealb.Number
open Pyrealb Pyrealb.NumberSpec

/-- `roman n` is the canonical numeral and the value of that numeral is `n` -/
def romanOK (n : Nat) : Bool :=
  n == 0 || (roman n == .ok (romanCanon n) && romanValue (romanCanon n) == some n)

set_option maxRecDepth 100000 in
theorem roman_canon_tbl : (List.range 4000).all romanOK = true := by decide +kernel

theorem roman_canon_lt (n : Nat) (h1 : 1 ≤ n) (h2 : n < 4000) :
    roman n = .ok (romanCanon n) ∧ romanValue (romanCanon n) = some n := by
  have := List.all_eq_true.mp roman_canon_tbl n (List.mem_range.mpr h2)
  have h0 : (n == 0) = false := by simp; omega
  simpa [romanOK, h0] using this

end Pyrealb.Number
