import Pyrealb.Lemmas.ClauseEnDep
/-! When the dependency notation inverts: `decide` over every verb class, tense and flag combination. -/
namespace Pyrealb.ClauseEn

set_option maxRecDepth 100000 in
theorem dep_front_fin : ∀ v ∈ VLemma.all, ∀ t ∈ Tense.all, ∀ ty ∈ Typ.verbFlags3,
    (ty.questioned = true → (decide (2 ≤ (words v t ty).length) || headAlone (words v t ty)) = true) := by
  decide +kernel

/-- a questioned clause has an auxiliary in front of its verb, or its verb is a lone `be`/`have` -/
theorem dep_front_cond (v : VLemma) (t : Tense) (ty : Typ) (hq : ty.questioned = true) :
    2 ≤ (words v t ty).length ∨ headAlone (words v t ty) = true := by
  have := forall_of_norm
    (P := fun v t ty => ty.questioned = true → (decide (2 ≤ (words v t ty).length) || headAlone (words v t ty)) = true)
    (fun v t ty h => by rw [words_norm, questioned_norm] at h; exact h) dep_front_fin v t ty hq
  simpa using this

end Pyrealb.ClauseEn
