import Pyrealb.Lemmas.HeapCloneFrame
/-! # `cloneRegion`: the copy is isomorphic to the original region, disjoint from it, and has the same abstraction -/
namespace Pyrealb.Heap
open Pyrealb

theorem idxIn_lt {C : List Nat} {x : Nat} (hx : x ∈ C) : idxIn C x < C.length :=
  List.idxOf_lt_length_iff.mpr hx

theorem getElem?_idxIn {C : List Nat} {x : Nat} (hx : x ∈ C) : C[idxIn C x]? = some x := by
  have h := idxIn_lt hx
  rw [List.getElem?_eq_getElem h]
  simp [idxIn, List.getElem_idxOf]

theorem idxIn_inj {C : List Nat} {x y : Nat} (hx : x ∈ C) (hy : y ∈ C) (e : idxIn C x = idxIn C y) : x = y := by
  have a := getElem?_idxIn hx
  have b := getElem?_idxIn hy
  rw [e] at a
  rw [a] at b
  exact Option.some.inj b

theorem mem_recsOf {f : Nat → Option Nat} {C : List Nat} {r : Nat} : r ∈ recsOf f C ↔ ∃ x ∈ C, f x = some r := by
  simp [recsOf, List.mem_eraseDups, List.mem_filterMap]

section clone
variable (h : Heap) (C : List Nat)

theorem clone_inN_new {x : Nat} (hx : x ∈ C) :
    (if (cloneMaps h C).base ≤ (cloneMaps h C).ρ x then C[(cloneMaps h C).ρ x - (cloneMaps h C).base]? else none) = some x := by
  simp [CloneMaps.ρ, cloneMaps, getElem?_idxIn hx]

theorem clone_inN_old {i : Nat} (hi : i < h.n) :
    (if (cloneMaps h C).base ≤ i then C[i - (cloneMaps h C).base]? else none) = none := by
  have : ¬ (cloneMaps h C).base ≤ i := by simp [cloneMaps]; omega
  simp [this]

/-- the copy of a node of the region -/
theorem clone_new {x : Nat} (hx : x ∈ C) :
    let m := cloneMaps h C
    let h' := cloneRegion h C
    h'.node (m.ρ x) = mapNode m (h.node x) ∧ h'.peng (m.ρ x) = (h.peng x).map m.σ ∧
    h'.taux (m.ρ x) = (h.taux x).map m.τ ∧ h'.cod (m.ρ x) = (h.cod x).map m.ρ ∧
    h'.subject (m.ρ x) = (h.subject x).map (Option.map m.ρ) := by
  have e := clone_inN_new h C hx
  simp [cloneRegion, e]

/-- the original nodes are untouched -/
theorem clone_old {i : Nat} (hi : i < h.n) :
    let h' := cloneRegion h C
    h'.node i = h.node i ∧ h'.peng i = h.peng i ∧ h'.taux i = h.taux i ∧ h'.cod i = h.cod i ∧
    h'.subject i = h.subject i := by
  have e := clone_inN_old h C hi
  simp [cloneRegion, e]

/-- the records that existed (counter records below `nRec`, and every record created by a link run) are untouched -/
theorem clone_prec_old {r : Nat} (hr : r < ownRec h.nRec ∨ r % 2 = 1) : (cloneRegion h C).prec r = h.prec r := by
  have : ¬ (r % 2 = 0 ∧ (cloneMaps h C).rbase ≤ r / 2) := by
    simp only [cloneMaps, ownRec] at hr ⊢
    omega
  simp [cloneRegion, this]

theorem clone_trec_old {r : Nat} (hr : r < h.nTRec) : (cloneRegion h C).trec r = h.trec r := by
  have : ¬ (cloneMaps h C).tbase ≤ r := by simp [cloneMaps]; omega
  simp [cloneRegion, this]

theorem clone_prec_new {r : Nat} (hr : r ∈ (cloneMaps h C).R) :
    (cloneRegion h C).prec ((cloneMaps h C).σ r) = h.prec r := by
  have e1 : (cloneMaps h C).σ r % 2 = 0 := by simp [CloneMaps.σ, ownRec]
  have e2 : (cloneMaps h C).σ r / 2 = (cloneMaps h C).rbase + idxIn (cloneMaps h C).R r := by
    simp [CloneMaps.σ, ownRec]
  simp [cloneRegion, e1, e2, getElem?_idxIn hr]

theorem clone_trec_new {r : Nat} (hr : r ∈ (cloneMaps h C).T) :
    (cloneRegion h C).trec ((cloneMaps h C).τ r) = h.trec r := by
  simp [cloneRegion, CloneMaps.τ, getElem?_idxIn hr]

theorem rho_inj {x y : Nat} (hx : x ∈ C) (hy : y ∈ C) (e : (cloneMaps h C).ρ x = (cloneMaps h C).ρ y) : x = y := by
  exact idxIn_inj hx hy (Nat.add_left_cancel e)

theorem sigma_inj {r s : Nat} (hr : r ∈ (cloneMaps h C).R) (hs : s ∈ (cloneMaps h C).R)
    (e : (cloneMaps h C).σ r = (cloneMaps h C).σ s) : r = s := by
  simp only [CloneMaps.σ, ownRec] at e
  exact idxIn_inj hr hs (by omega)

theorem tau_inj {r s : Nat} (hr : r ∈ (cloneMaps h C).T) (hs : s ∈ (cloneMaps h C).T)
    (e : (cloneMaps h C).τ r = (cloneMaps h C).τ s) : r = s := by
  exact idxIn_inj hr hs (Nat.add_left_cancel e)

theorem rho_fresh (x : Nat) : h.n ≤ (cloneMaps h C).ρ x := by simp [CloneMaps.ρ, cloneMaps]
theorem sigma_fresh (r : Nat) : ownRec h.nRec ≤ (cloneMaps h C).σ r ∧ (cloneMaps h C).σ r % 2 = 0 := by
  simp only [CloneMaps.σ, cloneMaps, ownRec]; omega
theorem tau_fresh (r : Nat) : h.nTRec ≤ (cloneMaps h C).τ r := by simp [CloneMaps.τ, cloneMaps]

theorem rho_lt {x : Nat} (hx : x ∈ C) : (cloneMaps h C).ρ x < (cloneRegion h C).n := by
  have := idxIn_lt hx
  simp only [CloneMaps.ρ, cloneMaps, cloneRegion]
  omega

/-- the neighbours of a copy are the copies of the neighbours -/
theorem nbrs_clone {x : Nat} (hx : x ∈ C) :
    nbrs (cloneRegion h C) ((cloneMaps h C).ρ x) = (nbrs h x).map (cloneMaps h C).ρ := by
  obtain ⟨hn, _, _, hc, hs⟩ := clone_new h C hx
  simp only [nbrs, Heap.kids, hn, hc, hs, mapNode, List.map_append]
  congr 1
  · congr 1
    · congr 1
      · congr 1
        cases (h.node x).term <;> rfl
      · cases (h.node x).parent <;> rfl
    · cases h.cod x <;> rfl
  · cases hsx : h.subject x with
    | none => rfl
    | some o => cases o <;> rfl

end clone

/-! ### the abstraction of a region: everything relative to the region itself -/

/-- position in `C` of the first node that shares the record `r` -/
def firstWith (f : Nat → Option Nat) (C : List Nat) (r : Nat) : Nat := C.findIdx (fun y => f y == some r)

/-- the abstraction of one node of the region `C`: its own fields, its references as positions in `C`, the class of its
    records in the partition of `C` by shared record (numbered by first occurrence), and the record contents -/
structure AbsNode where
  nd : Node
  cod : Option Nat
  subject : Option (Option Nat)
  pc : Option Nat
  prec : Option PRec
  tc : Option Nat
  trec : Option TRec

def absNode (h : Heap) (C : List Nat) (x : Nat) : AbsNode :=
  { nd := { h.node x with kids := (h.node x).kids.map (idxIn C), term := (h.node x).term.map (idxIn C),
                          parent := (h.node x).parent.map (idxIn C) }
    cod := (h.cod x).map (idxIn C)
    subject := (h.subject x).map (Option.map (idxIn C))
    pc := (h.peng x).map (firstWith h.peng C)
    prec := (h.peng x).map h.prec
    tc := (h.taux x).map (firstWith h.taux C)
    trec := (h.taux x).map h.trec }

/-- the abstraction of the region: tree, own props, partition by shared record, record contents -/
def absRegion (h : Heap) (C : List Nat) : List AbsNode := C.map (absNode h C)

theorem idxIn_map {C : List Nat} {f : Nat → Nat} (inj : ∀ a ∈ C, ∀ b ∈ C, f a = f b → a = b) :
    ∀ {y : Nat}, y ∈ C → idxIn (C.map f) (f y) = idxIn C y := by
  intro y hy
  unfold idxIn
  induction C with
  | nil => simp at hy
  | cons a t ih =>
    simp only [List.map_cons, List.idxOf_cons]
    by_cases e : a = y
    · subst e; simp
    · have e2 : f a ≠ f y := fun q => e (inj a List.mem_cons_self y hy q)
      have hyt : y ∈ t := by
        rcases List.mem_cons.mp hy with h | h
        · exact absurd h.symm e
        · exact h
      have := ih (fun a ha b hb => inj a (List.mem_cons_of_mem _ ha) b (List.mem_cons_of_mem _ hb)) hyt
      have b1 : (f a == f y) = false := by simpa using e2
      have b2 : (a == y) = false := by simpa using e
      simp [b1, b2, this]

theorem findIdx_map {L : List Nat} {f : Nat → Nat} {p p' : Nat → Bool} (hp : ∀ y ∈ L, p' (f y) = p y) :
    (L.map f).findIdx p' = L.findIdx p := by
  induction L with
  | nil => rfl
  | cons a t ih =>
    simp only [List.map_cons, List.findIdx_cons, hp a List.mem_cons_self]
    rw [ih (fun y hy => hp y (List.mem_cons_of_mem _ hy))]

/-- the copy of a closed region has the abstraction of the region -/
theorem absNode_clone (h : Heap) (C : List Nat) (cl : Closed h C) {x : Nat} (hx : x ∈ C) :
    absNode (cloneRegion h C) (C.map (cloneMaps h C).ρ) ((cloneMaps h C).ρ x) = absNode h C x := by
  obtain ⟨hn, hp, ht, hc, hs⟩ := clone_new h C hx
  have inj : ∀ a ∈ C, ∀ b ∈ C, (cloneMaps h C).ρ a = (cloneMaps h C).ρ b → a = b := fun a ha b hb => rho_inj h C ha hb
  have hnb := (cl x hx).2
  have rel : ∀ y ∈ nbrs h x, idxIn (C.map (cloneMaps h C).ρ) ((cloneMaps h C).ρ y) = idxIn C y :=
    fun y hy => idxIn_map inj (hnb y hy)
  -- partition classes
  have hpc : ∀ r, h.peng x = some r →
      firstWith (cloneRegion h C).peng (C.map (cloneMaps h C).ρ) ((cloneMaps h C).σ r) = firstWith h.peng C r := by
    intro r hr
    apply findIdx_map
    intro y hy
    rw [(clone_new h C hy).2.1]
    cases hq : h.peng y with
    | none => simp
    | some s =>
      simp only [Option.map_some]
      have hrR : r ∈ (cloneMaps h C).R := mem_recsOf.mpr ⟨x, hx, hr⟩
      have hsR : s ∈ (cloneMaps h C).R := mem_recsOf.mpr ⟨y, hy, hq⟩
      by_cases e : s = r
      · subst e; simp
      · have : (cloneMaps h C).σ s ≠ (cloneMaps h C).σ r := fun q => e (sigma_inj h C hsR hrR q)
        have b1 : ((cloneMaps h C).σ s == (cloneMaps h C).σ r) = false := by simpa using this
        have b2 : (s == r) = false := by simpa using e
        simp [b1, b2]
  have htc : ∀ r, h.taux x = some r →
      firstWith (cloneRegion h C).taux (C.map (cloneMaps h C).ρ) ((cloneMaps h C).τ r) = firstWith h.taux C r := by
    intro r hr
    apply findIdx_map
    intro y hy
    rw [(clone_new h C hy).2.2.1]
    cases hq : h.taux y with
    | none => simp
    | some s =>
      simp only [Option.map_some]
      have hrR : r ∈ (cloneMaps h C).T := mem_recsOf.mpr ⟨x, hx, hr⟩
      have hsR : s ∈ (cloneMaps h C).T := mem_recsOf.mpr ⟨y, hy, hq⟩
      by_cases e : s = r
      · subst e; simp
      · have : (cloneMaps h C).τ s ≠ (cloneMaps h C).τ r := fun q => e (tau_inj h C hsR hrR q)
        have b1 : ((cloneMaps h C).τ s == (cloneMaps h C).τ r) = false := by simpa using this
        have b2 : (s == r) = false := by simpa using e
        simp [b1, b2]
  unfold absNode
  rw [hn, hp, ht, hc, hs]
  have ek : ((mapNode (cloneMaps h C) (h.node x)).kids.map (idxIn (C.map (cloneMaps h C).ρ))) = (h.node x).kids.map (idxIn C) := by
    simp only [mapNode, List.map_map]
    apply List.map_congr_left
    intro y hy
    exact rel y (by simp [nbrs, Heap.kids, hy])
  have et : (mapNode (cloneMaps h C) (h.node x)).term.map (idxIn (C.map (cloneMaps h C).ρ)) = (h.node x).term.map (idxIn C) := by
    simp only [mapNode]
    cases hterm : (h.node x).term with
    | none => rfl
    | some y => simp only [Option.map_some]; rw [rel y (by simp [nbrs, hterm])]
  have epar : (mapNode (cloneMaps h C) (h.node x)).parent.map (idxIn (C.map (cloneMaps h C).ρ)) = (h.node x).parent.map (idxIn C) := by
    simp only [mapNode]
    cases hpar : (h.node x).parent with
    | none => rfl
    | some y => simp only [Option.map_some]; rw [rel y (by simp [nbrs, hpar])]
  have ecod : ((h.cod x).map (cloneMaps h C).ρ).map (idxIn (C.map (cloneMaps h C).ρ)) = (h.cod x).map (idxIn C) := by
    cases hcod : h.cod x with
    | none => rfl
    | some y => simp only [Option.map_some]; rw [rel y (by simp [nbrs, hcod])]
  have esub : ((h.subject x).map (Option.map (cloneMaps h C).ρ)).map (Option.map (idxIn (C.map (cloneMaps h C).ρ))) =
      (h.subject x).map (Option.map (idxIn C)) := by
    cases hsub : h.subject x with
    | none => rfl
    | some o =>
      cases o with
      | none => rfl
      | some y => simp only [Option.map_some]; rw [rel y (by simp [nbrs, hsub])]
  have epc : ((h.peng x).map (cloneMaps h C).σ).map (firstWith (cloneRegion h C).peng (C.map (cloneMaps h C).ρ)) =
      (h.peng x).map (firstWith h.peng C) := by
    cases hq : h.peng x with
    | none => rfl
    | some r => simp only [Option.map_some]; rw [hpc r hq]
  have eprec : ((h.peng x).map (cloneMaps h C).σ).map (cloneRegion h C).prec = (h.peng x).map h.prec := by
    cases hq : h.peng x with
    | none => rfl
    | some r => simp only [Option.map_some]; rw [clone_prec_new h C (mem_recsOf.mpr ⟨x, hx, hq⟩)]
  have etc : ((h.taux x).map (cloneMaps h C).τ).map (firstWith (cloneRegion h C).taux (C.map (cloneMaps h C).ρ)) =
      (h.taux x).map (firstWith h.taux C) := by
    cases hq : h.taux x with
    | none => rfl
    | some r => simp only [Option.map_some]; rw [htc r hq]
  have etrec : ((h.taux x).map (cloneMaps h C).τ).map (cloneRegion h C).trec = (h.taux x).map h.trec := by
    cases hq : h.taux x with
    | none => rfl
    | some r => simp only [Option.map_some]; rw [clone_trec_new h C (mem_recsOf.mpr ⟨x, hx, hq⟩)]
  rw [ek, et, epar, ecod, esub, epc, eprec, etc, etrec]
  rfl

end Pyrealb.Heap
