import Pyrealb.Lemmas.ClauseFrPlaceLemmas
/-! Rank facts about the generated clitic tables and their consequences for `sortPros` (true whether or not the
    sort key of `doPronounPlacement` looks a string up, i.e. before and after the repair of the clitic sort). -/
namespace Pyrealb.ClauseFr
open Pyrealb
open Pyrealb.Gen.ClauseFr

theorem lookup_getD_ge (m : Nat) (k : Str) (l : List (Str × Nat)) (h : ∀ p ∈ l, m ≤ p.2) (hm : m ≤ 100) :
    m ≤ (lookup k l).getD 100 := by
  induction l with
  | nil => simpa [lookup] using hm
  | cons p r ih =>
    obtain ⟨k', v⟩ := p
    unfold lookup
    split
    · simpa using h (k', v) List.mem_cons_self
    · exact ih (fun q hq => h q (List.mem_cons_of_mem _ hq))

/-- the table has an entry for `ne` and no entry ranks below it -/
def NeMinimal (tb : CTable) : Prop :=
  ∃ m, lookup ne tb.ranks = some m ∧ m ≤ 100 ∧ ∀ p ∈ tb.ranks, m ≤ p.2

instance (tb : CTable) : Decidable (∃ m, lookup ne tb.ranks = some m ∧ m ≤ 100 ∧ ∀ p ∈ tb.ranks, m ≤ p.2) :=
  match h : lookup ne tb.ranks with
  | some m => if h2 : m ≤ 100 ∧ ∀ p ∈ tb.ranks, m ≤ p.2 then isTrue ⟨m, rfl, h2.1, h2.2⟩
              else isFalse (fun ⟨m', hm', h3⟩ => by cases hm'; exact h2 h3)
  | none => isFalse (fun ⟨m', hm', _⟩ => by cases hm')

/-- **table fact** (re-proved against the current NonTerminalFr.py): in the three tables used with a negation `ne`
    has the lowest rank -/
theorem neMinimal_tbl : NeMinimal .std ∧ NeMinimal .ipNeg ∧ NeMinimal .inf := by
  unfold NeMinimal; decide

theorem rankOf_ne_le (tb : CTable) (h : NeMinimal tb) (c : Tok) : rankOf tb (.adv ne) ≤ rankOf tb c := by
  obtain ⟨m, hm, h100, hall⟩ := h
  have h1 : rankOf tb (.adv ne) = m := by simp [rankOf, Tok.form, hm]
  rw [h1]
  unfold rankOf
  exact lookup_getD_ge m _ _ hall h100

theorem sortBy_cons_min {α} (k : α → Nat) (a : α) (l : List α) (h : ∀ b ∈ l, k a ≤ k b) :
    sortBy k (a :: l) = a :: sortBy k l := by
  show insertBy k a (sortBy k l) = a :: sortBy k l
  exact insertBy_of_le k a _ (fun b hb => h b ((sortBy_perm k l).subset hb))

/-- `ne` stays first through `pros.sort(key=…)` -/
theorem sortPros_ne_cons (tb : CTable) (h : NeMinimal tb) (l : List Tok) :
    sortPros tb (.adv ne :: l) = .adv ne :: sortPros tb l := by
  unfold sortPros
  split
  · exact sortBy_cons_min _ _ _ (fun b _ => rankOf_ne_le tb h b)
  · rfl

/-- an element that ranks before all the others stays first (trivially when the sort is the identity) -/
theorem sortPros_cons_min (tb : CTable) (a : Tok) (l : List Tok)
    (h : sortKeyOnString = true → ∀ b ∈ l, rankOf tb a ≤ rankOf tb b) :
    sortPros tb (a :: l) = a :: sortPros tb l := by
  unfold sortPros
  split
  · rename_i hk
    exact sortBy_cons_min _ _ _ (h hk)
  · rfl

theorem sortPros_perm (tb : CTable) (l : List Tok) : (sortPros tb l).Perm l := by
  unfold sortPros
  split
  · exact sortBy_perm _ _
  · exact List.Perm.refl _

theorem sortPros_mem (tb : CTable) (l : List Tok) (c : Tok) : c ∈ sortPros tb l ↔ c ∈ l :=
  (sortPros_perm tb l).mem_iff

theorem tableFor_neg (x : VT) (w : Str) (h : x.neg2 = some w) : NeMinimal (tableFor x) := by
  unfold tableFor
  by_cases h1 : x.t = .ip
  · simp [h1, h, neMinimal_tbl.2.1]
  · by_cases h2 : x.t = .b
    · simp [h1, h2, neMinimal_tbl.2.2]
    · simp [h1, h2, neMinimal_tbl.1]

theorem tableFor_neg_ne_ipPos (x : VT) (w : Str) (h : x.neg2 = some w) : tableFor x ≠ .ipPos := by
  unfold tableFor
  by_cases h1 : x.t = .ip <;> by_cases h2 : x.t = .b <;> simp [h1, h2, h]

end Pyrealb.ClauseFr
