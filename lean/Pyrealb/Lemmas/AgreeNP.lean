import Pyrealb.Lemmas.AgreeExec
import Pyrealb.Model.AgreeSpec
/-! # The NP branch of `linkProperties` establishes the declarative agreement class (`npDeps`) -/
namespace Pyrealb.Agree
open Pyrealb Pyrealb.Heap

/-! ### partial plans -/

theorem Plan.cat_cons (q : Plan) (ps : List Plan) :
    Plan.cat (q :: ps) = (match q, Plan.cat ps with | some a, some c => some (a ++ c) | _, _ => none) := rfl

theorem Plan.cat_eq_some : ∀ (ps : List Plan) (acts : List Act), Plan.cat ps = some acts →
    acts = ps.flatMap (fun q => q.getD []) ∧ ∀ q ∈ ps, ∃ l, q = some l := by
  intro ps
  induction ps with
  | nil => intro acts hc; simp [Plan.cat] at hc; subst hc; simp
  | cons q ps ih =>
    intro acts hc
    rw [Plan.cat_cons] at hc
    cases q with
    | none => simp at hc
    | some a =>
      cases hps : Plan.cat ps with
      | none => rw [hps] at hc; simp at hc
      | some c =>
        rw [hps] at hc
        simp only [Option.some.injEq] at hc
        obtain ⟨e1, e2⟩ := ih c hps
        subst hc
        constructor
        · simp [List.flatMap_cons, ← e1]
        · intro q hq
          rcases List.mem_cons.mp hq with rfl | hq
          · exact ⟨a, rfl⟩
          · exact e2 q hq

/-- star-shaped and not a write of the number -/
def StarP (c : Nat) (a : Act) : Prop := Star c a ∧ nWrite a = none

/-! ### `linkPengWithSubject`, `linkAttributes` -/

theorem lpws_star (h : Heap) (self : Nat) (ph t : Kind) (subj dyn : Nat) :
    ∀ a ∈ (linkPengWithSubject h self ph t subj dyn).1, StarP dyn a := by
  intro a ha
  unfold linkPengWithSubject at ha
  split at ha
  · simp at ha
  · split at ha
    · split at ha
      · simp only [List.mem_cons, List.not_mem_nil, or_false] at ha
        rcases ha with rfl | rfl <;> simp [StarP, Star, nWrite]
      · simp only [List.drop_succ_cons, List.drop_zero, List.mem_cons, List.not_mem_nil, or_false] at ha
        subst ha; simp [StarP, Star, nWrite]
    · split at ha
      · simp only [List.mem_cons, List.not_mem_nil, or_false] at ha
        subst ha; simp [StarP, Star, nWrite]
      · simp at ha

theorem lpws_targets (h : Heap) (self : Nat) (ph t : Kind) (subj dyn : Nat) :
    pengTargets (linkPengWithSubject h self ph t subj dyn).1 = pwsTargets h self ph t subj := by
  unfold linkPengWithSubject pwsTargets pwsFind isGenPro
  split
  · simp [pengTargets]
  · cases h1 : h.getFromPath self [([ph], false), ([t], false)] with
    | some pt =>
      simp only []
      cases h2 : h.parentOf pt <;> simp [pengTargets, pengTarget]
    | none =>
      simp only []
      cases h3 : h.getFromPath self [([t], false)] <;> simp [pengTargets, pengTarget]

theorem lpws_snd (h : Heap) (self : Nat) (ph t : Kind) (subj dyn : Nat) :
    (linkPengWithSubject h self ph t subj dyn).2 = (pwsFind h self ph t subj).map (·.2) := by
  unfold linkPengWithSubject pwsFind isGenPro
  split
  · simp
  · cases h1 : h.getFromPath self [([ph], false), ([t], false)] with
    | some pt =>
      simp only []
      cases h2 : h.parentOf pt <;> simp
    | none =>
      simp only []
      cases h3 : h.getFromPath self [([t], false)] <;> simp

theorem lpws_fst_of_none (h : Heap) (self : Nat) (ph t : Kind) (subj dyn : Nat)
    (hn : pwsFind h self ph t subj = none) : (linkPengWithSubject h self ph t subj dyn).1 = [] := by
  unfold pwsFind isGenPro at hn
  unfold linkPengWithSubject
  split
  · rfl
  · next hg =>
    rw [if_neg hg] at hn
    cases h1 : h.getFromPath self [([ph], false), ([t], false)] with
    | some pt =>
      rw [h1] at hn
      simp only [] at hn
      cases h2 : h.parentOf pt <;> simp [h2] at hn
    | none =>
      rw [h1] at hn
      simp only [] at hn ⊢
      cases h3 : h.getFromPath self [([t], false)] with
      | some pt => simp [h3] at hn
      | none => rfl

theorem pengTargets_append (a b : List Act) : pengTargets (a ++ b) = pengTargets a ++ pengTargets b := by
  simp [pengTargets, List.filterMap_append]

theorem pengTargets_flatMap {α} (l : List α) (f : α → List Act) :
    pengTargets (l.flatMap f) = l.flatMap (fun x => pengTargets (f x)) := by
  simp [pengTargets, List.filterMap_flatMap]

theorem nWrites_append (a b : List Act) : nWrites (a ++ b) = nWrites a ++ nWrites b := by
  simp [nWrites, List.filterMap_append]

theorem nWrites_flatMap {α} (l : List α) (f : α → List Act) :
    nWrites (l.flatMap f) = l.flatMap (fun x => nWrites (f x)) := by
  simp [nWrites, List.filterMap_flatMap]

theorem linkAttributes_star (h : Heap) (lang : Lang) (v : Nat) (vpcp : Option Nat) (subj dyn : Nat) :
    ∀ a ∈ linkAttributes h lang v vpcp subj dyn, StarP dyn a := by
  intro a ha
  unfold linkAttributes at ha
  cases lang with
  | en => simp at ha
  | fr =>
    simp only at ha
    split at ha
    · cases vpcp with
      | some cp =>
        simp only [List.mem_flatMap] at ha
        obtain ⟨e, _, he⟩ := ha
        split at he
        · simp only [List.mem_cons, List.not_mem_nil, or_false] at he; subst he; simp [StarP, Star, nWrite]
        · split at he
          · simp only [List.mem_cons, List.not_mem_nil, or_false] at he; subst he; simp [StarP, Star, nWrite]
          · split at he
            · exact lpws_star _ _ _ _ _ _ a he
            · split at he
              · split at he
                · split at he
                  · simp only [List.mem_cons, List.not_mem_nil, or_false] at he; subst he; simp [StarP, Star, nWrite]
                  · simp at he
                · simp at he
              · simp at he
      | none =>
        simp only at ha
        split at ha
        · simp only [List.mem_cons, List.not_mem_nil, or_false] at ha; subst ha; simp [StarP, Star, nWrite]
        · next vp _ =>
          have hs := lpws_star h vp .AP .A subj dyn
          generalize linkPengWithSubject h vp .AP .A subj dyn = res at ha hs
          obtain ⟨acts, attrib⟩ := res
          simp only at ha hs
          split at ha
          · exact hs a ha
          · split at ha
            · rcases List.mem_append.mp ha with ha | ha
              · exact hs a ha
              · simp only [List.mem_cons, List.not_mem_nil, or_false] at ha; subst ha; simp [StarP, Star, nWrite]
            · rcases List.mem_append.mp ha with ha | ha
              · exact hs a ha
              · simp only [List.mem_flatMap] at ha
                obtain ⟨e, _, he⟩ := ha
                split at he
                · simp only [List.mem_cons, List.not_mem_nil, or_false] at he; subst he; simp [StarP, Star, nWrite]
                · simp at he
    · simp at ha

theorem linkAttributes_targets (h : Heap) (lang : Lang) (v : Nat) (vpcp : Option Nat) (subj dyn : Nat) :
    ∀ d ∈ attrDeps h lang v vpcp subj, d ∈ pengTargets (linkAttributes h lang v vpcp subj dyn) := by
  intro d hd
  unfold attrDeps at hd
  unfold linkAttributes
  cases lang with
  | en => simp at hd
  | fr =>
    simp only at hd ⊢
    split at hd
    · next hcop =>
      simp only [hcop, if_true]
      cases vpcp with
      | some cp =>
        simp only [List.mem_flatMap] at hd
        obtain ⟨e, hmem, he⟩ := hd
        simp only [pengTargets_flatMap, List.mem_flatMap]
        refine ⟨e, hmem, ?_⟩
        split at he
        · next hA => simp only [List.mem_cons, List.not_mem_nil, or_false] at he; subst he; simp [hA, pengTargets, pengTarget]
        · next hA =>
          simp only [hA, if_false]
          split at he
          · next hP => simp only [List.mem_cons, List.not_mem_nil, or_false] at he; subst he; simp [hP, pengTargets, pengTarget]
          · next hP =>
            simp only [hP]
            split at he
            · next hAP => simp only [Bool.false_eq_true, if_false]; rw [if_pos hAP, lpws_targets]; exact he
            · next hAP =>
              simp only [Bool.false_eq_true, if_false]
              rw [if_neg hAP]
              split at he
              · next hVP =>
                rw [if_pos hVP]
                split at he
                · next w hw =>
                  simp only [hw]
                  split at he
                  · next hpp => simp only [List.mem_cons, List.not_mem_nil, or_false] at he; subst he; simp [hpp, pengTargets, pengTarget]
                  · simp at he
                · simp at he
              · simp at he
      | none =>
        simp only at hd ⊢
        split at hd
        · simp at hd
        · next vp hvp =>
          simp only [hvp]
          have ht := lpws_targets h vp .AP .A subj dyn
          have hs := lpws_snd h vp .AP .A subj dyn
          have hn := lpws_fst_of_none h vp .AP .A subj dyn
          generalize linkPengWithSubject h vp .AP .A subj dyn = res at ht hs hn ⊢
          obtain ⟨acts, attrib⟩ := res
          simp only at ht hs hn ⊢
          split at hd
          · next l pt hf =>
            rw [hf] at hs
            simp only [Option.map_some] at hs
            subst hs
            simp only
            rw [ht]
            simp only [pwsTargets, hf]
            exact hd
          · next hf =>
            rw [hf] at hs
            simp only [Option.map_none] at hs
            subst hs
            simp only
            have hacts := hn hf
            subst hacts
            split at hd
            · simp at hd
            · next i hi =>
              simp only [hi, List.nil_append, pengTargets_flatMap, List.mem_flatMap]
              obtain ⟨hm, hp⟩ := List.mem_filter.mp hd
              exact ⟨d, hm, by simp [hp, pengTargets, pengTarget]⟩
    · simp at hd

/-! ### `link_DAV_properties` -/

theorem linkDAV_star (h : Heap) (lang : Lang) (p e : Nat) (l : List Act) (hl : linkDAV h lang p e = some l) :
    ∀ a ∈ l, Star p a := by
  intro a ha
  unfold linkDAV at hl
  cases lang with
  | en =>
    simp only at hl
    split at hl
    · cases hl; simp only [List.mem_cons, List.not_mem_nil, or_false] at ha; subst ha; simp [Star]
    · split at hl
      · cases hl; simp only [List.mem_cons, List.not_mem_nil, or_false] at ha; subst ha; simp [Star]
      · cases hl; simp at ha
  | fr =>
    simp only at hl
    split at hl
    · cases hl; simp only [List.mem_cons, List.not_mem_nil, or_false] at ha; subst ha; simp [Star]
    · split at hl
      · cases hl; simp only [List.mem_cons, List.not_mem_nil, or_false] at ha; subst ha; simp [Star]
      · split at hl
        · cases hl; simp only [List.mem_cons, List.not_mem_nil, or_false] at ha; subst ha; simp [Star]
        · cases hl; simp at ha

theorem linkDAV_targets (h : Heap) (lang : Lang) (p e : Nat) (l : List Act) (hl : linkDAV h lang p e = some l)
    (hd : davAgrees h lang e = true) : e ∈ pengTargets l := by
  unfold linkDAV at hl
  unfold davAgrees at hd
  cases lang with
  | en =>
    simp only at hl hd
    split at hl
    · next hno =>
      simp only [Bool.and_eq_true, decide_eq_true_eq] at hno
      simp [hno.1, hno.2] at hd
    · split at hl
      · cases hl; simp [pengTargets, pengTarget]
      · next hn1 hn2 =>
        exfalso
        simp only [Bool.or_eq_true, Bool.and_eq_true, decide_eq_true_eq, Bool.not_eq_true', not_or, not_and,
          Bool.not_eq_false] at hn2 hd
        rcases hd with hA | ⟨⟨hD, _⟩, hown⟩
        · exact hn2.1 hA
        · have := hn2.2 hD; rw [this] at hown; cases hown
  | fr =>
    simp only at hl hd
    split at hl
    · next hq =>
      exfalso
      simp only [Bool.and_eq_true, decide_eq_true_eq] at hq
      simp [hq.1, hq.2, isPP] at hd
    · split at hl
      · cases hl; simp [pengTargets, pengTarget]
      · split at hl
        · cases hl; simp [pengTargets, pengTarget]
        · next hn1 hn2 hn3 =>
          exfalso
          simp only [Bool.or_eq_true, Bool.and_eq_true, decide_eq_true_eq, not_or] at hn2 hd
          rcases hd with (⟨hA, _⟩ | hD) | hP
          · exact hn2.1 hA
          · exact hn2.2 hD
          · exact hn3 hP

/-- the number written by `link_DAV_properties(e)`: plural for English `no` / French `quelques` -/
abbrev davNo (h : Heap) (lang : Lang) (e : Nat) : Bool := pluralMaker h lang e

theorem linkDAV_nWrites (h : Heap) (lang : Lang) (p e : Nat) (l : List Act) (hl : linkDAV h lang p e = some l) :
    nWrites l = if davNo h lang e then [.s ['p']] else [] := by
  unfold linkDAV at hl
  unfold davNo pluralMaker
  cases lang with
  | en =>
    simp only at hl ⊢
    split at hl
    · next hno => cases hl; simp [nWrites, nWrite, hno]
    · next hno =>
      rw [if_neg hno]
      split at hl <;> (cases hl; simp [nWrites, nWrite])
  | fr =>
    simp only at hl ⊢
    split at hl
    · next hq => cases hl; simp [nWrites, nWrite, hq]
    · next hq =>
      rw [if_neg hq]
      split at hl
      · cases hl; simp [nWrites, nWrite]
      · split at hl <;> (cases hl; simp [nWrites, nWrite])

/-! ### the children of the NP -/

/-- what `linkProperties` does for the child `e` at index `i` of the noun phrase `p` (head `hd` at index `hi`) -/
def childPlan (h : Heap) (p hi hd : Nat) (ei : Nat × Nat) : Plan :=
  let lang := (h.node p).lang
  match ei with
  | (e, i) =>
    if i = hi then some []
    else if h.kind e = .NO && i < hi then
      some [.writeN true p (h.gramNumber e), .copyG true e p]
    else if h.isA e [.D, .A, .V] then
      Plan.cat [linkDAV h lang p e,
        some (if h.kind e = .D && lang = .en && h.lemmaOf e = s "a" && h.getProp hd cntKey == .s (s "no")
              then [.morphoError e] else [])]
    else if h.kind e = .CP then
      some ([.setPeng true e p] ++
        (h.kids e).flatMap (fun el => if h.isA el [.A, .NO] then [.setPeng true el p] else []))
    else if h.isA e [.AP, .AdvP] then
      Plan.cat ((h.kids e).map (fun el => linkDAV h lang p el))
    else some []

/-- the part of the NP plan that concerns the relative clause -/
def relActs (h : Heap) (p : Nat) : List Act :=
  match h.getFromPath p [([.S, .SP], false), ([.Pro], false)] with
  | none => []
  | some pro =>
    match h.parentOf pro with
    | none => [.crash .attributeError]
    | some sp =>
      match h.getFromPath sp [([.VP], false), ([.V], false)] with
      | none => []
      | some v =>
        linkSubjObjSubordinate h (h.node p).lang p pro v (subjectAttr h sp)

theorem planNP_eq (h : Heap) (p : Nat) :
    planNP h p = (match (h.kids p)[npHeadIndex h p]? with
      | none => some []
      | some hd => Plan.cat ([some [.guardHas hd, .setPeng true p hd]] ++
          (h.kids p).zipIdx.map (childPlan h p (npHeadIndex h p) hd) ++ [some (relActs h p)])) := rfl

theorem childPlan_star (h : Heap) (p hi hd : Nat) (ei : Nat × Nat) (l : List Act)
    (hl : childPlan h p hi hd ei = some l) : ∀ a ∈ l, Star p a := by
  intro a ha
  obtain ⟨e, i⟩ := ei
  unfold childPlan at hl
  simp only at hl
  split at hl
  · cases hl; simp at ha
  · split at hl
    · cases hl
      simp only [List.mem_cons, List.not_mem_nil, or_false] at ha
      rcases ha with rfl | rfl <;> simp [Star]
    · split at hl
      · obtain ⟨e1, e2⟩ := Plan.cat_eq_some _ _ hl
        obtain ⟨l1, hl1⟩ := e2 (linkDAV h (h.node p).lang p e) (by simp)
        subst e1
        simp only [List.flatMap_cons, List.flatMap_nil, hl1, Option.getD_some, List.append_nil,
          List.mem_append] at ha
        rcases ha with ha | ha
        · exact linkDAV_star h _ p e l1 hl1 a ha
        · split at ha
          · simp only [List.mem_cons, List.not_mem_nil, or_false] at ha; subst ha; simp [Star]
          · simp at ha
      · split at hl
        · cases hl
          simp only [List.cons_append, List.nil_append, List.mem_cons, List.mem_flatMap] at ha
          rcases ha with rfl | ⟨el, _, hel⟩
          · simp [Star]
          · split at hel
            · simp only [List.mem_cons, List.not_mem_nil, or_false] at hel; subst hel; simp [Star]
            · simp at hel
        · split at hl
          · obtain ⟨e1, e2⟩ := Plan.cat_eq_some _ _ hl
            subst e1
            simp only [List.mem_flatMap, List.mem_map] at ha
            obtain ⟨q, ⟨el, _, rfl⟩, hq⟩ := ha
            obtain ⟨l1, hl1⟩ := e2 (linkDAV h (h.node p).lang p el) (by simp; exact ⟨el, ‹_›, rfl⟩)
            rw [hl1] at hq
            exact linkDAV_star h _ p el l1 hl1 a hq
          · cases hl; simp at ha

theorem childPlan_targets (h : Heap) (p hi hd : Nat) (ei : Nat × Nat) (l : List Act)
    (hl : childPlan h p hi hd ei = some l) (hne : ei.2 ≠ hi) :
    ∀ d ∈ npDepsOf h (h.node p).lang ei.1, d ∈ pengTargets l := by
  intro d hd'
  obtain ⟨e, i⟩ := ei
  simp only at hne hd'
  unfold childPlan at hl
  unfold npDepsOf at hd'
  simp only [] at hl
  rw [if_neg hne] at hl
  by_cases hno : (decide (h.kind e = .NO) && decide (i < hi)) = true
  · have hk : h.kind e = .NO := by
      simp only [Bool.and_eq_true, decide_eq_true_eq] at hno; exact hno.1
    simp [Heap.isA, hk] at hd'
  · rw [if_neg hno] at hl
    by_cases hdav : h.isA e [.D, .A, .V] = true
    · rw [if_pos hdav] at hl hd'
      by_cases hagr : davAgrees h (h.node p).lang e = true
      · rw [if_pos hagr] at hd'
        simp only [List.mem_cons, List.not_mem_nil, or_false] at hd'
        subst hd'
        obtain ⟨e1, e2⟩ := Plan.cat_eq_some _ _ hl
        obtain ⟨l1, hl1⟩ := e2 (linkDAV h (h.node p).lang p d) (by simp)
        subst e1
        simp only [List.flatMap_cons, List.flatMap_nil, hl1, Option.getD_some, List.append_nil,
          pengTargets_append, List.mem_append]
        exact Or.inl (linkDAV_targets h _ p d l1 hl1 hagr)
      · rw [if_neg hagr] at hd'
        simp at hd'
    · rw [if_neg hdav] at hl hd'
      by_cases hcp : h.kind e = .CP
      · rw [if_pos hcp] at hl hd'
        cases hl
        simp only [pengTargets_append, pengTargets_flatMap, List.mem_append, List.mem_flatMap]
        rcases List.mem_cons.mp hd' with rfl | hm
        · left; simp [pengTargets, pengTarget]
        · right
          obtain ⟨hm, hA⟩ := List.mem_filter.mp hm
          exact ⟨d, hm, by simp [hA, pengTargets, pengTarget]⟩
      · rw [if_neg hcp] at hl hd'
        by_cases hap : h.isA e [.AP, .AdvP] = true
        · rw [if_pos hap] at hl hd'
          obtain ⟨hm, hagr⟩ := List.mem_filter.mp hd'
          obtain ⟨e1, e2⟩ := Plan.cat_eq_some _ _ hl
          subst e1
          obtain ⟨l1, hl1⟩ := e2 (linkDAV h (h.node p).lang p d) (List.mem_map.mpr ⟨d, hm, rfl⟩)
          simp only [pengTargets_flatMap, List.mem_flatMap, List.mem_map]
          exact ⟨_, ⟨d, hm, rfl⟩, by rw [hl1]; exact linkDAV_targets h _ p d l1 hl1 hagr⟩
        · rw [if_neg hap] at hd'
          simp at hd'

theorem nWrites_AP (h : Heap) (lang : Lang) (p : Nat) : ∀ (ks : List Nat),
    (∀ el ∈ ks, ∃ l1, linkDAV h lang p el = some l1) →
    List.flatMap (fun q : Plan => nWrites (q.getD [])) (ks.map (fun el => linkDAV h lang p el)) =
      (ks.filter (fun el => davNo h lang el)).map (fun _ => Val.s ['p']) := by
  intro ks
  induction ks with
  | nil => intro _; rfl
  | cons k ks ih =>
    intro hall
    obtain ⟨l1, hl1⟩ := hall k List.mem_cons_self
    have hw := linkDAV_nWrites h lang p k l1 hl1
    simp only [List.map_cons, List.flatMap_cons, hl1, Option.getD_some, hw, List.filter_cons]
    rw [ih (fun el hel => hall el (List.mem_cons_of_mem _ hel))]
    cases davNo h lang k <;> simp

theorem childPlan_nWrites (h : Heap) (p hi hd : Nat) (ei : Nat × Nat) (l : List Act)
    (hl : childPlan h p hi hd ei = some l) : nWrites l = numberWrites h (h.node p).lang hi ei := by
  obtain ⟨e, i⟩ := ei
  unfold childPlan at hl
  unfold numberWrites
  simp only [] at hl ⊢
  by_cases hi' : i = hi
  · rw [if_pos hi'] at hl ⊢
    cases hl
    rfl
  · rw [if_neg hi'] at hl ⊢
    by_cases hno : (decide (h.kind e = .NO) && decide (i < hi)) = true
    · rw [if_pos hno] at hl ⊢
      cases hl
      simp [nWrites, nWrite]
    · rw [if_neg hno] at hl ⊢
      by_cases hdav : h.isA e [.D, .A, .V] = true
      · rw [if_pos hdav] at hl
        obtain ⟨e1, e2⟩ := Plan.cat_eq_some _ _ hl
        obtain ⟨l1, hl1⟩ := e2 (linkDAV h (h.node p).lang p e) (by simp)
        subst e1
        have hw := linkDAV_nWrites h _ p e l1 hl1
        simp only [List.flatMap_cons, List.flatMap_nil, hl1, Option.getD_some, List.append_nil, nWrites_append, hw]
        have hm : ∀ (c : Prop) [Decidable c], nWrites (if c then [Act.morphoError e] else []) = [] := by
          intro c _
          split <;> simp [nWrites, nWrite]
        rw [hm, List.append_nil]
        by_cases hd1 : davNo h (h.node p).lang e = true
        · simp [hd1]
        · have : h.isA e [.AP, .AdvP] = false := by
            simp only [Heap.isA, List.contains_cons, List.contains_nil, Bool.or_false, Bool.or_eq_true,
              beq_iff_eq] at hdav ⊢
            rcases hdav with hk | hk | hk <;> simp [hk]
          simp [hd1, this]
      · rw [if_neg hdav] at hl
        have hnotD : h.kind e ≠ .D := by
          intro hk; apply hdav; simp [Heap.isA, hk]
        have hnotA : h.kind e ≠ .A := by
          intro hk; apply hdav; simp [Heap.isA, hk]
        have hno2 : davNo h (h.node p).lang e = false := by
          unfold davNo pluralMaker
          cases (h.node p).lang <;> simp [hnotD, hnotA]
        simp only [hno2, Bool.false_eq_true, if_false]
        by_cases hcp : h.kind e = .CP
        · rw [if_pos hcp] at hl
          cases hl
          have : h.isA e [.AP, .AdvP] = false := by simp [Heap.isA, hcp]
          simp only [this, Bool.false_eq_true, if_false, nWrites_append, nWrites_flatMap]
          have h0 : nWrites [Act.setPeng true e p] = [] := by simp [nWrites, nWrite]
          rw [h0, List.nil_append, List.flatMap_eq_nil_iff]
          intro el _
          split <;> simp [nWrites, nWrite]
        · rw [if_neg hcp] at hl
          by_cases hap : h.isA e [.AP, .AdvP] = true
          · rw [if_pos hap] at hl ⊢
            obtain ⟨e1, e2⟩ := Plan.cat_eq_some _ _ hl
            subst e1
            rw [nWrites_flatMap]
            apply nWrites_AP
            intro el hel
            exact e2 _ (List.mem_map.mpr ⟨el, hel, rfl⟩)
          · rw [if_neg hap] at hl ⊢
            cases hl
            rfl

/-! ### the relative clause -/

theorem relActs_star (h : Heap) (p : Nat) : ∀ a ∈ relActs h p, StarP p a := by
  intro a ha
  unfold relActs at ha
  cases hpro : h.getFromPath p [([.S, .SP], false), ([.Pro], false)] with
  | none => rw [hpro] at ha; simp at ha
  | some pro =>
    rw [hpro] at ha
    simp only [] at ha
    cases hsp : h.parentOf pro with
    | none =>
      rw [hsp] at ha
      simp only [List.mem_cons, List.not_mem_nil, or_false] at ha; subst ha; simp [StarP, Star, nWrite]
    | some sp =>
      rw [hsp] at ha
      simp only [] at ha
      cases hv : h.getFromPath sp [([.VP], false), ([.V], false)] with
      | none => rw [hv] at ha; simp at ha
      | some v =>
        rw [hv] at ha
        simp only [] at ha
        generalize subjectAttr h sp = subject at ha
        unfold linkSubjObjSubordinate at ha
        cases hlang : (h.node p).lang with
        | en =>
          simp only [hlang] at ha
          split at ha
          · simp only [List.cons_append, List.nil_append, List.mem_cons] at ha
            rcases ha with rfl | ha
            · simp [StarP, Star, nWrite]
            · exact linkAttributes_star _ _ _ _ _ _ a ha
          · simp at ha
        | fr =>
          simp only [hlang] at ha
          split at ha
          · simp only [List.mem_append, List.mem_cons, List.not_mem_nil, or_false] at ha
            rcases ha with (rfl | ha) | ha
            · simp [StarP, Star, nWrite]
            · split at ha
              · simp only [List.mem_cons, List.not_mem_nil, or_false] at ha; subst ha; simp [StarP, Star, nWrite]
              · simp at ha
            · exact linkAttributes_star _ _ _ _ _ _ a ha
          · split at ha
            · simp only [List.mem_cons, List.not_mem_nil, or_false] at ha; subst ha; simp [StarP, Star, nWrite]
            · split at ha
              · simp only [List.mem_append, List.mem_cons, List.not_mem_nil, or_false] at ha
                rcases ha with rfl | ha
                · simp [StarP, Star, nWrite]
                · split at ha
                  · split at ha
                    · simp only [List.mem_cons, List.not_mem_nil, or_false] at ha; subst ha; simp [StarP, Star, nWrite]
                    · split at ha
                      · simp at ha
                      · split at ha
                        · split at ha
                          · simp only [List.mem_cons, List.not_mem_nil, or_false] at ha; subst ha; simp [StarP, Star, nWrite]
                          · simp at ha
                        · simp at ha
                  · simp at ha
              · simp at ha

theorem relActs_targets (h : Heap) (p : Nat) : ∀ d ∈ npRelDeps h p, d ∈ pengTargets (relActs h p) := by
  intro d hd
  unfold npRelDeps npRel at hd
  unfold relActs
  cases hpro : h.getFromPath p [([.S, .SP], false), ([.Pro], false)] with
  | none => rw [hpro] at hd; simp at hd
  | some pro =>
    rw [hpro] at hd
    simp only [] at hd ⊢
    cases hsp : h.parentOf pro with
    | none => rw [hsp] at hd; simp at hd
    | some sp =>
      rw [hsp] at hd
      simp only [] at hd ⊢
      cases hv : h.getFromPath sp [([.VP], false), ([.V], false)] with
      | none => rw [hv] at hd; simp at hd
      | some v =>
        rw [hv] at hd
        simp only [] at hd ⊢
        generalize subjectAttr h sp = subject at hd ⊢
        unfold linkSubjObjSubordinate
        cases hlang : (h.node p).lang with
        | en =>
          simp only [hlang] at hd ⊢
          split at hd
          · next hrel =>
            simp only [List.mem_cons, List.not_mem_nil, or_false] at hd
            subst hd
            rw [if_pos hrel]
            simp [pengTargets, pengTarget]
          · simp at hd
        | fr =>
          simp only [hlang] at hd ⊢
          split at hd
          · next hq =>
            simp only [hq, if_true, pengTargets_append, List.mem_append]
            simp only [List.mem_append, List.mem_cons, List.not_mem_nil, or_false] at hd
            rcases hd with (rfl | hd) | hd
            · left; left; simp [pengTargets, pengTarget]
            · left; right
              split at hd
              · next hl => simp only [List.mem_cons, List.not_mem_nil, or_false] at hd; subst hd; simp [hl, pengTargets, pengTarget]
              · simp at hd
            · right; exact linkAttributes_targets _ _ _ _ _ _ d hd
          · next hq =>
            simp only [hq]
            split at hd
            · next hdq =>
              simp only [List.mem_cons, List.not_mem_nil, or_false] at hd
              subst hd
              simp [hdq, pengTargets, pengTarget]
            · simp at hd

/-! ### the whole NP branch -/

theorem flatMap_congr' {α β} (l : List α) (f g : α → List β) (hfg : ∀ x ∈ l, f x = g x) :
    l.flatMap f = l.flatMap g := by
  induction l with
  | nil => rfl
  | cons x xs ih =>
    simp only [List.flatMap_cons]
    rw [hfg x List.mem_cons_self, ih (fun y hy => hfg y (List.mem_cons_of_mem _ hy))]

theorem nWrites_eq_nil_of (l : List Act) (hl : ∀ a ∈ l, nWrite a = none) : nWrites l = [] := by
  simp only [nWrites, List.filterMap_eq_nil_iff]
  exact hl

/-- **the NP branch of `linkProperties`**: the phrase, its head and every node of the declarative agreement class hold
    the head's record `r` afterwards; any other slot is unchanged or holds `r`; the number of the record is the last
    value imposed by a numeral / `no`. -/
theorem planNP_link (h : Heap) (p : Nat) (acts : List Act) (h' : Heap) (hd r : Nat)
    (hplan : planNP h p = some acts) (hex : exec h acts = .ok h')
    (hhd : (h.kids p)[npHeadIndex h p]? = some hd) (hr : h.peng hd = some r) :
    h'.peng p = some r ∧ h'.peng hd = some r ∧ (∀ d ∈ npDeps h p, h'.peng d = some r) ∧
    (∀ x, x ≠ p → h'.peng x = h.peng x ∨ h'.peng x = some r) ∧
    (h'.prec r).n = (match (npNumberWriters h p).getLast? with | some v => some v | none => (h.prec r).n) := by
  rw [planNP_eq, hhd] at hplan
  simp only [] at hplan
  obtain ⟨e1, e2⟩ := Plan.cat_eq_some _ _ hplan
  let hi := npHeadIndex h p
  let tail : List Act :=
    ((h.kids p).zipIdx.map (childPlan h p hi hd)).flatMap (fun q => q.getD []) ++ relActs h p
  have hacts : acts = .guardHas hd :: .setPeng true p hd :: tail := by
    rw [e1]
    simp [tail, hi, List.flatMap_append]
  have hchild : ∀ ei ∈ (h.kids p).zipIdx, ∃ l, childPlan h p hi hd ei = some l := by
    intro ei hei
    apply e2
    simp only [List.mem_append, List.mem_map]
    exact Or.inl (Or.inr ⟨ei, hei, rfl⟩)
  -- the first two assignments
  rw [hacts] at hex
  simp only [exec, Act.stops, hr, Option.isNone_some, Bool.false_eq_true, if_false, step] at hex
  generalize hh1 : ({ h with peng := upd h.peng p (some r) } : Heap) = h1 at hex
  have h1p : h1.peng p = some r := by subst hh1; simp [upd]
  have h1o : ∀ x, x ≠ p → h1.peng x = h.peng x := by intro x hx; subst hh1; simp [upd, hx]
  have h1prec : h1.prec = h.prec := by subst hh1; rfl
  have hstar : ∀ a ∈ tail, Star p a := by
    intro a ha
    rcases List.mem_append.mp ha with ha | ha
    · obtain ⟨q, hq, haq⟩ := List.mem_flatMap.mp ha
      obtain ⟨ei, hei, rfl⟩ := List.mem_map.mp hq
      obtain ⟨l, hl⟩ := hchild ei hei
      rw [hl] at haq
      exact childPlan_star h p hi hd ei l hl a haq
    · exact (relActs_star h p a ha).1
  obtain ⟨i1, i2, i3⟩ := exec_star p r tail h1 h' hstar h1p hex
  refine ⟨i1, ?_, ?_, ?_, ?_⟩
  · rcases i3 hd with e | e
    · by_cases hdp : hd = p
      · rw [hdp]; exact i1
      · rw [e, h1o hd hdp]; exact hr
    · exact e
  · intro d hd'
    apply i2
    simp only [tail, pengTargets_append, List.mem_append]
    rcases List.mem_append.mp hd' with hd' | hd'
    · left
      obtain ⟨ei, hei, hdi⟩ := List.mem_flatMap.mp hd'
      obtain ⟨hmem, hne⟩ := List.mem_filter.mp hei
      obtain ⟨l, hl⟩ := hchild ei hmem
      have hne' : ei.2 ≠ hi := by simpa using hne
      have := childPlan_targets h p hi hd ei l hl hne' d hdi
      rw [pengTargets_flatMap]
      exact List.mem_flatMap.mpr ⟨_, List.mem_map.mpr ⟨ei, hmem, rfl⟩, by rw [hl]; exact this⟩
    · right; exact relActs_targets h p d hd'
  · intro x hx
    rcases i3 x with e | e
    · left; rw [e, h1o x hx]
    · right; exact e
  · have hn := exec_star_n p r tail h1 h' hstar h1p hex
    have hw : nWrites tail = npNumberWriters h p := by
      simp only [tail, nWrites_append, nWrites_flatMap]
      rw [nWrites_eq_nil_of (relActs h p) (fun a ha => (relActs_star h p a ha).2), List.append_nil]
      unfold npNumberWriters
      rw [List.flatMap_map]
      apply flatMap_congr'
      intro ei hei
      obtain ⟨l, hl⟩ := hchild ei hei
      simp only [hl, Option.getD_some]
      exact childPlan_nWrites h p hi hd ei l hl
    rw [hn, hw, h1prec]
    cases (npNumberWriters h p).getLast? <;> rfl

end Pyrealb.Agree
