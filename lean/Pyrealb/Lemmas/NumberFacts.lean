import Pyrealb.Lemmas.NumberSpell
/-! The finite facts (`Facts`, `scaleOK`) established for the generated tables by kernel evaluation. -/
namespace Pyrealb.Number
open Pyrealb Pyrealb.NumberSpec Pyrealb.Gen.NumberWords Pyrealb.Number.Finite

theorem seps_tbl_en : sepsOK (vocab .en) .en = true := by decide +kernel
theorem seps_tbl_fr : sepsOK (vocab .fr) .fr = true := by decide +kernel

theorem factsEn : Facts (vocab .en) .en := ⟨triplet_eval_tbl_en, seps_tbl_en⟩
theorem factsFr : Facts (vocab .fr) .fr := ⟨triplet_eval_tbl_fr, seps_tbl_fr⟩

/-- French: the six scale words are read as 1000, 10^6, … 10^18 -/
theorem scale_tbl_fr : ∀ k : Fin 6, scaleOK (vocab .fr) .fr k.val = true := by decide +kernel

/-- English: the six scale words are read as 1000, 10^6, … 10^18 -/
theorem scale_tbl_en : ∀ k : Fin 6, scaleOK (vocab .en) .en k.val = true := by decide +kernel

/-- numbers below 10^21 have at most seven triplets, hence use only the six entries of the scale table -/
theorem scalesNeeded_lt_six (n : Nat) (hn : n < 10 ^ 21) : ∀ k ∈ scalesNeeded (splitS n), k < 6 := by
  intro k hk
  have h1 := scalesNeeded_lt _ k hk
  have h2 := (splitSAux_spec n n (Nat.le_refl _)).2.2.2 7 (by decide) (by
    have : (1000 : Nat) ^ 7 = 10 ^ 21 := by decide
    omega)
  unfold splitS at h1
  omega

end Pyrealb.Number
