import Pyrealb.Lemmas.NumberSpell
/-! The finite facts (`Facts`, `scaleOK`) established for the generated tables by kernel evaluation. -/
namespace Pyrealb.Number
open Pyrealb Pyrealb.NumberSpec Pyrealb.Gen.NumberWords Pyrealb.Number.Finite

theorem seps_tbl_en : sepsOK (vocab .en) .en = true := by decide +kernel
theorem seps_tbl_fr : sepsOK (vocab .fr) .fr = true := by decide +kernel

theorem factsEn : Facts (vocab .en) .en := ⟨triplet_eval_tbl_en, seps_tbl_en⟩
theorem factsFr : Facts (vocab .fr) .fr := ⟨triplet_eval_tbl_fr, seps_tbl_fr⟩

/-- French: the six scale words are read as 1000, 10^6, … 10^18 -/
theorem scale_tbl_fr : ∀ k : Fin 6, scaleOK (vocab .fr) .fr k.val = true := by decide +kernel

/-- English: every scale word but the one of 10^15 (index 4), which the repository spells `quatrillion` -/
theorem scale_tbl_en : ∀ k : Fin 6, k.val ≠ 4 → scaleOK (vocab .en) .en k.val = true := by decide +kernel

/-- English as the repository writes it: the English numeral system plus the word `quatrillion` for 10^15.
    Used only to show that distinct numbers have distinct spellings (any reader will do for that). -/
def vocabEnRepo : Vocab := { vocab .en with scales := scalesEn ++ [(s "quatrillion", 5)] }

set_option maxRecDepth 100000 in
theorem triplet_eval_tbl_enRepo : ∀ t : Fin 1000, tripletOK vocabEnRepo .en t.val = true := by decide +kernel
theorem seps_tbl_enRepo : sepsOK vocabEnRepo .en = true := by decide +kernel
theorem factsEnRepo : Facts vocabEnRepo .en := ⟨triplet_eval_tbl_enRepo, seps_tbl_enRepo⟩
theorem scale_tbl_enRepo : ∀ k : Fin 6, scaleOK vocabEnRepo .en k.val = true := by decide +kernel

/-- numbers below 10^21 have at most seven triplets, hence use only the six entries of the scale table -/
theorem scalesNeeded_lt_six (n : Nat) (hn : n < 10 ^ 21) : ∀ k ∈ scalesNeeded (splitS n), k < 6 := by
  intro k hk
  have h1 := scalesNeeded_lt _ k hk
  have h2 := (splitSAux_spec n n (Nat.le_refl _)).2.2.2 7 (by decide) (by
    have : (1000 : Nat) ^ 7 = 10 ^ 21 := by decide
    omega)
  unfold splitS at h1
  omega

/-- numbers below 10^15 do not use the scale word of 10^15 -/
theorem scalesNeeded_lt_four (n : Nat) (hn : n < 10 ^ 15) : ∀ k ∈ scalesNeeded (splitS n), k < 4 := by
  intro k hk
  have h1 := scalesNeeded_lt _ k hk
  have h2 := (splitSAux_spec n n (Nat.le_refl _)).2.2.2 5 (by decide) (by
    have : (1000 : Nat) ^ 5 = 10 ^ 15 := by decide
    omega)
  unfold splitS at h1
  omega

end Pyrealb.Number
