import Pyrealb.Lemmas.FormatTreeInd
import Pyrealb.Lemmas.FormatBal
/-! The tag-balance checker accepts the text of every well-formed tree (for C10), `cap(True)` included: the character
    the capital lands on lies outside every tag (group 1 of `sepWordRE` skips complete tags). -/
namespace Pyrealb.Format

/-- the scanner leaves the stack of open tags as it found it -/
def Neutral (x : Str) : Prop := ∀ (st : List Str) (rest : Str), balRun none st (x ++ rest) = balRun none st rest

theorem neutral_nil : Neutral [] := fun _ _ => rfl
theorem neutral_text {x : Str} (h : AngleFree x) : Neutral x := fun st rest => balRun_text x rest st h
theorem neutral_append {x y : Str} (hx : Neutral x) (hy : Neutral y) : Neutral (x ++ y) := by
  intro st rest; rw [List.append_assoc, hx, hy]

theorem neutral_tags (tags : List (Str × List (Str × Str))) (h : ∀ t ∈ tags, TagOK t) (x : Str) (hx : Neutral x) :
    Neutral (tagsB tags ++ x ++ tagsA tags) := by
  induction tags generalizing x with
  | nil => simpa [tagsB, tagsA] using hx
  | cons t r ih =>
    obtain ⟨n, attrs⟩ := t
    have ht : TagOK (n, attrs) := h _ (by simp)
    have hw : Neutral (startTag n attrs ++ x ++ endTag n) := by
      intro st rest
      rw [List.append_assoc, List.append_assoc, balRun_start (n, attrs) ht, hx, balRun_end n ht.2.1]
    have := ih (fun y hy => h y (List.mem_cons_of_mem _ hy)) _ hw
    simpa [tagsB, tagsA, List.append_assoc] using this

/-- upper-casing the character found by `sepWordRE` is invisible to the scanner -/
theorem balRun_upperAt (cm : CaseMap) (hc : AngOK cm) : ∀ (x rest : Str) (st : List Str),
    (balRun none st (upperAt cm x (g1Len cm false x) ++ rest) = balRun none st (x ++ rest)) ∧
    (∀ buf, '>' ∈ x →
      balRun (some buf) st (upperAt cm x (g1Len cm true x) ++ rest) = balRun (some buf) st (x ++ rest)) := by
  intro x
  induction x with
  | nil => intro rest st; exact ⟨by simp [upperAt_nil], fun _ h => by cases h⟩
  | cons c r ih =>
    intro rest st
    constructor
    · simp only [g1Len]
      split
      · rename_i hs
        rw [Nat.add_comm, upperAt_cons_succ]
        have hc1 : c ≠ '<' := by intro e; subst e; simp [isSkip] at hs
        simp only [List.cons_append, balRun, hc1, if_false]
        split
        · rfl
        · exact (ih rest st).1
      · split
        · rename_i hs
          obtain ⟨e, hcl⟩ := hs
          subst e
          rw [Nat.add_comm, upperAt_cons_succ]
          simp only [List.cons_append, balRun, if_true]
          have hgt : '>' ∈ r := by
            cases r with
            | nil => simp [closesTag] at hcl
            | cons d r' =>
              simp only [closesTag, Bool.and_eq_true, List.contains_iff_mem] at hcl
              exact List.mem_cons_of_mem _ hcl.2
          exact (ih rest st).2 [] hgt
        · rw [upperAt_zero]
          by_cases e1 : c = '<'
          · subst e1; rw [hc.2.1]
          · by_cases e2 : c = '>'
            · subst e2; rw [hc.2.2]
            · have := hc.1 c e1 e2
              simp only [List.cons_append, balRun, this.1, this.2.1, e1, e2, if_false]
    · intro buf hgt
      simp only [g1Len]
      split
      · rename_i e
        subst e
        rw [Nat.add_comm, upperAt_cons_succ]
        simp only [List.cons_append, balRun, if_true]
        split
        · exact (ih rest _).1
        · rfl
      · rename_i e
        rw [Nat.add_comm, upperAt_cons_succ]
        have hr : '>' ∈ r := by
          rcases List.mem_cons.mp hgt with h | h
          · exact absurd h.symm e
          · exact h
        simp only [List.cons_append, balRun, e, if_false]
        exact (ih rest st).2 _ hr

theorem neutral_capFirst (cm : CaseMap) (hc : AngOK cm) (l : List Tok) (h : Neutral (flat l)) :
    Neutral (flat (modFirst (capFirst cm) l)) := by
  cases l with
  | nil => exact h
  | cons t r =>
    intro st rest
    have := h st rest
    simp only [modFirst, flat_cons, List.append_assoc] at this ⊢
    rw [← this]
    exact (balRun_upperAt cm hc t.real (flat r ++ rest) st).1

theorem neutral_poss (l : List Tok) (h : Neutral (flat l)) : Neutral (flat (modLast addPoss l)) := by
  by_cases hne : l = []
  · subst hne; exact h
  · obtain ⟨pre, last, h1, h2, _⟩ := flat_modLast_f addPoss l hne
    rw [h2]
    unfold addPoss
    split
    · rw [← List.append_assoc, ← h1]
      exact neutral_append h (neutral_text (AngleFree.cons (by decide) (by decide) AngleFree.nil))
    · rw [← List.append_assoc, ← h1]
      exact neutral_append h (neutral_text (AngleFree.cons (by decide) (by decide)
        (AngleFree.cons (by decide) (by decide) AngleFree.nil)))

theorem neutral_capPoss (cm : CaseMap) (hc : AngOK cm) (o : Opts) (l : List Tok) (h : Neutral (flat l)) :
    Neutral (flat (capPoss cm o l)) := by
  unfold capPoss
  simp only
  have h1 : Neutral (flat (if o.poss = true then modLast addPoss l else l)) := by
    split
    · exact neutral_poss l h
    · exact h
  split
  · exact neutral_capFirst cm hc _ h1
  · exact h1

theorem fmt_step_neutral (tb : Tables) (cm : CaseMap) (hcm : AngOK cm) (o : Opts) (ho : OptsOK tb o)
    (l out : List Tok) (hn : Neutral (flat l)) (h : doFormat tb cm o id l = .ok out) : Neutral (flat out) := by
  by_cases hne : l = []
  · subst hne
    rw [doFormat_nil] at h; cases h
    exact neutral_nil
  · have hre := removeEmpty_ne_nil l hne
    rw [doFormat_ne _ _ _ _ _ hre] at h
    simp only [id] at h
    obtain ⟨htags, ⟨as, ha, haf⟩, ⟨bs, hbb, hbf⟩, ⟨es, he, hef⟩⟩ := ho
    rw [formatCore_eq tb cm o _ hre as bs es ha hbb he] at h
    cases h
    rw [flat_wrapAll _ _ _ (capPoss_ne_nil cm o _ hre)]
    have hx : Neutral (flat (capPoss cm o (removeEmpty l))) :=
      neutral_capPoss cm hcm o _ (by rw [flat_removeEmpty]; exact hn)
    have := neutral_append (neutral_append (neutral_text (revB_af es hef))
      (neutral_append (neutral_append (neutral_text (revB_af bs hbf)) (neutral_tags _ htags _ hx))
        (neutral_text (fwdB_af as haf)))) (neutral_text (fwdA_af es hef))
    simpa [List.append_assoc] using this

mutual
  theorem Tree.real_neutral (tb : Tables) (cm : CaseMap) (hcm : AngOK cm) : ∀ (t : Tree) (toks : List Tok),
      t.WF tb → t.real tb cm = .ok toks → Neutral (flat toks)
    | .leaf t o, toks, hok, h => by
      simp only [Tree.WF] at hok
      simp only [Tree.real] at h
      exact fmt_step_neutral tb cm hcm o hok.2 [t] toks (by simpa using neutral_text hok.1) h
    | .node o .nil, toks, _, h => by
      simp only [Tree.real] at h; cases h; exact neutral_nil
    | .node o (.cons k ks), toks, hok, h => by
      simp only [Tree.WF] at hok
      simp only [Tree.real] at h
      cases hk : (Forest.cons k ks).real tb cm with
      | error e => rw [hk] at h; cases h
      | ok l =>
        rw [hk] at h
        simp only [ex_bind_ok] at h
        exact fmt_step_neutral tb cm hcm o hok.1 l toks (Forest.real_neutral tb cm hcm (.cons k ks) l hok.2 hk) h
  theorem Forest.real_neutral (tb : Tables) (cm : CaseMap) (hcm : AngOK cm) : ∀ (f : Forest) (toks : List Tok),
      f.WF tb → f.real tb cm = .ok toks → Neutral (flat toks)
    | .nil, toks, _, h => by simp only [Forest.real] at h; cases h; exact neutral_nil
    | .cons t f, toks, hok, h => by
      simp only [Forest.WF] at hok
      simp only [Forest.real] at h
      cases ht : t.real tb cm with
      | error e => rw [ht] at h; cases h
      | ok a =>
        cases hf : f.real tb cm with
        | error e => rw [ht, hf] at h; cases h
        | ok b =>
          rw [ht, hf] at h
          simp only [ex_bind_ok, ex_pure] at h
          cases h
          rw [flat_append]
          exact neutral_append (Tree.real_neutral tb cm hcm t a hok.1 ht) (Forest.real_neutral tb cm hcm f b hok.2 hf)
end

theorem balCheck_of_neutral {x : Str} (h : Neutral x) : balCheck x = true := by
  have := h [] []
  simpa [balCheck, balRun] using this

end Pyrealb.Format
