import Pyrealb.Model.LemmatizeWF
/-! Helper lemmas of `expandDecl_sound` (C18): the declension model (C02) evaluated on a terminal whose table, stem
    and request-relevant properties are known; the options `genExp` infers applied to a fresh terminal. -/
namespace Pyrealb.Lemmatize
open Pyrealb Pyrealb.Decl

theorem lexPos_elim {lex : Lex} {lemma pos : Str} {entry : PosEntry} (h : lexPos lex lemma pos = some entry) :
    ∃ info, lookup lemma lex = some info ∧ lookup pos info = some entry := by
  unfold lexPos at h
  split at h
  · cases h
  · rename_i info hinfo
    exact ⟨info, hinfo, h⟩

theorem nounChecks_ok {lex : Lex} {t : Term} {entry : PosEntry} {lang : Lang} {g n : FV} {form : Str}
    (hlang : t.lang = lang) (hlex : lexPos lex t.lemma "N".toList = some entry)
    (hveto : match lang with
      | .fr => ∃ lg, lookup "g".toList entry = some lg ∧ (lg.toFV = FV.x ∨ lg.toFV = g)
      | .en => n ≠ fvStr "p" ∨ ∃ cn, lookup "cnt".toList entry = some cn ∧ cn ≠ LV.str "no".toList) :
    nounChecks lex t g n form = .ok ⟨[form], t.warns⟩ := by
  obtain ⟨info, hinfo, hentry⟩ := lexPos_elim hlex
  unfold nounChecks
  cases lang with
  | fr =>
    obtain ⟨lg, hlg, hor⟩ := hveto
    simp only [hlang, hinfo, hentry, hlg]
    have : ¬ (lg.toFV ≠ FV.x ∧ lg.toFV ≠ g) := by
      rintro ⟨h1, h2⟩; rcases hor with h | h
      · exact h1 h
      · exact h2 h
    simp [this, pure, Except.pure]
  | en =>
    simp only [hlang]
    rcases hveto with hn | ⟨cn, hcn, hne⟩
    · have hn' : ¬ (n = FV.str ['p']) := hn
      simp [hn', pure, Except.pure]
    · have hentry' : lookup ['N'] info = some entry := hentry
      have hcn' : lookup ['c', 'n', 't'] entry = some cn := hcn
      have hne' : ¬ (cn = LV.str ['n', 'o']) := hne
      by_cases hp : n = FV.str ['p']
      · simp [hp, hinfo, hentry', hcn', hne', pure, Except.pure]
      · simp [hp, pure, Except.pure]

theorem removeEmpty_single (x : Str) : Decl.removeEmpty [x] = [x] := by
  simp [Decl.removeEmpty, removeEmptyAux]

theorem prepareNDP_N {rules : Decl.Rules} {lex : Lex} {t : Term} (tb : Table) (g n : FV)
    (hpos : t.pos = .N) (hown : t.pOwn = none) :
    prepareNDP rules lex t tb g n false = .ok (t, tb.rows, [(Feat.g, g), (Feat.n, n)]) := by
  simp [prepareNDP, reqPerson, majesticStep, hpos, ownStep, hown, baseKeyVals, bind, Except.bind, pure, Except.pure]

/-- a noun whose table and stem are known: `realTerm` is `stem ++` the ending `bestMatch` selects (or the single
    row's), when no veto applies -/
theorem realTerm_N {rules : Decl.Rules} {lex : Lex} {t : Term} {name radical : Str} {tb : Table} {entry : PosEntry}
    {lang : Lang} {val : Str}
    (hpos : t.pos = .N) (hlang : t.lang = lang) (htab : t.tab = some name) (hstem : t.stem = some radical)
    (hown : t.pOwn = none) (hw : t.warns = 0) (htb : lookup name rules = some tb)
    (hlex : lexPos lex t.lemma "N".toList = some entry)
    (hsel : match tb.rows with
      | [d1] => d1.val = val
      | rows => bestMatch rows [(Feat.g, if t.getG = .none then fvStr "m" else t.getG),
                                (Feat.n, if t.getN = .none then fvStr "s" else t.getN)] = some val)
    (hveto : match lang with
      | .fr => ∃ lg, lookup "g".toList entry = some lg ∧
          (lg.toFV = FV.x ∨ lg.toFV = (if t.getG = .none then fvStr "m" else t.getG))
      | .en => (if t.getN = .none then fvStr "s" else t.getN) ≠ fvStr "p" ∨
          ∃ cn, lookup "cnt".toList entry = some cn ∧ cn ≠ LV.str "no".toList) :
    realTerm rules lex t = .ok ⟨[radical ++ val], 0⟩ := by
  have hnc := nounChecks_ok (lex := lex) (t := t) (entry := entry) (lang := lang)
    (g := if t.getG = .none then fvStr "m" else t.getG) (n := if t.getN = .none then fvStr "s" else t.getN)
    (form := radical ++ val) hlang hlex hveto
  unfold realTerm realGen
  simp only [hpos, htab]
  unfold declineGen
  simp only [htb, hstem, hpos]
  unfold declineNDP
  simp only [hpos]
  have e1 : (Pos.N = Pos.A ∨ Pos.N = Pos.Adv) = False := by simp
  have e2 : ∀ x : FV, ((Pos.N = Pos.D ∨ True) ∧ x = FV.none) = (x = FV.none) := by intro x; simp
  simp only [e1, e2, if_false, if_true]
  have hg : (FV.str ['m']) = fvStr "m" := rfl
  have hn : (FV.str ['s']) = fvStr "s" := rfl
  rw [hg, hn]
  cases hrows : tb.rows with
  | nil =>
    rw [hrows] at hsel
    simp only [prepareNDP_N tb _ _ hpos hown, bind, Except.bind, hrows]
    simp only [hsel, hstem, hpos, if_true, hnc]
    simp [removeEmpty_single, hw, pure, Except.pure]
  | cons d ds =>
    cases ds with
    | nil =>
      rw [hrows] at hsel
      simp only [] at hsel
      subst hsel
      simp only [bind, Except.bind, hnc]
      simp [removeEmpty_single, hw, pure, Except.pure]
    | cons d2 ds2 =>
      rw [hrows] at hsel
      simp only [prepareNDP_N tb _ _ hpos hown, bind, Except.bind, hrows]
      simp only [hsel, hstem, hpos, if_true, hnc]
      simp [removeEmpty_single, hw, pure, Except.pure]

/-- a French adjective (or adverb with a declension table) without `f`: `stem ++` the ending `bestMatch` selects -/
theorem realTerm_Afr {rules : Decl.Rules} {lex : Lex} {t : Term} {name radical : Str} {tb : Table} {val : Str}
    (hpos : t.pos = .A ∨ t.pos = .Adv) (hlang : t.lang = .fr) (htab : t.tab = some name)
    (hstem : t.stem = some radical) (hf : t.pF = none) (hw : t.warns = 0) (htb : lookup name rules = some tb)
    (hsel : bestMatch tb.rows [(Feat.g, t.getG), (Feat.n, t.getN)] = some val) :
    realTerm rules lex t = .ok ⟨[radical ++ val], 0⟩ := by
  unfold realTerm realGen
  rcases hpos with hpos | hpos <;>
  · simp only [hpos, htab]
    unfold declineGen
    simp only [htb, hstem, hpos, hlang]
    simp [declineAdjFr, hsel, hf, bind, Except.bind, pure, Except.pure, removeEmpty_single, hw]

/-- an English adjective or adverb without `f`: the lemma -/
theorem realTerm_Aen_plain {rules : Decl.Rules} {lex : Lex} {t : Term} {name radical : Str} {tb : Table}
    (hpos : t.pos = .A ∨ t.pos = .Adv) (hlang : t.lang = .en) (htab : t.tab = some name)
    (hstem : t.stem = some radical) (hf : t.pF = none) (hw : t.warns = 0) (htb : lookup name rules = some tb) :
    realTerm rules lex t = .ok ⟨[t.lemma], 0⟩ := by
  unfold realTerm realGen
  rcases hpos with hpos | hpos <;>
  · simp only [hpos, htab]
    unfold declineGen
    simp only [htb, hstem, hpos, hlang]
    simp [declineAdjEn, hf, bind, Except.bind, pure, Except.pure, removeEmpty_single, hw]

/-- an English adjective or adverb with `.f(co|su)` on a table other than `a1`/`b1` -/
theorem realTerm_Aen_f {rules : Decl.Rules} {lex : Lex} {t : Term} {name radical : Str} {tb : Table} {val fs : Str}
    (hpos : t.pos = .A ∨ t.pos = .Adv) (hlang : t.lang = .en) (htab : t.tab = some name)
    (hstem : t.stem = some radical) (hf : t.pF = some (.str fs)) (hw : t.warns = 0)
    (htb : lookup name rules = some tb) (ha1 : name ≠ "a1".toList) (hb1 : name ≠ "b1".toList)
    (hsel : bestMatch tb.rows [(Feat.f, .str fs)] = some val) :
    realTerm rules lex t = .ok ⟨[radical ++ val], 0⟩ := by
  have ha1' : ¬ (name = ['a', '1']) := ha1
  have hb1' : ¬ (name = ['b', '1']) := hb1
  unfold realTerm realGen
  rcases hpos with hpos | hpos <;>
  · simp only [hpos, htab]
    unfold declineGen
    simp only [htb, hstem, hpos, hlang]
    simp [declineAdjEn, hf, ha1', hb1', adjRowsEn, hsel, bind, Except.bind, pure, Except.pure, removeEmpty_single, hw]

/-- `pF` after the option calls -/
def afterF (opts : List (Str × OV)) (pf : Option FV) : Option FV :=
  opts.foldl (fun acc o => if o.1 = "f".toList then some o.2.toFV else acc) pf

theorem strs_contains {l : List String} {v : OV} (h : (strs l).contains v = true) : ∃ x, v = .str x := by
  induction l with
  | nil => simp [strs] at h
  | cons a r ih =>
    simp only [strs, List.map_cons, List.contains_cons, Bool.or_eq_true, beq_iff_eq] at h
    rcases h with h | h
    · exact ⟨_, h⟩
    · exact ih (by simpa [strs] using h)

/-- a valid string value of `g`, `n` or `f` is stored -/
theorem applyOpt_str {t : Term} {name x : Str} {vals : List OV}
    (hname : name = "g".toList ∨ name = "n".toList ∨ name = "f".toList)
    (hv : validVals name = some vals) (hin : vals.contains (OV.str x) = true) (hpos : t.pos ∈ allowedPos name) :
    applyOpt t name (.str x) = .ok (setOptProp t name (.str x)) := by
  have hm : ¬ (name = ['m', 'a', 'j', 'e']) := by rcases hname with rfl | rfl | rfl <;> decide
  have hin' : OV.str x ∈ vals := by simpa using hin
  unfold applyOpt
  simp [hm, hv, hpos, hin', OV.toFV, pure, Except.pure]

/-- what one valid option call `g`/`n`/`f` does to a terminal -/
theorem applyOpt_valid {t : Term} {name : Str} {v : OV}
    (h : ((name = "g".toList ∨ name = "n".toList ∨ name = "f".toList) && decide (t.pos ∈ allowedPos name) &&
      match validVals name with
      | some vals => vals.contains v
      | none => false) = true) :
    ∃ t1, applyOpt t name v = .ok t1 ∧ t1.pos = t.pos ∧ t1.lang = t.lang ∧ t1.lemma = t.lemma ∧ t1.tab = t.tab ∧
      t1.stem = t.stem ∧ t1.pOwn = t.pOwn ∧ t1.warns = t.warns ∧
      t1.getG = (if name = "g".toList then v.toFV else t.getG) ∧
      t1.getN = (if name = "n".toList then v.toFV else t.getN) ∧
      t1.pF = (if name = "f".toList then some v.toFV else t.pF) := by
  simp only [Bool.and_eq_true, decide_eq_true_eq, Bool.decide_or, Bool.or_eq_true] at h
  obtain ⟨⟨hname, hpos⟩, hval⟩ := h
  rcases hname with rfl | rfl | rfl
  · have hv : validVals "g".toList = some (strs ["m", "f", "n", "x"]) := rfl
    rw [hv] at hval
    obtain ⟨x, rfl⟩ := strs_contains hval
    refine ⟨_, applyOpt_str (Or.inl rfl) hv hval hpos, ?_⟩
    simp [setOptProp, Term.setG, Term.getG, Term.getN, OV.toFV]
    cases t.pN <;> cases t.peng <;> rfl
  · have hv : validVals "n".toList = some (strs ["s", "p", "x"]) := rfl
    rw [hv] at hval
    obtain ⟨x, rfl⟩ := strs_contains hval
    refine ⟨_, applyOpt_str (Or.inr (Or.inl rfl)) hv hval hpos, ?_⟩
    simp [setOptProp, Term.setN, Term.getG, Term.getN, OV.toFV]
    cases t.pG <;> cases t.peng <;> rfl
  · have hv : validVals "f".toList = some (strs ["co", "su"]) := rfl
    rw [hv] at hval
    obtain ⟨x, rfl⟩ := strs_contains hval
    refine ⟨_, applyOpt_str (Or.inr (Or.inr rfl)) hv hval hpos, ?_⟩
    simp [setOptProp, Term.getG, Term.getN, OV.toFV]

end Pyrealb.Lemmatize
