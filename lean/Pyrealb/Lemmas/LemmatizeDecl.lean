import Pyrealb.Lemmas.Lemmatize
/-! Helper lemmas of `expandDecl_sound` (C18): the declension model (C02) evaluated on a terminal whose table, stem
    and request-relevant properties are known; the options `genExp` infers applied to a fresh terminal. -/
namespace Pyrealb.Lemmatize
open Pyrealb Pyrealb.Decl

theorem lexPos_elim {lex : Lex} {lemma pos : Str} {entry : PosEntry} (h : lexPos lex lemma pos = some entry) :
    ∃ info, lookup lemma lex = some info ∧ lookup pos info = some entry := by
  unfold lexPos at h
  split at h
  · cases h
  · rename_i info hinfo
    exact ⟨info, hinfo, h⟩

theorem nounChecks_ok {lex : Lex} {t : Term} {entry : PosEntry} {lang : Lang} {g n : FV} {form : Str}
    (hlang : t.lang = lang) (hlex : lexPos lex t.lemma "N".toList = some entry)
    (hveto : match lang with
      | .fr => ∃ lg, lookup "g".toList entry = some lg ∧ (lg.toFV = FV.x ∨ lg.toFV = g)
      | .en => n ≠ fvStr "p" ∨ ∃ cn, lookup "cnt".toList entry = some cn ∧ cn ≠ LV.str "no".toList) :
    nounChecks lex t g n form = .ok ⟨[form], t.warns⟩ := by
  obtain ⟨info, hinfo, hentry⟩ := lexPos_elim hlex
  unfold nounChecks
  cases lang with
  | fr =>
    obtain ⟨lg, hlg, hor⟩ := hveto
    simp only [hlang, hinfo, hentry, hlg]
    have : ¬ (lg.toFV ≠ FV.x ∧ lg.toFV ≠ g) := by
      rintro ⟨h1, h2⟩; rcases hor with h | h
      · exact h1 h
      · exact h2 h
    simp [this, pure, Except.pure]
  | en =>
    simp only [hlang]
    rcases hveto with hn | ⟨cn, hcn, hne⟩
    · have hn' : ¬ (n = FV.str ['p']) := hn
      simp [hn', pure, Except.pure]
    · have hentry' : lookup ['N'] info = some entry := hentry
      have hcn' : lookup ['c', 'n', 't'] entry = some cn := hcn
      have hne' : ¬ (cn = LV.str ['n', 'o']) := hne
      by_cases hp : n = FV.str ['p']
      · simp [hp, hinfo, hentry', hcn', hne', pure, Except.pure]
      · simp [hp, pure, Except.pure]

theorem removeEmpty_single (x : Str) : Decl.removeEmpty [x] = [x] := by
  simp [Decl.removeEmpty, removeEmptyAux]

theorem prepareNDP_N {rules : Decl.Rules} {lex : Lex} {t : Term} (tb : Table) (g n : FV)
    (hpos : t.pos = .N) (hown : t.pOwn = none) :
    prepareNDP rules lex t tb g n false = .ok (t, tb.rows, [(Feat.g, g), (Feat.n, n)]) := by
  simp [prepareNDP, reqPerson, majesticStep, hpos, ownStep, hown, baseKeyVals, bind, Except.bind, pure, Except.pure]

/-- a noun whose table and stem are known: `realTerm` is `stem ++` the ending `bestMatch` selects (or the single
    row's), when no veto applies -/
theorem realTerm_N {rules : Decl.Rules} {lex : Lex} {t : Term} {name radical : Str} {tb : Table} {entry : PosEntry}
    {lang : Lang} {val : Str}
    (hpos : t.pos = .N) (hlang : t.lang = lang) (htab : t.tab = some name) (hstem : t.stem = some radical)
    (hown : t.pOwn = none) (hw : t.warns = 0) (htb : lookup name rules = some tb)
    (hlex : lexPos lex t.lemma "N".toList = some entry)
    (hsel : match tb.rows with
      | [d1] => d1.val = val
      | rows => bestMatch rows [(Feat.g, if t.getG = .none then fvStr "m" else t.getG),
                                (Feat.n, if t.getN = .none then fvStr "s" else t.getN)] = some val)
    (hveto : match lang with
      | .fr => ∃ lg, lookup "g".toList entry = some lg ∧
          (lg.toFV = FV.x ∨ lg.toFV = (if t.getG = .none then fvStr "m" else t.getG))
      | .en => (if t.getN = .none then fvStr "s" else t.getN) ≠ fvStr "p" ∨
          ∃ cn, lookup "cnt".toList entry = some cn ∧ cn ≠ LV.str "no".toList) :
    realTerm rules lex t = .ok ⟨[radical ++ val], 0⟩ := by
  have hnc := nounChecks_ok (lex := lex) (t := t) (entry := entry) (lang := lang)
    (g := if t.getG = .none then fvStr "m" else t.getG) (n := if t.getN = .none then fvStr "s" else t.getN)
    (form := radical ++ val) hlang hlex hveto
  unfold realTerm realGen
  simp only [hpos, htab]
  unfold declineGen
  simp only [htb, hstem, hpos]
  unfold declineNDP
  simp only [hpos]
  have e1 : (Pos.N = Pos.A ∨ Pos.N = Pos.Adv) = False := by simp
  have e2 : ∀ x : FV, ((Pos.N = Pos.D ∨ True) ∧ x = FV.none) = (x = FV.none) := by intro x; simp
  simp only [e1, e2, if_false, if_true]
  have hg : (FV.str ['m']) = fvStr "m" := rfl
  have hn : (FV.str ['s']) = fvStr "s" := rfl
  rw [hg, hn]
  cases hrows : tb.rows with
  | nil =>
    rw [hrows] at hsel
    simp only [prepareNDP_N tb _ _ hpos hown, bind, Except.bind, hrows]
    simp only [hsel, hstem, hpos, if_true, hnc]
    simp [removeEmpty_single, hw, pure, Except.pure]
  | cons d ds =>
    cases ds with
    | nil =>
      rw [hrows] at hsel
      simp only [] at hsel
      subst hsel
      simp only [bind, Except.bind, hnc]
      simp [removeEmpty_single, hw, pure, Except.pure]
    | cons d2 ds2 =>
      rw [hrows] at hsel
      simp only [prepareNDP_N tb _ _ hpos hown, bind, Except.bind, hrows]
      simp only [hsel, hstem, hpos, if_true, hnc]
      simp [removeEmpty_single, hw, pure, Except.pure]

/-- a French adjective (or adverb with a declension table) without `f`: `stem ++` the ending `bestMatch` selects -/
theorem realTerm_Afr {rules : Decl.Rules} {lex : Lex} {t : Term} {name radical : Str} {tb : Table} {val : Str}
    (hpos : t.pos = .A ∨ t.pos = .Adv) (hlang : t.lang = .fr) (htab : t.tab = some name)
    (hstem : t.stem = some radical) (hf : t.pF = none) (hw : t.warns = 0) (htb : lookup name rules = some tb)
    (hsel : bestMatch tb.rows [(Feat.g, t.getG), (Feat.n, t.getN)] = some val) :
    realTerm rules lex t = .ok ⟨[radical ++ val], 0⟩ := by
  unfold realTerm realGen
  rcases hpos with hpos | hpos <;>
  · simp only [hpos, htab]
    unfold declineGen
    simp only [htb, hstem, hpos, hlang]
    simp [declineAdjFr, hsel, hf, bind, Except.bind, pure, Except.pure, removeEmpty_single, hw]

/-- an English adjective or adverb without `f`: the lemma -/
theorem realTerm_Aen_plain {rules : Decl.Rules} {lex : Lex} {t : Term} {name radical : Str} {tb : Table}
    (hpos : t.pos = .A ∨ t.pos = .Adv) (hlang : t.lang = .en) (htab : t.tab = some name)
    (hstem : t.stem = some radical) (hf : t.pF = none) (hw : t.warns = 0) (htb : lookup name rules = some tb) :
    realTerm rules lex t = .ok ⟨[t.lemma], 0⟩ := by
  unfold realTerm realGen
  rcases hpos with hpos | hpos <;>
  · simp only [hpos, htab]
    unfold declineGen
    simp only [htb, hstem, hpos, hlang]
    simp [declineAdjEn, hf, bind, Except.bind, pure, Except.pure, removeEmpty_single, hw]

/-- an English adjective or adverb with `.f(co|su)` on a table other than `a1`/`b1` -/
theorem realTerm_Aen_f {rules : Decl.Rules} {lex : Lex} {t : Term} {name radical : Str} {tb : Table} {val fs : Str}
    (hpos : t.pos = .A ∨ t.pos = .Adv) (hlang : t.lang = .en) (htab : t.tab = some name)
    (hstem : t.stem = some radical) (hf : t.pF = some (.str fs)) (hw : t.warns = 0)
    (htb : lookup name rules = some tb) (ha1 : name ≠ "a1".toList) (hb1 : name ≠ "b1".toList)
    (hsel : bestMatch tb.rows [(Feat.f, .str fs)] = some val) :
    realTerm rules lex t = .ok ⟨[radical ++ val], 0⟩ := by
  have ha1' : ¬ (name = ['a', '1']) := ha1
  have hb1' : ¬ (name = ['b', '1']) := hb1
  unfold realTerm realGen
  rcases hpos with hpos | hpos <;>
  · simp only [hpos, htab]
    unfold declineGen
    simp only [htb, hstem, hpos, hlang]
    simp [declineAdjEn, hf, ha1', hb1', adjRowsEn, hsel, bind, Except.bind, pure, Except.pure, removeEmpty_single, hw]

/-- `pF` after the option calls -/
def afterF (opts : List (Str × OV)) (pf : Option FV) : Option FV :=
  opts.foldl (fun acc o => if o.1 = "f".toList then some o.2.toFV else acc) pf

theorem strs_contains {l : List String} {v : OV} (h : (strs l).contains v = true) : ∃ x, v = .str x := by
  induction l with
  | nil => simp [strs] at h
  | cons a r ih =>
    simp only [strs, List.map_cons, List.contains_cons, Bool.or_eq_true, beq_iff_eq] at h
    rcases h with h | h
    · exact ⟨_, h⟩
    · exact ih (by simpa [strs] using h)

/-- a valid string value of `g`, `n` or `f` is stored -/
theorem applyOpt_str {t : Term} {name x : Str} {vals : List OV}
    (hname : name = "g".toList ∨ name = "n".toList ∨ name = "f".toList)
    (hv : validVals name = some vals) (hin : vals.contains (OV.str x) = true) (hpos : t.pos ∈ allowedPos name) :
    applyOpt t name (.str x) = .ok (setOptProp t name (.str x)) := by
  have hm : ¬ (name = ['m', 'a', 'j', 'e']) := by rcases hname with rfl | rfl | rfl <;> decide
  have hin' : OV.str x ∈ vals := by simpa using hin
  unfold applyOpt
  simp [hm, hv, hpos, hin', OV.toFV, pure, Except.pure]

/-- what one valid option call `g`/`n`/`f` does to a terminal -/
theorem applyOpt_valid {t : Term} {name : Str} {v : OV}
    (h : ((name = "g".toList ∨ name = "n".toList ∨ name = "f".toList) && decide (t.pos ∈ allowedPos name) &&
      match validVals name with
      | some vals => vals.contains v
      | none => false) = true) :
    ∃ t1, applyOpt t name v = .ok t1 ∧ t1.pos = t.pos ∧ t1.lang = t.lang ∧ t1.lemma = t.lemma ∧ t1.tab = t.tab ∧
      t1.stem = t.stem ∧ t1.pOwn = t.pOwn ∧ t1.warns = t.warns ∧
      t1.getG = (if name = "g".toList then v.toFV else t.getG) ∧
      t1.getN = (if name = "n".toList then v.toFV else t.getN) ∧
      t1.pF = (if name = "f".toList then some v.toFV else t.pF) := by
  simp only [Bool.and_eq_true, decide_eq_true_eq, Bool.decide_or, Bool.or_eq_true] at h
  obtain ⟨⟨hname, hpos⟩, hval⟩ := h
  rcases hname with rfl | rfl | rfl
  · have hv : validVals "g".toList = some (strs ["m", "f", "n", "x"]) := rfl
    rw [hv] at hval
    obtain ⟨x, rfl⟩ := strs_contains hval
    refine ⟨_, applyOpt_str (Or.inl rfl) hv hval hpos, ?_⟩
    simp [setOptProp, Term.setG, Term.getG, Term.getN, OV.toFV]
    cases t.pN <;> cases t.peng <;> rfl
  · have hv : validVals "n".toList = some (strs ["s", "p", "x"]) := rfl
    rw [hv] at hval
    obtain ⟨x, rfl⟩ := strs_contains hval
    refine ⟨_, applyOpt_str (Or.inr (Or.inl rfl)) hv hval hpos, ?_⟩
    simp [setOptProp, Term.setN, Term.getG, Term.getN, OV.toFV]
    cases t.pG <;> cases t.peng <;> rfl
  · have hv : validVals "f".toList = some (strs ["co", "su"]) := rfl
    rw [hv] at hval
    obtain ⟨x, rfl⟩ := strs_contains hval
    refine ⟨_, applyOpt_str (Or.inr (Or.inr rfl)) hv hval hpos, ?_⟩
    simp [setOptProp, Term.getG, Term.getN, OV.toFV]

/-- the option calls of a valid option list applied to a terminal -/
theorem applyOpts_valid : ∀ (opts : List (Str × OV)) (t : Term), optsValid t.pos opts = true →
    ∃ t1, applyOpts t opts = .ok t1 ∧ t1.pos = t.pos ∧ t1.lang = t.lang ∧ t1.lemma = t.lemma ∧ t1.tab = t.tab ∧
      t1.stem = t.stem ∧ t1.pOwn = t.pOwn ∧ t1.warns = t.warns ∧
      t1.getG = afterOpts "g" opts t.getG ∧ t1.getN = afterOpts "n" opts t.getN ∧ t1.pF = afterF opts t.pF
  | [], t, _ => ⟨t, rfl, rfl, rfl, rfl, rfl, rfl, rfl, rfl, rfl, rfl, rfl⟩
  | (k, v) :: r, t, h => by
    unfold optsValid at h
    rw [List.all_cons, Bool.and_eq_true] at h
    obtain ⟨t', ht', hpos, hlang, hlem, htab, hstem, hown, hw, hg, hn, hf⟩ := applyOpt_valid (t := t) (name := k) (v := v) h.1
    have hr : optsValid t'.pos r = true := by rw [hpos]; exact h.2
    obtain ⟨t1, ht1, hpos1, hlang1, hlem1, htab1, hstem1, hown1, hw1, hg1, hn1, hf1⟩ := applyOpts_valid r t' hr
    refine ⟨t1, ?_, hpos1.trans hpos, hlang1.trans hlang, hlem1.trans hlem, htab1.trans htab, hstem1.trans hstem,
      hown1.trans hown, hw1.trans hw, ?_, ?_, ?_⟩
    · simp [applyOpts, ht', bind, Except.bind, ht1]
    · rw [hg1, hg]; simp [afterOpts, List.foldl_cons]
    · rw [hn1, hn]; simp [afterOpts, List.foldl_cons]
    · rw [hf1, hf]; simp [afterF, List.foldl_cons]

theorem afterF_none (opts : List (Str × OV)) (acc : Option OV) :
    afterF opts (acc.map OV.toFV) =
      (opts.foldl (fun acc o => if o.1 = "f".toList then some o.2 else acc) acc).map OV.toFV := by
  induction opts generalizing acc with
  | nil => rfl
  | cons o r ih =>
    simp only [afterF, List.foldl_cons]
    by_cases h : o.1 = "f".toList
    · simp only [h, if_true]
      exact ih (some o.2)
    · simp only [h, if_false]
      exact ih acc

theorem afterF_optVal (opts : List (Str × OV)) : afterF opts none = (optVal "f" opts).map OV.toFV :=
  afterF_none opts none

theorem declLoop_mem {lang : Lang} {pos lemma radical : Str} {entry : PosEntry} :
    ∀ (rows : List Row) (seen : List Str) (l : List Pair),
    declLoop lang pos lemma entry radical rows seen = .ok l →
    ∀ p ∈ l, ∃ d ∈ firstRows rows seen, ∃ e, genExp lang d pos lemma entry = .ok (some e) ∧ p = (radical ++ d.val, e)
  | [], seen, l, h, p, hp => by
    simp only [declLoop, Except.ok.injEq] at h
    subst h; cases hp
  | d :: ds, seen, l, h, p, hp => by
    unfold declLoop at h
    unfold firstRows
    by_cases hs : seen.contains d.val = true
    · simp only [hs, if_true] at h ⊢
      exact declLoop_mem ds seen l h p hp
    · simp only [hs] at h ⊢
      simp only [Bool.false_eq_true, if_false] at h ⊢
      split at h
      · cases h
      · rename_i r hr
        split at h
        · cases h
        · rename_i rest hrest
          cases r with
          | none =>
            simp only [Except.ok.injEq] at h
            subst h
            obtain ⟨d', hd', e, he, hpe⟩ := declLoop_mem ds _ rest hrest p hp
            exact ⟨d', List.mem_cons_of_mem _ hd', e, he, hpe⟩
          | some e =>
            simp only [Except.ok.injEq] at h
            subst h
            rcases List.mem_cons.mp hp with hp | hp
            · exact ⟨d, List.mem_cons_self, e, hr, hp⟩
            · obtain ⟨d', hd', e', he, hpe⟩ := declLoop_mem ds _ rest hrest p hp
              exact ⟨d', List.mem_cons_of_mem _ hd', e', he, hpe⟩

/-- the options `genExp` infers for N, A, Adv do not depend on the lemma -/
def relemma (l : Str) (e : Exp) : Exp := { e with lemma := l }

theorem genExpN_relemma (lang : Lang) (d : Row) (e : Exp) (lg cn : Option LV) (l : Str) :
    genExpN lang d (relemma l e) lg cn = (genExpN lang d e lg cn).map (Option.map (relemma l)) := by
  unfold genExpN
  cases lang <;> simp only [] <;> repeat' split
  all_goals first | rfl | (simp [Except.map, relemma, Exp.opt])

theorem genExpA_relemma (lang : Lang) (d : Row) (e : Exp) (l : Str) :
    genExpA lang d (relemma l e) = (genExpA lang d e).map (relemma l) := by
  unfold genExpA
  cases lang <;> simp only [] <;> repeat' split
  all_goals first | rfl | (simp [Except.map, relemma, Exp.opt])

theorem genExpCore_relemma (lang : Lang) (d : Row) {pos : Pos} (hcls : pos = .N ∨ pos = .A ∨ pos = .Adv)
    (l : Str) (lg cn : Option LV) :
    genExpCore lang d pos.name l lg cn = (genExpCore lang d pos.name [] lg cn).map (Option.map (relemma l)) := by
  have hinit : ∀ p : Str, expInit p l = relemma l (expInit p []) := fun _ => rfl
  rcases hcls with rfl | rfl | rfl
  · simp only [genExpCore, Pos.name, if_true]
    rw [hinit, genExpN_relemma]
  · have h1 : ¬ ("A".toList = "N".toList) := by decide
    have h2 : ¬ ("A".toList = "Pro".toList ∨ "A".toList = "D".toList) := by decide
    simp only [genExpCore, Pos.name, h1, h2, if_false, if_true]
    rw [hinit, genExpA_relemma]
    cases genExpA lang d (expInit "A".toList []) <;> rfl
  · have h1 : ¬ ("Adv".toList = "N".toList) := by decide
    have h2 : ¬ ("Adv".toList = "Pro".toList ∨ "Adv".toList = "D".toList) := by decide
    have h3 : ¬ ("Adv".toList = "A".toList) := by decide
    simp only [genExpCore, Pos.name, h1, h2, h3, if_false, if_true]
    cases lang
    · cases d.get .f <;> rfl
    · rfl

theorem opt_pos (e : Exp) (n : String) (v : OV) : (e.opt n v).pos = e.pos := rfl
theorem opt_lemma (e : Exp) (n : String) (v : OV) : (e.opt n v).lemma = e.lemma := rfl

theorem genExpN_pos {lang : Lang} {d : Row} {e e' : Exp} {lg cn : Option LV}
    (h : genExpN lang d e lg cn = .ok (some e')) : e'.pos = e.pos := by
  unfold genExpN at h
  cases lang <;> simp only [] at h <;> repeat' split at h
  all_goals (cases h <;> first | rfl | (split <;> rfl) | (split <;> split <;> rfl))

theorem genExpA_pos {lang : Lang} {d : Row} {e e' : Exp} (h : genExpA lang d e = .ok e') : e'.pos = e.pos := by
  unfold genExpA at h
  cases lang <;> simp only [] at h <;> repeat' split at h
  all_goals (cases h <;> first | rfl | (split <;> rfl) | (split <;> split <;> rfl))

theorem firstRows_sub : ∀ (rows : List Row) (seen : List Str) (d : Row), d ∈ firstRows rows seen → d ∈ rows
  | [], _, d, h => by cases h
  | r :: rs, seen, d, h => by
    unfold firstRows at h
    split at h
    · exact List.mem_cons_of_mem _ (firstRows_sub rs seen d h)
    · rcases List.mem_cons.mp h with h | h
      · exact h ▸ List.mem_cons_self
      · exact List.mem_cons_of_mem _ (firstRows_sub rs _ d h)

theorem stripLead_noLead {x : Str} (h : noLeadSpace x = true) : Decl.stripLead x = x := by
  cases x with
  | nil => rfl
  | cons c r =>
    simp only [noLeadSpace, List.head?_cons, bne_iff_ne, ne_eq, Option.some.injEq] at h
    unfold Decl.stripLead
    split
    · rename_i r' heq
      cases heq
      exact absurd rfl h
    · rfl

theorem stem_append_ending {x suf : Str} (h : endsWith x suf = true) : dropRight x suf.length ++ suf = x := by
  unfold endsWith at h
  simp only [Bool.and_eq_true, decide_eq_true_eq, beq_iff_eq] at h
  unfold dropRight
  have := List.take_append_drop (x.length - suf.length) x
  rw [h.2] at this
  exact this

theorem genExpCore_pos {lang : Lang} {d : Row} {pos : Pos} (hcls : pos = .N ∨ pos = .A ∨ pos = .Adv)
    {l : Str} {lg cn : Option LV} {e : Exp} (h : genExpCore lang d pos.name l lg cn = .ok (some e)) :
    e.pos = pos.name := by
  rcases hcls with rfl | rfl | rfl
  · simp only [genExpCore, Pos.name, if_true] at h
    exact genExpN_pos h
  · have h1 : ¬ ("A".toList = "N".toList) := by decide
    have h2 : ¬ ("A".toList = "Pro".toList ∨ "A".toList = "D".toList) := by decide
    simp only [genExpCore, Pos.name, h1, h2, if_false, if_true] at h
    cases hg : genExpA lang d (expInit "A".toList l) with
    | error c => rw [hg] at h; cases h
    | ok e' =>
      rw [hg] at h
      cases h
      exact genExpA_pos hg
  · have h1 : ¬ ("Adv".toList = "N".toList) := by decide
    have h2 : ¬ ("Adv".toList = "Pro".toList ∨ "Adv".toList = "D".toList) := by decide
    have h3 : ¬ ("Adv".toList = "A".toList) := by decide
    simp only [genExpCore, Pos.name, h1, h2, h3, if_false, if_true] at h
    cases lang
    · simp only [] at h
      split at h <;> (cases h; rfl)
    · cases h; rfl

/-- `realTerm_N` with the hypotheses in the Boolean form used by `rowOK` -/
theorem realTerm_N' {rules : Decl.Rules} {lex : Lex} {t : Term} {name radical : Str} {tb : Table} {entry : PosEntry}
    {lang : Lang} {val : Str}
    (hpos : t.pos = .N) (hlang : t.lang = lang) (htab : t.tab = some name) (hstem : t.stem = some radical)
    (hown : t.pOwn = none) (hw : t.warns = 0) (htb : lookup name rules = some tb)
    (hlex : lexPos lex t.lemma "N".toList = some entry)
    (hsel : selRow tb.rows [(Feat.g, dfltG t.getG), (Feat.n, dfltN t.getN)] val = true)
    (hveto : nounOK lang (lookup "g".toList entry) (lookup "cnt".toList entry) (dfltG t.getG) (dfltN t.getN) = true) :
    realTerm rules lex t = .ok ⟨[radical ++ val], 0⟩ := by
  apply realTerm_N hpos hlang htab hstem hown hw htb hlex
  · unfold selRow at hsel
    cases hrows : tb.rows with
    | nil => rw [hrows] at hsel; simpa [dfltG, dfltN] using hsel
    | cons d1 ds =>
      cases ds with
      | nil => rw [hrows] at hsel; simpa using hsel
      | cons d2 ds2 => rw [hrows] at hsel; simpa [dfltG, dfltN] using hsel
  · unfold nounOK at hveto
    cases lang with
    | fr =>
      simp only [] at hveto ⊢
      cases hlg : lookup "g".toList entry with
      | none => rw [hlg] at hveto; cases hveto
      | some lg =>
        rw [hlg] at hveto
        exact ⟨lg, rfl, by simpa [dfltG] using of_decide_eq_true hveto⟩
    | en =>
      simp only [Bool.or_eq_true, decide_eq_true_eq] at hveto ⊢
      rcases hveto with h | h
      · exact Or.inl (by simpa [dfltN] using h)
      · cases hcn : lookup "cnt".toList entry with
        | none => rw [hcn] at h; cases h
        | some cn =>
          rw [hcn] at h
          exact Or.inr ⟨cn, rfl, by simpa using h⟩

theorem expandDecl_core {env : Env} {lex : Lex} {verb : Option Conj.Verb} {pos : Pos} {lemma name : Str}
    {tb : Table} {entry : PosEntry} {c : Ctor} {l : List Pair}
    (hcls : pos = .N ∨ pos = .A ∨ pos = .Adv)
    (htb : lookup name env.decl = some tb) (hend : endsWith lemma tb.ending = true)
    (hsp : noLeadSpace lemma = true)
    (hctor : ctorOK env.decl lex env.lang pos lemma name (dropRight lemma tb.ending.length) entry c = true)
    (hd : DistinctRows env.lang pos name tb c = true)
    (hl : expandDeclension env.lang env.decl lemma pos.name (.str name) entry = .ok l) :
    ∀ p ∈ l, realizeExp env lex verb p.2 = .ok (p.1, 0) := by
  intro p hp
  unfold expandDeclension at hl
  simp only [htb, hend, if_true] at hl
  obtain ⟨d, hdm, e, he, rfl⟩ := declLoop_mem _ _ _ hl p hp
  unfold ctorOK at hctor
  cases hmk : mkTerm env.decl lex env.lang pos lemma with
  | error cr => simp [hmk] at hctor
  | ok t0 =>
    simp only [hmk, Bool.and_eq_true, decide_eq_true_eq] at hctor
    obtain ⟨⟨⟨⟨⟨⟨⟨⟨⟨⟨⟨⟨h_lang, h_pos⟩, h_lemma⟩, h_tab⟩, h_stem⟩, h_g⟩, h_n⟩, h_own⟩, h_f⟩, h_w⟩, h_lex⟩, h_lg⟩, h_cn⟩ := hctor
    have he' : genExpCore env.lang d pos.name lemma c.lexG c.cnt = .ok (some e) := by
      rw [← h_lg, ← h_cn]; exact he
    rw [genExpCore_relemma env.lang d hcls] at he'
    cases hg0 : genExpCore env.lang d pos.name [] c.lexG c.cnt with
    | error cr => rw [hg0] at he'; cases he'
    | ok o0 =>
      cases o0 with
      | none => rw [hg0] at he'; cases he'
      | some e0 =>
        rw [hg0] at he'
        simp only [Except.map, Option.map, Except.ok.injEq, Option.some.injEq] at he'
        subst he'
        unfold DistinctRows at hd
        simp only [Bool.and_eq_true, List.all_eq_true] at hd
        obtain ⟨hrsp, hall⟩ := hd
        have hrow := hall d hdm
        rw [hg0] at hrow
        simp only [] at hrow
        have hdval : noLeadSpace d.val = true := by
          unfold rowNoLeadSpace at hrsp
          rw [List.all_eq_true] at hrsp
          exact hrsp d (firstRows_sub _ _ d hdm)
        have hform := noLead_stem_append tb.ending.length hsp hdval
        have hpos0 := genExpCore_pos hcls hg0
        have hposV : ¬ ((relemma lemma e0).pos = "V".toList) := by
          rw [show (relemma lemma e0).pos = e0.pos from rfl, hpos0]
          rcases hcls with rfl | rfl | rfl <;> decide
        have hposOf : posOf? (relemma lemma e0).pos = some pos := by
          rw [show (relemma lemma e0).pos = e0.pos from rfl, hpos0]
          rcases hcls with rfl | rfl | rfl <;> rfl
        unfold realizeExp
        simp only [hposV, if_false, hposOf]
        unfold realize
        simp only [show (relemma lemma e0).lemma = lemma from rfl, show (relemma lemma e0).opts = e0.opts from rfl,
          hmk, bind, Except.bind]
        unfold rowOK at hrow
        rw [Bool.and_eq_true] at hrow
        obtain ⟨hvalid, hrest⟩ := hrow
        obtain ⟨t1, ht1, p1, p2, p3, p4, p5, p6, p7, pg, pn, pf⟩ :=
          applyOpts_valid e0.opts t0 (by rw [h_pos]; exact hvalid)
        rw [ht1]
        simp only []
        rw [h_g] at pg
        rw [h_n] at pn
        rw [h_f, afterF_optVal] at pf
        have hdet : ∀ x : Str, noLeadSpace x = true → detok [x] = x := fun x hx => by
          simp [detok, stripLead_noLead hx]
        rcases hcls with rfl | rfl | rfl
        · -- nouns
          simp only [Bool.and_eq_true, beq_iff_eq] at hrest
          obtain ⟨⟨_, hsel⟩, hveto⟩ := hrest
          have hlexN : lexPos lex t1.lemma "N".toList = some entry := by rw [p3, h_lemma]; exact h_lex
          rw [realTerm_N' (p1.trans h_pos) (p2.trans h_lang) (p4.trans h_tab) (p5.trans h_stem) (p6.trans h_own)
            (p7.trans h_w) htb hlexN (by rw [pg, pn]; exact hsel) (by rw [pg, pn, h_lg, h_cn]; exact hveto)]
          simp [hdet _ hform]
        · -- adjectives
          cases hlang : env.lang with
          | fr =>
            rw [hlang] at hrest
            simp only [Bool.and_eq_true, beq_iff_eq] at hrest
            obtain ⟨hnof, hsel⟩ := hrest
            rw [hnof] at pf
            rw [realTerm_Afr (Or.inl (p1.trans h_pos)) ((p2.trans h_lang).trans hlang) (p4.trans h_tab)
              (p5.trans h_stem) pf (p7.trans h_w) htb (by rw [pg, pn]; exact hsel)]
            simp [hdet _ hform]
          | en =>
            rw [hlang] at hrest
            simp only [] at hrest
            cases hov : optVal "f" e0.opts with
            | none =>
              rw [hov] at hrest pf
              simp only [beq_iff_eq] at hrest
              rw [realTerm_Aen_plain (Or.inl (p1.trans h_pos)) ((p2.trans h_lang).trans hlang) (p4.trans h_tab)
                (p5.trans h_stem) pf (p7.trans h_w) htb]
              have : t1.lemma = dropRight lemma tb.ending.length ++ d.val := by
                rw [p3, h_lemma, hrest, stem_append_ending hend]
              simp only [this]
              simp [hdet _ hform]
            | some fv =>
              rw [hov] at hrest pf
              cases fv with
              | str fs =>
                simp only [Bool.and_eq_true, decide_eq_true_eq, beq_iff_eq] at hrest
                obtain ⟨⟨ha1, hb1⟩, hsel⟩ := hrest
                rw [realTerm_Aen_f (Or.inl (p1.trans h_pos)) ((p2.trans h_lang).trans hlang) (p4.trans h_tab)
                  (p5.trans h_stem) pf (p7.trans h_w) htb ha1 hb1 hsel]
                simp [hdet _ hform]
              | int i => cases hrest
              | none => cases hrest
              | bool b => cases hrest
        · -- adverbs
          cases hlang : env.lang with
          | fr =>
            rw [hlang] at hrest
            simp only [Bool.and_eq_true, beq_iff_eq] at hrest
            obtain ⟨hnof, hsel⟩ := hrest
            rw [hnof] at pf
            rw [realTerm_Afr (Or.inr (p1.trans h_pos)) ((p2.trans h_lang).trans hlang) (p4.trans h_tab)
              (p5.trans h_stem) pf (p7.trans h_w) htb (by rw [pg, pn]; exact hsel)]
            simp [hdet _ hform]
          | en =>
            rw [hlang] at hrest
            simp only [] at hrest
            cases hov : optVal "f" e0.opts with
            | none =>
              rw [hov] at hrest pf
              simp only [beq_iff_eq] at hrest
              rw [realTerm_Aen_plain (Or.inr (p1.trans h_pos)) ((p2.trans h_lang).trans hlang) (p4.trans h_tab)
                (p5.trans h_stem) pf (p7.trans h_w) htb]
              have : t1.lemma = dropRight lemma tb.ending.length ++ d.val := by
                rw [p3, h_lemma, hrest, stem_append_ending hend]
              simp only [this]
              simp [hdet _ hform]
            | some fv =>
              rw [hov] at hrest pf
              cases fv with
              | str fs =>
                simp only [Bool.and_eq_true, decide_eq_true_eq, beq_iff_eq] at hrest
                obtain ⟨⟨ha1, hb1⟩, hsel⟩ := hrest
                rw [realTerm_Aen_f (Or.inr (p1.trans h_pos)) ((p2.trans h_lang).trans hlang) (p4.trans h_tab)
                  (p5.trans h_stem) pf (p7.trans h_w) htb ha1 hb1 hsel]
                simp [hdet _ hform]
              | int i => cases hrest
              | none => cases hrest
              | bool b => cases hrest

/-! ### completeness of the declension expansion -/

theorem declLoop_complete {lang : Lang} {pos lemma radical : Str} {entry : PosEntry} :
    ∀ (rows : List Row) (seen : List Str) (l : List Pair),
    declLoop lang pos lemma entry radical rows seen = .ok l →
    ∀ d ∈ rows, d.val ∉ seen → (∀ d' ∈ rows, d'.val = d.val → genExp lang d' pos lemma entry ≠ .ok none) →
    ∃ e, (radical ++ d.val, e) ∈ l
  | [], _, _, _, d, hd, _, _ => by cases hd
  | d0 :: ds, seen, l, h, d, hd, hns, hgen => by
    unfold declLoop at h
    by_cases hs : seen.contains d0.val = true
    · simp only [hs, if_true] at h
      have hne : d ≠ d0 := by
        intro he; subst he
        exact hns (by simpa using hs)
      have hd' : d ∈ ds := by
        rcases List.mem_cons.mp hd with h1 | h1
        · exact absurd h1 hne
        · exact h1
      exact declLoop_complete ds seen l h d hd' hns (fun d' hd'' hv => hgen d' (List.mem_cons_of_mem _ hd'') hv)
    · simp only [hs] at h
      simp only [Bool.false_eq_true, if_false] at h
      split at h
      · cases h
      · rename_i r hr
        split at h
        · cases h
        · rename_i rest hrest
          by_cases hv : d0.val = d.val
          · have hr' := hgen d0 List.mem_cons_self hv
            cases r with
            | none => exact absurd hr hr'
            | some e =>
              simp only [Except.ok.injEq] at h
              subst h
              rw [← hv]
              exact ⟨e, List.mem_cons_self⟩
          · have hd' : d ∈ ds := by
              rcases List.mem_cons.mp hd with h1 | h1
              · subst h1; exact absurd rfl hv
              · exact h1
            have hns' : d.val ∉ seen ++ [d0.val] := by
              intro hm
              rcases List.mem_append.mp hm with h1 | h1
              · exact hns h1
              · simp only [List.mem_singleton] at h1
                exact hv h1.symm
            obtain ⟨e, he⟩ := declLoop_complete ds _ rest hrest d hd' hns'
              (fun d' hd'' hv' => hgen d' (List.mem_cons_of_mem _ hd'') hv')
            cases r with
            | none =>
              simp only [Except.ok.injEq] at h
              subst h
              exact ⟨e, he⟩
            | some e0 =>
              simp only [Except.ok.injEq] at h
              subst h
              exact ⟨e, List.mem_cons_of_mem _ he⟩

/-- `genExp` answers `None` only for the plural row of an English noun that the lexicon marks uncountable -/
theorem genExp_none {lang : Lang} {d : Row} {pos lemma : Str} {entry : PosEntry}
    (h : genExp lang d pos lemma entry = .ok none) :
    lang = .en ∧ pos = "N".toList ∧ d.get .n = some (fvStr "p") ∧
      lookup "cnt".toList entry = some (LV.str "no".toList) := by
  unfold genExp genExpCore at h
  by_cases hN : pos = "N".toList
  · simp only [hN, if_true] at h
    unfold genExpN at h
    cases lang with
    | en =>
      simp only [] at h
      repeat' split at h
      all_goals (cases h)
      rename_i dn hdn hp cnt c hc hno
      exact ⟨rfl, hN, by rw [hdn, hp], by rw [hc, hno]⟩
    | fr =>
      simp only [] at h
      repeat' split at h
      all_goals cases h
  · simp only [hN, if_false] at h
    repeat' split at h
    all_goals first
      | cases h
      | (cases hg : genExpA lang d (expInit pos lemma) <;> rw [hg] at h <;> cases h)

end Pyrealb.Lemmatize
