import Pyrealb.Model.CoordSpec
/-! Helper lemmas for C09 (coordination). -/
namespace Pyrealb.Coord
open Pyrealb Pyrealb.Gen.CoordConsts

/-! ### tokens -/

/-- no token is the empty string -/
def Clean (l : List Str) : Prop := ∀ x ∈ l, x ≠ []

instance (l : List Str) : Decidable (Clean l) := by unfold Clean; infer_instance

theorem removeEmpty_clean {l : List Str} (h : Clean l) : removeEmpty l = l := by
  unfold removeEmpty
  have hf : l.filter (fun t => decide (t ≠ [])) = l := by
    apply List.filter_eq_self.mpr
    intro x hx
    simpa using h x hx
  simp only [hf]
  cases l with
  | nil => simp
  | cons a r => simp

theorem appendLast_nil : ∀ (l : List Str), appendLast l [] = l
  | [] => rfl
  | [t] => by simp [appendLast]
  | t :: u :: r => by simp [appendLast, appendLast_nil (u :: r)]

theorem appendLast_append (l : List Str) (x y : Str) : appendLast (appendLast l x) y = appendLast l (x ++ y) := by
  fun_induction appendLast l x with
  | case1 => simp [appendLast]
  | case2 t x => simp [appendLast]
  | case3 t u r x ih =>
    cases hr : appendLast (u :: r) x with
    | nil =>
      -- impossible: appendLast of a non-empty list is non-empty
      exfalso
      revert hr
      cases r <;> simp [appendLast]
    | cons v w =>
      rw [hr] at ih
      simp [appendLast, ih]

theorem clean_appendLast {l : List Str} (x : Str) (h : Clean l) : Clean (appendLast l x) := by
  fun_induction appendLast l x with
  | case1 => exact h
  | case2 t x =>
    intro y hy
    simp only [List.mem_singleton] at hy
    subst hy
    have := h t (by simp)
    cases t <;> simp_all
  | case3 t u r x ih =>
    intro y hy
    simp only [List.mem_cons] at hy
    rcases hy with rfl | hy
    · exact h _ (by simp)
    · exact ih (fun z hz => h z (by simp [hz])) y (by simpa using hy)

theorem clean_append {a b : List Str} (ha : Clean a) (hb : Clean b) : Clean (a ++ b) := by
  intro x hx
  rcases List.mem_append.mp hx with h | h
  · exact ha x h
  · exact hb x h

theorem appendLast_ne_nil {l : List Str} (x : Str) (h : l ≠ []) : appendLast l x ≠ [] := by
  fun_induction appendLast l x <;> simp_all

/-! ### the comma loop -/

theorem afterOf_comma (pt : Str → Str) : afterOf pt (some [comma]) = pt comma := by
  simp [afterOf]

theorem alone_of_none (pt : Str → Str) (m : Member) (h : m.a = none) : alone pt m = m.toks := by
  simp [alone, realWith, h, afterOf, appendLast_nil]

/-! ### findGenderNumberPerson -/

theorem gnpLoop_append (c : List Str) (acc : Acc) (m : Member) (ms : List Member) :
    gnpLoop c acc (m :: ms) = (match gnpStep c acc m with | .error e => .error e | .ok a => gnpLoop c a ms) := rfl

/-- the invariant of the loop when every member is of a counted type -/
theorem gnpLoop_spec (c : List Str) (ms : List Member) (hk : ∀ m ∈ ms, m.kind ∈ c) :
    ∀ (acc acc' : Acc), gnpLoop c acc ms = .ok acc' →
      acc'.nb = acc.nb + ms.length ∧
      (acc'.n = some plural ↔ acc.n = some plural ∨ ∃ m ∈ ms, m.n = some plural) ∧
      (acc'.g = some masc ↔ acc.g = some masc ∨ ∃ m ∈ ms, m.g = some masc) ∧
      (acc'.pe ≤ acc.pe ∧ (∀ m ∈ ms, ∀ k, m.peN = some k → acc'.pe ≤ k) ∧
        (acc'.pe = acc.pe ∨ ∃ m ∈ ms, m.peN = some acc'.pe)) := by
  induction ms with
  | nil =>
    intro acc acc' h
    simp only [gnpLoop, Except.ok.injEq] at h
    subst h
    simp
  | cons m ms ih =>
    intro acc acc' h
    have hm : m.kind ∈ c := hk m (by simp)
    have hms : ∀ m' ∈ ms, m'.kind ∈ c := fun m' h' => hk m' (by simp [h'])
    rw [gnpLoop_append] at h
    cases hs : gnpStep c acc m with
    | error e => rw [hs] at h; cases h
    | ok a =>
      rw [hs] at h
      obtain ⟨h1, h2, h3, h4, h5, h6⟩ := ih hms a acc' h
      -- what one step does
      have step : a.nb = acc.nb + 1 ∧
          (a.n = some plural ↔ acc.n = some plural ∨ m.n = some plural) ∧
          (a.g = some masc ↔ acc.g = some masc ∨ m.g = some masc) ∧
          (a.pe ≤ acc.pe ∧ (∀ k, m.peN = some k → a.pe ≤ k) ∧
            (a.pe = acc.pe ∨ m.peN = some a.pe)) := by
        unfold gnpStep at hs
        simp only [hm, if_true] at hs
        have hg : ((if m.g = some masc then some masc
              else if acc.g = none ∧ m.g ≠ none then m.g else acc.g) = some masc ↔
              acc.g = some masc ∨ m.g = some masc) := by
          by_cases hmg : m.g = some masc
          · simp [hmg]
          · by_cases hag : acc.g = none
            · simp [hmg, hag]
            · simp [hmg, hag]
        have hn : ((if m.n = some plural then some plural else acc.n) = some plural ↔
              acc.n = some plural ∨ m.n = some plural) := by
          by_cases hmn : m.n = some plural <;> simp [hmn]
        cases hpe : m.pe with
        | none =>
          rw [hpe] at hs
          simp only [Except.ok.injEq] at hs
          subst hs
          exact ⟨rfl, hn, hg, Nat.le_refl _, by simp [Member.peN, hpe], Or.inl rfl⟩
        | some v =>
          rw [hpe] at hs
          simp only at hs
          cases hv : v.nat? with
          | none => rw [hv] at hs; cases hs
          | some k =>
            rw [hv] at hs
            simp only [Except.ok.injEq] at hs
            subst hs
            have hpn : m.peN = some k := by simp [Member.peN, hpe, hv]
            refine ⟨rfl, hn, hg, ?_, ?_, ?_⟩
            · show (if k < acc.pe then k else acc.pe) ≤ acc.pe
              split <;> omega
            · intro k' hk'
              rw [hpn] at hk'
              cases hk'
              show (if k < acc.pe then k else acc.pe) ≤ k
              split <;> omega
            · show (if k < acc.pe then k else acc.pe) = acc.pe ∨ m.peN = some (if k < acc.pe then k else acc.pe)
              by_cases hlt : k < acc.pe <;> simp [hlt, hpn]
      obtain ⟨s1, s2, s3, s4, s5, s6⟩ := step
      refine ⟨by simp [h1, s1]; omega, ?_, ?_, ?_, ?_, ?_⟩
      · rw [h2, s2]
        constructor
        · rintro ((h | h) | ⟨m', hm', hp⟩)
          · exact Or.inl h
          · exact Or.inr ⟨m, by simp, h⟩
          · exact Or.inr ⟨m', by simp [hm'], hp⟩
        · rintro (h | ⟨m', hm', hp⟩)
          · exact Or.inl (Or.inl h)
          · simp only [List.mem_cons] at hm'
            rcases hm' with rfl | hm'
            · exact Or.inl (Or.inr hp)
            · exact Or.inr ⟨m', hm', hp⟩
      · rw [h3, s3]
        constructor
        · rintro ((h | h) | ⟨m', hm', hp⟩)
          · exact Or.inl h
          · exact Or.inr ⟨m, by simp, h⟩
          · exact Or.inr ⟨m', by simp [hm'], hp⟩
        · rintro (h | ⟨m', hm', hp⟩)
          · exact Or.inl (Or.inl h)
          · simp only [List.mem_cons] at hm'
            rcases hm' with rfl | hm'
            · exact Or.inl (Or.inr hp)
            · exact Or.inr ⟨m', hm', hp⟩
      · omega
      · intro m' hm' k hk'
        simp only [List.mem_cons] at hm'
        rcases hm' with rfl | hm'
        · have := s5 k hk'; omega
        · exact h5 m' hm' k hk'
      · rcases h6 with h6 | ⟨m', hm', hp⟩
        · rcases s6 with s6 | s6
          · exact Or.inl (by omega)
          · exact Or.inr ⟨m, by simp, by rw [h6]; exact s6⟩
        · exact Or.inr ⟨m', by simp [hm'], hp⟩

/-- the loop does not fail when every stated person is a number or a digit string -/
theorem gnpLoop_ok_of_valid (c : List Str) (ms : List Member)
    (hp : ∀ m ∈ ms, ∀ v, m.pe = some v → ∃ k, v.nat? = some k) :
    ∀ acc, ∃ acc', gnpLoop c acc ms = .ok acc' := by
  induction ms with
  | nil => intro acc; exact ⟨acc, rfl⟩
  | cons m ms ih =>
    intro acc
    have hms : ∀ m' ∈ ms, ∀ v, m'.pe = some v → ∃ k, v.nat? = some k := fun m' h' => hp m' (by simp [h'])
    rw [gnpLoop_append]
    have : ∃ a, gnpStep c acc m = .ok a := by
      unfold gnpStep
      by_cases hm : m.kind ∈ c
      · simp only [hm, if_true]
        cases hpe : m.pe with
        | none => exact ⟨_, rfl⟩
        | some v =>
          obtain ⟨k, hk⟩ := hp m (by simp) v hpe
          simp only [hk]
          exact ⟨_, rfl⟩
      · simp only [hm, if_false]; exact ⟨_, rfl⟩
    obtain ⟨a, ha⟩ := this
    rw [ha]
    exact ih hms a

/-! ### option propagation -/

theorem propagateFrom_spec (allowed : List Str) (kinds : List Str) :
    ∀ i, (propagateFrom allowed i kinds).Pairwise (· < ·) ∧
      (∀ j, j ∈ propagateFrom allowed i kinds ↔ ∃ d k, j = i + d ∧ kinds[d]? = some k ∧ legal allowed k = true) := by
  induction kinds with
  | nil => intro i; simp [propagateFrom]
  | cons k ks ih =>
    intro i
    obtain ⟨hs, hm⟩ := ih (i + 1)
    have hge : ∀ j ∈ propagateFrom allowed (i + 1) ks, i < j := by
      intro j hj
      obtain ⟨d, _, rfl, _⟩ := (hm j).mp hj
      omega
    have key : ∀ j, (∃ d k', j = i + d ∧ (k :: ks)[d]? = some k' ∧ legal allowed k' = true) ↔
        ((j = i ∧ legal allowed k = true) ∨ ∃ d k', j = i + 1 + d ∧ ks[d]? = some k' ∧ legal allowed k' = true) := by
      intro j
      constructor
      · rintro ⟨d, k', rfl, hd, hl⟩
        cases d with
        | zero => simp at hd; subst hd; exact Or.inl ⟨rfl, hl⟩
        | succ d => exact Or.inr ⟨d, k', by omega, by simpa using hd, hl⟩
      · rintro (⟨rfl, hl⟩ | ⟨d, k', rfl, hd, hl⟩)
        · exact ⟨0, k, rfl, by simp, hl⟩
        · exact ⟨d + 1, k', by omega, by simpa using hd, hl⟩
    unfold propagateFrom
    by_cases hl : legal allowed k = true
    · simp only [hl, if_true]
      refine ⟨List.pairwise_cons.mpr ⟨hge, hs⟩, ?_⟩
      intro j
      rw [key j, List.mem_cons, hm j]
      simp [hl]
    · have hl' : legal allowed k = false := by simpa using hl
      simp only [hl', Bool.false_eq_true, if_false]
      refine ⟨hs, ?_⟩
      intro j
      rw [key j, hm j]
      simp [hl']

end Pyrealb.Coord

namespace Pyrealb.Coord
open Pyrealb Pyrealb.Gen.CoordConsts

/-! ### the comma loop equals the positional specification -/

theorem specFrom_cons (pt : Str → Str) (ctoks : Option (List Str)) (n k : Nat) (m : Member) (ms : List Member) :
    specFrom pt ctoks n k (m :: ms) = pieceAt pt ctoks n k m ++ specFrom pt ctoks n (k + 1) ms := by
  simp [specFrom, List.zipIdx_cons]

theorem lastToks_cons2 (pt : Str → Str) (m m' : Member) (r : List Member) :
    lastToks pt (m :: m' :: r) = lastToks pt (m' :: r) := rfl

/-- the comma rule of the code yields the specified “member with its comma” -/
theorem realWith_appendComma (pt : Str → Str) (m : Member) : realWith pt m (appendComma m.a) = withComma pt m := by
  unfold withComma
  cases ha : m.a with
  | none => simp [appendComma, alone, realWith, ha, afterOf, appendLast_append]
  | some l =>
    by_cases hc : comma ∈ l
    · simp [appendComma, hc, alone, realWith, ha]
    · simp [appendComma, hc, alone, realWith, ha, afterOf, appendLast_append]

theorem loop_spec (pt : Str → Str) (ctoks : Option (List Str)) (ms : List Member) :
    ∀ k n, ms ≠ [] → k + ms.length = n →
      loopWith appendComma pt ctoks.isNone ms ++ ctoks.getD [] ++ lastToks pt ms = specFrom pt ctoks n k ms := by
  induction ms with
  | nil => intro k n h; exact absurd rfl h
  | cons m tl ih =>
    intro k n _ hn
    cases tl with
    | nil =>
      simp only [List.length_cons, List.length_nil] at hn
      have h1 : k + 1 = n := by omega
      have h2 : ¬ (k + 2 < n) := by omega
      have h3 : ¬ (k + 1 < n) := by omega
      simp [loopWith, lastToks, specFrom, pieceAt, h1, h2]
    | cons m' r =>
      have ih' := ih (k + 1) n (by simp) (by simp only [List.length_cons] at hn ⊢; omega)
      simp only [List.length_cons] at hn
      have h1 : ¬ (k + 1 = n) := by omega
      have h3 : k + 1 < n := by omega
      rw [specFrom_cons, ← ih', lastToks_cons2]
      have hpiece : realWith pt m (if (ctoks.isNone || !r.isEmpty) = true then appendComma m.a else m.a)
          = pieceAt pt ctoks n k m := by
        unfold pieceAt
        simp only [h1, if_false, List.nil_append]
        by_cases hc : ctoks = none
        · subst hc
          simp [h3, realWith_appendComma]
        · have hcn : ctoks.isNone = false := by
            cases ctoks with
            | none => exact absurd rfl hc
            | some _ => rfl
          cases r with
          | nil =>
            have h2 : ¬ (k + 2 < n) := by simp only [List.length_nil] at hn; omega
            simp [hcn, hc, h2, alone]
          | cons m'' r' =>
            have h2 : k + 2 < n := by simp only [List.length_cons] at hn; omega
            simp [hcn, h2, realWith_appendComma]
      show (realWith pt m (if (ctoks.isNone || !r.isEmpty) = true then appendComma m.a else m.a)
            ++ loopWith appendComma pt ctoks.isNone (m' :: r)) ++ ctoks.getD [] ++ lastToks pt (m' :: r) = _
      rw [hpiece]
      simp [List.append_assoc]

/-- every piece of a clean coordination is clean -/
theorem clean_alone (pt : Str → Str) (m : Member) (h : Clean m.toks) : Clean (alone pt m) :=
  clean_appendLast _ h

theorem clean_realWith (pt : Str → Str) (m : Member) (a : Option (List Str)) (h : Clean m.toks) :
    Clean (realWith pt m a) := clean_appendLast _ h

theorem clean_loopWith (cf : Option (List Str) → Option (List Str)) (pt : Str → Str) (b : Bool) :
    ∀ (ms : List Member), (∀ m ∈ ms, Clean m.toks) → Clean (loopWith cf pt b ms)
  | [], _ => by intro x hx; simp [loopWith] at hx
  | [_], _ => by intro x hx; simp [loopWith] at hx
  | m :: m' :: r, h => by
    unfold loopWith
    exact clean_append (clean_realWith pt m _ (h m (by simp)))
      (clean_loopWith cf pt b (m' :: r) (fun x hx => h x (by simp [hx])))

theorem clean_lastToks (pt : Str → Str) :
    ∀ (ms : List Member), (∀ m ∈ ms, Clean m.toks) → Clean (lastToks pt ms)
  | [], _ => by intro x hx; simp [lastToks] at hx
  | [m], h => by simpa [lastToks] using clean_alone pt m (h m (by simp))
  | m :: m' :: r, h => by
    rw [lastToks_cons2]
    exact clean_lastToks pt (m' :: r) (fun x hx => h x (by simp [hx]))

theorem lastToks_ne_nil (pt : Str → Str) :
    ∀ (ms : List Member), ms ≠ [] → (∀ m ∈ ms, m.toks ≠ []) → lastToks pt ms ≠ []
  | [], h, _ => absurd rfl h
  | [m], _, h => by simpa [lastToks, alone, realWith] using appendLast_ne_nil _ (h m (by simp))
  | m :: m' :: r, _, h => by
    rw [lastToks_cons2]
    exact lastToks_ne_nil pt (m' :: r) (by simp) (fun x hx => h x (by simp [hx]))

/-- `removeEmpty` deletes a block of empty tokens lying between clean material -/
theorem removeEmpty_mid (A E B : List Str) (hA : Clean A) (hB : Clean B) (hE : ∀ x ∈ E, x = [])
    (hne : B ≠ []) : removeEmpty (A ++ E ++ B) = A ++ B := by
  unfold removeEmpty
  have fA : A.filter (fun t => decide (t ≠ [])) = A := List.filter_eq_self.mpr (by intro x hx; simpa using hA x hx)
  have fB : B.filter (fun t => decide (t ≠ [])) = B := List.filter_eq_self.mpr (by intro x hx; simpa using hB x hx)
  have fE : E.filter (fun t => decide (t ≠ [])) = [] := List.filter_eq_nil_iff.mpr (by intro x hx; simpa using hE x hx)
  simp only [List.filter_append, fA, fB, fE, List.append_nil]
  have : A ++ B ≠ [] := by simp [hne]
  simp [this]

theorem lastMember_some : ∀ (ms : List Member), ms ≠ [] → ∃ m, lastMember ms = some m ∧ m ∈ ms ∧ lastToks pt ms = alone pt m
  | [], h => absurd rfl h
  | [m], _ => ⟨m, rfl, by simp, rfl⟩
  | m :: m' :: r, _ => by
    obtain ⟨x, h1, h2, h3⟩ := lastMember_some (pt := pt) (m' :: r) (by simp)
    exact ⟨x, h1, by simp only [List.mem_cons] at h2 ⊢; exact Or.inr h2, h3⟩

/-- with consistent relations the dependency loop is the generic loop, without warnings -/
theorem depLoop_consistent (pt : Str → Str) (deprel : Str) (b : Bool) :
    ∀ (ms : List Member), (∀ m ∈ ms, m.rel = coordStr ∨ m.rel = deprel ∨ deprel = coordStr) →
      depLoop pt deprel b ms = (loopWith appendComma pt b ms, 0)
  | [], _ => rfl
  | [_], _ => rfl
  | m :: m' :: r, h => by
    have ih := depLoop_consistent pt deprel b (m' :: r) (fun x hx => h x (by simp [hx]))
    unfold depLoop loopWith
    rw [ih]
    have hm := h m (by simp)
    have : ∀ a, depInner pt deprel m a = (realWith pt m a, 0) := by
      intro a
      unfold depInner
      rcases hm with hm | hm | hm
      · simp [hm, coordStr]
      · by_cases hc : m.rel = ['c','o','o','r','d']
        · simp [hc]
        · simp [hm]
      · by_cases hc : m.rel = ['c','o','o','r','d']
        · simp [hc]
        · simp [hc, hm, coordStr]
    simp [this]

/-! ### findGenderNumberPerson against the declarative specification -/

theorem findGNP_spec (c : List Str) (andComb : Bool) (ms : List Member) (hk : ∀ m ∈ ms, m.kind ∈ c)
    (gn : GNP) (h : findGNP c andComb ms = .ok gn) :
    (gn.n = some plural ↔ SpecPlural andComb ms) ∧ (gn.g = some masc ↔ SpecMasc ms) ∧ IsMinPerson gn.pe ms
      ∧ gn.nb = ms.length := by
  unfold findGNP at h
  cases hl : gnpLoop c {} ms with
  | error e => rw [hl] at h; cases h
  | ok acc =>
    rw [hl] at h
    simp only [Except.ok.injEq] at h
    obtain ⟨h1, h2, h3, h4, h5, h6⟩ := gnpLoop_spec c ms hk {} acc hl
    subst h
    simp only [Nat.zero_add] at h1
    refine ⟨?_, ?_, ?_, h1⟩
    · unfold SpecPlural
      by_cases hc : acc.nb > 1 ∧ andComb = true
      · have h2' : 2 ≤ ms.length := by omega
        have hb : andComb = true := hc.2
        rw [if_pos hc]
        simp only [true_iff]
        exact Or.inl ⟨h2', hb⟩
      · simp only [hc, if_false]
        rw [h2]
        have : ¬ (2 ≤ ms.length ∧ andComb = true) := by
          intro hh; exact hc ⟨by omega, hh.2⟩
        simp [this]
    · rw [h3]; simp [SpecMasc]
    · refine ⟨h4, h5, ?_⟩
      rcases h6 with h6 | h6
      · exact Or.inl h6
      · exact Or.inr h6

theorem findGNP_ok (c : List Str) (andComb : Bool) (ms : List Member)
    (hp : ∀ m ∈ ms, ∀ v, m.pe = some v → ∃ k, v.nat? = some k) :
    ∃ gn, findGNP c andComb ms = .ok gn := by
  obtain ⟨acc, h⟩ := gnpLoop_ok_of_valid c ms hp {}
  unfold findGNP
  rw [h]
  exact ⟨_, rfl⟩

end Pyrealb.Coord

namespace Pyrealb.Coord

theorem afterCoord_pe (o : Out) (p : Nat) (h : o.peng.peN = some p) : (afterCoord o).pe = p := by
  simp only [afterCoord, verbView, Rec.peN] at h ⊢
  simp [h]

theorem afterCoord_pe_none (o : Out) (h : o.peng.pe = none) : (afterCoord o).pe = 3 := by
  simp [afterCoord, verbView, Rec.peN, h]

theorem afterCoord_pl (o : Out) : (afterCoord o).pl = true ↔ o.peng.n = some plural := by
  cases hon : o.peng.n with
  | none => simp [afterCoord, verbView, hon, sing, plural]
  | some x => simp [afterCoord, verbView, hon]

end Pyrealb.Coord

namespace Pyrealb.Coord

theorem gnpLoop_uncounted (c : List Str) : ∀ (ms : List Member) (acc : Acc), (∀ m ∈ ms, m.kind ∉ c) →
    gnpLoop c acc ms = .ok acc
  | [], _, _ => rfl
  | m :: ms, acc, h => by
    have hm : m.kind ∉ c := h m (by simp)
    rw [gnpLoop_append]
    simp only [gnpStep, hm, if_false]
    exact gnpLoop_uncounted c ms acc (fun x hx => h x (by simp [hx]))

theorem findGNP_uncounted (c : List Str) (b : Bool) (ms : List Member) (h : ∀ m ∈ ms, m.kind ∉ c) :
    findGNP c b ms = .ok { g := none, n := none, pe := 3, nb := 0 } := by
  simp [findGNP, gnpLoop_uncounted c ms {} h]

end Pyrealb.Coord
