import Pyrealb.Model.Coord
/-! Helper lemmas for C09 (coordination). -/
namespace Pyrealb.Coord
open Pyrealb Pyrealb.Gen.CoordConsts

/-! ### tokens -/

/-- no token is the empty string -/
def Clean (l : List Str) : Prop := ∀ x ∈ l, x ≠ []

theorem removeEmpty_clean {l : List Str} (h : Clean l) : removeEmpty l = l := by
  unfold removeEmpty
  have hf : l.filter (fun t => decide (t ≠ [])) = l := by
    apply List.filter_eq_self.mpr
    intro x hx
    simpa using h x hx
  simp only [hf]
  cases l with
  | nil => simp
  | cons a r => simp

theorem appendLast_nil : ∀ (l : List Str), appendLast l [] = l
  | [] => rfl
  | [t] => by simp [appendLast]
  | t :: u :: r => by simp [appendLast, appendLast_nil (u :: r)]

theorem appendLast_append (l : List Str) (x y : Str) : appendLast (appendLast l x) y = appendLast l (x ++ y) := by
  fun_induction appendLast l x with
  | case1 => simp [appendLast]
  | case2 t x => simp [appendLast]
  | case3 t u r x ih =>
    cases hr : appendLast (u :: r) x with
    | nil =>
      -- impossible: appendLast of a non-empty list is non-empty
      exfalso
      revert hr
      cases r <;> simp [appendLast]
    | cons v w =>
      rw [hr] at ih
      simp [appendLast, ih]

theorem clean_appendLast {l : List Str} (x : Str) (h : Clean l) : Clean (appendLast l x) := by
  fun_induction appendLast l x with
  | case1 => exact h
  | case2 t x =>
    intro y hy
    simp only [List.mem_singleton] at hy
    subst hy
    have := h t (by simp)
    cases t <;> simp_all
  | case3 t u r x ih =>
    intro y hy
    simp only [List.mem_cons] at hy
    rcases hy with rfl | hy
    · exact h _ (by simp)
    · exact ih (fun z hz => h z (by simp [hz])) y (by simpa using hy)

theorem clean_append {a b : List Str} (ha : Clean a) (hb : Clean b) : Clean (a ++ b) := by
  intro x hx
  rcases List.mem_append.mp hx with h | h
  · exact ha x h
  · exact hb x h

theorem appendLast_ne_nil {l : List Str} (x : Str) (h : l ≠ []) : appendLast l x ≠ [] := by
  fun_induction appendLast l x <;> simp_all

/-! ### the comma loop -/

theorem afterOf_comma (pt : Str → Str) : afterOf pt (some [comma]) = pt comma := by
  simp [afterOf]

theorem alone_of_none (pt : Str → Str) (m : Member) (h : m.a = none) : alone pt m = m.toks := by
  simp [alone, realWith, h, afterOf, appendLast_nil]

/-! ### findGenderNumberPerson -/

theorem gnpLoop_append (c : List Str) (acc : Acc) (m : Member) (ms : List Member) :
    gnpLoop c acc (m :: ms) = (match gnpStep c acc m with | .error e => .error e | .ok a => gnpLoop c a ms) := rfl

/-- the invariant of the loop when every member is of a counted type -/
theorem gnpLoop_spec (c : List Str) (ms : List Member) (hk : ∀ m ∈ ms, m.kind ∈ c) :
    ∀ (acc acc' : Acc), gnpLoop c acc ms = .ok acc' →
      acc'.nb = acc.nb + ms.length ∧
      (acc'.n = some plural ↔ acc.n = some plural ∨ ∃ m ∈ ms, m.n = some plural) ∧
      (acc'.g = some masc ↔ acc.g = some masc ∨ ∃ m ∈ ms, m.g = some masc) ∧
      (acc'.pe ≤ acc.pe ∧ (∀ m ∈ ms, ∀ k, m.pe = some (.int k) → acc'.pe ≤ k) ∧
        (acc'.pe = acc.pe ∨ ∃ m ∈ ms, m.pe = some (.int acc'.pe))) := by
  induction ms with
  | nil =>
    intro acc acc' h
    simp only [gnpLoop, Except.ok.injEq] at h
    subst h
    simp
  | cons m ms ih =>
    intro acc acc' h
    have hm : m.kind ∈ c := hk m (by simp)
    have hms : ∀ m' ∈ ms, m'.kind ∈ c := fun m' h' => hk m' (by simp [h'])
    rw [gnpLoop_append] at h
    cases hs : gnpStep c acc m with
    | error e => rw [hs] at h; cases h
    | ok a =>
      rw [hs] at h
      obtain ⟨h1, h2, h3, h4, h5, h6⟩ := ih hms a acc' h
      -- what one step does
      have step : a.nb = acc.nb + 1 ∧
          (a.n = some plural ↔ acc.n = some plural ∨ m.n = some plural) ∧
          (a.g = some masc ↔ acc.g = some masc ∨ m.g = some masc) ∧
          (a.pe ≤ acc.pe ∧ (∀ k, m.pe = some (.int k) → a.pe ≤ k) ∧
            (a.pe = acc.pe ∨ m.pe = some (.int a.pe))) := by
        unfold gnpStep at hs
        simp only [hm, if_true] at hs
        have hg : ((if m.g = some masc then some masc
              else if acc.g = none ∧ m.g ≠ none then m.g else acc.g) = some masc ↔
              acc.g = some masc ∨ m.g = some masc) := by
          by_cases hmg : m.g = some masc
          · simp [hmg]
          · by_cases hag : acc.g = none
            · simp [hmg, hag]
            · simp [hmg, hag]
        have hn : ((if m.n = some plural then some plural else acc.n) = some plural ↔
              acc.n = some plural ∨ m.n = some plural) := by
          by_cases hmn : m.n = some plural <;> simp [hmn]
        cases hpe : m.pe with
        | none =>
          rw [hpe] at hs
          simp only [Except.ok.injEq] at hs
          subst hs
          exact ⟨rfl, hn, hg, Nat.le_refl _, by simp, Or.inl rfl⟩
        | some p =>
          cases p with
          | str x => rw [hpe] at hs; cases hs
          | int k =>
            rw [hpe] at hs
            simp only [Except.ok.injEq] at hs
            subst hs
            refine ⟨rfl, hn, hg, ?_, ?_, ?_⟩
            · show (if k < acc.pe then k else acc.pe) ≤ acc.pe
              split <;> omega
            · intro k' hk'
              cases hk'
              show (if k < acc.pe then k else acc.pe) ≤ k
              split <;> omega
            · show (if k < acc.pe then k else acc.pe) = acc.pe ∨ some (PeVal.int k) = some (PeVal.int (if k < acc.pe then k else acc.pe))
              by_cases hlt : k < acc.pe <;> simp [hlt]
      obtain ⟨s1, s2, s3, s4, s5, s6⟩ := step
      refine ⟨by simp [h1, s1]; omega, ?_, ?_, ?_, ?_, ?_⟩
      · rw [h2, s2]
        constructor
        · rintro ((h | h) | ⟨m', hm', hp⟩)
          · exact Or.inl h
          · exact Or.inr ⟨m, by simp, h⟩
          · exact Or.inr ⟨m', by simp [hm'], hp⟩
        · rintro (h | ⟨m', hm', hp⟩)
          · exact Or.inl (Or.inl h)
          · simp only [List.mem_cons] at hm'
            rcases hm' with rfl | hm'
            · exact Or.inl (Or.inr hp)
            · exact Or.inr ⟨m', hm', hp⟩
      · rw [h3, s3]
        constructor
        · rintro ((h | h) | ⟨m', hm', hp⟩)
          · exact Or.inl h
          · exact Or.inr ⟨m, by simp, h⟩
          · exact Or.inr ⟨m', by simp [hm'], hp⟩
        · rintro (h | ⟨m', hm', hp⟩)
          · exact Or.inl (Or.inl h)
          · simp only [List.mem_cons] at hm'
            rcases hm' with rfl | hm'
            · exact Or.inl (Or.inr hp)
            · exact Or.inr ⟨m', hm', hp⟩
      · omega
      · intro m' hm' k hk'
        simp only [List.mem_cons] at hm'
        rcases hm' with rfl | hm'
        · have := s5 k hk'; omega
        · exact h5 m' hm' k hk'
      · rcases h6 with h6 | ⟨m', hm', hp⟩
        · rcases s6 with s6 | s6
          · exact Or.inl (by omega)
          · exact Or.inr ⟨m, by simp, by rw [h6]; exact s6⟩
        · exact Or.inr ⟨m', by simp [hm'], hp⟩

/-- the loop fails exactly on a person given as a string (counted members) -/
theorem gnpLoop_ok_of_int (c : List Str) (ms : List Member) (hp : ∀ m ∈ ms, ∀ x, m.pe ≠ some (.str x)) :
    ∀ acc, ∃ acc', gnpLoop c acc ms = .ok acc' := by
  induction ms with
  | nil => intro acc; exact ⟨acc, rfl⟩
  | cons m ms ih =>
    intro acc
    have hms : ∀ m' ∈ ms, ∀ x, m'.pe ≠ some (.str x) := fun m' h' => hp m' (by simp [h'])
    rw [gnpLoop_append]
    have : ∃ a, gnpStep c acc m = .ok a := by
      unfold gnpStep
      by_cases hm : m.kind ∈ c
      · simp only [hm, if_true]
        cases hpe : m.pe with
        | none => exact ⟨_, rfl⟩
        | some p =>
          cases p with
          | int k => exact ⟨_, rfl⟩
          | str x => exact absurd hpe (hp m (by simp) x)
      · simp only [hm, if_false]; exact ⟨_, rfl⟩
    obtain ⟨a, ha⟩ := this
    rw [ha]
    exact ih hms a

/-! ### option propagation -/

theorem propagateFrom_spec (allowed : List Str) (kinds : List Str) :
    ∀ i, (propagateFrom allowed i kinds).Pairwise (· < ·) ∧
      (∀ j, j ∈ propagateFrom allowed i kinds ↔ ∃ d k, j = i + d ∧ kinds[d]? = some k ∧ legal allowed k = true) := by
  induction kinds with
  | nil => intro i; simp [propagateFrom]
  | cons k ks ih =>
    intro i
    obtain ⟨hs, hm⟩ := ih (i + 1)
    have hge : ∀ j ∈ propagateFrom allowed (i + 1) ks, i < j := by
      intro j hj
      obtain ⟨d, _, rfl, _⟩ := (hm j).mp hj
      omega
    have key : ∀ j, (∃ d k', j = i + d ∧ (k :: ks)[d]? = some k' ∧ legal allowed k' = true) ↔
        ((j = i ∧ legal allowed k = true) ∨ ∃ d k', j = i + 1 + d ∧ ks[d]? = some k' ∧ legal allowed k' = true) := by
      intro j
      constructor
      · rintro ⟨d, k', rfl, hd, hl⟩
        cases d with
        | zero => simp at hd; subst hd; exact Or.inl ⟨rfl, hl⟩
        | succ d => exact Or.inr ⟨d, k', by omega, by simpa using hd, hl⟩
      · rintro (⟨rfl, hl⟩ | ⟨d, k', rfl, hd, hl⟩)
        · exact ⟨0, k, rfl, by simp, hl⟩
        · exact ⟨d + 1, k', by omega, by simpa using hd, hl⟩
    unfold propagateFrom
    by_cases hl : legal allowed k = true
    · simp only [hl, if_true]
      refine ⟨List.pairwise_cons.mpr ⟨hge, hs⟩, ?_⟩
      intro j
      rw [key j, List.mem_cons, hm j]
      simp [hl]
    · have hl' : legal allowed k = false := by simpa using hl
      simp only [hl', Bool.false_eq_true, if_false]
      refine ⟨hs, ?_⟩
      intro j
      rw [key j, hm j]
      simp [hl']

end Pyrealb.Coord
