import Pyrealb.Lemmas.JsonBasic
/-! Per-option-kind lemmas for C12: what `setJSONprops` does with one entry of `props`, for each kind of option
    (`opt_*` : one lemma per kind, all stated for an arbitrary node), and their composition over a whole `props`. -/
namespace Pyrealb.Expr
open Pyrealb

/-! ### JSON encoding of values is inverted by the argument decoder -/

@[simp] theorem jAtom_atomJ (a : Atom) : jAtom (atomJ a) = some a := by cases a <;> rfl

theorem jDict_dictJ (d : List (Str × Atom)) : jDict (d.map (fun kv => (kv.1, atomJ kv.2))) = some d := by
  induction d with
  | nil => rfl
  | cons x r ih => obtain ⟨k, v⟩ := x; simp [jDict, ih]

@[simp] theorem jArg_atomJ (a : Atom) : jArg (atomJ a) = some (.atom a) := by cases a <;> rfl

@[simp] theorem jArg_dictJ (d : List (Str × Atom)) : jArg (dictJ d) = some (.dict d) := by
  simp [jArg, dictJ, jDict_dictJ]

/-! ### updates of the node of an expression -/

/-- `e'` is `e` with other props / history (same kind, language, lemma, children) -/
def Upd (e e' : Expr) : Prop := ∃ ps hs, e' = e.setNode { e.node with props := ps, hist := hs }

theorem Upd.refl (e : Expr) : Upd e e := ⟨e.node.props, e.node.hist, by cases e <;> rfl⟩

theorem Upd.trans {a b c : Expr} (h1 : Upd a b) (h2 : Upd b c) : Upd a c := by
  obtain ⟨p1, q1, rfl⟩ := h1
  obtain ⟨p2, q2, rfl⟩ := h2
  exact ⟨p2, q2, by cases a <;> rfl⟩

theorem Upd.kind {e e' : Expr} (h : Upd e e') : e'.kind = e.kind := by
  obtain ⟨p, q, rfl⟩ := h; cases e <;> rfl
theorem Upd.lang {e e' : Expr} (h : Upd e e') : e'.lang = e.lang := by
  obtain ⟨p, q, rfl⟩ := h; cases e <;> rfl

theorem upd_setProp (e : Expr) (k : Str) (v : PVal) : Upd e (e.setProp k v) :=
  ⟨setKey k v e.node.props, e.node.hist, by cases e <;> rfl⟩
theorem upd_addHist (e : Expr) (c : Call) : Upd e (e.addHist c) :=
  ⟨e.node.props, e.node.hist ++ [c], by cases e <;> rfl⟩

@[simp] theorem setProp_props (e : Expr) (k : Str) (v : PVal) : (e.setProp k v).props = setKey k v e.props := by
  cases e <;> rfl
@[simp] theorem addHist_props (e : Expr) (c : Call) : (e.addHist c).props = e.props := by
  cases e <;> rfl
@[simp] theorem setProp_kind (e : Expr) (k : Str) (v : PVal) : (e.setProp k v).kind = e.kind := by cases e <;> rfl
@[simp] theorem addHist_kind (e : Expr) (c : Call) : (e.addHist c).kind = e.kind := by cases e <;> rfl
@[simp] theorem setProp_lang (e : Expr) (k : Str) (v : PVal) : (e.setProp k v).lang = e.lang := by cases e <;> rfl
@[simp] theorem addHist_lang (e : Expr) (c : Call) : (e.addHist c).lang = e.lang := by cases e <;> rfl

/-- two updates of the same expression with the same props have the same abstraction -/
theorem abs_eq_of_upd {e a b : Expr} (ha : Upd e a) (hb : Upd e b) (hp : a.props = b.props) : a.abs = b.abs := by
  obtain ⟨p1, q1, rfl⟩ := ha
  obtain ⟨p2, q2, rfl⟩ := hb
  cases e <;> simp_all [Expr.setNode, Expr.abs, Node.abs, Expr.props, Expr.node]

/-! ### `opt_*` : one lemma per option kind -/

/-- the option `sp` sets its prop locally on a constituent of kind `kind` (it is not propagated to children) -/
def Local (sp : Spec) (kind : Str) : Prop :=
  (kind = s "CP" ∨ kind = s "coord") → sp.name ∈ noPropagate

/-- `allowedConsts` admits the kind -/
def Allowed (sp : Spec) (kind : Str) : Prop :=
  sp.allowed = [] ∨ kind ∈ sp.allowed ∨ kind ∈ deprels

theorem optLocal_ok (sp : Spec) (a : Atom) (e : Expr) (hal : Allowed sp e.kind)
    (hv : sp.valid.any (fun x => x.pyEq a) = true) :
    optLocal sp (some a) false e = ((e.setProp sp.prop (.atom a)).addHist (.opt sp.name (.atom a)), 0) := by
  unfold optLocal
  have : (sp.allowed.isEmpty || sp.allowed.contains e.kind || deprels.contains e.kind) = true := by
    rcases hal with h | h | h <;> simp [h]
  rw [if_pos this]
  simp [hv]

theorem optM_local (sp : Spec) (a : Atom) (e : Expr) (hl : Local sp e.kind) :
    optM sp (some a) false e = optLocal sp (some a) false e := by
  cases e with
  | term n l i => simp [optM]
  | phr n es =>
    by_cases hk : n.kind = s "CP"
    · have := hl (Or.inl hk)
      simp [optM, hk, this]
    · simp [optM, hk]
  | dep n t ds =>
    by_cases hk : n.kind = s "coord"
    · have := hl (Or.inr hk)
      simp [optM, hk, this]
    · simp [optM, hk]

theorem mem_methodNames_of_findSpec {name : Str} {sp : Spec} (h : findSpec name = some sp) :
    name ∈ methodNames := by
  unfold findSpec at h
  have h1 := List.mem_of_find?_eq_some h
  have h2 := List.find?_some h
  simp at h2
  simp [methodNames]
  exact Or.inl ⟨sp, h1, h2⟩

/-- what `setJSONprops` does with one entry `opt: val` -/
def replayOne (opt : Str) (val : JVal) (e : Expr) : Expr × Nat :=
  if methodNames.contains opt then
    match val with
    | .arr l => applyEach opt l e
    | v => applyArgs opt (jArgs [v]) e
  else if jsonSkip.contains opt then (e, 0)
  else (e, 1)

theorem setProps_cons (opt : Str) (val : JVal) (r : List (Str × JVal)) (e : Expr) :
    setProps ((opt, val) :: r) e =
      ((setProps r (replayOne opt val e).1).1, (replayOne opt val e).2 + (setProps r (replayOne opt val e).1).2) := by
  simp only [setProps, replayOne]
  split <;> rfl

/-- **feature options** (`pe n g t aux f tn c pos pro ow poss cap lier`) : an entry `prop: value` whose value is valid
    for the option and whose constituent kind is admitted is re-applied by `getattr(self,opt)(val)` as the same
    `setProp`, whatever the current props. `key` is the JSON key (`ow` for the prop `own`). -/
theorem opt_feature (key : Str) (sp : Spec) (a : Atom) (e : Expr) (hf : findSpec key = some sp)
    (hne : a ≠ .none) (hal : Allowed sp e.kind) (hl : Local sp e.kind)
    (hv : sp.valid.any (fun x => x.pyEq a) = true) :
    replayOne key (atomJ a) e = ((e.setProp sp.prop (.atom a)).addHist (.opt sp.name (.atom a)), 0) := by
  have hm' := mem_methodNames_of_findSpec hf
  have h1 : replayOne key (atomJ a) e = applyArgs key (jArgs [atomJ a]) e := by
    cases a <;> simp [replayOne, hm', atomJ]
  rw [h1]
  simp [jArgs, applyArgs, callMethod, hf]
  cases a with
  | none => exact absurd rfl hne
  | bool b => simp [optM_local sp _ e hl, optLocal_ok sp _ e hal hv]
  | int i => simp [optM_local sp _ e hl, optLocal_ok sp _ e hal hv]
  | str x => simp [optM_local sp _ e hl, optLocal_ok sp _ e hal hv]
  | dt y mo d h mi sec => simp [optM_local sp _ e hl, optLocal_ok sp _ e hal hv]


/-! ### facts about the generated tables (re-proved when the source changes) -/

theorem listMethods_not_spec : ∀ k ∈ listMethods, findSpec k = none := by decide
theorem special_not_spec : findSpec (s "tag") = none ∧ findSpec (s "typ") = none ∧ findSpec (s "dOpt") = none
    ∧ findSpec (s "maje") = none ∧ findSpec (s "nat") = none := by decide
theorem special_not_list : (s "tag") ∉ listMethods ∧ (s "typ") ∉ listMethods ∧ (s "dOpt") ∉ listMethods
    ∧ (s "maje") ∉ listMethods ∧ (s "nat") ∉ listMethods := by decide
theorem listMethods_sub : ∀ k ∈ listMethods, k ∈ methodNames := by decide
theorem special_sub : s "tag" ∈ methodNames ∧ s "typ" ∈ methodNames ∧ s "dOpt" ∈ methodNames ∧ s "maje" ∈ methodNames := by
  decide
/-- **`ow` / `own`** : for every option of the table, the JSON key under which its prop is emitted
    (`"ow" if prop=="own" else prop`) is the name of the method that sets that prop -/
theorem opt_ow_alias : ∀ sp ∈ specs, findSpec (aliasKey sp.prop) = some sp := by decide

theorem setKey_setKey {α} (k : Str) (v1 v2 : α) (l : List (Str × α)) : setKey k v2 (setKey k v1 l) = setKey k v2 l := by
  induction l with
  | nil => simp [setKey]
  | cons x r ih =>
    obtain ⟨k', v'⟩ := x
    by_cases hk : k' = k
    · simp [setKey, hk]
    · simp [setKey, hk, ih]

/-! ### list options `a b ba en` -/

theorem listM_eq (k : Str) (a : Atom) (e : Expr) :
    listM k a e = ((e.setProp k (.list (curList k e ++ [a]))).addHist (.opt k (.atom a)), 0) := by
  rfl

theorem apply_list_one (k : Str) (hk : k ∈ listMethods) (a : Atom) (e : Expr) :
    applyArgs k (jArgs [atomJ a]) e = listM k a e := by
  have h1 := listMethods_not_spec k hk
  simp [jArgs, applyArgs, callMethod, h1, hk]

theorem applyEach_cons_atom (k : Str) (a : Atom) (r : List JVal) (e : Expr) :
    applyEach k (atomJ a :: r) e =
      ((applyEach k r (applyArgs k (jArgs [atomJ a]) e).1).1,
       (applyArgs k (jArgs [atomJ a]) e).2 + (applyEach k r (applyArgs k (jArgs [atomJ a]) e).1).2) := by
  cases a <;> rfl

/-- **formatting lists** : an entry `a: [x, y, …]` is re-applied element-wise, appending to the current list -/
theorem opt_list_a_b_en (k : Str) (hk : k ∈ listMethods) (l : List Atom) (e : Expr) :
    ∃ e', applyEach k (l.map atomJ) e = (e', 0) ∧ Upd e e' ∧
      (l ≠ [] → e'.props = setKey k (.list (curList k e ++ l)) e.props) ∧ (l = [] → e' = e) := by
  induction l generalizing e with
  | nil => exact ⟨e, by simp [applyEach], Upd.refl e, by simp, by simp⟩
  | cons a r ih =>
    obtain ⟨e', h1, h2, h3, h4⟩ := ih (listM k a e).1
    refine ⟨e', ?_, ?_, ?_, by simp⟩
    · rw [List.map_cons, applyEach_cons_atom, apply_list_one k hk, h1]
      simp [listM_eq]
    · exact Upd.trans (by rw [listM_eq]; exact Upd.trans (upd_setProp _ _ _) (upd_addHist _ _)) h2
    · intro _
      have hc : curList k (listM k a e).1 = curList k e ++ [a] := by
        simp [listM_eq, curList, lookup_setKey]
      by_cases hr : r = []
      · subst hr
        rw [h4 rfl]; simp [listM_eq]
      · rw [h3 hr, hc]
        simp [listM_eq, setKey_setKey]

/-! ### `tag` -/

def tagJ (t : Str × List (Str × Atom)) : JVal := .arr [.str t.1, dictJ t.2]

theorem apply_tag_one (nm : Str) (d : List (Str × Atom)) (e : Expr) :
    applyArgs (s "tag") (jArgs [.str nm, dictJ d]) e = tagM (.str nm) (some d) e := by
  have h1 := special_not_spec.1
  have h2 := special_not_list.1
  simp [jArgs, jArg, jAtom, applyArgs, callMethod, h1, h2, dictJ, jDict_dictJ]

theorem applyEach_cons_tag (t : Str × List (Str × Atom)) (r : List JVal) (e : Expr) :
    applyEach (s "tag") (tagJ t :: r) e =
      ((applyEach (s "tag") r (applyArgs (s "tag") (jArgs [.str t.1, dictJ t.2]) e).1).1,
       (applyArgs (s "tag") (jArgs [.str t.1, dictJ t.2]) e).2 +
         (applyEach (s "tag") r (applyArgs (s "tag") (jArgs [.str t.1, dictJ t.2]) e).1).2) := rfl

theorem tagM_props (nm : Str) (d : List (Str × Atom)) (e : Expr) :
    (tagM (.str nm) (some d) e).1.props = setKey (s "tag") (.tags (curTags e ++ [(nm, d)])) e.props ∧
    (tagM (.str nm) (some d) e).2 = 0 ∧ Upd e (tagM (.str nm) (some d) e).1 := by
  unfold tagM
  refine ⟨?_, rfl, ?_⟩
  · by_cases h : d.isEmpty <;> simp [h]
  · by_cases h : d.isEmpty <;> simp [h] <;>
      exact Upd.trans (upd_addHist _ _) (upd_setProp _ _ _)

/-- **tag with attributes** : an entry `tag: [[name, attrs], …]` is re-applied with each pair splatted -/
theorem opt_tag_attrs (l : List (Str × List (Str × Atom))) (e : Expr) :
    ∃ e', applyEach (s "tag") (l.map tagJ) e = (e', 0) ∧ Upd e e' ∧
      (l ≠ [] → e'.props = setKey (s "tag") (.tags (curTags e ++ l)) e.props) ∧ (l = [] → e' = e) := by
  induction l generalizing e with
  | nil => exact ⟨e, by simp [applyEach], Upd.refl e, by simp, by simp⟩
  | cons t r ih =>
    obtain ⟨nm, d⟩ := t
    obtain ⟨hp, hz, hu⟩ := tagM_props nm d e
    obtain ⟨e', h1, h2, h3, h4⟩ := ih (tagM (.str nm) (some d) e).1
    refine ⟨e', ?_, Upd.trans hu h2, ?_, by simp⟩
    · rw [List.map_cons, applyEach_cons_tag, apply_tag_one, h1, hz]
      simp
    · intro _
      have hc : curTags (tagM (.str nm) (some d) e).1 = curTags e ++ [(nm, d)] := by
        simp only [curTags, hp, lookup_setKey]
      by_cases hr : r = []
      · subst hr
        rw [h4 rfl, hp]
      · rw [h3 hr, hc, hp]
        simp [setKey_setKey]

/-! ### `typ` -/

/-- one item of a `typ` dictionary that `typ` accepts and stores unchanged (for a French constituent `neg` may be a
    string; a numeric flag value is stored as the boolean it equals, so it never occurs in the state) -/
def TypItemOK (fr : Bool) (kv : Str × Atom) : Prop :=
  ∃ vals, lookup kv.1 typAllowed = some vals ∧
    (if (kv.1 = s "neg" && fr) = true then (∃ x, kv.2 = .str x) ∨ (∃ b, kv.2 = .bool b)
     else vals.any (fun x => x.pyEq kv.2) = true ∧ ∀ i, kv.2 ≠ .int i)

theorem typLoop_ok (fr : Bool) (items types : List (Str × Atom)) (h : ∀ kv ∈ items, TypItemOK fr kv) :
    typLoop fr items types = (types, 0) := by
  induction items with
  | nil => rfl
  | cons x r ih =>
    obtain ⟨k, v⟩ := x
    obtain ⟨vals, hl, hc⟩ := h (k, v) (by simp)
    have ih' := ih (fun kv hkv => h kv (by simp [hkv]))
    unfold typLoop
    simp only [hl]
    by_cases hn : (k = s "neg" && fr) = true
    · rw [if_pos hn] at hc
      rw [if_pos hn]
      rcases hc with ⟨x, hx⟩ | ⟨b, hb⟩
      · simp only at hx; subst hx; exact ih'
      · simp only at hb; subst hb; exact ih'
    · rw [if_neg hn] at hc
      rw [if_neg hn, if_pos hc.1]
      cases v with
      | int i => exact absurd rfl (hc.2 i)
      | none => exact ih'
      | bool b => exact ih'
      | str x => exact ih'
      | dt y mo d h mi sec => exact ih'

/-- **typ** : an entry `typ: {…}` whose items are valid is re-applied as one `typ(dict)` call -/
theorem opt_typ (d : List (Str × Atom)) (e : Expr) (hk : e.kind ∈ typKinds)
    (hd : ∀ kv ∈ d, TypItemOK (decide (e.lang = .fr)) kv) (hfresh : lookup (s "typ") e.props = none) :
    ∃ e', replayOne (s "typ") (dictJ d) e = (e', 0) ∧ Upd e e' ∧ e'.props = setKey (s "typ") (.dict d) e.props := by
  have h1 := special_not_spec.2.1
  have h2 := special_not_list.2.1
  have h3 := special_sub.2.1
  have hl := typLoop_ok (decide (e.lang = .fr)) d d hd
  refine ⟨((e.addHist (.opt (s "typ") (.dict d))).setProp (s "typ") (.dict d)), ?_, ?_, by simp⟩
  · unfold replayOne
    have hp : lookup (s "typ") e.node.props = none := hfresh
    have h4 : s "typ" ≠ s "tag" := by decide
    simp [h3, dictJ, jArgs, jArg, jDict_dictJ, applyArgs, callMethod, h1, h2, h4, typM, hk, hl, hp]
  · exact Upd.trans (upd_addHist _ _) (upd_setProp _ _ _)

/-! ### `dOpt` -/

/-- one item of a `dOpt` dictionary in the STATE of a `DT` (`isDT`) or `NO` that `dOpt` stores unchanged -/
def DOptItemOK (isDT : Bool) (kv : Str × Atom) : Prop :=
  if isDT = true then
    kv.1 ∈ dOptKeysDT ∧ (if kv.1 = s "rtime" then kv.2 = .bool false ∨ ∃ y mo d h mi sec, kv.2 = .dt y mo d h mi sec
                           else kv.2.isBool = true)
  else
    kv.1 ∈ dOptKeysNO ∧ (if kv.1 = s "mprecision" then kv.2.isInt = true else kv.2.isBool = true)

theorem rtime_mem : s "rtime" ∈ dOptKeysDT := by decide
theorem mprecision_mem : s "mprecision" ∈ dOptKeysNO := by decide

theorem dOptLoop_ok (isDT : Bool) (items acc : List (Str × Atom)) (h : ∀ kv ∈ items, DOptItemOK isDT kv) :
    dOptLoop isDT items acc = (items.foldl (fun a kv => setKey kv.1 kv.2 a) acc, 0) := by
  induction items generalizing acc with
  | nil => rfl
  | cons x r ih =>
    obtain ⟨k, v⟩ := x
    have hx := h (k, v) (by simp)
    have ih' := fun acc => ih acc (fun kv hkv => h kv (by simp [hkv]))
    unfold dOptLoop
    cases isDT with
    | true =>
      simp only [DOptItemOK, if_true] at hx
      obtain ⟨hk, hv⟩ := hx
      by_cases hr : k = s "rtime"
      · rw [if_pos hr] at hv
        subst hr
        rcases hv with hv | ⟨y, mo, d, hh, mi, sec, hv⟩
        · subst hv
          simp [rtime_mem, ih']
        · subst hv
          simp [rtime_mem, ih']
      · rw [if_neg hr] at hv
        simp [hk, hr, hv, ih']
    | false =>
      simp only [DOptItemOK] at hx
      obtain ⟨hk, hv⟩ := hx
      by_cases hr : k = s "mprecision"
      · rw [if_pos hr] at hv
        subst hr
        simp [mprecision_mem, hv, ih']
      · rw [if_neg hr] at hv
        simp [hk, hr, hv, ih']

theorem setKey_append_of_not_mem {α} (k : Str) (v : α) (pre q : List (Str × α)) (h : k ∉ keys pre) :
    setKey k v (pre ++ q) = pre ++ setKey k v q := by
  induction pre with
  | nil => rfl
  | cons x r ih =>
    obtain ⟨k', v'⟩ := x
    simp [keys] at h
    have h1 : k' ≠ k := fun e => h.1 e.symm
    simp [setKey, h1]
    apply ih
    simpa [keys] using h.2

/-- re-assigning, in order, the items of a dictionary `l` to a dictionary `P` whose keys are an initial segment of
    the keys of `l` gives `l` (Python dict semantics: an existing key keeps its position) -/
theorem foldl_setKey_fix {α} (pre P l : List (Str × α)) (hd : (keys (pre ++ l)).Nodup)
    (hp : keys P = (keys l).take P.length) :
    l.foldl (fun a kv => setKey kv.1 kv.2 a) (pre ++ P) = pre ++ l := by
  induction l generalizing pre P with
  | nil =>
    have : P = [] := by
      cases P with
      | nil => rfl
      | cons x r => simp [keys] at hp
    simp [this]
  | cons x r ih =>
    obtain ⟨k, v⟩ := x
    have hk : k ∉ keys pre := by
      simp [keys, List.nodup_append] at hd
      intro hm
      simp [keys] at hm
      obtain ⟨a, ha⟩ := hm
      exact (hd.2.2 k a ha).1 rfl
    have hd' : (keys ((pre ++ [(k, v)]) ++ r)).Nodup := by simpa using hd
    cases P with
    | nil =>
      simp only [List.foldl_cons, List.append_nil]
      rw [setKey_of_not_mem k v pre hk]
      have := ih (pre ++ [(k, v)]) [] hd' (by simp [keys])
      simpa using this
    | cons y P' =>
      obtain ⟨k0, v0⟩ := y
      simp [keys] at hp
      obtain ⟨hk0, hp'⟩ := hp
      subst hk0
      simp only [List.foldl_cons]
      rw [setKey_append_of_not_mem k0 v pre _ hk]
      simp only [setKey, if_true]
      have := ih (pre ++ [(k0, v)]) P' hd' (by simpa [keys] using hp')
      simpa using this

theorem getDOpt_addHist (e : Expr) (c : Call) : getDOpt (e.addHist c) = getDOpt e := by
  unfold getDOpt; simp

/-- **dOpt** : the STATE `dOpt: {…}` of a `NO` / `DT` is re-applied as one `dOpt(dict)` call over the defaults that
    the constructor has just put there, and gives the same dictionary -/
theorem opt_dOpt (d d0 : List (Str × Atom)) (e : Expr) (hk : e.kind = s "DT" ∨ e.kind = s "NO")
    (h0 : lookup (s "dOpt") e.props = some (.dict d0))
    (hitems : ∀ kv ∈ d, DOptItemOK (decide (e.kind = s "DT")) kv)
    (hnd : (keys d).Nodup) (hpre : keys d0 = (keys d).take d0.length) :
    ∃ e', replayOne (s "dOpt") (dictJ d) e = (e', 0) ∧ Upd e e' ∧ e'.props = setKey (s "dOpt") (.dict d) e.props := by
  have h1 := special_not_spec.2.2.1
  have h2 := special_not_list.2.2.1
  have h3 := special_sub.2.2.1
  have h4 : s "dOpt" ≠ s "tag" := by decide
  have h5 : s "dOpt" ≠ s "typ" := by decide
  have hg : getDOpt (e.addHist (.opt (s "dOpt") (.dict d))) = d0 := by
    rw [getDOpt_addHist]; unfold getDOpt; rw [h0]
  have hl := dOptLoop_ok (decide (e.kind = s "DT")) d d0 hitems
  have hfix := foldl_setKey_fix [] d0 d (by simpa using hnd) hpre
  simp only [List.nil_append] at hfix
  refine ⟨((e.addHist (.opt (s "dOpt") (.dict d))).setProp (s "dOpt") (.dict d)), ?_, ?_, by simp⟩
  · unfold replayOne
    have hk' : (e.kind = s "DT" || e.kind = s "NO") = true := by rcases hk with h | h <;> simp [h]
    simp [h3, dictJ, jArgs, jArg, jDict_dictJ, applyArgs, callMethod, h1, h2, h4, h5, dOptM, hk', hg, hl, hfix]
  · exact Upd.trans (upd_addHist _ _) (upd_setProp _ _ _)

/-- **maje** -/
theorem opt_maje (b : Bool) (e : Expr) (hk : e.kind ∈ majeKinds) :
    replayOne (s "maje") (.bool b) e =
      ((e.setProp (s "maje") (.atom (.bool b))).addHist (.opt (s "maje") (.atom (.bool b))), 0) := by
  have h1 := special_not_spec.2.2.2.1
  have h2 := special_not_list.2.2.2.1
  have h3 := special_sub.2.2.2
  have h4 : s "maje" ≠ s "tag" ∧ s "maje" ≠ s "typ" ∧ s "maje" ≠ s "dOpt" ∧ s "maje" ≠ s "nat" := by decide
  unfold replayOne
  simp [h3, jArgs, jArg, jAtom, applyArgs, callMethod, h1, h2, h4, majeM, hk]

/-- **props that are not option names** (`pat h cnt niveau ldv`, silently; `hAn`, with a message) are not re-applied -/
theorem opt_skipped (k : Str) (v : JVal) (e : Expr) (hk : k ∉ methodNames) : (replayOne k v e).1 = e := by
  unfold replayOne
  have : methodNames.contains k = false := by simpa using hk
  simp only [this]
  by_cases h : k ∈ jsonSkip <;> simp [h]


/-! ### composition over a whole `props` dictionary -/

/-- JSON encoding of one entry of `props` -/
def encProp (kv : Str × PVal) : Str × JVal := (aliasKey kv.1, pvalJ kv.2)

theorem alias_special : aliasKey (s "tag") = s "tag" ∧ aliasKey (s "typ") = s "typ" ∧ aliasKey (s "dOpt") = s "dOpt"
    ∧ aliasKey (s "maje") = s "maje" := by decide
theorem alias_list : ∀ k ∈ listMethods, aliasKey k = k := by decide

/-- `Replays kind lang P l` : the dictionary `l` is reproduced by re-applying its entries in order on a freshly
    constructed constituent of kind `kind` and language `lang` whose constructor put `P` in `props`.
    The entries that the constructor provides come first (Python dicts keep the position of an existing key):
    each is either not an option name and unchanged (`ctorSkip`), or an option re-applied over the constructor's value
    (`ctorSet`, `ctorDOpt`); the remaining entries are one per option kind. -/
inductive Replays (kind : Str) (lang : Lang) : List (Str × PVal) → List (Str × PVal) → Prop
  | nil : Replays kind lang [] []
  | ctorSkip (k : Str) (v : PVal) (P l) : aliasKey k ∉ methodNames → Replays kind lang P l →
      Replays kind lang ((k, v) :: P) ((k, v) :: l)
  | ctorSet (k : Str) (v0 : PVal) (a : Atom) (sp : Spec) (P l) : findSpec (aliasKey k) = some sp → sp.prop = k →
      a ≠ .none → Allowed sp kind → Local sp kind → sp.valid.any (fun x => x.pyEq a) = true →
      Replays kind lang P l → Replays kind lang ((k, v0) :: P) ((k, .atom a) :: l)
  | ctorDOpt (d0 d : List (Str × Atom)) (P l) : (kind = s "DT" ∨ kind = s "NO") →
      (∀ kv ∈ d, DOptItemOK (decide (kind = s "DT")) kv) → (keys d).Nodup → keys d0 = (keys d).take d0.length →
      Replays kind lang P l → Replays kind lang ((s "dOpt", .dict d0) :: P) ((s "dOpt", .dict d) :: l)
  | feature (k : Str) (a : Atom) (sp : Spec) (l) : findSpec (aliasKey k) = some sp → sp.prop = k →
      a ≠ .none → Allowed sp kind → Local sp kind → sp.valid.any (fun x => x.pyEq a) = true →
      Replays kind lang [] l → Replays kind lang [] ((k, .atom a) :: l)
  | maje (b : Bool) (l) : kind ∈ majeKinds → Replays kind lang [] l →
      Replays kind lang [] ((s "maje", .atom (.bool b)) :: l)
  | list (k : Str) (as : List Atom) (l) : k ∈ listMethods → as ≠ [] → Replays kind lang [] l →
      Replays kind lang [] ((k, .list as) :: l)
  | tag (ts : List (Str × List (Str × Atom))) (l) : ts ≠ [] → Replays kind lang [] l →
      Replays kind lang [] ((s "tag", .tags ts) :: l)
  | typ (d : List (Str × Atom)) (l) : kind ∈ typKinds → (∀ kv ∈ d, TypItemOK (decide (lang = .fr)) kv) →
      Replays kind lang [] l → Replays kind lang [] ((s "typ", .dict d) :: l)

theorem setProps_nil (e : Expr) : setProps [] e = (e, 0) := rfl

theorem not_mem_keys_pre {α} {k : Str} {v : α} {pre l : List (Str × α)} (hd : (keys (pre ++ (k, v) :: l)).Nodup) :
    k ∉ keys pre := by
  simp [keys, List.nodup_append] at hd
  intro hm
  simp [keys] at hm
  obtain ⟨a, ha⟩ := hm
  exact (hd.2.2 k a ha).1 rfl

theorem nodup_shift {α} {k : Str} {v : α} {pre l : List (Str × α)} (hd : (keys (pre ++ (k, v) :: l)).Nodup) :
    (keys ((pre ++ [(k, v)]) ++ l)).Nodup := by simpa using hd

theorem lookup_pre_cons {α} {k : Str} {v : α} {pre P : List (Str × α)} (h : k ∉ keys pre) :
    lookup k (pre ++ (k, v) :: P) = some v := by
  rw [lookup_append_right k pre _ (lookup_none_of_not_mem k pre h)]
  simp [lookup]

theorem setKey_pre_cons {α} {k : Str} {v0 v : α} {pre P : List (Str × α)} (h : k ∉ keys pre) :
    setKey k v (pre ++ (k, v0) :: P) = (pre ++ [(k, v)]) ++ P := by
  rw [setKey_append_of_not_mem k v pre _ h]
  simp [setKey]

theorem setProps_cons_fst (opt : Str) (val : JVal) (r : List (Str × JVal)) (e : Expr) :
    (setProps ((opt, val) :: r) e).1 = (setProps r (replayOne opt val e).1).1 := by
  rw [setProps_cons]

/-- **the composition** : under `Replays`, `setJSONprops` rebuilds the dictionary -/
theorem setProps_replays {kind : Str} {lang : Lang} {P l : List (Str × PVal)} (h : Replays kind lang P l) :
    ∀ (e : Expr) (pre : List (Str × PVal)), e.kind = kind → e.lang = lang → e.props = pre ++ P →
      (keys (pre ++ l)).Nodup →
      Upd e (setProps (l.map encProp) e).1 ∧ (setProps (l.map encProp) e).1.props = pre ++ l := by
  induction h with
  | nil => intro e pre _ _ hp _; exact ⟨Upd.refl e, by simpa [setProps] using hp⟩
  | ctorSkip k v P l hk _ ih =>
    intro e pre hkind hlang hp hd
    obtain ⟨h2, h3⟩ := ih e (pre ++ [(k, v)]) hkind hlang (by simpa using hp) (nodup_shift hd)
    have hs := opt_skipped (aliasKey k) (pvalJ v) e hk
    rw [List.map_cons, encProp, setProps_cons_fst, hs]
    exact ⟨h2, by simpa using h3⟩
  | ctorSet k v0 a sp P l hf hprop hne hal hl hv _ ih =>
    intro e pre hkind hlang hp hd
    have hnm := not_mem_keys_pre hd
    have hr := opt_feature (aliasKey k) sp a e hf hne (hkind ▸ hal) (hkind ▸ hl) hv
    have hprops : ((e.setProp sp.prop (.atom a)).addHist (.opt sp.name (.atom a))).props = (pre ++ [(k, .atom a)]) ++ P := by
      simp [hp, hprop, setKey_pre_cons hnm]
    obtain ⟨h2, h3⟩ := ih _ (pre ++ [(k, .atom a)]) (by simpa using hkind) (by simpa using hlang) hprops
      (nodup_shift hd)
    rw [List.map_cons, encProp, setProps_cons_fst]
    simp only [pvalJ]
    rw [hr]
    exact ⟨Upd.trans (Upd.trans (upd_setProp _ _ _) (upd_addHist _ _)) h2, by simpa using h3⟩
  | ctorDOpt d0 d P l hk hitems hnd hpre _ ih =>
    intro e pre hkind hlang hp hd
    have hnm := not_mem_keys_pre hd
    obtain ⟨e1, hr, hu, hprops⟩ := opt_dOpt d d0 e (hkind ▸ hk) (by rw [hp]; exact lookup_pre_cons hnm)
      (by rw [hkind]; exact hitems) hnd hpre
    rw [hp, setKey_pre_cons hnm] at hprops
    obtain ⟨h2, h3⟩ := ih e1 (pre ++ [(s "dOpt", .dict d)]) (by rw [hu.kind]; exact hkind)
      (by rw [hu.lang]; exact hlang) hprops (nodup_shift hd)
    rw [List.map_cons, encProp, setProps_cons_fst]
    simp only [pvalJ, alias_special.2.2.1]
    rw [hr]
    exact ⟨Upd.trans hu h2, by simpa using h3⟩
  | feature k a sp l hf hprop hne hal hl hv _ ih =>
    intro e pre hkind hlang hp hd
    have hnm := not_mem_keys_pre hd
    have hr := opt_feature (aliasKey k) sp a e hf hne (hkind ▸ hal) (hkind ▸ hl) hv
    have hprops : ((e.setProp sp.prop (.atom a)).addHist (.opt sp.name (.atom a))).props = (pre ++ [(k, .atom a)]) ++ [] := by
      simp at hp
      simp [hp, hprop, setKey_of_not_mem k _ pre hnm]
    obtain ⟨h2, h3⟩ := ih _ (pre ++ [(k, .atom a)]) (by simpa using hkind) (by simpa using hlang) hprops
      (nodup_shift hd)
    rw [List.map_cons, encProp, setProps_cons_fst]
    simp only [pvalJ]
    rw [hr]
    exact ⟨Upd.trans (Upd.trans (upd_setProp _ _ _) (upd_addHist _ _)) h2, by simpa using h3⟩
  | maje b l hk _ ih =>
    intro e pre hkind hlang hp hd
    have hnm := not_mem_keys_pre hd
    have hr := opt_maje b e (hkind ▸ hk)
    have hprops : ((e.setProp (s "maje") (.atom (.bool b))).addHist (.opt (s "maje") (.atom (.bool b)))).props
        = (pre ++ [(s "maje", .atom (.bool b))]) ++ [] := by
      simp at hp
      simp [hp, setKey_of_not_mem _ _ pre hnm]
    obtain ⟨h2, h3⟩ := ih _ (pre ++ [(s "maje", .atom (.bool b))]) (by simpa using hkind) (by simpa using hlang)
      hprops (nodup_shift hd)
    rw [List.map_cons, encProp, setProps_cons_fst]
    simp only [pvalJ, atomJ, alias_special.2.2.2]
    rw [hr]
    exact ⟨Upd.trans (Upd.trans (upd_setProp _ _ _) (upd_addHist _ _)) h2, by simpa using h3⟩
  | list k as l hk hne _ ih =>
    intro e pre hkind hlang hp hd
    have hnm := not_mem_keys_pre hd
    simp at hp
    obtain ⟨e1, hr, hu, hprops, _⟩ := opt_list_a_b_en k hk as e
    have hcur : curList k e = [] := by
      unfold curList; rw [hp, lookup_none_of_not_mem k pre hnm]
    have hprops' : e1.props = (pre ++ [(k, .list as)]) ++ [] := by
      rw [hprops hne, hcur, hp, setKey_of_not_mem k _ pre hnm]; simp
    obtain ⟨h2, h3⟩ := ih e1 (pre ++ [(k, .list as)]) (by rw [hu.kind]; exact hkind)
      (by rw [hu.lang]; exact hlang) hprops' (nodup_shift hd)
    rw [List.map_cons, encProp, setProps_cons_fst]
    have hm := listMethods_sub k hk
    simp only [pvalJ, alias_list k hk, replayOne, List.contains_iff_mem, hm, if_true]
    rw [hr]
    exact ⟨Upd.trans hu h2, by simpa using h3⟩
  | tag ts l hne _ ih =>
    intro e pre hkind hlang hp hd
    have hnm := not_mem_keys_pre hd
    simp at hp
    obtain ⟨e1, hr, hu, hprops, _⟩ := opt_tag_attrs ts e
    have hcur : curTags e = [] := by
      unfold curTags; rw [hp, lookup_none_of_not_mem _ pre hnm]
    have hprops' : e1.props = (pre ++ [(s "tag", .tags ts)]) ++ [] := by
      rw [hprops hne, hcur, hp, setKey_of_not_mem _ _ pre hnm]; simp
    obtain ⟨h2, h3⟩ := ih e1 (pre ++ [(s "tag", .tags ts)]) (by rw [hu.kind]; exact hkind)
      (by rw [hu.lang]; exact hlang) hprops' (nodup_shift hd)
    rw [List.map_cons, encProp, setProps_cons_fst]
    have hm := special_sub.1
    have : pvalJ (.tags ts) = .arr (ts.map tagJ) := rfl
    simp only [this, alias_special.1, replayOne, List.contains_iff_mem, hm, if_true]
    rw [hr]
    exact ⟨Upd.trans hu h2, by simpa using h3⟩
  | typ d l hk hitems _ ih =>
    intro e pre hkind hlang hp hd
    have hnm := not_mem_keys_pre hd
    simp at hp
    obtain ⟨e1, hr, hu, hprops⟩ := opt_typ d e (hkind ▸ hk) (by rw [hlang]; exact hitems)
      (by rw [hp]; exact lookup_none_of_not_mem _ pre hnm)
    have hprops' : e1.props = (pre ++ [(s "typ", .dict d)]) ++ [] := by
      rw [hprops, hp, setKey_of_not_mem _ _ pre hnm]; simp
    obtain ⟨h2, h3⟩ := ih e1 (pre ++ [(s "typ", .dict d)]) (by rw [hu.kind]; exact hkind)
      (by rw [hu.lang]; exact hlang) hprops' (nodup_shift hd)
    rw [List.map_cons, encProp, setProps_cons_fst]
    simp only [pvalJ, alias_special.2.1]
    rw [hr]
    exact ⟨Upd.trans hu h2, by simpa using h3⟩

end Pyrealb.Expr
