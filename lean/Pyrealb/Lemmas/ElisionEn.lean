import Pyrealb.Lemmas.ElisionPass
/-! English: one pass of `a -> an` (and of the contraction branch) leaves every pair settled, under the side
    conditions of the input. -/
namespace Pyrealb.Elision
open Pyrealb Pyrealb.Gen.Elision

def firstPartEn (k : Str) : Str := k.takeWhile (· != '+')

theorem fact_en_contr : ∀ kv ∈ contractionEnTable,
    kv.2 ≠ [] ∧ kv.2.all (isWd .en) = true ∧ anRule kv.2 = anRule (firstPartEn kv.1) ∧
    [['a'], ['A'], ['a', 'n'], ['A', 'n']].contains kv.2 = false := by decide +kernel

theorem fact_en_an : anRule ['a', 'n'] = anRule ['a'] ∧ anRule ['A', 'n'] = anRule ['A'] ∧
    anRule ['c', 'a', 'n', '\'', 't'] = anRule ['c', 'a', 'n', 'n', 'o', 't'] ∧
    (['a', 'n'] : Str).all (isWd .en) = true ∧ (['A', 'n'] : Str).all (isWd .en) = true ∧
    (['c', 'a', 'n', '\'', 't'] : Str).all (isWd .en) = true ∧ isWd .en '+' = false := by decide +kernel

/-- the rewritten head: same token, or a token whose first word is alike for the a/an rule -/
def RewEn (t h : Tok) : Prop :=
  h = t ∨ ∃ v vh, view .en t = some v ∧ view .en h = some vh ∧ anRule vh.w = anRule v.w

theorem pairOKEn_none_left (t b : Tok) (h : view .en t = none) : pairOKEn t b = true := by
  cases hb : view .en b <;> simp [pairOKEn, h, hb]
theorem pairOKEn_none_right (t b : Tok) (h : view .en t = none) : pairOKEn b t = true := by
  cases hb : view .en b <;> simp [pairOKEn, h, hb]

theorem pairOKEn_transfer (t1 t2 h : Tok) (hr : RewEn t2 h) (hok : pairOKEn t1 t2 = true) : pairOKEn t1 h = true := by
  cases hr with
  | inl e => rw [e]; exact hok
  | inr e =>
    obtain ⟨v, vh, hv, hvh, ha⟩ := e
    cases hv1 : view .en t1 with
    | none => exact pairOKEn_none_left _ _ hv1
    | some v1 =>
      simp only [pairOKEn, hv1, hv] at hok
      simp only [pairOKEn, hv1, hvh, ha]
      exact hok

def HeadOKEn : List Tok → List Tok → Prop
  | [], [] => True
  | t :: _, h :: _ => RewEn t h
  | _, _ => False

theorem settledFrom_en (pl : Bool) (l : List Tok) : settledFrom .en pl l = settledFrom .en false l := by
  cases l with
  | nil => rfl
  | cons a r => cases r with
    | nil => rfl
    | cons b r' =>
      have : (Lang.en == Lang.fr) = false := by decide
      simp [settledFrom, this]

theorem contrEn_first (w1 w2 c : Str) (hw : ∀ x ∈ w1, isWd .en x = true) (h : contrEn w1 w2 = some c) :
    c ≠ [] ∧ (∀ x ∈ c, isWd .en x = true) ∧ anRule c = anRule w1 ∧ [['a'], ['A'], ['a', 'n'], ['A', 'n']].contains c = false := by
  have hm := lookup_mem _ _ _ h
  have g := fact_en_contr _ hm
  have np : ∀ x ∈ w1, x ≠ '+' := by
    intro x hx he
    have := hw x hx
    rw [he, fact_en_an.2.2.2.2.2.2] at this
    exact absurd this (by decide)
  have sp : firstPartEn (w1 ++ '+' :: w2) = w1 := by
    have := takeWhile_append_stop (fun c : Char => c != '+') w1 ('+' :: w2)
      (by intro c hc; simpa using np c hc) (by intro c t h; simp at h; simp [← h.1])
    simp [firstPartEn, this.1]
  have g3 := g.2.2.1
  dsimp only at g3
  rw [sp] at g3
  exact ⟨g.1, by simpa [List.all_eq_true] using g.2.1, g3, g.2.2.2⟩

theorem bwdFromEn_tail (t : Tok) (r : List Tok) (h : bwdFromEn (t :: r) = true) : bwdFromEn r = true := by
  cases r with
  | nil => rfl
  | cons x r' => simp only [bwdFromEn, Bool.and_eq_true] at h; exact h.2

theorem tameFromEn_tail (c : Bool) (t : Tok) (r : List Tok) (h : tameFromEn c (t :: r) = true) : tameFromEn c r = true := by
  cases r with
  | nil => rfl
  | cons x r' => simp only [tameFromEn, Bool.and_eq_true] at h; exact h.2

/-- a token whose first word is not `a`/`A`/`an`/`An` imposes nothing on its right neighbour -/
theorem pairOKEn_not_article (a b : Tok) (va : View) (hva : view .en a = some va)
    (h : [['a'], ['A'], ['a', 'n'], ['A', 'n']].contains va.w = false) : pairOKEn a b = true := by
  cases hb : view .en b with
  | none => exact pairOKEn_none_right _ _ hb
  | some vb =>
    have h' : va.w ≠ ['a'] ∧ va.w ≠ ['A'] ∧ va.w ≠ ['a', 'n'] ∧ va.w ≠ ['A', 'n'] := by
      refine ⟨?_, ?_, ?_, ?_⟩ <;> (intro e; rw [e] at h; revert h; decide)
    simp [pairOKEn, hva, hb, h'.1, h'.2.1, h'.2.2.1, h'.2.2.2]

theorem goEn_settles (contr : Bool) : ∀ (n : Nat) (toks : List Tok), toks.length ≤ n →
    (∀ t ∈ toks, t.real.isSome = true) → bwdFromEn toks = true → tameFromEn contr toks = true →
    ∃ out, goEn contr toks = .ok out ∧ settledFrom .en false out = true ∧ HeadOKEn toks out := by
  intro n
  induction n with
  | zero =>
    intro toks hlen _ _ _
    have : toks = [] := List.length_eq_zero_iff.mp (Nat.le_zero.mp hlen)
    subst this
    exact ⟨[], rfl, rfl, trivial⟩
  | succ n ih =>
    intro toks hlen hwf hbwd htame
    match toks, hlen, hwf, hbwd, htame with
    | [], _, _, _, _ => exact ⟨[], rfl, rfl, trivial⟩
    | [t], _, _, _, _ => exact ⟨[t], rfl, rfl, Or.inl rfl⟩
    | t1 :: t2 :: rest, hlen, hwf, hbwd, htame =>
      obtain ⟨x1, hx1⟩ : ∃ x, t1.real = some x := by
        have := hwf t1 (by simp); cases h : t1.real with
        | none => simp [h] at this
        | some x => exact ⟨x, rfl⟩
      obtain ⟨x2, hx2⟩ : ∃ x, t2.real = some x := by
        have := hwf t2 (by simp); cases h : t2.real with
        | none => simp [h] at this
        | some x => exact ⟨x, rfl⟩
      have wfTail : ∀ t ∈ t2 :: rest, t.real.isSome = true := fun t ht => hwf t (List.mem_cons_of_mem _ ht)
      have wfRest : ∀ t ∈ rest, t.real.isSome = true :=
        fun t ht => hwf t (List.mem_cons_of_mem _ (List.mem_cons_of_mem _ ht))
      have bTail := bwdFromEn_tail t1 (t2 :: rest) hbwd
      have tTail := tameFromEn_tail contr t1 (t2 :: rest) htame
      have len1 : (t2 :: rest).length ≤ n := by simp at hlen ⊢; omega
      have len2 : rest.length ≤ n := by simp at hlen ⊢; omega
      obtain ⟨l, hgo1, hset1, hhead1⟩ := ih (t2 :: rest) len1 wfTail bTail tTail
      obtain ⟨h2, l', rfl, hrew2⟩ : ∃ h2 l', l = h2 :: l' ∧ RewEn t2 h2 := by
        cases l with
        | nil => exact absurd hhead1 (by simp [HeadOKEn])
        | cons h2 l' => exact ⟨h2, l', rfl, hhead1⟩
      obtain ⟨l3, hgo3, hset3, hhead3⟩ := ih rest len2 wfRest (bwdFromEn_tail t2 rest bTail)
        (tameFromEn_tail contr t2 rest tTail)
      simp only [bwdFromEn, tameFromEn, Bool.and_eq_true] at hbwd htame
      -- keep: the output is t1 :: (recursive output)
      have keepCase : pairOKEn t1 t2 = true → stepEn contr t1 t2 = .ok .keep →
          ∃ out, goEn contr (t1 :: t2 :: rest) = .ok out ∧ settledFrom .en false out = true ∧
            HeadOKEn (t1 :: t2 :: rest) out := by
        intro hok hst
        refine ⟨t1 :: h2 :: l', by simp [goEn, hst, hgo1], ?_, Or.inl rfl⟩
        have := pairOKEn_transfer t1 t2 h2 hrew2 hok
        have e : (Lang.en == Lang.fr) = false := by decide
        simp only [settledFrom, pairOK, this, e, Bool.false_and, Bool.or_true, Bool.true_and]
        rw [settledFrom_en]; exact hset1
      rcases Option.eq_none_or_eq_some (view .en t1) with hv1 | ⟨v1, hv1⟩
      · exact keepCase (pairOKEn_none_left _ _ hv1) (by simp [stepEn, hx1, hv1])
      rcases Option.eq_none_or_eq_some (view .en t2) with hv2 | ⟨v2, hv2⟩
      · exact keepCase (pairOKEn_none_right _ _ hv2) (by simp [stepEn, hx1, hx2, hv1, hv2])
      have hst : stepEn contr t1 t2 = .ok (stepEnCore contr t1 t2 v1 v2) := by simp [stepEn, hx1, hx2, hv1, hv2]
      have wd1 := (view_wd _ _ _ hv1).2
      simp only [bwdPairEn, hv1, hv2] at hbwd
      simp only [tameWinEn, hv1, hv2, Bool.and_eq_true] at htame
      obtain ⟨⟨T1, T2⟩, _⟩ := htame
      -- after a rewrite of both tokens: a :: b :: (output for rest)
      have twoCase : ∀ a b : Tok, stepEnCore contr t1 t2 v1 v2 = .two a b → RewEn t1 a → pairOKEn a b = true →
          (∀ t3 h3, rest.head? = some t3 → RewEn t3 h3 → pairOKEn b h3 = true) →
          ∃ out, goEn contr (t1 :: t2 :: rest) = .ok out ∧ settledFrom .en false out = true ∧
            HeadOKEn (t1 :: t2 :: rest) out := by
        intro a b hcore hra hab hjump
        refine ⟨a :: b :: l3, by simp [goEn, hst, hcore, hgo3], ?_, hra⟩
        have e : (Lang.en == Lang.fr) = false := by decide
        cases l3 with
        | nil => simp [settledFrom, pairOK, hab]
        | cons h3 l3' =>
          cases rest with
          | nil => exact absurd hhead3 (by simp [HeadOKEn])
          | cons t3 r3 =>
            have := hjump t3 h3 rfl hhead3
            simp only [settledFrom, pairOK, hab, this, e, Bool.false_and, Bool.or_true, Bool.true_and]
            rw [settledFrom_en]; exact hset3
      unfold stepEnCore at hst twoCase
      by_cases cA : isArtA t1 v1.w = true
      · simp only [cA, if_true] at hst twoCase
        by_cases cR : anRule v2.w = true
        · simp only [cR, if_true] at hst twoCase
          -- a -> an
          have hw' : ∀ c ∈ v1.w ++ ['n'], isWd .en c = true := by
            intro c hc
            simp only [List.mem_append, List.mem_singleton] at hc
            cases hc with
            | inl h => exact wd1 c h
            | inr h => rw [h]; decide
          have hva := view_setReal .en t1 v1 hv1 (v1.w ++ ['n']) (by simp) hw'
          have hAn : anRule (v1.w ++ ['n']) = anRule v1.w ∧
              (v1.w ++ ['n'] = ['a', 'n'] ∨ v1.w ++ ['n'] = ['A', 'n']) := by
            simp only [isArtA, Bool.and_eq_true, Bool.or_eq_true, beq_iff_eq] at cA
            cases cA.1.1 with
            | inl h => rw [h]; exact ⟨fact_en_an.1, Or.inl rfl⟩
            | inr h => rw [h]; exact ⟨fact_en_an.2.1, Or.inr rfl⟩
          apply twoCase _ _ rfl (Or.inr ⟨v1, _, hv1, hva, hAn.1⟩)
          · -- `an` stands before a word selected by the rule
            have : (v1.w ++ ['n'] == ['a']) = false ∧ (v1.w ++ ['n'] == ['A']) = false := by
              cases hAn.2 with
              | inl h => rw [h]; decide
              | inr h => rw [h]; decide
            simp [pairOKEn, hva, hv2, cR, this.1, this.2]
          · intro t3 h3 e hr3
            simp only [cA, cR, Bool.and_self, Bool.not_true, Bool.false_or, e] at T1
            exact pairOKEn_transfer t2 t3 h3 hr3 T1
        · simp only [cR, if_false, Bool.false_eq_true] at hst
          apply keepCase _ hst
          have cR' : anRule v2.w = false := by simpa using cR
          simp only [isArtA, Bool.and_eq_true, Bool.or_eq_true, beq_iff_eq] at cA
          simp only [pairOKEn, hv1, hv2, cR', Bool.not_false, Bool.or_true, Bool.true_and]
          cases cA.1.1 with
          | inl h => rw [h]; simp
          | inr h => rw [h]; simp
      · have cA' : isArtA t1 v1.w = false := by simpa using cA
        simp only [cA', if_false, Bool.false_eq_true] at hst twoCase
        -- t1 is not the article a/A: the first clause is vacuous, the second one is the backward hypothesis
        have hok12 : pairOKEn t1 t2 = true := by
          simp only [pairOKEn, hv1, hv2, Bool.and_eq_true]
          refine ⟨?_, hbwd.1⟩
          simp only [isArtA] at cA'
          cases h : (t1.ct == ['D'] && !t1.fr && (v1.w == ['a'] || v1.w == ['A'])) with
          | false => rfl
          | true =>
            simp only [Bool.and_eq_true] at h
            simp [h.1.1, h.1.2, h.2] at cA'
        cases contr with
        | false =>
          simp only [if_false, Bool.false_eq_true] at hst
          exact keepCase hok12 hst
        | true =>
          simp only [if_true] at hst twoCase
          by_cases cC : (v1.w == ['c', 'a', 'n', 'n', 'o', 't']) = true
          · -- cannot -> can't : token i rewritten, i += 1
            simp only [cC, if_true] at hst
            have hva := view_setReal .en t1 v1 hv1 ['c', 'a', 'n', '\'', 't'] (by simp)
              (by simpa [List.all_eq_true] using fact_en_an.2.2.2.2.2.1)
            refine ⟨t1.setReal (v1.rebuild ['c', 'a', 'n', '\'', 't']) :: h2 :: l', by simp [goEn, hst, hgo1], ?_, ?_⟩
            · have := pairOKEn_not_article (t1.setReal (v1.rebuild ['c', 'a', 'n', '\'', 't'])) h2 _ hva
                (show [['a'], ['A'], ['a', 'n'], ['A', 'n']].contains ['c', 'a', 'n', '\'', 't'] = false by decide)
              have e : (Lang.en == Lang.fr) = false := by decide
              simp only [settledFrom, pairOK, this, e, Bool.false_and, Bool.or_true, Bool.true_and]
              rw [settledFrom_en]; exact hset1
            · refine Or.inr ⟨v1, _, hv1, hva, ?_⟩
              have : v1.w = ['c', 'a', 'n', 'n', 'o', 't'] := by simpa using cC
              rw [this]; exact fact_en_an.2.2.1
          · have cC' : (v1.w == ['c', 'a', 'n', 'n', 'o', 't']) = false := by simpa using cC
            simp only [cC', if_false, Bool.false_eq_true] at hst twoCase
            cases hcf : contrEn v1.w v2.w with
            | none =>
              simp only [hcf] at hst
              exact keepCase hok12 hst
            | some c =>
              simp only [hcf] at hst twoCase
              obtain ⟨c1, c2, c3, c4⟩ := contrEn_first v1.w v2.w c wd1 hcf
              have hva := view_setReal .en t1 v1 hv1 c c1 c2
              have hvb : view .en (t2.setReal (v2.pre ++ strip v2.rest)) = none := by
                have cC2 : v1.w ≠ ['c', 'a', 'n', 'n', 'o', 't'] := by simpa using cC'
                simpa [cA', cC2, hcf] using T2
              apply twoCase _ _ rfl (Or.inr ⟨v1, _, hv1, hva, c3⟩)
              · exact pairOKEn_not_article _ _ _ hva c4
              · intro t3 h3 _ _
                exact pairOKEn_none_left _ _ hvb

end Pyrealb.Elision
