import Pyrealb.Lemmas.ElisionFacts
/-! Word-level lemmas: what the clauses `clausesFr` say of a pair of adjacent words after each kind of rewrite. -/
namespace Pyrealb.Elision
open Pyrealb Pyrealb.Gen.Elision

theorem mem_dropLast {α} : ∀ (l : List α) (x : α), x ∈ l.dropLast → x ∈ l := by
  intro l
  induction l with
  | nil => intro x h; simp at h
  | cons a as ih =>
    intro x h
    cases as with
    | nil => simp at h
    | cons b bs =>
      simp only [List.dropLast_cons_cons, List.mem_cons] at h
      cases h with
      | inl h => simp [h]
      | inr h => exact List.mem_cons_of_mem _ (ih x h)

theorem wd_elidedOf (w : Str) (hw : ∀ c ∈ w, isWd .fr c = true) : ∀ c ∈ elidedOf w, isWd .fr c = true := by
  intro c hc
  simp only [elidedOf, List.mem_append, List.mem_singleton] at hc
  cases hc with
  | inl h => exact hw c (mem_dropLast _ _ h)
  | inr h => rw [h]; exact fact_apos_wd.1

theorem elidedOf_ne_nil (w : Str) : elidedOf w ≠ [] := by simp [elidedOf]

theorem mem_EE_of_elidable (w : Str) (h : isElidableWord w = true) : lower w ∈ EE := by
  simp only [isElidableWord, List.contains_iff_mem] at h
  exact List.mem_append_left _ h

theorem mem_EE_of_euphonic (w : Str) (h : isEuphonic w = true) : lower w ∈ EE := by
  simp only [isEuphonic, List.contains_iff_mem] at h
  exact List.mem_append_right _ h

/-- no key of the contraction table starts with the elided form of an elidable / euphonic word -/
theorem contrFr_elided_first (w1 w2 : Str) (h : lower w1 ∈ EE) (hw : ∀ c ∈ w1, isWd .fr c = true) :
    contrFr (elidedOf w1) w2 = none := by
  cases hcf : contrFr (elidedOf w1) w2 with
  | none => rfl
  | some c =>
    have tr := contrFr_triple _ _ _ (noPlus_of_wd _ (wd_elidedOf w1 hw)) hcf
    have := ((fact_elided_inert (lower w1) h).2.2.2.2.2 _ tr).1
    exact absurd (lower_elidedOf w1) this

theorem contrFr_elided_second (w1 w2 : Str) (h : lower w2 ∈ EE) (hw : ∀ c ∈ w1, isWd .fr c = true) :
    contrFr w1 (elidedOf w2) = none := by
  cases hcf : contrFr w1 (elidedOf w2) with
  | none => rfl
  | some c =>
    have tr := contrFr_triple _ _ _ (noPlus_of_wd _ hw) hcf
    have := ((fact_elided_inert (lower w2) h).2.2.2.2.2 _ tr).2
    exact absurd (lower_elidedOf w2) this

/-- W1: after `w1 -> w1[:-1]+"'"` before a vowel or mute h -/
theorem clauses_after_elision (w1 w2 : Str) (sg isD fr2 : Bool) (h : lower w1 ∈ EE)
    (hw : ∀ c ∈ w1, isWd .fr c = true) : clausesFr (elidedOf w1) sg w2 true isD fr2 = true := by
  obtain ⟨f1, f2, f3, f4, _, _⟩ := fact_elided_inert (lower w1) h
  have hc := contrFr_elided_first w1 w2 h hw
  simp at f1 f2 f3 f4
  simp [clausesFr, isElidableWord, isEuphonic, isPrevocalicOnly, lower_elidedOf, f1, f2, f3, f4, hc]

/-- W2: after `w1 -> euphonieFrTable[w1.lower()]` (capitalised or not) before a vowel or mute h that is not an exception -/
theorem clauses_after_euph (v w2 : Str) (sg isD fr2 : Bool) (hv : v ∈ euphResults)
    (hexc : euphExc w2 = false) : clausesFr v sg w2 true isD fr2 = true := by
  obtain ⟨_, g2, g3, g4, g5, _, g7, _, _⟩ := fact_euph_values _ hv
  have hwd : ∀ c ∈ v, isWd .fr c = true := by simpa [List.all_eq_true] using g2
  have hc : contrFr v w2 = none := by
    cases hcf : contrFr v w2 with
    | none => rfl
    | some c =>
      have tr := contrFr_triple _ _ _ (noPlus_of_wd _ hwd) hcf
      exact absurd rfl (g7 _ tr).1
  simp at g3 g4 g5
  simp [clausesFr, isElidableWord, isEuphonic, g3, g4, g5, hc, hexc]

/-- W3: a euphonic word left alone before `et`, `ou`, `où`, `aujourd'hui` -/
theorem clauses_euph_exc (w1 w2 : Str) (sg isD fr2 : Bool) (he : isEuphonic w1 = true)
    (hw : ∀ c ∈ w1, isWd .fr c = true) (hexc : euphExc w2 = true) : clausesFr w1 sg w2 true isD fr2 = true := by
  have hm : lower w1 ∈ euphonicFr := by simpa [isEuphonic, List.contains_iff_mem] using he
  obtain ⟨d1, d2, d3, d4⟩ := fact_euphonic_disjoint _ hm
  have hc : contrFr w1 w2 = none := by
    cases hcf : contrFr w1 w2 with
    | none => rfl
    | some c =>
      have tr := contrFr_triple _ _ _ (noPlus_of_wd _ hw) hcf
      exact absurd rfl (d4 _ tr)
  simp at d1 d2 d3
  simp [clausesFr, isElidableWord, isPrevocalicOnly, d1, d2, d3, hc, hexc]

/-- W4: the look-ahead: `w1` (first part of a contraction key) before `w2[:-1]+"'"` -/
theorem clauses_ahead_first (w1 w2 c : Str) (sg isD fr2 : Bool) (hc : contrFr w1 w2 = some c)
    (hw1 : ∀ x ∈ w1, isWd .fr x = true) (he : isElidableWord w2 = true) :
    clausesFr w1 sg (elidedOf w2) false isD fr2 = true := by
  have tr := contrFr_triple _ _ _ (noPlus_of_wd _ hw1) hc
  obtain ⟨t1, _, t3, _⟩ := fact_triples _ tr
  have h2 := mem_EE_of_elidable w2 he
  have hc2 := contrFr_elided_second w1 w2 h2 hw1
  have f5 := (fact_elided_inert (lower w2) h2).2.2.2.2.1
  simp only [] at t1 t3
  simp at f5
  simp [clausesFr, t1, t3, hc2, lower_elidedOf, f5]

/-- W6: no rule applied to the pair and the backward clauses held: the pair is settled -/
theorem clauses_of_no_rule (w1 w2 : Str) (sg V isD fr2 : Bool)
    (h1 : (V && isElidableWord w1) = false) (h2 : (V && isEuphonic w1 && sg) = false)
    (h3 : fr2 = true → contrFr w1 w2 = none)
    (hb : ((!isElidedForm w1 || V) && (!isPrevocalicOnly w1 || (V && !euphExc w2))) = true)
    (ht5 : (!(aDe.contains (lower w1) && leLes.contains (lower w2) && fr2) || (aDe.contains w1 && leLes.contains w2)) = true) :
    clausesFr w1 sg w2 V isD fr2 = true := by
  cases fr2 with
  | false =>
    simp only [Bool.and_eq_true, Bool.or_eq_true, Bool.not_eq_eq_eq_not, Bool.not_true] at hb
    simp only [clausesFr, Bool.not_false, Bool.true_or, Bool.and_false, Bool.and_true]
    cases V <;> cases sg <;> simp_all
  | true =>
    have h3' := h3 rfl
    have h35 : (aDe.contains (lower w1) && leLes.contains (lower w2)) = false := by
      cases hA : (aDe.contains (lower w1) && leLes.contains (lower w2)) with
      | false => rfl
      | true =>
        rw [hA] at ht5
        simp only [Bool.and_true, Bool.not_true, Bool.false_or, Bool.and_eq_true, List.contains_iff_mem] at ht5
        have := fact_obligatory w1 ht5.1 w2 ht5.2
        rw [h3'] at this
        simp at this
    simp only [Bool.and_eq_true, Bool.or_eq_true, Bool.not_eq_eq_eq_not, Bool.not_true] at hb
    simp only [clausesFr, h3', h35, Option.isNone_none, Bool.false_and, Bool.not_false, Bool.and_true, Bool.or_true]
    cases V <;> cases sg <;> simp_all

/-- W7a: the second word is elided later (it is an elidable or euphonic word, so it begins with a consonant) -/
theorem clauses_transfer_elided (w1 w2 : Str) (sg isD fr2 : Bool) (h2 : lower w2 ∈ EE)
    (hw1 : ∀ x ∈ w1, isWd .fr x = true) (hc : clausesFr w1 sg w2 false isD fr2 = true) :
    clausesFr w1 sg (elidedOf w2) false isD fr2 = true := by
  have hc2 := contrFr_elided_second w1 w2 h2 hw1
  have f5 := (fact_elided_inert (lower w2) h2).2.2.2.2.1
  simp at f5
  simp only [clausesFr, Bool.and_false, Bool.not_false, Bool.true_and, Bool.or_false, Bool.false_and,
    Bool.and_eq_true] at hc ⊢
  simp [hc.1.1.1, hc.2, hc2, lower_elidedOf, f5]

/-- W7b: the second word takes its prevocalic form later -/
theorem clauses_transfer_euph (w1 w2 v : Str) (sg isD fr2 : Bool) (hv : v ∈ euphResults)
    (hw1 : ∀ x ∈ w1, isWd .fr x = true) (hc : clausesFr w1 sg w2 false isD fr2 = true) :
    clausesFr w1 sg v false isD fr2 = true := by
  obtain ⟨_, _, _, _, _, g6, g7, _, _⟩ := fact_euph_values _ hv
  have hc2 : contrFr w1 v = none := by
    cases hcf : contrFr w1 v with
    | none => rfl
    | some c =>
      have tr := contrFr_triple _ _ _ (noPlus_of_wd _ hw1) hcf
      exact absurd rfl (g7 _ tr).2
  simp at g6
  simp only [clausesFr, Bool.and_false, Bool.not_false, Bool.true_and, Bool.or_false, Bool.false_and,
    Bool.and_eq_true] at hc ⊢
  simp [hc.1.1.1, hc.2, hc2, g6]

/-- W7c: the second word is contracted with the third later (`c = contractionFrTable[w2+"+"+w3]`) -/
theorem clauses_transfer_contr (w1 w2 w3 c : Str) (sg V isD fr2 : Bool) (hcc : contrFr w2 w3 = some c)
    (hw2 : ∀ x ∈ w2, isWd .fr x = true) (ht4 : contrFr w1 c = none)
    (hc : clausesFr w1 sg w2 V isD fr2 = true) : clausesFr w1 sg c V isD fr2 = true := by
  have tr := contrFr_triple _ _ _ (noPlus_of_wd _ hw2) hcc
  obtain ⟨_, _, _, t4, t5, _, t7, _, _⟩ := fact_triples _ tr
  simp only [] at t4 t5 t7
  simp at t7
  simp only [clausesFr] at hc ⊢
  rw [ht4, t5]
  rw [t4] at hc
  cases h1 : isElidableWord w1 <;> cases h2 : isElidedForm w1 <;> cases h3 : isEuphonic w1 <;>
    cases h4 : isPrevocalicOnly w1 <;> cases V <;> cases sg <;> simp_all

end Pyrealb.Elision
