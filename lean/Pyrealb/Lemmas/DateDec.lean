import Pyrealb.Model.Date
/-! Decimal text of integers is injective; consequence for the `str(diffDays) in relativeDate` lookup. -/
namespace Pyrealb.Date

theorem dec_isDigit {n : Nat} {c : Char} (h : c ∈ dec n) : c.isDigit = true :=
  Nat.isDigit_of_mem_toDigits (by decide) (by decide) h

theorem dec_ne_nil (n : Nat) : dec n ≠ [] := Nat.toDigits_ne_nil

theorem dec_inj {a b : Nat} (h : dec a = dec b) : a = b := by
  have ha := @Nat.ofDigitChars_ten_toDigits a
  have hb := @Nat.ofDigitChars_ten_toDigits b
  unfold dec at h
  rw [h] at ha
  omega

theorem dec_head_ne_minus (n : Nat) (t : Str) : dec n ≠ '-' :: t := by
  intro h
  have : '-' ∈ dec n := by rw [h]; exact List.mem_cons_self
  have := dec_isDigit this
  revert this; decide

theorem dec_head_ne_plus (n : Nat) (t : Str) : dec n ≠ '+' :: t := by
  intro h
  have : '+' ∈ dec n := by rw [h]; exact List.mem_cons_self
  have := dec_isDigit this
  revert this; decide

theorem pyInt_inj {a b : Int} (h : pyInt a = pyInt b) : a = b := by
  unfold pyInt at h
  by_cases ha : a < 0 <;> by_cases hb : b < 0 <;> simp only [ha, hb, if_true, if_false] at h
  · have := dec_inj (List.cons.inj h).2; omega
  · exact absurd h.symm (dec_head_ne_minus _ _)
  · exact absurd h (dec_head_ne_minus _ _)
  · have := dec_inj h; omega

theorem pyInt_ne_minus (a : Int) : pyInt a ≠ ['-'] := by
  unfold pyInt
  by_cases ha : a < 0 <;> simp only [ha, if_true, if_false]
  · intro h; exact dec_ne_nil _ (List.cons.inj h).2
  · exact dec_head_ne_minus _ _

theorem pyInt_ne_plus (a : Int) : pyInt a ≠ ['+'] := by
  unfold pyInt
  by_cases ha : a < 0 <;> simp only [ha, if_true, if_false]
  · intro h; have := (List.cons.inj h).1; revert this; decide
  · exact dec_head_ne_plus _ _

theorem lookup_none_of_forall {α} (k : Str) (l : List (Str × α)) (h : ∀ kv ∈ l, kv.1 ≠ k) : lookup k l = none := by
  induction l with
  | nil => rfl
  | cons kv r ih =>
    obtain ⟨k', v⟩ := kv
    have h1 : k' ≠ k := h (k', v) List.mem_cons_self
    simp only [lookup, h1, if_false]
    exact ih (fun x hx => h x (List.mem_cons_of_mem _ hx))

/-- the integers −6 … 6 -/
def week : List Int := [-6, -5, -4, -3, -2, -1, 0, 1, 2, 3, 4, 5, 6]

/-- every key of a relative-time table is `"-"`, `"+"` or `str(k)` with −6 ≤ k ≤ 6 (decidable; proved of the
    generated tables by `decide`) -/
def RelKeysWF (tbl : List (Str × Str)) : Bool :=
  tbl.all (fun kv => kv.1 = ['-'] || kv.1 = ['+'] || (week.map pyInt).contains kv.1)

theorem mem_week {k : Int} (h : k ∈ week) : -6 ≤ k ∧ k ≤ 6 := by
  simp only [week, List.mem_cons, List.not_mem_nil, or_false] at h
  omega

/-- beyond a week the `str(diffDays) in relativeDate` test fails, whatever the size of the difference -/
theorem lookup_far (tbl : List (Str × Str)) (hwf : RelKeysWF tbl = true) (d : Int) (hd : d < -6 ∨ 6 < d) :
    lookup (pyInt d) tbl = none := by
  apply lookup_none_of_forall
  intro kv hkv heq
  have h := List.all_eq_true.mp hwf kv hkv
  simp only [Bool.or_eq_true, decide_eq_true_eq, List.contains_iff_mem] at h
  rcases h with (h | h) | h
  · exact pyInt_ne_minus d (heq ▸ h)
  · exact pyInt_ne_plus d (heq ▸ h)
  · obtain ⟨k, hk, hke⟩ := List.mem_map.mp h
    have : k = d := pyInt_inj (hke.trans heq)
    have := mem_week hk
    omega

end Pyrealb.Date
