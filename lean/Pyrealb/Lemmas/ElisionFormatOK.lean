import Pyrealb.Model.ElisionTree
import Pyrealb.Lemmas.ElisionTree
import Pyrealb.Model.FormatTables
import Pyrealb.Lemmas.FormatWrap
/-! # `FormatOK` for the formatting model of C10

`Format.formatCore` (C10's model of `Constituent.doFormat` after `doElision`) wraps the token list: a prefix `B` on
the first token, a suffix `A` on the last one (`Format.formatCore_eq`).  Here: when `B` is made of characters that
`sepWordREC` skips and of complete tags, and `A` does not start with a word character, contains no word outside
tags and no newline, every token keeps its first word and what `doElision` reads of it (`SameView`), hence the
hypothesis `FormatOK` of `tree_settled_partial` holds for the real formatting model restricted to the options
`tag`, `a`, `b`, `en`, `ba` with the signs of the generated `Pc` tables other than `'` and `-` (which ARE word
characters of `sepWordREC`: `.b("-")`, `.en("'")` change the first word — excluded, as are `poss` and `cap`). -/
namespace Pyrealb.Elision
open Pyrealb

/-! ## prefixes that `sepWordREC` skips -/

def SkipAll (ℓ : Lang) (B : Str) : Prop :=
  ∀ y, skipLen (isWd ℓ) .out (B ++ y) = B.length + skipLen (isWd ℓ) .out y

theorem skipAll_nil (ℓ : Lang) : SkipAll ℓ [] := by intro y; simp

theorem skipAll_append (ℓ : Lang) (B1 B2 : Str) (h1 : SkipAll ℓ B1) (h2 : SkipAll ℓ B2) : SkipAll ℓ (B1 ++ B2) := by
  intro y
  rw [List.append_assoc, h1, h2, List.length_append]; omega

/-- a character outside tags that group 1 of `sepWordREC` consumes -/
def plainSkip (ℓ : Lang) (c : Char) : Bool := c != '<' && !isWd ℓ c && c != '\n'

theorem skipAll_plain (ℓ : Lang) : ∀ (B : Str), (∀ c ∈ B, plainSkip ℓ c = true) → SkipAll ℓ B := by
  intro B
  induction B with
  | nil => intro _; exact skipAll_nil ℓ
  | cons c r ih =>
    intro h y
    have hc := h c (by simp)
    simp only [plainSkip, Bool.and_eq_true, bne_iff_ne, ne_eq, Bool.not_eq_eq_eq_not, Bool.not_true] at hc
    have := ih (fun c hc => h c (List.mem_cons_of_mem _ hc)) y
    simp [skipLen, hc.1.1, hc.1.2, this]; omega

theorem tag_scan (wd : Char → Bool) : ∀ (t y : Str), '>' ∉ t →
    skipLen wd .tag (t ++ '>' :: y) = t.length + 1 + skipLen wd .out y := by
  intro t
  induction t with
  | nil => intro y _; simp [skipLen, Nat.add_comm]
  | cons c r ih =>
    intro y h
    have hc : c ≠ '>' := by intro e; apply h; simp [e]
    have := ih y (by intro e; apply h; simp [e])
    simp [skipLen, hc, this]; omega

/-- a complete tag `<…>` -/
theorem skipAll_tag (ℓ : Lang) (t : Str) (hne : t ≠ []) (h : '>' ∉ t) : SkipAll ℓ ('<' :: t ++ ['>']) := by
  intro y
  have hok : tagOK (t ++ '>' :: y) = true := by
    cases t with
    | nil => exact absurd rfl hne
    | cons d ds =>
      have hd : d ≠ '>' := by intro e; apply h; simp [e]
      simp [tagOK, hd]
  have := tag_scan (isWd ℓ) t y h
  simp [skipLen, hok, this]; omega

theorem take_append_len {α} : ∀ (B x : List α) (k : Nat), (B ++ x).take (B.length + k) = B ++ x.take k := by
  intro B; induction B with
  | nil => intro x k; simp
  | cons b r ih =>
    intro x k
    have : (b :: r).length + k = (r.length + k) + 1 := by simp; omega
    rw [this]; simp [ih]

theorem drop_append_len {α} : ∀ (B x : List α) (k : Nat), (B ++ x).drop (B.length + k) = x.drop k := by
  intro B; induction B with
  | nil => intro x k; simp
  | cons b r ih =>
    intro x k
    have : (b :: r).length + k = (r.length + k) + 1 := by simp; omega
    rw [this]; simp [ih]

/-- `sepWordREC.match(B + x)`: group 1 grows by `B`, groups 2 and 3 are those of `x` -/
theorem sepWord_prefix (ℓ : Lang) (B x : Str) (h : SkipAll ℓ B) :
    sepWord ℓ (B ++ x) = ⟨B ++ (sepWord ℓ x).pre, (sepWord ℓ x).word, (sepWord ℓ x).rest⟩ := by
  simp only [sepWord, h x, take_append_len, drop_append_len]

/-! ## suffixes -/

/-- scanning from a state of the skip automaton finds no word -/
def noWordFrom (wd : Char → Bool) : Sk → Str → Bool
  | .out, [] => true
  | .out, c :: cs =>
    if c == '<' then (if tagOK cs then noWordFrom wd .tag cs else true)
    else if wd c then false else noWordFrom wd .out cs
  | .tag, [] => true
  | .tag, c :: cs => if c == '>' then noWordFrom wd .out cs else noWordFrom wd .tag cs

/-- `noWordFrom` says that group 2 is `None` -/
theorem noWordFrom_iff (wd : Char → Bool) (hlt : wd '<' = false) : ∀ (x : Str) (st : Sk),
    noWordFrom wd st x = ((x.drop (skipLen wd st x)).takeWhile wd).isEmpty := by
  intro x
  induction x with
  | nil => intro st; cases st <;> simp [noWordFrom, skipLen]
  | cons c cs ih =>
    intro st
    cases st with
    | tag =>
      by_cases hc : c = '>'
      · subst hc; simp [noWordFrom, skipLen, ih, Nat.add_comm 1]
      · simp [noWordFrom, skipLen, hc, ih, Nat.add_comm 1]
    | out =>
      by_cases hc : c = '<'
      · subst hc
        by_cases ht : tagOK cs = true
        · simp [noWordFrom, skipLen, ht, ih, Nat.add_comm 1]
        · simp [noWordFrom, skipLen, ht, List.takeWhile, hlt]
      · by_cases hw : wd c = true
        · simp [noWordFrom, skipLen, hc, hw, List.takeWhile]
        · simp [noWordFrom, skipLen, hc, hw, ih, Nat.add_comm 1]

theorem tagOK_append (cs A : Str) (h : tagOK cs = true) : tagOK (cs ++ A) = true := by
  cases cs with
  | nil => simp [tagOK] at h
  | cons d ds =>
    simp only [tagOK, Bool.and_eq_true, bne_iff_ne, ne_eq, List.contains_iff_mem] at h
    simp [tagOK, h.1, h.2]

theorem noWord_tag_nogt (wd : Char → Bool) : ∀ (cs z : Str), '>' ∉ cs →
    noWordFrom wd .tag (cs ++ z) = noWordFrom wd .tag z := by
  intro cs
  induction cs with
  | nil => intro z _; rfl
  | cons c r ih =>
    intro z h
    have hc : c ≠ '>' := by intro e; apply h; simp [e]
    simp [noWordFrom, hc, ih z (by intro e; apply h; simp [e])]

/-- what a suffix must satisfy so that a token without a word stays without a word -/
def GoodSuf (ℓ : Lang) (A : Str) : Prop :=
  noWordFrom (isWd ℓ) .out A = true ∧ noWordFrom (isWd ℓ) .tag A = true

theorem noWord_append (ℓ : Lang) (A : Str) (hA : GoodSuf ℓ A) : ∀ (x : Str) (st : Sk),
    noWordFrom (isWd ℓ) st x = true → noWordFrom (isWd ℓ) st (x ++ A) = true := by
  intro x
  induction x with
  | nil => intro st _; cases st; exact hA.1; exact hA.2
  | cons c cs ih =>
    intro st h
    cases st with
    | tag =>
      by_cases hc : c = '>'
      · subst hc; simp only [noWordFrom, List.cons_append] at h ⊢; simpa using ih .out (by simpa using h)
      · simp only [noWordFrom, List.cons_append, hc] at h ⊢; simpa [hc] using ih .tag (by simpa [hc] using h)
    | out =>
      by_cases hc : c = '<'
      · subst hc
        by_cases ht : tagOK cs = true
        · simp only [noWordFrom, List.cons_append, ht, tagOK_append cs A ht] at h ⊢
          simpa using ih .tag (by simpa using h)
        · simp only [noWordFrom, List.cons_append]
          by_cases ht2 : tagOK (cs ++ A) = true
          · simp only [ht2, beq_self_eq_true, if_true]
            -- the tag is completed by the suffix: what is left of `x` has no `>`
            cases cs with
            | nil => exact hA.2
            | cons d ds =>
              have hd : d ≠ '>' := by
                intro e; simp [tagOK, e] at ht2
              have hds : '>' ∉ ds := by
                intro e; apply ht; simp [tagOK, hd, e]
              have : '>' ∉ d :: ds := by
                intro e; simp only [List.mem_cons] at e
                cases e with
                | inl e => exact hd e.symm
                | inr e => exact hds e
              rw [noWord_tag_nogt (isWd ℓ) (d :: ds) A this]; exact hA.2
          · simp [ht2]
      · by_cases hw : isWd ℓ c = true
        · simp [noWordFrom, hc, hw] at h
        · simp only [noWordFrom, List.cons_append] at h ⊢
          simpa [hc, hw] using ih .out (by simpa [hc, hw] using h)

theorem goodSuf_append (ℓ : Lang) (A1 A2 : Str) (h1 : GoodSuf ℓ A1) (h2 : GoodSuf ℓ A2) : GoodSuf ℓ (A1 ++ A2) :=
  ⟨noWord_append ℓ A2 h2 A1 .out h1.1, noWord_append ℓ A2 h2 A1 .tag h1.2⟩

theorem goodSuf_nil (ℓ : Lang) : GoodSuf ℓ [] := ⟨rfl, rfl⟩

theorem goodSuf_plain (ℓ : Lang) : ∀ (A : Str), (∀ c ∈ A, plainSkip ℓ c = true) → GoodSuf ℓ A := by
  intro A
  induction A with
  | nil => intro _; exact goodSuf_nil ℓ
  | cons c r ih =>
    intro h
    have hc := h c (by simp)
    simp only [plainSkip, Bool.and_eq_true, bne_iff_ne, ne_eq, Bool.not_eq_eq_eq_not, Bool.not_true] at hc
    have g := ih (fun c hc => h c (List.mem_cons_of_mem _ hc))
    refine ⟨by simp [noWordFrom, hc.1.1, hc.1.2, g.1], ?_⟩
    by_cases hg : c = '>'
    · simp [noWordFrom, hg, g.1]
    · simp [noWordFrom, hg, g.2]

theorem noWord_tag_close (wd : Char → Bool) : ∀ (t z : Str), '>' ∉ t →
    noWordFrom wd .tag (t ++ '>' :: z) = noWordFrom wd .out z := by
  intro t z h
  rw [noWord_tag_nogt wd t _ h]; simp [noWordFrom]

/-- a complete tag is a good suffix -/
theorem goodSuf_tag (ℓ : Lang) (t : Str) (hne : t ≠ []) (h : '>' ∉ t) : GoodSuf ℓ ('<' :: t ++ ['>']) := by
  have hok : tagOK (t ++ ['>']) = true := by
    cases t with
    | nil => exact absurd rfl hne
    | cons d ds =>
      have hd : d ≠ '>' := by intro e; apply h; simp [e]
      simp [tagOK, hd]
  constructor
  · simp only [List.cons_append, noWordFrom, beq_self_eq_true, if_true, hok]
    rw [noWord_tag_close _ t [] h]; rfl
  · have : noWordFrom (isWd ℓ) .tag ('<' :: t ++ ['>']) = noWordFrom (isWd ℓ) .tag (t ++ ['>']) := by
      simp [noWordFrom]
    rw [this, noWord_tag_close _ t [] h]; rfl

/-! ## tokens -/

/-- what a suffix appended to the last token must satisfy -/
structure SufOK (A : Str) : Prop where
  head : ∀ c t, A = c :: t → isWd .fr c = false
  nw : noWords A = true
  nl : '\n' ∉ A
  good : GoodSuf .fr A

/-- apply `f` to the realization (a `None` realization is left alone) -/
def mapReal (f : Str → Str) (t : Tok) : Tok :=
  match t.real with
  | some x => t.setReal (f x)
  | none => t

theorem sameView_trans {a b c : Tok} (h1 : SameView a b) (h2 : SameView b c) : SameView a c := by
  obtain ⟨a1, a2, a3, a4, a5, a6, a7, m1⟩ := h1
  obtain ⟨b1, b2, b3, b4, b5, b6, b7, m2⟩ := h2
  refine ⟨b1.trans a1, b2.trans a2, b3.trans a3, b4.trans a4, b5.trans a5, b6.trans a6, b7.trans a7, ?_⟩
  cases ha : view .fr a <;> cases hb : view .fr b <;> cases hc : view .fr c <;>
    simp only [ha, hb, hc] at m1 m2 ⊢ <;> try trivial
  exact ⟨m2.1.trans m1.1, m2.2.trans m1.2⟩

theorem sameView_prefix (t : Tok) (B : Str) (h : SkipAll .fr B) : SameView t (mapReal (B ++ ·) t) := by
  unfold mapReal
  cases hr : t.real with
  | none => simp only []; exact sameView_refl t
  | some x =>
    simp only []
    refine ⟨rfl, rfl, rfl, rfl, rfl, by simp [hr], rfl, ?_⟩
    simp only [view, hr, setReal_real, sepWord_prefix .fr B x h]
    cases (sepWord .fr x).word with
    | none => trivial
    | some w => exact ⟨rfl, rfl⟩

theorem tw_append_right {α} (p : α → Bool) (A : List α) (hA : ∀ c t, A = c :: t → p c = false) :
    ∀ l : List α, (l ++ A).takeWhile p = l.takeWhile p ∧ (l ++ A).dropWhile p = l.dropWhile p ++ A := by
  intro l
  induction l with
  | nil =>
    cases A with
    | nil => simp
    | cons c t => simp [List.takeWhile, List.dropWhile, hA c t rfl]
  | cons x r ih =>
    by_cases hx : p x = true
    · simp [List.takeWhile, List.dropWhile, hx, ih.1, ih.2]
    · simp [List.takeWhile, List.dropWhile, hx]

theorem noWords_append (A : Str) (hA : noWords A = true) : ∀ d : Str, noWords (d ++ A) = noWords d := by
  intro d
  induction d with
  | nil => simp [hA]; rfl
  | cons c r ih =>
    by_cases hc : isSp c = true
    · have e1 : noWords (c :: r ++ A) = noWords (r ++ A) := by simp [noWords, List.dropWhile, hc]
      have e2 : noWords (c :: r) = noWords r := by simp [noWords, List.dropWhile, hc]
      rw [e1, e2, ih]
    · simp [noWords, List.dropWhile, hc]

theorem tw_nl_append (q : Char → Bool) (A : Str) (hA : ∀ c ∈ A, q c = true) :
    ∀ d : Str, (d ++ A).takeWhile q = if d.all q then d ++ A else d.takeWhile q := by
  intro d
  induction d with
  | nil => simp [takeWhile_all q A hA]
  | cons c r ih =>
    by_cases hc : q c = true
    · simp only [List.cons_append, List.takeWhile, hc, ih, List.all_cons, Bool.true_and]
      split <;> rfl
    · simp [List.takeWhile, hc]

/-- a suffix on a realization that has a word: same groups 1 and 2, and `w3NoWords` is unchanged -/
theorem sepWord_suffix_word (x A p w r : Str) (hA : SufOK A) (h : sepWord .fr x = ⟨p, some w, r⟩) :
    ∃ r', sepWord .fr (x ++ A) = ⟨p, some w, r'⟩ ∧ noWords r' = noWords r := by
  have spec := sepWord_word_spec .fr x p w r h
  simp only [sepWord, Sep.mk.injEq] at h
  obtain ⟨hp, hw, hr⟩ := h
  have hw0 : (x.drop (skipLen (isWd .fr) .out x)).takeWhile (isWd .fr) = w := by
    split at hw
    · cases hw
    · simpa using hw
  have hx : ∃ c t, x.drop (skipLen (isWd .fr) .out x) = c :: t ∧ isWd .fr c = true := by
    cases hwc : w with
    | nil => exact absurd hwc spec.1
    | cons c t =>
      rw [hwc] at hw0
      obtain ⟨t', ht'⟩ := head_takeWhile _ _ c t hw0
      refine ⟨c, t', ht', ?_⟩
      have : c ∈ (x.drop (skipLen (isWd .fr) .out x)).takeWhile (isWd .fr) := by rw [hw0]; simp
      exact mem_takeWhile_pos _ _ c this
  have hy : ∃ c t, x.drop (skipLen (isWd .fr) .out x) ++ A = c :: t ∧ isWd .fr c = true := by
    obtain ⟨c, t, e, hc⟩ := hx
    exact ⟨c, t ++ A, by rw [e]; rfl, hc⟩
  have hk := skip_stable (isWd .fr) (isWd_lt .fr) x .out _ hx hy
  rw [← List.append_assoc, List.take_append_drop] at hk
  have hle := skipLen_le (isWd .fr) x .out
  have tw := tw_append_right (isWd .fr) A hA.head (x.drop (skipLen (isWd .fr) .out x))
  have hq : ∀ c ∈ A, (c != '\n') = true := by
    intro c hc; simp only [bne_iff_ne, ne_eq]; intro e; exact hA.nl (e ▸ hc)
  refine ⟨(((x.drop (skipLen (isWd .fr) .out x)).dropWhile (isWd .fr)) ++ A).takeWhile (fun c => c != '\n'), ?_, ?_⟩
  · simp only [sepWord, hk, List.take_append_of_le_length hle, List.drop_append_of_le_length hle, tw.1, tw.2,
      Sep.mk.injEq]
    refine ⟨hp, ?_⟩
    rw [hw0]; simp [spec.1]
  · rw [tw_nl_append _ A hq, ← hr]
    split
    · rename_i hall
      have : ((x.drop (skipLen (isWd .fr) .out x)).dropWhile (isWd .fr)).takeWhile (fun c => c != '\n') =
          (x.drop (skipLen (isWd .fr) .out x)).dropWhile (isWd .fr) :=
        takeWhile_all _ _ (by intro c hc; exact List.all_eq_true.mp hall c hc)
      rw [this]; exact noWords_append A hA.nw _
    · rfl

theorem sameView_suffix (t : Tok) (A : Str) (hA : SufOK A) : SameView t (mapReal (· ++ A) t) := by
  unfold mapReal
  cases hr : t.real with
  | none => simp only []; exact sameView_refl t
  | some x =>
    simp only []
    refine ⟨rfl, rfl, rfl, rfl, rfl, by simp [hr], rfl, ?_⟩
    cases hs : sepWord .fr x with
    | mk p w? r =>
      cases w? with
      | some w =>
        obtain ⟨r', hs', hn⟩ := sepWord_suffix_word x A p w r hA hs
        have e1 : view .fr t = some ⟨p, w, r⟩ := by simp [view, hr, hs]
        have e2 : view .fr (t.setReal (x ++ A)) = some ⟨p, w, r'⟩ := by simp [view, hs']
        rw [e1, e2]; exact ⟨rfl, hn⟩
      | none =>
        have h0 : noWordFrom (isWd .fr) .out x = true := by
          rw [noWordFrom_iff _ (isWd_lt .fr)]
          have : (sepWord .fr x).word = none := by rw [hs]
          simp only [sepWord] at this
          split at this
          · assumption
          · cases this
        have h1 := noWord_append .fr A hA.good x .out h0
        rw [noWordFrom_iff _ (isWd_lt .fr)] at h1
        have hw : (sepWord .fr (x ++ A)).word = none := by simp [sepWord, h1]
        have e1 : view .fr t = none := by simp [view, hr, hs]
        have e2 : view .fr (t.setReal (x ++ A)) = none := by simp [view, hw]
        rw [e1, e2]; trivial

/-- prefix `B` on the first token, suffix `A` on the last one (on the tokens `doElision` sees) -/
def wrapE (B A : Str) : List Tok → List Tok
  | [] => []
  | [t] => [mapReal (· ++ A) (mapReal (B ++ ·) t)]
  | t :: u :: r => mapReal (B ++ ·) t :: modLastE A (u :: r)
where
  modLastE (A : Str) : List Tok → List Tok
    | [] => []
    | [t] => [mapReal (· ++ A) t]
    | t :: r => t :: modLastE A r

theorem all2_modLastE (A : Str) (hA : SufOK A) : ∀ l : List Tok, All2 SameView l (wrapE.modLastE A l) := by
  intro l
  induction l with
  | nil => exact .nil
  | cons t r ih =>
    cases r with
    | nil => exact .cons (sameView_suffix t A hA) .nil
    | cons u r' => exact .cons (sameView_refl t) ih

/-- **wrapping keeps every token's view** -/
theorem all2_wrapE (B A : Str) (hB : SkipAll .fr B) (hA : SufOK A) : ∀ l : List Tok, All2 SameView l (wrapE B A l) := by
  intro l
  match l with
  | [] => exact .nil
  | [t] => exact .cons (sameView_trans (sameView_prefix t B hB) (sameView_suffix _ A hA)) .nil
  | t :: u :: r => exact .cons (sameView_prefix t B hB) (all2_modLastE A hA (u :: r))

/-! ## composition of good prefixes / suffixes -/

theorem sufOK_nil : SufOK [] where
  head := by intro c t h; cases h
  nw := rfl
  nl := by simp
  good := goodSuf_nil .fr

theorem sufOK_append (A1 A2 : Str) (h1 : SufOK A1) (h2 : SufOK A2) : SufOK (A1 ++ A2) := by
  refine ⟨?_, ?_, ?_, goodSuf_append .fr A1 A2 h1.good h2.good⟩
  · intro c t e
    cases A1 with
    | nil => exact h2.head c t e
    | cons a r =>
      simp only [List.cons_append, List.cons.injEq] at e
      rw [← e.1]; exact h1.head a r rfl
  · rw [noWords_append A2 h2.nw]; exact h1.nw
  · intro e; simp only [List.mem_append] at e
    cases e with
    | inl e => exact h1.nl e
    | inr e => exact h2.nl e

def plainStr (x : Str) : Bool := x.all (plainSkip .fr)

theorem plainStr_mem (x : Str) (h : plainStr x = true) : ∀ c ∈ x, plainSkip .fr c = true := by
  intro c hc; exact List.all_eq_true.mp h c hc

theorem isWd_of_isW (c : Char) (h : isWd .fr c = false) : isW c = false := by
  simp only [isWd, Bool.or_eq_false_iff] at h; exact h.1

theorem sufOK_plain (A : Str) (h : plainStr A = true) : SufOK A := by
  have hm := plainStr_mem A h
  refine ⟨?_, ?_, ?_, goodSuf_plain .fr A hm⟩
  · intro c t e
    have := hm c (by rw [e]; simp)
    simp only [plainSkip, Bool.and_eq_true, Bool.not_eq_eq_eq_not, Bool.not_true] at this
    exact this.1.2
  · unfold noWords
    cases hd : A.dropWhile isSp with
    | nil => rfl
    | cons c t =>
      have hc : c ∈ A := by
        have : c ∈ A.dropWhile isSp := by rw [hd]; simp
        exact (List.dropWhile_sublist _).subset this
      have := hm c hc
      simp only [plainSkip, Bool.and_eq_true, Bool.not_eq_eq_eq_not, Bool.not_true] at this
      simp [isWd_of_isW c this.1.2]
  · intro e
    have := hm _ e
    simp [plainSkip] at this

theorem skipAll_plainStr (B : Str) (h : plainStr B = true) : SkipAll .fr B :=
  skipAll_plain .fr B (plainStr_mem B h)

/-! ## the options of C10's `doFormat` -/

open Pyrealb.Format in
/-- a tag whose name and attributes cannot close the tag early: non-empty name, no `>`, no newline -/
def cleanStr (x : Str) : Bool := !x.contains '>' && !x.contains '\n'

def cleanTag (tg : Str × List (Str × Str)) : Bool :=
  !tg.1.isEmpty && cleanStr tg.1 && tg.2.all (fun kv => cleanStr kv.1 && cleanStr kv.2)

/-- `getBeforeAfterString(sign)` yields two strings that `sepWordREC` skips entirely -/
def safeSign (tb : Format.Tables) (sign : Str) : Bool :=
  match Format.getBA tb sign with
  | .ok (b, a) => plainStr b && plainStr a
  | .error _ => false

/-- the non-capitalising options, with clean tags and safe signs -/
structure SafeOpts (tb : Format.Tables) (o : Format.Opts) : Prop where
  noPoss : o.poss = false
  noCap : o.cap ≠ .t
  tags : ∀ tg ∈ Format.optList o.tags, cleanTag tg = true
  signs : ∀ x ∈ Format.optList o.a ++ Format.optList o.b ++ Format.ensOf o, safeSign tb x = true

/-- every sign of the generated French `Pc` table is safe, except `-` (a word character of `sepWordREC`) -/
theorem fact_safe_signs_fr : ∀ e ∈ Format.tablesFr.lex, e.1 ≠ ['-'] → safeSign Format.tablesFr e.1 = true := by
  decide +kernel

theorem attrs_clean (attrs : List (Str × Str)) (h : attrs.all (fun kv => cleanStr kv.1 && cleanStr kv.2) = true) :
    '>' ∉ (attrs.map (fun kv => ' ' :: kv.1 ++ ['=', '"'] ++ kv.2 ++ ['"'])).flatten := by
  induction attrs with
  | nil => simp
  | cons kv r ih =>
    simp only [List.all_cons, Bool.and_eq_true, cleanStr, Bool.not_eq_eq_eq_not, Bool.not_true,
      List.contains_eq_mem, decide_eq_false_iff_not] at h
    intro e
    simp only [List.map_cons, List.flatten_cons, List.mem_append, List.mem_cons, List.mem_singleton,
      List.not_mem_nil, or_false] at e
    have hr := ih (by simpa [cleanStr] using h.2)
    rcases e with (((e | e) | e) | e) | e
    · rcases e with e | e
      · cases e
      · exact h.1.1.1 e
    · rcases e with e | e <;> cases e
    · exact h.1.2.1 e
    · cases e
    · exact hr e

theorem skipAll_startTag (tg : Str × List (Str × Str)) (h : cleanTag tg = true) :
    SkipAll .fr (Format.startTag tg.1 tg.2) := by
  simp only [cleanTag, Bool.and_eq_true, Bool.not_eq_eq_eq_not, Bool.not_true, cleanStr,
    List.contains_eq_mem, decide_eq_false_iff_not] at h
  have hne : tg.1 ++ (tg.2.map (fun kv => ' ' :: kv.1 ++ ['=', '"'] ++ kv.2 ++ ['"'])).flatten ≠ [] := by
    intro e
    have : tg.1 = [] := (List.append_eq_nil_iff.mp e).1
    simp [this] at h
  have hgt : '>' ∉ tg.1 ++ (tg.2.map (fun kv => ' ' :: kv.1 ++ ['=', '"'] ++ kv.2 ++ ['"'])).flatten := by
    intro e
    simp only [List.mem_append] at e
    cases e with
    | inl e => exact h.1.2.1 e
    | inr e => exact attrs_clean tg.2 (by simpa [cleanStr] using h.2) e
  have := skipAll_tag .fr _ hne hgt
  simpa [Format.startTag, List.append_assoc] using this

theorem sufOK_endTag (name : Str) (h1 : '>' ∉ name) (h2 : '\n' ∉ name) : SufOK (Format.endTag name) := by
  have hg := goodSuf_tag .fr ('/' :: name) (by simp) (by
    intro e; simp only [List.mem_cons] at e
    cases e with
    | inl e => cases e
    | inr e => exact h1 e)
  refine ⟨?_, ?_, ?_, by simpa [Format.endTag] using hg⟩
  · intro c t e
    simp only [Format.endTag, List.cons_append, List.cons.injEq] at e
    rw [← e.1]; exact isWd_lt .fr
  · have : isSp '<' = false := by decide
    have hw : isW '<' = false := by decide
    simp [Format.endTag, noWords, List.dropWhile, this, hw]
  · intro e
    have e' : '\n' ∈ name := by
      simpa [Format.endTag] using e
    exact h2 e'

theorem skipAll_tagsB : ∀ (tags : List (Str × List (Str × Str))), (∀ tg ∈ tags, cleanTag tg = true) →
    SkipAll .fr (Format.tagsB tags) := by
  intro tags
  induction tags with
  | nil => intro _; exact skipAll_nil .fr
  | cons tg r ih =>
    intro h
    obtain ⟨n, attrs⟩ := tg
    simp only [Format.tagsB]
    exact skipAll_append .fr _ _ (ih (fun t ht => h t (List.mem_cons_of_mem _ ht))) (skipAll_startTag (n, attrs) (h _ (by simp)))

theorem sufOK_tagsA : ∀ (tags : List (Str × List (Str × Str))), (∀ tg ∈ tags, cleanTag tg = true) →
    SufOK (Format.tagsA tags) := by
  intro tags
  induction tags with
  | nil => intro _; exact sufOK_nil
  | cons tg r ih =>
    intro h
    obtain ⟨n, attrs⟩ := tg
    have hc := h (n, attrs) (by simp)
    simp only [cleanTag, Bool.and_eq_true, Bool.not_eq_eq_eq_not, Bool.not_true, cleanStr,
      List.contains_eq_mem, decide_eq_false_iff_not] at hc
    simp only [Format.tagsA]
    exact sufOK_append _ _ (sufOK_endTag n hc.1.2.1 hc.1.2.2) (ih (fun t ht => h t (List.mem_cons_of_mem _ ht)))

/-- the strings of a list of safe signs -/
theorem baAll_safe (tb : Format.Tables) : ∀ (signs : List Str), (∀ x ∈ signs, safeSign tb x = true) →
    ∃ bas, Format.baAll tb signs = .ok bas ∧ ∀ p ∈ bas, plainStr p.1 = true ∧ plainStr p.2 = true := by
  intro signs
  induction signs with
  | nil => intro _; exact ⟨[], rfl, by intro p hp; simp at hp⟩
  | cons x r ih =>
    intro h
    obtain ⟨q, hq, hqp⟩ := ih (fun y hy => h y (List.mem_cons_of_mem _ hy))
    have hx := h x (by simp)
    unfold safeSign at hx
    cases hg : Format.getBA tb x with
    | error e => simp [hg] at hx
    | ok p =>
      obtain ⟨b, a⟩ := p
      simp only [hg, Bool.and_eq_true] at hx
      refine ⟨(b, a) :: q, ?_, ?_⟩
      · simp [Format.baAll, hg, hq, bind, Except.bind, pure, Except.pure]
      · intro p hp
        simp only [List.mem_cons] at hp
        cases hp with
        | inl e => rw [e]; exact hx
        | inr e => exact hqp p e

theorem skipAll_revB : ∀ (bas : List (Str × Str)), (∀ p ∈ bas, plainStr p.1 = true ∧ plainStr p.2 = true) →
    SkipAll .fr (Format.revB bas) := by
  intro bas
  induction bas with
  | nil => intro _; exact skipAll_nil .fr
  | cons p r ih =>
    intro h
    simp only [Format.revB]
    exact skipAll_append .fr _ _ (ih (fun q hq => h q (List.mem_cons_of_mem _ hq))) (skipAll_plainStr _ (h p (by simp)).1)

theorem sufOK_fwdB : ∀ (bas : List (Str × Str)), (∀ p ∈ bas, plainStr p.1 = true ∧ plainStr p.2 = true) →
    SufOK (Format.fwdB bas) := by
  intro bas
  induction bas with
  | nil => intro _; exact sufOK_nil
  | cons p r ih =>
    intro h
    simp only [Format.fwdB]
    exact sufOK_append _ _ (sufOK_plain _ (h p (by simp)).1) (ih (fun q hq => h q (List.mem_cons_of_mem _ hq)))

theorem sufOK_fwdA : ∀ (bas : List (Str × Str)), (∀ p ∈ bas, plainStr p.1 = true ∧ plainStr p.2 = true) →
    SufOK (Format.fwdA bas) := by
  intro bas
  induction bas with
  | nil => intro _; exact sufOK_nil
  | cons p r ih =>
    intro h
    simp only [Format.fwdA]
    exact sufOK_append _ _ (sufOK_plain _ (h p (by simp)).2) (ih (fun q hq => h q (List.mem_cons_of_mem _ hq)))

/-! ## C10's `formatCore` acting on the tokens `doElision` sees -/

/-- the token as the formatter sees it -/
def toF (t : Tok) : Format.Tok := { real := t.real.getD [], lier := t.lier }

/-- the formatter's realization written back -/
def backF (t : Tok) (f : Format.Tok) : Tok :=
  match t.real with
  | some _ => t.setReal f.real
  | none => t

/-- `Format.formatCore` (C10's model of lines 331-355 of `Constituent.doFormat`) on a list of C06 tokens -/
def fmtC10 (tb : Format.Tables) (cm : Format.CaseMap) (o : Format.Opts) (l : List Tok) : List Tok :=
  match Format.formatCore tb cm o (l.map toF) with
  | .ok l' => List.zipWith backF l l'
  | .error _ => l

theorem backF_mapReal (t : Tok) (f : Str → Str) :
    backF t { toF t with real := f (toF t).real } = mapReal f t := by
  unfold backF mapReal toF
  cases t.real <;> rfl

theorem backF_id (t : Tok) : backF t (toF t) = t := by
  cases t with
  | mk real ct lier sg hW hR fr =>
    cases real <;> simp [backF, toF, Tok.setReal]

theorem zip_modLast (A : Str) : ∀ l : List Tok,
    List.zipWith backF l (Format.modLast (· ++ A) (l.map toF)) = wrapE.modLastE A l := by
  intro l
  induction l with
  | nil => rfl
  | cons t r ih =>
    cases r with
    | nil =>
      simp only [List.map, Format.modLast, List.zipWith, wrapE.modLastE]
      rw [backF_mapReal t (· ++ A)]
    | cons u r' =>
      have := backF_id t
      simp only [List.map, Format.modLast, List.zipWith, wrapE.modLastE, this] at ih ⊢
      rw [ih]

theorem zip_wrapAll (B A : Str) : ∀ l : List Tok,
    List.zipWith backF l (Format.wrapAll B A (l.map toF)) = wrapE B A l := by
  intro l
  match l with
  | [] => rfl
  | [t] =>
    simp only [List.map, Format.wrapAll, List.zipWith, wrapE]
    unfold backF mapReal toF
    cases h : t.real <;> simp [Tok.setReal, h, mapReal]
  | t :: u :: r =>
    have := zip_modLast A (u :: r)
    simp only [List.map, Format.wrapAll, List.zipWith, wrapE] at this ⊢
    rw [this, backF_mapReal t (B ++ ·)]

/-- **`FormatOK` for C10's formatting model**, non-capitalising options, clean tags, safe signs -/
theorem fmtC10_sameView (tb : Format.Tables) (cm : Format.CaseMap) (o : Format.Opts) (h : SafeOpts tb o)
    (l : List Tok) : All2 SameView l (fmtC10 tb cm o l) := by
  cases hl : l with
  | nil =>
    unfold fmtC10
    cases Format.formatCore tb cm o ([].map toF) with
    | ok l' => simp [List.zipWith]; exact .nil
    | error e => exact .nil
  | cons t r =>
    rw [← hl]
    have hne : l.map toF ≠ [] := by rw [hl]; simp
    have hs := h.signs
    obtain ⟨as, has, pas⟩ := baAll_safe tb (Format.optList o.a) (fun x hx => hs x (by simp [hx]))
    obtain ⟨bs, hbs, pbs⟩ := baAll_safe tb (Format.optList o.b) (fun x hx => hs x (by simp [hx]))
    obtain ⟨es, hes, pes⟩ := baAll_safe tb (Format.ensOf o) (fun x hx => hs x (by simp [hx]))
    have hcp : Format.capPoss cm o (l.map toF) = l.map toF := by
      simp [Format.capPoss, h.noPoss, h.noCap]
    have hfc := Format.formatCore_eq tb cm o (l.map toF) hne as bs es has hbs hes
    rw [hcp] at hfc
    unfold fmtC10
    rw [hfc]
    simp only []
    rw [zip_wrapAll]
    apply all2_wrapE
    · exact skipAll_append .fr _ _ (skipAll_append .fr _ _ (skipAll_revB es pes) (skipAll_revB bs pbs))
        (skipAll_tagsB _ h.tags)
    · exact sufOK_append _ _ (sufOK_append _ _ (sufOK_tagsA _ h.tags) (sufOK_fwdB as pas)) (sufOK_fwdA es pes)

/-- the hypothesis `FormatOK` of `tree_settled_partial`, for the real formatting model: each node `id` carries
    options `opts id` -/
theorem formatOK_c10 (tb : Format.Tables) (cm : Format.CaseMap) (opts : Nat → Format.Opts)
    (h : ∀ id, SafeOpts tb (opts id)) : FormatOK (fun id l => fmtC10 tb cm (opts id) l) :=
  fun id l => fmtC10_sameView tb cm (opts id) (h id) l

/-! ## what remains excluded: `cap`, `poss`, the signs `-` and `'`

`cap` (and the sentence capital of `detokenize`) changes the case of the first letter of the first word, so
`SameView` (same `m[2]`) fails by definition.  `Settled` is nevertheless preserved for the pairs in which the
capitalised token stands FIRST: every clause reads `w1` through `lower`, except the contraction table, where a
capital can only remove a key (`clauses_case_first`).  It is NOT preserved where the capitalised token stands
SECOND, because `contractionFrTable` and the euphony exceptions `et/ou/où/aujourd'hui` are compared with the word
as written (`settled_not_case_invariant`): that is the known finding `fr:F3p:capitalised` / the side condition T5. -/

theorem clauses_case_first (w1 w1' w2 : Str) (sg V isD fr2 : Bool) (hl : lower w1' = lower w1)
    (hc : contrFr w1' w2 = none ∨ contrFr w1' w2 = contrFr w1 w2)
    (h : clausesFr w1 sg w2 V isD fr2 = true) : clausesFr w1' sg w2 V isD fr2 = true := by
  have e1 : isElidableWord w1' = isElidableWord w1 := by simp [isElidableWord, hl]
  have e2 : isElidedForm w1' = isElidedForm w1 := by simp [isElidedForm, hl]
  have e3 : isEuphonic w1' = isEuphonic w1 := by simp [isEuphonic, hl]
  have e4 : isPrevocalicOnly w1' = isPrevocalicOnly w1 := by simp [isPrevocalicOnly, hl]
  simp only [clausesFr, e1, e2, e3, e4, hl, Bool.and_eq_true] at h ⊢
  refine ⟨⟨⟨⟨⟨h.1.1.1.1.1, h.1.1.1.1.2⟩, ?_⟩, h.1.1.2⟩, h.1.2⟩, h.2⟩
  cases hc with
  | inl hc => simp [hc]
  | inr hc => rw [hc]; exact h.1.1.1.2

/-- a capital on the SECOND word can unsettle a pair: `beau et` is left alone (exception), `beau Et` is not -/
theorem settled_not_case_invariant :
    settled .fr [⟨some "beau".toList, ['A'], false, true, .mute, .mute, true⟩,
                 ⟨some "et".toList, ['C'], false, true, .mute, .mute, true⟩] = true ∧
    settled .fr [⟨some "beau".toList, ['A'], false, true, .mute, .mute, true⟩,
                 ⟨some "Et".toList, ['C'], false, true, .mute, .mute, true⟩] = false := by decide

end Pyrealb.Elision
