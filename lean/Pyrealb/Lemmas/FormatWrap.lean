import Pyrealb.Lemmas.FormatSpace
/-! `doFormat` in closed form (for C10): all the wrapping steps amount to one prefix on the first token and one suffix
    on the last token, made of the option strings in a fixed order. -/
namespace Pyrealb.Format

/-- prefix `B` on the first token, suffix `A` on the last one -/
def wrapAll (B A : Str) : List Tok → List Tok
  | [] => []
  | [t] => [{ t with real := B ++ t.real ++ A }]
  | t :: u :: r => { t with real := B ++ t.real } :: modLast (· ++ A) (u :: r)

theorem modLast_ne_nil (f : Str → Str) (l : List Tok) (h : l ≠ []) : modLast f l ≠ [] := by
  cases l with
  | nil => exact absurd rfl h
  | cons t r => cases r <;> simp [modLast]

theorem modLast_modLast (f g : Str → Str) (l : List Tok) : modLast g (modLast f l) = modLast (g ∘ f) l := by
  induction l with
  | nil => rfl
  | cons t r ih =>
    cases r with
    | nil => simp [modLast]
    | cons u r =>
      simp only [modLast]
      cases hm : modLast f (u :: r) with
      | nil => exact absurd hm (modLast_ne_nil f _ (by simp))
      | cons v w =>
        simp only [modLast]
        rw [← hm, ih]

theorem wrapWith_ok (b a : Str) (l : List Tok) (h : l ≠ []) : wrapWith b a l = .ok (wrapAll b a l) := by
  cases l with
  | nil => exact absurd rfl h
  | cons t r =>
    cases r with
    | nil => simp [wrapWith, wrapAll, modFirst, modLast]
    | cons u r => simp [wrapWith, wrapAll, modFirst, modLast]

theorem wrapAll_ne_nil (b a : Str) (l : List Tok) (h : l ≠ []) : wrapAll b a l ≠ [] := by
  cases l with
  | nil => exact absurd rfl h
  | cons t r => cases r <;> simp [wrapAll]

theorem wrapAll_wrapAll (b1 a1 b2 a2 : Str) (l : List Tok) :
    wrapAll b2 a2 (wrapAll b1 a1 l) = wrapAll (b2 ++ b1) (a1 ++ a2) l := by
  cases l with
  | nil => rfl
  | cons t r =>
    cases r with
    | nil => simp [wrapAll]
    | cons u r =>
      simp only [wrapAll]
      cases hm : modLast (fun x => x ++ a1) (u :: r) with
      | nil => exact absurd hm (modLast_ne_nil _ _ (by simp))
      | cons v w =>
        simp only [wrapAll, List.append_assoc]
        rw [← hm, modLast_modLast]
        congr 2
        funext x
        simp

theorem wrapAll_nil_nil (l : List Tok) : wrapAll [] [] l = l := by
  cases l with
  | nil => rfl
  | cons t r =>
    cases r with
    | nil => simp [wrapAll]
    | cons u r =>
      simp only [wrapAll, List.nil_append]
      congr 1
      have : ∀ l : List Tok, modLast (fun x => x ++ []) l = l := by
        intro l
        induction l with
        | nil => rfl
        | cons t r ih => cases r with
          | nil => simp [modLast]
          | cons u r => simp only [modLast]; rw [ih]
      exact this _

/-- the strings `getBeforeAfterString` returns for a list of signs -/
def baAll (tb : Tables) : List Str → Except Crash (List (Str × Str))
  | [] => .ok []
  | x :: r => do
    let p ← getBA tb x
    let q ← baAll tb r
    pure (p :: q)

def tagsB : List (Str × List (Str × Str)) → Str
  | [] => []
  | (n, attrs) :: r => tagsB r ++ startTag n attrs
def tagsA : List (Str × List (Str × Str)) → Str
  | [] => []
  | (n, _) :: r => endTag n ++ tagsA r
/-- prefixes accumulate outwards: the last option is outermost -/
def revB : List (Str × Str) → Str
  | [] => []
  | p :: r => revB r ++ p.1
def fwdB : List (Str × Str) → Str
  | [] => []
  | p :: r => p.1 ++ fwdB r
def fwdA : List (Str × Str) → Str
  | [] => []
  | p :: r => p.2 ++ fwdA r

theorem applyTags_eq (tags : List (Str × List (Str × Str))) (l : List Tok) (h : l ≠ []) :
    applyTags tags l = .ok (wrapAll (tagsB tags) (tagsA tags) l) := by
  induction tags generalizing l with
  | nil => simp [applyTags, tagsB, tagsA, wrapAll_nil_nil]
  | cons x r ih =>
    obtain ⟨n, attrs⟩ := x
    simp only [applyTags, wrapWith_ok _ _ l h, ex_bind_ok]
    rw [ih _ (wrapAll_ne_nil _ _ l h), wrapAll_wrapAll]
    simp [tagsB, tagsA]

theorem applyA_eq (tb : Tables) (signs : List Str) (bas : List (Str × Str)) (hb : baAll tb signs = .ok bas)
    (l : List Tok) (h : l ≠ []) : applyA tb signs l = .ok (wrapAll [] (fwdB bas) l) := by
  induction signs generalizing l bas with
  | nil => simp [baAll] at hb; subst hb; simp [applyA, fwdB, wrapAll_nil_nil]
  | cons x r ih =>
    simp only [baAll] at hb
    cases hx : getBA tb x with
    | error e => rw [hx] at hb; cases hb
    | ok p =>
      rw [hx] at hb
      cases hq : baAll tb r with
      | error e => rw [hq] at hb; cases hb
      | ok q =>
        rw [hq] at hb
        simp at hb; subst hb
        simp only [applyA, hx, ex_bind_ok, wrapWith_ok _ _ l h]
        rw [ih q hq _ (wrapAll_ne_nil _ _ l h), wrapAll_wrapAll]
        simp [fwdB]

theorem applyB_eq (tb : Tables) (signs : List Str) (bas : List (Str × Str)) (hb : baAll tb signs = .ok bas)
    (l : List Tok) (h : l ≠ []) : applyB tb signs l = .ok (wrapAll (revB bas) [] l) := by
  induction signs generalizing l bas with
  | nil => simp [baAll] at hb; subst hb; simp [applyB, revB, wrapAll_nil_nil]
  | cons x r ih =>
    simp only [baAll] at hb
    cases hx : getBA tb x with
    | error e => rw [hx] at hb; cases hb
    | ok p =>
      rw [hx] at hb
      cases hq : baAll tb r with
      | error e => rw [hq] at hb; cases hb
      | ok q =>
        rw [hq] at hb
        simp at hb; subst hb
        simp only [applyB, hx, ex_bind_ok, wrapWith_ok _ _ l h]
        rw [ih q hq _ (wrapAll_ne_nil _ _ l h), wrapAll_wrapAll]
        simp [revB]

theorem applyEn_eq (tb : Tables) (signs : List Str) (bas : List (Str × Str)) (hb : baAll tb signs = .ok bas)
    (l : List Tok) (h : l ≠ []) : applyEn tb signs l = .ok (wrapAll (revB bas) (fwdA bas) l) := by
  induction signs generalizing l bas with
  | nil => simp [baAll] at hb; subst hb; simp [applyEn, revB, fwdA, wrapAll_nil_nil]
  | cons x r ih =>
    simp only [baAll] at hb
    cases hx : getBA tb x with
    | error e => rw [hx] at hb; cases hb
    | ok p =>
      rw [hx] at hb
      cases hq : baAll tb r with
      | error e => rw [hq] at hb; cases hb
      | ok q =>
        rw [hq] at hb
        simp at hb; subst hb
        simp only [applyEn, hx, ex_bind_ok, wrapWith_ok _ _ l h]
        rw [ih q hq _ (wrapAll_ne_nil _ _ l h), wrapAll_wrapAll]
        simp [revB, fwdA]

/-- `poss` then `cap` (lines 331-335) -/
def capPoss (cm : CaseMap) (o : Opts) (l : List Tok) : List Tok :=
  let l := if o.poss then modLast addPoss l else l
  if o.cap = .t then modFirst (capFirst cm) l else l

theorem modFirst_ne_nil (f : Str → Str) (l : List Tok) (h : l ≠ []) : modFirst f l ≠ [] := by
  cases l with
  | nil => exact absurd rfl h
  | cons t r => simp [modFirst]

theorem capPoss_ne_nil (cm : CaseMap) (o : Opts) (l : List Tok) (h : l ≠ []) : capPoss cm o l ≠ [] := by
  unfold capPoss
  simp only
  split <;> split <;> first
    | exact modFirst_ne_nil _ _ (modLast_ne_nil _ _ h)
    | exact modLast_ne_nil _ _ h
    | exact modFirst_ne_nil _ _ h
    | exact h

/-- **closed form of `doFormat`** on a non-empty list -/
theorem formatCore_eq (tb : Tables) (cm : CaseMap) (o : Opts) (l : List Tok) (h : l ≠ [])
    (as bs es : List (Str × Str)) (ha : baAll tb (optList o.a) = .ok as) (hb : baAll tb (optList o.b) = .ok bs)
    (he : baAll tb (ensOf o) = .ok es) :
    formatCore tb cm o l =
      .ok (wrapAll (revB es ++ revB bs ++ tagsB (optList o.tags)) (tagsA (optList o.tags) ++ fwdB as ++ fwdA es)
            (capPoss cm o l)) := by
  have h1 : possStep o l = .ok (if o.poss then modLast addPoss l else l) := by
    unfold possStep
    cases l with
    | nil => exact absurd rfl h
    | cons t r => split <;> rfl
  have hl1 : (if o.poss then modLast addPoss l else l) ≠ [] := by
    split
    · exact modLast_ne_nil _ _ h
    · exact h
  generalize hl1e : (if o.poss then modLast addPoss l else l) = l1 at h1 hl1
  have h2 : capStep cm o l1 = .ok (if o.cap = .t then modFirst (capFirst cm) l1 else l1) := by
    unfold capStep
    cases l1 with
    | nil => exact absurd rfl hl1
    | cons t r => split <;> rfl
  have hcp : capPoss cm o l = (if o.cap = .t then modFirst (capFirst cm) l1 else l1) := by
    simp [capPoss, hl1e]
  have hl2 : capPoss cm o l ≠ [] := capPoss_ne_nil cm o l h
  unfold formatCore
  rw [h1, ex_bind_ok, h2, ex_bind_ok, ← hcp]
  rw [applyTags_eq _ _ hl2, ex_bind_ok]
  rw [applyA_eq tb _ as ha _ (wrapAll_ne_nil _ _ _ hl2), ex_bind_ok, wrapAll_wrapAll]
  rw [applyB_eq tb _ bs hb _ (wrapAll_ne_nil _ _ _ hl2), ex_bind_ok, wrapAll_wrapAll]
  rw [applyEn_eq tb _ es he _ (wrapAll_ne_nil _ _ _ hl2), wrapAll_wrapAll]
  simp [List.append_assoc]

theorem doFormat_nil (tb : Tables) (cm : CaseMap) (o : Opts) (pre : List Tok → List Tok) :
    doFormat tb cm o pre [] = .ok [] := rfl

theorem doFormat_ne (tb : Tables) (cm : CaseMap) (o : Opts) (pre : List Tok → List Tok) (l : List Tok)
    (h : removeEmpty l ≠ []) : doFormat tb cm o pre l = formatCore tb cm o (pre (removeEmpty l)) := by
  unfold doFormat
  split
  · rename_i e; exact absurd e h
  · rfl

end Pyrealb.Format
