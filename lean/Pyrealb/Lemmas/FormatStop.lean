import Pyrealb.Lemmas.FormatSpace
/-! The two regexes of the top-level step of `detokenize` against declarative descriptions (for C10):
    `(.)( |(<[^>]+>))*$` finds the last visible character; group 1 of `sepWordRE` skips leading non-word material
    and complete tags. -/
namespace Pyrealb.Format

/-- inside `<…>`? -/
def angStep (st : Bool) (c : Char) : Bool := if c = '<' then true else if c = '>' then false else st
def inAngle (st : Bool) (x : Str) : Bool := x.foldl angStep st

/-- trailing material after the last visible character: spaces and complete tags -/
inductive Trail : Str → Prop where
  | nil : Trail []
  | space {x : Str} : Trail x → Trail (' ' :: x)
  | tag {body x : Str} : body ≠ [] → '>' ∉ body → Trail x → Trail ('<' :: body ++ '>' :: x)

theorem fold_inside {body : Str} (h : '>' ∉ body) : body.foldl trailStep .inside = .inside := by
  induction body with
  | nil => rfl
  | cons d r ih =>
    have hd : d ≠ '>' := fun e => h (by simp [e])
    have hr : '>' ∉ r := fun e => h (List.mem_cons_of_mem _ e)
    simp [List.foldl_cons, trailStep, hd, ih hr]

theorem trail_fold {x : Str} (h : Trail x) : x.foldl trailStep .out = .out := by
  induction h with
  | nil => rfl
  | space _ ih => simpa [List.foldl_cons, trailStep] using ih
  | @tag body x hb hn _ ih =>
    cases body with
    | nil => exact absurd rfl hb
    | cons d r =>
      have hd : d ≠ '>' := fun e => hn (by simp [e])
      have hr : '>' ∉ r := fun e => hn (List.mem_cons_of_mem _ e)
      simp only [List.foldl_cons, List.cons_append, List.foldl_append, trailStep]
      simp [hd, fold_inside hr, ih]

theorem trailOK_of_trail {x : Str} (h : Trail x) : trailOK x = true := by
  simp [trailOK, trail_fold h]

theorem fold_dead (x : Str) : x.foldl trailStep .dead = .dead := by
  induction x with
  | nil => rfl
  | cons d r ih => simpa [List.foldl_cons, trailStep] using ih

def ang : TrailSt → Bool
  | .out => false
  | .opened => true
  | .inside => true
  | .dead => false

theorem fold_ang (u : Str) (st : TrailSt) (h : u.foldl trailStep st ≠ .dead) :
    inAngle (ang st) u = ang (u.foldl trailStep st) := by
  induction u generalizing st with
  | nil => rfl
  | cons d r ih =>
    simp only [List.foldl_cons] at h ⊢
    have hs : trailStep st d ≠ .dead := by
      intro e; rw [e, fold_dead] at h; exact h rfl
    rw [← ih _ h]
    simp only [inAngle, List.foldl_cons]
    congr 1
    cases st <;> simp only [trailStep, ang, angStep] at hs ⊢
    · by_cases h1 : d = ' '
      · subst h1; simp
      · by_cases h2 : d = '<'
        · subst h2; simp
        · simp [h1, h2] at hs
    · by_cases h1 : d = '>'
      · simp [h1] at hs
      · by_cases h2 : d = '<' <;> simp [h1, h2]
    · by_cases h1 : d = '>'
      · subst h1; simp
      · by_cases h2 : d = '<' <;> simp [h1, h2]
    · exact absurd rfl hs

/-- if everything after position `|u|` parses as trailing material, the character there is a space, opens a tag, or
    lies inside an angle bracket opened in `u` -/
theorem trailOK_split (u : Str) (c : Char) (v : Str) (h : trailOK (u ++ c :: v) = true) :
    inAngle false u = true ∨ c = ' ' ∨ c = '<' := by
  simp only [trailOK, List.foldl_append, List.foldl_cons, beq_iff_eq] at h
  have h1 : trailStep (u.foldl trailStep .out) c ≠ .dead := by
    intro e; rw [e, fold_dead] at h; cases h
  have h0 : u.foldl trailStep .out ≠ .dead := by
    intro e; rw [e] at h1; exact h1 rfl
  have := fold_ang u .out h0
  simp only [ang] at this
  cases hs : u.foldl trailStep .out with
  | out =>
    rw [hs] at h1
    simp only [trailStep] at h1
    by_cases c1 : c = ' '
    · exact Or.inr (Or.inl c1)
    · by_cases c2 : c = '<'
      · exact Or.inr (Or.inr c2)
      · simp [c1, c2] at h1
  | opened => left; rw [this, hs]
  | inside => left; rw [this, hs]
  | dead => exact absurd hs h0

theorem inAngle_mono (u : Str) (h : inAngle false u = true) : inAngle true u = true := by
  induction u with
  | nil => rfl
  | cons d r ih =>
    simp only [inAngle, List.foldl_cons, angStep] at h ⊢
    by_cases h1 : d = '<'
    · simpa [h1] using h
    · by_cases h2 : d = '>'
      · simpa [h1, h2] using h
      · simp only [h1, h2, if_false] at h ⊢
        exact ih h

/-- **the regex finds the last visible character**: `core` does not end inside an angle bracket, `c` is neither a
    space nor `<`, and what follows is spaces and complete tags -/
theorem lastVis_eq (core : Str) (c : Char) (trail : Str) (hcore : inAngle false core = false)
    (hc1 : c ≠ ' ') (hc2 : c ≠ '<') (ht : Trail trail) : lastVis (core ++ c :: trail) = some c := by
  induction core with
  | nil => simp [lastVis, trailOK_of_trail ht]
  | cons d r ih =>
    have hr : inAngle false r = false := by
      cases hh : inAngle false r with
      | false => rfl
      | true =>
        have h2 := inAngle_mono r hh
        simp only [inAngle, List.foldl_cons, angStep] at hcore
        by_cases h1 : d = '<'
        · simp only [h1, if_true] at hcore; simp only [inAngle] at h2; rw [h2] at hcore; cases hcore
        · by_cases h3 : d = '>'
          · subst h3; simp only [inAngle] at hh; simp [hh] at hcore
          · simp only [h1, h3, if_false] at hcore; simp only [inAngle] at hh; rw [hh] at hcore; cases hcore
    simp only [List.cons_append, lastVis]
    have : trailOK (r ++ c :: trail) = false := by
      cases hh : trailOK (r ++ c :: trail) with
      | false => rfl
      | true =>
        rcases trailOK_split r c trail hh with h | h | h
        · rw [hr] at h; cases h
        · exact absurd h hc1
        · exact absurd h hc2
    simp [this, ih hr]

/-! ### group 1 of `sepWordRE` -/

/-- leading material the capitalization skips: characters matched by `[^<\w'-]` and complete tags -/
inductive Lead (cm : CaseMap) : Str → Prop where
  | nil : Lead cm []
  | skip {c : Char} {x : Str} : isSkip cm c = true → Lead cm x → Lead cm (c :: x)
  | tag {body x : Str} : body ≠ [] → '>' ∉ body → Lead cm x → Lead cm ('<' :: body ++ '>' :: x)

theorem g1Len_inTag (cm : CaseMap) (body y : Str) (h : '>' ∉ body) :
    g1Len cm true (body ++ '>' :: y) = body.length + 1 + g1Len cm false y := by
  induction body with
  | nil => simp [g1Len]
  | cons d r ih =>
    have hd : d ≠ '>' := fun e => h (by simp [e])
    have hr : '>' ∉ r := fun e => h (List.mem_cons_of_mem _ e)
    simp only [List.cons_append, g1Len, hd, if_false, ih hr, List.length_cons]
    omega

theorem g1Len_lead (cm : CaseMap) (pre rest : Str) (h : Lead cm pre) :
    g1Len cm false (pre ++ rest) = pre.length + g1Len cm false rest := by
  induction h with
  | nil => simp
  | @skip c x hc _ ih =>
    simp only [List.cons_append, g1Len, hc, if_true, ih, List.length_cons]; omega
  | @tag body x hb hn _ ih =>
    cases body with
    | nil => exact absurd rfl hb
    | cons d r =>
      have hd : d ≠ '>' := fun e => hn (by simp [e])
      have hsk : isSkip cm '<' = false := by simp [isSkip]
      have hcl : closesTag ((d :: r) ++ '>' :: x ++ rest) = true := by
        simp [closesTag, hd]
      have e : ('<' :: (d :: r) ++ '>' :: x) ++ rest = '<' :: ((d :: r) ++ '>' :: (x ++ rest)) := by simp
      have hcl' : closesTag ((d :: r) ++ '>' :: (x ++ rest)) = true := by simpa using hcl
      rw [e, g1Len]
      simp only [hsk, Bool.false_eq_true, if_false, hcl', and_self, if_true]
      rw [g1Len_inTag cm (d :: r) (x ++ rest) hn, ih]
      simp only [List.length_cons, List.length_append]
      omega

theorem g1Len_word (cm : CaseMap) (c : Char) (r : Str) (h1 : isWordish cm c = true) (h2 : c ≠ '<') :
    g1Len cm false (c :: r) = 0 := by
  have : isSkip cm c = false := by
    simp only [isWordish, Bool.or_eq_true, beq_iff_eq] at h1
    simp only [isSkip, Bool.and_eq_false_iff, bne_eq_false_iff_eq, Bool.not_eq_false']
    rcases h1 with (h | h) | h
    · left; left; right; exact h
    · left; right; exact h
    · right; exact h
  simp [g1Len, this, h2]

/-- the index found by `sepWordRE` is the position of the first word character -/
theorem sepWord_idx (cm : CaseMap) (pre : Str) (c : Char) (rest : Str) (h : Lead cm pre)
    (h1 : isWordish cm c = true) (h2 : c ≠ '<') : (sepWord cm (pre ++ c :: rest)).1 = pre.length := by
  simp [sepWord, g1Len_lead cm pre (c :: rest) h, g1Len_word cm c rest h1 h2]

theorem upperAt_append (cm : CaseMap) (pre : Str) (c : Char) (rest : Str) :
    upperAt cm (pre ++ c :: rest) pre.length = pre ++ cm.upper c :: rest := by
  simp [upperAt]

end Pyrealb.Format
