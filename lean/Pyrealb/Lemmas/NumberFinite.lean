import Pyrealb.Model.Number
import Pyrealb.Model.NumberEval
/-! Finite facts about the GENERATED word tables of `Number.py`, each re-proved by kernel evaluation
(`decide +kernel`) against what the repository says now. -/
namespace Pyrealb.Number.Finite
open Pyrealb Pyrealb.Number Pyrealb.NumberSpec Pyrealb.Gen.NumberWords

/-- the spelling of the triplet `t` exists, has at least one word, and its words evaluate, from the empty state,
    to `t` in the numeral system `V` -/
def tripletOK (V : Vocab) (ℓ : Lang) (t : Nat) : Bool :=
  match centaines ℓ t with
  | .ok w => evalFrom V (0, 0) (words w) == some (t, 0) && !(words w).isEmpty
  | .error _ => false

set_option maxRecDepth 100000 in
theorem triplet_eval_tbl_en : ∀ t : Fin 1000, tripletOK (vocab .en) .en t.val = true := by decide +kernel

set_option maxRecDepth 100000 in
theorem triplet_eval_tbl_fr : ∀ t : Fin 1000, tripletOK (vocab .fr) .fr t.val = true := by decide +kernel

end Pyrealb.Number.Finite
