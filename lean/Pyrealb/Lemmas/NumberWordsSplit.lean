import Pyrealb.Model.Number
/-! `words` (Python `str.split()`) against concatenation and `strip`. -/
namespace Pyrealb.Number
open Pyrealb

theorem splitKeep_ne_nil (p : Char → Bool) (x : Str) : splitKeep p x ≠ [] := by
  cases x with
  | nil => simp [splitKeep]
  | cons a r =>
    simp only [splitKeep]
    split
    · simp
    · split <;> simp

theorem splitKeep_append_sep (p : Char → Bool) (a b : Str) (c : Char) (hc : p c = true) :
    splitKeep p (a ++ c :: b) = splitKeep p a ++ splitKeep p b := by
  induction a with
  | nil => simp [splitKeep, hc]
  | cons x a ih =>
    simp only [List.cons_append, splitKeep]
    by_cases hx : p x = true
    · simp [hx, ih]
    · simp only [hx, ih]
      cases h : splitKeep p a with
      | nil => exact absurd h (splitKeep_ne_nil p a)
      | cons w ws => simp

theorem words_append_sep (a b : Str) (c : Char) (hc : isPySpace c = true) :
    words (a ++ c :: b) = words a ++ words b := by
  simp [words, splitKeep_append_sep isPySpace a b c hc]

theorem words_cons_space (c : Char) (x : Str) (hc : isPySpace c = true) : words (c :: x) = words x := by
  simp [words, splitKeep, hc]

theorem words_spaces (sp : Str) (h : ∀ c ∈ sp, isPySpace c = true) : words sp = [] := by
  induction sp with
  | nil => simp [words, splitKeep]
  | cons c sp ih =>
    rw [words_cons_space c sp (h c (by simp))]
    exact ih (fun d hd => h d (by simp [hd]))

theorem words_spaces_append (sp x : Str) (h : ∀ c ∈ sp, isPySpace c = true) : words (sp ++ x) = words x := by
  induction sp with
  | nil => simp
  | cons c sp ih =>
    rw [List.cons_append, words_cons_space c _ (h c (by simp))]
    exact ih (fun d hd => h d (by simp [hd]))

theorem words_append_spaces (x sp : Str) (h : ∀ c ∈ sp, isPySpace c = true) : words (x ++ sp) = words x := by
  cases sp with
  | nil => simp
  | cons c sp =>
    rw [words_append_sep x sp c (h c (by simp)), words_spaces sp (fun d hd => h d (by simp [hd]))]
    simp

theorem lstrip_spec (x : Str) : ∃ sp, (∀ c ∈ sp, isPySpace c = true) ∧ x = sp ++ lstrip x := by
  induction x with
  | nil => exact ⟨[], by simp, by simp [lstrip]⟩
  | cons c x ih =>
    by_cases hc : isPySpace c = true
    · obtain ⟨sp, hsp, hx⟩ := ih
      refine ⟨c :: sp, ?_, ?_⟩
      · intro d hd
        rcases List.mem_cons.mp hd with rfl | hd
        · exact hc
        · exact hsp d hd
      · simp only [lstrip, hc, if_true, List.cons_append]
        rw [← hx]
    · exact ⟨[], by simp, by simp [lstrip, hc]⟩

/-- `split()` does not see what `strip()` removes -/
theorem words_strip (x : Str) : words (strip x) = words x := by
  obtain ⟨sp1, h1, e1⟩ := lstrip_spec x
  obtain ⟨sp2, h2, e2⟩ := lstrip_spec (lstrip x).reverse
  have e3 : lstrip x = strip x ++ sp2.reverse := by
    have := congrArg List.reverse e2
    simpa [strip] using this
  have h2' : ∀ c ∈ sp2.reverse, isPySpace c = true := fun c hc => h2 c (by simpa using hc)
  conv => rhs; rw [e1, e3]
  rw [words_spaces_append _ _ h1, words_append_spaces _ _ h2']

end Pyrealb.Number
