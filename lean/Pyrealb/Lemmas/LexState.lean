import Pyrealb.Model.LexState
/-! Abstract view of the lexicon state (two independent maps `Lang → Lemma → Option (Cat → Option Val)`),
the invariants, and the step lemmas used by `Props/C19`. Core Lean only. -/
namespace Pyrealb.LexState

/-! ### dict lemmas -/
section Dict
variable {κ : Type} [DecidableEq κ] {α : Type}

theorem dget_dset_same (k : κ) (v : α) (d : List (κ × α)) : dget k (dset k v d) = some v := by
  induction d with
  | nil => simp [dset, dget]
  | cons kv r ih =>
    obtain ⟨k', v'⟩ := kv
    by_cases h : k' = k
    · simp [dset, dget, h]
    · simp [dset, dget, h, ih]

theorem dget_dset_other (k k' : κ) (v : α) (d : List (κ × α)) (h : k' ≠ k) :
    dget k' (dset k v d) = dget k' d := by
  induction d with
  | nil => simp [dset, dget, Ne.symm h]
  | cons kv r ih =>
    obtain ⟨k'', v''⟩ := kv
    by_cases h1 : k'' = k
    · subst h1
      simp [dset, dget, Ne.symm h]
    · by_cases h2 : k'' = k'
      · subst h2
        simp [dset, dget, h1]
      · simp [dset, dget, h1, h2, ih]

theorem dget_ddel_same (k : κ) (d : List (κ × α)) : dget k (ddel k d) = none := by
  induction d with
  | nil => simp [ddel, dget]
  | cons kv r ih =>
    obtain ⟨k', v'⟩ := kv
    by_cases h : k' = k
    · simpa [ddel, List.filter_cons, h] using ih
    · simpa [ddel, List.filter_cons, h, dget] using ih

theorem dget_ddel_other (k k' : κ) (d : List (κ × α)) (h : k' ≠ k) : dget k' (ddel k d) = dget k' d := by
  induction d with
  | nil => simp [ddel, dget]
  | cons kv r ih =>
    obtain ⟨k'', v''⟩ := kv
    by_cases h1 : k'' = k
    · subst h1
      simpa [ddel, List.filter_cons, dget, Ne.symm h] using ih
    · by_cases h2 : k'' = k'
      · subst h2
        simp [ddel, h1, dget]
      · simpa [ddel, List.filter_cons, h1, dget, h2] using ih

theorem dget_ddel_some (k k' : κ) (d : List (κ × α)) (x : α) (h : dget k' (ddel k d) = some x) :
    dget k' d = some x := by
  by_cases hk : k' = k
  · subst hk; rw [dget_ddel_same] at h; cases h
  · rwa [dget_ddel_other k k' d hk] at h

theorem dget_none_of_not_mem (k : κ) (d : List (κ × α)) (h : k ∉ dkeys d) : dget k d = none := by
  induction d with
  | nil => rfl
  | cons kv r ih =>
    obtain ⟨k', v'⟩ := kv
    simp only [dkeys, List.map_cons, List.mem_cons, not_or] at h
    have h1 : k' ≠ k := fun e => h.1 e.symm
    simp only [dget, h1, if_false]
    exact ih h.2
end Dict

/-! ### the abstract view -/

abbrev EntryMap := Cat → Option Val
/-- an entry dict read as a finite map -/
def entryView (e : Entry) : EntryMap := fun c => dget c e
/-- one category replaced (or added) -/
def mset (m : EntryMap) (k : Cat) (v : Val) : EntryMap := fun c => if c = k then some v else m c
/-- "merge per category": every (category, value) item of the new information replaces that category -/
def mergeMap (old : EntryMap) (new : Entry) : EntryMap := new.foldl (fun m kv => mset m kv.1 kv.2) old

/-- what is stored for a lemma: which object and its content -/
def entryAt (st : State) (l : Lang) (lemma : Lemma) : Option (Ref × Entry) :=
  (dget lemma (st.lexOf l)).map (fun r => (r, content st.heap r))

abbrev Abs := Lang → Lemma → Option EntryMap
/-- the two lexicons as two independent finite maps -/
def view (st : State) : Abs := fun l lemma => (entryAt st l lemma).map (fun p => entryView p.2)
def aset (A : Abs) (l : Lang) (lemma : Lemma) (x : Option EntryMap) : Abs :=
  fun l' lemma' => if l' = l ∧ lemma' = lemma then x else A l' lemma'
/-- `add`: a new lemma stores the information, an existing one merges it per category -/
def storeOrMerge : Option EntryMap → Entry → EntryMap
  | none, e => entryView e
  | some old, e => mergeMap old e

theorem entryView_dset (k : Cat) (v : Val) (d : Entry) : entryView (dset k v d) = mset (entryView d) k v := by
  funext c
  by_cases h : c = k
  · subst h; simp [entryView, mset, dget_dset_same]
  · simp [entryView, mset, h, dget_dset_other k c v d h]

theorem entryView_dupdate (d new : Entry) : entryView (dupdate d new) = mergeMap (entryView d) new := by
  induction new generalizing d with
  | nil => rfl
  | cons kv r ih =>
    simp only [dupdate, mergeMap, List.foldl_cons]
    have := ih (dset kv.1 kv.2 d)
    simp only [dupdate, mergeMap] at this
    rw [this, entryView_dset]

theorem mergeMap_not_mem (old : EntryMap) (new : Entry) (c : Cat) (h : c ∉ dkeys new) :
    mergeMap old new c = old c := by
  induction new generalizing old with
  | nil => rfl
  | cons kv r ih =>
    simp only [dkeys, List.map_cons, List.mem_cons, not_or] at h
    simp only [mergeMap, List.foldl_cons]
    have := ih (mset old kv.1 kv.2) h.2
    simp only [mergeMap] at this
    rw [this]
    simp [mset, h.1]

/-- for a dict (no repeated key) merging is: the new value when the new information has the category, else the old -/
theorem mergeMap_nodup (old : EntryMap) (new : Entry) (c : Cat) (hn : (dkeys new).Nodup) :
    mergeMap old new c = (match dget c new with | some v => some v | none => old c) := by
  induction new generalizing old with
  | nil => rfl
  | cons kv r ih =>
    obtain ⟨k, v⟩ := kv
    simp only [dkeys, List.map_cons, List.nodup_cons] at hn
    simp only [mergeMap, List.foldl_cons]
    have := ih (mset old k v) hn.2
    simp only [mergeMap] at this
    rw [this]
    by_cases h : k = c
    · subst h
      have hnone : dget k r = none := dget_none_of_not_mem k r hn.1
      simp [dget, hnone, mset]
    · have h' : c ≠ k := fun e => h e.symm
      simp [dget, h, mset, h']

/-! ### accessors -/

@[simp] theorem lexOf_setLex (st : State) (l l' : Lang) (lx : Lexicon) :
    (st.setLex l lx).lexOf l' = if l' = l then lx else st.lexOf l' := by
  cases l <;> cases l' <;> simp [State.setLex, State.lexOf]
@[simp] theorem lexOf_setHeap (st : State) (h : Heap) (l : Lang) : (st.setHeap h).lexOf l = st.lexOf l := by
  cases l <;> rfl
@[simp] theorem lexOf_setCur (st : State) (c l : Lang) : (st.setCur c).lexOf l = st.lexOf l := by
  cases l <;> rfl
@[simp] theorem lexOf_setFresh (st : State) (r : Ref) (l : Lang) : (st.setFresh r).lexOf l = st.lexOf l := by
  cases l <;> rfl
@[simp] theorem heap_setLex (st : State) (l : Lang) (lx : Lexicon) : (st.setLex l lx).heap = st.heap := by
  cases l <;> rfl
@[simp] theorem heap_setHeap (st : State) (h : Heap) : (st.setHeap h).heap = h := rfl
@[simp] theorem heap_setCur (st : State) (c : Lang) : (st.setCur c).heap = st.heap := rfl
@[simp] theorem heap_setFresh (st : State) (r : Ref) : (st.setFresh r).heap = st.heap := rfl
@[simp] theorem cur_setLex (st : State) (l : Lang) (lx : Lexicon) : (st.setLex l lx).cur = st.cur := by
  cases l <;> rfl
@[simp] theorem cur_setHeap (st : State) (h : Heap) : (st.setHeap h).cur = st.cur := rfl
@[simp] theorem cur_setCur (st : State) (c : Lang) : (st.setCur c).cur = c := rfl
@[simp] theorem cur_setFresh (st : State) (r : Ref) : (st.setFresh r).cur = st.cur := rfl
@[simp] theorem fresh_setLex (st : State) (l : Lang) (lx : Lexicon) : (st.setLex l lx).fresh = st.fresh := by
  cases l <;> rfl
@[simp] theorem fresh_setHeap (st : State) (h : Heap) : (st.setHeap h).fresh = st.fresh := rfl
@[simp] theorem fresh_setCur (st : State) (c : Lang) : (st.setCur c).fresh = st.fresh := rfl
@[simp] theorem fresh_setFresh (st : State) (r : Ref) : (st.setFresh r).fresh = r := rfl
@[simp] theorem rulesOf_setLex (st : State) (l l' : Lang) (lx : Lexicon) :
    (st.setLex l lx).rulesOf l' = st.rulesOf l' := by
  cases l <;> cases l' <;> rfl
@[simp] theorem rulesOf_setHeap (st : State) (h : Heap) (l : Lang) : (st.setHeap h).rulesOf l = st.rulesOf l := by
  cases l <;> rfl
@[simp] theorem rulesOf_setCur (st : State) (c l : Lang) : (st.setCur c).rulesOf l = st.rulesOf l := by
  cases l <;> rfl
@[simp] theorem rulesOf_setFresh (st : State) (r : Ref) (l : Lang) : (st.setFresh r).rulesOf l = st.rulesOf l := by
  cases l <;> rfl

/-! ### invariants (of every reachable state, since fix 3c7823e) -/

/-- no dict object is stored under two (language, lemma) keys -/
def Unshared (st : State) : Prop :=
  ∀ l₁ lemma₁ l₂ lemma₂ r, dget lemma₁ (st.lexOf l₁) = some r → dget lemma₂ (st.lexOf l₂) = some r →
    l₁ = l₂ ∧ lemma₁ = lemma₂
/-- the object the library creates next is not stored anywhere yet -/
def Bounded (st : State) : Prop := ∀ l lemma r, dget lemma (st.lexOf l) = some r → r < st.fresh
def Good (st : State) : Prop := Unshared st ∧ Bounded st

/-! ### `storeArg` (add of a new lemma, each item of `updateLexicon`) -/

theorem dget_storeArg (st : State) (l : Lang) (lemma : Lemma) (a : DictArg) (l' : Lang) (lemma' : Lemma) :
    dget lemma' ((storeArg st l lemma a).lexOf l') =
      if l' = l ∧ lemma' = lemma then some st.fresh else dget lemma' (st.lexOf l') := by
  unfold storeArg
  simp only [lexOf_setFresh, lexOf_setHeap, lexOf_setLex]
  by_cases hl : l' = l
  · subst hl
    by_cases hm : lemma' = lemma
    · subst hm; simp [dget_dset_same]
    · simp [hm, dget_dset_other lemma lemma' st.fresh _ hm]
  · simp [hl]

theorem lookup_storeArg (st : State) (hb : Bounded st) (l : Lang) (lemma : Lemma) (a : DictArg) (l' : Lang) (lemma' : Lemma) :
    entryAt (storeArg st l lemma a) l' lemma' =
      if l' = l ∧ lemma' = lemma then some (st.fresh, argContent st a) else entryAt st l' lemma' := by
  unfold entryAt
  rw [dget_storeArg]
  by_cases hc : l' = l ∧ lemma' = lemma
  · simp [hc, storeArg, content]
  · simp only [hc, if_false]
    cases hd : dget lemma' (st.lexOf l') with
    | none => rfl
    | some r =>
      have hne : r ≠ st.fresh := Nat.ne_of_lt (hb l' lemma' r hd)
      simp [storeArg, content, hne]

theorem bounded_storeArg (st : State) (hb : Bounded st) (l : Lang) (lemma : Lemma) (a : DictArg) :
    Bounded (storeArg st l lemma a) := by
  intro l' lemma' r hd
  rw [dget_storeArg] at hd
  have hf : (storeArg st l lemma a).fresh = st.fresh + 1 := by simp [storeArg]
  rw [hf]
  by_cases hc : l' = l ∧ lemma' = lemma
  · simp only [hc, and_self, if_true] at hd
    cases hd
    exact Nat.lt_succ_self _
  · simp only [hc, if_false] at hd
    exact Nat.lt_succ_of_lt (hb _ _ _ hd)

theorem unshared_storeArg (st : State) (hg : Good st) (l : Lang) (lemma : Lemma) (a : DictArg) :
    Unshared (storeArg st l lemma a) := by
  intro l₁ m₁ l₂ m₂ r h1 h2
  rw [dget_storeArg] at h1 h2
  by_cases c1 : l₁ = l ∧ m₁ = lemma
  · by_cases c2 : l₂ = l ∧ m₂ = lemma
    · exact ⟨c1.1.trans c2.1.symm, c1.2.trans c2.2.symm⟩
    · simp only [c1, and_self, if_true] at h1
      simp only [c2, if_false] at h2
      cases h1
      exact absurd (hg.2 _ _ _ h2) (Nat.lt_irrefl _)
  · by_cases c2 : l₂ = l ∧ m₂ = lemma
    · simp only [c1, if_false] at h1
      simp only [c2, and_self, if_true] at h2
      cases h2
      exact absurd (hg.2 _ _ _ h1) (Nat.lt_irrefl _)
    · simp only [c1, if_false] at h1
      simp only [c2, if_false] at h2
      exact hg.1 _ _ _ _ _ h1 h2

theorem good_storeArg (st : State) (hg : Good st) (l : Lang) (lemma : Lemma) (a : DictArg) :
    Good (storeArg st l lemma a) :=
  ⟨unshared_storeArg st hg l lemma a, bounded_storeArg st hg.2 l lemma a⟩

/-! ### `addCore` -/

/-- what `addToLexicon(lemma, a, l)` leaves under `(l, lemma)` -/
def stored (st : State) (l : Lang) (lemma : Lemma) (a : DictArg) : Ref × Entry :=
  match dget lemma (st.lexOf l) with
  | some r => (r, dupdate (content st.heap r) (argContent st a))
  | none => (st.fresh, argContent st a)

theorem lookup_addCore_same (st : State) (hb : Bounded st) (l : Lang) (lemma : Lemma) (a : DictArg) :
    entryAt (addCore st l lemma a).2 l lemma = some (stored st l lemma a) := by
  unfold addCore stored
  cases hd : dget lemma (st.lexOf l) with
  | none =>
    simp only
    rw [lookup_storeArg st hb]
    simp
  | some r =>
    simp only
    unfold entryAt
    simp [hd, content]

theorem lookup_addCore_other (st : State) (hg : Good st) (l : Lang) (lemma : Lemma) (a : DictArg)
    (l' : Lang) (lemma' : Lemma) (hne : ¬ (l' = l ∧ lemma' = lemma)) :
    entryAt (addCore st l lemma a).2 l' lemma' = entryAt st l' lemma' := by
  unfold addCore
  cases hd : dget lemma (st.lexOf l) with
  | none =>
    simp only
    rw [lookup_storeArg st hg.2]
    simp [hne]
  | some r =>
    simp only
    unfold entryAt
    simp only [lexOf_setHeap, heap_setHeap]
    cases hd' : dget lemma' (st.lexOf l') with
    | none => rfl
    | some r' =>
      have hrr : r' ≠ r := by
        intro e
        subst e
        exact hne (hg.1 _ _ _ _ _ hd' hd)
      simp [content, hrr]

theorem lexOf_addCore_other (st : State) (l : Lang) (lemma : Lemma) (a : DictArg) (l' : Lang) (hl : l' ≠ l) :
    (addCore st l lemma a).2.lexOf l' = st.lexOf l' := by
  unfold addCore
  cases dget lemma (st.lexOf l) with
  | none => simp [storeArg, hl]
  | some r => simp

theorem good_addCore (st : State) (hg : Good st) (l : Lang) (lemma : Lemma) (a : DictArg) :
    Good (addCore st l lemma a).2 := by
  unfold addCore
  cases hd : dget lemma (st.lexOf l) with
  | none => exact good_storeArg st hg l lemma a
  | some r =>
    refine ⟨?_, ?_⟩
    · intro l₁ m₁ l₂ m₂ r' h1 h2
      simp only [lexOf_setHeap] at h1 h2
      exact hg.1 _ _ _ _ _ h1 h2
    · intro l' m' r' h1
      simp only [lexOf_setHeap, fresh_setHeap] at h1 ⊢
      exact hg.2 _ _ _ h1

theorem view_addCore (st : State) (hg : Good st) (l : Lang) (lemma : Lemma) (a : DictArg) :
    view (addCore st l lemma a).2 = aset (view st) l lemma (some (storeOrMerge (view st l lemma) (argContent st a))) := by
  funext l' lemma'
  by_cases hc : l' = l ∧ lemma' = lemma
  · obtain ⟨rfl, rfl⟩ := hc
    simp only [view, aset, and_self, if_true, lookup_addCore_same st hg.2, Option.map_some]
    unfold stored entryAt
    cases hd : dget lemma' (st.lexOf l') with
    | none => simp [storeOrMerge]
    | some r => simp [storeOrMerge, entryView_dupdate]
  · simp only [view, aset, hc, if_false, lookup_addCore_other st hg l lemma a l' lemma' hc]

/-! ### fold of `storeArg` (`updateLexicon`) -/

def foldStore (st : State) (l : Lang) (nl : List (Lemma × DictArg)) : State :=
  nl.foldl (fun s p => storeArg s l p.1 p.2) st

theorem good_foldStore (st : State) (hg : Good st) (l : Lang) (nl : List (Lemma × DictArg)) :
    Good (foldStore st l nl) := by
  induction nl generalizing st with
  | nil => exact hg
  | cons p r ih => exact ih (storeArg st l p.1 p.2) (good_storeArg st hg l p.1 p.2)

theorem lookup_foldStore_other (st : State) (hg : Good st) (l : Lang) (nl : List (Lemma × DictArg))
    (l' : Lang) (lemma' : Lemma) (hne : ¬ (l' = l ∧ lemma' ∈ nl.map Prod.fst)) :
    entryAt (foldStore st l nl) l' lemma' = entryAt st l' lemma' := by
  induction nl generalizing st with
  | nil => rfl
  | cons p r ih =>
    have h1 : ¬ (l' = l ∧ lemma' ∈ r.map Prod.fst) := fun h => hne ⟨h.1, by simp [h.2]⟩
    have h2 : ¬ (l' = l ∧ lemma' = p.1) := fun h => hne ⟨h.1, by simp [h.2]⟩
    have := ih (storeArg st l p.1 p.2) (good_storeArg st hg l p.1 p.2) h1
    simp only [foldStore, List.foldl_cons] at this ⊢
    rw [this, lookup_storeArg st hg.2]
    simp [h2]

theorem lexOf_foldStore_other (st : State) (l : Lang) (nl : List (Lemma × DictArg)) (l' : Lang) (hl : l' ≠ l) :
    (foldStore st l nl).lexOf l' = st.lexOf l' := by
  induction nl generalizing st with
  | nil => rfl
  | cons p r ih =>
    have := ih (storeArg st l p.1 p.2)
    simp only [foldStore, List.foldl_cons] at this ⊢
    rw [this]
    simp [storeArg, hl]

/-- the contents of the dicts of `newLexicon`, read when each is copied -/
def absItems (st : State) (l : Lang) : List (Lemma × DictArg) → List (Lemma × Entry)
  | [] => []
  | (lemma, a) :: rest => (lemma, argContent st a) :: absItems (storeArg st l lemma a) l rest

/-- `update`: every lemma of the new lexicon gets the given entry (replacing an existing one) -/
def specUpdate (A : Abs) (l : Lang) (items : List (Lemma × Entry)) : Abs :=
  items.foldl (fun A p => aset A l p.1 (some (entryView p.2))) A

theorem view_storeArg (st : State) (hb : Bounded st) (l : Lang) (lemma : Lemma) (a : DictArg) :
    view (storeArg st l lemma a) = aset (view st) l lemma (some (entryView (argContent st a))) := by
  funext l' lemma'
  simp only [view, aset, lookup_storeArg st hb]
  by_cases hc : l' = l ∧ lemma' = lemma
  · simp [hc]
  · simp [hc]

theorem view_foldStore (st : State) (hg : Good st) (l : Lang) (nl : List (Lemma × DictArg)) :
    view (foldStore st l nl) = specUpdate (view st) l (absItems st l nl) := by
  induction nl generalizing st with
  | nil => rfl
  | cons p r ih =>
    obtain ⟨lemma, a⟩ := p
    have := ih (storeArg st l lemma a) (good_storeArg st hg l lemma a)
    simp only [foldStore, List.foldl_cons, absItems, specUpdate] at this ⊢
    rw [this, view_storeArg st hg.2]

/-! ### remove -/

def removeAt (st : State) (l : Lang) (lemma : Lemma) : State := st.setLex l (ddel lemma (st.lexOf l))

theorem lookup_removeAt (st : State) (l : Lang) (lemma : Lemma) (l' : Lang) (lemma' : Lemma) :
    entryAt (removeAt st l lemma) l' lemma' = if l' = l ∧ lemma' = lemma then none else entryAt st l' lemma' := by
  unfold entryAt removeAt
  simp only [lexOf_setLex, heap_setLex]
  by_cases hl : l' = l
  · subst hl
    by_cases hm : lemma' = lemma
    · subst hm; simp [dget_ddel_same]
    · simp [hm, dget_ddel_other lemma lemma' _ hm]
  · simp [hl]

theorem dget_removeAt_some (st : State) (l : Lang) (lemma : Lemma) (l' : Lang) (lemma' : Lemma) (r : Ref)
    (hd : dget lemma' ((removeAt st l lemma).lexOf l') = some r) : dget lemma' (st.lexOf l') = some r := by
  unfold removeAt at hd
  simp only [lexOf_setLex] at hd
  by_cases hl : l' = l
  · subst hl
    simp only [if_true] at hd
    exact dget_ddel_some _ _ _ _ hd
  · simpa [hl] using hd

theorem good_removeAt (st : State) (hg : Good st) (l : Lang) (lemma : Lemma) : Good (removeAt st l lemma) := by
  refine ⟨?_, ?_⟩
  · intro l₁ m₁ l₂ m₂ r h1 h2
    exact hg.1 _ _ _ _ _ (dget_removeAt_some _ _ _ _ _ _ h1) (dget_removeAt_some _ _ _ _ _ _ h2)
  · intro l' m' r h1
    have : (removeAt st l lemma).fresh = st.fresh := by simp [removeAt]
    rw [this]
    exact hg.2 _ _ _ (dget_removeAt_some _ _ _ _ _ _ h1)

theorem view_removeAt (st : State) (l : Lang) (lemma : Lemma) :
    view (removeAt st l lemma) = aset (view st) l lemma none := by
  funext l' lemma'
  simp only [view, aset, lookup_removeAt]
  by_cases hc : l' = l ∧ lemma' = lemma
  · simp [hc]
  · simp [hc]

/-! ### `exec` / `next` -/

/-- the state after a language-resolved call -/
def execNext (st : State) (l : Lang) (o : LOp) : State :=
  match exec st l o with
  | .ok (_, s) => s
  | .error _ => st

theorem next_lex_ok (st : State) (o : LOp) (lang : Option LangArg) (l : Lang) (h : resolve st.cur lang = .ok l) :
    next st (.lex o lang) = execNext st l o := by
  simp only [next, step, h]
  rfl

theorem next_lex_err (st : State) (o : LOp) (lang : Option LangArg) (c : Crash) (h : resolve st.cur lang = .error c) :
    next st (.lex o lang) = st := by
  simp [next, step, h]

@[simp] theorem execNext_add (st : State) (l : Lang) (lemma : Lemma) (a : DictArg) :
    execNext st l (.add lemma a) = (addCore st l lemma a).2 := rfl
@[simp] theorem execNext_addSingle_nil (st : State) (l : Lang) : execNext st l (.addSingle []) = st := rfl
@[simp] theorem execNext_addSingle_cons (st : State) (l : Lang) (lemma : Lemma) (a : DictArg) (rest) :
    execNext st l (.addSingle ((lemma, a) :: rest)) = (addCore st l lemma a).2 := rfl
@[simp] theorem execNext_remove (st : State) (l : Lang) (lemma : Lemma) :
    execNext st l (.remove lemma) = removeAt st l lemma := rfl
@[simp] theorem execNext_update (st : State) (l : Lang) (nl) :
    execNext st l (.update nl) = foldStore st l nl := rfl
@[simp] theorem execNext_getLemma (st : State) (l : Lang) (lemma : Lemma) :
    execNext st l (.getLemma lemma) = st := rfl
@[simp] theorem execNext_getLexicon (st : State) (l : Lang) : execNext st l .getLexicon = st := rfl
@[simp] theorem execNext_getRules (st : State) (l : Lang) : execNext st l .getRules = st := rfl

/-- the lemmas a call is about -/
def LOp.lemmas : LOp → List Lemma
  | .add lemma _ => [lemma]
  | .addSingle [] => []
  | .addSingle ((lemma, _) :: _) => [lemma]
  | .remove lemma => [lemma]
  | .update nl => nl.map Prod.fst
  | _ => []

theorem good_execNext (st : State) (hg : Good st) (l : Lang) (o : LOp) : Good (execNext st l o) := by
  cases o with
  | add lemma a => exact good_addCore st hg l lemma a
  | addSingle items =>
    cases items with
    | nil => exact hg
    | cons p r => exact good_addCore st hg l p.1 p.2
  | remove lemma => exact good_removeAt st hg l lemma
  | update nl => exact good_foldStore st hg l nl
  | getLemma lemma => simpa using hg
  | getLexicon => exact hg
  | getRules => exact hg

/-- `load*` / `getLanguage` change nothing but (possibly) the current language -/
theorem next_ctl (st : State) (c : Ctl) :
    (∀ l, (next st (.ctl c)).lexOf l = st.lexOf l) ∧ (next st (.ctl c)).heap = st.heap ∧
    (∀ l, (next st (.ctl c)).rulesOf l = st.rulesOf l) ∧ (next st (.ctl c)).fresh = st.fresh := by
  cases c with
  | loadEn => simp [next, step]
  | loadFr => simp [next, step]
  | load la => cases la <;> simp [next, step]
  | getLanguage => simp [next, step]

theorem lookup_congr (st st' : State) (hl : ∀ l, st'.lexOf l = st.lexOf l) (hh : st'.heap = st.heap) (l : Lang) (lemma : Lemma) :
    entryAt st' l lemma = entryAt st l lemma := by
  simp [entryAt, hl, hh]

/-- since 3c7823e: NO call creates sharing — the invariant of every reachable state -/
theorem good_next (st : State) (hg : Good st) (op : Op) : Good (next st op) := by
  cases op with
  | ctl c =>
    obtain ⟨h1, _, _, h4⟩ := next_ctl st c
    refine ⟨?_, ?_⟩
    · intro l₁ m₁ l₂ m₂ r d1 d2
      rw [h1] at d1 d2
      exact hg.1 _ _ _ _ _ d1 d2
    · intro l m r d
      rw [h1] at d; rw [h4]
      exact hg.2 _ _ _ d
  | lex o lang =>
    cases hr : resolve st.cur lang with
    | error c => rw [next_lex_err st o lang c hr]; exact hg
    | ok l => rw [next_lex_ok st o lang l hr]; exact good_execNext st hg l o

theorem good_run (st : State) (hg : Good st) (ops : List Op) : Good (run st ops) := by
  induction ops generalizing st with
  | nil => exact hg
  | cons op r ih => exact ih (next st op) (good_next st hg op)

/-- a call leaves every entry it is not about exactly as it was (same object, same content) -/
theorem lookup_execNext_other (st : State) (hg : Good st) (l : Lang) (o : LOp) (l' : Lang) (lemma' : Lemma)
    (hne : ¬ (l' = l ∧ lemma' ∈ o.lemmas)) : entryAt (execNext st l o) l' lemma' = entryAt st l' lemma' := by
  cases o with
  | add lemma a =>
    exact lookup_addCore_other st hg l lemma a l' lemma' (by simpa [LOp.lemmas] using hne)
  | addSingle items =>
    cases items with
    | nil => rfl
    | cons p r =>
      obtain ⟨lemma, a⟩ := p
      exact lookup_addCore_other st hg l lemma a l' lemma' (by simpa [LOp.lemmas] using hne)
  | remove lemma =>
    simp only [execNext_remove, lookup_removeAt]
    have : ¬ (l' = l ∧ lemma' = lemma) := by simpa [LOp.lemmas] using hne
    simp [this]
  | update nl => exact lookup_foldStore_other st hg l nl l' lemma' hne
  | getLemma lemma => simp
  | getLexicon => rfl
  | getRules => rfl

theorem lexOf_execNext_other (st : State) (l : Lang) (o : LOp) (l' : Lang) (hl : l' ≠ l) :
    (execNext st l o).lexOf l' = st.lexOf l' := by
  cases o with
  | add lemma a => exact lexOf_addCore_other st l lemma a l' hl
  | addSingle items =>
    cases items with
    | nil => rfl
    | cons p r => exact lexOf_addCore_other st l p.1 p.2 l' hl
  | remove lemma => simp [removeAt, hl]
  | update nl => exact lexOf_foldStore_other st l nl l' hl
  | getLemma lemma => simp
  | getLexicon => rfl
  | getRules => rfl

theorem rules_execNext (st : State) (l : Lang) (o : LOp) (l' : Lang) : (execNext st l o).rulesOf l' = st.rulesOf l' := by
  cases o with
  | add lemma a =>
    simp only [execNext_add, addCore]
    cases dget lemma (st.lexOf l) <;> simp [storeArg]
  | addSingle items =>
    cases items with
    | nil => rfl
    | cons p r =>
      obtain ⟨lemma, a⟩ := p
      simp only [execNext_addSingle_cons, addCore]
      cases dget lemma (st.lexOf l) <;> simp [storeArg]
  | remove lemma => simp [removeAt]
  | update nl =>
    simp only [execNext_update]
    induction nl generalizing st with
    | nil => rfl
    | cons p r ih =>
      have := ih (storeArg st l p.1 p.2)
      simp only [foldStore, List.foldl_cons] at this ⊢
      rw [this]; simp [storeArg]
  | getLemma lemma => simp
  | getLexicon => rfl
  | getRules => rfl

theorem cur_execNext (st : State) (l : Lang) (o : LOp) : (execNext st l o).cur = st.cur := by
  cases o with
  | add lemma a =>
    simp only [execNext_add, addCore]
    cases dget lemma (st.lexOf l) <;> simp [storeArg]
  | addSingle items =>
    cases items with
    | nil => rfl
    | cons p r =>
      obtain ⟨lemma, a⟩ := p
      simp only [execNext_addSingle_cons, addCore]
      cases dget lemma (st.lexOf l) <;> simp [storeArg]
  | remove lemma => simp [removeAt]
  | update nl =>
    simp only [execNext_update]
    induction nl generalizing st with
    | nil => rfl
    | cons p r ih =>
      have := ih (storeArg st l p.1 p.2)
      simp only [foldStore, List.foldl_cons] at this ⊢
      rw [this]; simp [storeArg]
  | getLemma lemma => simp
  | getLexicon => rfl
  | getRules => rfl

end Pyrealb.LexState
