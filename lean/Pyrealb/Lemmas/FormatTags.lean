import Pyrealb.Lemmas.FormatWrap
import Pyrealb.Lemmas.FormatStop
/-! Tags in formatted token lists (for C10): the concatenated text, deletion of tags, well-nestedness. -/
namespace Pyrealb.Format

/-- the text of a token list without any joining space -/
def flat (l : List Tok) : Str := (l.map (·.real)).flatten

@[simp] theorem flat_nil : flat [] = [] := rfl
@[simp] theorem flat_cons (t : Tok) (l : List Tok) : flat (t :: l) = t.real ++ flat l := by simp [flat]
theorem flat_append (a b : List Tok) : flat (a ++ b) = flat a ++ flat b := by simp [flat]

theorem flat_modLast (A : Str) (l : List Tok) (h : l ≠ []) : flat (modLast (· ++ A) l) = flat l ++ A := by
  induction l with
  | nil => exact absurd rfl h
  | cons t r ih =>
    cases r with
    | nil => simp [modLast]
    | cons u r => simp only [modLast, flat_cons]; rw [ih (by simp)]; simp

theorem flat_modLast_f (f : Str → Str) (l : List Tok) (h : l ≠ []) :
    ∃ pre last, flat l = pre ++ last ∧ flat (modLast f l) = pre ++ f last ∧ (∃ t ∈ l, t.real = last) := by
  induction l with
  | nil => exact absurd rfl h
  | cons t r ih =>
    cases r with
    | nil => exact ⟨[], t.real, by simp, by simp [modLast], t, by simp, rfl⟩
    | cons u r =>
      obtain ⟨pre, last, h1, h2, v, hv, hv2⟩ := ih (by simp)
      refine ⟨t.real ++ pre, last, ?_, ?_, v, List.mem_cons_of_mem _ hv, hv2⟩
      · simp only [flat_cons] at h1 ⊢; rw [h1]; simp
      · simp only [modLast, flat_cons]; rw [h2]; simp

theorem flat_wrapAll (B A : Str) (l : List Tok) (h : l ≠ []) : flat (wrapAll B A l) = B ++ flat l ++ A := by
  cases l with
  | nil => exact absurd rfl h
  | cons t r =>
    cases r with
    | nil => simp [wrapAll]
    | cons u r => simp only [wrapAll, flat_cons]; rw [flat_modLast A _ (by simp)]; simp

theorem flat_filter (l : List Tok) : flat (l.filter (fun u => u.real ≠ [])) = flat l := by
  induction l with
  | nil => rfl
  | cons t r ih =>
    by_cases h : t.real = []
    · rw [List.filter_cons_of_neg (by simp [h]), ih]; simp [h]
    · rw [List.filter_cons_of_pos (by simp [h]), flat_cons, ih, flat_cons]

theorem flat_removeEmpty (l : List Tok) : flat (removeEmpty l) = flat l := by
  induction l with
  | nil => rfl
  | cons t r ih =>
    cases r with
    | nil => rfl
    | cons u r =>
      simp only [removeEmpty]
      split
      · rename_i h; rw [ih]; simp [h]
      · simp only [flat_cons]; rw [flat_filter]; simp

theorem removeEmpty_ne_nil (l : List Tok) (h : l ≠ []) : removeEmpty l ≠ [] := by
  induction l with
  | nil => exact absurd rfl h
  | cons t r ih =>
    cases r with
    | nil => simp [removeEmpty]
    | cons u r =>
      simp only [removeEmpty]
      split
      · exact ih (by simp)
      · simp

theorem removeEmpty_mem (l : List Tok) (t : Tok) (h : t ∈ removeEmpty l) : t ∈ l := by
  induction l with
  | nil => simp [removeEmpty] at h
  | cons a r ih =>
    cases r with
    | nil => simpa [removeEmpty] using h
    | cons u r =>
      simp only [removeEmpty] at h
      split at h
      · exact List.mem_cons_of_mem _ (ih h)
      · rcases List.mem_cons.mp h with h | h
        · simp [h]
        · exact List.mem_cons_of_mem _ (List.mem_filter.mp h).1

/-! ### angle brackets -/

def AngleFree (x : Str) : Prop := '<' ∉ x ∧ '>' ∉ x

instance (x : Str) : Decidable (AngleFree x) := by unfold AngleFree; infer_instance

theorem AngleFree.nil : AngleFree [] := by simp [AngleFree]
theorem AngleFree.append {x y : Str} (hx : AngleFree x) (hy : AngleFree y) : AngleFree (x ++ y) := by
  simp only [AngleFree, List.mem_append, not_or] at *
  exact ⟨⟨hx.1, hy.1⟩, ⟨hx.2, hy.2⟩⟩
theorem AngleFree.cons {c : Char} {x : Str} (h1 : c ≠ '<') (h2 : c ≠ '>') (hx : AngleFree x) : AngleFree (c :: x) := by
  simp only [AngleFree, List.mem_cons, not_or] at *
  exact ⟨⟨fun e => h1 e.symm, hx.1⟩, ⟨fun e => h2 e.symm, hx.2⟩⟩
theorem AngleFree.tail {c : Char} {x : Str} (h : AngleFree (c :: x)) : c ≠ '<' ∧ c ≠ '>' ∧ AngleFree x := by
  simp only [AngleFree, List.mem_cons, not_or] at h
  exact ⟨fun e => h.1.1 e.symm, fun e => h.2.1 e.symm, h.1.2, h.2.2⟩

/-- deletion of everything between `<` and `>` (brackets included) -/
def strip : Bool → Str → Str
  | _, [] => []
  | st, c :: r => (if c ≠ '<' ∧ c ≠ '>' ∧ st = false then [c] else []) ++ strip (angStep st c) r

theorem inAngle_cons (st : Bool) (c : Char) (x : Str) : inAngle st (c :: x) = inAngle (angStep st c) x := rfl
theorem inAngle_append (st : Bool) (x y : Str) : inAngle st (x ++ y) = inAngle (inAngle st x) y := by
  simp [inAngle, List.foldl_append]

theorem strip_append (st : Bool) (x y : Str) : strip st (x ++ y) = strip st x ++ strip (inAngle st x) y := by
  induction x generalizing st with
  | nil => rfl
  | cons c r ih => simp only [List.cons_append, strip, inAngle_cons, ih, List.append_assoc]

theorem strip_angleFree {x : Str} (h : AngleFree x) : strip false x = x ∧ inAngle false x = false := by
  induction x with
  | nil => exact ⟨rfl, rfl⟩
  | cons c r ih =>
    obtain ⟨h1, h2, h3⟩ := h.tail
    obtain ⟨i1, i2⟩ := ih h3
    have e : angStep false c = false := by simp [angStep, h1, h2]
    exact ⟨by simp [strip, h1, h2, e, i1], by rw [inAngle_cons, e, i2]⟩

theorem strip_inside {x : Str} (h : AngleFree x) : strip true x = [] ∧ inAngle true x = true := by
  induction x with
  | nil => exact ⟨rfl, rfl⟩
  | cons c r ih =>
    obtain ⟨h1, h2, h3⟩ := h.tail
    obtain ⟨i1, i2⟩ := ih h3
    have e : angStep true c = true := by simp [angStep, h1, h2]
    exact ⟨by simp [strip, e, i1], by rw [inAngle_cons, e, i2]⟩

/-- a complete tag disappears and leaves the state outside -/
theorem strip_tag {body : Str} (h : AngleFree body) :
    strip false ('<' :: body ++ ['>']) = [] ∧ inAngle false ('<' :: body ++ ['>']) = false := by
  obtain ⟨i1, i2⟩ := strip_inside h
  constructor
  · simp only [List.cons_append, strip, angStep, if_true]
    rw [strip_append, i1, i2]
    simp [strip]
  · simp only [List.cons_append, inAngle_cons, angStep, if_true]
    rw [inAngle_append, i2]
    simp [inAngle, angStep]

/-- a closed piece (not ending inside a bracket) can be stripped separately -/
theorem strip_closed (x y : Str) (h : inAngle false x = false) : strip false (x ++ y) = strip false x ++ strip false y := by
  rw [strip_append, h]

theorem closed_append {x y : Str} (hx : inAngle false x = false) (hy : inAngle false y = false) :
    inAngle false (x ++ y) = false := by
  rw [inAngle_append, hx, hy]

/-- tag name and attributes free of angle brackets; the name contains no space and does not start with `/` -/
def TagOK (t : Str × List (Str × Str)) : Prop :=
  t.1 ≠ [] ∧ AngleFree t.1 ∧ (∀ kv ∈ t.2, AngleFree kv.1 ∧ AngleFree kv.2) ∧ ' ' ∉ t.1 ∧ t.1.head? ≠ some '/' 

theorem attrs_angleFree (attrs : List (Str × Str)) (h : ∀ kv ∈ attrs, AngleFree kv.1 ∧ AngleFree kv.2) :
    AngleFree (attrs.map (fun kv => ' ' :: kv.1 ++ ['=', '"'] ++ kv.2 ++ ['"'])).flatten := by
  induction attrs with
  | nil => exact AngleFree.nil
  | cons kv r ih =>
    simp only [List.map_cons, List.flatten_cons]
    obtain ⟨h1, h2⟩ := h kv (by simp)
    refine AngleFree.append ?_ (ih (fun x hx => h x (List.mem_cons_of_mem _ hx)))
    have e : ' ' :: kv.1 ++ ['=', '"'] ++ kv.2 ++ ['"'] = [' '] ++ kv.1 ++ ['=', '"'] ++ kv.2 ++ ['"'] := by simp
    rw [e]
    exact ((((AngleFree.cons (by decide) (by decide) AngleFree.nil).append h1).append
      (AngleFree.cons (by decide) (by decide) (AngleFree.cons (by decide) (by decide) AngleFree.nil))).append h2).append
      (AngleFree.cons (by decide) (by decide) AngleFree.nil)

theorem startTag_strip (t : Str × List (Str × Str)) (h : TagOK t) :
    strip false (startTag t.1 t.2) = [] ∧ inAngle false (startTag t.1 t.2) = false := by
  have : startTag t.1 t.2 = '<' :: (t.1 ++ (t.2.map (fun kv => ' ' :: kv.1 ++ ['=', '"'] ++ kv.2 ++ ['"'])).flatten) ++ ['>'] := by
    simp [startTag]
  rw [this]
  exact strip_tag (h.2.1.append (attrs_angleFree t.2 h.2.2.1))

theorem endTag_strip (n : Str) (h : AngleFree n) :
    strip false (endTag n) = [] ∧ inAngle false (endTag n) = false := by
  have : endTag n = '<' :: ('/' :: n) ++ ['>'] := by simp [endTag]
  rw [this]
  exact strip_tag (AngleFree.cons (by decide) (by decide) h)

theorem tagsB_strip (tags : List (Str × List (Str × Str))) (h : ∀ t ∈ tags, TagOK t) :
    strip false (tagsB tags) = [] ∧ inAngle false (tagsB tags) = false := by
  induction tags with
  | nil => exact ⟨rfl, rfl⟩
  | cons t r ih =>
    obtain ⟨n, attrs⟩ := t
    obtain ⟨i1, i2⟩ := ih (fun x hx => h x (List.mem_cons_of_mem _ hx))
    obtain ⟨s1, s2⟩ := startTag_strip (n, attrs) (h _ (by simp))
    simp only [tagsB]
    exact ⟨by rw [strip_closed _ _ i2, i1, s1]; rfl, closed_append i2 s2⟩

theorem tagsA_strip (tags : List (Str × List (Str × Str))) (h : ∀ t ∈ tags, TagOK t) :
    strip false (tagsA tags) = [] ∧ inAngle false (tagsA tags) = false := by
  induction tags with
  | nil => exact ⟨rfl, rfl⟩
  | cons t r ih =>
    obtain ⟨n, attrs⟩ := t
    obtain ⟨i1, i2⟩ := ih (fun x hx => h x (List.mem_cons_of_mem _ hx))
    obtain ⟨s1, s2⟩ := endTag_strip n (h (n, attrs) (by simp)).2.1
    simp only [tagsA]
    exact ⟨by rw [strip_closed _ _ s2, i1, s1]; rfl, closed_append s2 i2⟩

/-! ### well-nested tagged text -/

/-- balanced and properly nested: plain text, a well-nested text inside a tag, or a sequence of those -/
inductive Bal : Str → Prop where
  | text {x : Str} : AngleFree x → Bal x
  | wrap {t : Str × List (Str × Str)} {x : Str} : TagOK t → Bal x → Bal (startTag t.1 t.2 ++ x ++ endTag t.1)
  | app {x y : Str} : Bal x → Bal y → Bal (x ++ y)

theorem bal_tags (tags : List (Str × List (Str × Str))) (h : ∀ t ∈ tags, TagOK t) (x : Str) (hx : Bal x) :
    Bal (tagsB tags ++ x ++ tagsA tags) := by
  induction tags generalizing x with
  | nil => simpa [tagsB, tagsA] using hx
  | cons t r ih =>
    obtain ⟨n, attrs⟩ := t
    have := ih (fun y hy => h y (List.mem_cons_of_mem _ hy)) _ (Bal.wrap (t := (n, attrs)) (h _ (by simp)) hx)
    simpa [tagsB, tagsA, List.append_assoc] using this

end Pyrealb.Format
