import Pyrealb.Lemmas.HeapAgree
/-! # Every operation on a closed set `A` maps stores that agree on `A` to stores that agree on `A`

(read-locality of the operations: with `plan_agree`, the other half of "an expression evolves as it would alone") -/
namespace Pyrealb.Heap
open Pyrealb

theorem all_congr' {l : List Nat} {f f' : Nat → Bool} (hf : ∀ x ∈ l, f x = f' x) : l.all f = l.all f' := by
  induction l with
  | nil => rfl
  | cons a t ih =>
    simp only [List.all_cons, hf a List.mem_cons_self]
    rw [ih (fun x hx => hf x (List.mem_cons_of_mem _ hx))]

section
variable {A : List Nat} {h g : Heap}

theorem nbrs_ag (ag : Agree A h g) {x : Nat} (hx : x ∈ A) : nbrs g x = nbrs h x :=
  nbrs_congr h g x (by rw [ag.node x hx]) (by rw [ag.node x hx]) (by rw [ag.node x hx]) (ag.cod x hx) (ag.subject x hx)

theorem closed_of_agree (cl : Closed h A) (ag : Agree A h g) : Closed g A := by
  intro x hx
  obtain ⟨h1, h2⟩ := cl x hx
  exact ⟨by rw [ag.n]; exact h1, by rw [nbrs_ag ag hx]; exact h2⟩

theorem closedB_ag (ag : Agree A h g) (S : List Nat) (hS : ∀ y ∈ S, y ∈ A) : closedB g S = closedB h S := by
  unfold closedB
  apply all_congr'
  intro x hx
  rw [ag.n, nbrs_ag ag (hS x hx)]

theorem closureLoop_ag (cl : Closed h A) (ag : Agree A h g) : ∀ (fuel : Nat) (S : List Nat), (∀ y ∈ S, y ∈ A) →
    closureLoop fuel g S = closureLoop fuel h S := by
  intro fuel
  induction fuel with
  | zero => intro S hS; simp only [closureLoop, closedB_ag ag S hS]
  | succ f ih =>
    intro S hS
    simp only [closureLoop, closedB_ag ag S hS]
    have e : S.flatMap (nbrs g) = S.flatMap (nbrs h) := flatMap_congr' (fun x hx => nbrs_ag ag (hS x hx))
    rw [e]
    split
    · rfl
    · apply ih
      intro y hy
      rcases List.mem_append.mp hy with hy | hy
      · exact hS y hy
      · obtain ⟨x, hx, hxy⟩ := List.mem_flatMap.mp (List.mem_filter.mp hy).1
        exact (cl x (hS x hx)).2 y hxy

theorem closure_ag (cl : Closed h A) (ag : Agree A h g) {p : Nat} (hp : p ∈ A) : closure g p = closure h p := by
  unfold closure
  rw [ag.n, closureLoop_ag cl ag h.n [p] (by simpa using hp)]
  cases hl : closureLoop h.n h [p] with
  | none => rfl
  | some S =>
    simp only
    have hS : ∀ y ∈ S, y ∈ A := closureLoop_sub A h cl h.n [p] S (by simpa using hp) hl
    rw [closedB_ag ag _ (fun y hy => hS y (by simpa using (List.mem_filter.mp hy).2))]

theorem planLocal_ag (cl : Closed h A) (ag : Agree A h g) {p : Nat} (hp : p ∈ A) (acts : List Act) :
    planLocal g p acts = planLocal h p acts := by
  unfold planLocal
  rw [closure_ag cl ag hp]

/-! ### the assignments of a link run -/

theorem agree_step (ag : Agree A h g) (a : Act) (hn : ∀ y ∈ a.nodes, y ∈ A) (h' : Heap) (hs : step h a = .ok h') :
    ∃ g', step g a = .ok g' ∧ Agree A h' g' := by
  cases a with
  | setPeng strict x y =>
    have hy : y ∈ A := hn y (by simp [Act.nodes])
    simp only [step, ag.peng y hy] at hs ⊢
    cases hq : h.peng y with
    | none => rw [hq] at hs; cases strict <;> simp at hs ⊢; subst hs; exact ag
    | some r =>
      rw [hq] at hs; simp only [Except.ok.injEq] at hs; subst hs
      refine ⟨_, rfl, ag.n, ag.node, ?_, ag.taux, ag.cod, ag.subject, ?_, ?_⟩
      · intro z hz
        by_cases e : z = x
        · subst e; simp [upd]
        · simpa [upd, e] using ag.peng z hz
      · rintro r' ⟨z, hz, hzr⟩
        apply ag.prec
        by_cases e : z = x
        · subst e; simp [upd] at hzr; subst hzr; exact ⟨y, hy, hq⟩
        · simp [upd, e] at hzr; exact ⟨z, hz, hzr⟩
      · exact ag.trec
  | setTaux strict x y =>
    have hy : y ∈ A := hn y (by simp [Act.nodes])
    simp only [step, ag.taux y hy] at hs ⊢
    cases hq : h.taux y with
    | none => rw [hq] at hs; cases strict <;> simp at hs ⊢; subst hs; exact ag
    | some r =>
      rw [hq] at hs; simp only [Except.ok.injEq] at hs; subst hs
      refine ⟨_, rfl, ag.n, ag.node, ag.peng, ?_, ag.cod, ag.subject, ag.prec, ?_⟩
      · intro z hz
        by_cases e : z = x
        · subst e; simp [upd]
        · simpa [upd, e] using ag.taux z hz
      · rintro r' ⟨z, hz, hzr⟩
        apply ag.trec
        by_cases e : z = x
        · subst e; simp [upd] at hzr; subst hzr; exact ⟨y, hy, hq⟩
        · simp [upd, e] at hzr; exact ⟨z, hz, hzr⟩
  | writeN strict y v =>
    have hy : y ∈ A := hn y (by simp [Act.nodes])
    simp only [step, ag.peng y hy] at hs ⊢
    cases hq : h.peng y with
    | none => rw [hq] at hs; cases strict <;> simp at hs ⊢; subst hs; exact ag
    | some r =>
      rw [hq] at hs; simp only [Except.ok.injEq] at hs; subst hs
      refine ⟨_, rfl, ag.n, ag.node, ag.peng, ag.taux, ag.cod, ag.subject, ?_, ag.trec⟩
      rintro r' hr'
      have hr0 : RecOf h A r' := hr'
      by_cases e : r' = r
      · subst e; simp [upd, ag.prec r' ⟨y, hy, hq⟩]
      · simpa [upd, e] using ag.prec r' hr0
  | copyG strict t y =>
    have hy : y ∈ A := hn y (by simp [Act.nodes])
    have ht : t ∈ A := hn t (by simp [Act.nodes])
    simp only [step, ag.peng y hy, ag.peng t ht] at hs ⊢
    cases hq : h.peng y with
    | none => rw [hq] at hs; cases strict <;> simp at hs ⊢; subst hs; exact ag
    | some r =>
      rw [hq] at hs; simp only at hs ⊢
      rw [ag.prec r ⟨y, hy, hq⟩]
      cases hg : (h.prec r).g with
      | none => rw [hg] at hs; simp at hs
      | some gv =>
        rw [hg] at hs; simp only at hs ⊢
        cases hqt : h.peng t with
        | none => rw [hqt] at hs; simp at hs
        | some rt =>
          rw [hqt] at hs; simp only [Except.ok.injEq] at hs ⊢; subst hs
          refine ⟨_, rfl, ag.n, ag.node, ag.peng, ag.taux, ag.cod, ag.subject, ?_, ag.trec⟩
          rintro r' hr'
          have hr0 : RecOf h A r' := hr'
          by_cases e : r' = rt
          · subst e; simp [upd, ag.prec r' ⟨t, ht, hqt⟩]
          · simpa [upd, e] using ag.prec r' hr0
  | fresh x ifNone =>
    have hx : x ∈ A := hn x (by simp [Act.nodes])
    simp only [step, ag.peng x hx] at hs ⊢
    split at hs
    · rename_i hc; simp only [hc, if_true, Except.ok.injEq] at hs ⊢; subst hs; exact ⟨_, rfl, ag⟩
    · rename_i hc; simp only [hc, if_false, Except.ok.injEq] at hs ⊢; subst hs
      refine ⟨_, rfl, ag.n, ag.node, ?_, ag.taux, ag.cod, ag.subject, ?_, ag.trec⟩
      · intro z hz
        by_cases e : z = x
        · subst e; simp [upd]
        · simpa [upd, e] using ag.peng z hz
      · rintro r' ⟨z, hz, hzr⟩
        by_cases e2 : r' = freshRec x
        · subst e2; simp [upd]
        · have : RecOf h A r' := by
            by_cases e : z = x
            · subst e; simp [upd] at hzr; exact absurd hzr.symm e2
            · simp [upd, e] at hzr; exact ⟨z, hz, hzr⟩
          simpa [upd, e2] using ag.prec r' this
  | setCod x y =>
    simp only [step, Except.ok.injEq] at hs ⊢; subst hs
    refine ⟨_, rfl, ag.n, ag.node, ag.peng, ag.taux, ?_, ag.subject, ag.prec, ag.trec⟩
    intro z hz
    by_cases e : z = x
    · subst e; simp [upd]
    · simpa [upd, e] using ag.cod z hz
  | setSubject x y =>
    simp only [step, Except.ok.injEq] at hs ⊢; subst hs
    refine ⟨_, rfl, ag.n, ag.node, ag.peng, ag.taux, ag.cod, ?_, ag.prec, ag.trec⟩
    intro z hz
    by_cases e : z = x
    · subst e; simp [upd]
    · simpa [upd, e] using ag.subject z hz
  | morphoError x =>
    have hx : x ∈ A := hn x (by simp [Act.nodes])
    simp only [step, Except.ok.injEq] at hs ⊢; subst hs
    refine ⟨_, rfl, ag.n, ?_, ag.peng, ag.taux, ag.cod, ag.subject, ag.prec, ag.trec⟩
    intro z hz
    by_cases e : z = x
    · subst e; simp [Heap.warn, upd, ag.node z hz]
    · simpa [Heap.warn, upd, e] using ag.node z hz
  | guardHas o => simp only [step, Except.ok.injEq] at hs ⊢; subst hs; exact ⟨_, rfl, ag⟩
  | crash c => simp [step] at hs

theorem agree_exec (cl : Closed h A) (ag : Agree A h g) (acts : List Act) (hn : ∀ a ∈ acts, ∀ y ∈ a.nodes, y ∈ A)
    (h' : Heap) (hs : exec h acts = .ok h') : ∃ g', exec g acts = .ok g' ∧ Agree A h' g' := by
  induction acts generalizing h g with
  | nil => simp only [exec, Except.ok.injEq] at hs ⊢; subst hs; exact ⟨g, rfl, ag⟩
  | cons a as ih =>
    simp only [exec] at hs ⊢
    have hst : a.stops g.peng = a.stops h.peng := by
      cases a <;> simp only [Act.stops]
      rename_i o
      rw [ag.peng o (hn _ List.mem_cons_self o (by simp [Act.nodes]))]
    rw [hst]
    split at hs
    · rename_i hc; simp only [hc, if_true, Except.ok.injEq] at hs ⊢; subst hs; exact ⟨g, rfl, ag⟩
    · rename_i hc
      simp only [hc, if_false]
      cases h1 : step h a with
      | error c => rw [h1] at hs; simp at hs
      | ok h1' =>
        rw [h1] at hs
        obtain ⟨g1, hg1, ag1⟩ := agree_step ag a (hn a List.mem_cons_self) h1' h1
        rw [hg1]
        exact ih (step_closed A h h1' a (hn a List.mem_cons_self) h1 cl) ag1
          (fun b hb => hn b (List.mem_cons_of_mem _ hb)) hs

/-- **read-locality of a link run** -/
theorem agree_linkR (cl : Closed h A) (ag : Agree A h g) {p : Nat} (hp : p ∈ A) (h' : Heap) (hr : linkR h p = .ok h') :
    ∃ g', linkR g p = .ok g' ∧ Agree A h' g' := by
  obtain ⟨P, hplan, hloc, hx⟩ := linkR_local h p h' hr
  have hsub : ∀ a ∈ P, ∀ y ∈ a.nodes, y ∈ A := by
    unfold planLocal at hloc
    cases hc : closure h p with
    | none => simp [hc] at hloc
    | some C =>
      simp only [hc, List.all_eq_true] at hloc
      obtain ⟨_, _, _, hmin⟩ := closure_spec h p C hc
      intro a ha y hy
      exact hmin A cl hp y (by simpa using hloc a ha y hy)
  obtain ⟨g', hg', ag'⟩ := agree_exec cl ag P hsub h' hx
  refine ⟨g', ?_, ag'⟩
  unfold linkR
  rw [plan_agree cl ag hp, hplan]
  simp only [planLocal_ag cl ag hp, hloc, Bool.not_true, Bool.false_eq_true, if_false, hg']

/-! ### structural updates -/

theorem agree_warn (ag : Agree A h g) (k : Nat) : Agree A (h.warn k) (g.warn k) :=
  ⟨ag.n, ag.node, ag.peng, ag.taux, ag.cod, ag.subject, ag.prec, ag.trec⟩

theorem agree_setNode (ag : Agree A h g) (x : Nat) (nd nd' : Node) (e : x ∈ A → nd' = nd) :
    Agree A (h.setNode x nd) (g.setNode x nd') := by
  refine ⟨ag.n, ?_, ag.peng, ag.taux, ag.cod, ag.subject, ag.prec, ag.trec⟩
  intro z hz
  by_cases ez : z = x
  · subst ez; simp [Heap.setNode, upd, e hz]
  · simpa [Heap.setNode, upd, ez] using ag.node z hz

theorem agree_setParent (ag : Agree A h g) (x : Nat) (q : Option Nat) : Agree A (setParent h x q) (setParent g x q) :=
  agree_setNode ag x _ _ (fun hx => by rw [ag.node x hx])

theorem agree_setKids (ag : Agree A h g) (p : Nat) (l : List Nat) : Agree A (setKids h p l) (setKids g p l) :=
  agree_setNode ag p _ _ (fun hp => by rw [ag.node p hp])

theorem agree_addElement (cl : Closed h A) (ag : Agree A h g) {p e : Nat} (hp : p ∈ A) (he : e ∈ A) (pos : Option Int) :
    Agree A (addElement h p e pos) (addElement g p e pos) := by
  unfold addElement
  have g1 := setParent_good A h e (some p) cl he (by simpa using hp)
  have a1 := agree_setParent ag e (some p)
  have ek : (setParent g e (some p)).kids p = (setParent h e (some p)).kids p := kids_ag g1.2 a1 hp
  cases pos with
  | none => simp only [ek]; exact agree_setKids a1 p _
  | some i =>
    simp only [ek]
    split
    · exact agree_setKids a1 p _
    · exact agree_warn a1 1

theorem agree_removeElement (cl : Closed h A) (ag : Agree A h g) {p : Nat} (hp : p ∈ A) (i : Nat) :
    Agree A (removeElement h p i).1 (removeElement g p i).1 ∧ (removeElement g p i).2 = (removeElement h p i).2 := by
  simp only [removeElement, kids_ag cl ag hp]
  cases hq : (h.kids p)[i]? with
  | none => exact ⟨agree_warn ag 1, rfl⟩
  | some e => exact ⟨agree_setParent (agree_setKids ag p _) e none, rfl⟩

theorem agree_moveElement (cl : Closed h A) (ag : Agree A h g) {p : Nat} (hp : p ∈ A) (i idx : Nat) :
    Agree A (moveElement h p i idx) (moveElement g p i idx) := by
  obtain ⟨a1, e2⟩ := agree_removeElement cl ag hp i
  obtain ⟨g1, hmem⟩ := removeElement_good A h p i cl hp
  unfold moveElement
  cases hr : removeElement h p i with
  | mk h1 o =>
    cases hr' : removeElement g p i with
    | mk g1' o' =>
      rw [hr] at a1 e2 g1 hmem
      rw [hr'] at a1 e2
      simp only at a1 e2 g1 hmem
      subst e2
      cases o' with
      | none => exact a1
      | some e1 => exact agree_addElement g1.2 a1 hp (hmem e1 rfl) _

theorem allAorN_ag (cl : Closed h A) (ag : Agree A h g) {p : Nat} (hp : p ∈ A) (a c : Nat) :
    allAorN g (h.kids p) a c = allAorN h (h.kids p) a c := by
  unfold allAorN
  apply all_congr'
  intro e he
  rw [isA_ag cl ag (mem_of_kid cl ag hp (List.mem_of_mem_drop (List.mem_of_mem_take he)))]

theorem agree_reorderStep (cl : Closed h A) (ag : Agree A h g) {p : Nat} (hp : p ∈ A) (i : Nat) :
    Agree A (reorderStep h p i) (reorderStep g p i) := by
  unfold reorderStep
  rw [kids_ag cl ag hp]
  cases hq : (h.kids p)[i]? with
  | none => exact ag
  | some e =>
    have heA := mem_of_kid? cl ag hp hq
    simp only [kind_ag cl ag heA, getIndex_ag cl ag hp, ag.node e heA, ag.node p hp, allAorN_ag cl ag hp]
    repeat' split
    all_goals (try dsimp only)
    all_goals (repeat' split)
    all_goals first
      | exact ag
      | exact agree_moveElement cl ag hp i _

theorem agree_reorderLoop {p : Nat} (hp : p ∈ A) : ∀ (l : List Nat) (h g : Heap), Closed h A → Agree A h g →
    Agree A (reorderLoop h p l) (reorderLoop g p l) := by
  intro l
  induction l with
  | nil => intro h g _ ag; exact ag
  | cons i is ih =>
    intro h g cl ag
    exact ih _ _ (reorderStep_good A h p i cl hp).2 (agree_reorderStep cl ag hp i)

theorem agree_reorder (cl : Closed h A) (ag : Agree A h g) {p : Nat} (hp : p ∈ A) :
    Agree A (reorder h p) (reorder g p) := by
  unfold reorder
  rw [kids_ag cl ag hp]
  exact agree_reorderLoop hp _ h g cl ag

/-! ### options and `typ` -/

theorem agree_writePeng (ag : Agree A h g) {x : Nat} (hx : x ∈ A) (k : Str) (v : Val) :
    Agree A (h.writePeng x k v) (g.writePeng x k v) := by
  unfold Heap.writePeng
  rw [ag.peng x hx]
  split
  · cases hq : h.peng x with
    | none => exact ag
    | some r =>
      simp only
      rw [ag.prec r ⟨x, hx, hq⟩]
      refine ⟨ag.n, ag.node, ag.peng, ag.taux, ag.cod, ag.subject, ?_, ag.trec⟩
      intro r' hr'
      have hr0 : RecOf h A r' := hr'
      by_cases e : r' = r
      · subst e; simp [upd]
      · simpa [upd, e] using ag.prec r' hr0
  · exact ag

theorem agree_writeTaux (ag : Agree A h g) {x : Nat} (hx : x ∈ A) (k : Str) (v : Val) :
    Agree A (h.writeTaux x k v) (g.writeTaux x k v) := by
  unfold Heap.writeTaux
  rw [ag.taux x hx]
  split
  · cases hq : h.taux x with
    | none => exact ag
    | some r =>
      simp only
      rw [ag.trec r ⟨x, hx, hq⟩]
      refine ⟨ag.n, ag.node, ag.peng, ag.taux, ag.cod, ag.subject, ag.prec, ?_⟩
      intro r' hr'
      have hr0 : TRecOf h A r' := hr'
      by_cases e : r' = r
      · subst e; simp [upd]
      · simpa [upd, e] using ag.trec r' hr0
  · exact ag

theorem agree_setProp (ag : Agree A h g) {x : Nat} (hx : x ∈ A) (k : Str) (v : Val) :
    Agree A (h.setProp x k v) (g.setProp x k v) := by
  unfold Heap.setProp
  have a2 := agree_writeTaux (agree_writePeng ag hx k v) hx k v
  exact agree_setNode a2 x _ _ (fun _ => by rw [a2.node x hx])

theorem agree_typOp (ag : Agree A h g) {x : Nat} (hx : x ∈ A) (arg : Typ.Arg) :
    Agree A (typOp h x arg) (typOp g x arg) := by
  unfold typOp
  rw [ag.node x hx]
  exact agree_warn (agree_setNode ag x _ _ (fun _ => rfl)) _

theorem agree_foldl (f : Heap → Nat → Heap) (l : List Nat)
    (hf : ∀ (acc acc' : Heap) (e : Nat), Closed acc A → Agree A acc acc' → e ∈ l →
      Agree A (f acc e) (f acc' e) ∧ Closed (f acc e) A) :
    ∀ (h g : Heap), Closed h A → Agree A h g → Agree A (l.foldl f h) (l.foldl f g) := by
  induction l with
  | nil => intro h g _ ag; exact ag
  | cons e es ih =>
    intro h g cl ag
    obtain ⟨a1, c1⟩ := hf h g e cl ag List.mem_cons_self
    simp only [List.foldl_cons]
    exact ih (fun acc acc' e' c a m => hf acc acc' e' c a (List.mem_cons_of_mem _ m)) _ _ c1 a1

theorem agree_optRun (sp : OptSpec) (val : Val) : ∀ (fuel : Nat) (h g : Heap) (x : Nat), Closed h A → Agree A h g →
    x ∈ A → Agree A (optRun sp val fuel h x) (optRun sp val fuel g x) := by
  intro fuel
  induction fuel with
  | zero => intro h g x _ ag _; exact ag
  | succ f ih =>
    intro h g x cl ag hx
    simp only [optRun, kind_ag cl ag hx, kids_ag cl ag hx]
    split
    · exact agree_warn ag 1
    · split
      · apply agree_foldl _ (h.kids x) _ h g cl ag
        intro acc acc' e cacc aacc he
        have heA := mem_of_kid cl ag hx he
        rw [kind_ag cacc aacc heA]
        split
        · exact ⟨ih acc acc' e cacc aacc heA, (optRun_good A sp val f acc e cacc heA).2⟩
        · exact ⟨aacc, cacc⟩
      · split
        · apply agree_foldl _ (h.kids x) _ h g cl ag
          intro acc acc' d cacc aacc hd
          have hdA := mem_of_kid cl ag hx hd
          rw [aacc.node d hdA]
          cases ht : (acc.node d).term with
          | none => exact ⟨aacc, cacc⟩
          | some t =>
            simp only
            have htA : t ∈ A := term_sub A acc d cacc hdA t (by simp [ht])
            rw [kind_ag cacc aacc htA]
            split
            · exact ⟨ih acc acc' t cacc aacc htA, (optRun_good A sp val f acc t cacc htA).2⟩
            · exact ⟨aacc, cacc⟩
        · split
          · split
            · exact agree_setProp ag hx _ _
            · split
              · split
                · exact agree_setProp (agree_warn ag 1) hx _ _
                · exact agree_warn ag 1
              · exact agree_setProp ag hx _ _
          · exact agree_warn ag 1

/-! ### re-linking of the ancestors, `add` -/

theorem agree_relinkUp : ∀ (fuel : Nat) (h g h' : Heap) (x : Nat), Closed h A → Agree A h g → x ∈ A →
    relinkUp fuel h x = .ok h' → ∃ g', relinkUp fuel g x = .ok g' ∧ Agree A h' g' := by
  intro fuel
  induction fuel with
  | zero => intro h g h' x _ _ _ hr; simp [relinkUp] at hr
  | succ f ih =>
    intro h g h' x cl ag hx hr
    simp only [relinkUp, ag.node x hx] at hr ⊢
    cases hpar : (h.node x).parent with
    | none => rw [hpar] at hr; simp only [R.ok.injEq] at hr; subst hr; exact ⟨g, rfl, ag⟩
    | some q =>
      rw [hpar] at hr
      simp only at hr ⊢
      have hq : q ∈ A := (cl x hx).2 q (by simp [nbrs, hpar])
      cases hl : linkR h q with
      | crash c => rw [hl] at hr; simp at hr
      | outside => rw [hl] at hr; simp at hr
      | ok h1 =>
        rw [hl] at hr
        obtain ⟨g1, hg1, ag1⟩ := agree_linkR cl ag hq h1 hl
        rw [hg1]
        exact ih h1 g1 h' q (linkR_good A h h1 q cl hq hl).2 ag1 hq hr

theorem agree_phraseAdd1 (cl : Closed h A) (ag : Agree A h g) {p e : Nat} (hp : p ∈ A) (he : e ∈ A) (pos : Option Int)
    (h' : Heap) (hr : phraseAdd1 h p e pos = .ok h') : ∃ g', phraseAdd1 g p e pos = .ok g' ∧ Agree A h' g' := by
  unfold phraseAdd1 at hr ⊢
  have g0 := setParent_good A h e (some p) cl he (by simpa using hp)
  have a0 := agree_setParent ag e (some p)
  have g1 := g0.trans (addElement_good A _ p e pos g0.2 hp he)
  have a1 := agree_addElement g0.2 a0 hp he pos
  cases hl : linkR (addElement (setParent h e (some p)) p e pos) p with
  | crash c => rw [hl] at hr; simp at hr
  | outside => rw [hl] at hr; simp at hr
  | ok h2 =>
    rw [hl] at hr
    simp only at hr
    obtain ⟨g2, hg2, ag2⟩ := agree_linkR g1.2 a1 hp h2 hl
    have c2 := (linkR_good A _ h2 p g1.2 hp hl).2
    rw [hg2]
    simp only
    cases hu : relinkUp (h2.n + 1) h2 p with
    | crash c => rw [hu] at hr; simp at hr
    | outside => rw [hu] at hr; simp at hr
    | ok h3 =>
      rw [hu] at hr
      simp only [R.ok.injEq] at hr
      subst hr
      obtain ⟨g3, hg3, ag3⟩ := agree_relinkUp (h2.n + 1) h2 g2 h3 p c2 ag2 hp hu
      rw [ag2.n, hg3]
      exact ⟨_, rfl, agree_reorder (relinkUp_good A _ h2 h3 p c2 hp hu).2 ag3 hp⟩

theorem agree_depAddNode (cl : Closed h A) (ag : Agree A h g) {p d : Nat} (hp : p ∈ A) (hd : d ∈ A) (pos : Option Int)
    (h' : Heap) (hr : depAdd h p pos (.item (.node d)) = .ok h') :
    ∃ g', depAdd g p pos (.item (.node d)) = .ok g' ∧ Agree A h' g' := by
  simp only [depAdd, kind_ag cl ag hd] at hr ⊢
  split at hr
  · rename_i hc
    simp only [hc, if_true]
    have g1 := addElement_good A h p d pos cl hp hd
    have a1 := agree_addElement cl ag hp hd pos
    cases hl : linkR (addElement h p d pos) p with
    | crash c => rw [hl] at hr; simp at hr
    | outside => rw [hl] at hr; simp at hr
    | ok h2 =>
      rw [hl] at hr
      simp only at hr
      obtain ⟨g2, hg2, ag2⟩ := agree_linkR g1.2 a1 hp h2 hl
      rw [hg2]
      simp only
      rw [ag2.n]
      exact agree_relinkUp (h2.n + 1) h2 g2 h' p (linkR_good A _ h2 p g1.2 hp hl).2 ag2 hp hr
  · rename_i hc
    simp only [hc, Bool.false_eq_true, if_false, R.ok.injEq] at hr ⊢
    subst hr
    exact ⟨_, rfl, agree_warn ag 1⟩

end
end Pyrealb.Heap
