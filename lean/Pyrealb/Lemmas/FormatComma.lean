import Pyrealb.Lemmas.FormatDetok
/-! No space before a comma or a full stop in the joined text (for C10), under explicit side conditions. -/
namespace Pyrealb.Format

/-- is this character a comma or a full stop -/
def isCS (c : Char) : Bool := c == ',' || c == '.'

/-- no space immediately followed by a comma or a full stop -/
def nsb : Str → Bool
  | [] => true
  | [_] => true
  | a :: b :: r => !(a == ' ' && isCS b) && nsb (b :: r)

/-- declarative form -/
def NoSpaceBefore (x : Str) : Prop := ¬ [' ', ','] <:+: x ∧ ¬ [' ', '.'] <:+: x

theorem pair_infix_cons (p q a b : Char) (r : Str) :
    [p, q] <:+: a :: b :: r ↔ (a = p ∧ b = q) ∨ [p, q] <:+: b :: r := by
  rw [List.infix_cons_iff]
  simp only [List.cons_prefix_cons, List.nil_prefix, and_true]
  constructor
  · rintro (⟨h1, h2⟩ | h)
    · exact Or.inl ⟨h1.symm, h2.symm⟩
    · exact Or.inr h
  · rintro (⟨h1, h2⟩ | h)
    · exact Or.inl ⟨h1.symm, h2.symm⟩
    · exact Or.inr h

theorem nsb_iff (x : Str) : nsb x = true ↔ NoSpaceBefore x := by
  unfold NoSpaceBefore
  induction x with
  | nil => simp [nsb]
  | cons a r ih =>
    cases r with
    | nil => simp [nsb, List.infix_cons_iff]
    | cons b r =>
      rw [pair_infix_cons, pair_infix_cons]
      simp only [nsb, Bool.and_eq_true, Bool.not_eq_true', ih]
      constructor
      · rintro ⟨h1, h2, h3⟩
        refine ⟨?_, ?_⟩
        · rintro (⟨ha, hb⟩ | h)
          · subst ha; subst hb; simp [isCS] at h1
          · exact h2 h
        · rintro (⟨ha, hb⟩ | h)
          · subst ha; subst hb; simp [isCS] at h1
          · exact h3 h
      · rintro ⟨h1, h2⟩
        refine ⟨?_, fun h' => h1 (Or.inr h'), fun h' => h2 (Or.inr h')⟩
        by_cases ha : a = ' '
        · subst ha
          by_cases hb : b = ','
          · exact absurd (Or.inl ⟨rfl, hb⟩) h1
          · by_cases hb2 : b = '.'
            · exact absurd (Or.inl ⟨rfl, hb2⟩) h2
            · simp [isCS, hb, hb2]
        · simp [ha]

theorem nsb_tail {a : Char} {r : Str} (h : nsb (a :: r) = true) : nsb r = true := by
  cases r with
  | nil => rfl
  | cons b r => simp [nsb] at h; exact h.2

def headCS (x : Str) : Bool :=
  match x.head? with
  | some c => isCS c
  | none => false

theorem nsb_cons {a : Char} {r : Str} (hr : nsb r = true) (h : a ≠ ' ' ∨ headCS r = false) :
    nsb (a :: r) = true := by
  cases r with
  | nil => rfl
  | cons b r =>
    simp only [nsb, Bool.and_eq_true, Bool.not_eq_true', hr, and_true]
    rcases h with h | h
    · simp [h]
    · have : isCS b = false := by simpa [headCS] using h
      simp [this]

theorem nsb_append {a b : Str} (ha : nsb a = true) (hb : nsb b = true)
    (h : a.getLast? ≠ some ' ' ∨ headCS b = false) : nsb (a ++ b) = true := by
  induction a with
  | nil => simpa using hb
  | cons c r ih =>
    cases r with
    | nil =>
      simp only [List.singleton_append]
      apply nsb_cons hb
      rcases h with h | h
      · left; simpa using h
      · right; exact h
    | cons d r =>
      have hr := nsb_tail ha
      have h' : (d :: r).getLast? ≠ some ' ' ∨ headCS b = false := by
        rcases h with h | h
        · left; simpa [List.getLast?_cons_cons] using h
        · right; exact h
      have := ih hr h'
      simp only [List.cons_append] at this ⊢
      simp only [nsb, Bool.and_eq_true, Bool.not_eq_true'] at ha ⊢
      exact ⟨ha.1, this⟩

theorem headCS_append (a b : Str) : headCS (a ++ b) = if a = [] then headCS b else headCS a := by
  cases a <;> simp [headCS]

/-- the case map leaves spaces, commas and full stops alone and creates none -/
def PunctOK (cm : CaseMap) : Prop :=
  ∀ c, (cm.upper c == ' ') = (c == ' ') ∧ isCS (cm.upper c) = isCS c

theorem PunctOK.sp {cm : CaseMap} (h : PunctOK cm) (c : Char) : cm.upper c = ' ' ↔ c = ' ' := by
  have := (h c).1
  rw [Bool.eq_iff_iff] at this
  simpa using this

theorem stripLead_cons_ne {a : Char} {r : Str} (h : a ≠ ' ') : stripLead (a :: r) = a :: r := by
  rw [stripLead.eq_2]
  intro r heq
  injection heq with h1
  exact h h1

theorem upperAt_headCS (cm : CaseMap) (h : PunctOK cm) (x : Str) (i : Nat) :
    headCS (upperAt cm x i) = headCS x := by
  cases x with
  | nil => simp [upperAt_nil]
  | cons a r =>
    cases i with
    | zero => simp [upperAt_zero, headCS, (h a).2]
    | succ i => simp [upperAt_cons_succ, headCS]

theorem upperAt_nsb (cm : CaseMap) (h : PunctOK cm) (x : Str) (i : Nat) :
    nsb (upperAt cm x i) = nsb x := by
  induction x generalizing i with
  | nil => simp [upperAt_nil]
  | cons a r ih =>
    cases i with
    | zero =>
      rw [upperAt_zero]
      cases r with
      | nil => rfl
      | cons b r => simp only [nsb, (h a).1]
    | succ i =>
      rw [upperAt_cons_succ]
      have ih' := ih i
      cases r with
      | nil => simp [upperAt_nil, nsb]
      | cons b r =>
        have hh := upperAt_headCS cm h (b :: r) i
        cases hu : upperAt cm (b :: r) i with
        | nil =>
          cases i with
          | zero => simp [upperAt_zero] at hu
          | succ i => simp [upperAt_cons_succ] at hu
        | cons b' r' =>
          rw [hu] at ih' hh
          simp only [nsb] at ih' ⊢
          rw [ih']
          have e1 : isCS b' = isCS b := by simpa [headCS] using hh
          rw [e1]

theorem upperAt_getLast (cm : CaseMap) (h : PunctOK cm) (x : Str) (i : Nat) :
    (upperAt cm x i).getLast? = some ' ' ↔ x.getLast? = some ' ' := by
  induction x generalizing i with
  | nil => simp [upperAt_nil]
  | cons a r ih =>
    cases i with
    | zero =>
      rw [upperAt_zero]
      cases r with
      | nil =>
        simp only [List.getLast?_singleton, Option.some.injEq]
        exact h.sp a
      | cons b r => simp [List.getLast?_cons_cons]
    | succ i =>
      rw [upperAt_cons_succ]
      cases r with
      | nil => simp [upperAt_nil]
      | cons b r =>
        cases hu : upperAt cm (b :: r) i with
        | nil =>
          cases i with
          | zero => simp [upperAt_zero] at hu
          | succ i => simp [upperAt_cons_succ] at hu
        | cons b' r' =>
          rw [List.getLast?_cons_cons, List.getLast?_cons_cons, ← hu]
          exact ih i

theorem stripLead_nsb {x : Str} (h : nsb x = true) : nsb (stripLead x) = true := by
  unfold stripLead
  split
  · exact nsb_tail h
  · exact h

/-- a terminal whose text (after the removal of a leading space) does not begin with a comma or a full stop -/
def HeadOK (t : Tok) : Prop := headCS (stripLead t.real) = false

theorem chunk_nsb (cm : CaseMap) (lang : Lang) (t nxt : Tok) (h : nsb t.real = true) :
    nsb (chunk cm lang t nxt) = true ∧
      (headCS (chunk cm lang t nxt) = true → headCS (stripLead t.real) = true) := by
  have h1 := stripLead_nsb h
  unfold chunk
  simp only
  split
  · have hf := checkForT_fst cm lang (stripLead t.real) t.cat nxt
    have hs := checkForT_snd cm lang (stripLead t.real) t.cat nxt
    generalize checkForT cm lang (stripLead t.real) t.cat nxt = p at hf hs
    obtain ⟨r', lia⟩ := p
    simp only at hf hs ⊢
    have hl : nsb ('-' :: lia) = true := by
      rcases hs with rfl | rfl <;> decide
    have hh : headCS ('-' :: lia) = false := by simp [headCS, isCS]
    rcases hf with rfl | rfl
    · refine ⟨nsb_append h1 hl (Or.inr hh), ?_⟩
      rw [headCS_append]
      split
      · simp [hh]
      · exact id
    · refine ⟨nsb_append (by decide) hl (Or.inr hh), ?_⟩
      simp [headCS, isCS]
  · split
    · exact ⟨h1, id⟩
    · split
      · rename_i hsep _
        have hsep' : endsSep (stripLead t.real) = false := by simpa using hsep
        refine ⟨nsb_append h1 (by decide) (Or.inl (endsSep_false_last hsep')), ?_⟩
        rw [headCS_append]
        split
        · simp [headCS, isCS]
        · exact id
      · exact ⟨rfl, by simp [headCS]⟩

theorem titleCase_nsb (cm : CaseMap) (hc : PunctOK cm) (t t' : Tok) (h : titleCase cm t = .ok t') :
    nsb t'.real = nsb t.real ∧ headCS (stripLead t'.real) = headCS (stripLead t.real) := by
  unfold titleCase at h
  split at h
  · cases h; exact ⟨rfl, rfl⟩
  · rename_i idx w _
    split at h
    · cases h
      refine ⟨by simp [upperAt_nsb cm hc], ?_⟩
      simp only
      -- stripLead commutes with the case change of one character
      cases hx : t.real with
      | nil => simp [upperAt_nil]
      | cons a r =>
        cases idx with
        | zero =>
          rw [upperAt_zero]
          by_cases e : a = ' '
          · subst e
            have : cm.upper ' ' = ' ' := (hc.sp ' ').mpr rfl
            rw [this]
          · have e' : cm.upper a ≠ ' ' := fun e2 => e ((hc.sp a).mp e2)
            rw [stripLead_cons_ne e', stripLead_cons_ne e]; simp [headCS, (hc a).2]
        | succ i =>
          rw [upperAt_cons_succ]
          by_cases e : a = ' '
          · subst e
            simp only [stripLead]
            exact upperAt_headCS cm hc r i
          · rw [stripLead_cons_ne e, stripLead_cons_ne e]; simp [headCS]
    · cases h; exact ⟨rfl, rfl⟩

theorem joinToks_nsb (cm : CaseMap) (hc : PunctOK cm) (lang : Lang) (tit : Bool) (toks : List Tok)
    (h : ∀ t ∈ toks, nsb t.real = true) (hh : ∀ t ∈ toks, HeadOK t) (x : Str)
    (hx : joinToks cm lang tit toks = .ok x) : nsb x = true ∧ headCS x = false := by
  induction toks generalizing x with
  | nil => simp [joinToks] at hx; subst hx; simp [nsb, headCS]
  | cons t rest ih =>
    have ht0 := h t (by simp)
    have hh0 : headCS (stripLead t.real) = false := hh t (by simp)
    cases rest with
    | nil =>
      simp only [joinToks] at hx
      cases tit with
      | false =>
        simp at hx; subst hx
        exact ⟨stripLead_nsb ht0, hh0⟩
      | true =>
        simp only [if_true] at hx
        cases ht : titleCase cm t with
        | error e => rw [ht] at hx; cases hx
        | ok t' =>
          rw [ht] at hx
          simp at hx; subst hx
          obtain ⟨e1, e2⟩ := titleCase_nsb cm hc t t' ht
          exact ⟨stripLead_nsb (by rw [e1]; exact ht0), by rw [e2]; exact hh0⟩
    | cons t2 rest =>
      simp only [joinToks] at hx
      have hrest : ∀ u ∈ t2 :: rest, nsb u.real = true := fun u hu => h u (List.mem_cons_of_mem _ hu)
      have hhrest : ∀ u ∈ t2 :: rest, HeadOK u := fun u hu => hh u (List.mem_cons_of_mem _ hu)
      have key : ∀ (t' : Tok) (tail : Str), nsb t'.real = true → headCS (stripLead t'.real) = false →
          nsb tail = true → headCS tail = false →
          nsb (chunk cm lang t' t2 ++ tail) = true ∧ headCS (chunk cm lang t' t2 ++ tail) = false := by
        intro t' tail a1 a2 a3 a4
        obtain ⟨c1, c2⟩ := chunk_nsb cm lang t' t2 a1
        refine ⟨nsb_append c1 a3 (Or.inr a4), ?_⟩
        rw [headCS_append]
        split
        · exact a4
        · cases hcs : headCS (chunk cm lang t' t2) with
          | false => rfl
          | true => rw [c2 hcs] at a2; cases a2
      cases tit with
      | false =>
        simp only [Bool.false_eq_true, if_false] at hx
        cases hj : joinToks cm lang false (t2 :: rest) with
        | error e => rw [hj] at hx; simp at hx
        | ok tail =>
          rw [hj] at hx
          simp at hx; subst hx
          obtain ⟨i1, i2⟩ := ih hrest hhrest tail hj
          exact key t tail ht0 hh0 i1 i2
      | true =>
        simp only [if_true] at hx
        cases ht : titleCase cm t with
        | error e => rw [ht] at hx; cases hx
        | ok t' =>
          rw [ht] at hx
          cases hj : joinToks cm lang true (t2 :: rest) with
          | error e => rw [hj] at hx; simp at hx
          | ok tail =>
            rw [hj] at hx
            simp at hx; subst hx
            obtain ⟨e1, e2⟩ := titleCase_nsb cm hc t t' ht
            obtain ⟨i1, i2⟩ := ih hrest hhrest tail hj
            exact key t' tail (by rw [e1]; exact ht0) (by rw [e2]; exact hh0) i1 i2

/-- the same with the side condition on the head only for the tokens after the first -/
theorem joinToks_nsb_tail (cm : CaseMap) (hc : PunctOK cm) (lang : Lang) (tit : Bool) (toks : List Tok)
    (h : ∀ t ∈ toks, nsb t.real = true) (hh : ∀ t ∈ toks.tail, HeadOK t) (x : Str)
    (hx : joinToks cm lang tit toks = .ok x) : nsb x = true := by
  cases toks with
  | nil => simp [joinToks] at hx; subst hx; rfl
  | cons t rest =>
    have ht0 := h t (by simp)
    cases rest with
    | nil =>
      simp only [joinToks] at hx
      cases tit with
      | false => simp at hx; subst hx; exact stripLead_nsb ht0
      | true =>
        simp only [if_true] at hx
        cases ht : titleCase cm t with
        | error e => rw [ht] at hx; cases hx
        | ok t' =>
          rw [ht] at hx
          simp at hx; subst hx
          exact stripLead_nsb (by rw [(titleCase_nsb cm hc t t' ht).1]; exact ht0)
    | cons t2 rest =>
      simp only [joinToks] at hx
      have hrest : ∀ u ∈ t2 :: rest, nsb u.real = true := fun u hu => h u (List.mem_cons_of_mem _ hu)
      have hhrest : ∀ u ∈ t2 :: rest, HeadOK u := fun u hu => hh u (by simpa using hu)
      cases tit with
      | false =>
        simp only [Bool.false_eq_true, if_false] at hx
        cases hj : joinToks cm lang false (t2 :: rest) with
        | error e => rw [hj] at hx; simp at hx
        | ok tail =>
          rw [hj] at hx
          simp at hx; subst hx
          obtain ⟨i1, i2⟩ := joinToks_nsb cm hc lang false _ hrest hhrest tail hj
          exact nsb_append (chunk_nsb cm lang t t2 ht0).1 i1 (Or.inr i2)
      | true =>
        simp only [if_true] at hx
        cases ht : titleCase cm t with
        | error e => rw [ht] at hx; cases hx
        | ok t' =>
          rw [ht] at hx
          cases hj : joinToks cm lang true (t2 :: rest) with
          | error e => rw [hj] at hx; simp at hx
          | ok tail =>
            rw [hj] at hx
            simp at hx; subst hx
            obtain ⟨i1, i2⟩ := joinToks_nsb cm hc lang true _ hrest hhrest tail hj
            exact nsb_append (chunk_nsb cm lang t' t2 (by rw [(titleCase_nsb cm hc t t' ht).1]; exact ht0)).1 i1 (Or.inr i2)

end Pyrealb.Format
