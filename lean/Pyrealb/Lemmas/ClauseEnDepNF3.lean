import Pyrealb.Lemmas.ClauseEnDepNF2
namespace Pyrealb.ClauseEn
set_option linter.unusedSimpArgs false

def DepDummyOK (ty : Typ) (pps bl : List (Str × ArgTok)) (init : List Tok) (last : Tok) (agr : Agr) (g : Gender) : Prop :=
  match linDepDummy pps bl ty.int (init ++ [last]) with
  | some L => ∃ out, finishDep ty (dummySt pps bl init last agr g) = .ok out ∧
      out.main = L.map (Tok.resolve out.agr) ∧ out.agr = agr
  | none => finishDep ty (dummySt pps bl init last agr g) = .error .attributeError

theorem fi_pre_dummy (pps : List (Str × ArgTok)) (R : List DNode) :
    findIdx (fun d : DNode => d.rel == .pre) (pps.map dPP ++ dIt :: R) = some pps.length := fi_pre_ql pps dIt rfl R

theorem fi_subj_dummy (pps bl : List (Str × ArgTok)) (ws : List Tok) :
    findIdx (fun d : DNode => d.rel == .subj) (pps.map dPP ++ dIt :: (bl.map dPP ++ ws.map dPre)) = none := by
  apply findIdx_none_of_forall
  intro x hx
  rcases List.mem_append.mp hx with h | h
  · obtain ⟨y, _, rfl⟩ := List.mem_map.mp h; rfl
  · rcases List.mem_cons.mp h with rfl | h
    · rfl
    · rcases List.mem_append.mp h with h | h
      · obtain ⟨y, _, rfl⟩ := List.mem_map.mp h; rfl
      · obtain ⟨y, _, rfl⟩ := List.mem_map.mp h; rfl

theorem fi_obj_dummy (pps bl : List (Str × ArgTok)) (ws : List Tok) :
    findIdx (fun d : DNode => d.rel == .comp && isNPPro d.head.ct) (pps.map dPP ++ dIt :: (bl.map dPP ++ ws.map dPre)) = none := by
  apply findIdx_none_of_forall
  intro x hx
  rcases List.mem_append.mp hx with h | h
  · obtain ⟨y, _, rfl⟩ := List.mem_map.mp h; rfl
  · rcases List.mem_cons.mp h with rfl | h
    · rfl
    · rcases List.mem_append.mp h with h | h
      · obtain ⟨y, _, rfl⟩ := List.mem_map.mp h; rfl
      · obtain ⟨y, _, rfl⟩ := List.mem_map.mp h; rfl

@[simp] theorem dIt_head : dIt.head = .arg .it := rfl

theorem ppToks_append' (l1 l2 : List (Str × ArgTok)) : ppToks (l1 ++ l2) = ppToks l1 ++ ppToks l2 := by
  induction l1 with
  | nil => rfl
  | cons a r ih => simp [ppToks, ih]

theorem dep_nf_dummy (ty : Typ) (pps bl : List (Str × ArgTok)) (init : List Tok) (last : Tok) (agr : Agr) (g : Gender) :
    DepDummyOK ty pps bl init last agr g := by
  unfold DepDummyOK
  obtain ⟨neg, pas, perf, prog, contr, exc, md, i⟩ := ty
  cases i with
  | none =>
    simp [linDepDummy, finishDep, dummySt, pure, Except.pure, bind, Except.bind, dep_main, List.filter_append,
      List.filter_cons, mainToks_append, mt_dIt, mainToks_pps, mainToks_pres, mainToks_nil]
  | some i =>
    cases i
    case tag =>
      obtain ⟨h1, h2, h3, h4⟩ := tag_preserves agr ⟨neg, pas, perf, prog, contr, exc, md, some .tag⟩
        (dummySt pps bl init last agr g)
      generalize hT : tagQuestionDep ⟨neg, pas, perf, prog, contr, exc, md, some .tag⟩
        (dummySt pps bl init last agr g) = T at h1 h2 h3 h4
      have hagr : T.agr = agr := h4
      have hterm : T.term = .tok last := h3
      simp only [linDepDummy, finishDep, processIntDep, bind, Except.bind, pure, Except.pure, hT]
      refine ⟨_, rfl, ?_, ?_⟩
      · rw [dep_main]
        simp only [hagr, hterm]
        simp only [List.filter_cons, isPre_mk, Bool.not_false, Bool.true_and, BEq.rfl, Bool.or_true, if_true,
          Bool.not_true, Bool.false_eq_true, if_false, mt_pre_word, h1, h2]
        simp [dummySt, List.filter_append, List.filter_cons, mainToks_append, mt_dIt, mainToks_pps, mainToks_pres,
          mainToks_nil]
      · exact hagr
    case woi | wai | whe | whn =>
      simp only [finishDep, linDepDummy]
      rw [processIntDep_ppq _ _ rfl]
      simp only [dummySt]
      obtain ⟨p1, b1, hd, hpb⟩ := dropPP_dummy _ pps bl init
      rw [hd, ← hpb]
      simp [moveObjectDep, fi_pre_dummy, removeAt_words, getD_words, getElem?_words, bind, Except.bind, pure,
        Except.pure, dep_main, List.filter_cons, List.filter_append, mainToks_append, mt_pre_word, mt_pre_arg, mt_dIt,
        mainToks_pps, mainToks_pres, mainToks_nil, ppToks_append']
    all_goals
      simp [linDepDummy, finishDep, dummySt, processIntDep, moveObjectDep, fi_pre_dummy, fi_subj_dummy, fi_obj_dummy,
        removeAt_words, getD_words, getElem?_words, bind, Except.bind, pure, Except.pure, dep_main,
        List.filter_cons, List.filter_append, mainToks_append, mt_pre_word, mt_pre_arg, mt_dIt, mainToks_pps,
        mainToks_pres, mainToks_nil, Gen.ClauseEn.depHumanObjectGetsIntValue]

end Pyrealb.ClauseEn

namespace Pyrealb.ClauseEn
set_option linter.unusedSimpArgs false

def byArg (sp : Spec) : Str × ArgTok := (s "by", argTokOfSubj sp.subj)

/-- declarative linearisation of the dependency notation for a clause specification; `none` = AttributeError -/
def linDep (sp : Spec) (ty : Typ) (ws : List Tok) : Option (List Tok) :=
  if ty.pas then
    match sp.obj with
    | some (.np a) => linDepPlain (.np a) none (ppArgs sp ++ [byArg sp]) ty.int ws
    | some (.pro a) => linDepPlain (.proNom a) none (ppArgs sp ++ [byArg sp]) ty.int ws
    | none => linDepDummy (ppArgs sp) [byArg sp] ty.int ws
  else linDepPlain (argTokOfSubj sp.subj) (sp.obj.map argTokOfObj) (ppArgs sp) ty.int ws

/-- the `peng` the first verb reads in the dependency notation -/
def agrDep (sp : Spec) (ty : Typ) (ws : List Tok) : Agr :=
  if ty.pas then
    match sp.obj with
    | some (.np a) => agrDepPlain ⟨.p3, a.n⟩ ty.int ws
    | some (.pro a) => agrDepPlain ⟨a.pe, a.n⟩ ty.int ws
    | none => agrOfArg sp.subj          -- the verb keeps the record of the DEMOTED subject
  else agrDepPlain (agrOfArg sp.subj) ty.int ws

/-- **normal form of the dependency notation** -/
theorem dep_nf (sp : Spec) (ty : Typ) :
    match linDep sp ty (clauseWords sp ty) with
    | some L => ∃ out, realizeDep sp ty = .ok out ∧ out.main = L.map (Tok.resolve out.agr) ∧
        out.agr = agrDep sp ty (clauseWords sp ty)
    | none => realizeDep sp ty = .error .attributeError := by
  have hsh := words_shape sp.verb sp.t ty
  have hall : (clauseWords sp ty).all Tok.isWord = true := by
    unfold wordsShape at hsh
    simp only [Bool.and_eq_true] at hsh
    exact hsh.1
  have hne : clauseWords sp ty ≠ [] := by
    intro h
    have : wordsShape [] = true := by
      have h' : words sp.verb sp.t ty = [] := h
      rw [h'] at hsh; exact hsh
    simp [wordsShape] at this
  unfold realizeDep
  generalize clauseWords sp ty = ws at hall hne
  obtain ⟨init, last, rfl⟩ : ∃ init last, ws = init ++ [last] :=
    ⟨ws.dropLast, ws.getLast hne, (List.dropLast_concat_getLast hne).symm⟩
  have hinit : init.all Tok.isWord = true := by
    rw [List.all_append] at hall
    simp only [Bool.and_eq_true] at hall
    exact hall.1
  rw [realizeDepW_eq]
  obtain ⟨neg, pas, perf, prog, contr, exc, md, i⟩ := ty
  cases pas
  · have := dep_nf_plain ⟨neg, false, perf, prog, contr, exc, md, i⟩ (argTokOfSubj sp.subj) (sp.obj.map argTokOfObj)
      (ppArgs sp) init last (agrOfArg sp.subj) (genderOfArg sp.subj) hinit
    simp only [linDep, agrDep, Bool.false_eq_true, if_false, dstOf_active]
    exact this
  · cases hobj : sp.obj with
    | none =>
      have := dep_nf_dummy ⟨neg, true, perf, prog, contr, exc, md, i⟩ (ppArgs sp) [byArg sp] init last (agrOfArg sp.subj)
        (genderOfArg sp.subj)
      simp only [linDep, agrDep, if_true, hobj, dstOf_pas_none sp hobj]
      exact this
    | some o =>
      cases o with
      | np a =>
        have := dep_nf_plain ⟨neg, true, perf, prog, contr, exc, md, i⟩ (.np a) none (ppArgs sp ++ [byArg sp]) init last
          ⟨.p3, a.n⟩ a.g hinit
        simp only [linDep, agrDep, if_true, hobj, dstOf_pas_np sp a hobj]
        exact this
      | pro a =>
        have := dep_nf_plain ⟨neg, true, perf, prog, contr, exc, md, i⟩ (.proNom a) none (ppArgs sp ++ [byArg sp]) init
          last ⟨a.pe, a.n⟩ a.g hinit
        simp only [linDep, agrDep, if_true, hobj, dstOf_pas_pro sp a hobj]
        exact this

end Pyrealb.ClauseEn
