import Pyrealb.Lemmas.HeapAbsorb
import Pyrealb.Model.HeapOps
/-! # Histories of `add` on one phrase: the pointer part is the result of the successive link runs

`Trace p h steps Ps h'`: adding the nodes `steps` (each with its position) to the phrase `p`, starting in `h`, ends in
`h'`, and `Ps` are the plans of the successive `linkProperties` runs.  Only the link runs touch the pointer part
(`trace_ptr`); `runs_absorbed` is absorption for a whole history. -/
namespace Pyrealb.Heap
open Pyrealb

/-! ### the structural steps do not touch the pointer part -/

@[simp] theorem ptr_setNode (h : Heap) (x : Nat) (nd : Node) : (h.setNode x nd).ptr = h.ptr := rfl
@[simp] theorem ptr_warn (h : Heap) (k : Nat) : (h.warn k).ptr = h.ptr := rfl
@[simp] theorem ptr_setKids (h : Heap) (p : Nat) (l : List Nat) : (setKids h p l).ptr = h.ptr := rfl
@[simp] theorem ptr_setParent (h : Heap) (x : Nat) (q : Option Nat) : (setParent h x q).ptr = h.ptr := rfl

@[simp] theorem ptr_addElement (h : Heap) (p e : Nat) (pos : Option Int) : (addElement h p e pos).ptr = h.ptr := by
  unfold addElement
  cases pos with
  | none => simp
  | some i => simp only; split <;> simp

@[simp] theorem ptr_removeElement (h : Heap) (p i : Nat) : (removeElement h p i).1.ptr = h.ptr := by
  simp only [removeElement]
  split <;> simp

@[simp] theorem ptr_moveElement (h : Heap) (p i idx : Nat) : (moveElement h p i idx).ptr = h.ptr := by
  have hrm := ptr_removeElement h p i
  unfold moveElement
  cases hr : removeElement h p i with
  | mk h1 o =>
    rw [hr] at hrm
    cases o <;> simpa using hrm

@[simp] theorem ptr_reorderStep (h : Heap) (p i : Nat) : (reorderStep h p i).ptr = h.ptr := by
  unfold reorderStep
  split
  · rfl
  · split
    · split
      · rfl
      · simp only [apply_ite Heap.ptr, ptr_moveElement, ite_self]
    · rfl

@[simp] theorem ptr_reorderLoop (h : Heap) (p : Nat) (l : List Nat) : (reorderLoop h p l).ptr = h.ptr := by
  induction l generalizing h with
  | nil => rfl
  | cons i is ih => simp [reorderLoop, ih]

@[simp] theorem ptr_reorder (h : Heap) (p : Nat) : (reorder h p).ptr = h.ptr := by simp [reorder]

@[simp] theorem ptr_initElems (h : Heap) (p : Nat) (l : List Item) : (initElems h p l).ptr = h.ptr := by
  induction l generalizing h with
  | nil => rfl
  | cons x r ih => cases x <;> simp [initElems, ih]

/-! ### one `add` of a node -/

/-- the store in which `linkProperties` runs when `e` is added to `p` at `pos` -/
def preLink (h : Heap) (p e : Nat) (pos : Option Int) : Heap := addElement (setParent h e (some p)) p e pos

theorem ptr_preLink (h : Heap) (p e : Nat) (pos : Option Int) : (preLink h p e pos).ptr = h.ptr := by
  simp [preLink]

/-- `Plan` made of pointer assignments only -/
def PurePlan (P : List Act) : Prop := ∀ a ∈ P, a.pure = true

instance : DecidablePred PurePlan := fun P => by unfold PurePlan; exact inferInstance

/-- one `linkProperties` run as an operation, on the pointer part -/
theorem linkR_ptr (h : Heap) (p : Nat) (P : List Act) (h' : Heap)
    (hp : plan h p = some P) (pure : PurePlan P) (hr : linkR h p = .ok h') : execP h.ptr P = .ok h'.ptr := by
  simp only [linkR, hp] at hr
  cases hloc : planLocal h p P with
  | false => simp [hloc] at hr
  | true =>
    simp only [hloc, Bool.not_true, Bool.false_eq_true, if_false] at hr
    have hx := exec_pure h P pure
    cases hq : execP h.ptr P with
    | error c => rw [hq] at hx; simp only at hx; rw [hx] at hr; simp at hr
    | ok q =>
      rw [hq] at hx
      simp only at hx
      rw [hx] at hr
      simp only [R.ok.injEq] at hr
      subst hr
      simp

/-- a successful link run was local -/
theorem linkR_local (h : Heap) (p : Nat) (h' : Heap) (hr : linkR h p = .ok h') :
    ∃ P, plan h p = some P ∧ planLocal h p P = true ∧ exec h P = .ok h' := by
  unfold linkR at hr
  cases hp : plan h p with
  | none => simp [hp] at hr
  | some P =>
    simp only [hp] at hr
    cases hloc : planLocal h p P with
    | false => simp [hloc] at hr
    | true =>
      simp only [hloc, Bool.not_true, Bool.false_eq_true, if_false] at hr
      cases hx : exec h P with
      | error c => rw [hx] at hr; simp at hr
      | ok h2 => rw [hx] at hr; simp only [R.ok.injEq] at hr; subst hr; exact ⟨P, rfl, hloc, hx⟩

/-- successive link runs on the pointer part -/
def runPlans : Ptr → List (List Act) → Except Crash Ptr
  | q, [] => .ok q
  | q, P :: Ps =>
    match execP q P with
    | .error c => .error c
    | .ok q' => runPlans q' Ps

/-- `relinkUp fuel h x = .ok h'`, with the plans `Qs` of the link runs of the ancestors of `x` (nearest first) -/
inductive UpRuns : Nat → Heap → Nat → List (List Act) → Heap → Prop where
  | top {fuel : Nat} {h : Heap} {x : Nat} : (h.node x).parent = none → UpRuns (fuel + 1) h x [] h
  | up {fuel : Nat} {h h1 h2 : Heap} {x q : Nat} {P : List Act} {Qs : List (List Act)} :
      (h.node x).parent = some q → plan h q = some P → linkR h q = .ok h1 → UpRuns fuel h1 q Qs h2 →
      UpRuns (fuel + 1) h x (P :: Qs) h2

/-- a successful re-linking of the ancestors has such a description -/
theorem relinkUp_runs (fuel : Nat) (h : Heap) (x : Nat) (h' : Heap) (hr : relinkUp fuel h x = .ok h') :
    ∃ Qs, UpRuns fuel h x Qs h' := by
  induction fuel generalizing h x with
  | zero => simp [relinkUp] at hr
  | succ f ih =>
    simp only [relinkUp] at hr
    cases hpar : (h.node x).parent with
    | none => rw [hpar] at hr; simp only [R.ok.injEq] at hr; subst hr; exact ⟨[], UpRuns.top hpar⟩
    | some q =>
      rw [hpar] at hr
      simp only at hr
      cases hl : linkR h q with
      | crash c => rw [hl] at hr; simp at hr
      | outside => rw [hl] at hr; simp at hr
      | ok h1 =>
        rw [hl] at hr
        obtain ⟨Qs, u⟩ := ih h1 q hr
        cases hp : plan h q with
        | none => simp [linkR, hp] at hl
        | some P => exact ⟨P :: Qs, UpRuns.up hpar hp hl u⟩

theorem upRuns_ptr {fuel : Nat} {h h' : Heap} {x : Nat} {Qs : List (List Act)} (u : UpRuns fuel h x Qs h')
    (pure : ∀ Q ∈ Qs, PurePlan Q) : runPlans h.ptr Qs = .ok h'.ptr := by
  induction u with
  | top _ => rfl
  | up _ hp hl _ ih =>
    simp only [runPlans]
    rw [linkR_ptr _ _ _ _ hp (pure _ List.mem_cons_self) hl]
    exact ih (fun Q hQ => pure Q (List.mem_cons_of_mem _ hQ))

/-- adding the nodes `steps` one after the other to `p`; `Ps` = the plans of ALL the link runs, in order: for each step
    the run of `p` itself and then the runs of its ancestors -/
inductive Trace (p : Nat) : Heap → List (Nat × Option Int) → List (List Act) → Heap → Prop where
  | nil (h : Heap) : Trace p h [] [] h
  | cons {h hl hu h2 : Heap} {e : Nat} {pos : Option Int} {rest : List (Nat × Option Int)} {P : List Act}
      {Qs Ps : List (List Act)} :
      plan (preLink h p e pos) p = some P → linkR (preLink h p e pos) p = .ok hl →
      UpRuns (hl.n + 1) hl p Qs hu → Trace p (reorder hu p) rest Ps h2 →
      Trace p h ((e, pos) :: rest) (P :: Qs ++ Ps) h2

theorem runPlans_append (q : Ptr) (Ps Qs : List (List Act)) :
    runPlans q (Ps ++ Qs) = (match runPlans q Ps with | .error c => .error c | .ok q' => runPlans q' Qs) := by
  induction Ps generalizing q with
  | nil => simp [runPlans]
  | cons P Ps ih =>
    simp only [List.cons_append, runPlans]
    cases execP q P with
    | error c => rfl
    | ok q' => exact ih q'

theorem trace_ptr {p : Nat} {h h' : Heap} {steps : List (Nat × Option Int)} {Ps : List (List Act)}
    (tr : Trace p h steps Ps h') (pure : ∀ P ∈ Ps, PurePlan P) : runPlans h.ptr Ps = .ok h'.ptr := by
  induction tr with
  | nil h => rfl
  | @cons h0 hl0 hu0 h20 e pos rest P Qs Ps0 hp hl hu _ ih =>
    have pureP : PurePlan P := pure _ List.mem_cons_self
    have pureQ : ∀ Q ∈ Qs, PurePlan Q := fun Q hQ => pure Q (by simp [hQ])
    have pureR : ∀ Q ∈ Ps0, PurePlan Q := fun Q hQ => pure Q (by simp [hQ])
    have e1 := linkR_ptr _ _ _ _ hp pureP hl
    rw [ptr_preLink] at e1
    have e2 := upRuns_ptr hu pureQ
    have e3 := ih pureR
    rw [ptr_reorder] at e3
    show runPlans h0.ptr ((P :: Qs) ++ Ps0) = _
    rw [runPlans_append]
    simp only [runPlans, e1, e2, e3]

/-- a successful `add` of a node has such a description -/
theorem phraseAdd1_trace (h : Heap) (p e : Nat) (pos : Option Int) (h1 : Heap) (hr : phraseAdd1 h p e pos = .ok h1) :
    ∃ P Qs hl hu, plan (preLink h p e pos) p = some P ∧ linkR (preLink h p e pos) p = .ok hl ∧
      UpRuns (hl.n + 1) hl p Qs hu ∧ h1 = reorder hu p := by
  unfold phraseAdd1 at hr
  have hpre : addElement (setParent h e (some p)) p e pos = preLink h p e pos := rfl
  rw [hpre] at hr
  cases hl : linkR (preLink h p e pos) p with
  | crash c => rw [hl] at hr; simp at hr
  | outside => rw [hl] at hr; simp at hr
  | ok h2 =>
    rw [hl] at hr
    simp only at hr
    cases hu : relinkUp (h2.n + 1) h2 p with
    | crash c => rw [hu] at hr; simp at hr
    | outside => rw [hu] at hr; simp at hr
    | ok h3 =>
      rw [hu] at hr
      simp only [R.ok.injEq] at hr
      obtain ⟨Qs, u⟩ := relinkUp_runs _ _ _ _ hu
      cases hp : plan (preLink h p e pos) p with
      | none => simp [linkR, hp] at hl
      | some P => exact ⟨P, Qs, h2, h3, rfl, rfl, u, hr.symm⟩

/-- the constant writes of successive successful runs, each compiled in the state it actually starts from -/
def runW (q : Ptr) : List (List Act) → Option (List Wr)
  | [] => some []
  | P :: Ps =>
    match compile q {} P with
    | some (ws, none) =>
      match runW (applyW q ws) Ps with
      | some W => some (ws ++ W)
      | none => none
    | _ => none

theorem runW_sound (q : Ptr) (Ps : List (List Act)) (W : List Wr) (hw : runW q Ps = some W) :
    runPlans q Ps = .ok (applyW q W) := by
  induction Ps generalizing q W with
  | nil => simp [runW] at hw; subst hw; rfl
  | cons P Ps ih =>
    simp only [runW] at hw
    cases hc : compile q {} P with
    | none => rw [hc] at hw; simp at hw
    | some c =>
      obtain ⟨ws, r⟩ := c
      rw [hc] at hw
      cases r with
      | some cr => simp at hw
      | none =>
        simp only at hw
        cases hW : runW (applyW q ws) Ps with
        | none => rw [hW] at hw; simp at hw
        | some W2 =>
          rw [hW] at hw
          simp only [Option.some.injEq] at hw
          subst hw
          simp only [runPlans]
          rw [compile_run q P _ hc]
          simp only [finish]
          rw [ih _ _ hW, applyW_append]

/-- **absorption for a whole history.**  If every location written by the earlier link runs `Ps` is written again by the
    final run `P`, and `P` performs the same constant writes in the state the history reached as in the state `q` the
    history started from, then the result is the result of `P` alone. -/
theorem runs_absorbed (q : Ptr) (Ps : List (List Act)) (P : List Act) (W ws : List Wr)
    (hW : runW q Ps = some W) (hc : compile q {} P = some (ws, none))
    (stable : compile (applyW q W) {} P = some (ws, none)) (cover : ∀ l ∈ locs W, l ∈ locs ws) :
    runPlans q (Ps ++ [P]) = execP q P := by
  rw [runPlans_append, runW_sound q Ps W hW]
  simp only [runPlans]
  rw [compile_run _ P _ stable, compile_run q P _ hc]
  simp only [finish]
  rw [applyW_absorb q W ws cover]

end Pyrealb.Heap
