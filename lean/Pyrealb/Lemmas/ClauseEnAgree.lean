import Pyrealb.Lemmas.ClauseEnOrder
/-! When the two declarative linearisations coincide (C08, English half). -/
namespace Pyrealb.ClauseEn
set_option linter.unusedSimpArgs false

instance exceptDecEq {ε α} [DecidableEq ε] [DecidableEq α] : DecidableEq (Except ε α)
  | .ok a, .ok b => if h : a = b then isTrue (h ▸ rfl) else isFalse (fun e => h (Except.ok.inj e))
  | .error a, .error b => if h : a = b then isTrue (h ▸ rfl) else isFalse (fun e => h (Except.error.inj e))
  | .ok _, .error _ => isFalse (fun e => by cases e)
  | .error _, .ok _ => isFalse (fun e => by cases e)

/-- person and number of the subject of the clause: of the promoted object in a passive, of `it` when there is none -/
def subjAgrOf (sp : Spec) (pas : Bool) : Agr :=
  if pas then (match sp.obj with | some o => agrOfArg o | none => ⟨.p3, .s⟩) else agrOfArg sp.subj

def objHumanSpec (sp : Spec) : Bool :=
  match sp.obj with
  | some (.np a) => humanGender a.g
  | some (.pro a) => humanGender a.g
  | none => false

/-- side conditions under which the clause proper is the same in both notations:
    * a passive has a nominal subject, a nominal object and no other prepositional complement (else: "by me" / "by I",
      agreement with the demoted subject, `it` not inverted, promoted pronoun read before it is declined, by-phrase
      before/after the complements);
    * a prepositional question finds the same prepositional complement in both notations (the constituent notation
      only looks at the first one, the dependency notation at all of them): `questionPPPh = questionPPDep`;
    * a subject question is asked of a third-person-singular subject (else the two sides reset different features).
    (The clause proper of a tag question is the same in both notations; the tag itself is outside `Out.main`.) -/
def C08Cond (sp : Spec) (ty : Typ) : Bool :=
  (!ty.pas || (sp.pps.isEmpty && (match sp.obj with | some (.np _) => true | _ => false) &&
                (match sp.subj with | .np _ => true | _ => false))) &&
  (match ty.int with
   | none => true
   | some i =>
     (!i.isPPq || ty.pas || decide (questionPPPh i (ppArgs sp) = questionPPDep i (ppArgs sp))) &&
     (!(i == .wos || i == .was) || subjAgrOf sp ty.pas == ⟨.p3, .s⟩))

theorem front_eq_frontD (sj : ArgTok) (ws compl : List Tok) (hv : hasV ws = true)
    (hc : 2 ≤ ws.length ∨ headAlone ws = true) : front sj ws compl = frontD sj ws compl := by
  rw [frontD_eq sj ws compl hc]
  simp [front, hv]

theorem objHuman_obj (sp : Spec) : objHuman (sp.obj.map argTokOfObj) = objHumanSpec sp := by
  unfold objHuman objHumanSpec
  cases sp.obj with
  | none => rfl
  | some o => cases o <;> rfl

theorem questionPP_single (i : Int) (x : Str × ArgTok) : questionPPPh i [x] = questionPPDep i [x] := by
  obtain ⟨p, a⟩ := x
  by_cases h : prepQualifies i p = true <;> simp [questionPPPh, questionPPDep, h, intPrefix]

/-- under `C08Cond` the two linearisations are the same list (or both undefined) -/
theorem lin_agree (sp : Spec) (ty : Typ) (hc : C08Cond sp ty = true) : lin .phrase sp ty = lin .dep sp ty := by
  have hfr : ∀ i, ty.int = some i → i.fronting = true → ∀ sj compl,
      front sj (clauseWords sp ty) compl = frontD sj (clauseWords sp ty) compl := by
    intro i hi hf sj compl
    have hq : ty.questioned = true := by rw [questioned_eq ty i hi]; exact hf
    exact front_eq_frontD sj _ compl (hasV_of_questioned sp ty hq) (dep_front_cond sp.verb sp.t ty hq)
  unfold C08Cond at hc
  simp only [Bool.and_eq_true, Bool.or_eq_true, Bool.not_eq_true'] at hc
  obtain ⟨hpas, hint⟩ := hc
  obtain ⟨subj, verb, t, obj, pps⟩ := sp
  obtain ⟨neg, pas, perf, prog, contr, exc, md, i⟩ := ty
  cases pas
  · -- active
    cases i with
    | none => simp [lin, linDep, linPh, linDepPlain, midPh]
    | some i =>
      have hf := hfr i rfl
      simp only [Bool.and_eq_true, Bool.or_eq_true, Bool.not_eq_true', decide_eq_true_eq] at hint
      obtain ⟨hppq, hwos⟩ := hint
      cases i
      case woi | wai | whe | whn =>
        have he := hppq
        simp [Int.isPPq] at he
        simp [lin, linDep, linPh, linDepPlain, midPh, he, hf (by rfl)]
      case wod =>
        simp [lin, linDep, linPh, linDepPlain, midPh, hf (by rfl), Gen.ClauseEn.phraseHumanObjectGetsIntValue,
          Gen.ClauseEn.depHumanObjectGetsIntValue]
      case tag => simp [lin, linDep, linPh, linDepPlain, midPh]
      case wos | was => simp [lin, linDep, linPh, linDepPlain, midPh]
      all_goals simp [lin, linDep, linPh, linDepPlain, midPh, hf (by rfl)]
  · -- passive: nominal subject and object, no other prepositional complement
    simp only [Bool.true_eq_false, false_or, List.isEmpty_iff] at hpas
    obtain ⟨⟨hpp, hobj⟩, hsubj⟩ := hpas
    subst hpp
    cases obj with
    | none => simp at hobj
    | some o =>
      cases o with
      | pro a => simp at hobj
      | np a =>
        cases subj with
        | pro b => simp at hsubj
        | np b =>
          cases i with
          | none => simp [lin, linDep, linPh, linDepPlain, midPh, ppArgs, byArg, demote, argTokOfSubj]
          | some i =>
            have hf := hfr i rfl
            simp only [Bool.and_eq_true, Bool.or_eq_true, Bool.not_eq_true', decide_eq_true_eq] at hint
            obtain ⟨hppq, hwos⟩ := hint
            cases i
            case woi | wai | whe | whn =>
              simp [lin, linDep, linPh, linDepPlain, midPh, hf (by rfl), ppArgs, byArg, demote, argTokOfSubj,
                questionPP_single]
            case tag => simp [lin, linDep, linPh, linDepPlain, midPh, ppArgs, byArg, demote, argTokOfSubj]
            case wos | was => simp [lin, linDep, linPh, linDepPlain, midPh, ppArgs, byArg, demote, argTokOfSubj]
            case wod =>
              simp [lin, linDep, linPh, linDepPlain, midPh, hf (by rfl), ppArgs, byArg, demote, argTokOfSubj, objHuman,
                Gen.ClauseEn.phraseHumanObjectGetsIntValue]
            all_goals
              simp [lin, linDep, linPh, linDepPlain, midPh, hf (by rfl), ppArgs, byArg, demote, argTokOfSubj]

end Pyrealb.ClauseEn
