import Pyrealb.Lemmas.ElisionStep
/-! The induction over the French pass: under `TokWF`, the backward clauses and the `Tame` side conditions of
    the input, `goFr` does not raise and leaves every adjacent pair settled. -/
namespace Pyrealb.Elision
open Pyrealb Pyrealb.Gen.Elision

/-- the rewritten head keeps groups 1 and 3 and its vowel / mute-h status -/
theorem Rew_view (t h : Tok) (nxt : Option Tok) (v : View) (hr : Rew t nxt h) (hv : view .fr t = some v) :
    ∃ vh, view .fr h = some vh ∧ vh.rest = v.rest ∧ vowelOrMuteH vh.w h = vowelOrMuteH v.w t := by
  cases hr with
  | inl e => subst e; exact ⟨v, hv, rfl, rfl⟩
  | inr e =>
    obtain ⟨v', w', hv', eh, kind⟩ := e
    rw [hv] at hv'
    cases hv'
    subst eh
    have wd := (view_wd _ _ _ hv).2
    rcases kind with ⟨hE, rfl⟩ | ⟨hE, hres⟩ | ⟨t3, v3, _, _, hc, _, _⟩
    · refine ⟨_, view_setReal _ _ _ hv _ (elidedOf_ne_nil _) (wd_elidedOf _ wd), rfl, ?_⟩
      rw [vowelOrMuteH_false_of_EE v.w t hE]
      exact vowelOrMuteH_elidedOf _ _ hE
    · have g := fact_euph_values _ hres
      refine ⟨_, view_setReal _ _ _ hv _ g.1 (by simpa [List.all_eq_true] using g.2.1), rfl, ?_⟩
      rw [vowelOrMuteH_false_of_EE v.w t hE]
      have e1 := g.2.2.2.2.2.2.2.1 t.hW (mem_allH _)
      simp [vowelOrMuteH_eq, e1, isOkTrue]
    · have tr := contrFr_triple _ _ _ (noPlus_of_wd _ wd) hc
      have g := fact_triples _ tr
      refine ⟨_, view_setReal _ _ _ hv _ g.2.2.2.2.2.2.2.1 (by simpa [List.all_eq_true] using g.2.2.2.2.2.2.2.2), rfl, ?_⟩
      apply vowelOrMuteH_congr
      have e1 := g.2.2.2.2.2.1 t.hW (mem_allH _)
      simp only [] at e1
      simpa using e1

theorem Rew.ct {t nxt h} (hr : Rew t nxt h) : h.ct = t.ct := by
  cases hr with
  | inl e => rw [e]
  | inr e => obtain ⟨v, w', _, e, _⟩ := e; rw [e]; rfl

theorem Rew.sg {t nxt h} (hr : Rew t nxt h) : h.sg = t.sg := by
  cases hr with
  | inl e => rw [e]
  | inr e => obtain ⟨v, w', _, e, _⟩ := e; rw [e]; rfl

theorem Rew_view_none (t h : Tok) (nxt : Option Tok) (hr : Rew t nxt h) (hv : view .fr t = none) : h = t := by
  cases hr with
  | inl e => exact e
  | inr e => obtain ⟨v, _, hv', _, _⟩ := e; rw [hv] at hv'; cases hv'

def HeadOK : List Tok → List Tok → Prop
  | [], [] => True
  | t :: r, h :: _ => Rew t r.head? h
  | _, _ => False

theorem bwdFrom_tail (pl : Bool) (t : Tok) (r : List Tok) (h : bwdFromFr pl (t :: r) = true) :
    bwdFromFr t.lier r = true := by
  cases r with
  | nil => rfl
  | cons x r' =>
    simp only [bwdFromFr, Bool.and_eq_true] at h
    exact h.2

theorem tameFrom_tail (pl : Bool) (t : Tok) (r : List Tok) (h : tameFromFr pl (t :: r) = true) :
    tameFromFr t.lier r = true := by
  cases r with
  | nil => rfl
  | cons x r' =>
    simp only [tameFromFr, Bool.and_eq_true] at h
    exact h.2

/-- the pair settled by the look-ahead: `l'` + a word that the raw test accepted -/
theorem ahead_pairOK (t2 t3 b h3 : Tok) (t3' : Option Tok) (nxt : Option Tok) (w3 : tokWF t3 = true)
    (ha : AheadCase t2 t3' b) (e3 : t3' = some t3) (hr : Rew t3 nxt h3) : pairOKFr b h3 = true := by
  obtain ⟨v2, t, x3, hv2, hel, hb, e, hx, hok⟩ := ha
  rw [e3] at e; cases e
  have wd2 := (view_wd _ _ _ hv2).2
  have hE := mem_EE_of_elidable _ hel
  have hvb := view_setReal _ _ _ hv2 _ (elidedOf_ne_nil v2.w) (wd_elidedOf _ wd2)
  rw [← hb] at hvb
  obtain ⟨v3, hv3, hh⟩ := view_of_raw t3 x3 hx hok
  obtain ⟨_, _, hR⟩ := tokWF_spec t3 w3
  have V3 : vowelOrMuteH v3.w t3 = true := by
    rw [vowelOrMuteH_eq, hh, ← hR, ← elidableNext_eq, hok]; rfl
  obtain ⟨vh, hvh, _, hV⟩ := Rew_view t3 h3 nxt v3 hr hv3
  rw [V3] at hV
  have := clauses_after_elision v2.w vh.w b.sg (h3.ct == ['D']) h3.fr hE wd2
  simp only [pairOKFr, hvb, hvh, hV, this, Bool.or_true]

theorem goFr_settles : ∀ (n : Nat) (toks : List Tok) (pl : Bool), toks.length ≤ n → TokWF toks →
    bwdFromFr pl toks = true → tameFromFr pl toks = true →
    ∃ out, goFr pl toks = .ok out ∧ settledFrom .fr pl out = true ∧ HeadOK toks out ∧
      (LastFresh toks → LastFresh out) := by
  intro n
  induction n with
  | zero =>
    intro toks pl hlen _ _ _
    have : toks = [] := List.length_eq_zero_iff.mp (Nat.le_zero.mp hlen)
    subst this
    exact ⟨[], rfl, rfl, trivial, id⟩
  | succ n ih =>
    intro toks pl hlen hwf hbwd htame
    match toks, hlen, hwf, hbwd, htame with
    | [], _, _, _, _ => exact ⟨[], rfl, rfl, trivial, id⟩
    | [t], _, _, _, _ => exact ⟨[t], rfl, rfl, Or.inl rfl, id⟩
    | t1 :: t2 :: rest, hlen, hwf, hbwd, htame =>
      have w1 : tokWF t1 = true := hwf t1 (by simp)
      have w2 : tokWF t2 = true := hwf t2 (by simp)
      have wfTail : TokWF (t2 :: rest) := fun t ht => hwf t (List.mem_cons_of_mem _ ht)
      have wfRest : TokWF rest := fun t ht => hwf t (List.mem_cons_of_mem _ (List.mem_cons_of_mem _ ht))
      have w3 : ∀ t, rest.head? = some t → tokWF t = true := by
        intro t ht
        apply wfRest
        cases rest with
        | nil => simp at ht
        | cons x r => simp at ht; simp [ht]
      have bTail := bwdFrom_tail pl t1 (t2 :: rest) hbwd
      have tTail := tameFrom_tail pl t1 (t2 :: rest) htame
      have len1 : (t2 :: rest).length ≤ n := by simp at hlen ⊢; omega
      have len2 : rest.length ≤ n := by simp at hlen ⊢; omega
      obtain ⟨l, hgo1, hset1, hhead1, hlast1⟩ := ih (t2 :: rest) t1.lier len1 wfTail bTail tTail
      -- the recursive output starts with a rewriting of t2
      obtain ⟨h2, l', rfl, hrew2⟩ : ∃ h2 l', l = h2 :: l' ∧ Rew t2 rest.head? h2 := by
        cases l with
        | nil => exact absurd hhead1 (by simp [HeadOK])
        | cons h2 l' => exact ⟨h2, l', rfl, hhead1⟩
      -- the last token of `t1 :: (recursive output)`
      have lastKeep : LastFresh (t1 :: t2 :: rest) → LastFresh (t1 :: h2 :: l') := by
        intro hl t ht
        apply hlast1 (fun t' ht' => hl t' (by simpa [List.getLast?_cons_cons] using ht')) t
        simpa [List.getLast?_cons_cons] using ht
      cases pl with
      | true =>
        refine ⟨t1 :: h2 :: l', ?_, ?_, Or.inl rfl, lastKeep⟩
        · simp [goFr, hgo1]
        · simp [settledFrom, hset1]
      | false =>
        simp only [bwdFromFr, tameFromFr, Bool.false_or, Bool.and_eq_true] at hbwd htame
        rcases stepFr_sound t1 t2 rest.head? w1 w2 w3 hbwd.1 htame.1 with
          ⟨hst, hok⟩ | ⟨a, hst, hone⟩ | ⟨a, b, hst, hout⟩
        · refine ⟨t1 :: h2 :: l', ?_, ?_, Or.inl rfl, lastKeep⟩
          · simp [goFr, hst, hgo1]
          · have := pairOK_transfer t1 t2 h2 rest.head? hrew2 hok (noNewContr_of_tame _ _ _ htame.1)
            simp [settledFrom, pairOK, this, hset1]
        · -- elision / euphony: token i rewritten, the loop goes on with the pair (t2, t3)
          obtain ⟨hrewA, hokA, va, hva, hinert⟩ := hone
          have hal : a.lier = t1.lier := hrewA.lier
          refine ⟨a :: h2 :: l', ?_, ?_, hrewA, ?_⟩
          · simp [goFr, hst, hgo1]
          · have := pairOK_transfer a t2 h2 rest.head? hrew2 hokA (noNewContr_of_inert a t2 _ va hva hinert)
            simp [settledFrom, pairOK, this, hal, hset1]
          · intro hl t ht
            apply hlast1 (fun t' ht' => hl t' (by simpa [List.getLast?_cons_cons] using ht')) t
            simpa [List.getLast?_cons_cons] using ht
        · obtain ⟨hrewA, hbl, hokab, hcase⟩ := hout
          have bRest := bwdFrom_tail t1.lier t2 rest bTail
          have tRest := tameFrom_tail t1.lier t2 rest tTail
          obtain ⟨l3, hgo3, hset3, hhead3, hlast3⟩ := ih rest t2.lier len2 wfRest bRest tRest
          refine ⟨a :: b :: l3, ?_, ?_, hrewA, ?_⟩
          · simp [goFr, hst, hgo3]
          · cases l3 with
            | nil => simp [settledFrom, pairOK, hokab]
            | cons h3 l3' =>
              -- rest = t3 :: r3 and h3 rewrites t3
              cases rest with
              | nil => exact absurd hhead3 (by simp [HeadOK])
              | cons t3 r3 =>
                have hrew3 : Rew t3 r3.head? h3 := hhead3
                have hjump : (a.lier || pairOKFr b h3) = true := by
                  rcases hcase with hnone | hahead
                  · simp [(view_none_pairOK b hnone h3).1]
                  · have w3' : tokWF t3 = true := w3 t3 rfl
                    simp [ahead_pairOK t2 t3 b h3 (some t3) r3.head? w3' hahead rfl hrew3]
                simp only [settledFrom, pairOK, hokab, Bool.or_true, Bool.true_and, Bool.and_eq_true]
                refine ⟨by simpa using hjump, ?_⟩
                rw [hbl]; exact hset3
          · -- the last token
            intro hl t ht
            cases l3 with
            | nil =>
              cases rest with
              | cons t3 r3 => exact absurd hhead3 (by simp [HeadOK])
              | nil =>
                have e : t = b := by simpa [List.getLast?_cons_cons] using ht.symm
                subst e
                rcases hcase with hnone | hahead
                · simp [freshTok, hnone]
                · obtain ⟨_, _, _, _, _, _, e3, _⟩ := hahead
                  simp at e3
            | cons h3 l3' =>
              apply hlast3 _ t (by simpa [List.getLast?_cons_cons] using ht)
              cases rest with
              | nil => exact absurd hhead3 (by simp [HeadOK])
              | cons t3 r3 =>
                intro t' ht'
                exact hl t' (by simpa [List.getLast?_cons_cons] using ht')

end Pyrealb.Elision
