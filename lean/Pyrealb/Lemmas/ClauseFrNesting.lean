import Pyrealb.Model.ClauseFrRealize
/-! The verb chain built by `processTyp` (constituent notation): passive, progressive and modality each put ONE new
    verb in front, which takes over the tense, and turn the former first verb into a participle / infinitive —
    whatever complements follow. -/
namespace Pyrealb.ClauseFr
open Pyrealb
open Pyrealb.Gen.ClauseFr

/-- lemma and tense of the verbs of an element list, in order -/
def verbChain (l : List El) : List (Str × Tense) :=
  l.filterMap (fun e => match e with | .v x => some (x.lex.lemma, x.t) | _ => none)

theorem verbChain_cons_v (x : VT) (l : List El) : verbChain (.v x :: l) = (x.lex.lemma, x.t) :: verbChain l := rfl

theorem verbChain_cons_nonV (e : El) (l : List El) (h : e.isV = false) : verbChain (e :: l) = verbChain l := by
  cases e <;> simp_all [verbChain, El.isV]

theorem verbChain_pyInsert (k : Nat) (e : El) (l : List El) (h : e.isV = false) :
    verbChain (pyInsert k e l) = verbChain l := by
  induction k generalizing l with
  | zero => simp [pyInsert, verbChain_cons_nonV e l h]
  | succ k ih =>
    cases l with
    | nil => simp [pyInsert, verbChain_cons_nonV e [] h]
    | cons a r =>
      simp only [pyInsert]
      cases a <;> simp [verbChain, ih] <;> exact ih r

theorem verbChain_eraseIdx (l : List El) (i : Nat) (h : ∀ e, l[i]? = some e → e.isV = false) :
    verbChain (l.eraseIdx i) = verbChain l := by
  induction l generalizing i with
  | nil => rfl
  | cons a r ih =>
    cases i with
    | zero =>
      have := h a rfl
      simp [List.eraseIdx, verbChain_cons_nonV a r this]
    | succ j =>
      have hj : ∀ e, r[j]? = some e → e.isV = false := fun e he => h e (by simpa using he)
      simp only [List.eraseIdx]
      cases a <;> simp [verbChain, ih j hj] <;> exact ih j hj

theorem firstIdx_getElem {α} (p : α → Bool) (l : List α) (i : Nat) (h : firstIdx p l = some i) :
    ∃ e, l[i]? = some e ∧ p e = true := by
  induction l generalizing i with
  | nil => simp [firstIdx] at h
  | cons a r ih =>
    unfold firstIdx at h
    split at h
    · cases h; exact ⟨a, rfl, ‹_›⟩
    · simp only [Option.map_eq_some_iff] at h
      obtain ⟨j, hj, rfl⟩ := h
      obtain ⟨e, he, hp⟩ := ih j hj
      exact ⟨e, by simpa using he, hp⟩

theorem auxVerbs_lemma_tbl : ∀ p ∈ auxVerbs, p.2.lemma = p.1 := by decide

theorem auxLex_lemma (lemma : Str) (l : VerbLex) (h : auxLex lemma = .ok l) : l.lemma = lemma := by
  unfold auxLex at h
  cases hl : lookup lemma auxVerbs with
  | none => simp [hl] at h
  | some l' =>
    simp only [hl, Except.ok.injEq] at h
    subst h
    -- lookup returns an entry of the table
    have : ∀ (tb : List (Str × VerbLex)), (∀ p ∈ tb, p.2.lemma = p.1) → lookup lemma tb = some l' → l'.lemma = lemma := by
      intro tb htb
      induction tb with
      | nil => simp [lookup]
      | cons p r ih =>
        obtain ⟨k, v⟩ := p
        unfold lookup
        split
        · rename_i hk
          intro hv
          simp only [Option.some.injEq] at hv
          subst hv
          have := htb (k, v) List.mem_cons_self
          simp_all
        · exact ih (fun q hq => htb q (List.mem_cons_of_mem _ hq))
    exact this auxVerbs auxVerbs_lemma_tbl hl

/-- **progressive**: « être » takes the tense, the former first verb follows as an infinitive -/
theorem prog_chain (v : VT) (rest l : List El) (h : progPhrase (.v v :: rest) = .ok l) :
    ∃ x r, l = .v x :: r ∧ x.lex.lemma = progAux ∧ x.t = v.t ∧ verbChain r = (v.lex.lemma, .b) :: verbChain rest := by
  unfold progPhrase at h
  simp only [firstIdx, El.isV, if_true, List.getElem?_cons_zero, bind, Except.bind] at h
  cases ha : auxLex progAux with
  | error e => simp [ha] at h
  | ok lx =>
    have hlem := auxLex_lemma progAux lx ha
    simp only [ha, List.eraseIdx_cons_zero, prosBefore, List.take_zero, List.reverse_nil, prosBefore.go, Nat.sub_zero,
      Nat.zero_add, pyInsert, pure, Except.pure] at h
    split at h
    · simp only [Except.ok.injEq] at h
      subst h
      exact ⟨_, _, rfl, by simp [VT.setLemma, hlem], by simp [VT.setLemma], by simp [verbChain, mkV, pyInsert]⟩
    · rename_i hlen
      simp [pyInsert] at hlen

/-- **modality**: the modality verb takes the tense, the former first verb follows as an infinitive -/
theorem mod_chain (m : Str) (v : VT) (rest l : List El) (ml : Str) (hm : modalLemma m = some ml)
    (h : modPhrase m (.v v :: rest) = .ok l) :
    ∃ x r, l = .v x :: r ∧ x.lex.lemma = ml ∧ x.t = v.t ∧ verbChain r = (v.lex.lemma, .b) :: verbChain rest := by
  unfold modPhrase at h
  simp only [firstIdx, El.isV, if_true, List.getElem?_cons_zero, bind, Except.bind, hm] at h
  cases ha : auxLex ml with
  | error e => simp [ha] at h
  | ok lx =>
    have hlem := auxLex_lemma ml lx ha
    simp only [ha, pure, Except.pure, prosBefore, List.take_zero, List.reverse_nil, prosBefore.go, ne_eq,
      not_true_eq_false, if_false, List.set_cons_zero, Nat.zero_add, List.length_cons] at h
    split at h
    · simp only [Except.ok.injEq] at h
      subst h
      exact ⟨_, _, rfl, by simp [VT.setLemma, hlem], by simp [VT.setLemma], by simp [verbChain, mkV, pyInsert]⟩
    · rename_i hlen
      simp at hlen

end Pyrealb.ClauseFr

namespace Pyrealb.ClauseFr
open Pyrealb
open Pyrealb.Gen.ClauseFr

theorem auxLex_avoir : auxLex avoir = .ok verb_avoir := by rfl
theorem auxLex_etre : auxLex etre = .ok verb_etre := by rfl
theorem verb_avoir_lemma : verb_avoir.lemma = avoir := by decide
theorem verb_etre_lemma : verb_etre.lemma = etre := by decide

/-- **passive, auxiliary**: « être » (« avoir » for être) takes the tense — the present subjunctive for an imperative —
    and the former first verb follows as a participle -/
theorem passiveAux_chain (ns : Option El) (wo : Bool) (v : VT) (rest l : List El)
    (h : passiveAux ns wo (.v v :: rest) = .ok l) :
    ∃ x r, l = .v x :: r ∧ x.lex.lemma = (if v.lex.lemma = etre then avoir else etre) ∧
      x.t = (if v.t = .ip then .s else v.t) ∧ verbChain r = (v.lex.lemma, .pp) :: verbChain rest := by
  unfold passiveAux at h
  simp only [auxLex_avoir, auxLex_etre, bind, Except.bind, firstIdx, El.isV, if_true, List.getElem?_cons_zero,
    List.eraseIdx_cons_zero, pyInsert, pure, Except.pure, Except.ok.injEq] at h
  subst h
  refine ⟨_, _, rfl, ?_, ?_, ?_⟩
  · by_cases h1 : v.lex.lemma = etre <;> by_cases h2 : v.t = .ip <;> cases ns <;>
      simp [h1, h2, verb_avoir_lemma, verb_etre_lemma]
  · by_cases h2 : v.t = .ip <;> cases ns <;> simp [h2]
  · cases ns <;> simp [verbChain, mkV]

theorem firstIdx_cons_false {α} (p : α → Bool) (a : α) (l : List α) (h : p a = false) :
    firstIdx p (a :: l) = (firstIdx p l).map (· + 1) := by
  simp [firstIdx, h]

/-- **passive, swap**: the first verb stays first (same lemma, same tense) and no verb is added or removed behind it -/
theorem passiveSwap_head (sel rest : List El) (v : VT) :
    ∃ v' rest', (passiveSwap sel (.v v :: rest)).2.2.1 = .v v' :: rest' ∧ v'.lex = v.lex ∧ v'.t = v.t ∧
      verbChain rest' = verbChain rest := by
  unfold passiveSwap
  rw [firstIdx_cons_false El.isNPorPro (.v v) rest rfl]
  cases ho : firstIdx El.isNPorPro rest with
  | some oi =>
    obtain ⟨e, he, hpe⟩ := firstIdx_getElem El.isNPorPro rest oi ho
    have heV : e.isV = false := by cases e <;> simp_all [El.isNPorPro, El.isV]
    have herase : verbChain (rest.eraseIdx oi) = verbChain rest :=
      verbChain_eraseIdx rest oi (fun e' he' => by rw [he] at he'; cases he'; exact heV)
    simp only [Option.map_some, List.eraseIdx_cons_succ, List.getElem?_cons_succ, he]
    -- whatever the object is, the « par » phrase (if any) is inserted at a position ≥ 1
    cases e with
    | pro p =>
      simp only [Nat.add_eq_zero_iff, Nat.succ_ne_zero, and_false, if_false]
      split
      · rename_i s _
        refine ⟨v, pyInsert oi (.pp par s.inner false) (rest.eraseIdx oi), by simp [pyInsert], rfl, rfl, ?_⟩
        rw [verbChain_pyInsert _ _ _ rfl, herase]
      · exact ⟨v, rest.eraseIdx oi, rfl, rfl, rfl, herase⟩
    | np a =>
      split
      · rename_i s _
        refine ⟨v, pyInsert oi (.pp par s.inner false) (rest.eraseIdx oi), by simp [pyInsert], rfl, rfl, ?_⟩
        rw [verbChain_pyInsert _ _ _ rfl, herase]
      · exact ⟨v, rest.eraseIdx oi, rfl, rfl, rfl, herase⟩
    | _ => simp [El.isNPorPro] at hpe
  | none =>
    simp only [Option.map_none]
    split
    · simp only [firstIdx, El.isV, if_true, List.getElem?_cons_zero, List.set_cons_zero, Nat.zero_add, pyInsert]
      exact ⟨_, _, rfl, rfl, rfl, verbChain_cons_nonV _ _ rfl⟩
    · exact ⟨v, rest, rfl, rfl, rfl, rfl⟩

/-- **passive**: être + participle, for any S elements and any complements behind the verb -/
theorem pas_chain (sel rest sel' l : List El) (v : VT) (hvp : sel.any El.isVP = true)
    (h : passivatePhrase sel (.v v :: rest) = .ok (sel', l)) :
    ∃ x r, l = .v x :: r ∧ x.lex.lemma = (if v.lex.lemma = etre then avoir else etre) ∧
      x.t = (if v.t = .ip then .s else v.t) ∧ verbChain r = (v.lex.lemma, .pp) :: verbChain rest := by
  unfold passivatePhrase at h
  simp only [hvp, not_true_eq_false, if_false, bind, Except.bind, pure, Except.pure] at h
  obtain ⟨v', rest', hsw, hlex, ht, hch⟩ := passiveSwap_head sel rest v
  rw [hsw] at h
  cases ha : passiveAux (passiveSwap sel (.v v :: rest)).1 (passiveSwap sel (.v v :: rest)).2.2.2 (.v v' :: rest') with
  | error e => simp [ha] at h
  | ok l' =>
    simp only [ha, Except.ok.injEq, Prod.mk.injEq] at h
    obtain ⟨x, r, hl, h1, h2, h3⟩ := passiveAux_chain _ _ v' rest' l' ha
    exact ⟨x, r, by rw [← h.2, hl], by rw [h1, hlex], by rw [h2, ht], by rw [h3, hlex, hch]⟩

end Pyrealb.ClauseFr
