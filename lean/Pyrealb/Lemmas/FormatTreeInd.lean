import Pyrealb.Lemmas.FormatTree
/-! Induction over the realization tree (mutual structural recursion on `Tree`/`Forest`) for the tag clauses of C10. -/
namespace Pyrealb.Format

mutual
  /-- no `tag` option anywhere in the subtree -/
  def Tree.tagFree : Tree → Bool
    | .leaf _ o => (optList o.tags).isEmpty
    | .node o kids => (optList o.tags).isEmpty && kids.tagFree
  def Forest.tagFree : Forest → Bool
    | .nil => true
    | .cons t f => t.tagFree && f.tagFree
end

mutual
  /-- the same tree without its `tag` options -/
  def Tree.erase : Tree → Tree
    | .leaf t o => .leaf t (eraseOpts o)
    | .node o kids => .node (eraseOpts o) kids.erase
  def Forest.erase : Forest → Forest
    | .nil => .nil
    | .cons t f => .cons t.erase f.erase
end

mutual
  /-- well-formed input: leaf texts, sign strings, tag names and attributes free of angle brackets, signs that
      resolve; `cap(True)` / `poss` only above tag-free subtrees (`str.capitalize` is applied to the whole first
      token, tags included) -/
  def Tree.OK (tb : Tables) : Tree → Prop
    | .leaf t o => AngleFree t.real ∧ OptsOK tb o
    | .node o kids => OptsOK tb o ∧ kids.OK tb ∧ ((o.cap = .t ∨ o.poss = true) → kids.tagFree = true)
  def Forest.OK (tb : Tables) : Forest → Prop
    | .nil => True
    | .cons t f => t.OK tb ∧ f.OK tb
end

mutual
  /-- well-formed input without the side condition on `cap(True)` / `poss` (the full clauses quantify over these) -/
  def Tree.WF (tb : Tables) : Tree → Prop
    | .leaf t o => AngleFree t.real ∧ OptsOK tb o
    | .node o kids => OptsOK tb o ∧ kids.WF tb
  def Forest.WF (tb : Tables) : Forest → Prop
    | .nil => True
    | .cons t f => t.WF tb ∧ f.WF tb
end

theorem eraseOpts_id (o : Opts) (h : (optList o.tags).isEmpty = true) (tb : Tables) (cm : CaseMap) (l : List Tok) :
    doFormat tb cm (eraseOpts o) id l = doFormat tb cm o id l := by
  have : optList o.tags = [] := by simpa using h
  have e1 : optList (eraseOpts o).tags = optList o.tags := by rw [this]; rfl
  unfold doFormat formatCore
  rw [e1]
  rfl

mutual
  theorem Tree.erase_real (tb : Tables) (cm : CaseMap) : ∀ t : Tree, t.tagFree = true →
      t.erase.real tb cm = t.real tb cm
    | .leaf t o, h => by
      simp only [Tree.tagFree] at h
      simp only [Tree.erase, Tree.real]
      exact eraseOpts_id o h tb cm _
    | .node o .nil, _ => by simp [Tree.erase, Forest.erase, Tree.real]
    | .node o (.cons k ks), h => by
      simp only [Tree.tagFree, Bool.and_eq_true] at h
      have := Forest.erase_real tb cm (.cons k ks) h.2
      simp only [Tree.erase, Forest.erase, Tree.real] at this ⊢
      rw [this]
      cases (Forest.cons k ks).real tb cm with
      | error e => rfl
      | ok l => simp only [ex_bind_ok]; exact eraseOpts_id o h.1 tb cm l
  theorem Forest.erase_real (tb : Tables) (cm : CaseMap) : ∀ f : Forest, f.tagFree = true →
      f.erase.real tb cm = f.real tb cm
    | .nil, _ => rfl
    | .cons t f, h => by
      simp only [Forest.tagFree, Bool.and_eq_true] at h
      simp only [Forest.erase, Forest.real, Tree.erase_real tb cm t h.1, Forest.erase_real tb cm f h.2]
end

mutual
  /-- a tag-free subtree yields tokens free of angle brackets -/
  theorem Tree.real_af (tb : Tables) (cm : CaseMap) (hcm : AngOK cm) : ∀ (t : Tree) (toks : List Tok),
      t.OK tb → t.tagFree = true → t.real tb cm = .ok toks → TokAF toks
    | .leaf t o, toks, hok, htf, h => by
      simp only [Tree.OK] at hok
      simp only [Tree.tagFree] at htf
      simp only [Tree.real] at h
      exact fmt_step_af tb cm hcm o hok.2 (by simpa using htf) [t] toks (by intro u hu; simp at hu; subst hu; exact hok.1) h
    | .node o .nil, toks, _, _, h => by
      simp only [Tree.real] at h; cases h; intro u hu; cases hu
    | .node o (.cons k ks), toks, hok, htf, h => by
      simp only [Tree.OK] at hok
      simp only [Tree.tagFree, Bool.and_eq_true] at htf
      simp only [Tree.real] at h
      cases hk : (Forest.cons k ks).real tb cm with
      | error e => rw [hk] at h; cases h
      | ok l =>
        rw [hk] at h
        simp only [ex_bind_ok] at h
        exact fmt_step_af tb cm hcm o hok.1 (by simpa using htf.1) l toks
          (Forest.real_af tb cm hcm (.cons k ks) l hok.2.1 htf.2 hk) h
  theorem Forest.real_af (tb : Tables) (cm : CaseMap) (hcm : AngOK cm) : ∀ (f : Forest) (toks : List Tok),
      f.OK tb → f.tagFree = true → f.real tb cm = .ok toks → TokAF toks
    | .nil, toks, _, _, h => by simp only [Forest.real] at h; cases h; intro u hu; cases hu
    | .cons t f, toks, hok, htf, h => by
      simp only [Forest.OK] at hok
      simp only [Forest.tagFree, Bool.and_eq_true] at htf
      simp only [Forest.real] at h
      cases ht : t.real tb cm with
      | error e => rw [ht] at h; cases h
      | ok a =>
        cases hf : f.real tb cm with
        | error e => rw [ht, hf] at h; cases h
        | ok b =>
          rw [ht, hf] at h
          simp only [ex_bind_ok, ex_pure] at h
          cases h
          intro u hu
          rcases List.mem_append.mp hu with hu | hu
          · exact Tree.real_af tb cm hcm t a hok.1 htf.1 ht u hu
          · exact Forest.real_af tb cm hcm f b hok.2 htf.2 hf u hu
end

mutual
  /-- the concatenated text of the tokens of a well-formed tree is balanced and properly nested -/
  theorem Tree.real_bal (tb : Tables) (cm : CaseMap) (hcm : AngOK cm) : ∀ (t : Tree) (toks : List Tok),
      t.OK tb → t.real tb cm = .ok toks → Bal (flat toks)
    | .leaf t o, toks, hok, h => by
      simp only [Tree.OK] at hok
      simp only [Tree.real] at h
      exact fmt_step_bal tb cm hcm o hok.2 [t] toks (by simpa using Bal.text hok.1)
        (fun _ => by intro u hu; simp at hu; subst hu; exact hok.1) h
    | .node o .nil, toks, _, h => by
      simp only [Tree.real] at h; cases h; exact Bal.text AngleFree.nil
    | .node o (.cons k ks), toks, hok, h => by
      simp only [Tree.OK] at hok
      simp only [Tree.real] at h
      cases hk : (Forest.cons k ks).real tb cm with
      | error e => rw [hk] at h; cases h
      | ok l =>
        rw [hk] at h
        simp only [ex_bind_ok] at h
        exact fmt_step_bal tb cm hcm o hok.1 l toks (Forest.real_bal tb cm hcm (.cons k ks) l hok.2.1 hk)
          (fun hc => Forest.real_af tb cm hcm (.cons k ks) l hok.2.1 (hok.2.2 hc) hk) h
  theorem Forest.real_bal (tb : Tables) (cm : CaseMap) (hcm : AngOK cm) : ∀ (f : Forest) (toks : List Tok),
      f.OK tb → f.real tb cm = .ok toks → Bal (flat toks)
    | .nil, toks, _, h => by simp only [Forest.real] at h; cases h; exact Bal.text AngleFree.nil
    | .cons t f, toks, hok, h => by
      simp only [Forest.OK] at hok
      simp only [Forest.real] at h
      cases ht : t.real tb cm with
      | error e => rw [ht] at h; cases h
      | ok a =>
        cases hf : f.real tb cm with
        | error e => rw [ht, hf] at h; cases h
        | ok b =>
          rw [ht, hf] at h
          simp only [ex_bind_ok, ex_pure] at h
          cases h
          rw [flat_append]
          exact Bal.app (Tree.real_bal tb cm hcm t a hok.1 ht) (Forest.real_bal tb cm hcm f b hok.2 hf)
end

/-- what the tag-deletion theorem says about one (sub)tree -/
def StripRel (toks toks' : List Tok) : Prop :=
  flat toks' = strip false (flat toks) ∧ inAngle false (flat toks) = false ∧ (toks = [] ↔ toks' = [])

mutual
  /-- realizing the tree without its tags gives the text of the tagged realization with the tags deleted -/
  theorem Tree.real_strip (tb : Tables) (cm : CaseMap) (hcm : AngOK cm) : ∀ (t : Tree) (toks : List Tok),
      t.OK tb → t.real tb cm = .ok toks → ∃ toks', t.erase.real tb cm = .ok toks' ∧ StripRel toks toks'
    | .leaf t o, toks, hok, h => by
      simp only [Tree.OK] at hok
      simp only [Tree.real] at h
      have s := strip_angleFree hok.1
      obtain ⟨out', h1, h2, h3, h4⟩ := fmt_step_strip tb cm hcm o hok.2 [t] [t] toks h
        (by simp [s.1]) (by simp [s.2]) Iff.rfl
        (fun _ => ⟨rfl, by intro u hu; simp at hu; subst hu; exact hok.1⟩)
      exact ⟨out', by simpa [Tree.erase, Tree.real] using h1, h2, h3, h4⟩
    | .node o .nil, toks, _, h => by
      simp only [Tree.real] at h; cases h
      exact ⟨[], by simp [Tree.erase, Forest.erase, Tree.real], rfl, rfl, Iff.rfl⟩
    | .node o (.cons k ks), toks, hok, h => by
      simp only [Tree.OK] at hok
      simp only [Tree.real] at h
      cases hk : (Forest.cons k ks).real tb cm with
      | error e => rw [hk] at h; cases h
      | ok l =>
        rw [hk] at h
        simp only [ex_bind_ok] at h
        obtain ⟨l', hl', r1, r2, r3⟩ := Forest.real_strip tb cm hcm (.cons k ks) l hok.2.1 hk
        have hcap : (o.cap = .t ∨ o.poss = true) → l' = l ∧ TokAF l := by
          intro hc
          have htf := hok.2.2 hc
          have e := Forest.erase_real tb cm (.cons k ks) htf
          rw [e, hk] at hl'
          cases hl'
          exact ⟨rfl, Forest.real_af tb cm hcm (.cons k ks) l hok.2.1 htf hk⟩
        obtain ⟨out', h1, h2, h3, h4⟩ := fmt_step_strip tb cm hcm o hok.1 l l' toks h r1 r2 r3 hcap
        refine ⟨out', ?_, h2, h3, h4⟩
        simp only [Tree.erase, Forest.erase, Tree.real]
        simp only [Forest.erase] at hl'
        rw [hl']
        exact h1
  theorem Forest.real_strip (tb : Tables) (cm : CaseMap) (hcm : AngOK cm) : ∀ (f : Forest) (toks : List Tok),
      f.OK tb → f.real tb cm = .ok toks → ∃ toks', f.erase.real tb cm = .ok toks' ∧ StripRel toks toks'
    | .nil, toks, _, h => by
      simp only [Forest.real] at h; cases h
      exact ⟨[], rfl, rfl, rfl, Iff.rfl⟩
    | .cons t f, toks, hok, h => by
      simp only [Forest.OK] at hok
      simp only [Forest.real] at h
      cases ht : t.real tb cm with
      | error e => rw [ht] at h; cases h
      | ok a =>
        cases hf : f.real tb cm with
        | error e => rw [ht, hf] at h; cases h
        | ok b =>
          rw [ht, hf] at h
          simp only [ex_bind_ok, ex_pure] at h
          cases h
          obtain ⟨a', ha', a1, a2, a3⟩ := Tree.real_strip tb cm hcm t a hok.1 ht
          obtain ⟨b', hb', b1, b2, b3⟩ := Forest.real_strip tb cm hcm f b hok.2 hf
          refine ⟨a' ++ b', by simp [Forest.erase, Forest.real, ha', hb'], ?_, ?_, ?_⟩
          · rw [flat_append, flat_append, strip_closed _ _ a2, a1, b1]
          · rw [flat_append]; exact closed_append a2 b2
          · simp only [List.append_eq_nil_iff]
            exact ⟨fun ⟨x, y⟩ => ⟨a3.mp x, b3.mp y⟩, fun ⟨x, y⟩ => ⟨a3.mpr x, b3.mpr y⟩⟩
end

end Pyrealb.Format
