import Pyrealb.Lemmas.JsonRoundtrip
/-! Evaluating the construction program that a printed source denotes rebuilds the expression (C12, source route),
    by structural induction on the expression. -/
namespace Pyrealb.Expr
open Pyrealb

/-! ### the construction program that a printed source denotes -/

/-- the call a history entry prints as -/
def callArgs : Call → Str × List PVal
  | .opt name arg => (name, [arg])
  | .tag2 nm attrs => (s "tag", [.atom (.str nm), .dict attrs])

def withCalls (base : Prog) (hist : List Call) : Prog :=
  hist.foldl (fun recv c => .call recv (callArgs c).1 (callArgs c).2) base

mutual
/-- what `eval(e.toSource())` evaluates when the language of the root is the current one: the lemma is printed as a
    string literal, children as arguments, the history as method calls; every constituent gets its own language
    (through `lang=` where it is not the root's) -/
def progOf : Expr → Prog
  | .term n lemma _ => withCalls (.term n.kind (.str (strAtom lemma)) n.lang) n.hist
  | .phr n es => withCalls (.phr n.kind n.lang (progOfList es)) n.hist
  | .dep n t ds => withCalls (.dep n.kind n.lang (progOf t) (progOfList ds)) n.hist
def progOfList : List Expr → List Prog
  | [] => []
  | e :: r => progOf e :: progOfList r
end

/-- `x.m1(a1).m2(a2)…` : the calls of a history applied in order; `none` = AttributeError -/
def replayCalls : List Call → Expr × Nat → Option (Expr × Nat)
  | [], r => some r
  | c :: rest, (e, w) =>
    match callMethod (callArgs c).1 (callArgs c).2 e with
    | none => none
    | some (e1, w1) => replayCalls rest (e1, w + w1)

theorem build_withCalls (env : Env) (ctx : Lang) (base : Prog) (hist : List Call) (e0 : Expr) (w0 : Nat)
    (hb : build env ctx base = .ok (e0, w0)) :
    build env ctx (withCalls base hist) =
      match replayCalls hist (e0, w0) with
      | some r => .ok r
      | none => .error .attributeError := by
  unfold withCalls
  induction hist generalizing base e0 w0 with
  | nil => simp [replayCalls, hb]
  | cons c r ih =>
    simp only [List.foldl_cons]
    cases hc : callMethod (callArgs c).1 (callArgs c).2 e0 with
    | none =>
      -- the receiver raises AttributeError: every later call propagates it
      have hbase : build env ctx (.call base (callArgs c).1 (callArgs c).2) = .error .attributeError := by
        simp [build, hb, hc]
      have : ∀ (l : List Call) (b : Prog), build env ctx b = .error .attributeError →
          build env ctx (l.foldl (fun recv c => .call recv (callArgs c).1 (callArgs c).2) b) = .error .attributeError := by
        intro l
        induction l with
        | nil => intro b h; simpa using h
        | cons d q ihq => intro b h; simp only [List.foldl_cons]; apply ihq; simp [build, h]
      rw [this r _ hbase]
      simp [replayCalls, hc]
    | some p =>
      obtain ⟨e1, w1⟩ := p
      have hbase : build env ctx (.call base (callArgs c).1 (callArgs c).2) = .ok (e1, w0 + w1) := by
        simp [build, hb, hc]
      rw [ih _ e1 (w0 + w1) hbase]
      simp [replayCalls, hc]

mutual
/-- **the side conditions of the source round trip**, node by node: the constituent is exactly what its recorded call
    history makes of what its constructor builds (from the printed lemma / from the children): nothing in its state
    comes from elsewhere (an option propagated by an enclosing CP, a numeric lemma, an `add()` that re-ordered …) -/
def WFS (env : Env) : Expr → Prop
  | .term n lemma info =>
      replayCalls n.hist (mkTerm env n.lang n.kind (.str (strAtom lemma))) = some (.term n lemma info, 0)
  | .phr n es => WFSList env es ∧ replayCalls n.hist (mkPhr n.kind n.lang es) = some (.phr n es, 0)
  | .dep n t ds => WFS env t ∧ WFSList env ds ∧
      replayCalls n.hist (mkDep n.kind n.lang t ds) = some (.dep n t ds, 0)
def WFSList (env : Env) : List Expr → Prop
  | [] => True
  | e :: r => WFS env e ∧ WFSList env r
end

mutual
theorem build_progOf (env : Env) : ∀ (e : Expr) (ctx : Lang), WFS env e →
    build env ctx (progOf e) = .ok (e, 0)
  | .term n lemma info, ctx, h => by
    have hb : build env ctx (.term n.kind (.str (strAtom lemma)) n.lang) =
        .ok ((mkTerm env n.lang n.kind (.str (strAtom lemma))).1, (mkTerm env n.lang n.kind (.str (strAtom lemma))).2) := by
      simp [build]
    simp only [progOf]
    rw [build_withCalls env ctx _ n.hist _ _ hb]
    simp only [WFS] at h
    simp [h]
  | .phr n es, ctx, h => by
    obtain ⟨hes, hr⟩ := h
    have hl := buildList_progOf env es n.lang hes
    have hb : build env ctx (.phr n.kind n.lang (progOfList es)) =
        .ok ((mkPhr n.kind n.lang es).1, (mkPhr n.kind n.lang es).2) := by
      simp [build, hl]
    simp only [progOf]
    rw [build_withCalls env ctx _ n.hist _ _ hb]
    simp [hr]
  | .dep n t ds, ctx, h => by
    obtain ⟨ht, hds, hr⟩ := h
    have h1 := build_progOf env t n.lang ht
    have hl := buildList_progOf env ds n.lang hds
    have hb : build env ctx (.dep n.kind n.lang (progOf t) (progOfList ds)) =
        .ok ((mkDep n.kind n.lang t ds).1, (mkDep n.kind n.lang t ds).2) := by
      simp [build, h1, hl]
    simp only [progOf]
    rw [build_withCalls env ctx _ n.hist _ _ hb]
    simp [hr]
theorem buildList_progOf (env : Env) : ∀ (es : List Expr) (ctx : Lang), WFSList env es →
    buildList env ctx (progOfList es) = .ok (es, 0)
  | [], _, _ => by simp [progOfList, buildList]
  | e :: r, ctx, h => by
    obtain ⟨he, hr⟩ := h
    simp [progOfList, buildList, build_progOf env e ctx he, buildList_progOf env r ctx hr]
end

end Pyrealb.Expr
