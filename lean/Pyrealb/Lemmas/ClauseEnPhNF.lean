import Pyrealb.Lemmas.ClauseEnPh
/-! Normal form of `realizePhraseW`: the tokens of the clause proper are the declarative linearisation `linPh`. -/
namespace Pyrealb.ClauseEn

theorem move_vFirst (S R : List PNode) (l : VLemma) (f : VForm) (r : AgrRef) (agr : Agr) (g : Gender) (c : Bool)
    (pd : Option Agr) :
    moveObjectPh ⟨S, .word (.verb l f r) :: R, agr, g, c, pd⟩ = ⟨.word (.verb l f r) :: S, R, agr, g, c, pd⟩ := by
  simp [moveObjectPh, findIdx, Gen.ClauseEn.moveObjectPopsIndex0, removeAt]

theorem move_cannotV (S R : List PNode) (l : VLemma) (f : VForm) (r : AgrRef) (agr : Agr) (g : Gender) (c : Bool)
    (pd : Option Agr) :
    moveObjectPh ⟨S, .word .cannot :: .word (.verb l f r) :: R, agr, g, c, pd⟩
      = ⟨.word .cannot :: S, .word (.verb l f r) :: R, agr, g, c, pd⟩ := by
  simp [moveObjectPh, findIdx, Gen.ClauseEn.moveObjectPopsIndex0, removeAt]

theorem move_cannotOnly (S : List PNode) (o : Option ArgTok) (pl : List (Str × ArgTok)) (agr : Agr) (g : Gender)
    (c : Bool) (pd : Option Agr) :
    moveObjectPh ⟨S, .word .cannot :: (objNodes o ++ ppNodes pl), agr, g, c, pd⟩
      = ⟨S, .word .cannot :: (objNodes o ++ ppNodes pl), agr, g, c, pd⟩ := by
  simp [moveObjectPh, findIdx, findIdx_V_compl]

@[simp] theorem argTok_isSubjCT (a : ArgTok) : isSubjCT a.ct = true := by cases a <;> rfl
@[simp] theorem argTok_isVerbCT (a : ArgTok) : isVerbCT a.ct = false := by cases a <;> rfl
@[simp] theorem argTok_isNPPro (a : ArgTok) : isNPPro a.ct = true := by cases a <;> rfl
@[simp] theorem argTok_ct_V (a : ArgTok) : (a.ct == CT.V) = false := by cases a <;> rfl
@[simp] theorem argTok_ct_PP (a : ArgTok) : (a.ct == CT.PP) = false := by cases a <;> rfl

set_option linter.unusedSimpArgs false

theorem isWord_ct (t : Tok) (h : t.isWord = true) : t.ct = .V ∨ t.ct = .Q ∨ t.ct = .Adv ∨ t.ct = .P := by
  cases t <;> simp_all [Tok.isWord, Tok.ct]

theorem isWord_not_subj (t : Tok) (h : t.isWord = true) : isSubjCT t.ct = false := by
  rcases isWord_ct t h with h1 | h1 | h1 | h1 <;> simp [h1]

theorem isWord_not_PP (t : Tok) (h : t.isWord = true) : (t.ct == CT.PP) = false := by
  rcases isWord_ct t h with h1 | h1 | h1 | h1 <;> simp [h1]

theorem findIdx_isSome_of_mem {α} (p : α → Bool) (l : List α) (x : α) (hx : x ∈ l) (hp : p x = true) :
    ∃ k, findIdx p l = some k := by
  induction l with
  | nil => cases hx
  | cons a r ih =>
    by_cases ha : p a = true
    · exact ⟨0, findIdx_cons_true p a r ha⟩
    · have ha' : p a = false := by simpa using ha
      rcases List.mem_cons.mp hx with rfl | h
      · exact absurd hp ha
      · obtain ⟨k, hk⟩ := ih h
        exact ⟨k + 1, by rw [findIdx_cons_false p a r ha', hk]; rfl⟩

/-- `move_object` when the VP has a V somewhere: element 0 of the VP goes to the front of S -/
theorem move_hasV (S C : List PNode) (w0 : Tok) (ws' : List Tok) (hv : (w0 :: ws').any (fun t => t.ct == .V) = true)
    (agr : Agr) (g : Gender) (c : Bool) (pd : Option Agr) :
    moveObjectPh ⟨S, .word w0 :: (ws'.map .word ++ C), agr, g, c, pd⟩ = ⟨.word w0 :: S, ws'.map .word ++ C, agr, g, c, pd⟩ := by
  obtain ⟨t, ht, htV⟩ := List.any_eq_true.mp hv
  have hmem : PNode.word t ∈ PNode.word w0 :: (ws'.map PNode.word ++ C) := by
    rcases List.mem_cons.mp ht with rfl | h
    · simp
    · exact List.mem_cons_of_mem _ (List.mem_append_left _ (List.mem_map.mpr ⟨t, h, rfl⟩))
  obtain ⟨k, hk⟩ := findIdx_isSome_of_mem (fun n : PNode => n.ct == .V) _ _ hmem (by simpa using htV)
  simp [moveObjectPh, hk, Gen.ClauseEn.moveObjectPopsIndex0, removeAt]

theorem move_hasV_nil (S : List PNode) (w0 : Tok) (ws' : List Tok) (hv : (w0 :: ws').any (fun t => t.ct == .V) = true)
    (agr : Agr) (g : Gender) (c : Bool) (pd : Option Agr) :
    moveObjectPh ⟨S, .word w0 :: ws'.map .word, agr, g, c, pd⟩ = ⟨.word w0 :: S, ws'.map .word, agr, g, c, pd⟩ := by
  have := move_hasV S [] w0 ws' hv agr g c pd
  simpa using this

/-- `move_object` when the VP has no V: nothing moves -/
theorem move_noV (S V : List PNode) (hv : findIdx (fun n : PNode => n.ct == .V) V = none)
    (agr : Agr) (g : Gender) (c : Bool) (pd : Option Agr) :
    moveObjectPh ⟨S, V, agr, g, c, pd⟩ = ⟨S, V, agr, g, c, pd⟩ := by
  simp [moveObjectPh, hv]

/-- the first V of the VP is a verb token when the words contain one -/
theorem find_currV (C : List PNode) (ws : List Tok) (hw : ws.all Tok.isWord = true)
    (hv : ws.any (fun t => t.ct == .V) = true) :
    ∃ l f r, (ws.map PNode.word ++ C).find? (fun n => n.ct == .V) = some (.word (.verb l f r)) := by
  induction ws with
  | nil => simp at hv
  | cons a rest ih =>
    have ha : a.isWord = true := by simp [List.all_cons] at hw; exact hw.1
    have hr : rest.all Tok.isWord = true := by simp [List.all_cons] at hw; simpa using hw.2
    by_cases hV : (a.ct == CT.V) = true
    · cases a <;> simp_all [Tok.ct, Tok.isWord]
    · have hV' : (a.ct == CT.V) = false := by simpa using hV
      have hv' : rest.any (fun t => t.ct == .V) = true := by
        simp only [List.any_cons, hV', Bool.false_or] at hv; exact hv
      obtain ⟨l, f, r, h⟩ := ih hr hv'
      exact ⟨l, f, r, by simp [List.find?_cons, hV', h]⟩

/-! facts about searching the VP behind the words -/
section words
variable (ws' : List Tok) (hw : ws'.all Tok.isWord = true)
include hw

theorem fi_subj_none (pl : List (Str × ArgTok)) :
    findIdx (fun n : PNode => isSubjCT n.ct) (ws'.map .word ++ ppNodes pl) = none := by
  rw [findIdx_append_of_none _ _ _ (words_not_subj ws' hw), findIdx_subj_ppNodes]; rfl

theorem fi_subj_some (o : ArgTok) (R : List PNode) :
    findIdx (fun n : PNode => isSubjCT n.ct) (ws'.map .word ++ (.arg o :: R)) = some ws'.length := by
  rw [findIdx_append_of_none _ _ _ (words_not_subj ws' hw)]; simp [findIdx]

theorem fi_pp_nil :
    findIdx (fun n : PNode => n.ct == CT.PP) (ws'.map .word) = none :=
  findIdx_none_of_forall _ _ (words_not_PP ws' hw)

theorem fi_pp_cons (p : Str) (a : ArgTok) (R : List PNode) :
    findIdx (fun n : PNode => n.ct == CT.PP) (ws'.map .word ++ (.pp p a :: R)) = some ws'.length := by
  rw [findIdx_append_of_none _ _ _ (words_not_PP ws' hw)]; simp [findIdx]

theorem fi_pp_obj_nil (o : ArgTok) :
    findIdx (fun n : PNode => n.ct == CT.PP) (ws'.map .word ++ [.arg o]) = none := by
  rw [findIdx_append_of_none _ _ _ (words_not_PP ws' hw)]; simp [findIdx]

theorem fi_pp_obj_cons (o : ArgTok) (p : Str) (a : ArgTok) (R : List PNode) :
    findIdx (fun n : PNode => n.ct == CT.PP) (ws'.map .word ++ (.arg o :: .pp p a :: R)) = some (ws'.length + 1) := by
  rw [findIdx_append_of_none _ _ _ (words_not_PP ws' hw)]; simp [findIdx, Nat.add_comm]

end words

theorem removeAt_words {α β} (f : α → β) (l : List α) (a : β) (R : List β) :
    removeAt (l.map f ++ a :: R) l.length = l.map f ++ R := by
  have := removeAt_append_len (l.map f) a R
  simpa using this

theorem removeAt_words1 {α β} (f : α → β) (l : List α) (a b : β) (R : List β) :
    removeAt (l.map f ++ a :: b :: R) (l.length + 1) = l.map f ++ a :: R := by
  have := removeAt_append_length (l.map f) (a :: b :: R) 1
  simpa [removeAt, Nat.add_comm] using this

theorem getElem?_words {α β} (f : α → β) (l : List α) (a : β) (R : List β) :
    (l.map f ++ a :: R)[l.length]? = some a := by
  have := getElem?_append_len (l.map f) a R
  simpa using this

theorem getElem?_words1 {α β} (f : α → β) (l : List α) (a b : β) (R : List β) :
    (l.map f ++ a :: b :: R)[l.length + 1]? = some b := by
  have := getElem?_append_length (l.map f) (a :: b :: R) 1
  simpa [Nat.add_comm] using this

theorem map_resolve_append (a : Agr) (l1 l2 : List Tok) :
    (l1 ++ l2).map (Tok.resolve a) = l1.map (Tok.resolve a) ++ l2.map (Tok.resolve a) := List.map_append

/-- the result of the constituent pipeline, stated once for the proofs below -/
def PhOK (sp : Spec) (ty : Typ) (ws : List Tok) : Prop :=
  ∃ out, realizePhraseW sp ty ws = .ok out ∧
    out.main = (linPh (midPh sp ty.pas) ty.int ws).map (Tok.resolve out.agr) ∧
    ((midPh sp ty.pas).pending = none → out.agr = agrPlain (midPh sp ty.pas) ty.int)

theorem agrAtVerb_none (a : Agr) (toks : List Tok) : agrAtVerb none a toks = a := rfl

theorem findIdx_V_words (ws : List Tok) (hv : hasV ws = false) :
    ∀ x ∈ ws.map PNode.word, (fun n : PNode => n.ct == CT.V) x = false := by
  intro n hn
  obtain ⟨t, ht, rfl⟩ := List.mem_map.mp hn
  have := List.any_eq_false.mp hv t ht
  simpa using this

theorem move_noV_words (S C : List PNode) (ws : List Tok) (hv : hasV ws = false)
    (hC : findIdx (fun n : PNode => n.ct == .V) C = none) (agr : Agr) (g : Gender) (c : Bool) (pd : Option Agr) :
    moveObjectPh ⟨S, ws.map .word ++ C, agr, g, c, pd⟩ = ⟨S, ws.map .word ++ C, agr, g, c, pd⟩ := by
  apply move_noV
  rw [findIdx_append_of_none _ _ _ (findIdx_V_words ws hv), hC]; rfl

theorem move_noV_words_nil (S : List PNode) (ws : List Tok) (hv : hasV ws = false)
    (agr : Agr) (g : Gender) (c : Bool) (pd : Option Agr) :
    moveObjectPh ⟨S, ws.map .word, agr, g, c, pd⟩ = ⟨S, ws.map .word, agr, g, c, pd⟩ := by
  apply move_noV
  exact findIdx_none_of_forall _ _ (findIdx_V_words ws hv)

/-- the words contain a V: every interrogative that inverts fronts element 0 -/
theorem phrase_nf_hasV (sp : Spec) (ty : Typ) (w0 : Tok) (ws' : List Tok)
    (hw0 : w0.isWord = true) (hw : ws'.all Tok.isWord = true) (hv : hasV (w0 :: ws') = true) :
    PhOK sp ty (w0 :: ws') := by
  have hs0 := isWord_not_subj w0 hw0
  have hp0 := isWord_not_PP w0 hw0
  have hall : (w0 :: ws').all Tok.isWord = true := by simp [List.all_cons, hw0]; simpa using hw
  unfold PhOK
  simp only [realizePhraseW, mid_state]
  generalize midPh sp ty.pas = m
  obtain ⟨subj, obj, pl, agr, g, pd⟩ := m
  obtain ⟨neg, pas, perf, prog, contr, exc, md, i⟩ := ty
  have fin : ∀ toks, pd = none → agrAtVerb pd agr toks = agr := fun _ h => by subst h; rfl
  cases i with
  | none =>
    refine ⟨_, rfl, ?_, ?_⟩
    · simp [stOf, grpsPh, Out.main, linPh, hs0, hp0, hv, flatVP, flatVP_append, flatVP_words, flatVP_objNodes, flatVP_ppNodes]
    · intro h; simp only at h; subst h; rfl
  | some i =>
    cases i
    case yon | how | why | muc =>
      simp [processIntPh, stOf, move_hasV _ _ _ _ hv, move_hasV_nil _ _ _ hv, hs0, hp0, hv, bind, Except.bind, pure, Except.pure, grpsPh, Out.main, linPh, front,
        flatVP, flatVP_append, flatVP_words, flatVP_objNodes, flatVP_ppNodes, agrPlain]
      exact fin _
    case wos | was =>
      simp [processIntPh, stOf, hs0, hp0, bind, Except.bind, pure, Except.pure, grpsPh, Out.main, linPh, findIdx, removeAt,
        flatVP, flatVP_append, flatVP_words, flatVP_objNodes, flatVP_ppNodes, agrPlain, agrAtVerb_none]
    case tag =>
      obtain ⟨l, f, r, hcur⟩ := find_currV (objNodes obj ++ ppNodes pl) (w0 :: ws') hall hv
      simp only [List.map_cons, List.cons_append] at hcur
      simp [processIntPh, tagQuestionPh, hcur, stOf, bind, Except.bind, pure, Except.pure, grpsPh, Out.main, linPh,
        flatVP, flatVP_append, flatVP_words, flatVP_objNodes, flatVP_ppNodes, agrPlain]
      exact fin _
    case wod | wad =>
      cases obj with
      | none =>
        simp [processIntPh, stOf, findIdx, objNodes, objToks, fi_subj_none ws' hw,
          move_hasV _ _ _ _ hv, move_hasV_nil _ _ _ hv, hs0, hp0, hv, bind, Except.bind, pure, Except.pure, grpsPh, Out.main, linPh, front, objHuman,
          flatVP, flatVP_append, flatVP_words, flatVP_objNodes, flatVP_ppNodes, agrPlain]
        exact fin _
      | some o =>
        cases o <;>
        simp [processIntPh, stOf, findIdx, objNodes, objToks, fi_subj_some ws' hw, removeAt, removeAt_words,
          getElem?_words,
          move_hasV _ _ _ _ hv, move_hasV_nil _ _ _ hv, hs0, hp0, hv, bind, Except.bind, pure, Except.pure, grpsPh, Out.main, linPh, front, objHuman,
          flatVP, flatVP_append, flatVP_words, flatVP_objNodes, flatVP_ppNodes, agrPlain] <;>
        exact fin _
    case woi | wai | whe | whn =>
      cases obj with
      | none =>
        cases pl with
        | nil =>
          simp [processIntPh, stOf, findIdx, objNodes, objToks, fi_pp_nil ws' hw, questionPPPh,
            move_hasV _ _ _ _ hv, move_hasV_nil _ _ _ hv, hs0, hp0, hv, bind, Except.bind, pure, Except.pure, grpsPh, Out.main, linPh, front,
            flatVP, flatVP_append, flatVP_words, flatVP_objNodes, flatVP_ppNodes, agrPlain, ppToks]
          exact fin _
        | cons pa R =>
          obtain ⟨p, a⟩ := pa
          by_cases hA : p.str ∈ Gen.ClauseEn.prepositionsAll <;>
          by_cases hW : p.str ∈ Gen.ClauseEn.prepositionsWhe <;>
          by_cases hN : p.str ∈ Gen.ClauseEn.prepositionsWhn <;>
          simp [hA, hW, hN, processIntPh, stOf, findIdx, objNodes, objToks, fi_pp_cons ws' hw, questionPPPh,
            prepQualifies, removeAt, removeAt_words, getElem?_words,
            move_hasV _ _ _ _ hv, move_hasV_nil _ _ _ hv, hs0, hp0, hv, bind, Except.bind, pure, Except.pure, grpsPh, Out.main, linPh, front,
            flatVP, flatVP_append, flatVP_words, flatVP_objNodes, flatVP_ppNodes, agrPlain, ppToks] <;>
          exact fin _
      | some o =>
        cases pl with
        | nil =>
          simp [processIntPh, stOf, findIdx, objNodes, objToks, fi_pp_obj_nil ws' hw, questionPPPh,
            move_hasV _ _ _ _ hv, move_hasV_nil _ _ _ hv, hs0, hp0, hv, bind, Except.bind, pure, Except.pure, grpsPh, Out.main, linPh, front,
            flatVP, flatVP_append, flatVP_words, flatVP_objNodes, flatVP_ppNodes, agrPlain, ppToks]
          exact fin _
        | cons pa R =>
          obtain ⟨p, a⟩ := pa
          by_cases hA : p.str ∈ Gen.ClauseEn.prepositionsAll <;>
          by_cases hW : p.str ∈ Gen.ClauseEn.prepositionsWhe <;>
          by_cases hN : p.str ∈ Gen.ClauseEn.prepositionsWhn <;>
          simp [hA, hW, hN, processIntPh, stOf, findIdx, objNodes, objToks, fi_pp_obj_cons ws' hw, questionPPPh,
            prepQualifies, removeAt, removeAt_words1, getElem?_words1,
            move_hasV _ _ _ _ hv, move_hasV_nil _ _ _ hv, hs0, hp0, hv, bind, Except.bind, pure, Except.pure, grpsPh, Out.main, linPh, front,
            flatVP, flatVP_append, flatVP_words, flatVP_objNodes, flatVP_ppNodes, agrPlain, ppToks] <;>
          exact fin _

theorem find?_V_words_none (ws : List Tok) (hv : hasV ws = false) (C : List PNode)
    (hC : C.find? (fun n => n.ct == .V) = none) :
    (ws.map PNode.word ++ C).find? (fun n => n.ct == .V) = none := by
  rw [List.find?_append, hC]
  have : (ws.map PNode.word).find? (fun n => n.ct == .V) = none := by
    rw [List.find?_eq_none]
    intro x hx
    have := findIdx_V_words ws hv x hx
    simpa using this
  simp [this]

/-- the words contain no V (`cannot` alone): nothing is fronted; a tag question is silently not produced -/
theorem phrase_nf_noV (sp : Spec) (ty : Typ) (ws' : List Tok)
    (hw : ws'.all Tok.isWord = true) (hv : hasV ws' = false) :
    PhOK sp ty ws' := by
  have hvw := findIdx_V_words ws' hv
  unfold PhOK
  simp only [realizePhraseW, mid_state]
  generalize midPh sp ty.pas = m
  obtain ⟨subj, obj, pl, agr, g, pd⟩ := m
  obtain ⟨neg, pas, perf, prog, contr, exc, md, i⟩ := ty
  have fin : ∀ toks, pd = none → agrAtVerb pd agr toks = agr := fun _ h => by subst h; rfl
  cases i with
  | none =>
    refine ⟨_, rfl, ?_, ?_⟩
    · simp [stOf, grpsPh, Out.main, linPh, hv, flatVP, flatVP_append, flatVP_words, flatVP_objNodes, flatVP_ppNodes]
    · intro h; simp only at h; subst h; rfl
  | some i =>
    cases i
    case yon | how | why | muc =>
      simp [processIntPh, stOf, move_noV_words _ _ _ hv, move_noV_words_nil _ _ hv, findIdx_V_ppNodes, findIdx_V_compl, hv, bind, Except.bind, pure, Except.pure, grpsPh, Out.main, linPh, front,
        flatVP, flatVP_append, flatVP_words, flatVP_objNodes, flatVP_ppNodes, agrPlain]
      exact fin _
    case wos | was =>
      simp [processIntPh, stOf,  bind, Except.bind, pure, Except.pure, grpsPh, Out.main, linPh, findIdx, removeAt,
        flatVP, flatVP_append, flatVP_words, flatVP_objNodes, flatVP_ppNodes, agrPlain, agrAtVerb_none]
    case tag =>
      have hnone := find?_V_words_none ws' hv (objNodes obj ++ ppNodes pl) (find?_V_compl obj pl)
      simp [processIntPh, tagQuestionPh, hnone, stOf, bind, Except.bind, pure, Except.pure, grpsPh, Out.main, linPh,
        flatVP, flatVP_append, flatVP_words, flatVP_objNodes, flatVP_ppNodes, agrPlain]
      exact fin _
    case wod | wad =>
      cases obj with
      | none =>
        simp [processIntPh, stOf, findIdx, objNodes, objToks, fi_subj_none ws' hw,
          move_noV_words _ _ _ hv, move_noV_words_nil _ _ hv, findIdx_V_ppNodes, findIdx_V_compl, hv, bind, Except.bind, pure, Except.pure, grpsPh, Out.main, linPh, front, objHuman,
          flatVP, flatVP_append, flatVP_words, flatVP_objNodes, flatVP_ppNodes, agrPlain]
        exact fin _
      | some o =>
        cases o <;>
        simp [processIntPh, stOf, findIdx, objNodes, objToks, fi_subj_some ws' hw, removeAt, removeAt_words,
          getElem?_words,
          move_noV_words _ _ _ hv, move_noV_words_nil _ _ hv, findIdx_V_ppNodes, findIdx_V_compl, hv, bind, Except.bind, pure, Except.pure, grpsPh, Out.main, linPh, front, objHuman,
          flatVP, flatVP_append, flatVP_words, flatVP_objNodes, flatVP_ppNodes, agrPlain] <;>
        exact fin _
    case woi | wai | whe | whn =>
      cases obj with
      | none =>
        cases pl with
        | nil =>
          simp [processIntPh, stOf, findIdx, objNodes, objToks, fi_pp_nil ws' hw, questionPPPh,
            move_noV_words _ _ _ hv, move_noV_words_nil _ _ hv, findIdx_V_ppNodes, findIdx_V_compl, hv, bind, Except.bind, pure, Except.pure, grpsPh, Out.main, linPh, front,
            flatVP, flatVP_append, flatVP_words, flatVP_objNodes, flatVP_ppNodes, agrPlain, ppToks]
          exact fin _
        | cons pa R =>
          obtain ⟨p, a⟩ := pa
          by_cases hA : p.str ∈ Gen.ClauseEn.prepositionsAll <;>
          by_cases hW : p.str ∈ Gen.ClauseEn.prepositionsWhe <;>
          by_cases hN : p.str ∈ Gen.ClauseEn.prepositionsWhn <;>
          simp [hA, hW, hN, processIntPh, stOf, findIdx, objNodes, objToks, fi_pp_cons ws' hw, questionPPPh,
            prepQualifies, removeAt, removeAt_words, getElem?_words,
            move_noV_words _ _ _ hv, move_noV_words_nil _ _ hv, findIdx_V_ppNodes, findIdx_V_compl, hv, bind, Except.bind, pure, Except.pure, grpsPh, Out.main, linPh, front,
            flatVP, flatVP_append, flatVP_words, flatVP_objNodes, flatVP_ppNodes, agrPlain, ppToks] <;>
          exact fin _
      | some o =>
        cases pl with
        | nil =>
          simp [processIntPh, stOf, findIdx, objNodes, objToks, fi_pp_obj_nil ws' hw, questionPPPh,
            move_noV_words _ _ _ hv, move_noV_words_nil _ _ hv, findIdx_V_ppNodes, findIdx_V_compl, hv, bind, Except.bind, pure, Except.pure, grpsPh, Out.main, linPh, front,
            flatVP, flatVP_append, flatVP_words, flatVP_objNodes, flatVP_ppNodes, agrPlain, ppToks]
          exact fin _
        | cons pa R =>
          obtain ⟨p, a⟩ := pa
          by_cases hA : p.str ∈ Gen.ClauseEn.prepositionsAll <;>
          by_cases hW : p.str ∈ Gen.ClauseEn.prepositionsWhe <;>
          by_cases hN : p.str ∈ Gen.ClauseEn.prepositionsWhn <;>
          simp [hA, hW, hN, processIntPh, stOf, findIdx, objNodes, objToks, fi_pp_obj_cons ws' hw, questionPPPh,
            prepQualifies, removeAt, removeAt_words1, getElem?_words1,
            move_noV_words _ _ _ hv, move_noV_words_nil _ _ hv, findIdx_V_ppNodes, findIdx_V_compl, hv, bind, Except.bind, pure, Except.pure, grpsPh, Out.main, linPh, front,
            flatVP, flatVP_append, flatVP_words, flatVP_objNodes, flatVP_ppNodes, agrPlain, ppToks] <;>
          exact fin _

/-- **normal form of the constituent notation**, for the words affixHopping really returns -/
theorem phrase_nf (sp : Spec) (ty : Typ) : PhOK sp ty (clauseWords sp ty) := by
  have hsh := words_shape sp.verb sp.t ty
  have hall : (clauseWords sp ty).all Tok.isWord = true := by
    unfold wordsShape at hsh
    simp only [Bool.and_eq_true] at hsh
    exact hsh.1
  by_cases hv : hasV (clauseWords sp ty) = true
  · generalize hws : clauseWords sp ty = ws at hall hv
    cases ws with
    | nil => simp [hasV] at hv
    | cons w0 ws' =>
      simp only [List.all_cons, Bool.and_eq_true] at hall
      exact phrase_nf_hasV sp ty w0 ws' hall.1 hall.2 hv
  · have hv' : hasV (clauseWords sp ty) = false := by simpa using hv
    exact phrase_nf_noV sp ty _ hall hv'

end Pyrealb.ClauseEn
