import Pyrealb.Lemmas.HeapPtr
/-! # A run of assignments as a list of CONSTANT writes

`compile q P` symbolically executes the plan `P` from the pointer state `q`: every chain of the Python code
(`self.peng = head.peng; e.peng = self.peng`) is resolved to the slot it ultimately comes from (`origin`), and every
assignment becomes a write of a constant taken from `q` (the state BEFORE the run).  `compile_sound` proves that the
dynamic execution `execP q P` (every read in the current state, as in Python) performs exactly these writes.
`compile` gives up (`none`) when a statically unknown value would be read: a slot assigned under an unsatisfied
`hasattr` test, or the `g` field of a record written earlier in the same run. -/
namespace Pyrealb.Heap
open Pyrealb

/-- a write of a constant -/
inductive Wr where
  | peng (x r : Nat)                 -- `x.peng` := the record `r`
  | taux (x r : Nat)
  | fn (r : Nat) (v : Val)           -- field `n` of record `r`
  | fg (r : Nat) (v : Val)           -- field `g` of record `r`
  | cod (x y : Nat)
  | subj (x : Nat) (y : Option Nat)
  deriving DecidableEq, Repr

def Wr.apply (s : Ptr) : Wr → Ptr
  | .peng x r => { s with peng := upd s.peng x (some r) }
  | .taux x r => { s with taux := upd s.taux x (some r) }
  | .fn r v => { s with prec := upd s.prec r { s.prec r with n := some v } }
  | .fg r v => { s with prec := upd s.prec r { s.prec r with g := some v } }
  | .cod x y => { s with cod := upd s.cod x (some y) }
  | .subj x y => { s with subject := upd s.subject x (some y) }

def applyW (s : Ptr) (ws : List Wr) : Ptr := ws.foldl Wr.apply s

/-- what is known, during the symbolic run, about the current state in terms of the state `q` before the run -/
structure REnv where
  pe : List (Nat × Nat) := []     -- `x.peng` currently equals `q.peng origin`
  ta : List (Nat × Nat) := []
  soft : List Nat := []           -- `peng` slots assigned under an unsatisfied-or-not `hasattr` test: unknown
  softT : List Nat := []
  gt : List Nat := []             -- records whose `g` field has been written

def REnv.origin (e : REnv) (y : Nat) : Nat := (e.pe.lookup y).getD y
def REnv.originT (e : REnv) (y : Nat) : Nat := (e.ta.lookup y).getD y

/-- outcome of a compiled run: the constant writes performed, then success (`none`) or the exception raised -/
abbrev Compiled := List Wr × Option Crash

/-- symbolic execution; `none` = a statically unknown value is read -/
def compile (q : Ptr) : REnv → List Act → Option Compiled
  | _, [] => some ([], none)
  | e, a :: as =>
    let cont (e' : REnv) (w : List Wr) : Option Compiled :=
      match compile q e' as with
      | none => none
      | some (ws, r) => some (w ++ ws, r)
    match a with
    | .setPeng strict x y =>
      if e.soft.contains y then none else
      match q.peng (e.origin y) with
      | some r => cont { e with pe := (x, e.origin y) :: e.pe, soft := e.soft.erase x } [.peng x r]
      | none => if strict then some ([], some .attributeError) else cont e []
    | .setTaux strict x y =>
      if e.softT.contains y then none else
      match q.taux (e.originT y) with
      | some r => cont { e with ta := (x, e.originT y) :: e.ta, softT := e.softT.erase x } [.taux x r]
      | none => if strict then some ([], some .attributeError) else cont e []
    | .writeN strict y v =>
      if e.soft.contains y then none else
      match q.peng (e.origin y) with
      | some r => cont e [.fn r v]
      | none => if strict then some ([], some .attributeError) else cont e []
    | .copyG strict t y =>
      if e.soft.contains y || e.soft.contains t then none else
      match q.peng (e.origin y) with
      | none => if strict then some ([], some .attributeError) else cont e []
      | some r =>
        if e.gt.contains r then none else
        match (q.prec r).g with
        | none => some ([], some .keyError)
        | some gv =>
          match q.peng (e.origin t) with
          | none => some ([], some .attributeError)
          | some rt => cont { e with gt := rt :: e.gt } [.fg rt gv]
    | .setCod x y => cont e [.cod x y]
    | .setSubject x y => cont e [.subj x y]
    | .guardHas o =>
      if e.soft.contains o then none else
      if (q.peng (e.origin o)).isNone then some ([], none) else cont e []
    | .crash c => some ([], some c)
    | .fresh _ _ => none
    | .morphoError _ => none

/-- the current state `s` is what the environment says, relative to the state `q` before the run -/
structure EnvOK (q s : Ptr) (e : REnv) : Prop where
  pe : ∀ y, ¬ y ∈ e.soft → s.peng y = q.peng (e.origin y)
  ta : ∀ y, ¬ y ∈ e.softT → s.taux y = q.taux (e.originT y)
  g : ∀ r, ¬ r ∈ e.gt → (s.prec r).g = (q.prec r).g

theorem origin_cons_same (e : REnv) (x o : Nat) (so : List Nat) :
    ({ e with pe := (x, o) :: e.pe, soft := so } : REnv).origin x = o := by
  simp [REnv.origin, List.lookup]

theorem origin_cons_other (e : REnv) (x o y : Nat) (so : List Nat) (h : y ≠ x) :
    ({ e with pe := (x, o) :: e.pe, soft := so } : REnv).origin y = e.origin y := by
  have : (y == x) = false := by simpa using h
  simp [REnv.origin, List.lookup, this]

theorem originT_cons_same (e : REnv) (x o : Nat) (so : List Nat) :
    ({ e with ta := (x, o) :: e.ta, softT := so } : REnv).originT x = o := by
  simp [REnv.originT, List.lookup]

theorem originT_cons_other (e : REnv) (x o y : Nat) (so : List Nat) (h : y ≠ x) :
    ({ e with ta := (x, o) :: e.ta, softT := so } : REnv).originT y = e.originT y := by
  have : (y == x) = false := by simpa using h
  simp [REnv.originT, List.lookup, this]

theorem applyW_append (s : Ptr) (a b : List Wr) : applyW s (a ++ b) = applyW (applyW s a) b := by
  simp [applyW, List.foldl_append]

/-- the result of a compiled run started in `s` -/
def finish (s : Ptr) (c : Compiled) : Except Crash Ptr :=
  match c.2 with
  | none => .ok (applyW s c.1)
  | some e => .error e

/-- the dynamic execution performs exactly the compiled constant writes -/
theorem compile_sound (q : Ptr) (P : List Act) (e : REnv) (s : Ptr) (ok : EnvOK q s e)
    (c : Compiled) (hc : compile q e P = some c) : execP s P = finish s c := by
  induction P generalizing e s c with
  | nil =>
    simp [compile] at hc
    subst hc
    simp [execP, applyW, finish]
  | cons a as ih =>
    -- continuation lemma
    have contL : ∀ (e' : REnv) (w : List Wr) (s' : Ptr), EnvOK q s' e' → s' = applyW s w →
        (match compile q e' as with | none => none | some (ws, r) => some (w ++ ws, r)) = some c →
        execP s' as = finish s c := by
      intro e' w s' ok' hs' hcc
      cases hcomp : compile q e' as with
      | none => rw [hcomp] at hcc; simp at hcc
      | some res =>
        obtain ⟨ws2, r2⟩ := res
        rw [hcomp] at hcc
        simp only [Option.some.injEq] at hcc
        subst hcc
        rw [ih e' s' ok' _ hcomp, hs']
        cases r2 <;> simp [finish, applyW_append]
    have stopL : ∀ (cr : Crash), some (([], some cr) : Compiled) = some c → Except.error cr = finish s c := by
      intro cr h
      simp only [Option.some.injEq] at h
      subst h; rfl
    cases a with
    | setPeng strict x y =>
      by_cases hsoft : e.soft.contains y = true
      · have hm : y ∈ e.soft := by simpa using hsoft
        simp [compile, hm] at hc
      · have hsoft' : ¬ y ∈ e.soft := by simpa using hsoft
        have hy := ok.pe y hsoft'
        simp only [execP, Act.stops, Bool.false_eq_true, if_false, stepP, hy]
        cases hq : q.peng (e.origin y) with
        | some rr =>
          simp only [compile, hsoft, Bool.false_eq_true, if_false, hq] at hc
          simp only
          refine contL _ [.peng x rr] _ ?_ (by simp [applyW, Wr.apply]) hc
          constructor
          · intro z hz
            by_cases hzx : z = x
            · subst hzx
              rw [origin_cons_same]; simp [hq]
            · rw [origin_cons_other _ _ _ _ _ hzx]
              have : ¬ z ∈ e.soft := by
                intro hm; exact hz ((List.mem_erase_of_ne hzx).mpr hm)
              simpa [upd, hzx] using ok.pe z this
          · intro z hz; simpa [REnv.originT] using ok.ta z hz
          · intro z hz; simpa using ok.g z hz
        | none =>
          cases strict with
          | true =>
            simp only [compile, hsoft, Bool.false_eq_true, if_false, hq, if_true] at hc
            simp only [if_true]
            exact stopL _ hc
          | false =>
            simp only [compile, hsoft, Bool.false_eq_true, if_false, hq] at hc
            simp only [Bool.false_eq_true, if_false]
            exact contL e [] s ok (by simp [applyW]) hc
    | setTaux strict x y =>
      by_cases hsoft : e.softT.contains y = true
      · have hm : y ∈ e.softT := by simpa using hsoft
        simp [compile, hm] at hc
      · have hsoft' : ¬ y ∈ e.softT := by simpa using hsoft
        have hy := ok.ta y hsoft'
        simp only [execP, Act.stops, Bool.false_eq_true, if_false, stepP, hy]
        cases hq : q.taux (e.originT y) with
        | some rr =>
          simp only [compile, hsoft, Bool.false_eq_true, if_false, hq] at hc
          simp only
          refine contL _ [.taux x rr] _ ?_ (by simp [applyW, Wr.apply]) hc
          constructor
          · intro z hz; simpa [REnv.origin] using ok.pe z hz
          · intro z hz
            by_cases hzx : z = x
            · subst hzx
              rw [originT_cons_same]; simp [hq]
            · rw [originT_cons_other _ _ _ _ _ hzx]
              have : ¬ z ∈ e.softT := by
                intro hm; exact hz ((List.mem_erase_of_ne hzx).mpr hm)
              simpa [upd, hzx] using ok.ta z this
          · intro z hz; simpa using ok.g z hz
        | none =>
          cases strict with
          | true =>
            simp only [compile, hsoft, Bool.false_eq_true, if_false, hq, if_true] at hc
            simp only [if_true]
            exact stopL _ hc
          | false =>
            simp only [compile, hsoft, Bool.false_eq_true, if_false, hq] at hc
            simp only [Bool.false_eq_true, if_false]
            exact contL e [] s ok (by simp [applyW]) hc
    | writeN strict y v =>
      by_cases hsoft : e.soft.contains y = true
      · have hm : y ∈ e.soft := by simpa using hsoft
        simp [compile, hm] at hc
      · have hsoft' : ¬ y ∈ e.soft := by simpa using hsoft
        have hy := ok.pe y hsoft'
        simp only [execP, Act.stops, Bool.false_eq_true, if_false, stepP, hy]
        cases hq : q.peng (e.origin y) with
        | some rr =>
          simp only [compile, hsoft, Bool.false_eq_true, if_false, hq] at hc
          simp only
          refine contL e [.fn rr v] _ ?_ (by simp [applyW, Wr.apply]) hc
          constructor
          · intro z hz; simpa [REnv.origin] using ok.pe z hz
          · intro z hz; simpa [REnv.originT] using ok.ta z hz
          · intro z hz
            by_cases hzr : z = rr
            · subst hzr; simpa [upd] using ok.g z hz
            · simpa [upd, hzr] using ok.g z hz
        | none =>
          cases strict with
          | true =>
            simp only [compile, hsoft, Bool.false_eq_true, if_false, hq, if_true] at hc
            simp only [if_true]
            exact stopL _ hc
          | false =>
            simp only [compile, hsoft, Bool.false_eq_true, if_false, hq] at hc
            simp only [Bool.false_eq_true, if_false]
            exact contL e [] s ok (by simp [applyW]) hc
    | copyG strict t y =>
      by_cases hsoft : (e.soft.contains y || e.soft.contains t) = true
      · have hm : y ∈ e.soft ∨ t ∈ e.soft := by simpa using hsoft
        simp [compile, hm] at hc
      · have hs2 : ¬ y ∈ e.soft ∧ ¬ t ∈ e.soft := by simpa using hsoft
        have hy := ok.pe y hs2.1
        have ht := ok.pe t hs2.2
        simp only [execP, Act.stops, Bool.false_eq_true, if_false, stepP, hy]
        cases hq : q.peng (e.origin y) with
        | none =>
          cases strict with
          | true =>
            simp only [compile, hsoft, Bool.false_eq_true, if_false, hq, if_true] at hc
            simp only [if_true]
            exact stopL _ hc
          | false =>
            simp only [compile, hsoft, Bool.false_eq_true, if_false, hq] at hc
            simp only [Bool.false_eq_true, if_false]
            exact contL e [] s ok (by simp [applyW]) hc
        | some rr =>
          simp only
          by_cases hgt : e.gt.contains rr = true
          · have hm : rr ∈ e.gt := by simpa using hgt
            have hs3 : ¬ (y ∈ e.soft ∨ t ∈ e.soft) := by simpa using hsoft
            simp [compile, hs3, hq, hm] at hc
          · have hgt' : ¬ rr ∈ e.gt := by simpa using hgt
            rw [ok.g rr hgt']
            cases hg : (q.prec rr).g with
            | none =>
              simp only [compile, hsoft, Bool.false_eq_true, if_false, hq, hgt, hg] at hc
              simp only
              exact stopL _ hc
            | some gv =>
              simp only
              rw [ht]
              cases hqt : q.peng (e.origin t) with
              | none =>
                simp only [compile, hsoft, Bool.false_eq_true, if_false, hq, hgt, hg, hqt] at hc
                simp only
                exact stopL _ hc
              | some rt =>
                simp only [compile, hsoft, Bool.false_eq_true, if_false, hq, hgt, hg, hqt] at hc
                simp only
                refine contL _ [.fg rt gv] _ ?_ (by simp [applyW, Wr.apply]) hc
                constructor
                · intro z hz; simpa [REnv.origin] using ok.pe z hz
                · intro z hz; simpa [REnv.originT] using ok.ta z hz
                · intro z hz
                  have hz' : z ≠ rt ∧ ¬ z ∈ e.gt := by simpa using hz
                  simpa [upd, hz'.1] using ok.g z hz'.2
    | fresh x i => simp [compile] at hc
    | setCod x y =>
      simp only [compile] at hc
      simp only [execP, Act.stops, Bool.false_eq_true, if_false, stepP]
      refine contL e [.cod x y] _ ?_ (by simp [applyW, Wr.apply]) hc
      exact ⟨fun z hz => by simpa [REnv.origin] using ok.pe z hz, fun z hz => by simpa [REnv.originT] using ok.ta z hz,
             fun z hz => by simpa using ok.g z hz⟩
    | setSubject x y =>
      simp only [compile] at hc
      simp only [execP, Act.stops, Bool.false_eq_true, if_false, stepP]
      refine contL e [.subj x y] _ ?_ (by simp [applyW, Wr.apply]) hc
      exact ⟨fun z hz => by simpa [REnv.origin] using ok.pe z hz, fun z hz => by simpa [REnv.originT] using ok.ta z hz,
             fun z hz => by simpa using ok.g z hz⟩
    | morphoError x => simp [compile] at hc
    | guardHas o =>
      by_cases hsoft : e.soft.contains o = true
      · have hm : o ∈ e.soft := by simpa using hsoft
        simp [compile, hm] at hc
      · have hsoft' : ¬ o ∈ e.soft := by simpa using hsoft
        have ho := ok.pe o hsoft'
        simp only [execP, Act.stops, ho]
        by_cases hn : (q.peng (e.origin o)).isNone = true
        · simp only [compile, hsoft, Bool.false_eq_true, if_false, hn, if_true] at hc
          simp only [hn, if_true]
          simp only [Option.some.injEq] at hc
          subst hc
          simp [finish, applyW]
        · simp only [compile, hsoft, Bool.false_eq_true, if_false, hn] at hc
          simp only [hn, Bool.false_eq_true, if_false, stepP]
          exact contL e [] s ok (by simp [applyW]) hc
    | crash cr =>
      simp only [compile] at hc
      simp only [execP, Act.stops, Bool.false_eq_true, if_false, stepP]
      exact stopL _ hc

theorem envOK_init (q : Ptr) : EnvOK q q {} :=
  ⟨fun _ _ => by simp [REnv.origin], fun _ _ => by simp [REnv.originT], fun _ _ => rfl⟩

/-- a whole run from `q` -/
theorem compile_run (q : Ptr) (P : List Act) (c : Compiled) (hc : compile q {} P = some c) :
    execP q P = finish q c :=
  compile_sound q P {} q (envOK_init q) c hc

end Pyrealb.Heap
