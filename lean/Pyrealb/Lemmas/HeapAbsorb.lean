import Pyrealb.Lemmas.HeapResolve
/-! # Absorption: a run of constant writes overrides an earlier run that wrote a subset of its locations

`applyW (applyW s ws') ws = applyW s ws` whenever every location written by `ws'` is written by `ws`
(last write wins).  With `compile_sound` this is the engine of `link_confluent_partial`: re-linking after each
insertion converges to the link state of the LAST link run alone. -/
namespace Pyrealb.Heap
open Pyrealb

/-- a location of the pointer part -/
inductive Loc where
  | peng (x : Nat) | taux (x : Nat) | fn (r : Nat) | fg (r : Nat) | cod (x : Nat) | subj (x : Nat)
  deriving DecidableEq, Repr

def Wr.loc : Wr → Loc
  | .peng x _ => .peng x
  | .taux x _ => .taux x
  | .fn r _ => .fn r
  | .fg r _ => .fg r
  | .cod x _ => .cod x
  | .subj x _ => .subj x

def locs (ws : List Wr) : List Loc := ws.map Wr.loc

/-- the two states agree everywhere except possibly on the locations of `L` -/
structure AgreeOff (L : List Loc) (s1 s2 : Ptr) : Prop where
  peng : ∀ x, ¬ Loc.peng x ∈ L → s1.peng x = s2.peng x
  taux : ∀ x, ¬ Loc.taux x ∈ L → s1.taux x = s2.taux x
  fn : ∀ r, ¬ Loc.fn r ∈ L → (s1.prec r).n = (s2.prec r).n
  fg : ∀ r, ¬ Loc.fg r ∈ L → (s1.prec r).g = (s2.prec r).g
  pe : ∀ r, (s1.prec r).pe = (s2.prec r).pe
  trec : s1.trec = s2.trec
  cod : ∀ x, ¬ Loc.cod x ∈ L → s1.cod x = s2.cod x
  subj : ∀ x, ¬ Loc.subj x ∈ L → s1.subject x = s2.subject x

theorem PRec.ext' {a b : PRec} (h1 : a.pe = b.pe) (h2 : a.n = b.n) (h3 : a.g = b.g) : a = b := by
  cases a; cases b; simp_all

theorem agreeOff_nil {s1 s2 : Ptr} (h : AgreeOff [] s1 s2) : s1 = s2 := by
  cases s1; cases s2
  simp only [Ptr.mk.injEq]
  refine ⟨funext fun x => h.peng x (by simp), funext fun x => h.taux x (by simp), ?_, h.trec,
          funext fun x => h.cod x (by simp), funext fun x => h.subj x (by simp)⟩
  funext r
  exact PRec.ext' (h.pe r) (h.fn r (by simp)) (h.fg r (by simp))

theorem agreeOff_refl (L : List Loc) (s : Ptr) : AgreeOff L s s :=
  ⟨fun _ _ => rfl, fun _ _ => rfl, fun _ _ => rfl, fun _ _ => rfl, fun _ => rfl, rfl, fun _ _ => rfl, fun _ _ => rfl⟩

theorem agreeOff_mono {L L' : List Loc} {s1 s2 : Ptr} (sub : ∀ l ∈ L, l ∈ L') (h : AgreeOff L s1 s2) :
    AgreeOff L' s1 s2 :=
  ⟨fun x hx => h.peng x (fun m => hx (sub _ m)), fun x hx => h.taux x (fun m => hx (sub _ m)),
   fun x hx => h.fn x (fun m => hx (sub _ m)), fun x hx => h.fg x (fun m => hx (sub _ m)), h.pe, h.trec,
   fun x hx => h.cod x (fun m => hx (sub _ m)), fun x hx => h.subj x (fun m => hx (sub _ m))⟩

theorem agreeOff_trans {L : List Loc} {s1 s2 s3 : Ptr} (h : AgreeOff L s1 s2) (h' : AgreeOff L s2 s3) :
    AgreeOff L s1 s3 :=
  ⟨fun x hx => (h.peng x hx).trans (h'.peng x hx), fun x hx => (h.taux x hx).trans (h'.taux x hx),
   fun x hx => (h.fn x hx).trans (h'.fn x hx), fun x hx => (h.fg x hx).trans (h'.fg x hx),
   fun r => (h.pe r).trans (h'.pe r), h.trec.trans h'.trec,
   fun x hx => (h.cod x hx).trans (h'.cod x hx), fun x hx => (h.subj x hx).trans (h'.subj x hx)⟩

/-- one write changes only its own location -/
theorem apply_frame (s : Ptr) (w : Wr) : AgreeOff [w.loc] (w.apply s) s := by
  cases w <;> constructor <;> intros <;> simp_all [Wr.apply, Wr.loc, upd] <;>
    (try split) <;> simp_all

/-- a run of writes changes only the locations it writes -/
theorem applyW_frame (s : Ptr) (ws : List Wr) : AgreeOff (locs ws) (applyW s ws) s := by
  induction ws generalizing s with
  | nil => exact agreeOff_refl _ _
  | cons w ws ih =>
    have h1 : AgreeOff (locs (w :: ws)) (applyW (w.apply s) ws) (w.apply s) :=
      agreeOff_mono (fun l hl => by simp [locs] at hl ⊢; exact Or.inr hl) (ih (w.apply s))
    have h2 : AgreeOff (locs (w :: ws)) (w.apply s) s :=
      agreeOff_mono (fun l hl => by simp [locs] at hl ⊢; exact Or.inl hl) (apply_frame s w)
    simpa [applyW] using agreeOff_trans h1 h2

/-- after the same write, two states that agreed off `loc w :: L` agree off `L` -/
theorem apply_agree {L : List Loc} {s1 s2 : Ptr} (w : Wr) (h : AgreeOff (w.loc :: L) s1 s2) :
    AgreeOff L (w.apply s1) (w.apply s2) := by
  cases w with
  | peng x r =>
    refine ⟨?_, fun y hy => h.taux y (by simpa [Wr.loc] using hy), fun y hy => h.fn y (by simpa [Wr.loc] using hy),
            fun y hy => h.fg y (by simpa [Wr.loc] using hy), h.pe, h.trec,
            fun y hy => h.cod y (by simpa [Wr.loc] using hy), fun y hy => h.subj y (by simpa [Wr.loc] using hy)⟩
    intro y hy
    by_cases e : y = x
    · simp [Wr.apply, upd, e]
    · simpa [Wr.apply, upd, e] using h.peng y (by simpa [Wr.loc, e] using hy)
  | taux x r =>
    refine ⟨fun y hy => h.peng y (by simpa [Wr.loc] using hy), ?_, fun y hy => h.fn y (by simpa [Wr.loc] using hy),
            fun y hy => h.fg y (by simpa [Wr.loc] using hy), h.pe, h.trec,
            fun y hy => h.cod y (by simpa [Wr.loc] using hy), fun y hy => h.subj y (by simpa [Wr.loc] using hy)⟩
    intro y hy
    by_cases e : y = x
    · simp [Wr.apply, upd, e]
    · simpa [Wr.apply, upd, e] using h.taux y (by simpa [Wr.loc, e] using hy)
  | fn r v =>
    refine ⟨fun y hy => h.peng y (by simpa [Wr.loc] using hy), fun y hy => h.taux y (by simpa [Wr.loc] using hy), ?_, ?_, ?_,
            h.trec, fun y hy => h.cod y (by simpa [Wr.loc] using hy), fun y hy => h.subj y (by simpa [Wr.loc] using hy)⟩
    · intro y hy
      by_cases e : y = r
      · simp [Wr.apply, upd, e]
      · simpa [Wr.apply, upd, e] using h.fn y (by simpa [Wr.loc, e] using hy)
    · intro y hy
      by_cases e : y = r
      · subst e; simpa [Wr.apply, upd] using h.fg y (by simpa [Wr.loc] using hy)
      · simpa [Wr.apply, upd, e] using h.fg y (by simpa [Wr.loc] using hy)
    · intro y
      by_cases e : y = r
      · subst e; simpa [Wr.apply, upd] using h.pe y
      · simpa [Wr.apply, upd, e] using h.pe y
  | fg r v =>
    refine ⟨fun y hy => h.peng y (by simpa [Wr.loc] using hy), fun y hy => h.taux y (by simpa [Wr.loc] using hy), ?_, ?_, ?_,
            h.trec, fun y hy => h.cod y (by simpa [Wr.loc] using hy), fun y hy => h.subj y (by simpa [Wr.loc] using hy)⟩
    · intro y hy
      by_cases e : y = r
      · subst e; simpa [Wr.apply, upd] using h.fn y (by simpa [Wr.loc] using hy)
      · simpa [Wr.apply, upd, e] using h.fn y (by simpa [Wr.loc] using hy)
    · intro y hy
      by_cases e : y = r
      · simp [Wr.apply, upd, e]
      · simpa [Wr.apply, upd, e] using h.fg y (by simpa [Wr.loc, e] using hy)
    · intro y
      by_cases e : y = r
      · subst e; simpa [Wr.apply, upd] using h.pe y
      · simpa [Wr.apply, upd, e] using h.pe y
  | cod x y0 =>
    refine ⟨fun y hy => h.peng y (by simpa [Wr.loc] using hy), fun y hy => h.taux y (by simpa [Wr.loc] using hy),
            fun y hy => h.fn y (by simpa [Wr.loc] using hy), fun y hy => h.fg y (by simpa [Wr.loc] using hy), h.pe, h.trec,
            ?_, fun y hy => h.subj y (by simpa [Wr.loc] using hy)⟩
    intro y hy
    by_cases e : y = x
    · simp [Wr.apply, upd, e]
    · simpa [Wr.apply, upd, e] using h.cod y (by simpa [Wr.loc, e] using hy)
  | subj x y0 =>
    refine ⟨fun y hy => h.peng y (by simpa [Wr.loc] using hy), fun y hy => h.taux y (by simpa [Wr.loc] using hy),
            fun y hy => h.fn y (by simpa [Wr.loc] using hy), fun y hy => h.fg y (by simpa [Wr.loc] using hy), h.pe, h.trec,
            fun y hy => h.cod y (by simpa [Wr.loc] using hy), ?_⟩
    intro y hy
    by_cases e : y = x
    · simp [Wr.apply, upd, e]
    · simpa [Wr.apply, upd, e] using h.subj y (by simpa [Wr.loc, e] using hy)

/-- determinacy: the result of a run of constant writes depends only on what it does not overwrite -/
theorem applyW_det (ws : List Wr) (s1 s2 : Ptr) (h : AgreeOff (locs ws) s1 s2) : applyW s1 ws = applyW s2 ws := by
  induction ws generalizing s1 s2 with
  | nil => simpa [applyW] using agreeOff_nil h
  | cons w ws ih =>
    simp only [applyW, List.foldl_cons]
    exact ih _ _ (apply_agree w (by simpa [locs] using h))

/-- **absorption**: an earlier run that wrote a subset of the locations leaves no trace -/
theorem applyW_absorb (s : Ptr) (ws' ws : List Wr) (sub : ∀ l ∈ locs ws', l ∈ locs ws) :
    applyW (applyW s ws') ws = applyW s ws :=
  applyW_det ws _ _ (agreeOff_mono sub (applyW_frame s ws'))

end Pyrealb.Heap
