import Pyrealb.Lemmas.ClauseFrFinite
import Pyrealb.Model.ClauseFrDep
/-! What `Dependent.processTyp` hands to the realization of the root (dependency notation, no interrogative): the root
    verb carries the negation, every other verb is a `post` dependent that is a clean infinitive or participle. -/
namespace Pyrealb.ClauseFr
open Pyrealb
open Pyrealb.Gen.ClauseFr

def DTerm.isV : DTerm → Bool | .v _ => true | _ => false

/-- a dependent of the root: if its terminal is a verb it is a `post` dependent, without negation or hyphen, an
    infinitive or a participle -/
def DepOk (d : Dep) : Prop :=
  match d.t with
  | .v y => d.rel = .post ∧ y.neg2 = none ∧ y.lier = false ∧ (y.t = .b ∨ y.t = .pp)
  | _ => True

def DI (deps : List Dep) : Prop := ∀ d ∈ deps, DepOk d

theorem depOk_nonV (d : Dep) (h : d.t.isV = false) : DepOk d := by
  unfold DepOk; cases hd : d.t <;> simp_all [DTerm.isV]

theorem di_of_nonV (l : List Dep) (h : ∀ d ∈ l, d.t.isV = false) : DI l := fun d hd => depOk_nonV d (h d hd)

theorem di_cons (d : Dep) (l : List Dep) (hd : DepOk d) (hl : DI l) : DI (d :: l) := by
  intro e he
  rcases List.mem_cons.mp he with rfl | he
  · exact hd
  · exact hl e he

theorem di_append (a b : List Dep) (ha : DI a) (hb : DI b) : DI (a ++ b) := by
  intro e he
  rcases List.mem_append.mp he with he | he
  · exact ha e he
  · exact hb e he

theorem di_eraseIdx (l : List Dep) (i : Nat) (h : DI l) : DI (l.eraseIdx i) :=
  fun d hd => h d (List.mem_of_mem_eraseIdx hd)

theorem di_set (l : List Dep) (i : Nat) (d : Dep) (h : DI l) (hd : DepOk d) : DI (l.set i d) := by
  intro e he
  rcases List.mem_or_eq_of_mem_set he with he | rfl
  · exact h e he
  · exact hd

theorem di_pyInsert (k : Nat) (d : Dep) (l : List Dep) (h : DI l) (hd : DepOk d) : DI (pyInsert k d l) := by
  intro e he
  rcases mem_pyInsert k d e l he with rfl | he
  · exact hd
  · exact h e he

theorem di_filter (l : List Dep) (p : Dep → Bool) (h : DI l) : DI (l.filter p) :=
  fun d hd => h d (List.mem_filter.mp hd).1

/-! ### construction -/

theorem pronominalizeDeps_nonV (l : List Dep) (c : Option (Gd × Nb × Int)) (h : ∀ d ∈ l, d.t.isV = false) :
    ∀ d ∈ (pronominalizeDeps l c).1, d.t.isV = false := by
  fun_induction pronominalizeDeps l c <;> simp_all +zetaDelta
  all_goals (try rfl)
  all_goals (repeat' split)
  all_goals rfl

theorem withPids_t (k : Nat) (l : List Dep) (h : ∀ d ∈ l, d.t.isV = false) : ∀ d ∈ withPids k l, d.t.isV = false := by
  induction l generalizing k with
  | nil => simp [withPids]
  | cons a r ih =>
    intro d hd
    simp only [withPids, List.mem_cons] at hd
    rcases hd with rfl | hd
    · exact h a List.mem_cons_self
    · exact ih (k + 1) (fun d hd => h d (List.mem_cons_of_mem _ hd)) d hd

theorem subjDeps_nonV (sp : Spec) : ∀ d ∈ subjDeps sp, d.t.isV = false := by
  intro d hd
  unfold subjDeps at hd
  cases hs : sp.subj with
  | none => simp [hs] at hd
  | some s => cases s <;> simp [hs] at hd <;> subst hd <;> rfl

theorem compDep_nonV (cs : List Comp) : ∀ d ∈ cs.map compDep, d.t.isV = false := by
  intro d hd
  obtain ⟨c, _, rfl⟩ := List.mem_map.mp hd
  cases c <;> rfl

theorem depElems_inv (sp : Spec) :
    (depElems sp).1.neg2 = none ∧ (depElems sp).1.lier = false ∧ (∀ d ∈ (depElems sp).2, d.t.isV = false) := by
  unfold depElems
  refine ⟨?_, ?_, ?_⟩
  · simp only []; split <;> simp [Spec.verbT, mkV]
  · simp only []; split <;> simp [Spec.verbT, mkV]
  · apply pronominalizeDeps_nonV
    apply withPids_t
    intro d hd
    rcases List.mem_append.mp hd with hd | hd
    · exact subjDeps_nonV sp d hd
    · exact compDep_nonV _ d hd

/-! ### passive -/

def NV (l : List Dep) : Prop := ∀ d ∈ l, d.t.isV = false

theorem nv_eraseIdx (l : List Dep) (i : Nat) (h : NV l) : NV (l.eraseIdx i) :=
  fun d hd => h d (List.mem_of_mem_eraseIdx hd)

theorem nv_set (l : List Dep) (i : Nat) (d : Dep) (h : NV l) (hd : d.t.isV = false) : NV (l.set i d) := by
  intro e he
  rcases List.mem_or_eq_of_mem_set he with he | rfl
  · exact h e he
  · exact hd

theorem nv_append (a b : List Dep) (ha : NV a) (hb : NV b) : NV (a ++ b) := by
  intro e he
  rcases List.mem_append.mp he with he | he
  · exact ha e he
  · exact hb e he

theorem nv_getElem (l : List Dep) (i : Nat) (d : Dep) (h : NV l) (hd : l[i]? = some d) : d.t.isV = false :=
  h d (List.mem_of_getElem? hd)

theorem passivateDepObj_nv (deps deps1 : List Dep) (obj : Option (Nat × Nb × Gd × Int)) (hd : NV deps)
    (h1 : passivateDepObj deps = .ok (obj, deps1)) : NV deps1 := by
  unfold passivateDepObj at h1
  simp only [] at h1
  split at h1
  · rename_i i _
    split at h1
    · rename_i o ho
      have hot := nv_getElem deps i o hd ho
      split at h1
      · cases h1
      · simp only [pure, Except.pure, Except.ok.injEq, Prod.mk.injEq] at h1
        obtain ⟨_, rfl⟩ := h1
        have hset : NV (deps.set i { o with rel := .subj, t := match o.t with
            | .pro p => .pro (getTonicPro p (some .nom))
            | t => t }) := by
          apply nv_set _ _ _ hd
          cases hto : o.t <;> simp_all [DTerm.isV]
        split
        · split
          · exact nv_append _ _ (nv_eraseIdx _ _ hset) (by intro d hd'; simp at hd'; subst hd'; rfl)
          · exact hset
        · exact hset
    · simp only [pure, Except.pure, Except.ok.injEq, Prod.mk.injEq] at h1
      obtain ⟨_, rfl⟩ := h1; exact hd
  · split at h1
    · split at h1
      · simp only [pure, Except.pure, Except.ok.injEq, Prod.mk.injEq] at h1
        obtain ⟨_, rfl⟩ := h1
        exact nv_append _ _ (nv_eraseIdx _ _ hd) (by intro d hd'; simp at hd'; rcases hd' with rfl | rfl <;> rfl)
      · simp only [pure, Except.pure, Except.ok.injEq, Prod.mk.injEq] at h1
        obtain ⟨_, rfl⟩ := h1; exact hd
    · simp only [pure, Except.pure, Except.ok.injEq, Prod.mk.injEq] at h1
      obtain ⟨_, rfl⟩ := h1; exact hd

theorem passivateDep_inv (v v' : VT) (deps deps' : List Dep) (hd : NV deps)
    (h : passivateDep v deps = .ok (v', deps')) : v'.neg2 = v.neg2 ∧ v'.lier = v.lier ∧ DI deps' := by
  unfold passivateDep at h
  obtain ⟨el, _, h⟩ := bindE_ok _ _ _ h
  obtain ⟨al, _, h⟩ := bindE_ok _ _ _ h
  obtain ⟨⟨obj, deps1⟩, h1, h⟩ := bindE_ok _ _ _ h
  have hd1 := passivateDepObj_nv deps deps1 obj hd h1
  simp only [pure, Except.pure, Except.ok.injEq, Prod.mk.injEq] at h
  obtain ⟨rfl, rfl⟩ := h
  refine ⟨?_, ?_, ?_⟩
  · cases obj <;> simp [VT.setLemma]
  · cases obj <;> simp [VT.setLemma]
  · apply di_pyInsert _ _ _ (di_of_nonV _ hd1)
    cases obj <;> simp [DepOk, mkV]

/-! ### `processTyp_verb` -/

/-- the root verb carries `w` and no hyphen, the dependents are `DI` -/
def DS (w : Option Str) (s : VT × List Dep) : Prop := s.1.neg2 = w ∧ s.1.lier = false ∧ DI s.2

theorem depStagePas_inv (sp : Spec) (s s' : VT × List Dep) (hn : s.1.neg2 = none) (hl : s.1.lier = false) (hd : NV s.2)
    (h : depStagePas sp s = .ok s') : DS none s' := by
  unfold depStagePas at h
  split at h
  · obtain ⟨h1, h2, h3⟩ := passivateDep_inv s.1 s'.1 s.2 s'.2 hd h
    exact ⟨by rw [h1, hn], by rw [h2, hl], h3⟩
  · cases h; exact ⟨hn, hl, di_of_nonV _ hd⟩

theorem depStageProg_inv (sp : Spec) (s s' : VT × List Dep) (hs : DS none s) (h : depStageProg sp s = .ok s') :
    DS none s' := by
  unfold depStageProg at h
  split at h
  · obtain ⟨el, _, h⟩ := bindE_ok _ _ _ h
    simp only [pure, Except.pure, Except.ok.injEq] at h
    subst h
    refine ⟨by simpa [VT.setLemma] using hs.1, by simpa [VT.setLemma] using hs.2.1, ?_⟩
    apply di_append _ _ _ hs.2.2
    intro d hd
    simp only [List.mem_cons, List.not_mem_nil, or_false] at hd
    rcases hd with rfl | rfl | rfl <;> simp [DepOk, mkV]
  · cases h; exact hs

theorem depStageMod_inv (sp : Spec) (s s' : VT × List Dep) (hs : DS none s) (h : depStageMod sp s = .ok s') :
    DS none s' := by
  unfold depStageMod at h
  split at h
  · simp only [] at h
    split at h
    · obtain ⟨lx, _, h⟩ := bindE_ok _ _ _ h
      simp only [pure, Except.pure, bind, Except.bind, Except.ok.injEq] at h
      subst h
      refine ⟨by simpa [VT.setLemma] using hs.1, by simpa [VT.setLemma] using hs.2.1, ?_⟩
      apply di_cons _ _ _ hs.2.2
      simp [DepOk, mkV]
    · simp only [pure, Except.pure, bind, Except.bind, Except.ok.injEq] at h
      subst h
      refine ⟨by simpa using hs.1, by simpa using hs.2.1, ?_⟩
      apply di_cons _ _ _ hs.2.2
      simp [DepOk, mkV]
  · cases h; exact hs

theorem depStageNeg_inv (sp : Spec) (s : VT × List Dep) (hs : DS none s) :
    DS (sp.typ.neg.map NegV.word2) (depStageNeg sp s) := by
  unfold depStageNeg
  cases hn : sp.typ.neg with
  | none => simpa using hs
  | some nv => exact ⟨rfl, hs.2.1, hs.2.2⟩

/-- **what `Dependent.processTyp` hands to the realization** (no interrogative) -/
theorem depTyped_inv (sp : Spec) (v : VT) (deps : List Dep) (e : Str) (hint : sp.typ.int = none)
    (h : depTyped sp = .ok (v, deps, e)) : DS (sp.typ.neg.map NegV.word2) (v, deps) ∧ e = [] := by
  unfold depTyped at h
  obtain ⟨s2, h2, h⟩ := bindE_ok _ _ _ h
  obtain ⟨s3, h3, h⟩ := bindE_ok _ _ _ h
  obtain ⟨s4, h4, h⟩ := bindE_ok _ _ _ h
  simp only [hint, pure, Except.pure, Except.ok.injEq, Prod.mk.injEq] at h
  obtain ⟨rfl, rfl, rfl⟩ := h
  obtain ⟨e1, e2, e3⟩ := depElems_inv sp
  exact ⟨depStageNeg_inv sp s4 (depStageMod_inv sp s3 s4 (depStageProg_inv sp s2 s3
    (depStagePas_inv sp _ s2 e1 e2 e3 h2) h3) h4), rfl⟩

/-! ### realization of the root -/

theorem depToks_noV (refl : Bool) (d : Dep) (ts : List Tok) (hd : d.t.isV = false) (h : d.toks refl = .ok ts) :
    ∀ t ∈ ts, t.isV = false := by
  unfold Dep.toks at h
  cases hdt : d.t with
  | v x => simp [hdt, DTerm.isV] at hd
  | np a => simp only [hdt, Except.ok.injEq] at h; subst h; intro t ht; simp at ht; rcases ht with rfl | rfl <;> rfl
  | pp prep inner =>
    simp only [hdt, Except.ok.injEq] at h; subst h
    intro t ht
    simp only [List.mem_cons] at ht
    rcases ht with rfl | ht
    · rfl
    · cases inner <;> simp [Inner.toks, proTok] at ht
      · rcases ht with rfl | rfl <;> rfl
      · subst ht; rfl
  | pro p => simp only [hdt, Except.ok.injEq] at h; subst h; intro t ht; simp [proTok] at ht; subst ht; rfl
  | q l => simp only [hdt, Except.ok.injEq] at h; subst h; intro t ht; simp at ht; subst ht; rfl
  | pt l => simp only [hdt, Except.ok.injEq] at h; subst h; intro t ht; simp at ht; subst ht; rfl

theorem tokTailOk_of_noV (t : Tok) (h : t.isV = false) : TokTailOk t := by
  cases t <;> simp_all [TokTailOk, Tok.isV]

theorem depToks_clean (refl : Bool) (d : Dep) (ts : List Tok) (hd : DepOk d) (h : d.toks refl = .ok ts) :
    (∀ t ∈ ts, TokTailOk t) ∧ (∀ y ∈ vts ts, NonFin y) := by
  cases hdt : d.t with
  | v x =>
    unfold DepOk at hd
    simp only [hdt] at hd
    unfold Dep.toks at h
    simp only [hdt] at h
    obtain ⟨r, hr, h⟩ := bindE_ok _ _ _ h
    simp only [pure, Except.pure, Except.ok.injEq] at h
    subst h
    exact ⟨(conj_clean x refl none r hd.2.1 hd.2.2.1 hr).1,
      (conj_vts x refl none r (by intro q hq; cases hq) hr).2 hd.2.2.2⟩
  | _ =>
    have hnv : d.t.isV = false := by rw [hdt]; rfl
    have := depToks_noV refl d ts hnv h
    exact ⟨fun t ht => tokTailOk_of_noV t (this t ht), by rw [vts_nil_of_noV ts this]; simp⟩

theorem mapM_all {α β} (f : α → Except Crash (List β)) (P : β → Prop) (l : List α) (r : List (List β))
    (hf : ∀ a ∈ l, ∀ ts, f a = .ok ts → ∀ t ∈ ts, P t) (h : l.mapM f = .ok r) : ∀ t ∈ r.flatten, P t := by
  induction l generalizing r with
  | nil => simp [List.mapM_nil, pure, Except.pure] at h; subst h; simp
  | cons a rest ih =>
    rw [List.mapM_cons] at h
    obtain ⟨ts, hts, h⟩ := bindE_ok _ _ _ h
    obtain ⟨rr, hrr, h⟩ := bindE_ok _ _ _ h
    simp only [pure, Except.pure, Except.ok.injEq] at h
    subst h
    intro t ht
    simp only [List.flatten_cons, List.mem_append] at ht
    rcases ht with ht | ht
    · exact hf a List.mem_cons_self ts hts t ht
    · exact ih rr (fun a ha => hf a (List.mem_cons_of_mem _ ha)) hrr t ht

theorem depConsumed_mem (used : Bool) (pres posts : List Dep) :
    (∀ d ∈ (depConsumed used pres posts).1, d ∈ pres) ∧ (∀ d ∈ (depConsumed used pres posts).2, d ∈ posts) := by
  unfold depConsumed
  split
  · split
    · split
      · exact ⟨fun d hd => List.mem_of_mem_eraseIdx hd, fun d hd => hd⟩
      · exact ⟨fun d hd => hd, fun d hd => List.mem_of_mem_eraseIdx hd⟩
    · exact ⟨fun d hd => hd, fun d hd => hd⟩
  · exact ⟨fun d hd => hd, fun d hd => hd⟩

theorem isPre_nonV (d : Dep) (hd : DepOk d) (hp : d.isPre = true) : d.t.isV = false := by
  cases hdt : d.t with
  | v x =>
    unfold DepOk at hd
    simp only [hdt] at hd
    simp [Dep.isPre, hd.1] at hp
  | _ => rfl

theorem vts_of_all (l : List Tok) (h : ∀ t ∈ l, ∀ y, t.vt? = some y → NonFin y) : ∀ y ∈ vts l, NonFin y := by
  intro y hy
  obtain ⟨t, ht, hty⟩ := List.mem_filterMap.mp hy
  exact h t ht y hty

theorem all_of_vts (l : List Tok) (h : ∀ y ∈ vts l, NonFin y) : ∀ t ∈ l, ∀ y, t.vt? = some y → NonFin y :=
  fun t ht y hty => h y (List.mem_filterMap.mpr ⟨t, ht, hty⟩)

/-- the pieces `depReal` puts together: verb-free tokens of the `pre` dependents, the conjugated root verb, clean
    tokens of the others -/
theorem depReal_parts (refl : Bool) (v : VT) (deps : List Dep) (toks : List Tok) (hd : DI deps)
    (h : depReal refl v deps = .ok toks) :
    ∃ rv preT postT, conjugate v refl (depNextPro (deps.filter Dep.isPre ++ deps.filter (fun d => !d.isPre))) = .ok rv ∧
      (∀ t ∈ preT, t.isV = false) ∧ (∀ t ∈ postT, TokTailOk t) ∧ (∀ y ∈ vts postT, NonFin y) ∧
      (if rootIsVToks rv.1 then placePronouns refl (removeEmpty (preT ++ rv.1 ++ postT)) = .ok toks
       else toks = removeEmpty (preT ++ rv.1 ++ postT)) := by
  unfold depReal at h
  obtain ⟨rv, hrv, h⟩ := bindE_ok _ _ _ h
  obtain ⟨preToks, hpre, h⟩ := bindE_ok _ _ _ h
  obtain ⟨postToks, hpost, h⟩ := bindE_ok _ _ _ h
  obtain ⟨m1, m2⟩ := depConsumed_mem rv.2 (deps.filter Dep.isPre) (deps.filter (fun d => !d.isPre))
  refine ⟨rv, preToks.flatten, postToks.flatten, hrv, ?_, ?_, ?_, ?_⟩
  · apply mapM_all _ (fun t => t.isV = false) _ _ _ hpre
    intro d hd' ts hts
    have hdm := List.mem_filter.mp (m1 d hd')
    exact depToks_noV refl d ts (isPre_nonV d (hd d hdm.1) hdm.2) hts
  · apply mapM_all _ TokTailOk _ _ _ hpost
    intro d hd' ts hts
    exact (depToks_clean _ d ts (hd d (List.mem_filter.mp (m2 d hd')).1) hts).1
  · apply vts_of_all
    apply mapM_all _ (fun t => ∀ y, t.vt? = some y → NonFin y) _ _ _ hpost
    intro d hd' ts hts
    exact all_of_vts ts (depToks_clean _ d ts (hd d (List.mem_filter.mp (m2 d hd')).1) hts).2
  · split
    · rename_i hroot
      simpa [hroot] using h
    · rename_i hroot
      simp only [hroot, Bool.false_eq_true, if_false, pure, Except.pure, Except.ok.injEq] at h
      exact h.symm

theorem depNextPro_noV (l : List Dep) (q : Tok) (h : depNextPro l = some q) : q.isV = false := by
  unfold depNextPro at h
  split at h
  · split at h
    · split at h
      · cases h; rfl
      · cases h
    · cases h
  · cases h

/-- **one finite verb, dependency notation**: among the verb tokens of the realized clause only the first can be a
    finite form -/
theorem depReal_one_finite (refl : Bool) (v : VT) (deps : List Dep) (toks : List Tok) (hd : DI deps)
    (h : depReal refl v deps = .ok toks) : ∀ t ∈ (vts toks).tail, NonFin t := by
  obtain ⟨rv, preT, postT, hrv, hpre, _, hpost, hfin⟩ := depReal_parts refl v deps toks hd h
  have hc := (conj_vts v refl _ rv (fun q hq => depNextPro_noV _ q hq) hrv).1
  have h1 : ∀ t ∈ (vts (preT ++ rv.1 ++ postT)).tail, NonFin t := by
    intro t ht
    rw [vts_append, vts_append, vts_nil_of_noV preT hpre, List.nil_append] at ht
    rcases mem_tail_append _ _ t ht with ht | ht
    · exact hc t ht
    · exact hpost t ht
  have h2 := tail_sublist_nonfin _ _ (vts_sublist _ _ (removeEmpty_sublist _)) h1
  split at hfin
  · rw [vts_place refl _ toks hfin]; exact h2
  · rw [hfin]; exact h2

/-! ### the chain of verbs -/

def Dep.vc? (d : Dep) : Option (Str × Tense) :=
  match d.t with
  | .v y => some (y.lex.lemma, y.t)
  | _ => none

/-- the verbs among the dependents, in order -/
def depChain (deps : List Dep) : List (Str × Tense) := deps.filterMap Dep.vc?

/-- the root verb first, then the verbs among its dependents -/
def chainOf (s : VT × List Dep) : List (Str × Tense) := (s.1.lex.lemma, s.1.t) :: depChain s.2

theorem vc_nonV (d : Dep) (h : d.t.isV = false) : d.vc? = none := by
  unfold Dep.vc?; cases hd : d.t <;> simp_all [DTerm.isV]

theorem depChain_nv (l : List Dep) (h : NV l) : depChain l = [] := by
  unfold depChain
  rw [List.filterMap_eq_nil_iff]
  exact fun d hd => vc_nonV d (h d hd)

theorem depChain_append (a b : List Dep) : depChain (a ++ b) = depChain a ++ depChain b := by
  simp [depChain, List.filterMap_append]

theorem depChain_pyInsert_nv (k : Nat) (d : Dep) (l : List Dep) (h : NV l) :
    depChain (pyInsert k d l) = d.vc?.toList := by
  rw [pyInsert_split, depChain_append]
  have h1 : depChain (l.take k) = [] := depChain_nv _ (fun e he => h e (List.mem_of_mem_take he))
  have h2 : depChain (l.drop k) = [] := depChain_nv _ (fun e he => h e (List.mem_of_mem_drop he))
  rw [h1, List.nil_append]
  show depChain ([d] ++ _) = _
  rw [depChain_append, h2, List.append_nil]
  cases hv : d.vc? <;> simp [depChain, hv]

theorem passivateDep_chain (v v' : VT) (deps deps' : List Dep) (hd : NV deps)
    (h : passivateDep v deps = .ok (v', deps')) :
    chainOf (v', deps') = [(if v.lex.lemma = etre then avoir else etre, v.t), (v.lex.lemma, .pp)] := by
  unfold passivateDep at h
  obtain ⟨el, hel, h⟩ := bindE_ok _ _ _ h
  obtain ⟨al, hal, h⟩ := bindE_ok _ _ _ h
  obtain ⟨⟨obj, deps1⟩, h1, h⟩ := bindE_ok _ _ _ h
  have hd1 := passivateDepObj_nv deps deps1 obj hd h1
  have he := auxLex_lemma _ _ hel
  have ha := auxLex_lemma _ _ hal
  simp only [pure, Except.pure, Except.ok.injEq, Prod.mk.injEq] at h
  obtain ⟨rfl, rfl⟩ := h
  unfold chainOf
  rw [depChain_pyInsert_nv _ _ _ hd1]
  cases obj with
  | none =>
    simp only [VT.setLemma, Dep.vc?, mkV, Option.toList]
    split <;> simp_all
  | some o =>
    simp only [VT.setLemma, Dep.vc?, mkV, Option.toList]
    split <;> simp_all

/-! ### the interrogative: `Dependent.processTypInt` keeps the invariant and the chain of verbs -/

theorem vc_none_of_rel (d : Dep) (hd : DepOk d) (hr : d.rel ≠ .post) : d.vc? = none := by
  unfold Dep.vc?
  unfold DepOk at hd
  cases hdt : d.t with
  | v y => simp only [hdt] at hd; exact absurd hd.1 hr
  | _ => rfl

theorem depChain_cons (d : Dep) (l : List Dep) : depChain (d :: l) = d.vc?.toList ++ depChain l := by
  cases h : d.vc? <;> simp [depChain, List.filterMap_cons, h]

theorem depChain_eraseIdx (l : List Dep) (i : Nat) (h : ∀ d, l[i]? = some d → d.vc? = none) :
    depChain (l.eraseIdx i) = depChain l := by
  induction l generalizing i with
  | nil => rfl
  | cons a r ih =>
    cases i with
    | zero =>
      have := h a rfl
      simp [List.eraseIdx, depChain_cons, this]
    | succ j =>
      simp only [List.eraseIdx, depChain_cons]
      rw [ih j (fun d hd => h d (by simpa using hd))]

/-- erasing the first dependent that satisfies a test which no `post` dependent passes -/
theorem erase_first_inv (p : Dep → Bool) (l : List Dep) (i : Nat) (hp : ∀ d, p d = true → d.rel ≠ .post) (hl : DI l)
    (hi : firstIdx p l = some i) : DI (l.eraseIdx i) ∧ depChain (l.eraseIdx i) = depChain l := by
  obtain ⟨e, he, hpe⟩ := firstIdx_getElem p l i hi
  refine ⟨di_eraseIdx l i hl, depChain_eraseIdx l i ?_⟩
  intro d hd
  rw [he] at hd
  cases hd
  exact vc_none_of_rel e (hl e (List.mem_of_getElem? he)) (hp e hpe)

theorem moveObjectDep_inv (int : Str) (v : VT) (deps : List Dep) (hd : DI deps) :
    (moveObjectDep int v deps).1.neg2 = v.neg2 ∧ DI (moveObjectDep int v deps).2 ∧
      chainOf (moveObjectDep int v deps) = chainOf (v, deps) := by
  have hestce : ∀ q : Str, DI ({ rel := .det, t := .q q } :: deps) ∧
      chainOf (v, ({ rel := .det, t := .q q } : Dep) :: deps) = chainOf (v, deps) := by
    intro q
    exact ⟨di_cons _ _ (depOk_nonV _ rfl) hd, by simp [chainOf, depChain_cons, Dep.vc?]⟩
  have hinv : ∀ (p : ProT) (l : List Dep), DI l → depChain l = depChain deps →
      DI ({ rel := .post, t := .pro p } :: l) ∧
      chainOf ({ v with lier := true }, ({ rel := .post, t := .pro p } : Dep) :: l) = chainOf (v, deps) := by
    intro p l hl hc
    exact ⟨di_cons _ _ (depOk_nonV _ rfl) hl, by simp [chainOf, depChain_cons, Dep.vc?, hc]⟩
  unfold moveObjectDep
  cases hsi : firstIdx (fun (d : Dep) => decide (d.rel = .subj)) deps with
  | none => exact ⟨rfl, hd, rfl⟩
  | some si =>
    have her := erase_first_inv _ deps si (by intro d h1 h2; simp at h1; rw [h1] at h2; cases h2) hd hsi
    simp only []
    cases hsd : deps[si]? with
    | none => exact ⟨rfl, hd, rfl⟩
    | some sd =>
      simp only []
      cases hst : sd.t with
      | pro p =>
        simp only []
        split
        · split
          · exact ⟨rfl, (hestce _).1, (hestce _).2⟩
          · exact ⟨rfl, (hinv _ deps hd rfl).1, (hinv _ deps hd rfl).2⟩
        · split
          · exact ⟨rfl, (hestce _).1, (hestce _).2⟩
          · exact ⟨rfl, (hinv _ _ her.1 her.2).1, (hinv _ _ her.1 her.2).2⟩
      | np a =>
        simp only []
        split
        · exact ⟨rfl, (hestce _).1, (hestce _).2⟩
        · exact ⟨rfl, (hinv _ deps hd rfl).1, (hinv _ deps hd rfl).2⟩
      | _ => exact ⟨rfl, hd, rfl⟩

theorem depChain_map (f : Dep → Dep) (l : List Dep) (h : ∀ d, (f d).vc? = d.vc?) : depChain (l.map f) = depChain l := by
  induction l with
  | nil => rfl
  | cons a r ih => simp only [List.map_cons, depChain_cons, h a, ih]

/-- `wos` / `was`: the verbs that share the `peng` of the root verb become 3rd person singular with it -/
def wosMap (d : Dep) : Dep :=
  match d.t with
  | .v x => if x.shared then { d with t := .v { x with n := .s, pe := 3 } } else d
  | _ => d

theorem wosMap_vc (d : Dep) : (wosMap d).vc? = d.vc? := by
  unfold wosMap
  split
  · rename_i x hx
    split
    · simp [Dep.vc?, hx]
    · rfl
  · rfl

theorem wosMap_ok (d : Dep) (hd : DepOk d) : DepOk (wosMap d) := by
  unfold wosMap
  split
  · rename_i x hx
    split
    · unfold DepOk at hd ⊢
      simp only [hx] at hd
      exact hd
    · exact hd
  · exact hd

theorem moveObjectDep_inv' (int : Str) (v : VT) (deps l : List Dep) (hl : DI l) (hc : depChain l = depChain deps) :
    (moveObjectDep int v l).1.neg2 = v.neg2 ∧ DI (moveObjectDep int v l).2 ∧
      chainOf ((moveObjectDep int v l).1, (moveObjectDep int v l).2) = chainOf (v, deps) := by
  obtain ⟨m1, m2, m3⟩ := moveObjectDep_inv int v l hl
  refine ⟨m1, m2, ?_⟩
  have : chainOf ((moveObjectDep int v l).1, (moveObjectDep int v l).2) = chainOf (v, l) := m3
  rw [this]
  simp [chainOf, hc]

theorem processIntDepCore_inv (int : Str) (v : VT) (deps : List Dep) (r : VT × List Dep × Bool × Str × Option Str)
    (hd : DI deps) (h : processIntDepCore int v deps = .ok r) :
    r.1.neg2 = v.neg2 ∧ DI r.2.1 ∧ chainOf (r.1, r.2.1) = chainOf (v, deps) := by
  unfold processIntDepCore at h
  split at h
  · simp only [pure, Except.pure, Except.ok.injEq] at h
    subst h
    exact moveObjectDep_inv' int v deps deps hd rfl
  · split at h
    · split at h
      · rename_i i hi
        simp only [pure, Except.pure, Except.ok.injEq] at h
        subst h
        have her := erase_first_inv _ deps i (by intro d h1 h2; simp at h1; rw [h1] at h2; cases h2) hd hi
        refine ⟨rfl, ?_, ?_⟩
        · show DI ((deps.eraseIdx i).map wosMap)
          intro d hdm
          obtain ⟨d0, hd0, rfl⟩ := List.mem_map.mp hdm
          exact wosMap_ok d0 (her.1 d0 hd0)
        · show chainOf (_, (deps.eraseIdx i).map wosMap) = _
          simp only [chainOf]
          rw [depChain_map _ _ wosMap_vc, her.2]
      · simp only [pure, Except.pure, Except.ok.injEq] at h
        subst h
        exact ⟨rfl, hd, rfl⟩
    · split at h
      · simp only [pure, Except.pure, Except.ok.injEq] at h
        subst h
        -- the questioned object, then the agent « par … »
        have ha : DI (match firstIdx (fun (d : Dep) => d.rel = .comp && d.t.isNorPro) deps with
              | some i => deps.eraseIdx i
              | none => deps) ∧
            depChain (match firstIdx (fun (d : Dep) => d.rel = .comp && d.t.isNorPro) deps with
              | some i => deps.eraseIdx i
              | none => deps) = depChain deps := by
          split
          · rename_i i hi
            exact erase_first_inv _ deps i (by intro d h1 h2; simp at h1; rw [h1.1] at h2; cases h2) hd hi
          · exact ⟨hd, rfl⟩
        simp only []
        split
        · rename_i j hj
          have hb := erase_first_inv _ _ j (by intro d h1 h2; simp at h1; rw [h1.1] at h2; cases h2) ha.1 hj
          exact moveObjectDep_inv' int v deps _ hb.1 (hb.2.trans ha.2)
        · exact moveObjectDep_inv' int v deps _ ha.1 ha.2
      · split at h
        · split at h
          · cases h
          · simp only [pure, Except.pure, Except.ok.injEq] at h
            subst h
            simp only []
            split
            · rename_i i hi
              have hb := erase_first_inv _ deps i (by
                intro d h1 h2
                simp only [Bool.and_eq_true, Bool.or_eq_true, decide_eq_true_eq] at h1
                rcases h1.1 with h3 | h3 <;> (rw [h3] at h2; cases h2)) hd hi
              exact moveObjectDep_inv' int v deps _ hb.1 hb.2
            · exact moveObjectDep_inv' int v deps deps hd rfl
        · split at h <;>
          · simp only [pure, Except.pure, Except.ok.injEq] at h
            subst h
            exact ⟨rfl, hd, rfl⟩

/-- **`Dependent.processTypInt`**: the root verb keeps its negation, the dependents stay `DI`, the chain of verbs is
    unchanged (the verb may become hyphen-linked: the inverted subject pronoun follows it) -/
theorem processIntDep_inv (int : Str) (v v' : VT) (deps deps' : List Dep) (e : Str) (hd : DI deps)
    (h : processIntDep int v deps = .ok (v', deps', e)) :
    v'.neg2 = v.neg2 ∧ DI deps' ∧ chainOf (v', deps') = chainOf (v, deps) := by
  unfold processIntDep at h
  obtain ⟨dflt, _, h⟩ := bindE_ok _ _ _ h
  obtain ⟨r, hr, h⟩ := bindE_ok _ _ _ h
  obtain ⟨c1, c2, c3⟩ := processIntDepCore_inv int v deps r hd hr
  simp only [pure, Except.pure, Except.ok.injEq, Prod.mk.injEq] at h
  obtain ⟨rfl, rfl, _⟩ := h
  refine ⟨c1, ?_, ?_⟩
  · split
    · apply di_cons _ _ (depOk_nonV _ rfl)
      split
      · exact di_cons _ _ (depOk_nonV _ rfl) c2
      · exact di_cons _ _ (depOk_nonV _ rfl) c2
    · exact di_cons _ _ (depOk_nonV _ rfl) c2
  · rw [← c3]
    split
    · split <;> simp [chainOf, depChain_cons, Dep.vc?]
    · simp [chainOf, depChain_cons, Dep.vc?]

/-- **what `Dependent.processTyp` hands to the realization**, with or without an interrogative -/
theorem depTyped_inv_any (sp : Spec) (v : VT) (deps : List Dep) (e : Str) (h : depTyped sp = .ok (v, deps, e)) :
    v.neg2 = sp.typ.neg.map NegV.word2 ∧ DI deps ∧ (sp.typ.int = none → v.lier = false) := by
  unfold depTyped at h
  obtain ⟨s2, h2, h⟩ := bindE_ok _ _ _ h
  obtain ⟨s3, h3, h⟩ := bindE_ok _ _ _ h
  obtain ⟨s4, h4, h⟩ := bindE_ok _ _ _ h
  obtain ⟨e1, e2, e3⟩ := depElems_inv sp
  have h5 := depStageNeg_inv sp s4 (depStageMod_inv sp s3 s4 (depStageProg_inv sp s2 s3
    (depStagePas_inv sp _ s2 e1 e2 e3 h2) h3) h4)
  cases hint : sp.typ.int with
  | none =>
    simp only [hint, pure, Except.pure, Except.ok.injEq, Prod.mk.injEq] at h
    obtain ⟨rfl, rfl, rfl⟩ := h
    exact ⟨h5.1, h5.2.2, fun _ => h5.2.1⟩
  | some i =>
    simp only [hint] at h
    obtain ⟨c1, c2, _⟩ := processIntDep_inv i _ v _ deps e h5.2.2 h
    exact ⟨by rw [c1, h5.1], c2, fun hc => by cases hc⟩

end Pyrealb.ClauseFr
