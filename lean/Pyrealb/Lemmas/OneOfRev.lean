/-! Reversed-stack view of `oneOf` for one key (head = what `indices.pop()` returns) and its invariants.
    `Pyrealb.OneOf.stepPy` (Python list order) is related to this view in `Lemmas/OneOfBridge`. -/
namespace Pyrealb.OneOf.Rev

/-- Python: `indices[0],indices[-1] = indices[-1],indices[0]` on the reversed view (head = next to pop). -/
def swapHL : List Nat → List Nat
  | [] => []
  | [a] => [a]
  | a :: rest => rest.getLast! :: (rest.dropLast ++ [a])

/-- One call on the reversed view `rem` (head = element that `pop()` returns).
    `perm` is what `random.shuffle(range n)` produces at this call, already reversed. -/
def step (mem : Option (List Nat)) (perm : List Nat) : Nat × List Nat :=
  match mem with
  | none =>
    match perm with
    | [] => (0, [])
    | i :: r => (i, r)
  | some [] => (0, [])
  | some (i :: r) =>
    if r.isEmpty then
      let p := match perm with
        | [] => []
        | j :: _ => if j = i then swapHL perm else perm
      (i, p)
    else (i, r)

def run : Option (List Nat) → List (List Nat) → List Nat
  | _, [] => []
  | mem, p :: ps => (step mem p).1 :: run (some (step mem p).2) ps


/-! ### swapHL facts -/

theorem swapHL_perm : ∀ l : List Nat, (swapHL l).Perm l
  | [] => .refl _
  | [_] => .refl _
  | a :: b :: r => by
    have hne : (b :: r) ≠ [] := by simp
    have h1 : (b :: r) = (b :: r).dropLast ++ [(b :: r).getLast hne] := (List.dropLast_concat_getLast hne).symm
    have hg : (b :: r).getLast! = (b :: r).getLast hne := by
      simp [List.getLast!_eq_getLast?_getD, List.getLast?_eq_some_getLast hne]
    show ((b :: r).getLast! :: ((b :: r).dropLast ++ [a])).Perm (a :: b :: r)
    rw [hg]
    have : (a :: b :: r).Perm (a :: ((b :: r).dropLast ++ [(b :: r).getLast hne])) := by rw [← h1]
    refine List.Perm.trans ?_ this.symm
    -- x :: (d ++ [a])  ~  a :: (d ++ [x])
    generalize (b :: r).dropLast = d
    generalize (b :: r).getLast hne = x
    have e1 : (x :: (d ++ [a])).Perm (x :: a :: d) := by
      refine List.Perm.cons _ ?_
      exact (List.perm_append_comm (l₁ := d) (l₂ := [a]))
    have e2 : (a :: (d ++ [x])).Perm (a :: x :: d) := by
      refine List.Perm.cons _ ?_
      exact (List.perm_append_comm (l₁ := d) (l₂ := [x]))
    exact e1.trans ((List.Perm.swap a x d).trans e2.symm)

/-- the head of `swapHL l` is the last of `l`; with `Nodup` and length ≥ 2 it differs from the head of `l`. -/
theorem swapHL_head_ne (a b : Nat) (r : List Nat) (hnd : (a :: b :: r).Nodup) :
    ∃ h t, swapHL (a :: b :: r) = h :: t ∧ h ≠ a := by
  have hne : (b :: r) ≠ [] := by simp
  refine ⟨(b :: r).getLast!, (b :: r).dropLast ++ [a], rfl, ?_⟩
  have hg : (b :: r).getLast! = (b :: r).getLast hne := by
    simp [List.getLast!_eq_getLast?_getD, List.getLast?_eq_some_getLast hne]
  rw [hg]
  have hmem : (b :: r).getLast hne ∈ (b :: r) := List.getLast_mem hne
  intro heq
  have : a ∈ (b :: r) := heq ▸ hmem
  exact (List.nodup_cons.mp hnd).1 this

end Pyrealb.OneOf.Rev

namespace Pyrealb.OneOf.Rev

/-- validity of a shuffle outcome for `n` alternatives -/
def IsPerm (n : Nat) (p : List Nat) : Prop := p.Perm (List.range n)

theorem IsPerm.nodup {n p} (h : IsPerm n p) : p.Nodup := (List.Perm.nodup_iff h).mpr List.nodup_range
theorem IsPerm.length {n p} (h : IsPerm n p) : p.length = n := by
  have := List.Perm.length_eq h; simpa using this

/-- after any call from a good state the new state is good and its head differs from what was returned -/
def Good (rem : List Nat) : Prop := rem ≠ [] ∧ rem.Nodup

theorem fix_good {n : Nat} (hn : 2 ≤ n) (i : Nat) (perm : List Nat) (hp : IsPerm n perm) :
    ∃ h t, (match perm with | [] => [] | j :: _ => if j = i then swapHL perm else perm) = h :: t
      ∧ h ≠ i ∧ (h :: t).Perm (List.range n) := by
  have hl := hp.length
  match perm, hp, hl with
  | [], _, hl => simp at hl; omega
  | [a], _, hl => simp at hl; omega
  | a :: b :: r, hp, _ =>
    by_cases hai : a = i
    · subst hai
      obtain ⟨h, t, e, hne⟩ := swapHL_head_ne a b r hp.nodup
      refine ⟨h, t, ?_, hne, ?_⟩
      · simp [e]
      · rw [← e]; exact (swapHL_perm _).trans hp
    · refine ⟨a, b :: r, ?_, hai, hp⟩
      simp [hai]

theorem step_some {n : Nat} (hn : 2 ≤ n) (i : Nat) (r perm : List Nat) (hg : Good (i :: r))
    (hp : IsPerm n perm) :
    (step (some (i :: r)) perm).1 = i ∧
    ((r ≠ [] ∧ (step (some (i :: r)) perm).2 = r) ∨
     (r = [] ∧ IsPerm n (step (some (i :: r)) perm).2)) ∧
    Good (step (some (i :: r)) perm).2 ∧
    (step (some (i :: r)) perm).2.head? ≠ some i := by
  by_cases hr : r = []
  · subst hr
    obtain ⟨h, t, e, hne, hperm⟩ := fix_good hn i perm hp
    have hs : (step (some [i]) perm).2 = h :: t := by simp [step, e]
    refine ⟨by simp [step], Or.inr ⟨rfl, ?_⟩, ?_, ?_⟩
    · rw [hs]; exact hperm
    · rw [hs]; exact ⟨by simp, (List.Perm.nodup_iff hperm).mpr List.nodup_range⟩
    · rw [hs]; simp [hne]
  · have hs : step (some (i :: r)) perm = (i, r) := by
      cases r with
      | nil => exact absurd rfl hr
      | cons a t => simp [step]
    refine ⟨by rw [hs], Or.inl ⟨hr, by rw [hs]⟩, ?_, ?_⟩
    · rw [hs]; exact ⟨hr, (List.nodup_cons.mp hg.2).2⟩
    · rw [hs]
      cases r with
      | nil => exact absurd rfl hr
      | cons a t =>
        simp only [List.head?_cons]
        intro h
        have : a = i := by injection h
        have hmem : i ∈ a :: t := by rw [this]; simp
        exact (List.nodup_cons.mp hg.2).1 hmem

/-- adjacent elements differ -/
def NoRep : List Nat → Prop
  | [] => True
  | [_] => True
  | a :: b :: r => a ≠ b ∧ NoRep (b :: r)

/-- **No back-to-back repeat**, from any good state, for every sequence of shuffle outcomes. -/
theorem run_chain {n : Nat} (hn : 2 ≤ n) :
    ∀ (ps : List (List Nat)) (rem : List Nat), Good rem → (∀ p ∈ ps, IsPerm n p) →
      NoRep (run (some rem) ps) ∧ (ps ≠ [] → (run (some rem) ps).head? = rem.head?) := by
  intro ps
  induction ps with
  | nil => intro rem _ _; exact ⟨by simp [run, NoRep], by simp⟩
  | cons p ps ih =>
    intro rem hg hps
    obtain ⟨i, r, rfl⟩ : ∃ i r, rem = i :: r := by
      cases rem with
      | nil => exact absurd rfl hg.1
      | cons i r => exact ⟨i, r, rfl⟩
    have hp : IsPerm n p := hps p (by simp)
    obtain ⟨h1, _, hg', hne⟩ := step_some hn i r p hg hp
    have ih' := ih (step (some (i :: r)) p).2 hg' (fun q hq => hps q (by simp [hq]))
    refine ⟨?_, fun _ => by simp [run, h1]⟩
    show NoRep ((step (some (i :: r)) p).1 :: run (some (step (some (i :: r)) p).2) ps)
    rw [h1]
    cases hps' : ps with
    | nil => simp [run, NoRep]
    | cons q qs =>
      have hh := ih'.2 (by simp [hps'])
      rw [hps'] at hh ih'
      -- run ... (q :: qs) is a cons whose head is the head of the new state
      cases hrun : run (some (step (some (i :: r)) p).2) (q :: qs) with
      | nil => simp [NoRep]
      | cons x xs =>
        rw [hrun] at hh ih'
        refine ⟨?_, ih'.1⟩
        intro hix
        apply hne
        rw [← hh]; simp [hix]

end Pyrealb.OneOf.Rev

namespace Pyrealb.OneOf.Rev

/-- every aligned block of `n` outputs is a permutation of `range n` -/
def BlockPerm (n : Nat) (l : List Nat) : Prop :=
  ∀ k, (k + 1) * n ≤ l.length → ((l.drop (k * n)).take n).Perm (List.range n)

theorem blockPerm_append {n : Nat} (B l : List Nat) (hB : B.Perm (List.range n)) (hl : BlockPerm n l) :
    BlockPerm n (B ++ l) := by
  have hlen : B.length = n := by simpa using hB.length_eq
  intro k hk
  cases k with
  | zero =>
    simp only [Nat.zero_mul, List.drop_zero]
    rw [List.take_append_of_le_length (by omega)]
    rw [List.take_of_length_le (by omega)]
    exact hB
  | succ k =>
    have e : (k + 1) * n = B.length + k * n := by rw [hlen, Nat.succ_mul]; omega
    rw [e, ← List.drop_drop, List.drop_left]
    apply hl k
    have : (B ++ l).length = n + l.length := by simp [hlen]
    rw [this] at hk
    have e2 : (k + 1 + 1) * n = (k + 1) * n + n := Nat.succ_mul _ _
    omega

theorem blockPerm_short {n : Nat} (l : List Nat) (h : l.length < n) : BlockPerm n l := by
  intro k hk
  have : n ≤ (k + 1) * n := Nat.le_mul_of_pos_left n (by omega)
  omega

/-- **Block permutation** from a state with ghost `done` (outputs already produced in the current block). -/
theorem run_block {n : Nat} (hn : 2 ≤ n) :
    ∀ (ps : List (List Nat)) (done rem : List Nat), Good rem → (done ++ rem).Perm (List.range n) →
      (∀ p ∈ ps, IsPerm n p) → BlockPerm n (done ++ run (some rem) ps) := by
  intro ps
  induction ps with
  | nil =>
    intro done rem hg hperm _
    have hl : (done ++ rem).length = n := by simpa using hperm.length_eq
    have : rem.length ≠ 0 := by
      intro h; exact hg.1 (List.length_eq_zero_iff.mp h)
    apply blockPerm_short
    simp [run] at hl ⊢; omega
  | cons p ps ih =>
    intro done rem hg hperm hps
    obtain ⟨i, r, rfl⟩ : ∃ i r, rem = i :: r := by
      cases rem with
      | nil => exact absurd rfl hg.1
      | cons i r => exact ⟨i, r, rfl⟩
    have hp : IsPerm n p := hps p (by simp)
    obtain ⟨h1, hcase, hg', _⟩ := step_some hn i r p hg hp
    have hps' : ∀ q ∈ ps, IsPerm n q := fun q hq => hps q (by simp [hq])
    show BlockPerm n (done ++ ((step (some (i :: r)) p).1 :: run (some (step (some (i :: r)) p).2) ps))
    rw [h1]
    have eapp : done ++ i :: run (some (step (some (i :: r)) p).2) ps
        = (done ++ [i]) ++ run (some (step (some (i :: r)) p).2) ps := by simp
    rw [eapp]
    rcases hcase with ⟨_, hs⟩ | ⟨hr, hs⟩
    · rw [hs]
      apply ih (done ++ [i]) r (by rw [← hs]; exact hg') ?_ hps'
      simpa using hperm
    · subst hr
      apply blockPerm_append
      · simpa using hperm
      · have := ih [] (step (some [i]) p).2 hg' (by simpa [IsPerm] using hs) hps'
        simpa using this

/-- Top-level statements: first call has no memory. -/
theorem oneOf_no_repeat {n : Nat} (hn : 2 ≤ n) (ps : List (List Nat)) (hps : ∀ p ∈ ps, IsPerm n p) :
    NoRep (run none ps) := by
  cases ps with
  | nil => simp [run, NoRep]
  | cons p ps =>
    have hp : IsPerm n p := hps p (by simp)
    have hl := hp.length
    match p, hp, hl with
    | [], _, hl => simp at hl; omega
    | [a], _, hl => simp at hl; omega
    | a :: b :: r, hp, _ =>
      have hg : Good (b :: r) := ⟨by simp, (List.nodup_cons.mp hp.nodup).2⟩
      have hrest := run_chain hn ps (b :: r) hg (fun q hq => hps q (by simp [hq]))
      show NoRep (a :: run (some (b :: r)) ps)
      cases hps' : ps with
      | nil => simp [run, NoRep]
      | cons q qs =>
        rw [hps'] at hrest
        have hh := hrest.2 (by simp)
        cases hrun : run (some (b :: r)) (q :: qs) with
        | nil => simp [NoRep]
        | cons x xs =>
          rw [hrun] at hh hrest
          refine ⟨?_, hrest.1⟩
          intro hax
          have : x = b := by simpa using hh
          have hmem : a ∈ b :: r := by rw [hax, this]; simp
          exact (List.nodup_cons.mp hp.nodup).1 hmem

theorem oneOf_block_perm {n : Nat} (hn : 2 ≤ n) (ps : List (List Nat)) (hps : ∀ p ∈ ps, IsPerm n p) :
    BlockPerm n (run none ps) := by
  cases ps with
  | nil => exact blockPerm_short _ (by simp [run]; omega)
  | cons p ps =>
    have hp : IsPerm n p := hps p (by simp)
    have hl := hp.length
    match p, hp, hl with
    | [], _, hl => simp at hl; omega
    | [a], _, hl => simp at hl; omega
    | a :: b :: r, hp, _ =>
      have hg : Good (b :: r) := ⟨by simp, (List.nodup_cons.mp hp.nodup).2⟩
      have := run_block hn ps [a] (b :: r) hg (by simpa [IsPerm] using hp) (fun q hq => hps q (by simp [hq]))
      simpa [run, step] using this

end Pyrealb.OneOf.Rev
