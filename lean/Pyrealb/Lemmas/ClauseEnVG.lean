import Pyrealb.Lemmas.ClauseEnSpec
/-! The verb group built by `affixHopping` against the declarative verb group: checked by `decide` on every verb class,
    tense and flag combination (the 14 interrogative values are first reduced to the three classes the code
    distinguishes; this reduction is itself proved). -/
namespace Pyrealb.ClauseEn

/-- the flag combinations on which the unchanged code departs from the prescribed verb group -/
def Irregular (v : VLemma) (t : Tense) (ty : Typ) : Bool :=
  let noAux := (specAux t ty).isEmpty
  let haveFirst := ty.mod.isNone && !t.isFuture && ty.perf
  (v == .do_ && ty.neg && noAux && !ty.questioned)               -- "does not" : the verb is lost
  || (v == .have && ty.neg && (haveFirst || noAux))               -- "does not have had" / do-support for have
  || ((v == .can || v == .will || v == .shall || v == .may || v == .must) && ty.questioned && noAux)  -- "does he can"

/-- representative of the class of an interrogative value as far as the verb group is concerned -/
def intRep : Option Int → Option Int
  | none => none
  | some .wos | some .was | some .tag => some .wos
  | some _ => some .yon

def Typ.norm (ty : Typ) : Typ := { ty with contr := false, exc := false, int := intRep ty.int }

def Typ.verbFlags3 : List Typ :=
  boolAll.flatMap fun neg => boolAll.flatMap fun pas => boolAll.flatMap fun perf => boolAll.flatMap fun prog =>
    Mod.allOpt.flatMap fun m => [none, some Int.wos, some Int.yon].map fun i =>
      { neg := neg, pas := pas, perf := perf, prog := prog, mod := m, int := i }

theorem intRep_mem (i : Option Int) : intRep i ∈ [none, some Int.wos, some Int.yon] := by
  cases i with
  | none => decide
  | some i => cases i <;> decide

theorem Typ.norm_mem (ty : Typ) : ty.norm ∈ Typ.verbFlags3 := by
  obtain ⟨neg, pas, perf, prog, contr, exc, m, i⟩ := ty
  simp only [Typ.verbFlags3, Typ.norm, List.mem_flatMap, List.mem_map]
  exact ⟨neg, mem_boolAll _, pas, mem_boolAll _, perf, mem_boolAll _, prog, mem_boolAll _, m, Mod.mem_allOpt _,
    intRep i, intRep_mem i, rfl⟩

theorem intNeedsDo_rep (i : Int) : (match intRep (some i) with | some j => intNeedsDo j | none => false) = intNeedsDo i := by
  cases i <;> decide

theorem auxChain_norm (v : VLemma) (t : AT) (ty : Typ) : auxChain v t ty.norm = auxChain v t ty := by
  obtain ⟨neg, pas, perf, prog, contr, exc, m, i⟩ := ty
  cases i with
  | none => rfl
  | some i => cases i <;> rfl

theorem words_norm (v : VLemma) (t : Tense) (ty : Typ) : words v t ty.norm = words v t ty := by
  unfold words affixHopping
  rw [auxChain_norm]
  rfl

theorem questioned_norm (ty : Typ) : ty.norm.questioned = ty.questioned := by
  obtain ⟨neg, pas, perf, prog, contr, exc, m, i⟩ := ty
  cases i with
  | none => rfl
  | some i => cases i <;> rfl

theorem specAux_norm (t : Tense) (ty : Typ) : specAux t ty.norm = specAux t ty := rfl

theorem doSupport_norm (v : VLemma) (t : Tense) (ty : Typ) : doSupport v t ty.norm = doSupport v t ty := by
  unfold doSupport
  rw [questioned_norm, specAux_norm]
  rfl

theorem specGroup_norm (v : VLemma) (t : Tense) (ty : Typ) : specGroup v t ty.norm = specGroup v t ty := by
  unfold specGroup specChain
  rw [doSupport_norm, specAux_norm]

theorem Irregular_norm (v : VLemma) (t : Tense) (ty : Typ) : Irregular v t ty.norm = Irregular v t ty := by
  unfold Irregular
  rw [questioned_norm, specAux_norm]
  rfl

/-- lifting of a check on the finite list to every verb class, tense and flag combination -/
theorem forall_of_norm {P : VLemma → Tense → Typ → Prop}
    (hnorm : ∀ v t ty, P v t ty.norm → P v t ty)
    (h : ∀ v ∈ VLemma.all, ∀ t ∈ Tense.all, ∀ ty ∈ Typ.verbFlags3, P v t ty) :
    ∀ v t ty, P v t ty :=
  fun v t ty => hnorm v t ty (h v (VLemma.mem_all v) t (Tense.mem_all t) ty.norm (Typ.norm_mem ty))

set_option maxRecDepth 100000 in
/-- the verb group is the prescribed one exactly outside the irregular combinations -/
theorem vgroup_words_fin : ∀ v ∈ VLemma.all, ∀ t ∈ Tense.all, ∀ ty ∈ Typ.verbFlags3,
    (Irregular v t ty = false ↔ vgroup (words v t ty) = specGroup v t ty) := by
  decide +kernel

theorem vgroup_words (v : VLemma) (t : Tense) (ty : Typ) :
    Irregular v t ty = false ↔ vgroup (words v t ty) = specGroup v t ty :=
  forall_of_norm (P := fun v t ty => Irregular v t ty = false ↔ vgroup (words v t ty) = specGroup v t ty)
    (fun v t ty h => by rw [Irregular_norm, words_norm, specGroup_norm] at h; exact h)
    vgroup_words_fin v t ty

end Pyrealb.ClauseEn
