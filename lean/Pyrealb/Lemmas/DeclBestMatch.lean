import Pyrealb.Model.BestMatch
/-! Helper lemmas for C02: the two loops of `bestMatch` against the declarative `score` / `FirstMax`. -/
namespace Pyrealb.Decl

theorem peClash_nil (row : Row) : ¬ peClash row [] := by
  simp [peClash]

theorem peClash_cons (row : Row) (k : Feat) (v : FV) (rest : KeyVals) :
    peClash row ((k, v) :: rest) ↔
      (k = Feat.pe ∧ row.get Feat.pe ≠ none ∧ row.get Feat.pe ≠ some v) ∨ peClash row rest := by
  simp [peClash]

/-- the inner loop (with its `break`) computes the declarative score -/
theorem scoreLoop_cases (row : Row) (kv : KeyVals) (acc : Nat) :
    (peClash row kv → scoreLoop row kv acc = 0) ∧
    (¬ peClash row kv → scoreLoop row kv acc = acc + (kv.map (entryScore row)).sum) := by
  induction kv generalizing acc with
  | nil => simp [scoreLoop, peClash_nil]
  | cons p rest ih =>
    obtain ⟨k, v⟩ := p
    rw [peClash_cons]
    unfold scoreLoop
    cases hg : row.get k with
    | none =>
      have hhead : ¬ (k = Feat.pe ∧ row.get Feat.pe ≠ none ∧ row.get Feat.pe ≠ some v) := by
        rintro ⟨rfl, h1, _⟩; exact h1 hg
      simp only [hhead, false_or, List.map_cons, List.sum_cons, entryScore, hg, Nat.zero_add]
      exact ih acc
    | some w =>
      by_cases hc : k = Feat.pe ∧ w ≠ v
      · have hhead : (k = Feat.pe ∧ row.get Feat.pe ≠ none ∧ row.get Feat.pe ≠ some v) := by
          obtain ⟨rfl, hne⟩ := hc
          refine ⟨rfl, by simp [hg], ?_⟩
          rw [hg]; intro h; exact hne (Option.some.inj h)
        simp [hc, hhead]
      · have hhead : ¬ (k = Feat.pe ∧ row.get Feat.pe ≠ none ∧ row.get Feat.pe ≠ some v) := by
          rintro ⟨rfl, _, h3⟩
          apply hc
          refine ⟨rfl, ?_⟩
          intro hwv; apply h3; rw [hg, hwv]
        simp only [hc, if_false, hhead, false_or, List.map_cons, List.sum_cons, entryScore, hg]
        by_cases hwv : w = v
        · simp only [hwv, if_true]
          refine ⟨(ih (acc + 2)).1, fun h => ?_⟩
          rw [(ih (acc + 2)).2 h]; omega
        · by_cases hx : w = FV.x
          · subst hx
            have hxv : ¬ (FV.x = v) := hwv
            simp only [hxv, if_false, if_true]
            refine ⟨(ih (acc + 1)).1, fun h => ?_⟩
            rw [(ih (acc + 1)).2 h]; omega
          · simp only [hwv, if_false, hx]
            refine ⟨(ih acc).1, fun h => ?_⟩
            rw [(ih acc).2 h]; simp

theorem scoreLoop_zero (row : Row) (kv : KeyVals) : scoreLoop row kv 0 = score row kv := by
  unfold score
  by_cases h : peClash row kv
  · simp [h, (scoreLoop_cases row kv 0).1 h]
  · simp [h, (scoreLoop_cases row kv 0).2 h]

/-- invariant of the outer loop: either nothing beat the accumulator, or the result is the first row that
    strictly beats the accumulator and everything before it, and is not beaten after it -/
theorem bestLoop_spec (kv : KeyVals) (ds : List Row) (b : Nat) (v : Option Str) :
    (bestLoop kv ds (b, v) = (b, v) ∧ ∀ d ∈ ds, score d kv ≤ b) ∨
    (∃ pre r post, ds = pre ++ r :: post ∧ b < score r kv ∧ (∀ p ∈ pre, score p kv < score r kv) ∧
        (∀ q ∈ post, score q kv ≤ score r kv) ∧ bestLoop kv ds (b, v) = (score r kv, some r.val)) := by
  induction ds generalizing b v with
  | nil => left; simp [bestLoop]
  | cons d ds ih =>
    unfold bestLoop
    rw [scoreLoop_zero]
    by_cases hgt : score d kv > b
    · simp only [hgt, if_true]
      rcases ih (score d kv) (some d.val) with ⟨heq, hall⟩ | ⟨pre, r, post, hds, hlt, hpre, hpost, heq⟩
      · right
        exact ⟨[], d, ds, by simp, hgt, by simp, hall, heq⟩
      · right
        refine ⟨d :: pre, r, post, by simp [hds], by omega, ?_, hpost, heq⟩
        intro p hp
        rcases List.mem_cons.mp hp with rfl | hp
        · exact hlt
        · exact hpre p hp
    · simp only [hgt, if_false]
      rcases ih b v with ⟨heq, hall⟩ | ⟨pre, r, post, hds, hlt, hpre, hpost, heq⟩
      · left
        refine ⟨heq, ?_⟩
        intro d' hd'
        rcases List.mem_cons.mp hd' with rfl | hd'
        · omega
        · exact hall d' hd'
      · right
        refine ⟨d :: pre, r, post, by simp [hds], hlt, ?_, hpost, heq⟩
        intro p hp
        rcases List.mem_cons.mp hp with rfl | hp
        · omega
        · exact hpre p hp

/-- `FirstMax` determines the row's position, hence the row -/
theorem firstMax_unique_split (sc : Row → Nat) (pre₁ pre₂ post₁ post₂ : List Row) (r₁ r₂ : Row)
    (h : pre₁ ++ r₁ :: post₁ = pre₂ ++ r₂ :: post₂)
    (h1 : ∀ p ∈ pre₁, sc p < sc r₁) (h1' : ∀ q ∈ post₁, sc q ≤ sc r₁)
    (h2 : ∀ p ∈ pre₂, sc p < sc r₂) (h2' : ∀ q ∈ post₂, sc q ≤ sc r₂) :
    pre₁ = pre₂ ∧ r₁ = r₂ ∧ post₁ = post₂ := by
  induction pre₁ generalizing pre₂ with
  | nil =>
    cases pre₂ with
    | nil => simp at h; exact ⟨rfl, h.1, h.2⟩
    | cons a pre₂ =>
      simp at h
      obtain ⟨rfl, hpost⟩ := h
      -- r₁ = a is before r₂, so sc r₁ < sc r₂, but r₂ ∈ post₁ gives sc r₂ ≤ sc r₁
      have ha : sc r₁ < sc r₂ := h2 r₁ (by simp)
      have hr2 : r₂ ∈ post₁ := by rw [hpost]; simp
      have := h1' r₂ hr2
      omega
  | cons a pre₁ ih =>
    cases pre₂ with
    | nil =>
      simp at h
      obtain ⟨rfl, hpost⟩ := h
      have ha : sc a < sc r₁ := h1 a (by simp)
      have hr1 : r₁ ∈ post₂ := by rw [← hpost]; simp
      have := h2' r₁ hr1
      omega
    | cons a' pre₂ =>
      simp at h
      obtain ⟨rfl, hrest⟩ := h
      have := ih pre₂ hrest (fun p hp => h1 p (by simp [hp])) (fun p hp => h2 p (by simp [hp]))
      obtain ⟨rfl, rfl, rfl⟩ := this
      exact ⟨rfl, rfl, rfl⟩

theorem sum_ge_of_mem {l : List Nat} {a : Nat} (h : a ∈ l) : a ≤ l.sum := by
  induction l with
  | nil => cases h
  | cons b l ih =>
    rcases List.mem_cons.mp h with rfl | h
    · simp
    · have := ih h; simp; omega

theorem entryScore_le_two (row : Row) (p : Feat × FV) : entryScore row p ≤ 2 := by
  unfold entryScore
  split
  · omega
  · split
    · omega
    · split <;> omega

theorem sum_map_le (row : Row) (kv : KeyVals) : (kv.map (entryScore row)).sum ≤ 2 * kv.length := by
  induction kv with
  | nil => simp
  | cons p r ih =>
    have := entryScore_le_two row p
    simp [List.length_cons]; omega

theorem score_le (row : Row) (kv : KeyVals) : score row kv ≤ 2 * kv.length := by
  unfold score
  split
  · omega
  · exact sum_map_le row kv

/-- a sum of terms each ≤ 2 that reaches 2·length has every term equal to 2 -/
theorem sum_eq_max_all (row : Row) (kv : KeyVals) (h : (kv.map (entryScore row)).sum = 2 * kv.length) :
    ∀ p ∈ kv, entryScore row p = 2 := by
  induction kv with
  | nil => intro p hp; cases hp
  | cons q r ih =>
    have h1 := entryScore_le_two row q
    have h2 := sum_map_le row r
    simp [List.length_cons] at h
    intro p hp
    rcases List.mem_cons.mp hp with rfl | hp
    · omega
    · exact ih (by omega) p hp

end Pyrealb.Decl
