import Pyrealb.Lemmas.ClauseEnDepPP
namespace Pyrealb.ClauseEn
set_option linter.unusedSimpArgs false

theorem mainToks_dSubj (a : Agr) (x : ArgTok) : mainToks a [dSubj x] = [.arg x] := mainToks_subj a x false false

@[simp] theorem resolve_arg (a : Agr) (x : ArgTok) : Tok.resolve a (.arg x) = .arg x := rfl
@[simp] theorem resolve_q (a : Agr) (x : Str) : Tok.resolve a (.q x) = .q x := rfl
@[simp] theorem map_resolve_objToks (a : Agr) (o : Option ArgTok) : (objToks o).map (Tok.resolve a) = objToks o := by
  cases o <;> rfl

theorem mt_subj (a : Agr) (x : ArgTok) (pp cm : Bool) (l : List DNode) :
    mainToks a (⟨.subj, .arg x, pp, cm⟩ :: l) = .arg x :: mainToks a l := by
  rw [mainToks_cons, mainToks_subj]; rfl
theorem mt_dSubj (a : Agr) (x : ArgTok) (l : List DNode) : mainToks a (dSubj x :: l) = .arg x :: mainToks a l :=
  mt_subj a x false false l
theorem mt_dObj (a : Agr) (x : ArgTok) (l : List DNode) : mainToks a (dObj x :: l) = .arg x :: mainToks a l := by
  rw [mainToks_cons, mainToks_obj]; rfl
theorem mt_dPre (a : Agr) (t : Tok) (l : List DNode) : mainToks a (dPre t :: l) = Tok.resolve a t :: mainToks a l := by
  rw [mainToks_cons, mainToks_pre]; rfl
theorem mt_pre_word (a : Agr) (t : Tok) (l : List DNode) :
    mainToks a (⟨.pre, .word t, false, false⟩ :: l) = Tok.resolve a t :: mainToks a l := mt_dPre a t l
theorem mt_pre_arg (a : Agr) (x : ArgTok) (l : List DNode) :
    mainToks a (⟨.pre, .arg x, false, false⟩ :: l) = .arg x :: mainToks a l := by
  rw [mainToks_cons]; simp [mainToks, grpOfNode]
theorem mt_comp_arg (a : Agr) (x : ArgTok) (l : List DNode) :
    mainToks a (⟨.comp, .arg x, false, false⟩ :: l) = .arg x :: mainToks a l := mt_dObj a x l
theorem mt_dIt (a : Agr) (l : List DNode) : mainToks a (dIt :: l) = .arg .it :: mainToks a l := mt_pre_arg a .it l

@[simp] theorem optL_some {α β} (f : α → β) (x : α) : optL f (some x) = [f x] := rfl
@[simp] theorem optL_none {α β} (f : α → β) : optL f none = [] := rfl
@[simp] theorem objToks_some (x : ArgTok) : objToks (some x) = [.arg x] := rfl
@[simp] theorem objToks_none : objToks none = [] := rfl

@[simp] theorem argTok_ct_P (a : ArgTok) : (a.ct == CT.P) = false := by cases a <;> rfl
@[simp] theorem argTok_ct_ne_P (a : ArgTok) : ¬ (a.ct = CT.P) := by cases a <;> simp [ArgTok.ct]

theorem getLast?_cons_concat {α} (w : α) (l : List α) (x : α) : (w :: (l ++ [x])).getLast? = some x := by
  have : w :: (l ++ [x]) = (w :: l) ++ [x] := rfl
  rw [this, List.getLast?_append]
  simp

theorem fi_pre_ql_dPre (ql : List (Str × ArgTok)) (w : Tok) (R : List DNode) :
    findIdx (fun d : DNode => d.rel == .pre) (ql.map dPP ++ dPre w :: R) = some ql.length := fi_pre_ql ql (dPre w) rfl R

theorem fi_obj_ql_words_cons (ql : List (Str × ArgTok)) (w : Tok) (ws : List Tok) :
    findIdx (fun d : DNode => d.rel == .comp && isNPPro d.head.ct) (ql.map dPP ++ dPre w :: ws.map dPre) = none :=
  fi_obj_ql_words ql (w :: ws)

theorem fi_pre_obj_ql (obj : Option ArgTok) (ql : List (Str × ArgTok)) :
    findIdx (fun d : DNode => d.rel == .pre) (optL dObj obj ++ ql.map dPP) = none := by
  cases obj <;> simp [optL, findIdx, fi_pre_ql_nil]

theorem fi_pre_obj_ql_w (obj : Option ArgTok) (ql : List (Str × ArgTok)) (w : Tok) (R : List DNode) :
    findIdx (fun d : DNode => d.rel == .pre) (optL dObj obj ++ (ql.map dPP ++ dPre w :: R))
      = some ((optL dObj obj).length + ql.length) := by
  cases obj <;> simp [optL, findIdx, fi_pre_ql ql (dPre w) rfl R, Nat.add_comm]

theorem removeAt_obj_ql {R : List DNode} (obj : Option ArgTok) (ql : List (Str × ArgTok)) (x : DNode) :
    removeAt (optL dObj obj ++ (ql.map dPP ++ x :: R)) ((optL dObj obj).length + ql.length)
      = optL dObj obj ++ (ql.map dPP ++ R) := by
  cases obj <;> simp [optL, removeAt, removeAt_words, Nat.add_comm 1]

theorem getD_obj_ql {R : List DNode} (obj : Option ArgTok) (ql : List (Str × ArgTok)) (x d : DNode) :
    ((optL dObj obj ++ (ql.map dPP ++ x :: R))[(optL dObj obj).length + ql.length]?).getD d = x := by
  cases obj <;> simp [optL, getElem?_words, Nat.add_comm]

theorem dep_nf_plain (ty : Typ) (sj : ArgTok) (obj : Option ArgTok) (ql : List (Str × ArgTok)) (init : List Tok)
    (last : Tok) (agr : Agr) (g : Gender) (hw : init.all Tok.isWord = true) :
    DepPlainOK ty sj obj ql init last agr g := by
  unfold DepPlainOK
  obtain ⟨neg, pas, perf, prog, contr, exc, md, i⟩ := ty
  cases i with
  | none =>
    simp [linDepPlain, finishDep, plainSt, pure, Except.pure, bind, Except.bind, dep_main, List.filter_append,
      List.filter_cons, mainToks_append, mt_dSubj, mainToks_optObj, mainToks_pps, mainToks_pres, agrDepPlain]
  | some i =>
    cases init with
    | nil =>
      cases i
      case yon | how | why | muc =>
        by_cases hal : aloneDep last.lemmaName = true <;>
        simp [hal, linDepPlain, frontD, headAlone, finishDep, plainSt, processIntDep, moveObjectDep, DTerm.lemmaName,
          pure, Except.pure, bind, Except.bind, dep_main, List.filter_append, List.filter_cons, setAt,
          mainToks_append, mt_subj, mt_dSubj, mt_dObj, mt_dPre, mt_pre_word, mt_pre_arg, mt_dIt, mt_comp_arg, mainToks_nil,
          mainToks_optObj, mainToks_pps, mainToks_pres, agrDepPlain, findIdx, fi_pre_obj_ql, fi_pre_obj_ql_w,
          removeAt, removeAt_obj_ql, getD_obj_ql, objHuman, optL_some, optL_none, objToks_some, objToks_none, ppToks,
          fi_obj_ql_words, fi_obj_ql_words_cons, fi_pre_ql_nil, fi_pre_ql_dPre, removeAt_words, getD_words, getElem?_words,
          Gen.ClauseEn.depHasPrepositionList, any_pp_words, findIdx_obj_pps, dObj, findPPDep, findPPDep_words, lastIsFirst, getLast?_cons_concat]
      case wos | was =>
        cases last with
        | verb l f r => cases r <;> simp [linDepPlain, frontD, headAlone, finishDep, plainSt, processIntDep, moveObjectDep, DTerm.lemmaName,
          pure, Except.pure, bind, Except.bind, dep_main, List.filter_append, List.filter_cons, setAt,
          mainToks_append, mt_subj, mt_dSubj, mt_dObj, mt_dPre, mt_pre_word, mt_pre_arg, mt_dIt, mt_comp_arg, mainToks_nil,
          mainToks_optObj, mainToks_pps, mainToks_pres, agrDepPlain, findIdx, fi_pre_obj_ql, fi_pre_obj_ql_w,
          removeAt, removeAt_obj_ql, getD_obj_ql, objHuman, optL_some, optL_none, objToks_some, objToks_none, ppToks,
          fi_obj_ql_words, fi_obj_ql_words_cons, fi_pre_ql_nil, fi_pre_ql_dPre, removeAt_words, getD_words, getElem?_words,
          Gen.ClauseEn.depHasPrepositionList, any_pp_words, findIdx_obj_pps, dObj, findPPDep, findPPDep_words, lastIsFirst, getLast?_cons_concat]
        | _ => simp [linDepPlain, frontD, headAlone, finishDep, plainSt, processIntDep, moveObjectDep, DTerm.lemmaName,
          pure, Except.pure, bind, Except.bind, dep_main, List.filter_append, List.filter_cons, setAt,
          mainToks_append, mt_subj, mt_dSubj, mt_dObj, mt_dPre, mt_pre_word, mt_pre_arg, mt_dIt, mt_comp_arg, mainToks_nil,
          mainToks_optObj, mainToks_pps, mainToks_pres, agrDepPlain, findIdx, fi_pre_obj_ql, fi_pre_obj_ql_w,
          removeAt, removeAt_obj_ql, getD_obj_ql, objHuman, optL_some, optL_none, objToks_some, objToks_none, ppToks,
          fi_obj_ql_words, fi_obj_ql_words_cons, fi_pre_ql_nil, fi_pre_ql_dPre, removeAt_words, getD_words, getElem?_words,
          Gen.ClauseEn.depHasPrepositionList, any_pp_words, findIdx_obj_pps, dObj, findPPDep, findPPDep_words, lastIsFirst, getLast?_cons_concat]
      case wod | wad =>
        cases obj with
        | none => by_cases hal : aloneDep last.lemmaName = true <;> simp [hal, linDepPlain, frontD, headAlone, finishDep, plainSt, processIntDep, moveObjectDep, DTerm.lemmaName,
          pure, Except.pure, bind, Except.bind, dep_main, List.filter_append, List.filter_cons, setAt,
          mainToks_append, mt_subj, mt_dSubj, mt_dObj, mt_dPre, mt_pre_word, mt_pre_arg, mt_dIt, mt_comp_arg, mainToks_nil,
          mainToks_optObj, mainToks_pps, mainToks_pres, agrDepPlain, findIdx, fi_pre_obj_ql, fi_pre_obj_ql_w,
          removeAt, removeAt_obj_ql, getD_obj_ql, objHuman, optL_some, optL_none, objToks_some, objToks_none, ppToks,
          fi_obj_ql_words, fi_obj_ql_words_cons, fi_pre_ql_nil, fi_pre_ql_dPre, removeAt_words, getD_words, getElem?_words,
          Gen.ClauseEn.depHasPrepositionList, any_pp_words, findIdx_obj_pps, dObj, findPPDep, findPPDep_words, lastIsFirst, getLast?_cons_concat]
        | some o => cases o <;> by_cases hal : aloneDep last.lemmaName = true <;> simp [hal, linDepPlain, frontD, headAlone, finishDep, plainSt, processIntDep, moveObjectDep, DTerm.lemmaName,
          pure, Except.pure, bind, Except.bind, dep_main, List.filter_append, List.filter_cons, setAt,
          mainToks_append, mt_subj, mt_dSubj, mt_dObj, mt_dPre, mt_pre_word, mt_pre_arg, mt_dIt, mt_comp_arg, mainToks_nil,
          mainToks_optObj, mainToks_pps, mainToks_pres, agrDepPlain, findIdx, fi_pre_obj_ql, fi_pre_obj_ql_w,
          removeAt, removeAt_obj_ql, getD_obj_ql, objHuman, optL_some, optL_none, objToks_some, objToks_none, ppToks,
          fi_obj_ql_words, fi_obj_ql_words_cons, fi_pre_ql_nil, fi_pre_ql_dPre, removeAt_words, getD_words, getElem?_words,
          Gen.ClauseEn.depHasPrepositionList, any_pp_words, findIdx_obj_pps, dObj, findPPDep, findPPDep_words, lastIsFirst, getLast?_cons_concat]
      case woi | wai | whe | whn =>
        simp only [finishDep, linDepPlain]
        rw [processIntDep_ppq _ _ rfl]
        simp only [plainSt]
        rw [dropPP_plain]
        by_cases hal : aloneDep last.lemmaName = true <;>
        simp [hal, linDepPlain, frontD, headAlone, finishDep, plainSt, processIntDep, moveObjectDep, DTerm.lemmaName,
          pure, Except.pure, bind, Except.bind, dep_main, List.filter_append, List.filter_cons, setAt,
          mainToks_append, mt_subj, mt_dSubj, mt_dObj, mt_dPre, mt_pre_word, mt_pre_arg, mt_dIt, mt_comp_arg, mainToks_nil,
          mainToks_optObj, mainToks_pps, mainToks_pres, agrDepPlain, findIdx, fi_pre_obj_ql, fi_pre_obj_ql_w,
          removeAt, removeAt_obj_ql, getD_obj_ql, objHuman, optL_some, optL_none, objToks_some, objToks_none, ppToks,
          fi_obj_ql_words, fi_obj_ql_words_cons, fi_pre_ql_nil, fi_pre_ql_dPre, removeAt_words, getD_words, getElem?_words,
          Gen.ClauseEn.depHasPrepositionList, any_pp_words, findIdx_obj_pps, dObj, findPPDep, findPPDep_words, lastIsFirst, getLast?_cons_concat]
      case tag =>
        obtain ⟨h1, h2, h3, h4⟩ := tag_preserves agr ⟨neg, pas, perf, prog, contr, exc, md, some .tag⟩
          (plainSt sj obj ql [] last agr g)
        generalize hT : tagQuestionDep ⟨neg, pas, perf, prog, contr, exc, md, some .tag⟩
          (plainSt sj obj ql [] last agr g) = T at h1 h2 h3 h4
        have hagr : T.agr = agr := h4
        have hterm : T.term = .tok last := h3
        simp only [linDepPlain, finishDep, processIntDep, bind, Except.bind, pure, Except.pure, hT]
        refine ⟨_, rfl, ?_, ?_⟩
        · rw [dep_main]
          simp only [hagr, hterm]
          simp only [List.filter_cons, isPre_mk, Bool.not_false, Bool.true_and, BEq.rfl, Bool.or_true, if_true,
            Bool.not_true, Bool.false_eq_true, if_false, mt_pre_word, h1, h2]
          simp [plainSt, List.filter_append, List.filter_cons, mainToks_append, mt_dSubj, mainToks_optObj,
            mainToks_pps, mainToks_pres, mt_dPre, mainToks_nil, agrDepPlain]
        · simp [hagr, agrDepPlain]

    | cons w0 init' =>
      have hw' : init'.all Tok.isWord = true := by simp [List.all_cons] at hw; simpa using hw.2
      cases i
      case yon | how | why | muc => simp [linDepPlain, frontD, headAlone, finishDep, plainSt, processIntDep, moveObjectDep, DTerm.lemmaName,
          pure, Except.pure, bind, Except.bind, dep_main, List.filter_append, List.filter_cons, setAt,
          mainToks_append, mt_subj, mt_dSubj, mt_dObj, mt_dPre, mt_pre_word, mt_pre_arg, mt_dIt, mt_comp_arg, mainToks_nil,
          mainToks_optObj, mainToks_pps, mainToks_pres, agrDepPlain, findIdx, fi_pre_obj_ql, fi_pre_obj_ql_w,
          removeAt, removeAt_obj_ql, getD_obj_ql, objHuman, optL_some, optL_none, objToks_some, objToks_none, ppToks,
          fi_obj_ql_words, fi_obj_ql_words_cons, fi_pre_ql_nil, fi_pre_ql_dPre, removeAt_words, getD_words, getElem?_words,
          Gen.ClauseEn.depHasPrepositionList, any_pp_words, findIdx_obj_pps, dObj, findPPDep, findPPDep_words, lastIsFirst, getLast?_cons_concat]
      case wos | was =>
        cases last with
        | verb l f r => cases r <;> simp [linDepPlain, frontD, headAlone, finishDep, plainSt, processIntDep, moveObjectDep, DTerm.lemmaName,
          pure, Except.pure, bind, Except.bind, dep_main, List.filter_append, List.filter_cons, setAt,
          mainToks_append, mt_subj, mt_dSubj, mt_dObj, mt_dPre, mt_pre_word, mt_pre_arg, mt_dIt, mt_comp_arg, mainToks_nil,
          mainToks_optObj, mainToks_pps, mainToks_pres, agrDepPlain, findIdx, fi_pre_obj_ql, fi_pre_obj_ql_w,
          removeAt, removeAt_obj_ql, getD_obj_ql, objHuman, optL_some, optL_none, objToks_some, objToks_none, ppToks,
          fi_obj_ql_words, fi_obj_ql_words_cons, fi_pre_ql_nil, fi_pre_ql_dPre, removeAt_words, getD_words, getElem?_words,
          Gen.ClauseEn.depHasPrepositionList, any_pp_words, findIdx_obj_pps, dObj, findPPDep, findPPDep_words, lastIsFirst, getLast?_cons_concat]
        | _ => simp [linDepPlain, frontD, headAlone, finishDep, plainSt, processIntDep, moveObjectDep, DTerm.lemmaName,
          pure, Except.pure, bind, Except.bind, dep_main, List.filter_append, List.filter_cons, setAt,
          mainToks_append, mt_subj, mt_dSubj, mt_dObj, mt_dPre, mt_pre_word, mt_pre_arg, mt_dIt, mt_comp_arg, mainToks_nil,
          mainToks_optObj, mainToks_pps, mainToks_pres, agrDepPlain, findIdx, fi_pre_obj_ql, fi_pre_obj_ql_w,
          removeAt, removeAt_obj_ql, getD_obj_ql, objHuman, optL_some, optL_none, objToks_some, objToks_none, ppToks,
          fi_obj_ql_words, fi_obj_ql_words_cons, fi_pre_ql_nil, fi_pre_ql_dPre, removeAt_words, getD_words, getElem?_words,
          Gen.ClauseEn.depHasPrepositionList, any_pp_words, findIdx_obj_pps, dObj, findPPDep, findPPDep_words, lastIsFirst, getLast?_cons_concat]
      case wod | wad =>
        cases obj with
        | none => simp [linDepPlain, frontD, headAlone, finishDep, plainSt, processIntDep, moveObjectDep, DTerm.lemmaName,
          pure, Except.pure, bind, Except.bind, dep_main, List.filter_append, List.filter_cons, setAt,
          mainToks_append, mt_subj, mt_dSubj, mt_dObj, mt_dPre, mt_pre_word, mt_pre_arg, mt_dIt, mt_comp_arg, mainToks_nil,
          mainToks_optObj, mainToks_pps, mainToks_pres, agrDepPlain, findIdx, fi_pre_obj_ql, fi_pre_obj_ql_w,
          removeAt, removeAt_obj_ql, getD_obj_ql, objHuman, optL_some, optL_none, objToks_some, objToks_none, ppToks,
          fi_obj_ql_words, fi_obj_ql_words_cons, fi_pre_ql_nil, fi_pre_ql_dPre, removeAt_words, getD_words, getElem?_words,
          Gen.ClauseEn.depHasPrepositionList, any_pp_words, findIdx_obj_pps, dObj, findPPDep, findPPDep_words, lastIsFirst, getLast?_cons_concat]
        | some o => cases o <;> simp [linDepPlain, frontD, headAlone, finishDep, plainSt, processIntDep, moveObjectDep, DTerm.lemmaName,
          pure, Except.pure, bind, Except.bind, dep_main, List.filter_append, List.filter_cons, setAt,
          mainToks_append, mt_subj, mt_dSubj, mt_dObj, mt_dPre, mt_pre_word, mt_pre_arg, mt_dIt, mt_comp_arg, mainToks_nil,
          mainToks_optObj, mainToks_pps, mainToks_pres, agrDepPlain, findIdx, fi_pre_obj_ql, fi_pre_obj_ql_w,
          removeAt, removeAt_obj_ql, getD_obj_ql, objHuman, optL_some, optL_none, objToks_some, objToks_none, ppToks,
          fi_obj_ql_words, fi_obj_ql_words_cons, fi_pre_ql_nil, fi_pre_ql_dPre, removeAt_words, getD_words, getElem?_words,
          Gen.ClauseEn.depHasPrepositionList, any_pp_words, findIdx_obj_pps, dObj, findPPDep, findPPDep_words, lastIsFirst, getLast?_cons_concat]
      case woi | wai | whe | whn =>
        simp only [finishDep, linDepPlain]
        rw [processIntDep_ppq _ _ rfl]
        simp only [plainSt]
        rw [dropPP_plain]
        simp [linDepPlain, frontD, headAlone, finishDep, plainSt, processIntDep, moveObjectDep, DTerm.lemmaName,
          pure, Except.pure, bind, Except.bind, dep_main, List.filter_append, List.filter_cons, setAt,
          mainToks_append, mt_subj, mt_dSubj, mt_dObj, mt_dPre, mt_pre_word, mt_pre_arg, mt_dIt, mt_comp_arg, mainToks_nil,
          mainToks_optObj, mainToks_pps, mainToks_pres, agrDepPlain, findIdx, fi_pre_obj_ql, fi_pre_obj_ql_w,
          removeAt, removeAt_obj_ql, getD_obj_ql, objHuman, optL_some, optL_none, objToks_some, objToks_none, ppToks,
          fi_obj_ql_words, fi_obj_ql_words_cons, fi_pre_ql_nil, fi_pre_ql_dPre, removeAt_words, getD_words, getElem?_words,
          Gen.ClauseEn.depHasPrepositionList, any_pp_words, findIdx_obj_pps, dObj, findPPDep, findPPDep_words, lastIsFirst, getLast?_cons_concat]
      case tag =>
        obtain ⟨h1, h2, h3, h4⟩ := tag_preserves agr ⟨neg, pas, perf, prog, contr, exc, md, some .tag⟩
          (plainSt sj obj ql (w0 :: init') last agr g)
        generalize hT : tagQuestionDep ⟨neg, pas, perf, prog, contr, exc, md, some .tag⟩
          (plainSt sj obj ql (w0 :: init') last agr g) = T at h1 h2 h3 h4
        have hagr : T.agr = agr := h4
        have hterm : T.term = .tok last := h3
        simp only [linDepPlain, finishDep, processIntDep, bind, Except.bind, pure, Except.pure, hT]
        refine ⟨_, rfl, ?_, ?_⟩
        · rw [dep_main]
          simp only [hagr, hterm]
          simp only [List.filter_cons, isPre_mk, Bool.not_false, Bool.true_and, BEq.rfl, Bool.or_true, if_true,
            Bool.not_true, Bool.false_eq_true, if_false, mt_pre_word, h1, h2]
          simp [plainSt, List.filter_append, List.filter_cons, mainToks_append, mt_dSubj, mainToks_optObj,
            mainToks_pps, mainToks_pres, mt_dPre, mainToks_nil, agrDepPlain]
        · simp [hagr, agrDepPlain]


end Pyrealb.ClauseEn
