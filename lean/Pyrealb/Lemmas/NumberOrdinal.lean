import Pyrealb.Lemmas.NumberFacts
/-! Ordinals: `ordinalOf` (the model of the code) and `ordRule` (the specification) only look at the end of the
spelling; the end of a spelling is the text of its last non-zero group, which ranges over a finite family
(999 triplets, 12 scale forms) checked by kernel evaluation. -/
namespace Pyrealb.Number
open Pyrealb Pyrealb.NumberSpec Pyrealb.Gen.NumberWords

/-! ### texts that end with a space, and what looks only at the end of a text -/

def EndsSpace (A : Str) : Prop := A = [] ∨ ∃ A', A = A' ++ [' ']

theorem takeWhile_eq_self_of_length {α} (p : α → Bool) (l : List α) (h : (l.takeWhile p).length = l.length) :
    l.takeWhile p = l :=
  List.IsPrefix.eq_of_length (List.takeWhile_prefix p) h

theorem takeWhile_rev_append (p : Char → Bool) (hp : p ' ' = false) (A T : Str) (hA : EndsSpace A) :
    (A ++ T).reverse.takeWhile p = T.reverse.takeWhile p := by
  rw [List.reverse_append, List.takeWhile_append]
  split
  · rename_i h
    have hA' : A.reverse.takeWhile p = [] := by
      rcases hA with rfl | ⟨A', rfl⟩
      · rfl
      · simp [hp]
    rw [hA', List.append_nil, takeWhile_eq_self_of_length p _ h]
  · rfl

theorem tailSplit_append (p : Char → Bool) (hp : p ' ' = false) (A T : Str) (hA : EndsSpace A) :
    tailSplit p (A ++ T) = (A ++ (tailSplit p T).1, (tailSplit p T).2) := by
  unfold tailSplit
  simp only [takeWhile_rev_append p hp A T hA]
  have hle : (T.reverse.takeWhile p).reverse.length ≤ T.length := by
    rw [List.length_reverse]
    have := (List.takeWhile_prefix p (l := T.reverse)).length_le
    simpa using this
  congr 1
  have : (A ++ T).length - (T.reverse.takeWhile p).reverse.length
      = A.length + (T.length - (T.reverse.takeWhile p).reverse.length) := by
    rw [List.length_append]; omega
  rw [this, List.take_length_add_append]

theorem lastIs_append (A T c : Str) (hT : T ≠ []) : lastIs (A ++ T) c = lastIs T c := by
  unfold lastIs
  rw [List.getLast?_append]
  cases h : T.getLast? with
  | none => exact absurd (List.getLast?_eq_none_iff.mp h) hT
  | some a => simp

theorem dropRight_append (A T : Str) (hT : T ≠ []) : dropRight (A ++ T) 1 = A ++ dropRight T 1 := by
  unfold dropRight
  have hpos : 0 < T.length := List.length_pos_iff.mpr hT
  have : (A ++ T).length - 1 = A.length + (T.length - 1) := by rw [List.length_append]; omega
  rw [this, List.take_length_add_append]

theorem endsWith_append_long (A T suf : Str) (h : suf.length ≤ T.length) :
    endsWith (A ++ T) suf = endsWith T suf := by
  unfold endsWith
  have h1 : (decide (suf.length ≤ (A ++ T).length)) = true := by simp; omega
  have h2 : (decide (suf.length ≤ T.length)) = true := by simp; omega
  rw [h1, h2]
  have : (A ++ T).length - suf.length = A.length + (T.length - suf.length) := by
    rw [List.length_append]; omega
  rw [this, List.drop_append, List.drop_eq_nil_of_le (by omega)]
  simp

theorem endsWith_append_short (A T suf : Str) (h : T.length < suf.length) (hs : endsWith suf T = false) :
    endsWith (A ++ T) suf = false := by
  cases hE : endsWith (A ++ T) suf with
  | false => rfl
  | true =>
    exfalso
    unfold endsWith at hE
    simp only [Bool.and_eq_true, decide_eq_true_eq, beq_iff_eq] at hE
    obtain ⟨hl, hd⟩ := hE
    rw [List.length_append] at hl hd
    have hk : A.length + T.length - suf.length ≤ A.length := by omega
    rw [List.drop_append_of_le_length hk] at hd
    -- suf = (a tail of A) ++ T, hence T is a suffix of suf
    have : endsWith suf T = true := by
      unfold endsWith
      rw [← hd]
      simp
    rw [this] at hs
    cases hs

/-- `T` is long enough to decide whether a text that ends with `T` ends with `suf` -/
def safeSuf (suf T : Str) : Bool := decide (suf.length ≤ T.length) || !(endsWith suf T)

theorem endsWith_append_safe (A T suf : Str) (h : safeSuf suf T = true) :
    endsWith (A ++ T) suf = endsWith T suf := by
  unfold safeSuf at h
  by_cases hl : suf.length ≤ T.length
  · exact endsWith_append_long A T suf hl
  · have hs : endsWith suf T = false := by simpa [hl] using h
    rw [endsWith_append_short A T suf (by omega) hs]
    unfold endsWith
    simp [hl]

theorem append_ne_of_space (A T Z : Str) (hA : EndsSpace A) (hne : A ≠ []) (hZ : ' ' ∉ Z) : A ++ T ≠ Z := by
  intro h
  rcases hA with rfl | ⟨A', rfl⟩
  · exact hne rfl
  · apply hZ; rw [← h]; simp

/-! ### locality of the model and of the specification -/

/-- the conditions under which the ordinal of `A ++ T` is `A ++` the ordinal of `T` -/
def locOK (T : Str) : Bool :=
  !T.isEmpty && T != ordZeroFr && T != ordZeroEn && T != ordUnFr && T != s "un"

/-- finite facts about the constants: the strings compared for equality contain no space; a space is neither a
    word character (Python `\w`) nor part of a number word -/
theorem ordConsts_tbl : ' ' ∉ ordZeroFr ∧ ' ' ∉ ordZeroEn ∧ ' ' ∉ ordUnFr ∧ isWordChar ' ' = false := by
  decide +kernel

theorem ordinalOf_append (ℓ : Lang) (g : Gender) (A T : Str) (hA : EndsSpace A) (hne : A ≠ [])
    (hT : locOK T = true) : ordinalOf ℓ g (A ++ T) = (ordinalOf ℓ g T).map (A ++ ·) := by
  obtain ⟨z1, z2, z3, hw⟩ := ordConsts_tbl
  simp only [locOK, Bool.and_eq_true, Bool.not_eq_true', bne_iff_ne, ne_eq] at hT
  obtain ⟨⟨⟨⟨t0, t1⟩, t2⟩, t3⟩, _⟩ := hT
  have t0' : T ≠ [] := by intro h; simp [h] at t0
  have n1 := append_ne_of_space A T ordZeroFr hA hne z1
  have n2 := append_ne_of_space A T ordZeroEn hA hne z2
  have n3 := append_ne_of_space A T ordUnFr hA hne z3
  have hsp := tailSplit_append isWordChar hw A T hA
  generalize hpq : tailSplit isWordChar T = pq at hsp
  obtain ⟨p, lw⟩ := pq
  simp only at hsp
  unfold ordinalOf lastWordSplit
  simp only [hsp, hpq, n1, n2, n3, t1, t2, t3, or_self, if_false, lastIs_append A T _ t0', dropRight_append A T t0']
  by_cases hw2 : lw.isEmpty = true
  · simp [hw2, Except.map]
  · simp only [hw2]
    cases ℓ with
    | en =>
      simp only
      cases hx : lookup lw ordEnExceptions with
      | some o => simp [hx, Except.map, pure, Except.pure]
      | none =>
        by_cases hy : lastIs T ordYEn = true <;> simp [hx, hy, Except.map, pure, Except.pure]
    | fr =>
      simp only
      by_cases he : lw = ordUn2Fr
      · simp [he, Except.map, pure, Except.pure]
      · cases hx : lookup lw ordFrExceptions with
        | some o => simp [he, hx, Except.map, pure, Except.pure]
        | none =>
          by_cases hy : (lastIs T ordEFr || pluralMarked lw) = true <;>
            simp [he, hx, hy, Except.map, pure, Except.pure]

theorem ordRule_append (ℓ : Lang) (g : Gender) (A T : Str) (hA : EndsSpace A) (hne : A ≠ [])
    (hT : locOK T = true) : ordRule ℓ g (A ++ T) = (ordRule ℓ g T).map (A ++ ·) := by
  simp only [locOK, Bool.and_eq_true, bne_iff_ne, ne_eq] at hT
  obtain ⟨⟨⟨⟨_, _⟩, _⟩, _⟩, t4⟩ := hT
  have n4 := append_ne_of_space A T (s "un") hA hne (by decide)
  have hsp := tailSplit_append (fun c => !isSep c) (by decide) A T hA
  generalize hpq : tailSplit (fun c => !isSep c) T = pq at hsp
  obtain ⟨p, lw⟩ := pq
  simp only at hsp
  unfold ordRule splitLast
  cases ℓ with
  | en =>
    simp only [hsp, hpq]
    cases hx : lookup lw ordWordsEn <;> simp
  | fr =>
    simp only [hsp, hpq, n4, t4, if_false]
    cases hx : lookup lw ordWordsFr <;> simp

/-- the model and the specification agree on the text `w` -/
def Agree (ℓ : Lang) (g : Gender) (w : Str) : Prop := ∃ o, ordinalOf ℓ g w = .ok o ∧ ordRule ℓ g w = some o

def agreeB (ℓ : Lang) (g : Gender) (w : Str) : Bool :=
  match ordinalOf ℓ g w, ordRule ℓ g w with
  | .ok o, some o' => o == o'
  | _, _ => false

theorem agree_of_agreeB {ℓ : Lang} {g : Gender} {w : Str} (h : agreeB ℓ g w = true) : Agree ℓ g w := by
  unfold agreeB at h
  cases h1 : ordinalOf ℓ g w with
  | error e => simp [h1] at h
  | ok o =>
    cases h2 : ordRule ℓ g w with
    | none => simp [h1, h2] at h
    | some o' =>
      simp only [h1, h2, beq_iff_eq] at h
      exact ⟨o, h1, by rw [h2, h]⟩

theorem agree_append (ℓ : Lang) (g : Gender) (A T : Str) (hA : EndsSpace A) (hT : locOK T = true)
    (h : Agree ℓ g T) : Agree ℓ g (A ++ T) := by
  by_cases hne : A = []
  · subst hne; simpa using h
  · obtain ⟨o, h1, h2⟩ := h
    refine ⟨A ++ o, ?_, ?_⟩
    · rw [ordinalOf_append ℓ g A T hA hne hT, h1]; rfl
    · rw [ordRule_append ℓ g A T hA hne hT, h2]; rfl

/-- outside the text `un` the gender plays no role -/
theorem agree_gender (ℓ : Lang) (g : Gender) (T : Str) (hT : locOK T = true) (h : Agree ℓ .m T) : Agree ℓ g T := by
  simp only [locOK, Bool.and_eq_true, bne_iff_ne, ne_eq] at hT
  obtain ⟨⟨⟨⟨_, _⟩, _⟩, t3⟩, t4⟩ := hT
  obtain ⟨o, h1, h2⟩ := h
  refine ⟨o, ?_, ?_⟩
  · rw [← h1]; unfold ordinalOf; simp only [t3, if_false]
  · rw [← h2]; unfold ordRule; simp only [t4, if_false]

/-- French: after a space, the group `un` (1001 `mille un`, `un million un`) gives `… unième` on both sides -/
theorem agree_append_un (g : Gender) (A : Str) (hA : EndsSpace A) (hne : A ≠ []) : Agree .fr g (A ++ ordUnFr) := by
  obtain ⟨z1, z2, z3, hw⟩ := ordConsts_tbl
  have n1 := append_ne_of_space A ordUnFr ordZeroFr hA hne z1
  have n2 := append_ne_of_space A ordUnFr ordZeroEn hA hne z2
  have n3 := append_ne_of_space A ordUnFr ordUnFr hA hne z3
  have n4 := append_ne_of_space A ordUnFr (s "un") hA hne (by decide)
  have e1 : tailSplit isWordChar ordUnFr = ([], ordUnFr) := by decide +kernel
  have e2 : tailSplit (fun c => !isSep c) ordUnFr = ([], ordUnFr) := by decide +kernel
  have e3 : ordUnFr = ordUn2Fr := by decide +kernel
  have e4 : lookup ordUnFr ordWordsFr = some (s "unième") := by decide +kernel
  have e5 : ordUnFr ++ ordIeme1Fr = s "unième" := by decide +kernel
  have e6 : ordUnFr.isEmpty = false := by decide +kernel
  refine ⟨A ++ s "unième", ?_, ?_⟩
  · unfold ordinalOf lastWordSplit
    rw [tailSplit_append isWordChar hw A ordUnFr hA, e1]
    simp only [n1, n2, n3, or_self, ↓reduceIte, e6, Bool.false_eq_true, List.append_nil]
    rw [if_pos e3]
    simp only [pure, Except.pure, List.append_assoc, e5]
  · unfold ordRule splitLast
    rw [tailSplit_append (fun c => !isSep c) (by decide) A ordUnFr hA, e2]
    simp [n4, e4]

/-! ### the last non-zero group of a spelling -/

/-- the text of the last non-zero group: a triplet, or a scale form when only zeros follow -/
def lastPart (ℓ : Lang) : List Nat → Except Crash Str
  | [] => .error .indexError
  | [h] => centaines ℓ h
  | h :: t1 :: rest =>
    if h = 0 then lastPart ℓ (t1 :: rest)
    else if tousZero (t1 :: rest) then
      match idx (scaleTable ℓ) rest.length with
      | .ok sc => pure (if h = 1 then sc.1 else sc.2)
      | .error e => .error e
    else lastPart ℓ (t1 :: rest)

theorem sepsPlain_tbl : grpSep1 = [' '] ∧ grpSep2 = [' '] ∧ grpEmpty = [] := by decide +kernel

theorem first_shape (ℓ : Lang) (h : Nat) (sc : Str × Str) (first : Str) (hs1 : grpSep1 = [' '])
    (hf : (if h = 1 then (pure sc.1 : Except Crash Str)
            else (centaines ℓ h).map (fun w => w ++ (grpSep1 ++ sc.2))) = .ok first) :
    ∃ A0, first = A0 ++ (if h = 1 then sc.1 else sc.2) ∧ EndsSpace A0 := by
  by_cases h1 : h = 1
  · simp only [h1, if_true, pure, Except.pure, Except.ok.injEq] at hf
    exact ⟨[], by simp [h1, hf], Or.inl rfl⟩
  · simp only [h1, if_false] at hf
    cases hc : centaines ℓ h with
    | error e => simp [hc, Except.map] at hf
    | ok cw =>
      simp only [hc, Except.map, Except.ok.injEq] at hf
      exact ⟨cw ++ [' '], by simp [h1, ← hf, hs1], Or.inr ⟨cw, rfl⟩⟩

/-- `grouper` = a text that is empty or ends with a space, then the last non-zero group, then at most one space -/
theorem grouper_shape (ℓ : Lang) : ∀ (ts : List Nat) (w : Str), grouper ℓ ts = .ok w →
    ∃ A T trail, w = A ++ T ++ trail ∧ lastPart ℓ ts = .ok T ∧ EndsSpace A ∧ (trail = [] ∨ trail = [' '])
  | [], w, h => by simp [grouper] at h
  | [h], w, hw => ⟨[], w, [], by simp, by simpa [grouper, lastPart] using hw, Or.inl rfl, Or.inl rfl⟩
  | h :: t1 :: rest, w, hw => by
    obtain ⟨hs1, hs2, hs3⟩ := sepsPlain_tbl
    by_cases h0 : h = 0
    · have hw' : grouper ℓ (t1 :: rest) = .ok w := by simpa [grouper, h0] using hw
      obtain ⟨A, T, trail, e, hl, hA, ht⟩ := grouper_shape ℓ (t1 :: rest) w hw'
      exact ⟨A, T, trail, e, by simpa [lastPart, h0] using hl, hA, ht⟩
    · simp only [grouper, h0, if_false] at hw
      split at hw
      · cases hw
      · rename_i sc hsc
        split at hw
        · cases hw
        · rename_i first hf
          obtain ⟨A0, hfe, hA0⟩ := first_shape ℓ h sc first hs1 (by simpa [List.append_assoc] using hf)
          split at hw
          · rename_i hz
            simp only [pure, Except.pure, Except.ok.injEq] at hw
            refine ⟨A0, (if h = 1 then sc.1 else sc.2), [' '], ?_, ?_, hA0, Or.inr rfl⟩
            · rw [← hw, hfe, hs2, hs3]; simp
            · simp [lastPart, h0, hz, hsc, pure, Except.pure]
          · rename_i hz
            split at hw
            · cases hw
            · rename_i tail htl
              simp only [pure, Except.pure, Except.ok.injEq] at hw
              obtain ⟨A, T, trail, e, hl, hA, ht⟩ := grouper_shape ℓ (t1 :: rest) tail htl
              refine ⟨first ++ [' '] ++ A, T, trail, ?_, ?_, ?_, ht⟩
              · rw [← hw, e, hs2]; simp
              · simpa [lastPart, h0, hz] using hl
              · rcases hA with rfl | ⟨A', rfl⟩
                · exact Or.inr ⟨first, by simp⟩
                · exact Or.inr ⟨first ++ [' '] ++ A', by simp⟩

/-! ### the finite family -/

/-- head and last character are not white space (so `strip()` keeps the text) -/
def edgeOK (T : Str) : Bool :=
  (match T.head? with | some c => !isPySpace c | none => false) &&
  (match T.getLast? with | some c => !isPySpace c | none => false)

/-- checks on the text of a group: `strip` keeps it; it is local (or the French `un`) -/
def partOK (T : Str) : Bool := edgeOK T && (locOK T || T == ordUnFr)

def tripletPartOK (ℓ : Lang) (t : Nat) : Bool :=
  t == 0 || (match centaines ℓ t with | .ok T => partOK T | .error _ => false)

def headOK (T : Str) : Bool := match T.head? with | some c => !isPySpace c | none => false

def scalePartOK (ℓ : Lang) (k : Nat) : Bool :=
  match (scaleTable ℓ)[k]? with
  | some sc => partOK sc.1 && partOK sc.2
  | none => false

set_option maxRecDepth 100000 in
theorem triplet_part_tbl_en : (List.range 1000).all (tripletPartOK .en) = true := by decide +kernel
set_option maxRecDepth 100000 in
theorem triplet_part_tbl_fr : (List.range 1000).all (tripletPartOK .fr) = true := by decide +kernel
theorem scale_part_tbl : ∀ k : Fin 6, scalePartOK .en k.val = true ∧ scalePartOK .fr k.val = true := by decide +kernel
/-- the spelling of zero also starts with a letter -/
theorem zero_head_tbl : (match centaines .en 0 with | .ok T => headOK T | _ => false) = true ∧
    (match centaines .fr 0 with | .ok T => headOK T | _ => false) = true := by decide +kernel

/-- English: model and specification agree on every member of the family -/
def tripletAgree (ℓ : Lang) (t : Nat) : Bool :=
  t == 0 || (match centaines ℓ t with | .ok T => agreeB ℓ .m T | .error _ => false)

def scaleAgree (ℓ : Lang) (k : Nat) : Bool :=
  match (scaleTable ℓ)[k]? with
  | some sc => agreeB ℓ .m sc.1 && agreeB ℓ .m sc.2
  | none => false

set_option maxRecDepth 100000 in
theorem triplet_agree_tbl_en : (List.range 1000).all (tripletAgree .en) = true := by decide +kernel
theorem scale_agree_tbl_en : ∀ k : Fin 6, scaleAgree .en k.val = true := by decide +kernel
set_option maxRecDepth 100000 in
theorem triplet_agree_tbl_fr : (List.range 1000).all (tripletAgree .fr) = true := by decide +kernel
theorem scale_agree_tbl_fr : ∀ k : Fin 6, scaleAgree .fr k.val = true := by decide +kernel

theorem tripletPart (ℓ : Lang) (t : Nat) (h1 : 1 ≤ t) (h2 : t < 1000) (T : Str) (hT : centaines ℓ t = .ok T) :
    partOK T = true := by
  have h : tripletPartOK ℓ t = true := by
    cases ℓ
    · exact List.all_eq_true.mp triplet_part_tbl_en t (List.mem_range.mpr h2)
    · exact List.all_eq_true.mp triplet_part_tbl_fr t (List.mem_range.mpr h2)
  have h0 : (t == 0) = false := by simp; omega
  simpa [tripletPartOK, h0, hT] using h

/-- members of the family: what `lastPart` returns for a list of triplets that is not all zeros -/
inductive InFam (ℓ : Lang) : Str → Prop where
  | triplet (t : Nat) (T : Str) : 1 ≤ t → t < 1000 → centaines ℓ t = .ok T → InFam ℓ T
  | sing (k : Nat) (sc : Str × Str) : k < 6 → (scaleTable ℓ)[k]? = some sc → InFam ℓ sc.1
  | plur (k : Nat) (sc : Str × Str) : k < 6 → (scaleTable ℓ)[k]? = some sc → InFam ℓ sc.2

theorem lastPart_fam (ℓ : Lang) : ∀ (ts : List Nat) (T : Str), tousZero ts = false → (∀ t ∈ ts, t < 1000) →
    ts.length ≤ 7 → lastPart ℓ ts = .ok T → InFam ℓ T
  | [], T, hz, _, _, _ => by simp [tousZero] at hz
  | [h], T, hz, hlt, _, hT => by
    have h0 : h ≠ 0 := by intro h0; simp [tousZero, h0] at hz
    exact .triplet h T (by omega) (hlt h (by simp)) (by simpa [lastPart] using hT)
  | h :: t1 :: rest, T, hz, hlt, hlen, hT => by
    have hlt' : ∀ t ∈ t1 :: rest, t < 1000 := fun t ht => hlt t (by simp [ht])
    have hlen' : (t1 :: rest).length ≤ 7 := by simp at hlen ⊢; omega
    by_cases h0 : h = 0
    · have hz' : tousZero (t1 :: rest) = false := by simpa [tousZero, h0] using hz
      exact lastPart_fam ℓ (t1 :: rest) T hz' hlt' hlen' (by simpa [lastPart, h0] using hT)
    · by_cases hzz : tousZero (t1 :: rest) = true
      · simp only [lastPart, h0, if_false, hzz, if_true] at hT
        cases hsc : idx (scaleTable ℓ) rest.length with
        | error e => simp [hsc] at hT
        | ok sc =>
          simp only [hsc, pure, Except.pure, Except.ok.injEq] at hT
          have hk : rest.length < 6 := by simp at hlen; omega
          have hsc' : (scaleTable ℓ)[rest.length]? = some sc := by
            unfold idx at hsc
            cases hh : (scaleTable ℓ)[rest.length]? with
            | none => simp [hh] at hsc
            | some x => simp [hh] at hsc; rw [hsc]
          by_cases h1 : h = 1
          · simp only [h1, if_true] at hT; rw [← hT]; exact .sing rest.length sc hk hsc'
          · simp only [h1, if_false] at hT; rw [← hT]; exact .plur rest.length sc hk hsc'
      · have hzz' : tousZero (t1 :: rest) = false := by simpa using hzz
        exact lastPart_fam ℓ (t1 :: rest) T hzz' hlt' hlen' (by simpa [lastPart, h0, hzz'] using hT)

theorem fam_partOK (ℓ : Lang) (T : Str) (h : InFam ℓ T) : partOK T = true := by
  cases h with
  | triplet t T h1 h2 hT => exact tripletPart ℓ t h1 h2 T hT
  | sing k sc hk hsc =>
    have := scale_part_tbl ⟨k, hk⟩
    cases ℓ
    · have h := this.1; simp only [scalePartOK, hsc, Bool.and_eq_true] at h; exact h.1
    · have h := this.2; simp only [scalePartOK, hsc, Bool.and_eq_true] at h; exact h.1
  | plur k sc hk hsc =>
    have := scale_part_tbl ⟨k, hk⟩
    cases ℓ
    · have h := this.1; simp only [scalePartOK, hsc, Bool.and_eq_true] at h; exact h.2
    · have h := this.2; simp only [scalePartOK, hsc, Bool.and_eq_true] at h; exact h.2

theorem fam_agree (ℓ : Lang) (T : Str) (h : InFam ℓ T) : agreeB ℓ .m T = true := by
  cases h with
  | triplet t T h1 h2 hT =>
    have h : tripletAgree ℓ t = true := by
      cases ℓ
      · exact List.all_eq_true.mp triplet_agree_tbl_en t (List.mem_range.mpr h2)
      · exact List.all_eq_true.mp triplet_agree_tbl_fr t (List.mem_range.mpr h2)
    have h0 : (t == 0) = false := by simp; omega
    simpa [tripletAgree, h0, hT] using h
  | sing k sc hk hsc =>
    have h : scaleAgree ℓ k = true := by
      cases ℓ
      · exact scale_agree_tbl_en ⟨k, hk⟩
      · exact scale_agree_tbl_fr ⟨k, hk⟩
    simp only [scaleAgree, hsc, Bool.and_eq_true] at h; exact h.1
  | plur k sc hk hsc =>
    have h : scaleAgree ℓ k = true := by
      cases ℓ
      · exact scale_agree_tbl_en ⟨k, hk⟩
      · exact scale_agree_tbl_fr ⟨k, hk⟩
    simp only [scaleAgree, hsc, Bool.and_eq_true] at h; exact h.2

/-! ### `strip()` keeps the spelling without its final space -/

theorem lstrip_of_head (x : Str) (h : headOK x = true) : lstrip x = x := by
  cases x with
  | nil => rfl
  | cons c r =>
    simp only [headOK, List.head?_cons, Bool.not_eq_true'] at h
    simp [lstrip, h]

theorem headOK_append (x y : Str) (h : headOK x = true) : headOK (x ++ y) = true := by
  cases x with
  | nil => simp [headOK] at h
  | cons c r => simpa [headOK] using h

theorem strip_keep (x trail : Str) (h1 : headOK x = true) (h2 : headOK x.reverse = true)
    (ht : trail = [] ∨ trail = [' ']) : strip (x ++ trail) = x := by
  unfold strip
  rw [lstrip_of_head _ (headOK_append x trail h1)]
  rcases ht with rfl | rfl
  · simp [lstrip_of_head _ h2]
  · have : (x ++ [' ']).reverse = ' ' :: x.reverse := by simp
    rw [this]
    have hsp : isPySpace ' ' = true := by decide
    simp [lstrip, hsp, lstrip_of_head _ h2]

theorem scaleTable_len_tbl : (scaleTable .en).length = 6 ∧ (scaleTable .fr).length = 6 := by decide +kernel

theorem edge_head {T : Str} (h : edgeOK T = true) : headOK T = true := by
  simp only [edgeOK, Bool.and_eq_true] at h
  exact h.1

theorem edge_last {T : Str} (h : edgeOK T = true) : headOK T.reverse = true := by
  simp only [edgeOK, Bool.and_eq_true] at h
  have := h.2
  unfold headOK
  rw [List.head?_reverse]
  exact this

theorem centaines_head (ℓ : Lang) (t : Nat) (ht : t < 1000) (T : Str) (hT : centaines ℓ t = .ok T) : headOK T = true := by
  by_cases h0 : t = 0
  · subst h0
    obtain ⟨z1, z2⟩ := zero_head_tbl
    cases ℓ
    · simpa [hT] using z1
    · simpa [hT] using z2
  · have := tripletPart ℓ t (by omega) ht T hT
    simp only [partOK, Bool.and_eq_true] at this
    exact edge_head this.1

/-- the spelling starts with a letter -/
theorem grouper_head (ℓ : Lang) : ∀ (ts : List Nat) (w : Str), (∀ t ∈ ts, t < 1000) → grouper ℓ ts = .ok w →
    headOK w = true
  | [], w, _, h => by simp [grouper] at h
  | [h], w, hlt, hw => centaines_head ℓ h (hlt h (by simp)) w (by simpa [grouper] using hw)
  | h :: t1 :: rest, w, hlt, hw => by
    by_cases h0 : h = 0
    · exact grouper_head ℓ (t1 :: rest) w (fun t ht => hlt t (by simp [ht])) (by simpa [grouper, h0] using hw)
    · simp only [grouper, h0, if_false] at hw
      split at hw
      · cases hw
      · rename_i sc hsc
        split at hw
        · cases hw
        · rename_i first hf
          have hfirst : headOK first = true := by
            by_cases h1 : h = 1
            · simp only [h1, if_true, pure, Except.pure, Except.ok.injEq] at hf
              have hk : rest.length < 6 := by
                unfold idx at hsc
                cases hh : (scaleTable ℓ)[rest.length]? with
                | none => simp [hh] at hsc
                | some x =>
                  have := (List.getElem?_eq_some_iff.mp hh).1
                  obtain ⟨l1, l2⟩ := scaleTable_len_tbl
                  cases ℓ <;> omega
              have hsc' : (scaleTable ℓ)[rest.length]? = some sc := by
                unfold idx at hsc
                cases hh : (scaleTable ℓ)[rest.length]? with
                | none => simp [hh] at hsc
                | some x => simp [hh] at hsc; rw [hsc]
              have := scale_part_tbl ⟨rest.length, hk⟩
              rw [← hf]
              cases ℓ
              · have h := this.1; simp only [scalePartOK, hsc', Bool.and_eq_true, partOK] at h; exact edge_head h.1.1
              · have h := this.2; simp only [scalePartOK, hsc', Bool.and_eq_true, partOK] at h; exact edge_head h.1.1
            · simp only [h1, if_false] at hf
              cases hc : centaines ℓ h with
              | error e => simp [hc, Except.map] at hf
              | ok cw =>
                simp only [hc, Except.map, Except.ok.injEq] at hf
                rw [← hf]
                exact headOK_append _ _ (headOK_append _ _ (centaines_head ℓ h (hlt h (by simp)) cw hc))
          split at hw
          · simp only [pure, Except.pure, Except.ok.injEq] at hw
            rw [← hw]; exact headOK_append _ _ (headOK_append _ _ hfirst)
          · split at hw
            · cases hw
            · simp only [pure, Except.pure, Except.ok.injEq] at hw
              rw [← hw]; exact headOK_append _ _ (headOK_append _ _ hfirst)

theorem tousZero_value (ts : List Nat) (h : tousZero ts = true) : value ts = 0 := value_tousZero ts h

/-- the spelling of `n ≥ 1` is a text that is empty or ends with a space followed by the text of the last
    non-zero group, a member of the finite family -/
theorem spelling_shape (ℓ : Lang) (n : Int) (hn : 1 ≤ n) (hd : n.natAbs < 10 ^ 21) (w : Str)
    (hw : enToutesLettres ℓ n = .ok w) :
    ∃ A T, w = A ++ T ∧ EndsSpace A ∧ lastPart ℓ (splitS n.natAbs) = .ok T ∧ InFam ℓ T := by
  obtain ⟨hne, hlt, hval, hlen⟩ := splitSAux_spec n.natAbs n.natAbs (Nat.le_refl _)
  have hlen7 : (splitS n.natAbs).length ≤ 7 := hlen 7 (by decide) (by
    have : (1000 : Nat) ^ 7 = 10 ^ 21 := by decide
    omega)
  have hnz : tousZero (splitS n.natAbs) = false := by
    cases h : tousZero (splitS n.natAbs) with
    | false => rfl
    | true =>
      have := value_tousZero _ h
      have hv : value (splitS n.natAbs) = n.natAbs := hval
      omega
  unfold enToutesLettres at hw
  cases hg : grouper ℓ (splitS n.natAbs) with
  | error e => simp [hg] at hw
  | ok w0 =>
    have hneg : ¬ (n < 0) := by omega
    simp only [hg, hneg, if_false, pure, Except.pure, Except.ok.injEq] at hw
    obtain ⟨A, T, trail, e, hl, hA, ht⟩ := grouper_shape ℓ _ w0 hg
    have hfam := lastPart_fam ℓ _ T hnz hlt hlen7 hl
    have hpart := fam_partOK ℓ T hfam
    simp only [partOK, Bool.and_eq_true] at hpart
    have hhead0 := grouper_head ℓ _ w0 hlt hg
    have hTne : T ≠ [] := by
      intro h; have := edge_head hpart.1; simp [h, headOK] at this
    have hhead : headOK (A ++ T) = true := by
      rw [e, List.append_assoc] at hhead0
      cases hA' : A with
      | nil =>
        simp only [hA', List.nil_append] at hhead0 ⊢
        exact edge_head hpart.1
      | cons c r =>
        simp only [hA', headOK, List.cons_append, List.head?_cons] at hhead0 ⊢
        exact hhead0
    have hlast : headOK (A ++ T).reverse = true := by
      rw [List.reverse_append]
      exact headOK_append _ _ (edge_last hpart.1)
    refine ⟨A, T, ?_, hA, hl, hfam⟩
    rw [← hw, e]
    exact strip_keep (A ++ T) trail hhead hlast ht

/-- the ordinal of `n ≥ 1` is what the rule makes of its spelling: the text of the last non-zero group is in the
    finite family, on which model and rule agree (`triplet_agree_tbl_*`, `scale_agree_tbl_*`) -/
theorem ordinal_follows (ℓ : Lang) (n : Int) (g : Gender) (hn : 1 ≤ n) (hd : n.natAbs < 10 ^ 21) (w : Str)
    (hw : enToutesLettres ℓ n = .ok w) :
    ∃ o, ordinal ℓ n g = .ok o ∧ ordRule ℓ g w = some o := by
  obtain ⟨A, T, e, hA, hl, hfam⟩ := spelling_shape ℓ n hn hd w hw
  have hag := fam_agree ℓ T hfam
  have hpart := fam_partOK ℓ T hfam
  simp only [partOK, Bool.and_eq_true, Bool.or_eq_true, beq_iff_eq] at hpart
  have hres : Agree ℓ g (A ++ T) := by
    rcases hpart.2 with hloc | hun
    · exact agree_append ℓ g A T hA hloc (agree_gender ℓ g T hloc (agree_of_agreeB hag))
    · -- the group is the French `un`
      subst hun
      cases ℓ with
      | en => exact absurd hag (by decide +kernel)
      | fr =>
        by_cases hne : A = []
        · subst hne
          simp only [List.nil_append]
          cases g
          · exact ⟨s "premier", by decide +kernel, by decide +kernel⟩
          · exact ⟨s "première", by decide +kernel, by decide +kernel⟩
          · exact ⟨s "premier", by decide +kernel, by decide +kernel⟩
          · exact ⟨s "premier", by decide +kernel, by decide +kernel⟩
        · exact agree_append_un g A hA hne
  obtain ⟨o, h1, h2⟩ := hres
  refine ⟨o, ?_, ?_⟩
  · unfold ordinal; rw [hw, e]; exact h1
  · rw [e]; exact h2

end Pyrealb.Number
