import Pyrealb.Model.OneOf
import Pyrealb.Lemmas.OneOfRev
/-! Bridge between the Python-order model (`stepPy`, `runPy`: `pop()` takes the last element) and the
    reversed-stack view (`Rev.step`, `Rev.run`) in which the invariants were proved. -/
namespace Pyrealb.OneOf
open Rev

theorem pop?_reverse (l : List Nat) :
    pop? l.reverse = match l with | [] => none | i :: r => some (i, r.reverse) := by
  cases l with
  | nil => simp [pop?]
  | cons i r => simp [pop?]

theorem swapFL_eq_swapHL (l : List Nat) : swapFL l = swapHL l := by
  cases l with
  | nil => rfl
  | cons a r => cases r <;> rfl

theorem swapHL_mid (a z : Nat) (mid : List Nat) : swapHL (a :: (mid ++ [z])) = z :: (mid ++ [a]) := by
  cases mid with
  | nil => simp [swapHL]
  | cons b m =>
    have : swapHL (a :: (b :: m ++ [z])) = (b :: m ++ [z]).getLast! :: ((b :: m ++ [z]).dropLast ++ [a]) := rfl
    rw [this]
    have h1 : (b :: m ++ [z]).getLast! = z := by
      have : (b :: (m ++ [z])).getLast? = some z := by
        rw [show b :: (m ++ [z]) = (b :: m) ++ [z] from rfl, List.getLast?_append]; simp
      simp only [List.getLast!_eq_getLast?_getD, List.cons_append, this, Option.getD_some]
    have h2 : (b :: m ++ [z]).dropLast = b :: m := by
      rw [List.dropLast_concat]
    rw [h1, h2]

theorem swapHL_reverse (l : List Nat) : swapHL l.reverse = (swapHL l).reverse := by
  match l with
  | [] => rfl
  | [a] => rfl
  | a :: b :: r =>
    have hne : (b :: r) ≠ [] := by simp
    obtain ⟨mid, z, e⟩ : ∃ mid z, b :: r = mid ++ [z] :=
      ⟨(b :: r).dropLast, (b :: r).getLast hne, (List.dropLast_concat_getLast hne).symm⟩
    rw [e, swapHL_mid]
    have : (a :: (mid ++ [z])).reverse = z :: (mid.reverse ++ [a]) := by simp
    rw [this, swapHL_mid]
    simp

/-- the reshuffle step on the reversed view -/
theorem reshuffle_reverse (idx : Nat) (perm : List Nat) :
    (reshuffle idx perm.reverse).reverse =
      (match perm with | [] => [] | j :: _ => if j = idx then swapHL perm else perm) := by
  cases perm with
  | nil => simp [reshuffle]
  | cons j r =>
    have : (j :: r).reverse.getLast? = some j := by simp
    unfold reshuffle
    rw [this]
    by_cases h : j = idx
    · simp only [h, if_true]
      rw [swapFL_eq_swapHL, swapHL_reverse, List.reverse_reverse]
    · simp [h]

/-- one Python-order step equals one reversed-view step, as long as no `pop()` fails -/
theorem stepPy_reverse (mem : Option (List Nat)) (perm : List Nat)
    (h1 : mem = none → perm ≠ []) (h2 : ∀ m, mem = some m → m ≠ []) :
    stepPy (mem.map List.reverse) perm.reverse =
      some ((step mem perm).1, (step mem perm).2.reverse) := by
  cases mem with
  | none =>
    cases perm with
    | nil => exact absurd rfl (h1 rfl)
    | cons i r =>
      have := pop?_reverse (i :: r)
      simp only [Option.map_none, stepPy, step]
      rw [this]
  | some m =>
    cases m with
    | nil => exact absurd rfl (h2 [] rfl)
    | cons i r =>
      simp only [Option.map_some, stepPy, pop?_reverse]
      cases r with
      | nil =>
        simp only [List.reverse_nil, List.length_nil, if_true, step, List.isEmpty_nil]
        have := reshuffle_reverse i perm
        cases perm with
        | nil => simp [reshuffle]
        | cons j q =>
          simp only at this ⊢
          rw [← this, List.reverse_reverse]
      | cons a t => simp [step]

end Pyrealb.OneOf

namespace Pyrealb.OneOf
open Rev

theorem isPerm_reverse {n : Nat} {p : List Nat} (h : IsPerm n p) : IsPerm n p.reverse :=
  (List.reverse_perm p).trans h

theorem runPy_some_reverse {n : Nat} (hn : 2 ≤ n) :
    ∀ (ps : List (List Nat)) (m : List Nat), Good m → (∀ p ∈ ps, IsPerm n p) →
      runPy (some m.reverse) (ps.map List.reverse) = (run (some m) ps).map some := by
  intro ps
  induction ps with
  | nil => intro m _ _; simp [runPy, run]
  | cons p ps ih =>
    intro m hg hps
    obtain ⟨i, r, rfl⟩ : ∃ i r, m = i :: r := by
      cases m with
      | nil => exact absurd rfl hg.1
      | cons i r => exact ⟨i, r, rfl⟩
    have hp : IsPerm n p := hps p (by simp)
    have hstep := stepPy_reverse (some (i :: r)) p (by simp) (by intro m hm; cases hm; simp)
    obtain ⟨_, _, hg', _⟩ := step_some hn i r p hg hp
    simp only [List.map_cons, runPy, run]
    simp only [Option.map_some] at hstep
    rw [hstep]
    simp only [List.map_cons]
    rw [ih _ hg' (fun q hq => hps q (by simp [hq]))]

theorem runPy_none_reverse {n : Nat} (hn : 2 ≤ n) (ps : List (List Nat)) (hps : ∀ p ∈ ps, IsPerm n p) :
    runPy none (ps.map List.reverse) = (run none ps).map some := by
  cases ps with
  | nil => simp [runPy, run]
  | cons p ps =>
    have hp : IsPerm n p := hps p (by simp)
    have hl := hp.length
    match p, hp, hl with
    | [], _, hl => simp at hl; omega
    | [a], _, hl => simp at hl; omega
    | a :: b :: r, hp, _ =>
      have hstep := stepPy_reverse none (a :: b :: r) (by simp) (by intro m hm; cases hm)
      have hg : Good (b :: r) := ⟨by simp, (List.nodup_cons.mp hp.nodup).2⟩
      simp only [List.map_cons, runPy, run]
      simp only [Option.map_none] at hstep
      rw [hstep]
      simp only [step, List.map_cons]
      rw [runPy_some_reverse hn ps (b :: r) hg (fun q hq => hps q (by simp [hq]))]

/-- Python order: the outputs of `runPy` from an empty memory are those of the reversed view on the reversed
    shuffle outcomes. -/
theorem runPy_eq {n : Nat} (hn : 2 ≤ n) (ps : List (List Nat)) (hps : ∀ p ∈ ps, IsPerm n p) :
    runPy none ps = (run none (ps.map List.reverse)).map some := by
  have h := runPy_none_reverse hn (ps.map List.reverse) (by
    intro p hp
    obtain ⟨q, hq, rfl⟩ := List.mem_map.mp hp
    exact isPerm_reverse (hps q hq))
  simpa [List.map_map, Function.comp_def] using h

end Pyrealb.OneOf
