import Pyrealb.Model.Date
/-! Calendar arithmetic for the date model: `toordinal` counts days (unbounded, all years ≥ 1). -/
namespace Pyrealb.Date

def yearLen (y : Nat) : Nat := if isLeap y then 366 else 365

theorem isLeap_iff (y : Nat) : isLeap y = true ↔ (y % 4 = 0 ∧ (y % 100 ≠ 0 ∨ y % 400 = 0)) := by
  simp [isLeap]

theorem div_succ4 (p : Nat) : (p + 1) / 4 = p / 4 + (if (p + 1) % 4 = 0 then 1 else 0) := by split <;> omega
theorem div_succ100 (p : Nat) : (p + 1) / 100 = p / 100 + (if (p + 1) % 100 = 0 then 1 else 0) := by split <;> omega
theorem div_succ400 (p : Nat) : (p + 1) / 400 = p / 400 + (if (p + 1) % 400 = 0 then 1 else 0) := by split <;> omega

theorem daysBeforeYear_succ (y : Nat) (h : 1 ≤ y) : daysBeforeYear (y + 1) = daysBeforeYear y + yearLen y := by
  obtain ⟨p, rfl⟩ : ∃ p, y = p + 1 := ⟨y - 1, by omega⟩
  have e1 : p + 1 + 1 - 1 = p + 1 := rfl
  have e0 : p + 1 - 1 = p := rfl
  unfold daysBeforeYear yearLen isLeap
  rw [e1, e0, div_succ4, div_succ100, div_succ400]
  have m1 : (p + 1) % 4 ≠ 0 → (p + 1) % 100 ≠ 0 := by omega
  have m2 : (p + 1) % 100 ≠ 0 → (p + 1) % 400 ≠ 0 := by omega
  have l1 : p / 100 ≤ p / 4 := by omega
  generalize p / 4 = a at *
  generalize p / 100 = b at *
  generalize p / 400 = c at *
  by_cases h4 : (p + 1) % 4 = 0 <;> by_cases h100 : (p + 1) % 100 = 0 <;> by_cases h400 : (p + 1) % 400 = 0 <;>
    simp [h4, h100, h400] at * <;> omega

theorem daysBeforeYear_mono {a b : Nat} (ha : 1 ≤ a) (h : a ≤ b) : daysBeforeYear a ≤ daysBeforeYear b := by
  induction b with
  | zero => omega
  | succ n ih =>
    by_cases hn : a = n + 1
    · subst hn; exact Nat.le_refl _
    · have : a ≤ n := by omega
      have h1 := ih this
      have h2 := daysBeforeYear_succ n (by omega)
      omega

/-- the month tables as functions of the leap flag only -/
def dimL (l : Bool) (m : Nat) : Nat :=
  if m = 2 then (if l then 29 else 28) else if m = 4 ∨ m = 6 ∨ m = 9 ∨ m = 11 then 30 else 31
def dbmL (l : Bool) (m : Nat) : Nat := daysBeforeMonthTbl m + (if 2 < m ∧ l then 1 else 0)

theorem daysInMonth_eq (y m : Nat) : daysInMonth y m = dimL (isLeap y) m := by
  unfold daysInMonth dimL; cases isLeap y <;> simp
theorem daysBeforeMonth_eq (y m : Nat) : daysBeforeMonth y m = dbmL (isLeap y) m := by
  unfold daysBeforeMonth dbmL; cases isLeap y <;> simp

theorem dbmL_succ : ∀ (l : Bool) (m : Fin 12), 1 ≤ m.val → dbmL l (m.val + 1) = dbmL l m.val + dimL l m.val := by decide
theorem dbmL_dec : ∀ (l : Bool), dbmL l 12 + dimL l 12 = (if l then 366 else 365) := by decide
theorem dbmL_lt : ∀ (l : Bool) (a b : Fin 13), 1 ≤ a.val → a.val < b.val → dbmL l a.val + dimL l a.val ≤ dbmL l b.val := by decide
theorem dbmL_year : ∀ (l : Bool) (m : Fin 13), 1 ≤ m.val → dbmL l m.val + dimL l m.val ≤ (if l then 366 else 365) := by decide
theorem dimL_pos : ∀ (l : Bool) (m : Nat), 28 ≤ dimL l m := by
  intro l m; unfold dimL; cases l <;> (repeat' split) <;> omega

theorem valid_iff (d : Date) : d.valid = true ↔
    (1 ≤ d.year ∧ d.year ≤ 9999 ∧ 1 ≤ d.month ∧ d.month ≤ 12 ∧ 1 ≤ d.day ∧ d.day ≤ daysInMonth d.year d.month) := by
  simp [Date.valid, and_assoc]

/-- **+1 across every day, month, year and leap boundary** -/
theorem toordinal_next (d : Date) (h : d.valid = true) : toordinal d.next = toordinal d + 1 := by
  obtain ⟨hy, _, hm1, hm12, hd1, hdm⟩ := (valid_iff d).mp h
  unfold Date.next
  by_cases c1 : d.day < daysInMonth d.year d.month
  · simp [c1, toordinal]; omega
  · have hde : d.day = daysInMonth d.year d.month := by omega
    by_cases c2 : d.month < 12
    · simp only [c1, c2, if_true, if_false, toordinal]
      have := dbmL_succ (isLeap d.year) ⟨d.month, c2⟩ hm1
      simp only [daysBeforeMonth_eq, daysInMonth_eq] at *
      omega
    · have hm : d.month = 12 := by omega
      simp only [c1, c2, if_false, toordinal]
      have h1 := daysBeforeYear_succ d.year hy
      have h2 := dbmL_dec (isLeap d.year)
      have h3 : daysBeforeMonth (d.year + 1) 1 = 0 := by simp [daysBeforeMonth, daysBeforeMonthTbl]
      simp only [daysBeforeMonth_eq, daysInMonth_eq, yearLen, hm] at *
      omega

/-- lexicographic order on (year, month, day) -/
def Date.lt (a b : Date) : Prop :=
  a.year < b.year ∨ (a.year = b.year ∧ (a.month < b.month ∨ (a.month = b.month ∧ a.day < b.day)))

instance (a b : Date) : Decidable (a.lt b) := by unfold Date.lt; infer_instance

theorem dayOfYear_le (d : Date) (h : d.valid = true) : daysBeforeMonth d.year d.month + d.day ≤ yearLen d.year := by
  obtain ⟨_, _, hm1, hm12, _, hdm⟩ := (valid_iff d).mp h
  have := dbmL_year (isLeap d.year) ⟨d.month, by omega⟩ hm1
  simp only [daysBeforeMonth_eq, daysInMonth_eq, yearLen] at *
  omega

/-- **`toordinal` is strictly monotone** for the calendar order -/
theorem toordinal_strictMono (a b : Date) (ha : a.valid = true) (hb : b.valid = true) (h : a.lt b) :
    toordinal a < toordinal b := by
  obtain ⟨hya, _, hma1, hma12, hda1, hdma⟩ := (valid_iff a).mp ha
  obtain ⟨hyb, _, hmb1, hmb12, hdb1, hdmb⟩ := (valid_iff b).mp hb
  unfold toordinal
  rcases h with h | ⟨hy, h | ⟨hm, h⟩⟩
  · have h1 := dayOfYear_le a ha
    have h2 := daysBeforeYear_succ a.year hya
    have h3 := daysBeforeYear_mono (a := a.year + 1) (b := b.year) (by omega) (by omega)
    omega
  · have := dbmL_lt (isLeap a.year) ⟨a.month, by omega⟩ ⟨b.month, by omega⟩ hma1 h
    simp only [daysBeforeMonth_eq, daysInMonth_eq, hy] at *
    omega
  · rw [hy, hm]; omega

theorem lt_trichotomy (a b : Date) : a.lt b ∨ a = b ∨ b.lt a := by
  obtain ⟨y1, m1, d1⟩ := a
  obtain ⟨y2, m2, d2⟩ := b
  simp only [Date.lt, Date.mk.injEq]
  omega

theorem toordinal_inj (a b : Date) (ha : a.valid = true) (hb : b.valid = true) (h : toordinal a = toordinal b) : a = b := by
  rcases lt_trichotomy a b with h1 | h1 | h1
  · have := toordinal_strictMono a b ha hb h1; omega
  · exact h1
  · have := toordinal_strictMono b a hb ha h1; omega

theorem toordinal_pos (d : Date) (h : d.valid = true) : 1 ≤ toordinal d := by
  have := (valid_iff d).mp h; unfold toordinal; omega

theorem next_valid (d : Date) (h : d.valid = true) (hmax : d.year < 9999) : d.next.valid = true := by
  obtain ⟨hy, _, hm1, hm12, hd1, hdm⟩ := (valid_iff d).mp h
  rw [valid_iff]
  unfold Date.next
  by_cases c1 : d.day < daysInMonth d.year d.month
  · simp [c1]; omega
  · by_cases c2 : d.month < 12
    · simp only [c1, c2, if_true, if_false]
      have := dimL_pos (isLeap d.year) (d.month + 1)
      simp only [daysInMonth_eq] at *
      omega
    · simp only [c1, c2, if_false]
      have := dimL_pos (isLeap (d.year + 1)) 1
      simp only [daysInMonth_eq] at *
      omega

theorem weekday_next (d : Date) (h : d.valid = true) : weekday d.next = (weekday d + 1) % 7 := by
  unfold weekday; rw [toordinal_next d h]; omega

/-- the weekday of a day is that of any other day shifted by the signed difference of their ordinals -/
theorem weekday_shift (a b : Date) :
    (weekday a : Int) = ((weekday b : Int) + ((toordinal a : Int) - (toordinal b : Int))) % 7 := by
  unfold weekday; omega

end Pyrealb.Date
