import Pyrealb.Lemmas.JsonSource
import Pyrealb.Lemmas.JsonText
set_option linter.unusedSimpArgs false
/-! The printed source reads back as the construction program it denotes (C12, source route, text level):
    `parseSrc cur (toSource e) = progOf e` when the language of the root is the current one, for every lemma and tag
    name (escaped by `quoteSource`), `lang=` arguments included, and option values whose `repr` is covered. -/
namespace Pyrealb.Expr
open Pyrealb

/-! ### identifiers -/

theorem readIdent_append (name : Str) (c : Char) (rest : Str) (hn : name.all isIdentChar = true)
    (hc : isIdentChar c = false) : readIdent (name ++ c :: rest) = (name, c :: rest) := by
  unfold readIdent
  induction name with
  | nil => simp [hc]
  | cons d r ih =>
    simp only [List.all_cons, Bool.and_eq_true] at hn
    have := ih hn.2
    simp only [Prod.mk.injEq] at this
    simp [hn.1, this.1, this.2]

/-! ### a lemma or a tag name between double quotes (`quoteSource`) -/

/-- a backslash followed by a character that does not start a hexadecimal escape -/
theorem readPyStr_bs (q e : Char) (r1 : Str) (hx : e ≠ 'x') (hu : e ≠ 'u') (hU : e ≠ 'U') :
    readPyStr q ('\\' :: e :: r1) =
      match pyEscape e with
      | none => .error .valueError
      | some esc =>
        match readPyStr q r1 with
        | .error err => .error err
        | .ok (x, rest) =>
          match esc with
          | some ch => .ok (ch :: x, rest)
          | none => .ok ('\\' :: e :: x, rest) := by
  rw [readPyStr.eq_def]
  simp only [if_true, hx, hu, hU, if_false]
  rfl

theorem readPyStr_close (q : Char) (r : Str) (hq : q ≠ '\\') : readPyStr q (q :: r) = .ok ([], r) := by
  rw [readPyStr.eq_def]
  simp [hq]

/-- a raw character that is neither the backslash, the closing quote nor a line break -/
theorem readPyStr_raw (q c : Char) (r : Str) (h1 : c ≠ '\\') (h2 : c ≠ q) (h3 : c ≠ '\n') (h4 : c ≠ '\r') :
    readPyStr q (c :: r) =
      match readPyStr q r with
      | .ok (x, rest) => .ok (c :: x, rest)
      | .error err => .error err := by
  rw [readPyStr.eq_def]
  simp only [h1, h2, h3, h4, if_false, Bool.or_self, decide_false, Bool.false_eq_true]
  rfl

theorem pyEscape_facts0 : pyEscape '\\' = some (some '\\') ∧ pyEscape '"' = some (some '"') ∧ pyEscape 'n' = some (some '\n') := by
  decide

theorem readPyStr_x (q a b : Char) (r2 : Str) :
    readPyStr q ('\\' :: 'x' :: a :: b :: r2) =
      match hexOf [a, b], readPyStr q r2 with
      | some v, .ok (x, rest) => .ok (Char.ofNat v :: x, rest)
      | none, _ => .error .syntaxError
      | _, .error err => .error err := by
  rw [readPyStr.eq_def]
  simp only [if_true]
  rfl

/-- `quoteSource` is read back for EVERY string (carriage return and NUL escaped since 2b9e5f9) -/
theorem readPyStr_quoteSrc (x rest : Str) : readPyStr '"' (quoteSrcBody x ++ '"' :: rest) = .ok (x, rest) := by
  obtain ⟨e1, e2, e3⟩ := pyEscape_facts0
  have e4 : pyEscape 'r' = some (some '\r') := by decide
  have hq : ('"' : Char) ≠ '\\' := by decide
  induction x with
  | nil => simp [quoteSrcBody, readPyStr_close _ _ hq]
  | cons c r ih =>
    simp only [quoteSrcBody]
    by_cases h1 : c = '\\'
    · subst h1
      have := readPyStr_bs '"' '\\' (quoteSrcBody r ++ '"' :: rest) (by decide) (by decide) (by decide)
      simp [this, e1, ih]
    · by_cases h2 : c = '"'
      · subst h2
        have := readPyStr_bs '"' '"' (quoteSrcBody r ++ '"' :: rest) (by decide) (by decide) (by decide)
        simp [this, e2, ih]
      · by_cases h3 : c = '\n'
        · subst h3
          have := readPyStr_bs '"' 'n' (quoteSrcBody r ++ '"' :: rest) (by decide) (by decide) (by decide)
          simp [this, e3, ih]
        · by_cases h4 : c = '\r'
          · subst h4
            have := readPyStr_bs '"' 'r' (quoteSrcBody r ++ '"' :: rest) (by decide) (by decide) (by decide)
            simp [this, e4, ih]
          · by_cases h5 : c = Char.ofNat 0
            · subst h5
              have := readPyStr_x '"' '0' '0' (quoteSrcBody r ++ '"' :: rest)
              have hx : hexOf ['0', '0'] = some 0 := by decide
              simp [this, hx, ih]
            · simp [h1, h2, h3, h4, h5, readPyStr_raw '"' c _ h1 h2 h3 h4, ih]

theorem quoteSrcBody_head (x : Str) : ∀ b bs, quoteSrcBody x = b :: bs → b ≠ '"' := by
  intro b bs h
  cases x with
  | nil => simp [quoteSrcBody] at h
  | cons c r =>
    simp only [quoteSrcBody] at h
    repeat' split at h
    all_goals
      simp only [List.cons_append, List.nil_append, List.cons.injEq] at h
      obtain ⟨hb, _⟩ := h
      subst hb
      first
        | decide
        | assumption

/-! ### `repr` of a string -/

/-- the characters whose `repr` is the character itself or one of `\n \r \t`: the printable ones (the hexadecimal
    escapes of the others are read by the model but not covered by the theorems) -/
def ReprOK (x : Str) : Prop := ∀ c ∈ x, isNonPrintable c = false ∨ c = '\n' ∨ c = '\r' ∨ c = '\t'

theorem pyEscape_facts : pyEscape '\\' = some (some '\\') ∧ pyEscape '\'' = some (some '\'') ∧ pyEscape '"' = some (some '"')
    ∧ pyEscape 'n' = some (some '\n') ∧ pyEscape 'r' = some (some '\r') ∧ pyEscape 't' = some (some '\t') := by decide

theorem readPyStr_repr (q : Char) (hq : q = '"' ∨ q = '\'') (x rest : Str) (h : ReprOK x) :
    readPyStr q (reprBody q x ++ q :: rest) = .ok (x, rest) := by
  have hqb : q ≠ '\\' := by rcases hq with h | h <;> (subst h; decide)
  induction x with
  | nil => simp [reprBody, readPyStr_close _ _ hqb]
  | cons c r ih =>
    have hc := h c (by simp)
    have ih' := ih (fun d hd => h d (by simp [hd]))
    obtain ⟨e1, e2, e3, e4, e5, e6⟩ := pyEscape_facts
    have bs := fun e hx hu hU => readPyStr_bs q e (reprBody q r ++ q :: rest) hx hu hU
    simp only [reprBody, reprChar]
    by_cases h1 : c = '\\'
    · subst h1; simp [bs '\\' (by decide) (by decide) (by decide), e1, ih']
    · by_cases h2 : c = q
      · subst h2
        rcases hq with hq | hq
        · subst hq; simp [bs '"' (by decide) (by decide) (by decide), e3, ih']
        · subst hq; simp [bs '\'' (by decide) (by decide) (by decide), e2, ih']
      · by_cases h3 : c = '\n'
        · subst h3; simp [h2, bs 'n' (by decide) (by decide) (by decide), e4, ih']
        · by_cases h4 : c = '\r'
          · subst h4; simp [h2, bs 'r' (by decide) (by decide) (by decide), e5, ih']
          · by_cases h5 : c = '\t'
            · subst h5; simp [h2, bs 't' (by decide) (by decide) (by decide), e6, ih']
            · have h6 : isNonPrintable c = false := by
                rcases hc with hc | hc | hc | hc
                · exact hc
                · exact absurd hc h3
                · exact absurd hc h4
                · exact absurd hc h5
              simp [h1, h2, h3, h4, h5, h6, readPyStr_raw q c _ h1 h2 h3 h4, ih']

/-- what follows a literal in a printed source: a closing bracket, a comma or a colon -/
def Follower (rest : Str) : Prop := ∃ c r, rest = c :: r ∧ (c = ')' ∨ c = ',' ∨ c = '}' ∨ c = ':')

theorem follower_facts (c : Char) (h : c = ')' ∨ c = ',' ∨ c = '}' ∨ c = ':') :
    c ≠ ' ' ∧ c ≠ '"' ∧ c ≠ '\'' ∧ isDigit c = false ∧ isIdentChar c = false ∧ c ≠ '(' ∧ c ≠ '.' := by
  rcases h with h | h | h | h <;> (subst h; decide)

theorem skipWs_follower (rest : Str) (h : Follower rest) : skipWs rest = rest := by
  obtain ⟨c, r, rfl, hc⟩ := h
  exact skipWs_cons c r (follower_facts c hc).1

theorem readPyStrs_lit (fuel : Nat) (q : Char) (hq : q = '"' ∨ q = '\'') (body x rest : Str)
    (hbody : readPyStr q (body ++ q :: rest) = .ok (x, rest))
    (hstart : ∀ b bs, body = b :: bs → b ≠ q) (hf : Follower rest) :
    readPyStrs (fuel + 1) (q :: (body ++ q :: rest)) = .ok (x, rest) := by
  obtain ⟨c, r', hrest, hc⟩ := hf
  obtain ⟨f1, f2, f3, _, _, _, _⟩ := follower_facts c hc
  have hqq : (q = '"' || q = '\'') = true := by rcases hq with h | h <;> simp [h]
  have hcq : c ≠ q := by rcases hq with h | h <;> (subst h; assumption)
  have hsk : skipWs rest = rest := by rw [hrest]; exact skipWs_cons c r' f1
  unfold readPyStrs
  simp only [hqq, if_true]
  cases body with
  | nil =>
    subst hrest
    simp only [List.nil_append] at hbody ⊢
    have : (decide (q = q) && decide (c = q)) = false := by simp [hcq]
    simp only [this, hbody, skipWs_cons c r' f1]
    simp [f2, f3, hcq]
  | cons b bs =>
    have hb := hstart b bs rfl
    have hne : ∃ y ys, bs ++ q :: rest = y :: ys := by
      cases bs with
      | nil => exact ⟨q, rest, rfl⟩
      | cons y ys => exact ⟨y, ys ++ q :: rest, rfl⟩
    obtain ⟨y, ys, hy⟩ := hne
    simp only [List.cons_append] at hbody ⊢
    rw [hy] at hbody ⊢
    have : (decide (b = q) && decide (y = q)) = false := by simp [hb]
    simp only [this, hbody, hsk]
    subst hrest
    simp [skipWs_cons c r' f1, f2, f3]

/-! ### atomic literals -/

theorem reprBody_head (q : Char) (hq : q = '"' ∨ q = '\'') (x : Str) : ∀ b bs, reprBody q x = b :: bs → b ≠ q := by
  intro b bs h
  cases x with
  | nil => simp [reprBody] at h
  | cons c r =>
    have hqb : q ≠ '\\' := by rcases hq with h | h <;> (subst h; decide)
    simp only [reprBody, reprChar] at h
    repeat' split at h
    all_goals
      simp only [List.cons_append, List.nil_append, List.cons.injEq] at h
      obtain ⟨hb, _⟩ := h
      subst hb
      first
        | exact hqb.symm
        | assumption

/-- atoms whose `repr` reads back: no `datetime` (the name is unbound), strings without exotic control characters -/
def AtomOK : Atom → Prop
  | .dt .. => False
  | .str x => ReprOK x
  | _ => True

theorem noDigit_of_follower (rest : Str) (h : Follower rest) : NoDigitHead rest := by
  obtain ⟨c, r, rfl, hc⟩ := h
  intro c' r' he; cases he; exact (follower_facts c hc).2.2.2.1

theorem s_True : s "True" = ['T', 'r', 'u', 'e'] := by decide
theorem s_False : s "False" = ['F', 'a', 'l', 's', 'e'] := by decide
theorem s_None : s "None" = ['N', 'o', 'n', 'e'] := by decide

theorem kw_facts :
    ((s "True").all isIdentChar = true ∧ (s "False").all isIdentChar = true ∧ (s "None").all isIdentChar = true) ∧
    (s "True" ≠ s "False" ∧ s "True" ≠ s "None" ∧ s "False" ≠ s "True" ∧ s "False" ≠ s "None" ∧ s "None" ≠ s "True"
      ∧ s "None" ≠ s "False") := by decide

theorem readAtomLit_kw (kw : Str) (c0 : Char) (r0 rest : Str) (hkw : kw = c0 :: r0) (hall : kw.all isIdentChar = true)
    (h0 : c0 ≠ ' ' ∧ c0 ≠ '"' ∧ c0 ≠ '\'' ∧ isDigit c0 = false ∧ c0 ≠ '-') (hf : Follower rest) :
    readAtomLit (kw ++ rest) =
      (if kw = s "True" then .ok (.bool true, rest) else if kw = s "False" then .ok (.bool false, rest)
       else if kw = s "None" then .ok (.none, rest) else if kw.isEmpty then .error .syntaxError else .error .nameError) := by
  obtain ⟨c, r, hrest, hc⟩ := hf
  have hi := (follower_facts c hc).2.2.2.2.1
  have hid := readIdent_append kw c r hall hi
  subst hrest
  unfold readAtomLit
  rw [hkw] at hid ⊢
  simp only [List.cons_append, skipWs_cons c0 _ h0.1]
  simp only [List.cons_append] at hid
  simp [h0.2.1, h0.2.2.1, h0.2.2.2.1, h0.2.2.2.2, hid]

theorem readAtomLit_repr (a : Atom) (rest : Str) (ha : AtomOK a) (hf : Follower rest) :
    readAtomLit (reprAtom a ++ rest) = .ok (a, rest) := by
  cases a with
  | none =>
    have := readAtomLit_kw (s "None") 'N' ['o', 'n', 'e'] rest s_None kw_facts.1.2.2 (by decide) hf
    simp only [reprAtom]
    rw [this]
    simp [kw_facts.2.2.2.2.2.1, kw_facts.2.2.2.2.2.2]
  | bool b =>
    cases b
    · have := readAtomLit_kw (s "False") 'F' ['a', 'l', 's', 'e'] rest s_False kw_facts.1.2.1 (by decide) hf
      simp only [reprAtom]
      rw [this]
      simp [kw_facts.2.2.2.1]
    · have := readAtomLit_kw (s "True") 'T' ['r', 'u', 'e'] rest s_True kw_facts.1.1 (by decide) hf
      simp only [reprAtom]
      rw [this]
      simp
  | int i =>
    have hnd := noDigit_of_follower rest hf
    simp only [reprAtom]
    cases i with
    | ofNat n =>
      have hall := natDigits_all n
      have hrd := readNat_append (natDigits n) rest hall hnd
      cases hd : natDigits n with
      | nil => exact absurd hd (natDigits_ne_nil n)
      | cons c r =>
        rw [hd] at hall hrd
        have hc : isDigit c = true := by simp only [List.all_cons, Bool.and_eq_true] at hall; exact hall.1
        obtain ⟨h1, _, _, _, h5⟩ := digit_ne c hc
        have h6 : c ≠ '\'' := by intro he; subst he; exact absurd hc (by decide)
        unfold readAtomLit
        simp only [intStr, hd, List.cons_append, skipWs_cons c _ h5]
        simp only [List.cons_append] at hrd
        simp [h1, h6, hc, hrd, ← hd, natOfDigits_natDigits]
    | negSucc n =>
      have hall := natDigits_all (n + 1)
      have hrd := readNat_append (natDigits (n + 1)) rest hall hnd
      cases hd : natDigits (n + 1) with
      | nil => exact absurd hd (natDigits_ne_nil (n + 1))
      | cons c r =>
        rw [hd] at hall hrd
        have hc : isDigit c = true := by simp only [List.all_cons, Bool.and_eq_true] at hall; exact hall.1
        unfold readAtomLit
        have m0 : ('-' : Char) ≠ ' ' := by decide
        simp only [intStr, hd, List.cons_append, skipWs_cons '-' _ m0]
        simp only [List.cons_append] at hrd
        have m1 : ('-' : Char) ≠ '"' := by decide
        have m2 : ('-' : Char) ≠ '\'' := by decide
        have m3 : isDigit '-' = false := by decide
        simp [m1, m2, m3, hc, hrd, ← hd, natOfDigits_natDigits, Int.negSucc_eq]
  | str x =>
    simp only [AtomOK] at ha
    simp only [reprAtom, reprStr]
    generalize hq : (if x.contains '\'' && !x.contains '"' then '"' else '\'') = q
    have hq' : q = '"' ∨ q = '\'' := by rw [← hq]; split <;> simp
    have hsp : q ≠ ' ' := by rcases hq' with h | h <;> (subst h; decide)
    have hbody := readPyStr_repr q hq' x rest ha
    have hlit := fun n => readPyStrs_lit n q hq' (reprBody q x) x rest hbody (reprBody_head q hq' x) hf
    unfold readAtomLit
    simp only [List.cons_append, List.append_assoc, List.singleton_append, skipWs_cons q _ hsp]
    have hqq : (q = '"' || q = '\'') = true := by rcases hq' with h | h <;> simp [h]
    simp [hqq, hlit]
  | dt y mo d h mi sec => exact absurd ha (by simp [AtomOK])

/-! ### dictionaries and arguments -/

theorem readAtomLit_space (x : Str) : readAtomLit (' ' :: x) = readAtomLit x := by
  unfold readAtomLit
  simp [skipWs]

theorem readAtomLit_space_repr (a : Atom) (rest : Str) (ha : AtomOK a) (hf : Follower rest) :
    readAtomLit (' ' :: (reprAtom a ++ rest)) = .ok (a, rest) := by
  rw [readAtomLit_space]; exact readAtomLit_repr a rest ha hf

def DictOK (d : List (Str × Atom)) : Prop := ∀ kv ∈ d, ReprOK kv.1 ∧ AtomOK kv.2

theorem s_colon' : s ": " = [':', ' '] := by decide
theorem s_comma' : s ", " = [',', ' '] := by decide

theorem follower_cons (c : Char) (r : Str) (h : c = ')' ∨ c = ',' ∨ c = '}' ∨ c = ':') : Follower (c :: r) :=
  ⟨c, r, rfl, h⟩

theorem readDictItems_space (fuel : Nat) (x : Str) : readDictItems fuel (' ' :: x) = readDictItems fuel x := by
  cases fuel with
  | zero => simp [readDictItems]
  | succ f => simp [readDictItems, readAtomLit_space]

theorem readDictItems_repr : ∀ (d : List (Str × Atom)) (fuel : Nat) (rest : Str), d ≠ [] → DictOK d → d.length ≤ fuel →
    readDictItems fuel (reprItems d ++ '}' :: rest) = .ok (d, rest)
  | [], _, _, h, _, _ => absurd rfl h
  | [(k, v)], fuel, rest, _, hd, hf => by
    cases fuel with
    | zero => simp at hf
    | succ f =>
      obtain ⟨hk, hv⟩ := hd (k, v) (by simp)
      have h1 : readAtomLit (reprStr k ++ ':' :: ' ' :: (reprAtom v ++ '}' :: rest)) = .ok (.str k, _) :=
        readAtomLit_repr (.str k) (':' :: ' ' :: (reprAtom v ++ '}' :: rest)) hk (follower_cons _ _ (by simp))
      have h2 := readAtomLit_space_repr v ('}' :: rest) hv (follower_cons _ _ (by simp))
      have c1 : (':' : Char) ≠ ' ' := by decide
      have c2 : ('}' : Char) ≠ ' ' := by decide
      simp only [reprItems, s_colon', List.append_assoc, List.cons_append, List.nil_append]
      generalize reprAtom v = tv at h1 h2 ⊢
      simp [readDictItems, h1, skipWs_cons ':' _ c1, h2, skipWs_cons '}' _ c2]
  | (k, v) :: m :: r, fuel, rest, _, hd, hf => by
    cases fuel with
    | zero => simp at hf
    | succ f =>
      obtain ⟨hk, hv⟩ := hd (k, v) (by simp)
      have hd' : DictOK (m :: r) := fun kv hkv => hd kv (by simp [hkv])
      have ih := readDictItems_repr (m :: r) f rest (by simp) hd' (by simp at hf ⊢; omega)
      have h1 : readAtomLit (reprStr k ++ ':' :: ' ' :: (reprAtom v ++ ',' :: ' ' :: (reprItems (m :: r) ++ '}' :: rest)))
          = .ok (.str k, _) :=
        readAtomLit_repr (.str k) (':' :: ' ' :: (reprAtom v ++ ',' :: ' ' :: (reprItems (m :: r) ++ '}' :: rest))) hk
          (follower_cons _ _ (by simp))
      have h2 := readAtomLit_space_repr v (',' :: ' ' :: (reprItems (m :: r) ++ '}' :: rest)) hv (follower_cons _ _ (by simp))
      have c1 : (':' : Char) ≠ ' ' := by decide
      have c2 : (',' : Char) ≠ ' ' := by decide
      simp only [reprItems, s_colon', s_comma', List.append_assoc, List.cons_append, List.nil_append]
      generalize reprAtom v = tv at h1 h2 ⊢
      generalize reprItems (m :: r) = tr at h1 h2 ih ⊢
      simp [readDictItems, h1, skipWs_cons ':' _ c1, h2, skipWs_cons ',' _ c2, ih, readDictItems_space]

/-! ### arguments of option calls -/

/-- the first character of a printed atom: not a space, not a brace, not a closing parenthesis -/
theorem reprAtom_head (a : Atom) (ha : AtomOK a) (tl : Str) :
    ∃ c r, reprAtom a ++ tl = c :: r ∧ c ≠ ' ' ∧ c ≠ '{' ∧ c ≠ ')' ∧ c ≠ '}' := by
  cases a with
  | none => exact ⟨'N', 'o' :: 'n' :: 'e' :: tl, by simp [reprAtom, s_None], by decide, by decide, by decide, by decide⟩
  | bool b =>
    cases b
    · exact ⟨'F', 'a' :: 'l' :: 's' :: 'e' :: tl, by simp [reprAtom, s_False], by decide, by decide, by decide, by decide⟩
    · exact ⟨'T', 'r' :: 'u' :: 'e' :: tl, by simp [reprAtom, s_True], by decide, by decide, by decide, by decide⟩
  | int i =>
    cases i with
    | ofNat n =>
      have hall := natDigits_all n
      cases hd : natDigits n with
      | nil => exact absurd hd (natDigits_ne_nil n)
      | cons c r =>
        rw [hd] at hall
        have hc : isDigit c = true := by simp only [List.all_cons, Bool.and_eq_true] at hall; exact hall.1
        refine ⟨c, r ++ tl, by simp [reprAtom, intStr, hd], (digit_ne c hc).2.2.2.2, ?_, ?_, ?_⟩ <;>
          (intro he; subst he; exact absurd hc (by decide))
    | negSucc n => exact ⟨'-', natDigits (n + 1) ++ tl, by simp [reprAtom, intStr], by decide, by decide, by decide, by decide⟩
  | str x =>
    simp only [reprAtom, reprStr]
    generalize hq : (if x.contains '\'' && !x.contains '"' then '"' else '\'') = q
    have hq' : q = '"' ∨ q = '\'' := by rw [← hq]; split <;> simp
    refine ⟨q, reprBody q x ++ [q] ++ tl, by simp, ?_, ?_, ?_, ?_⟩ <;> (rcases hq' with h | h <;> (subst h; decide))
  | dt y mo d h mi sec => exact absurd ha (by simp [AtomOK])

/-- arguments whose `repr` reads back -/
def PValOK : PVal → Prop
  | .atom a => AtomOK a
  | .dict d => DictOK d
  | _ => False

theorem reprItems_len (d : List (Str × Atom)) : d.length ≤ (reprItems d).length + 1 := by
  induction d with
  | nil => simp
  | cons x r ih =>
    obtain ⟨k, v⟩ := x
    cases r with
    | nil => simp [reprItems]
    | cons y q =>
      have c1 : (s ": ").length = 2 := by decide
      have c2 : (s ", ").length = 2 := by decide
      simp only [reprItems, List.length_append, List.length_cons, c1, c2] at ih ⊢
      omega

theorem reprItems_head (k : Str) (v : Atom) (r : List (Str × Atom)) (tl : Str) :
    ∃ c q, reprItems ((k, v) :: r) ++ tl = c :: q ∧ c ≠ ' ' ∧ c ≠ '}' := by
  have : ∃ tl', reprItems ((k, v) :: r) ++ tl = reprStr k ++ tl' := by
    cases r with
    | nil => exact ⟨s ": " ++ (reprAtom v ++ tl), by simp [reprItems, List.append_assoc]⟩
    | cons y q => exact ⟨s ": " ++ (reprAtom v ++ (s ", " ++ (reprItems (y :: q) ++ tl))), by simp [reprItems, List.append_assoc]⟩
  obtain ⟨tl', h⟩ := this
  rw [h]
  simp only [reprStr]
  generalize hq : (if k.contains '\'' && !k.contains '"' then '"' else '\'') = q
  have hq' : q = '"' ∨ q = '\'' := by rw [← hq]; split <;> simp
  refine ⟨q, reprBody q k ++ [q] ++ tl', by simp, ?_, ?_⟩ <;> (rcases hq' with h | h <;> (subst h; decide))

theorem readLit_repr (v : PVal) (rest : Str) (hv : PValOK v) (hf : Follower rest) :
    readLit (reprPVal v ++ rest) = .ok (v, rest) := by
  cases v with
  | atom a =>
    obtain ⟨c, r, hcr, h1, h2, _, _⟩ := reprAtom_head a hv rest
    have := readAtomLit_repr a rest hv hf
    unfold readLit
    simp only [reprPVal]
    rw [hcr] at this ⊢
    rw [skipWs_cons c r h1]
    split
    · rename_i heq; cases heq; exact absurd rfl h2
    · simp [this]
  | dict d =>
    have b1 : ('{' : Char) ≠ ' ' := by decide
    unfold readLit
    simp only [reprPVal, reprDict, List.cons_append, List.append_assoc, skipWs_cons '{' _ b1]
    cases d with
    | nil => simp [reprItems, skipWs]
    | cons x r =>
      obtain ⟨k, w⟩ := x
      obtain ⟨c, q, hcq, h1, h2⟩ := reprItems_head k w r ('}' :: rest)
      have hlen := reprItems_len ((k, w) :: r)
      have hrd := readDictItems_repr ((k, w) :: r) ((reprItems ((k, w) :: r) ++ '}' :: rest).length + 1) rest (by simp) hv
        (by simp only [List.length_append, List.length_cons] at hlen ⊢; omega)
      simp only [List.singleton_append, List.nil_append]
      rw [hcq] at hrd ⊢
      rw [skipWs_cons c q h1]
      split
      · rename_i heq; cases heq; exact absurd rfl h2
      · simp only [List.length_cons] at hrd
        simp [hrd]
  | list l => exact absurd hv (by simp [PValOK])
  | tags l => exact absurd hv (by simp [PValOK])


/-! ### one literal argument -/

theorem skipWs_idem_of_head (c : Char) (r : Str) (h : c ≠ ' ') : skipWs (c :: r) = c :: r := skipWs_cons c r h

/-- a printed atom either is a word of identifier characters (`None`, `True`, `False`, digits) or starts with a
    character that is not one (`-`, a quote) -/
theorem reprAtom_shape (a : Atom) (ha : AtomOK a) :
    (reprAtom a).all isIdentChar = true ∨ ∃ c r, reprAtom a = c :: r ∧ isIdentChar c = false := by
  cases a with
  | none => exact Or.inl (by decide)
  | bool b => cases b <;> exact Or.inl (by decide)
  | int i =>
    cases i with
    | ofNat n =>
      left
      have hall := natDigits_all n
      simp only [reprAtom, intStr]
      rw [List.all_eq_true] at hall ⊢
      intro c hc
      have := hall c hc
      unfold isIdentChar
      unfold isDigit at this
      simp only [Bool.and_eq_true, decide_eq_true_eq] at this
      simp [Char.isAlphanum, Char.isDigit, this.1, this.2]
      left; right
      exact ⟨this.1, this.2⟩
    | negSucc n => exact Or.inr ⟨'-', natDigits (n + 1), by simp [reprAtom, intStr], by decide⟩
  | str x =>
    right
    simp only [reprAtom, reprStr]
    generalize hq : (if x.contains '\'' && !x.contains '"' then '"' else '\'') = q
    have hq' : q = '"' ∨ q = '\'' := by rw [← hq]; split <;> simp
    exact ⟨q, reprBody q x ++ [q], rfl, by rcases hq' with h | h <;> (subst h; decide)⟩
  | dt y mo d h mi sec => exact absurd ha (by simp [AtomOK])

theorem startsCall_lit (v : PVal) (rest : Str) (hv : PValOK v) (hf : Follower rest) :
    startsCall (reprPVal v ++ rest) = false := by
  obtain ⟨c, r, hrest, hc⟩ := hf
  obtain ⟨_, _, _, _, hci, hcp, _⟩ := follower_facts c hc
  unfold startsCall
  cases v with
  | atom a =>
    rcases reprAtom_shape a hv with h | ⟨c0, r0, h0, hc0⟩
    · have := readIdent_append (reprAtom a) c r h hci
      simp only [reprPVal, hrest, this]
      simp [skipWs_cons c r (follower_facts c hc).1, hcp]
    · simp only [reprPVal, h0, List.cons_append, readIdent]
      simp [hc0]
  | dict d =>
    have : isIdentChar '{' = false := by decide
    simp only [reprPVal, reprDict, List.cons_append, readIdent]
    simp [this]
  | list l => exact absurd hv (by simp [PValOK])
  | tags l => exact absurd hv (by simp [PValOK])

theorem notLang_lit (v : PVal) (rest : Str) (hv : PValOK v) (hf : Follower rest) :
    ((readIdent (reprPVal v ++ rest)).1 = s "lang" && (readIdent (reprPVal v ++ rest)).2.head? = some '=') = false := by
  obtain ⟨c, r, hrest, hc⟩ := hf
  obtain ⟨_, _, _, _, hci, _, _⟩ := follower_facts c hc
  have hce : c ≠ '=' := by rcases hc with h | h | h | h <;> (subst h; decide)
  cases v with
  | atom a =>
    rcases reprAtom_shape a hv with h | ⟨c0, r0, h0, hc0⟩
    · have := readIdent_append (reprAtom a) c r h hci
      simp only [reprPVal, hrest, this]
      simp [hce]
    · simp only [reprPVal, h0, List.cons_append, readIdent]
      have hl : s "lang" ≠ [] := by decide
      simp [hc0, hl]
  | dict d =>
    have : isIdentChar '{' = false := by decide
    have hl : s "lang" ≠ [] := by decide
    simp only [reprPVal, reprDict, List.cons_append, readIdent]
    simp [this, hl]
  | list l => exact absurd hv (by simp [PValOK])
  | tags l => exact absurd hv (by simp [PValOK])

theorem readOne_lit (rx : Str → Except RouteErr (Prog × Str)) (v : PVal) (rest : Str) (hv : PValOK v)
    (hf : Follower rest) : readOne rx (reprPVal v ++ rest) = .ok (.v v, rest) := by
  unfold readOne
  rw [notLang_lit v rest hv hf]
  simp [startsCall_lit v rest hv hf, readLit_repr v rest hv hf]

/-! ### the calls of a history -/

theorem reprPVal_head (v : PVal) (hv : PValOK v) (tl : Str) :
    ∃ c r, reprPVal v ++ tl = c :: r ∧ c ≠ ' ' ∧ c ≠ ')' := by
  cases v with
  | atom a =>
    obtain ⟨c, r, h, h1, _, h3, _⟩ := reprAtom_head a hv tl
    exact ⟨c, r, h, h1, h3⟩
  | dict d => exact ⟨'{', reprItems d ++ '}' :: tl, by simp [reprPVal, reprDict], by decide, by decide⟩
  | list l => exact absurd hv (by simp [PValOK])
  | tags l => exact absurd hv (by simp [PValOK])

theorem readArgs_one (cur : Lang) (f : Nat) (v : PVal) (rest : Str) (hv : PValOK v) :
    readArgs cur (f + 1) (reprPVal v ++ ')' :: rest) = .ok ([.v v], rest) := by
  obtain ⟨c, r, hcr, h1, h2⟩ := reprPVal_head v hv (')' :: rest)
  have hone := readOne_lit (readExpr cur f) v (')' :: rest) hv (follower_cons _ _ (by simp))
  have p1 : (')' : Char) ≠ ' ' := by decide
  unfold readArgs
  rw [hcr] at hone ⊢
  rw [skipWs_cons c r h1]
  split
  · rename_i heq; cases heq; exact absurd rfl h2
  · simp [hone, skipWs_cons ')' rest p1]

/-- the string literal that `quoteSource` prints (a lemma, a tag name) -/
theorem readOne_dq (rx : Str → Except RouteErr (Prog × Str)) (nm rest : Str) (hf : Follower rest) :
    readOne rx ('"' :: (quoteSrcBody nm ++ '"' :: rest)) = .ok (.v (.atom (.str nm)), rest) := by
  have hbody := readPyStr_quoteSrc nm rest
  have hlit := fun n => readPyStrs_lit n '"' (Or.inl rfl) (quoteSrcBody nm) nm rest hbody (quoteSrcBody_head nm) hf
  have q0 : ('"' : Char) ≠ ' ' := by decide
  have q1 : isIdentChar '"' = false := by decide
  have hl : s "lang" ≠ [] := by decide
  unfold readOne startsCall
  simp only [readIdent, List.takeWhile_cons, q1]
  simp only [readLit, skipWs_cons '"' _ q0]
  simp [readAtomLit, skipWs_cons '"' _ q0, hlit, hl]

theorem readArgs_tag2 (cur : Lang) (f : Nat) (nm : Str) (d : List (Str × Atom)) (rest : Str) (hd : DictOK d) :
    readArgs cur (f + 2) ('"' :: (quoteSrcBody nm ++ '"' :: ',' :: (reprDict d ++ ')' :: rest))) =
      .ok ([.v (.atom (.str nm)), .v (.dict d)], rest) := by
  have hone := readOne_dq (readExpr cur (f + 1)) nm (',' :: (reprDict d ++ ')' :: rest)) (follower_cons _ _ (by simp))
  have h2 := readArgs_one cur f (.dict d) rest hd
  simp only [reprPVal] at h2
  have q0 : ('"' : Char) ≠ ' ' := by decide
  have c0 : (',' : Char) ≠ ' ' := by decide
  unfold readArgs
  rw [skipWs_cons '"' _ q0]
  simp [hone, skipWs_cons ',' _ c0, h2]

/-- a method name that the history can contain -/
def IdentOK (name : Str) : Prop := name ≠ [] ∧ name.all isIdentChar = true ∧ name ≠ s "add"

def CallOK : Call → Prop
  | .opt name arg => IdentOK name ∧ PValOK arg
  | .tag2 _ attrs => DictOK attrs

/-- where the trailers stop: the end of the text, or the `,` / `)` that follows a child -/
def TrailEnd (rest : Str) : Prop := rest = [] ∨ Follower rest

theorem readTrailers_end (cur : Lang) (f : Nat) (recv : Prog) (rest : Str) (h : TrailEnd rest) :
    readTrailers cur (f + 1) recv rest = .ok (recv, rest) := by
  unfold readTrailers
  rcases h with h | ⟨c, r, hr, hc⟩
  · subst h; simp [skipWs]
  · subst hr
    obtain ⟨h1, _, _, _, _, _, h7⟩ := follower_facts c hc
    rw [skipWs_cons c r h1]
    split
    · rename_i heq; cases heq; exact absurd rfl h7
    · rfl

theorem readTrailers_hist (cur : Lang) : ∀ (hist : List Call) (f : Nat) (recv : Prog) (rest : Str),
    (∀ c ∈ hist, CallOK c) → TrailEnd rest → hist.length + 3 ≤ f →
    readTrailers cur f recv (printHist hist ++ rest) = .ok (withCalls recv hist, rest)
  | [], f, recv, rest, _, he, hf => by
    obtain ⟨f', rfl⟩ : ∃ f', f = f' + 1 := ⟨f - 1, by omega⟩
    simpa [printHist, withCalls] using readTrailers_end cur f' recv rest he
  | c :: r, f, recv, rest, hok, he, hf => by
    obtain ⟨f', rfl⟩ : ∃ f', f = f' + 3 := ⟨f - 3, by simp at hf; omega⟩
    have ih := readTrailers_hist cur r (f' + 2) (.call recv (callArgs c).1 (callArgs c).2) rest
      (fun d hd => hok d (by simp [hd])) he (by simp at hf ⊢; omega)
    have hc := hok c (by simp)
    have d0 : ('.' : Char) ≠ ' ' := by decide
    have p0 : ('(' : Char) ≠ ' ' := by decide
    have p1 : isIdentChar '(' = false := by decide
    cases c with
    | opt name arg =>
      obtain ⟨⟨hn1, hn2, hn3⟩, harg⟩ := hc
      have hid := readIdent_append name '(' (reprPVal arg ++ ')' :: (printHist r ++ rest)) hn2 p1
      have hargs := readArgs_one cur (f' + 1) arg (printHist r ++ rest) harg
      have hne : name.isEmpty = false := by cases name <;> simp_all
      simp only [printHist, printCall, List.cons_append, List.append_assoc, List.singleton_append, List.nil_append]
      unfold readTrailers
      rw [skipWs_cons '.' _ d0]
      simp only [hid, hne, skipWs_cons '(' _ p0, hargs]
      simp [hasNameErr, hn3, argVals, withCalls, callArgs] at ih ⊢
      exact ih
    | tag2 nm attrs =>
      have hd : DictOK attrs := hc
      have t1 : (s ".tag(") = ['.', 't', 'a', 'g', '('] := by decide
      have hid : readIdent ('t' :: 'a' :: 'g' :: '(' :: '"' :: (quoteSrcBody nm ++ '"' :: ',' :: (reprDict attrs ++ ')' :: (printHist r ++ rest))))
          = (s "tag", '(' :: '"' :: (quoteSrcBody nm ++ '"' :: ',' :: (reprDict attrs ++ ')' :: (printHist r ++ rest)))) := by
        have := readIdent_append (s "tag") '(' ('"' :: (quoteSrcBody nm ++ '"' :: ',' :: (reprDict attrs ++ ')' :: (printHist r ++ rest))))
          (by decide) p1
        have t3 : s "tag" = ['t', 'a', 'g'] := by decide
        rw [t3] at this ⊢
        simpa using this
      have hargs := readArgs_tag2 cur f' nm attrs (printHist r ++ rest) hd
      have hne : (s "tag").isEmpty = false := by decide
      have hna : s "tag" ≠ s "add" := by decide
      simp only [printHist, printCall, quoteSrc, t1, List.cons_append, List.append_assoc, List.singleton_append, List.nil_append]
      unfold readTrailers
      rw [skipWs_cons '.' _ d0]
      simp only [hid, hne, skipWs_cons '(' _ p0, hargs]
      simp [hasNameErr, hna, argVals, withCalls, callArgs] at ih ⊢
      exact ih


/-! ### the `lang=` keyword argument -/

def kwSrc (l : Lang) : Str := s "lang=\"" ++ l.code ++ ['"']

/-- the keyword argument that `langSource` prints, if any -/
def kwOpt (root : Option Lang) (lang : Lang) : Option Lang :=
  match root with
  | some l => if lang = l then none else some lang
  | none => none

theorem langArg_eq (root : Option Lang) (lang : Lang) (first : Bool) :
    langArg root lang first =
      match kwOpt root lang with
      | none => []
      | some l => (if first then [] else [',']) ++ kwSrc l := by
  unfold langArg kwOpt kwSrc
  cases root with
  | none => rfl
  | some l => by_cases h : lang = l <;> simp [h]

theorem kwSrc_cases (l : Lang) : kwSrc l = 'l' :: 'a' :: 'n' :: 'g' :: '=' :: '"' :: (l.code ++ ['"']) ∧
    quoteSrcBody l.code = l.code := by
  cases l <;> decide

theorem readOne_kw (rx : Str → Except RouteErr (Prog × Str)) (l : Lang) (rest : Str) (hf : Follower rest) :
    readOne rx (kwSrc l ++ rest) = .ok (.kw l.code, rest) := by
  obtain ⟨hk, hq⟩ := kwSrc_cases l
  have hbody := readPyStr_quoteSrc l.code rest
  rw [hq] at hbody
  have hhead : ∀ b bs, l.code = b :: bs → b ≠ '"' := by
    intro b bs h; have := quoteSrcBody_head l.code b bs (by rw [hq]; exact h); exact this
  have hlit := fun n => readPyStrs_lit n '"' (Or.inl rfl) l.code l.code rest hbody hhead hf
  have hid : readIdent ('l' :: 'a' :: 'n' :: 'g' :: '=' :: '"' :: (l.code ++ '"' :: rest)) =
      (s "lang", '=' :: '"' :: (l.code ++ '"' :: rest)) := by
    have := readIdent_append (s "lang") '=' ('"' :: (l.code ++ '"' :: rest)) (by decide) (by decide)
    have t : s "lang" = ['l', 'a', 'n', 'g'] := by decide
    rw [t] at this ⊢
    simpa using this
  have q0 : ('"' : Char) ≠ ' ' := by decide
  unfold readOne
  rw [hk]
  simp only [List.cons_append, List.append_assoc, List.singleton_append, List.nil_append]
  rw [hid]
  simp [readAtomLit, skipWs_cons '"' _ q0, hlit]

theorem readArgs_kw (cur : Lang) (f : Nat) (l : Lang) (rest : Str) :
    readArgs cur (f + 1) (kwSrc l ++ ')' :: rest) = .ok ([.kw l.code], rest) := by
  have hone := readOne_kw (readExpr cur f) l (')' :: rest) (follower_cons _ _ (by simp))
  obtain ⟨hk, _⟩ := kwSrc_cases l
  have l0 : ('l' : Char) ≠ ' ' := by decide
  have p0 : (')' : Char) ≠ ' ' := by decide
  unfold readArgs
  rw [hk] at hone ⊢
  simp only [List.cons_append, List.append_assoc, List.singleton_append, List.nil_append] at hone ⊢
  rw [skipWs_cons 'l' _ l0]
  simp [hone, skipWs_cons ')' _ p0]

theorem kwLang_code (cur l : Lang) : kwLang cur (some l.code) = l := by
  cases l <;> simp [kwLang, Lang.code] <;> decide

/-- the language the parsed node gets is the constituent's own, when the root's language is the current one -/
def RootOK (cur : Lang) (root : Option Lang) (lang : Lang) : Prop :=
  match root with
  | none => lang = cur
  | some l => l = cur

theorem kwLang_kwOpt (cur : Lang) (root : Option Lang) (lang : Lang) (h : RootOK cur root lang) :
    kwLang cur ((kwOpt root lang).map Lang.code) = lang := by
  unfold kwOpt
  cases root with
  | none => simpa [kwLang, RootOK] using h.symm
  | some l =>
    simp only [RootOK] at h
    by_cases hl : lang = l
    · simp [hl, kwLang, h]
    · simp [hl, kwLang_code]

theorem rootOK_child (cur : Lang) (root : Option Lang) (lang l' : Lang) (h : RootOK cur root lang) :
    RootOK cur (some (root.getD lang)) l' := by
  cases root with
  | none => simpa [RootOK] using h
  | some l => simpa [RootOK] using h


/-! ### constituents -/

theorem readArgs_dq (cur : Lang) (f : Nat) (nm rest : Str) :
    readArgs cur (f + 1) ('"' :: (quoteSrcBody nm ++ '"' :: ')' :: rest)) = .ok ([.v (.atom (.str nm))], rest) := by
  have hone := readOne_dq (readExpr cur f) nm (')' :: rest) (follower_cons _ _ (by simp))
  have q0 : ('"' : Char) ≠ ' ' := by decide
  have p0 : (')' : Char) ≠ ' ' := by decide
  unfold readArgs
  rw [skipWs_cons '"' _ q0]
  simp [hone, skipWs_cons ')' _ p0]

theorem readArgs_dq_kw (cur : Lang) (f : Nat) (nm : Str) (l : Lang) (rest : Str) :
    readArgs cur (f + 2) ('"' :: (quoteSrcBody nm ++ '"' :: ',' :: (kwSrc l ++ ')' :: rest))) =
      .ok ([.v (.atom (.str nm)), .kw l.code], rest) := by
  have hone := readOne_dq (readExpr cur (f + 1)) nm (',' :: (kwSrc l ++ ')' :: rest)) (follower_cons _ _ (by simp))
  have h2 := readArgs_kw cur f l rest
  have q0 : ('"' : Char) ≠ ' ' := by decide
  have c0 : (',' : Char) ≠ ' ' := by decide
  unfold readArgs
  rw [skipWs_cons '"' _ q0]
  simp [hone, skipWs_cons ',' _ c0, h2]

/-- facts about the constructor names (closed lists lifted from the source) -/
theorem kind_facts0 : ∀ k ∈ termKindsSrc ++ phraseKindsSrc ++ deprels,
    k.all isIdentChar = true ∧ k.isEmpty = false ∧ k ≠ s "lang" ∧
      k.head?.map (fun c => c ≠ ' ' && c ≠ ')') = some true := by
  decide
theorem kind_facts (k : Str) (hk : k ∈ termKindsSrc ++ phraseKindsSrc ++ deprels) :
    k.all isIdentChar = true ∧ k.isEmpty = false ∧ k ≠ s "lang" ∧ (∃ c r, k = c :: r ∧ c ≠ ' ' ∧ c ≠ ')') := by
  obtain ⟨h1, h2, h4, h3⟩ := kind_facts0 k hk
  refine ⟨h1, h2, h4, ?_⟩
  cases k with
  | nil => simp at h2
  | cons c r =>
    simp at h3
    exact ⟨c, r, rfl, h3.1, h3.2⟩
theorem kinds_disjoint : (∀ k ∈ phraseKindsSrc, termKindsSrc.contains k = false) ∧
    (∀ k ∈ deprels, termKindsSrc.contains k = false ∧ phraseKindsSrc.contains k = false) := by decide

mutual
/-- the text is one the reader covers: constructor names `fromJSON`/the factories know, option values with a covered
    `repr` (no `datetime`: the name is unbound). Lemmata and tag names are unrestricted (`quoteSource` escapes
    backslash, double quote, LF, CR and NUL; every other character is read raw). -/
def SrcOK : Expr → Prop
  | .term n _ _ => n.kind ∈ termKindsSrc ∧ ∀ c ∈ n.hist, CallOK c
  | .phr n es => n.kind ∈ phraseKindsSrc ∧ (∀ c ∈ n.hist, CallOK c) ∧ SrcOKList es
  | .dep n t ds => n.kind ∈ deprels ∧ (∀ c ∈ n.hist, CallOK c) ∧ SrcOK t ∧ SrcOKList ds
def SrcOKList : List Expr → Prop
  | [] => True
  | e :: r => SrcOK e ∧ SrcOKList r
end

mutual
/-- the fuel the source reader needs -/
def needE : Expr → Nat
  | .term n _ _ => n.hist.length + 4
  | .phr n es => max (needA es + 1) (n.hist.length + 3) + 1
  | .dep n t ds => max (max (needE t) (needA ds + 1) + 1) (n.hist.length + 3) + 1
def needA : List Expr → Nat
  | [] => 1
  | e :: r => max (needE e) (needA r) + 1
end

/-- the printed form of a constituent starts with its constructor name followed by `(` -/
theorem srcOf_shape (root : Option Lang) (e : Expr) : ∃ tl, srcOf root e = e.kind ++ '(' :: tl := by
  cases e with
  | term n l i => exact ⟨_, by simp [srcOf, Expr.kind, Expr.node]; rfl⟩
  | phr n es => exact ⟨_, by simp [srcOf, Expr.kind, Expr.node]; rfl⟩
  | dep n t ds => exact ⟨_, by simp [srcOf, Expr.kind, Expr.node]; rfl⟩

def KindOK (e : Expr) : Prop := e.kind ∈ termKindsSrc ++ phraseKindsSrc ++ deprels

theorem startsCall_srcOf (root : Option Lang) (e : Expr) (rest : Str) (hk : KindOK e) :
    startsCall (srcOf root e ++ rest) = true ∧
    ((readIdent (srcOf root e ++ rest)).1 = s "lang" && (readIdent (srcOf root e ++ rest)).2.head? = some '=') = false ∧
    ∃ c q, srcOf root e ++ rest = c :: q ∧ c ≠ ' ' ∧ c ≠ ')' := by
  obtain ⟨tl, htl⟩ := srcOf_shape root e
  obtain ⟨hall, hne, hnl, c, r, hcr, h1, h2⟩ := kind_facts e.kind hk
  have p1 : isIdentChar '(' = false := by decide
  have p0 : ('(' : Char) ≠ ' ' := by decide
  have hid := readIdent_append e.kind '(' (tl ++ rest) hall p1
  refine ⟨?_, ?_, ?_⟩
  · unfold startsCall
    rw [htl]
    simp only [List.append_assoc, List.cons_append] at hid ⊢
    rw [hid]
    simp only [hne, skipWs_cons '(' _ p0]
    have hk' : e.kind ∈ termKindsSrc ∨ e.kind ∈ phraseKindsSrc ∨ e.kind ∈ deprels := by
      simpa [KindOK, List.mem_append] using hk
    simp only [Bool.and_true, Bool.not_false, Bool.true_and, List.head?_cons, decide_true]
    rcases hk' with h | h | h <;> simp [h]
  · rw [htl]
    simp only [List.append_assoc, List.cons_append] at hid ⊢
    rw [hid]
    simp [hnl]
  · exact ⟨c, r ++ '(' :: tl ++ rest, by rw [htl, hcr]; simp, h1, h2⟩

theorem srcOK_kind (e : Expr) (h : SrcOK e) : KindOK e := by
  unfold KindOK
  cases e with
  | term n l i => simp only [SrcOK] at h; simp [Expr.kind, Expr.node, h.1]
  | phr n es => simp only [SrcOK] at h; simp [Expr.kind, Expr.node, h.1]
  | dep n t ds => simp only [SrcOK] at h; simp [Expr.kind, Expr.node, h.1]

def argsOf : List Expr → List Arg
  | [] => []
  | e :: r => .e (progOf e) :: argsOf r

theorem argProgs_argsOf (es : List Expr) : argProgs (argsOf es) = some (progOfList es) := by
  induction es with
  | nil => rfl
  | cons e r ih => simp [argsOf, argProgs, progOfList, ih]

theorem hasNameErr_argsOf (es : List Expr) (t : List Arg) (ht : hasNameErr t = false) :
    hasNameErr (argsOf es ++ t) = false := by
  induction es with
  | nil => simpa [argsOf] using ht
  | cons e r ih => simp [argsOf, hasNameErr, ih]

theorem splitKw_argsOf (es : List Expr) : splitKw (argsOf es) = (argsOf es, none) := by
  induction es with
  | nil => rfl
  | cons e r ih => simp [argsOf, splitKw, ih]

theorem splitKw_argsOf_kw (es : List Expr) (x : Str) : splitKw (argsOf es ++ [.kw x]) = (argsOf es, some x) := by
  induction es with
  | nil => rfl
  | cons e r ih => simp [argsOf, splitKw, ih]

theorem readArgs_last (cur : Lang) (root : Option Lang) (e : Expr) (f' : Nat) (rest : Str) (hke : KindOK e)
    (ih : readExpr cur f' (srcOf root e ++ ')' :: rest) = .ok (progOf e, ')' :: rest)) :
    readArgs cur (f' + 1) (srcOf root e ++ ')' :: rest) = .ok ([.e (progOf e)], rest) := by
  obtain ⟨hsc, hnl, c, q, hcq, h1, h2⟩ := startsCall_srcOf root e (')' :: rest) hke
  have p0 : (')' : Char) ≠ ' ' := by decide
  unfold readArgs
  rw [hcq, skipWs_cons c q h1]
  split
  · rename_i heq; cases heq; exact absurd rfl h2
  · rw [← hcq]
    unfold readOne
    rw [hnl]
    simp [hsc, ih, skipWs_cons ')' _ p0]

theorem readArgs_more (cur : Lang) (root : Option Lang) (e : Expr) (f' : Nat) (more rest : Str) (args : List Arg)
    (hke : KindOK e)
    (ih : readExpr cur f' (srcOf root e ++ ',' :: more) = .ok (progOf e, ',' :: more))
    (ih2 : readArgs cur f' more = .ok (args, rest)) :
    readArgs cur (f' + 1) (srcOf root e ++ ',' :: more) = .ok (.e (progOf e) :: args, rest) := by
  obtain ⟨hsc, hnl, c, q, hcq, h1, h2⟩ := startsCall_srcOf root e (',' :: more) hke
  have c0 : (',' : Char) ≠ ' ' := by decide
  unfold readArgs
  rw [hcq, skipWs_cons c q h1]
  split
  · rename_i heq; cases heq; exact absurd rfl h2
  · rw [← hcq]
    unfold readOne
    rw [hnl]
    simp [hsc, ih, skipWs_cons ',' _ c0, ih2]

/-- what closes an argument list: `)` or `,lang="…")` -/
inductive Closing : Str → List Arg → Str → Prop
  | paren (rest : Str) : Closing (')' :: rest) [] rest
  | kw (l : Lang) (rest : Str) : Closing (',' :: (kwSrc l ++ ')' :: rest)) [.kw l.code] rest

theorem closing_follower {c : Str} {t : List Arg} {r : Str} (h : Closing c t r) : Follower c := by
  cases h with
  | paren rest => exact follower_cons _ _ (by simp)
  | kw l rest => exact follower_cons _ _ (by simp)

/-- the closing text that `langArg` produces after at least one positional argument -/
theorem closing_of_kwOpt (root : Option Lang) (lang : Lang) (rest : Str) :
    ∃ targs, Closing (langArg root lang false ++ ')' :: rest) targs rest ∧
      targs = (match kwOpt root lang with | none => [] | some l => [Arg.kw l.code]) := by
  rw [langArg_eq]
  cases h : kwOpt root lang with
  | none => exact ⟨[], by simpa using Closing.paren rest, rfl⟩
  | some l => exact ⟨[.kw l.code], by simpa using Closing.kw l rest, rfl⟩


def kwArgs (root : Option Lang) (lang : Lang) : List Arg :=
  match kwOpt root lang with
  | none => []
  | some l => [Arg.kw l.code]

def mkNodeArgs (root : Option Lang) (lang : Lang) (pos : List Arg) : List Arg := pos ++ kwArgs root lang

theorem closing_kwArgs (root : Option Lang) (lang : Lang) (rest : Str) :
    Closing (langArg root lang false ++ ')' :: rest) (kwArgs root lang) rest := by
  rw [langArg_eq]
  unfold kwArgs
  cases h : kwOpt root lang with
  | none => simpa using Closing.paren rest
  | some l => simpa using Closing.kw l rest

theorem mkNode_term (cur : Lang) (root : Option Lang) (n : Node) (a : Atom) (hk : n.kind ∈ termKindsSrc)
    (hr : RootOK cur root n.lang) :
    mkNode cur n.kind (mkNodeArgs root n.lang [.v (.atom a)]) = .ok (.term n.kind a n.lang) := by
  have hl := kwLang_kwOpt cur root n.lang hr
  unfold mkNode mkNodeArgs kwArgs
  cases h : kwOpt root n.lang with
  | none => rw [h] at hl; simp [splitKw, hk] at hl ⊢; simpa [kwLang] using hl
  | some l => rw [h] at hl; simp [splitKw, hk] at hl ⊢; exact hl

theorem mkNode_phr (cur : Lang) (root : Option Lang) (n : Node) (es : List Expr) (hk : n.kind ∈ phraseKindsSrc)
    (hr : RootOK cur root n.lang) :
    mkNode cur n.kind (mkNodeArgs root n.lang (argsOf es)) = .ok (.phr n.kind n.lang (progOfList es)) := by
  have hl := kwLang_kwOpt cur root n.lang hr
  have hnt : n.kind ∉ termKindsSrc := by simpa using kinds_disjoint.1 n.kind hk
  unfold mkNode mkNodeArgs kwArgs
  cases h : kwOpt root n.lang with
  | none =>
    rw [h] at hl
    simp only [List.append_nil, splitKw_argsOf]
    simp [hnt, hk, argProgs_argsOf] at hl ⊢
    simpa [kwLang] using hl
  | some l =>
    rw [h] at hl
    simp only [splitKw_argsOf_kw]
    simp [hnt, hk, argProgs_argsOf] at hl ⊢
    exact hl

theorem mkNode_dep (cur : Lang) (root : Option Lang) (n : Node) (t : Expr) (ds : List Expr) (hk : n.kind ∈ deprels)
    (hr : RootOK cur root n.lang) :
    mkNode cur n.kind (mkNodeArgs root n.lang (argsOf (t :: ds))) = .ok (.dep n.kind n.lang (progOf t) (progOfList ds)) := by
  have hl := kwLang_kwOpt cur root n.lang hr
  obtain ⟨h1, h2⟩ := kinds_disjoint.2 n.kind hk
  have hnt : n.kind ∉ termKindsSrc := by simpa using h1
  have hnp : n.kind ∉ phraseKindsSrc := by simpa using h2
  unfold mkNode mkNodeArgs kwArgs
  cases h : kwOpt root n.lang with
  | none =>
    rw [h] at hl
    simp only [List.append_nil, splitKw_argsOf]
    simp [hnt, hnp, hk, argProgs_argsOf, progOfList] at hl ⊢
    simpa [kwLang] using hl
  | some l =>
    rw [h] at hl
    simp only [splitKw_argsOf_kw]
    simp [hnt, hnp, hk, argProgs_argsOf, progOfList] at hl ⊢
    exact hl

theorem hasNameErr_mkNodeArgs (root : Option Lang) (lang : Lang) (es : List Expr) :
    hasNameErr (mkNodeArgs root lang (argsOf es)) = false := by
  unfold mkNodeArgs kwArgs
  apply hasNameErr_argsOf
  cases kwOpt root lang <;> rfl

mutual
theorem readExpr_srcOf (cur : Lang) : ∀ (e : Expr) (f : Nat) (rest : Str) (root : Option Lang), SrcOK e → TrailEnd rest →
    needE e ≤ f → RootOK cur root e.lang → readExpr cur f (srcOf root e ++ rest) = .ok (progOf e, rest)
  | .term n lemma info, f, rest, root, hok, he, hf, hr => by
    obtain ⟨hk, hh⟩ := hok
    obtain ⟨f', rfl⟩ : ∃ f', f = f' + 3 := ⟨f - 3, by simp [needE] at hf; omega⟩
    obtain ⟨hall, hne, _, c, r, hcr, h1, _⟩ := kind_facts n.kind (by simp [hk])
    have p1 : isIdentChar '(' = false := by decide
    have p0 : ('(' : Char) ≠ ' ' := by decide
    have htr := readTrailers_hist cur n.hist (f' + 2) (.term n.kind (.str (strAtom lemma)) n.lang) rest hh he
      (by simp [needE] at hf; omega)
    have hargs : readArgs cur (f' + 2) ('"' :: (quoteSrcBody (strAtom lemma) ++ '"' ::
        (langArg root n.lang false ++ ')' :: (printHist n.hist ++ rest)))) =
        .ok (mkNodeArgs root n.lang [.v (.atom (.str (strAtom lemma)))], printHist n.hist ++ rest) := by
      rw [langArg_eq]
      unfold mkNodeArgs kwArgs
      cases kwOpt root n.lang with
      | none => simpa using readArgs_dq cur (f' + 1) (strAtom lemma) (printHist n.hist ++ rest)
      | some l => simpa using readArgs_dq_kw cur f' (strAtom lemma) l (printHist n.hist ++ rest)
    have hid := readIdent_append n.kind '(' ('"' :: (quoteSrcBody (strAtom lemma) ++ '"' ::
        (langArg root n.lang false ++ ')' :: (printHist n.hist ++ rest)))) hall p1
    have hsk : skipWs (n.kind ++ '(' :: '"' :: (quoteSrcBody (strAtom lemma) ++ '"' ::
        (langArg root n.lang false ++ ')' :: (printHist n.hist ++ rest)))) =
        n.kind ++ '(' :: '"' :: (quoteSrcBody (strAtom lemma) ++ '"' ::
        (langArg root n.lang false ++ ')' :: (printHist n.hist ++ rest))) := by
      rw [hcr]; exact skipWs_cons c _ h1
    have hmk := mkNode_term cur root n (.str (strAtom lemma)) hk hr
    have hne' : hasNameErr (mkNodeArgs root n.lang [.v (.atom (.str (strAtom lemma)))]) = false := by
      unfold mkNodeArgs kwArgs; cases kwOpt root n.lang <;> rfl
    simp only [srcOf, quoteSrc, List.append_assoc, List.cons_append, List.nil_append, List.singleton_append]
    unfold readExpr
    simp only [hsk, hid, hne, skipWs_cons '(' _ p0, hargs]
    simp [hne', hmk, htr, progOf]
  | .phr n es, f, rest, root, hok, he, hf, hr => by
    obtain ⟨hk, hh, hes⟩ := hok
    obtain ⟨f', rfl⟩ : ∃ f', f = f' + 1 := ⟨f - 1, by simp [needE] at hf; omega⟩
    obtain ⟨hall, hne, _, c, r, hcr, h1, _⟩ := kind_facts n.kind (by simp [hk])
    have p1 : isIdentChar '(' = false := by decide
    have p0 : ('(' : Char) ≠ ' ' := by decide
    have hrc : ∀ l', RootOK cur (some (root.getD n.lang)) l' := fun l' => rootOK_child cur root n.lang l' hr
    have htr := readTrailers_hist cur n.hist f' (.phr n.kind n.lang (progOfList es)) rest hh he
      (by simp [needE] at hf; omega)
    have hargs : readArgs cur f' (srcOfList (some (root.getD n.lang)) es ++
        (langArg root n.lang es.isEmpty ++ ')' :: (printHist n.hist ++ rest))) =
        .ok (mkNodeArgs root n.lang (argsOf es), printHist n.hist ++ rest) := by
      cases es with
      | nil =>
        obtain ⟨f'', rfl⟩ : ∃ f'', f' = f'' + 1 := ⟨f' - 1, by simp [needE, needA] at hf; omega⟩
        rw [langArg_eq]
        unfold mkNodeArgs kwArgs
        cases kwOpt root n.lang with
        | none =>
          have p2 : (')' : Char) ≠ ' ' := by decide
          simp [srcOfList, readArgs, skipWs_cons ')' _ p2, argsOf]
        | some l => simpa [srcOfList, argsOf] using readArgs_kw cur f'' l (printHist n.hist ++ rest)
      | cons e r =>
        have hcl := closing_kwArgs root n.lang (printHist n.hist ++ rest)
        have := readArgs_children cur (e :: r) f' _ _ _ (some (root.getD n.lang)) hes (by simp)
          hcl (by simp [needE] at hf; omega) hrc
        unfold mkNodeArgs
        simpa using this
    have hid := readIdent_append n.kind '(' (srcOfList (some (root.getD n.lang)) es ++
        (langArg root n.lang es.isEmpty ++ ')' :: (printHist n.hist ++ rest))) hall p1
    have hsk : skipWs (n.kind ++ '(' :: (srcOfList (some (root.getD n.lang)) es ++
        (langArg root n.lang es.isEmpty ++ ')' :: (printHist n.hist ++ rest)))) =
        n.kind ++ '(' :: (srcOfList (some (root.getD n.lang)) es ++
        (langArg root n.lang es.isEmpty ++ ')' :: (printHist n.hist ++ rest))) := by
      rw [hcr]; exact skipWs_cons c _ h1
    have hmk := mkNode_phr cur root n es hk hr
    simp only [srcOf, List.append_assoc, List.cons_append, List.nil_append, List.singleton_append]
    unfold readExpr
    simp only [hsk, hid, hne, skipWs_cons '(' _ p0, hargs]
    simp [hasNameErr_mkNodeArgs, hmk, htr, progOf]
  | .dep n t ds, f, rest, root, hok, he, hf, hr => by
    obtain ⟨hk, hh, ht, hds⟩ := hok
    obtain ⟨f', rfl⟩ : ∃ f', f = f' + 2 := ⟨f - 2, by simp [needE] at hf; omega⟩
    obtain ⟨hall, hne, _, c, r, hcr, h1, _⟩ := kind_facts n.kind (by simp [hk])
    have p1 : isIdentChar '(' = false := by decide
    have p0 : ('(' : Char) ≠ ' ' := by decide
    have hrc : ∀ l', RootOK cur (some (root.getD n.lang)) l' := fun l' => rootOK_child cur root n.lang l' hr
    have hkt := srcOK_kind t ht
    have hcl := closing_kwArgs root n.lang (printHist n.hist ++ rest)
    have hargs : readArgs cur (f' + 1) (srcOf (some (root.getD n.lang)) t ++
        ((if ds.isEmpty then [] else ',' :: srcOfList (some (root.getD n.lang)) ds) ++
        (langArg root n.lang false ++ ')' :: (printHist n.hist ++ rest)))) =
        .ok (mkNodeArgs root n.lang (argsOf (t :: ds)), printHist n.hist ++ rest) := by
      unfold mkNodeArgs
      generalize hta : kwArgs root n.lang = targs at hcl
      generalize hcs : langArg root n.lang false ++ ')' :: (printHist n.hist ++ rest) = cs at hcl
      cases ds with
      | nil =>
        cases hcl with
        | paren rest' =>
          have ih := readExpr_srcOf cur t f' (')' :: (printHist n.hist ++ rest)) (some (root.getD n.lang)) ht
            (Or.inr (follower_cons _ _ (by simp))) (by simp [needE] at hf; omega) (hrc _)
          have := readArgs_last cur (some (root.getD n.lang)) t f' _ hkt ih
          simpa [argsOf] using this
        | kw l rest' =>
          have ih := readExpr_srcOf cur t f' (',' :: (kwSrc l ++ ')' :: (printHist n.hist ++ rest))) (some (root.getD n.lang)) ht
            (Or.inr (follower_cons _ _ (by simp))) (by simp [needE] at hf; omega) (hrc _)
          obtain ⟨f'', rfl⟩ : ∃ f'', f' = f'' + 1 := ⟨f' - 1, by simp [needE, needA] at hf; omega⟩
          have ih2 := readArgs_kw cur f'' l (printHist n.hist ++ rest)
          have := readArgs_more cur (some (root.getD n.lang)) t (f'' + 1) _ _ _ hkt ih ih2
          simpa [argsOf] using this
      | cons d ds' =>
        have ih := readExpr_srcOf cur t f' (',' :: (srcOfList (some (root.getD n.lang)) (d :: ds') ++ cs))
          (some (root.getD n.lang)) ht
          (Or.inr (follower_cons _ _ (by simp))) (by simp [needE] at hf; omega) (hrc _)
        have ih2 := readArgs_children cur (d :: ds') f' _ targs _ (some (root.getD n.lang)) hds (by simp) hcl
          (by simp [needE] at hf; omega) hrc
        have := readArgs_more cur (some (root.getD n.lang)) t f' _ _ _ hkt ih ih2
        simpa [argsOf] using this
    have hid := readIdent_append n.kind '(' (srcOf (some (root.getD n.lang)) t ++
        ((if ds.isEmpty then [] else ',' :: srcOfList (some (root.getD n.lang)) ds) ++
        (langArg root n.lang false ++ ')' :: (printHist n.hist ++ rest)))) hall p1
    have htr := readTrailers_hist cur n.hist (f' + 1) (.dep n.kind n.lang (progOf t) (progOfList ds)) rest hh he
      (by simp [needE] at hf; omega)
    have hsk : skipWs (n.kind ++ '(' :: (srcOf (some (root.getD n.lang)) t ++
        ((if ds.isEmpty then [] else ',' :: srcOfList (some (root.getD n.lang)) ds) ++
        (langArg root n.lang false ++ ')' :: (printHist n.hist ++ rest))))) =
        n.kind ++ '(' :: (srcOf (some (root.getD n.lang)) t ++
        ((if ds.isEmpty then [] else ',' :: srcOfList (some (root.getD n.lang)) ds) ++
        (langArg root n.lang false ++ ')' :: (printHist n.hist ++ rest)))) := by
      rw [hcr]; exact skipWs_cons c _ h1
    have hmk := mkNode_dep cur root n t ds hk hr
    simp only [srcOf, List.append_assoc, List.cons_append, List.nil_append, List.singleton_append]
    unfold readExpr
    simp only [hsk, hid, hne, skipWs_cons '(' _ p0, hargs]
    simp [hasNameErr_mkNodeArgs, hmk, htr, progOf]
theorem readArgs_children (cur : Lang) : ∀ (es : List Expr) (f : Nat) (closing : Str) (targs : List Arg) (rest : Str)
    (root : Option Lang), SrcOKList es → es ≠ [] → Closing closing targs rest → needA es + 1 ≤ f →
    (∀ l', RootOK cur root l') →
    readArgs cur f (srcOfList root es ++ closing) = .ok (argsOf es ++ targs, rest)
  | [], _, _, _, _, _, _, h, _, _, _ => absurd rfl h
  | [e], f, closing, targs, rest, root, hok, _, hcl, hf, hr => by
    obtain ⟨f', rfl⟩ : ∃ f', f = f' + 2 := ⟨f - 2, by simp [needA] at hf; omega⟩
    cases hcl with
    | paren rest' =>
      have ih := readExpr_srcOf cur e (f' + 1) (')' :: rest) root hok.1 (Or.inr (follower_cons _ _ (by simp)))
        (by simp [needA] at hf; omega) (hr _)
      simpa [srcOfList, argsOf] using readArgs_last cur root e (f' + 1) rest (srcOK_kind e hok.1) ih
    | kw l rest' =>
      have ih := readExpr_srcOf cur e (f' + 1) (',' :: (kwSrc l ++ ')' :: rest)) root hok.1
        (Or.inr (follower_cons _ _ (by simp))) (by simp [needA] at hf; omega) (hr _)
      have ih2 := readArgs_kw cur f' l rest
      simpa [srcOfList, argsOf] using readArgs_more cur root e (f' + 1) _ _ _ (srcOK_kind e hok.1) ih ih2
  | e :: e2 :: r, f, closing, targs, rest, root, hok, _, hcl, hf, hr => by
    obtain ⟨f', rfl⟩ : ∃ f', f = f' + 1 := ⟨f - 1, by simp [needA] at hf; omega⟩
    have ih := readExpr_srcOf cur e f' (',' :: (srcOfList root (e2 :: r) ++ closing)) root hok.1
      (Or.inr (follower_cons _ _ (by simp))) (by simp [needA] at hf; omega) (hr _)
    have ih2 := readArgs_children cur (e2 :: r) f' closing targs rest root hok.2 (by simp) hcl
      (by simp [needA] at hf ⊢; omega) hr
    simpa [srcOfList, argsOf] using readArgs_more cur root e f' _ _ _ (srcOK_kind e hok.1) ih ih2
end


/-! ### the fuel `parseSrc` starts with is enough -/

theorem printCall_len (c : Call) : 1 ≤ (printCall c).length := by
  cases c with
  | opt name arg => simp [printCall]
  | tag2 nm attrs => simp only [printCall, List.length_append, List.length_cons]; omega

theorem printHist_len (h : List Call) : h.length ≤ (printHist h).length := by
  induction h with
  | nil => simp
  | cons c r ih =>
    have := printCall_len c
    simp only [printHist, List.length_append, List.length_cons]
    omega

theorem srcOf_len (root : Option Lang) (e : Expr) : 1 ≤ (srcOf root e).length := by
  obtain ⟨tl, h⟩ := srcOf_shape root e
  rw [h]; simp only [List.length_append, List.length_cons]; omega

theorem kind_len (k : Str) (h : k ∈ termKindsSrc ++ phraseKindsSrc ++ deprels) : 1 ≤ k.length := by
  obtain ⟨_, h2, _⟩ := kind_facts k h
  cases k with
  | nil => simp at h2
  | cons c r => simp

mutual
theorem needE_le : ∀ (e : Expr) (root : Option Lang), SrcOK e → needE e ≤ (srcOf root e).length + 1
  | .term n l i, root, hok => by
    have h1 := printHist_len n.hist
    simp only [needE, srcOf, quoteSrc, List.length_append, List.length_cons, List.length_nil]
    omega
  | .phr n es, root, hok => by
    have h1 := printHist_len n.hist
    have h2 := needA_le es (some (root.getD n.lang)) hok.2.2
    have h3 := kind_len n.kind (by simp [hok.1])
    simp only [needE, srcOf, List.length_append, List.length_cons, List.length_nil]
    omega
  | .dep n t ds, root, hok => by
    have h1 := printHist_len n.hist
    have h2 := needE_le t (some (root.getD n.lang)) hok.2.2.1
    have h3 := needA_le ds (some (root.getD n.lang)) hok.2.2.2
    have h4 := kind_len n.kind (by simp [hok.1])
    have h5 := srcOf_len (some (root.getD n.lang)) t
    cases ds with
    | nil =>
      simp only [needE, needA, srcOf, List.length_append, List.length_cons, List.length_nil, List.isEmpty_nil, if_true]
      omega
    | cons d r =>
      simp only [needE, srcOf, List.length_append, List.length_cons, List.length_nil, List.isEmpty_cons] at h3 ⊢
      simp only [Bool.false_eq_true, if_false, List.length_cons]
      omega
theorem needA_le : ∀ (es : List Expr) (root : Option Lang), SrcOKList es → needA es ≤ (srcOfList root es).length + 2
  | [], _, _ => by simp [needA]
  | [e], root, hok => by
    have := needE_le e root hok.1
    simp only [needA, srcOfList]
    omega
  | e :: e2 :: r, root, hok => by
    have h1 := needE_le e root hok.1
    have h2 := needA_le (e2 :: r) root hok.2
    have h3 := srcOf_len root e
    simp only [needA, srcOfList, List.length_append, List.length_cons, List.length_nil] at h2 ⊢
    omega
end

/-- **the printed source reads back as the construction program it denotes** (every constituent with its own language),
    when the language of the root is the current one; for every lemma and tag name, and option values whose `repr` the
    model covers (`SrcOK`) -/
theorem parseSrc_toSource (cur : Lang) (e : Expr) (h : SrcOK e) (hl : e.lang = cur) :
    parseSrc cur (toSource e) = .ok (progOf e) := by
  have := readExpr_srcOf cur e ((toSource e).length + 1) [] none h (Or.inl rfl) (needE_le e none h) hl
  simp only [List.append_nil] at this
  unfold parseSrc
  unfold toSource at this ⊢
  rw [this]
  simp [skipWs]


end Pyrealb.Expr
