import Pyrealb.Model.NumberNO
import Pyrealb.Model.NumberEval
import Pyrealb.Lemmas.NumberWordsSplit
/-! Digit formatting: the text produced by `formatFixedW` is read back by `parseNumber` (any grouping / decimal
sign that is not a digit), and `roundHE` rounds to nearest, ties to even. -/
namespace Pyrealb.Number
open Pyrealb Pyrealb.NumberSpec Pyrealb.Gen.NumberWords

/-! ### digits -/

theorem digitVal_digitChar_tbl : ∀ d : Fin 10, digitVal (digitChar d.val) = some d.val := by decide +kernel

theorem digitVal_digitChar (d : Nat) (h : d < 10) : digitVal (digitChar d) = some d :=
  digitVal_digitChar_tbl ⟨d, h⟩

theorem natOfDigits_append (acc : Nat) (a b : Str) :
    NumberSpec.natOfDigits acc (a ++ b) = (NumberSpec.natOfDigits acc a).bind (fun v => NumberSpec.natOfDigits v b) := by
  induction a generalizing acc with
  | nil => simp [NumberSpec.natOfDigits]
  | cons c cs ih =>
    simp only [List.cons_append, NumberSpec.natOfDigits]
    cases digitVal c with
    | none => simp
    | some d => simp [ih]

theorem natOfDigits_single (acc d : Nat) (h : d < 10) :
    NumberSpec.natOfDigits acc [digitChar d] = some (acc * 10 + d) := by
  simp [NumberSpec.natOfDigits, digitVal_digitChar d h]

/-- a text all of whose characters are decimal digits -/
def AllDigits (x : Str) : Prop := ∀ c ∈ x, (digitVal c).isSome = true

theorem allDigits_append {a b : Str} (ha : AllDigits a) (hb : AllDigits b) : AllDigits (a ++ b) := by
  intro c hc
  rcases List.mem_append.mp hc with h | h
  · exact ha c h
  · exact hb c h

theorem allDigits_single (d : Nat) (h : d < 10) : AllDigits [digitChar d] := by
  intro c hc
  simp at hc; subst hc
  simp [digitVal_digitChar d h]

theorem digitsAux_spec : ∀ (f n : Nat), n ≤ f →
    NumberSpec.natOfDigits 0 (digitsAux f n) = some n ∧ AllDigits (digitsAux f n) ∧ digitsAux f n ≠ [] := by
  intro f
  induction f with
  | zero =>
    intro n hn
    have : n = 0 := by omega
    subst this
    exact ⟨by simp [digitsAux, natOfDigits_single], allDigits_single 0 (by decide), by simp [digitsAux]⟩
  | succ f ih =>
    intro n hn
    by_cases hlt : n < 10
    · simp only [digitsAux, hlt, if_true]
      exact ⟨by simp [natOfDigits_single 0 n hlt], allDigits_single n hlt, by simp⟩
    · simp only [digitsAux, hlt, if_false]
      obtain ⟨h1, h2, _⟩ := ih (n / 10) (by omega)
      refine ⟨?_, allDigits_append h2 (allDigits_single _ (Nat.mod_lt _ (by decide))), by simp⟩
      rw [natOfDigits_append, h1]
      simp only [Option.bind_some]
      rw [natOfDigits_single _ _ (Nat.mod_lt _ (by decide))]
      congr 1; omega

/-- numbers below 1000 have one to three digits -/
theorem natRepr_small_tbl : (List.range 1000).all (fun t => decide (1 ≤ (natRepr t).length ∧ (natRepr t).length ≤ 3)) = true := by
  decide +kernel

theorem natRepr_small (t : Nat) (h : t < 1000) : 1 ≤ (natRepr t).length ∧ (natRepr t).length ≤ 3 := by
  have := List.all_eq_true.mp natRepr_small_tbl t (List.mem_range.mpr h)
  simpa using this

theorem pad3_spec (acc t : Nat) (h : t < 1000) :
    NumberSpec.natOfDigits acc (pad3 t) = some (acc * 1000 + t) ∧ AllDigits (pad3 t) ∧ (pad3 t).length = 3 := by
  have h1 : t / 100 < 10 := by omega
  have h2 : t / 10 % 10 < 10 := Nat.mod_lt _ (by decide)
  have h3 : t % 10 < 10 := Nat.mod_lt _ (by decide)
  refine ⟨?_, ?_, rfl⟩
  · simp only [pad3, NumberSpec.natOfDigits, digitVal_digitChar _ h1, digitVal_digitChar _ h2, digitVal_digitChar _ h3]
    congr 1; omega
  · intro c hc
    simp only [pad3, List.mem_cons, List.not_mem_nil, or_false] at hc
    rcases hc with rfl | rfl | rfl
    · simp [digitVal_digitChar _ h1]
    · simp [digitVal_digitChar _ h2]
    · simp [digitVal_digitChar _ h3]

/-! ### splitting at a sign that does not occur -/

theorem splitKeep_none (p : Char → Bool) (x : Str) (h : ∀ c ∈ x, p c = false) : splitKeep p x = [x] := by
  induction x with
  | nil => rfl
  | cons a r ih =>
    have ha : p a = false := h a (by simp)
    have := ih (fun c hc => h c (by simp [hc]))
    simp [splitKeep, ha, this]

theorem eqChar_digit_false (g c : Char) (hg : digitVal g = none) (hc : (digitVal c).isSome = true) :
    eqChar g c = false := by
  unfold eqChar
  cases h : c == g with
  | false => rfl
  | true =>
    have : c = g := by simpa using h
    subst this
    simp [hg] at hc

/-! ### the grouped integer part -/

theorem group_pieces (g : Char) (hg : digitVal g = none) : ∀ (f n : Nat), n ≤ f →
    ∃ first rest, splitKeep (eqChar g) (groupAuxW g f n) = first :: rest ∧ 1 ≤ first.length ∧ first.length ≤ 3 ∧
      (∀ p ∈ rest, p.length = 3) ∧ NumberSpec.natOfDigits 0 (first ++ rest.flatten) = some n ∧
      (∀ c ∈ groupAuxW g f n, c = g ∨ (digitVal c).isSome = true) := by
  intro f
  induction f with
  | zero =>
    intro n hn
    have : n = 0 := by omega
    subst this
    obtain ⟨h1, h2, _⟩ := digitsAux_spec 0 0 (Nat.le_refl _)
    refine ⟨natRepr 0, [], ?_, by decide, by decide, by simp, by simpa [natRepr] using h1, ?_⟩
    · exact splitKeep_none _ _ (fun c hc => eqChar_digit_false g c hg (h2 c hc))
    · intro c hc; exact Or.inr (h2 c hc)
  | succ f ih =>
    intro n hn
    by_cases hlt : n < 1000
    · simp only [groupAuxW, hlt, if_true]
      obtain ⟨h1, h2, _⟩ := digitsAux_spec n n (Nat.le_refl _)
      obtain ⟨l1, l2⟩ := natRepr_small n hlt
      refine ⟨natRepr n, [], ?_, l1, l2, by simp, by simpa [natRepr] using h1, ?_⟩
      · exact splitKeep_none _ _ (fun c hc => eqChar_digit_false g c hg (h2 c hc))
      · intro c hc; exact Or.inr (h2 c hc)
    · simp only [groupAuxW, hlt, if_false]
      obtain ⟨first, rest, hsp, l1, l2, l3, hv, hc⟩ := ih (n / 1000) (by omega)
      obtain ⟨p1, p2, p3⟩ := pad3_spec (n / 1000) (n % 1000) (Nat.mod_lt _ (by decide))
      refine ⟨first, rest ++ [pad3 (n % 1000)], ?_, l1, l2, ?_, ?_, ?_⟩
      · rw [splitKeep_append_sep (eqChar g) _ _ g (by simp [eqChar]), hsp,
          splitKeep_none _ _ (fun c hc => eqChar_digit_false g c hg (p2 c hc))]
        simp
      · intro p hp
        rcases List.mem_append.mp hp with h | h
        · exact l3 p h
        · simp at h; subst h; exact p3
      · rw [List.flatten_append, ← List.append_assoc, natOfDigits_append, hv]
        simp only [Option.bind_some, List.flatten_cons, List.flatten_nil, List.append_nil]
        rw [p1]; congr 1; omega
      · intro c hc'
        rcases List.mem_append.mp hc' with h | h
        · exact hc c h
        · rcases List.mem_cons.mp h with h | h
          · exact Or.inl h
          · exact Or.inr (p2 c h)

theorem parseGrouped_group (g : Char) (hg : digitVal g = none) (n : Nat) :
    parseGrouped g (groupNatW g n) = some n := by
  obtain ⟨first, rest, hsp, l1, l2, l3, hv, _⟩ := group_pieces g hg n n (Nat.le_refl _)
  unfold parseGrouped groupNatW
  rw [hsp]
  have : rest.all (fun p => p.length == 3) = true := by
    simp only [List.all_eq_true, beq_iff_eq]; exact l3
  simp [l1, l2, this, hv]

/-! ### the decimals -/

theorem fracDigits_spec : ∀ (p f : Nat),
    NumberSpec.natOfDigits 0 (fracDigits p f) = some (f % 10 ^ p) ∧ AllDigits (fracDigits p f) ∧
      (fracDigits p f).length = p := by
  intro p
  induction p with
  | zero => intro f; exact ⟨by simp [fracDigits, NumberSpec.natOfDigits, Nat.mod_one], by intro c hc; simp [fracDigits] at hc, rfl⟩
  | succ p ih =>
    intro f
    obtain ⟨h1, h2, h3⟩ := ih (f / 10)
    refine ⟨?_, allDigits_append h2 (allDigits_single _ (Nat.mod_lt _ (by decide))), by simp [fracDigits, h3]⟩
    simp only [fracDigits]
    rw [natOfDigits_append, h1]
    simp only [Option.bind_some]
    rw [natOfDigits_single _ _ (Nat.mod_lt _ (by decide)), Nat.pow_succ', Nat.mod_mul]
    congr 1
    omega

/-! ### the whole text -/

theorem parse_formatFixedW (g d : Char) (hg : digitVal g = none) (hd : digitVal d = none) (hgd : g ≠ d)
    (hg' : g ≠ '-') (neg : Bool) (q p : Nat) :
    parseNumber g d (formatFixedW g d neg q p) = some ⟨neg, q, p⟩ := by
  obtain ⟨first, rest, hsp, l1, _, _, _, hchars⟩ := group_pieces g hg (q / 10 ^ p) (q / 10 ^ p) (Nat.le_refl _)
  have hG := parseGrouped_group g hg (q / 10 ^ p)
  -- the integer part is not empty and does not start with '-'
  have hne : groupNatW g (q / 10 ^ p) ≠ [] := by
    intro h
    unfold groupNatW at h
    rw [h] at hsp
    simp only [splitKeep, List.cons.injEq] at hsp
    rw [← hsp.1] at l1
    simp at l1
  have hhead : ∀ c r, groupNatW g (q / 10 ^ p) = c :: r → c ≠ '-' := by
    intro c r h hc
    have := hchars c (by unfold groupNatW at h; rw [h]; simp)
    rcases this with h1 | h1
    · exact hg' (h1 ▸ hc)
    · subst hc; revert h1; decide
  -- no decimal sign inside the integer part
  have hnod : ∀ c ∈ groupNatW g (q / 10 ^ p), eqChar d c = false := by
    intro c hc
    rcases hchars c hc with h1 | h1
    · subst h1; simp [eqChar]; exact hgd
    · exact eqChar_digit_false d c hd h1
  obtain ⟨f1, f2, f3⟩ := fracDigits_spec p (q % 10 ^ p)
  have hnodF : ∀ c ∈ fracDigits p (q % 10 ^ p), eqChar d c = false :=
    fun c hc => eqChar_digit_false d c hd (f2 c hc)
  -- strip the sign
  have hbody : ∀ body, body = groupNatW g (q / 10 ^ p) ++ (if p = 0 then [] else d :: fracDigits p (q % 10 ^ p)) →
      (match splitKeep (eqChar d) body with
        | [ip] => (parseGrouped g ip).map (fun n => (⟨neg, n, 0⟩ : Dec))
        | [ip, fp] =>
          if fp.isEmpty then none else
          match parseGrouped g ip, NumberSpec.natOfDigits 0 fp with
          | some n, some f => some ⟨neg, n * 10 ^ fp.length + f, fp.length⟩
          | _, _ => none
        | _ => none) = some ⟨neg, q, p⟩ := by
    intro body hb
    by_cases hp : p = 0
    · subst hp
      simp only [if_true, List.append_nil] at hb
      rw [hb, splitKeep_none _ _ hnod]
      simp
      exact parseGrouped_group g hg q
    · simp only [hp, if_false] at hb
      rw [hb, splitKeep_append_sep (eqChar d) _ _ d (by simp [eqChar]), splitKeep_none _ _ hnod,
        splitKeep_none _ _ hnodF]
      have hfe : (fracDigits p (q % 10 ^ p)).isEmpty = false := by
        cases h : fracDigits p (q % 10 ^ p) with
        | nil => rw [h] at f3; simp at f3; omega
        | cons _ _ => rfl
      simp only [List.singleton_append, hfe, hG, f1, f3]
      simp only [Bool.false_eq_true, if_false, Option.some.injEq, Dec.mk.injEq, true_and, and_true]
      rw [Nat.mod_mod]
      exact Nat.div_add_mod' q (10 ^ p)
  unfold parseNumber formatFixedW
  cases neg with
  | true =>
    simp only [if_true, List.cons_append, List.nil_append, List.head?_cons, beq_self_eq_true, List.drop_succ_cons,
      List.drop_zero]
    exact hbody _ rfl
  | false =>
    simp only [Bool.false_eq_true, if_false, List.nil_append]
    cases hx : groupNatW g (q / 10 ^ p) with
    | nil => exact absurd hx hne
    | cons c r =>
      have hc := hhead c r hx
      have : ((c :: r ++ if p = 0 then [] else d :: fracDigits p (q % 10 ^ p)).head? == some '-') = false := by
        simp [hc]
      simp only [this, Bool.false_eq_true, if_false]
      rw [← hx]
      exact hbody _ rfl

/-! ### rounding -/

theorem roundHE_isRounded (m k p : Nat) : IsRounded m k p (roundHE m k p) := by
  unfold IsRounded roundHE
  by_cases hkp : k ≤ p
  · simp only [hkp, if_true]
    have : m * 10 ^ (p - k) * 10 ^ k = m * 10 ^ p := by
      rw [Nat.mul_assoc, ← Nat.pow_add]; congr 2; omega
    simp only [this, Nat.sub_self, Nat.mul_zero, Nat.zero_le, true_and]
    have hpos : 0 < 10 ^ k := Nat.pow_pos (by decide)
    intro h; omega
  · simp only [hkp, if_false]
    have hc : 10 ^ k = 10 ^ (k - p) * 10 ^ p := by rw [← Nat.pow_add]; congr 1; omega
    generalize hcdef : 10 ^ (k - p) = c at *
    have hcpos : 0 < c := by rw [← hcdef]; exact Nat.pow_pos (by decide)
    generalize hP : 10 ^ p = P at *
    have hPpos : 0 < P := by rw [← hP]; exact Nat.pow_pos (by decide)
    have hm : m = m / c * c + m % c := (Nat.div_add_mod' m c).symm
    have hr : m % c < c := Nat.mod_lt _ hcpos
    generalize m / c = q0 at *
    generalize m % c = r at *
    rw [hc]
    -- products as atoms
    have e1 : m * P = q0 * (c * P) + r * P := by rw [hm, Nat.add_mul, Nat.mul_assoc]
    have e2 : (q0 + 1) * (c * P) = q0 * (c * P) + c * P := by rw [Nat.add_mul, Nat.one_mul]
    have cancel : ∀ a b : Nat, a * P = b * P → a = b := fun a b h => Nat.eq_of_mul_eq_mul_right hPpos h
    by_cases hup : 2 * r > c ∨ (2 * r = c ∧ q0 % 2 = 1)
    · simp only [hup, if_true]
      rw [e1, e2]
      have h2 : 2 * (c * P) ≤ 2 * (r * P) + c * P := by
        have : c * P ≤ 2 * r * P := Nat.mul_le_mul_right P (by omega)
        rw [Nat.mul_assoc] at this; omega
      have h3 : r * P ≤ c * P := Nat.mul_le_mul_right P (by omega)
      refine ⟨by omega, by omega, ?_⟩
      intro htie
      have : 2 * (r * P) = c * P := by omega
      have : 2 * r = c := cancel _ _ (by rw [Nat.mul_assoc]; exact this)
      omega
    · simp only [hup, if_false]
      rw [e1]
      have h2 : 2 * (r * P) ≤ c * P := by
        have : 2 * r * P ≤ c * P := Nat.mul_le_mul_right P (by omega)
        rw [Nat.mul_assoc] at this; exact this
      refine ⟨by omega, by omega, ?_⟩
      intro htie
      have : 2 * (r * P) = c * P := by omega
      have : 2 * r = c := cancel _ _ (by rw [Nat.mul_assoc]; exact this)
      omega

/-! ### the substitutions of `numberFormatter` -/

theorem replaceChar_append (c : Char) (r a b : Str) :
    replaceChar c r (a ++ b) = replaceChar c r a ++ replaceChar c r b := by
  simp [replaceChar, List.flatMap_append]

theorem replaceChar_none (c : Char) (r x : Str) (h : ∀ a ∈ x, a ≠ c) : replaceChar c r x = x := by
  induction x with
  | nil => rfl
  | cons a x ih =>
    have ha : a ≠ c := h a (by simp)
    have := ih (fun b hb => h b (by simp [hb]))
    simp only [replaceChar, List.flatMap_cons, ha, if_false] at this ⊢
    rw [this]; rfl

theorem replaceChar_cons_self (c c' : Char) (x : Str) :
    replaceChar c [c'] (c :: x) = c' :: replaceChar c [c'] x := by
  simp [replaceChar, List.flatMap_cons]

theorem digits_ne (c : Char) (hc : digitVal c = none) {x : Str} (hx : AllDigits x) : ∀ a ∈ x, a ≠ c := by
  intro a ha h
  subst h
  have := hx a ha
  simp [hc] at this

/-- replacing the grouping sign -/
theorem replace_group (c0 g : Char) (hc0 : digitVal c0 = none) : ∀ (f n : Nat), n ≤ f →
    replaceChar c0 [g] (groupAuxW c0 f n) = groupAuxW g f n := by
  intro f
  induction f with
  | zero =>
    intro n _
    simp only [groupAuxW]
    exact replaceChar_none _ _ _ (digits_ne c0 hc0 (digitsAux_spec n n (Nat.le_refl _)).2.1)
  | succ f ih =>
    intro n hn
    by_cases hlt : n < 1000
    · simp only [groupAuxW, hlt, if_true]
      exact replaceChar_none _ _ _ (digits_ne c0 hc0 (digitsAux_spec n n (Nat.le_refl _)).2.1)
    · simp only [groupAuxW, hlt, if_false]
      rw [replaceChar_append, ih (n / 1000) (by omega), replaceChar_cons_self,
        replaceChar_none _ _ _ (digits_ne c0 hc0 (pad3_spec 0 (n % 1000) (Nat.mod_lt _ (by decide))).2.1)]

/-- the two replacements of `numberFormatter` turn the comma/point text into the text with the signs `g`, `d` -/
theorem replace_formatFixed (g d : Char) (hg : digitVal g = none) (hg1 : g ≠ '.') (neg : Bool) (q p : Nat) :
    replaceChar '.' [d] (replaceChar ',' [g] (formatFixed neg q p)) = formatFixedW g d neg q p := by
  have hcomma : digitVal ',' = none := by decide
  have hpoint : digitVal '.' = none := by decide
  obtain ⟨_, _, _, _, _, _, _, hchars⟩ := group_pieces g hg (q / 10 ^ p) (q / 10 ^ p) (Nat.le_refl _)
  obtain ⟨_, f2, _⟩ := fracDigits_spec p (q % 10 ^ p)
  have hG2 : replaceChar '.' [d] (groupNatW g (q / 10 ^ p)) = groupNatW g (q / 10 ^ p) := by
    apply replaceChar_none
    intro a ha h
    rcases hchars a ha with h1 | h1
    · exact hg1 (h1 ▸ h)
    · subst h; simp [hpoint] at h1
  unfold formatFixed formatFixedW
  simp only [replaceChar_append]
  have hS : ∀ c : Char, c ≠ '-' → replaceChar c [c] (if neg then ['-'] else []) = (if neg then ['-'] else []) := by
    intro c hc; cases neg <;> simp [replaceChar, List.flatMap_cons, Ne.symm hc]
  have hS1 : ∀ (c c' : Char), c ≠ '-' → replaceChar c [c'] (if neg then ['-'] else []) = (if neg then ['-'] else []) := by
    intro c c' hc; cases neg <;> simp [replaceChar, List.flatMap_cons, Ne.symm hc]
  rw [hS1 ',' g (by decide), hS1 '.' d (by decide)]
  have : replaceChar ',' [g] (groupNatW ',' (q / 10 ^ p)) = groupNatW g (q / 10 ^ p) :=
    replace_group ',' g hcomma _ _ (Nat.le_refl _)
  rw [this, hG2]
  congr 1
  by_cases hp : p = 0
  · simp [hp, replaceChar]
  · simp only [hp, if_false]
    have e1 : replaceChar ',' [g] ('.' :: fracDigits p (q % 10 ^ p)) = '.' :: fracDigits p (q % 10 ^ p) := by
      apply replaceChar_none
      intro a ha
      rcases List.mem_cons.mp ha with h | h
      · subst h; decide
      · exact digits_ne ',' hcomma f2 a h
    rw [e1, replaceChar_cons_self, replaceChar_none _ _ _ (digits_ne '.' hpoint f2)]

/-! ### `numberFormatter` with the generated symbols of the two languages -/

/-- finite facts about the generated symbols: `rules-en.json` uses comma / point (no replacement),
    `rules-fr.json` a no-break space and a comma; the format specifications are `"{:,}"` (int) and `"{:,.Pf}"` -/
theorem symbols_tbl : groupEn = [','] ∧ decimalEn = ['.'] ∧ groupFr = ['\u00a0'] ∧ decimalFr = [','] ∧
    formatSpecInt = s "{:,}" ∧ formatSpecHead = s "{:,." ∧ formatSpecTail = s "f}" := by decide +kernel

/-- the text of a value that is written `± q / 10^p`, in the language's signs -/
theorem substituted (ℓ : Lang) (neg : Bool) (q p : Nat) :
    (let res := formatFixed neg q p
     let res := if groupSym ℓ ≠ [','] then replaceChar ',' (groupSym ℓ) res else res
     if decimalSym ℓ ≠ ['.'] then replaceChar '.' (decimalSym ℓ) res else res)
      = formatFixedW (groupSign ℓ) (decimalSign ℓ) neg q p := by
  obtain ⟨h1, h2, h3, h4, _, _, _⟩ := symbols_tbl
  cases ℓ
  · simp [groupSym, decimalSym, pick, h1, h2, groupSign, decimalSign, formatFixed]
  · simp only [groupSym, decimalSym, pick, h3, h4, groupSign, decimalSign]
    have := replace_formatFixed '\u00a0' ',' (by decide) (by decide) neg q p
    simpa using this

theorem parse_formatFixed_lang (ℓ : Lang) (neg : Bool) (q p : Nat) :
    parseNumber (groupSign ℓ) (decimalSign ℓ) (formatFixedW (groupSign ℓ) (decimalSign ℓ) neg q p) = some ⟨neg, q, p⟩ := by
  cases ℓ
  · exact parse_formatFixedW ',' '.' (by decide) (by decide) (by decide) (by decide) neg q p
  · exact parse_formatFixedW '\u00a0' ',' (by decide) (by decide) (by decide) (by decide) neg q p

theorem numberFormatter_flt (ℓ : Lang) (neg : Bool) (m k : Nat) (r : Str) (p : Nat) :
    numberFormatter ℓ (.flt neg m k r) (some (p : Int)) =
      .ok (formatFixedW (groupSign ℓ) (decimalSign ℓ) neg (roundHE m k p) p) := by
  have hp : ¬ ((p : Int) < 0) := by omega
  simp only [numberFormatter, hp, if_false, Int.toNat_natCast, pure, Except.pure]
  rw [substituted ℓ neg (roundHE m k p) p]

theorem numberFormatter_int (ℓ : Lang) (n : Int) (mp : Option Int) :
    numberFormatter ℓ (.int n) mp =
      .ok (formatFixedW (groupSign ℓ) (decimalSign ℓ) (decide (n < 0)) n.natAbs 0) := by
  simp only [numberFormatter, Int.lt_irrefl, if_false, pure, Except.pure]
  rw [substituted ℓ (decide (n < 0)) n.natAbs 0]

/-! ### `-2 < value < 2` on an exact decimal -/

theorem between_flt (neg : Bool) (m k : Nat) (r : Str) :
    (Val.flt neg m k r).between (-2) 2 = decide (m < 2 * 10 ^ k) := by
  have hk : ((10 : Int) ^ k) = ((10 ^ k : Nat) : Int) := by simp
  simp only [Val.between, hk]
  generalize 10 ^ k = P
  by_cases h : m < 2 * P
  · cases neg <;> simp [h] <;> omega
  · cases neg <;> simp [h] <;> omega

end Pyrealb.Number
