import Pyrealb.Model.Elision
/-! String lemmas about `sepWord` (the model of `sepWordREC`): rewriting the first word of a realization
    (`m[1] + new + m[3]`) leaves groups 1 and 3 unchanged and makes `new` the first word. -/
namespace Pyrealb.Elision
open Pyrealb

theorem skipLen_le (wd : Char → Bool) : ∀ (x : Str) (st : Sk), skipLen wd st x ≤ x.length := by
  intro x
  induction x with
  | nil => intro st; cases st <;> simp [skipLen]
  | cons c cs ih =>
    intro st
    cases st with
    | out =>
      simp only [skipLen, List.length_cons]
      split
      · split
        · have := ih .tag; omega
        · omega
      · split
        · omega
        · have := ih .out; omega
    | tag =>
      simp only [skipLen, List.length_cons]
      split
      · have := ih .out; omega
      · have := ih .tag; omega

theorem tag_has_gt (wd : Char → Bool) : ∀ (x : Str), x.drop (skipLen wd .tag x) ≠ [] →
    '>' ∈ x.take (skipLen wd .tag x) := by
  intro x
  induction x with
  | nil => intro h; simp [skipLen] at h
  | cons c cs ih =>
    intro h
    by_cases hc : c = '>'
    · subst hc
      simp [skipLen, Nat.add_comm 1]
    · have e : skipLen wd .tag (c :: cs) = skipLen wd .tag cs + 1 := by
        simp [skipLen, hc, Nat.add_comm]
      rw [e] at h ⊢
      simp only [List.drop_succ_cons] at h
      simp only [List.take_succ_cons, List.mem_cons]
      exact Or.inr (ih h)

/-- the prefix consumed by the skip does not depend on what follows, as long as a word character follows -/
theorem skip_stable (wd : Char → Bool) (hlt : wd '<' = false) : ∀ (x : Str) (st : Sk) (y : Str),
    (∃ c r, x.drop (skipLen wd st x) = c :: r ∧ wd c = true) →
    (∃ c r, y = c :: r ∧ wd c = true) →
    skipLen wd st (x.take (skipLen wd st x) ++ y) = skipLen wd st x := by
  intro x
  induction x with
  | nil =>
    intro st y hx _
    obtain ⟨c, r, h, _⟩ := hx
    cases st <;> simp [skipLen] at h
  | cons c cs ih =>
    intro st y hx hy
    cases st with
    | tag =>
      by_cases hc : c = '>'
      · subst hc
        have e : skipLen wd .tag ('>' :: cs) = skipLen wd .out cs + 1 := by simp [skipLen, Nat.add_comm]
        rw [e] at hx ⊢
        simp only [List.drop_succ_cons] at hx
        simp only [List.take_succ_cons, List.cons_append]
        have := ih .out y hx hy
        simp [skipLen, this, Nat.add_comm]
      · have e : skipLen wd .tag (c :: cs) = skipLen wd .tag cs + 1 := by simp [skipLen, hc, Nat.add_comm]
        rw [e] at hx ⊢
        simp only [List.drop_succ_cons] at hx
        simp only [List.take_succ_cons, List.cons_append]
        have := ih .tag y hx hy
        simp [skipLen, hc, this, Nat.add_comm]
    | out =>
      by_cases hc : c = '<'
      · subst hc
        by_cases ht : tagOK cs = true
        · have e : skipLen wd .out ('<' :: cs) = skipLen wd .tag cs + 1 := by simp [skipLen, ht, Nat.add_comm]
          rw [e] at hx ⊢
          simp only [List.drop_succ_cons] at hx
          simp only [List.take_succ_cons, List.cons_append]
          have hrec := ih .tag y hx hy
          -- the tag is still complete
          have ht' : tagOK (cs.take (skipLen wd .tag cs) ++ y) = true := by
            cases cs with
            | nil => simp [tagOK] at ht
            | cons d ds =>
              simp only [tagOK, Bool.and_eq_true, bne_iff_ne, ne_eq] at ht
              obtain ⟨hd, _⟩ := ht
              have e2 : skipLen wd .tag (d :: ds) = skipLen wd .tag ds + 1 := by simp [skipLen, hd, Nat.add_comm]
              rw [e2] at hx ⊢
              simp only [List.drop_succ_cons] at hx
              have hne : ds.drop (skipLen wd .tag ds) ≠ [] := by
                obtain ⟨c', r', h', _⟩ := hx
                rw [h']; simp
              have hgt := tag_has_gt wd ds hne
              simp only [List.take_succ_cons, List.cons_append, tagOK, Bool.and_eq_true, bne_iff_ne, ne_eq]
              refine ⟨hd, ?_⟩
              simp only [List.contains_eq_mem, List.mem_append, decide_eq_true_eq]
              exact Or.inl hgt
          simp [skipLen, ht', hrec, Nat.add_comm]
        · have e : skipLen wd .out ('<' :: cs) = 0 := by simp [skipLen, ht]
          rw [e] at hx
          obtain ⟨c', r', h', hw⟩ := hx
          simp only [List.drop_zero, List.cons.injEq] at h'
          rw [← h'.1] at hw
          rw [hlt] at hw
          exact absurd hw (by decide)
      · by_cases hw : wd c = true
        · have e : skipLen wd .out (c :: cs) = 0 := by simp [skipLen, hc, hw]
          rw [e]
          obtain ⟨c', r', rfl, hw'⟩ := hy
          have hc' : c' ≠ '<' := by
            intro h; rw [h, hlt] at hw'; exact absurd hw' (by decide)
          simp [skipLen, hc', hw']
        · have e : skipLen wd .out (c :: cs) = skipLen wd .out cs + 1 := by simp [skipLen, hc, hw, Nat.add_comm]
          rw [e] at hx ⊢
          simp only [List.drop_succ_cons] at hx
          simp only [List.take_succ_cons, List.cons_append]
          have := ih .out y hx hy
          simp [skipLen, hc, hw, this, Nat.add_comm]

theorem takeWhile_append_stop {α} (p : α → Bool) : ∀ (a b : List α), (∀ c ∈ a, p c = true) →
    (∀ c t, b = c :: t → p c = false) → (a ++ b).takeWhile p = a ∧ (a ++ b).dropWhile p = b := by
  intro a
  induction a with
  | nil =>
    intro b _ hb
    cases b with
    | nil => simp
    | cons c t => simp [hb c t rfl]
  | cons x xs ih =>
    intro b ha hb
    have hx : p x = true := ha x (by simp)
    have := ih b (fun c hc => ha c (by simp [hc])) hb
    simp [hx, this.1, this.2]

theorem takeWhile_idem {α} (p : α → Bool) (l : List α) : (l.takeWhile p).takeWhile p = l.takeWhile p := by
  induction l with
  | nil => simp
  | cons x xs ih =>
    by_cases h : p x = true
    · simp [List.takeWhile, h, ih]
    · simp [List.takeWhile, h]

theorem head_dropWhile_not {α} (p : α → Bool) (l : List α) : ∀ c t, l.dropWhile p = c :: t → p c = false := by
  induction l with
  | nil => intro c t h; simp at h
  | cons x xs ih =>
    intro c t h
    by_cases hx : p x = true
    · simp [List.dropWhile, hx] at h; exact ih c t h
    · simp [List.dropWhile, hx] at h
      rw [← h.1]; simpa using hx

theorem head_takeWhile {α} (q : α → Bool) (l : List α) : ∀ c t, l.takeWhile q = c :: t → ∃ t', l = c :: t' := by
  intro c t h
  cases l with
  | nil => simp at h
  | cons x xs =>
    by_cases hx : q x = true
    · simp [List.takeWhile, hx] at h; exact ⟨xs, by rw [h.1]⟩
    · simp [List.takeWhile, hx] at h

theorem mem_takeWhile_pos {α} (p : α → Bool) : ∀ (l : List α) (c : α), c ∈ l.takeWhile p → p c = true := by
  intro l
  induction l with
  | nil => intro c h; simp at h
  | cons x xs ih =>
    intro c h
    by_cases hx : p x = true
    · simp only [List.takeWhile, hx, List.mem_cons] at h
      cases h with
      | inl h => rw [h]; exact hx
      | inr h => exact ih c h
    · simp [List.takeWhile, hx] at h

theorem takeWhile_all {α} (p : α → Bool) : ∀ (l : List α), (∀ c ∈ l, p c = true) → l.takeWhile p = l := by
  intro l
  induction l with
  | nil => intro _; rfl
  | cons x xs ih =>
    intro h
    have hx : p x = true := h x (by simp)
    simp only [List.takeWhile, hx]
    rw [ih (fun c hc => h c (by simp [hc]))]

theorem isWd_lt (ℓ : Lang) : isWd ℓ '<' = false := by cases ℓ <;> decide

/-- what `sepWord` guarantees about its three groups when there is a word -/
theorem sepWord_word_spec (ℓ : Lang) (x p w r : Str) (h : sepWord ℓ x = ⟨p, some w, r⟩) :
    w ≠ [] ∧ (∀ c ∈ w, isWd ℓ c = true) ∧ (∀ c t, r = c :: t → isWd ℓ c = false) ∧
    (∀ c ∈ r, c ≠ '\n') := by
  simp only [sepWord, Sep.mk.injEq] at h
  obtain ⟨_, hw, hr⟩ := h
  split at hw
  · cases hw
  · rename_i hne
    simp only [Option.some.injEq] at hw
    refine ⟨?_, ?_, ?_, ?_⟩
    · rw [← hw]; simpa using hne
    · intro c hc; rw [← hw] at hc; exact mem_takeWhile_pos _ _ c hc
    · intro c t hrt
      rw [← hr] at hrt
      obtain ⟨t', ht'⟩ := head_takeWhile _ _ c t hrt
      exact head_dropWhile_not _ _ c t' ht'
    · intro c hc; rw [← hr] at hc
      have := mem_takeWhile_pos _ _ c hc
      simpa using this

/-- `sepWordREC.match(m[1] + new + m[3])` has groups `m[1]`, `new`, `m[3]` -/
theorem sepWord_rebuild (ℓ : Lang) (x p w r w' : Str) (h : sepWord ℓ x = ⟨p, some w, r⟩)
    (hne : w' ≠ []) (hall : ∀ c ∈ w', isWd ℓ c = true) :
    sepWord ℓ (p ++ w' ++ r) = ⟨p, some w', r⟩ := by
  have spec := sepWord_word_spec ℓ x p w r h
  obtain ⟨hwne, _, hrhead, hrnl⟩ := spec
  simp only [sepWord, Sep.mk.injEq] at h
  obtain ⟨hp, hw, hr⟩ := h
  have hw0 : (x.drop (skipLen (isWd ℓ) .out x)).takeWhile (isWd ℓ) = w := by
    split at hw
    · cases hw
    · simpa using hw
  -- the text after the skipped prefix starts with a word character
  have hx : ∃ c t, x.drop (skipLen (isWd ℓ) .out x) = c :: t ∧ isWd ℓ c = true := by
    cases hwc : w with
    | nil => exact absurd hwc hwne
    | cons c t =>
      rw [hwc] at hw0
      obtain ⟨t', ht'⟩ := head_takeWhile _ _ c t hw0
      refine ⟨c, t', ht', ?_⟩
      have : c ∈ (x.drop (skipLen (isWd ℓ) .out x)).takeWhile (isWd ℓ) := by rw [hw0]; simp
      exact mem_takeWhile_pos _ _ c this
  have hy : ∃ c t, w' ++ r = c :: t ∧ isWd ℓ c = true := by
    cases hc : w' with
    | nil => exact absurd hc hne
    | cons c t => exact ⟨c, t ++ r, by simp, hall c (by rw [hc]; simp)⟩
  have hk := skip_stable (isWd ℓ) (isWd_lt ℓ) x .out (w' ++ r) hx hy
  rw [hp] at hk
  have hlen : p.length = skipLen (isWd ℓ) .out x := by
    rw [← hp, List.length_take]; exact Nat.min_eq_left (skipLen_le _ _ _)
  have tw := takeWhile_append_stop (isWd ℓ) w' r hall hrhead
  have hrr : r.takeWhile (fun c => c != '\n') = r := by
    apply takeWhile_all
    intro c hc; simpa using hrnl c hc
  simp only [sepWord, List.append_assoc, hk, Sep.mk.injEq]
  rw [← hlen]
  simp only [List.take_left', List.drop_left', tw.1, tw.2, hrr, and_true, true_and]
  simp [hne]

end Pyrealb.Elision
