import Pyrealb.Model.Format
/-! Lemmas about spaces in joined texts (for C10): no doubled space, no leading space. -/
namespace Pyrealb.Format

@[simp] theorem ex_pure {ε α} (a : α) : (pure a : Except ε α) = .ok a := rfl
@[simp] theorem ex_bind_ok {ε α β} (a : α) (f : α → Except ε β) : (Except.ok a >>= f) = f a := rfl
@[simp] theorem ex_bind_err {ε α β} (e : ε) (f : α → Except ε β) : (Except.error e >>= f) = .error e := rfl
@[simp] theorem ex_map_ok {ε α β} (a : α) (f : α → β) : (f <$> (Except.ok a : Except ε α)) = .ok (f a) := rfl
@[simp] theorem ex_map_err {ε α β} (e : ε) (f : α → β) : (f <$> (Except.error e : Except ε α)) = .error e := rfl

/-- no two consecutive spaces (executable form) -/
def ndb : Str → Bool
  | [] => true
  | [_] => true
  | a :: b :: r => !(a == ' ' && b == ' ') && ndb (b :: r)

/-- declarative form: `"  "` is not an infix -/
def NoDbl (x : Str) : Prop := ¬ [' ', ' '] <:+: x

theorem ndb_iff (x : Str) : ndb x = true ↔ NoDbl x := by
  unfold NoDbl
  induction x with
  | nil => simp [ndb]
  | cons a r ih =>
    cases r with
    | nil => simp [ndb, List.infix_cons_iff]
    | cons b r =>
      rw [List.infix_cons_iff]
      simp only [ndb, Bool.and_eq_true, Bool.not_eq_true', ih]
      simp only [List.cons_prefix_cons, List.nil_prefix, and_true]
      constructor
      · rintro ⟨h1, h2⟩ h
        rcases h with ⟨ha, hb⟩ | h
        · subst ha; subst hb; simp at h1
        · exact h2 h
      · intro h
        refine ⟨?_, fun h' => h (Or.inr h')⟩
        by_cases ha : a = ' ' <;> by_cases hb : b = ' ' <;> simp_all

theorem ndb_tail {a : Char} {r : Str} (h : ndb (a :: r) = true) : ndb r = true := by
  cases r with
  | nil => rfl
  | cons b r => simp [ndb] at h; exact h.2

theorem ndb_cons {a : Char} {r : Str} (hr : ndb r = true) (h : a ≠ ' ' ∨ r.head? ≠ some ' ') :
    ndb (a :: r) = true := by
  cases r with
  | nil => rfl
  | cons b r =>
    simp only [ndb, Bool.and_eq_true, Bool.not_eq_true', hr, and_true]
    rcases h with h | h
    · simp [h]
    · have : b ≠ ' ' := by simpa using h
      simp [this]

theorem ndb_append {a b : Str} (ha : ndb a = true) (hb : ndb b = true)
    (h : a.getLast? ≠ some ' ' ∨ b.head? ≠ some ' ') : ndb (a ++ b) = true := by
  induction a with
  | nil => simpa using hb
  | cons c r ih =>
    cases r with
    | nil =>
      simp only [List.singleton_append]
      apply ndb_cons hb
      rcases h with h | h
      · left; simpa using h
      · right; exact h
    | cons d r =>
      have hr := ndb_tail ha
      have h' : (d :: r).getLast? ≠ some ' ' ∨ b.head? ≠ some ' ' := by
        rcases h with h | h
        · left; simpa [List.getLast?_cons_cons] using h
        · right; exact h
      have := ih hr h'
      simp only [List.cons_append] at this ⊢
      simp only [ndb, Bool.and_eq_true, Bool.not_eq_true'] at ha ⊢
      exact ⟨ha.1, this⟩

/-- the case map neither creates nor destroys a space -/
def SpaceOK (cm : CaseMap) : Prop := ∀ c, cm.upper c = ' ' ↔ c = ' '

theorem upperAt_cons_succ (cm : CaseMap) (a : Char) (x : Str) (i : Nat) :
    upperAt cm (a :: x) (i + 1) = a :: upperAt cm x i := by
  unfold upperAt
  simp only [List.drop_succ_cons, List.take_succ_cons]
  split <;> simp_all

theorem upperAt_zero (cm : CaseMap) (a : Char) (x : Str) : upperAt cm (a :: x) 0 = cm.upper a :: x := by
  simp [upperAt]

theorem upperAt_nil (cm : CaseMap) (i : Nat) : upperAt cm [] i = [] := by
  simp [upperAt]

theorem upperAt_head (cm : CaseMap) (h : SpaceOK cm) (x : Str) (i : Nat) :
    (upperAt cm x i).head? = some ' ' ↔ x.head? = some ' ' := by
  cases x with
  | nil => simp [upperAt_nil]
  | cons a r =>
    cases i with
    | zero => simp [upperAt_zero, h a]
    | succ i => simp [upperAt_cons_succ]

theorem upperAt_ndb (cm : CaseMap) (h : SpaceOK cm) (x : Str) (i : Nat) :
    ndb (upperAt cm x i) = ndb x := by
  induction x generalizing i with
  | nil => simp [upperAt_nil]
  | cons a r ih =>
    cases i with
    | zero =>
      rw [upperAt_zero]
      cases r with
      | nil => rfl
      | cons b r =>
        simp only [ndb]
        have e1 : (cm.upper a == ' ') = (a == ' ') := by
          rw [Bool.eq_iff_iff]; simp [h a]
        rw [e1]
    | succ i =>
      rw [upperAt_cons_succ]
      have ih' := ih i
      cases r with
      | nil => simp [upperAt_nil, ndb]
      | cons b r =>
        have hh := upperAt_head cm h (b :: r) i
        cases hu : upperAt cm (b :: r) i with
        | nil =>
          cases i with
          | zero => simp [upperAt_zero] at hu
          | succ i => simp [upperAt_cons_succ] at hu
        | cons b' r' =>
          rw [hu] at ih' hh
          simp only [ndb] at ih' ⊢
          rw [ih']
          have e1 : (b' == ' ') = (b == ' ') := by
            rw [Bool.eq_iff_iff]; simpa using hh
          rw [e1]

theorem stripLead_ndb {x : Str} (h : ndb x = true) : ndb (stripLead x) = true := by
  unfold stripLead
  split
  · exact ndb_tail h
  · exact h

theorem stripLead_head {x : Str} (h : ndb x = true) : (stripLead x).head? ≠ some ' ' := by
  unfold stripLead
  split
  · rename_i r
    cases r with
    | nil => simp
    | cons b r => simp [ndb] at h; simp [h.1]
  · rename_i hx
    cases x with
    | nil => simp
    | cons a r =>
      intro e
      simp at e
      exact hx r (by rw [e])

end Pyrealb.Format
