import Pyrealb.Lemmas.ClauseEnList
/-! Normal form of the constituent-notation pipeline (`Phrase.processTyp` + linearisation) for an arbitrary clause
    specification and arbitrary word list of one of the three shapes `affixHopping` produces. -/
namespace Pyrealb.ClauseEn

/-- the clause after passivation: subject, nominal object, prepositional complements, and the `peng` the verb reads -/
structure Mid where
  subj : ArgTok
  obj : Option ArgTok
  pl : List (Str × ArgTok)
  agr : Agr
  g : Gender
  pending : Option Agr

def ppArgs (sp : Spec) : List (Str × ArgTok) := sp.pps.map (fun pa => (pa.1, ArgTok.np pa.2))

/-- what `Phrase.passivate` makes of the clause (the declarative reading is `C04.passive_swap`) -/
def midPh (sp : Spec) (pas : Bool) : Mid :=
  if pas then
    match sp.obj with
    | some (.np a) => ⟨.np a, none, (s "by", demote (argTokOfSubj sp.subj)) :: ppArgs sp, ⟨.p3, a.n⟩, a.g, none⟩
    | some (.pro a) => ⟨.proNom a, none, (s "by", demote (argTokOfSubj sp.subj)) :: ppArgs sp, staleAgr a, .n, some (freshAgr a)⟩
    | none => ⟨.it, none, (s "by", demote (argTokOfSubj sp.subj)) :: ppArgs sp, ⟨.p3, .s⟩, .n, none⟩
  else ⟨argTokOfSubj sp.subj, sp.obj.map argTokOfObj, ppArgs sp, agrOfArg sp.subj, genderOfArg sp.subj, none⟩

def stOf (m : Mid) (ws : List Tok) : PState :=
  { sEl := [.arg m.subj, .vp], vpEl := ws.map .word ++ (objNodes m.obj ++ ppNodes m.pl),
    agr := m.agr, g := m.g, vpComma := false, pending := m.pending }

theorem ppNodes_ppArgs (sp : Spec) : sp.pps.map (fun pa => PNode.pp pa.1 (.np pa.2)) = ppNodes (ppArgs sp) := by
  simp [ppNodes, ppArgs, List.map_map, Function.comp_def]

theorem findIdx_npPro_ppNodes (pl : List (Str × ArgTok)) : findIdx (fun n => isNPPro n.ct) (ppNodes pl) = none :=
  findIdx_map_none _ _ _ (fun _ => rfl)

theorem findIdx_V_ppNodes (pl : List (Str × ArgTok)) : findIdx (fun n => n.ct == .V) (ppNodes pl) = none :=
  findIdx_map_none _ _ _ (fun _ => rfl)

theorem argTokOfSubj_ct (a : Arg) : isNPPro (argTokOfSubj a).ct = true := by cases a <;> rfl

@[simp] theorem ct_v0 : PNode.v0.ct = .V := rfl
@[simp] theorem ct_vp : PNode.vp.ct = .VP := rfl
@[simp] theorem ct_arg (a : ArgTok) : (PNode.arg a).ct = a.ct := rfl
@[simp] theorem ct_word (t : Tok) : (PNode.word t).ct = t.ct := rfl
@[simp] theorem ct_pp (p : Str) (a : ArgTok) : (PNode.pp p a).ct = .PP := rfl
@[simp] theorem ct_tag (ts : List Tok) : (PNode.tag ts).ct = .VP := rfl
@[simp] theorem ct_np (a : NPArg) : (ArgTok.np a).ct = .NP := rfl
@[simp] theorem ct_proI (a : ProArg) : (ArgTok.proI a).ct = .Pro := rfl
@[simp] theorem ct_proMe (a : ProArg) : (ArgTok.proMe a).ct = .Pro := rfl
@[simp] theorem ct_proTonic (a : ProArg) : (ArgTok.proTonic a).ct = .Pro := rfl
@[simp] theorem ct_proNom (a : ProArg) : (ArgTok.proNom a).ct = .Pro := rfl
@[simp] theorem ct_it : ArgTok.it.ct = .Pro := rfl
@[simp] theorem ct_proOfNP (a : NPArg) : (ArgTok.proOfNP a).ct = .Pro := rfl
@[simp] theorem ct_verb (l : VLemma) (f : VForm) (r : AgrRef) : (Tok.verb l f r).ct = .V := rfl
@[simp] theorem ct_cannot : Tok.cannot.ct = .Q := rfl
@[simp] theorem ct_not : Tok.not_.ct = .Adv := rfl
@[simp] theorem ct_q (x : Str) : (Tok.q x).ct = .Q := rfl

@[simp] theorem isNPPro_NP : isNPPro .NP = true := rfl
@[simp] theorem isNPPro_Pro : isNPPro .Pro = true := rfl
@[simp] theorem isNPPro_V : isNPPro .V = false := rfl
@[simp] theorem isNPPro_Q : isNPPro .Q = false := rfl
@[simp] theorem isNPPro_Adv : isNPPro .Adv = false := rfl
@[simp] theorem isNPPro_P : isNPPro .P = false := rfl
@[simp] theorem isNPPro_PP : isNPPro .PP = false := rfl
@[simp] theorem isNPPro_VP : isNPPro .VP = false := rfl
@[simp] theorem ppNodes_cons (p : Str) (a : ArgTok) (l : List (Str × ArgTok)) :
    ppNodes ((p, a) :: l) = .pp p a :: ppNodes l := rfl
@[simp] theorem ppNodes_nil : ppNodes [] = [] := rfl

theorem initPh_eq (sp : Spec) :
    initPh sp = { sEl := [.arg (argTokOfSubj sp.subj), .vp],
                  vpEl := .v0 :: (objNodes (sp.obj.map argTokOfObj) ++ ppNodes (ppArgs sp)),
                  agr := agrOfArg sp.subj, g := genderOfArg sp.subj } := by
  obtain ⟨subj, verb, t, obj, pps⟩ := sp
  cases obj <;> simp [initPh, objNodes, ppNodes, ppArgs, List.map_map, Function.comp_def]

/-- passivation and affix hopping bring the clause to the state `stOf (midPh sp pas) ws` -/
theorem mid_state (sp : Spec) (pas : Bool) (ws : List Tok) :
    processTypVerbPh ws (if pas then passivatePh (initPh sp) else initPh sp) = stOf (midPh sp pas) ws := by
  rw [initPh_eq]
  obtain ⟨subj, verb, t, obj, pps⟩ := sp
  cases pas
  · simp [processTypVerbPh, midPh, stOf, findIdx]
  · cases obj with
    | none =>
      cases subj <;>
      simp [passivatePh, processTypVerbPh, midPh, stOf, findIdx, findIdx_npPro_ppNodes, argTokOfSubj,
        demote, insertAt, objNodes]
    | some o =>
      cases o <;> cases subj <;>
      simp [passivatePh, processTypVerbPh, midPh, stOf, findIdx, argTokOfSubj, argTokOfObj, demote,
        insertAt, removeAt, objNodes]

/-! ### the declarative linearisation of the constituent notation -/

/-- a V somewhere among the words: `getIdxCtx("VP","V")` succeeds and element 0 of the VP is fronted -/
def hasV (ws : List Tok) : Bool := ws.any (fun t => t.ct == .V)

/-- subject–auxiliary inversion: the first word before the subject -/
def front (subj : ArgTok) (ws : List Tok) (compl : List Tok) : List Tok :=
  if hasV ws then ws.take 1 ++ [.arg subj] ++ ws.drop 1 ++ compl
  else [.arg subj] ++ ws ++ compl

def prepQualifies (i : Int) (p : Str) : Bool :=
  if i == .whe then Gen.ClauseEn.prepositionsWhe.contains p.str
  else if i == .whn then Gen.ClauseEn.prepositionsWhn.contains p.str
  else Gen.ClauseEn.prepositionsAll.contains p.str

/-- prefix and remaining prepositional complements of `woi/wai/whe/whn` in the constituent notation: only the FIRST
    prepositional phrase is looked at -/
def questionPPPh (i : Int) (pl : List (Str × ArgTok)) : Str × List (Str × ArgTok) :=
  match pl with
  | [] => (intPrefix i, [])
  | (p, a) :: r =>
    if prepQualifies i p then ((if i == .whe || i == .whn then intPrefix i else p ++ s " " ++ whomOrWhat i), r)
    else (intPrefix i, (p, a) :: r)

def objHuman (o : Option ArgTok) : Bool :=
  match o with
  | some (.np a) => humanGender a.g
  | some (.proMe a) => humanGender a.g
  | _ => false

/-- tokens of the clause proper in the constituent notation, before the agreement reference is resolved -/
def linPh (m : Mid) (i : Option Int) (ws : List Tok) : List Tok :=
  match i with
  | none => [.arg m.subj] ++ ws ++ (objToks m.obj ++ ppToks m.pl)
  | some .tag => .q (intPrefix .tag) :: ([.arg m.subj] ++ ws ++ (objToks m.obj ++ ppToks m.pl))
  | some .yon => front m.subj ws (objToks m.obj ++ ppToks m.pl)
  | some .how => .q (intPrefix .how) :: front m.subj ws (objToks m.obj ++ ppToks m.pl)
  | some .why => .q (intPrefix .why) :: front m.subj ws (objToks m.obj ++ ppToks m.pl)
  | some .muc => .q (intPrefix .muc) :: front m.subj ws (objToks m.obj ++ ppToks m.pl)
  | some .wos => .q (intPrefix .wos) :: (ws ++ (objToks m.obj ++ ppToks m.pl))
  | some .was => .q (intPrefix .was) :: (ws ++ (objToks m.obj ++ ppToks m.pl))
  | some .wod =>
    .q (if Gen.ClauseEn.phraseHumanObjectGetsIntValue && objHuman m.obj then s "whom" else intPrefix .wod)
      :: front m.subj ws (ppToks m.pl)
  | some .wad => .q (intPrefix .wad) :: front m.subj ws (ppToks m.pl)
  | some .woi => .q (questionPPPh .woi m.pl).1 :: front m.subj ws (objToks m.obj ++ ppToks (questionPPPh .woi m.pl).2)
  | some .wai => .q (questionPPPh .wai m.pl).1 :: front m.subj ws (objToks m.obj ++ ppToks (questionPPPh .wai m.pl).2)
  | some .whe => .q (questionPPPh .whe m.pl).1 :: front m.subj ws (objToks m.obj ++ ppToks (questionPPPh .whe m.pl).2)
  | some .whn => .q (questionPPPh .whn m.pl).1 :: front m.subj ws (objToks m.obj ++ ppToks (questionPPPh .whn m.pl).2)

/-- the `peng` the first verb reads when no promoted pronoun is pending -/
def agrPlain (m : Mid) (i : Option Int) : Agr :=
  match i with
  | some .wos | some .was => { m.agr with pe := .p3 }
  | _ => m.agr

@[simp] theorem isSubjCT_NP : isSubjCT .NP = true := rfl
@[simp] theorem isSubjCT_Pro : isSubjCT .Pro = true := rfl
@[simp] theorem isSubjCT_V : isSubjCT .V = false := rfl
@[simp] theorem isSubjCT_Q : isSubjCT .Q = false := rfl
@[simp] theorem isSubjCT_Adv : isSubjCT .Adv = false := rfl
@[simp] theorem isSubjCT_P : isSubjCT .P = false := rfl
@[simp] theorem isSubjCT_PP : isSubjCT .PP = false := rfl
@[simp] theorem isSubjCT_VP : isSubjCT .VP = false := rfl
@[simp] theorem isVerbCT_NP : isVerbCT .NP = false := rfl
@[simp] theorem isVerbCT_Pro : isVerbCT .Pro = false := rfl
@[simp] theorem isVerbCT_V : isVerbCT .V = true := rfl
@[simp] theorem isVerbCT_Q : isVerbCT .Q = false := rfl
@[simp] theorem isVerbCT_VP : isVerbCT .VP = true := rfl

theorem words_not_subj (ws : List Tok) (h : ws.all Tok.isWord = true) :
    ∀ x ∈ ws.map PNode.word, (fun n : PNode => isSubjCT n.ct) x = false := by
  intro n hn
  rcases words_ct ws h n hn with h1 | h1 | h1 | h1 <;> simp [h1]

theorem words_not_PP (ws : List Tok) (h : ws.all Tok.isWord = true) :
    ∀ x ∈ ws.map PNode.word, (fun n : PNode => n.ct == CT.PP) x = false := by
  intro n hn
  rcases words_ct ws h n hn with h1 | h1 | h1 | h1 <;> simp [h1]

theorem removeAt_append_len {α} (l1 : List α) (a : α) (l2 : List α) : removeAt (l1 ++ a :: l2) l1.length = l1 ++ l2 := by
  have := removeAt_append_length l1 (a :: l2) 0
  simpa [removeAt] using this

theorem getElem?_append_len {α} (l1 : List α) (a : α) (l2 : List α) : (l1 ++ a :: l2)[l1.length]? = some a := by
  have := getElem?_append_length l1 (a :: l2) 0
  simp at this; simp

theorem findIdx_subj_ppNodes (pl : List (Str × ArgTok)) : findIdx (fun n => isSubjCT n.ct) (ppNodes pl) = none :=
  findIdx_map_none _ _ _ (fun _ => rfl)

theorem find?_V_compl (o : Option ArgTok) (pl : List (Str × ArgTok)) :
    (objNodes o ++ ppNodes pl).find? (fun n => n.ct == .V) = none := by
  rw [List.find?_eq_none]
  intro x hx
  rcases List.mem_append.mp hx with h | h
  · cases o <;> simp [objNodes] at h
    subst h; cases ‹ArgTok› <;> simp
  · rw [ppNodes_ct pl x h]; decide

theorem findIdx_V_compl (o : Option ArgTok) (pl : List (Str × ArgTok)) :
    findIdx (fun n => n.ct == .V) (objNodes o ++ ppNodes pl) = none := by
  apply findIdx_none_of_forall
  intro x hx
  rcases List.mem_append.mp hx with h | h
  · cases o <;> simp [objNodes] at h
    subst h; cases ‹ArgTok› <;> simp
  · rw [ppNodes_ct pl x h]; decide

end Pyrealb.ClauseEn
