import Pyrealb.Lemmas.ClauseEnDepNF3
/-! The verb group and the verb-group words of the declarative linearisations: they are the words affixHopping
    returned, in their order, whatever the interrogative does around them. -/
namespace Pyrealb.ClauseEn
set_option linter.unusedSimpArgs false

/-- the verb-group words of a token list -/
def wordsOf (l : List Tok) : List Tok := l.filter Tok.isWord

theorem wordsOf_append (l1 l2 : List Tok) : wordsOf (l1 ++ l2) = wordsOf l1 ++ wordsOf l2 := List.filter_append ..

@[simp] theorem wordsOf_objToks (o : Option ArgTok) : wordsOf (objToks o) = [] := by cases o <;> rfl
@[simp] theorem wordsOf_ppToks (pl : List (Str × ArgTok)) : wordsOf (ppToks pl) = [] := by
  induction pl with
  | nil => rfl
  | cons a r ih => simpa [ppToks, wordsOf, Tok.isWord] using ih
@[simp] theorem wordsOf_arg (a : ArgTok) (l : List Tok) : wordsOf (.arg a :: l) = wordsOf l := rfl
@[simp] theorem wordsOf_q (x : Str) (l : List Tok) : wordsOf (.q x :: l) = wordsOf l := rfl
@[simp] theorem wordsOf_nil : wordsOf [] = [] := rfl

theorem wordsOf_words (ws : List Tok) (h : ws.all Tok.isWord = true) : wordsOf ws = ws := by
  unfold wordsOf
  rw [List.filter_eq_self]
  exact fun x hx => List.all_eq_true.mp h x hx

theorem take_drop_words (ws : List Tok) (h : ws.all Tok.isWord = true) :
    wordsOf (ws.take 1) ++ wordsOf (ws.drop 1) = ws := by
  rw [← wordsOf_append, List.take_append_drop, wordsOf_words ws h]

theorem wordsOf_front (sj : ArgTok) (ws compl : List Tok) (h : ws.all Tok.isWord = true) (hc : wordsOf compl = []) :
    wordsOf (front sj ws compl) = ws := by
  unfold front
  split
  · simp only [wordsOf_append, hc, List.append_nil]
    have : wordsOf [Tok.arg sj] = [] := rfl
    rw [this, List.append_nil, take_drop_words ws h]
  · simp [wordsOf_append, hc, wordsOf_words ws h]

theorem wordsOf_frontD (sj : ArgTok) (ws compl : List Tok) (h : ws.all Tok.isWord = true) (hc : wordsOf compl = []) :
    wordsOf (frontD sj ws compl) = ws := by
  unfold frontD
  have harg : wordsOf [Tok.arg sj] = [] := rfl
  split
  · simp only [wordsOf_append, hc, List.append_nil, harg]
    exact take_drop_words ws h
  · split <;> simp [wordsOf_append, hc, wordsOf_words ws h, harg]

/-- the verb-group words of the constituent linearisation are the words of the clause verb, in order -/
theorem wordsOf_linPh (m : Mid) (i : Option Int) (ws : List Tok) (h : ws.all Tok.isWord = true) :
    wordsOf (linPh m i ws) = ws := by
  have hc : ∀ o pl, wordsOf (objToks o ++ ppToks pl) = [] := by intro o pl; simp [wordsOf_append]
  cases i with
  | none => simp [linPh, wordsOf_append, wordsOf_words ws h]
  | some i =>
    cases i <;>
    simp [linPh, wordsOf_append, wordsOf_words ws h, wordsOf_front _ _ _ h (hc _ _),
      wordsOf_front _ _ _ h (wordsOf_ppToks _)]

theorem wordsOf_linDepPlain (sj : ArgTok) (obj : Option ArgTok) (ql : List (Str × ArgTok)) (i : Option Int)
    (ws L : List Tok) (h : ws.all Tok.isWord = true) (hL : linDepPlain sj obj ql i ws = some L) : wordsOf L = ws := by
  have hc : ∀ o pl, wordsOf (objToks o ++ ppToks pl) = [] := by intro o pl; simp [wordsOf_append]
  have fin : ∀ X : List Tok, wordsOf X = ws → some X = some L → wordsOf L = ws := by
    intro X hX e; injection e with e; subst e; exact hX
  cases i with
  | none => exact fin _ (by simp [wordsOf_append, wordsOf_words ws h]) hL
  | some i =>
    cases i <;> simp only [linDepPlain] at hL <;>
    first
    | exact fin _ (by simp [wordsOf_append, wordsOf_words ws h, wordsOf_frontD _ _ _ h (hc _ _),
        wordsOf_frontD _ _ _ h (wordsOf_ppToks _), wordsOf_frontD _ _ _ h (wordsOf_objToks _)]) hL
    | (split at hL
       · exact fin _ (by simp [wordsOf_append, wordsOf_words ws h, wordsOf_frontD _ _ _ h (wordsOf_objToks _)]) hL
       · cases hL)

theorem wordsOf_linDepDummy (pps bl : List (Str × ArgTok)) (i : Option Int)
    (ws L : List Tok) (h : ws.all Tok.isWord = true) (hL : linDepDummy pps bl i ws = some L) : wordsOf L = ws := by
  have fin : ∀ X : List Tok, wordsOf X = ws → some X = some L → wordsOf L = ws := by
    intro X hX e; injection e with e; subst e; exact hX
  cases i with
  | none => exact fin _ (by simp [wordsOf_append, wordsOf_words ws h]) hL
  | some i =>
    cases i <;> simp only [linDepDummy] at hL <;>
    first
    | exact fin _ (by simp [wordsOf_append, wordsOf_words ws h]) hL
    | (split at hL
       · exact fin _ (by simp [wordsOf_append, wordsOf_words ws h]) hL
       · cases hL)

theorem wordsOf_linDep (sp : Spec) (ty : Typ) (ws L : List Tok) (h : ws.all Tok.isWord = true)
    (hL : linDep sp ty ws = some L) : wordsOf L = ws := by
  unfold linDep at hL
  split at hL
  · split at hL
    · exact wordsOf_linDepPlain _ _ _ _ _ _ h hL
    · exact wordsOf_linDepPlain _ _ _ _ _ _ h hL
    · exact wordsOf_linDepDummy _ _ _ _ _ h hL
  · exact wordsOf_linDepPlain _ _ _ _ _ _ h hL

/-- resolving the agreement reference keeps the kind of every token -/
theorem isWord_resolve (a : Agr) (t : Tok) : (Tok.resolve a t).isWord = t.isWord := by
  cases t with
  | verb l f rf => cases rf <;> rfl
  | _ => rfl

theorem wordsOf_map_resolve (a : Agr) (l : List Tok) : wordsOf (l.map (Tok.resolve a)) = (wordsOf l).map (Tok.resolve a) := by
  unfold wordsOf
  rw [List.filter_map]
  congr 1
  apply List.filter_congr
  intro x _
  exact isWord_resolve a x

theorem clauseWords_all (sp : Spec) (ty : Typ) : (clauseWords sp ty).all Tok.isWord = true := by
  have hsh := words_shape sp.verb sp.t ty
  unfold wordsShape at hsh
  simp only [Bool.and_eq_true] at hsh
  exact hsh.1

end Pyrealb.ClauseEn
