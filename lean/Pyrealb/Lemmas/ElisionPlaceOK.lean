import Pyrealb.Lemmas.ElisionTree
import Pyrealb.Lemmas.ClauseFrPlaceLemmas
/-! # `PlaceOK` for the French pronoun-placement model of C05

`ClauseFr.placePronouns` (C05's model of `NonTerminalFr.doPronounPlacement`) moves the clitic pronouns that follow
the verb in front of it and inserts `ne`, the second negative word, a reflexive pronoun.  `PlaceOK` asks that no
token that a lower level elided (`l'`, `qu'`, `cet`…) be separated from the word that licenses it.  It is FALSE of
arbitrary inputs (a stale token directly followed by a clitic that is popped; a stale token just before the
insertion point); here it is proved for the closed form `ClauseFr.placedAt` (first non-auxiliary verb, loop 1
idle: `ClauseFr.place_first_verb`) under the explicit condition `PlaceCond`, whose heart is the `elided` guard of
the code: a pronoun whose realization ends with an apostrophe is never popped (`elided_clitic_not_popped`), so the
popped ones can be required to be fresh. -/
namespace Pyrealb.Elision
open Pyrealb

/-- how the tokens of the clause model are seen by `doElision`: any map that reads `lier` off the token and does
    not look at the `neg2` attribute of a verb -/
structure Embedding where
  emb : ClauseFr.Tok → Tok
  lier : ∀ t, (emb t).lier = t.lier
  verb : ∀ (x : ClauseFr.VT) (f : Str), emb (.v { x with neg2 := none } f) = emb (.v x f)

/-- the guard of `doPronounPlacement`, as C05's model mirrors it (`ClauseFr.elidedForm`: since /repo commit c4595d2
    the FIRST WORD of the realization — `sepWordREC` group 2 — ends with an apostrophe, so a tag or punctuation
    attached to the pronoun no longer hides it; before, `realization.endswith("'")`): a pronoun recognised as already
    elided is not a clitic to pop, whatever its case.  This is the link between the code's guard and `PlaceCond.pros`
    (the popped pronouns can be required to be fresh because the elided ones are never among them). -/
theorem elided_clitic_not_popped (x : ClauseFr.ProT) (f : Str) (h : ClauseFr.elidedForm f = true) :
    ClauseFr.isCliticPro x f = false :=
  ClauseFr.isCliticPro_elided x f h

/-- the same for a realization that is one bare word ending with an apostrophe (`l'`, `m'`, `s'`…), whichever version
    of the guard the repository has -/
theorem elided_bare_clitic_not_popped (x : ClauseFr.ProT) (f : Str) (hne : f ≠ [])
    (hw : ∀ c ∈ f, ClauseFr.isWordCh c = true) (h : endsWith f ['\''] = true) :
    ClauseFr.isCliticPro x f = false :=
  elided_clitic_not_popped x f (by rw [ClauseFr.elidedForm_bare f hne hw]; exact h)

/-- every pronoun that `collect` pops passed the guard: it is not recognised as elided -/
theorem popped_not_elided (l : List ClauseFr.Tok) (x : ClauseFr.ProT) (f : Str)
    (h : ClauseFr.Tok.pro x f ∈ (ClauseFr.collect l).1) : ClauseFr.elidedForm f = false := by
  have hc := ClauseFr.collect_fst_clitic l _ h
  simp only [ClauseFr.Tok.isClitic, ClauseFr.isCliticPro, Bool.and_eq_true, Bool.not_eq_eq_eq_not, Bool.not_true] at hc
  exact hc.1

/-! ### generic facts about the backward clauses -/

theorem bwd_of_fresh : ∀ (l : List Tok) (pl : Bool), (∀ t ∈ l, freshTok t = true) → bwdFromFr pl l = true := by
  intro l
  induction l with
  | nil => intro _ _; rfl
  | cons a r ih =>
    intro pl h
    cases r with
    | nil => rfl
    | cons b r' =>
      simp only [bwdFromFr, Bool.and_eq_true, Bool.or_eq_true]
      exact ⟨Or.inr (fresh_bwd a b (h a (by simp))), ih a.lier (fun t ht => h t (List.mem_cons_of_mem _ ht))⟩

theorem lastFresh_of_fresh (l : List Tok) (h : ∀ t ∈ l, freshTok t = true) : LastFresh l := by
  intro t ht
  exact h t (List.mem_of_getLast? ht)

/-- a list whose first token is fresh does not need the exemption of its first pair -/
theorem bwd_unexempt (l : List Tok) (pl : Bool) (hf : ∀ t, l.head? = some t → freshTok t = true)
    (h : bwdFromFr pl l = true) : bwdFromFr false l = true := by
  cases l with
  | nil => rfl
  | cons a r =>
    cases r with
    | nil => rfl
    | cons b r' =>
      simp only [bwdFromFr, Bool.and_eq_true, Bool.or_eq_true] at h ⊢
      exact ⟨Or.inr (fresh_bwd a b (hf a rfl)), h.2⟩

/-- the exemption flag after the list `a` (whose own first pair has flag `pl`) -/
def lastLier (pl : Bool) (a : List Tok) : Bool :=
  match a.getLast? with
  | some t => t.lier
  | none => pl

theorem lastLier_cons_cons (pl pl' : Bool) (x y : Tok) (r : List Tok) :
    lastLier pl (x :: y :: r) = lastLier pl' (y :: r) := by
  have : (y :: r).getLast? = some ((y :: r).getLast (by simp)) := List.getLast?_eq_getLast _
  simp [lastLier, List.getLast?_cons_cons, this]

/-- splitting: the part after a prefix is checked with the exemption flag of the prefix's last token -/
theorem bwd_split : ∀ (a b : List Tok) (pl : Bool), bwdFromFr pl (a ++ b) = true →
    bwdFromFr pl a = true ∧ bwdFromFr (lastLier pl a) b = true := by
  intro a
  induction a with
  | nil => intro b pl h; exact ⟨rfl, h⟩
  | cons x r ih =>
    intro b pl h
    cases r with
    | nil =>
      cases b with
      | nil => exact ⟨rfl, rfl⟩
      | cons y b' =>
        simp only [List.cons_append, List.nil_append, bwdFromFr, Bool.and_eq_true] at h
        exact ⟨rfl, by simpa [lastLier] using h.2⟩
    | cons y r' =>
      simp only [List.cons_append, bwdFromFr, Bool.and_eq_true] at h
      have := ih b x.lier (by simpa using h.2)
      refine ⟨by simp only [bwdFromFr, Bool.and_eq_true]; exact ⟨h.1, this.1⟩, ?_⟩
      rw [lastLier_cons_cons pl x.lier]; exact this.2

/-! ### `collect` (loop 2): what stays after the verb -/

/-- no stale token stands directly before a pronoun that `collect` would pop -/
def CondE (E : Embedding) : List ClauseFr.Tok → Prop
  | a :: b :: r => (b.isClitic = true → freshTok (E.emb a) = true) ∧ CondE E (b :: r)
  | _ => True

theorem condE_tail (E : Embedding) (c : ClauseFr.Tok) (r : List ClauseFr.Tok) (h : CondE E (c :: r)) : CondE E r := by
  cases r with
  | nil => trivial
  | cons b r' => exact h.2

theorem collect_head (l : List ClauseFr.Tok) :
    (ClauseFr.collect l).2.head? = l.head? ∨ ∃ c, l.head? = some c ∧ c.isClitic = true := by
  fun_induction ClauseFr.collect l
  all_goals (first | (left; simp_all +zetaDelta; done) | (right; simp_all +zetaDelta [ClauseFr.Tok.isClitic]; done))

theorem keep_step (E : Embedding) (c : ClauseFr.Tok) (rest : List ClauseFr.Tok) (pl : Bool)
    (hb : bwdFromFr pl (E.emb c :: rest.map E.emb) = true) (hc : CondE E (c :: rest))
    (ih : ∀ pl', bwdFromFr pl' (rest.map E.emb) = true → CondE E rest →
      bwdFromFr pl' ((ClauseFr.collect rest).2.map E.emb) = true) :
    bwdFromFr pl (E.emb c :: (ClauseFr.collect rest).2.map E.emb) = true := by
  have htail := bwdFrom_tail pl (E.emb c) (rest.map E.emb) hb
  have hrec := ih (E.emb c).lier htail (condE_tail E c rest hc)
  cases hA : (ClauseFr.collect rest).2 with
  | nil => rfl
  | cons h' A' =>
    rw [hA] at hrec
    simp only [List.map, bwdFromFr, Bool.and_eq_true, Bool.or_eq_true]
    refine ⟨?_, hrec⟩
    have hh := collect_head rest
    rw [hA] at hh
    rcases hh with hh | ⟨cl, hcl, hclit⟩
    · cases rest with
      | nil => simp at hh
      | cons r1 r' =>
        simp only [List.head?_cons, Option.some.injEq] at hh
        subst hh
        simp only [List.map, bwdFromFr, Bool.and_eq_true, Bool.or_eq_true] at hb
        exact hb.1
    · cases rest with
      | nil => simp at hcl
      | cons r1 r' =>
        simp only [List.head?_cons, Option.some.injEq] at hcl
        subst hcl
        exact Or.inr (fresh_bwd _ _ (hc.1 hclit))

theorem par_step (E : Embedding) (c : ClauseFr.Tok) (y : ClauseFr.ProT) (g : Str) (rest : List ClauseFr.Tok) (pl : Bool)
    (hb : bwdFromFr pl ((c :: .pro y g :: rest).map E.emb) = true) (hc : CondE E (c :: .pro y g :: rest))
    (ih : ∀ pl', bwdFromFr pl' (rest.map E.emb) = true → CondE E rest →
      bwdFromFr pl' ((ClauseFr.collect rest).2.map E.emb) = true) :
    bwdFromFr pl ((c :: .pro y g :: (ClauseFr.collect rest).2).map E.emb) = true := by
  have h1 := bwdFrom_tail pl (E.emb c) ((ClauseFr.Tok.pro y g :: rest).map E.emb) hb
  have k := keep_step E (.pro y g) rest _ h1 (condE_tail E c _ hc) ih
  simp only [List.map, bwdFromFr, Bool.and_eq_true] at hb ⊢
  exact ⟨hb.1, by simpa [List.map] using k⟩

theorem collect_bwd (E : Embedding) (l : List ClauseFr.Tok) : ∀ pl, bwdFromFr pl (l.map E.emb) = true → CondE E l →
    bwdFromFr pl ((ClauseFr.collect l).2.map E.emb) = true := by
  fun_induction ClauseFr.collect l
  all_goals (intro pl hb hc)
  case case2 rest x f h r ih =>
    have ht := bwdFrom_tail pl (E.emb (.pro x f)) (rest.map E.emb) hb
    have hl : (E.emb (.pro x f)).lier = false := by rw [E.lier]; rfl
    rw [hl] at ht
    exact bwd_mono _ pl (ih false ht (condE_tail E _ _ hc))
  case case4 rest x f h1 h2 r ih => exact keep_step E _ rest pl hb hc ih
  case case5 y g rest r ih => exact par_step E _ y g rest pl hb hc ih
  case case8 y g rest r ih => exact par_step E _ y g rest pl hb hc ih
  case case11 c rest r _ _ _ ih => exact keep_step E _ rest pl hb hc ih
  all_goals (simp_all +zetaDelta)

theorem keep_last (E : Embedding) (c : ClauseFr.Tok) (rest : List ClauseFr.Tok)
    (hc : CondE E (c :: rest)) (hl : LastFresh ((c :: rest).map E.emb))
    (ih : CondE E rest → LastFresh (rest.map E.emb) → LastFresh ((ClauseFr.collect rest).2.map E.emb)) :
    LastFresh ((c :: (ClauseFr.collect rest).2).map E.emb) := by
  cases hA : (ClauseFr.collect rest).2 with
  | nil =>
    intro t ht
    simp only [List.map, List.getLast?_singleton, Option.some.injEq] at ht
    subst ht
    cases rest with
    | nil => exact hl _ (by simp)
    | cons r1 r' =>
      have hh := collect_head (r1 :: r')
      rw [hA] at hh
      rcases hh with hh | ⟨cl, hcl, hclit⟩
      · simp at hh
      · simp only [List.head?_cons, Option.some.injEq] at hcl
        subst hcl
        exact hc.1 hclit
  | cons h' A' =>
    cases rest with
    | nil => simp [ClauseFr.collect] at hA
    | cons r1 r' =>
      have := ih (condE_tail E _ _ hc) (fun t ht => hl t (by simpa [List.getLast?_cons_cons] using ht))
      rw [hA] at this
      intro t ht
      exact this t (by simpa [List.getLast?_cons_cons] using ht)

theorem collect_lastFresh (E : Embedding) (l : List ClauseFr.Tok) : CondE E l → LastFresh (l.map E.emb) →
    LastFresh ((ClauseFr.collect l).2.map E.emb) := by
  fun_induction ClauseFr.collect l
  all_goals (intro hc hl)
  case case2 rest x f h r ih =>
    cases rest with
    | nil => exact ih trivial (by intro t ht; simp at ht)
    | cons r1 r' =>
      exact ih (condE_tail E _ _ hc) (fun t ht => hl t (by simpa [List.getLast?_cons_cons] using ht))
  case case4 rest x f h1 h2 r ih => exact keep_last E _ rest hc hl ih
  case case5 y g rest r ih =>
    have := keep_last E (.pro y g) rest (condE_tail E _ _ hc)
      (fun t ht => hl t (by simpa [List.getLast?_cons_cons] using ht)) ih
    intro t ht
    exact this t (by simpa [List.getLast?_cons_cons] using ht)
  case case8 y g rest r ih =>
    have := keep_last E (.pro y g) rest (condE_tail E _ _ hc)
      (fun t ht => hl t (by simpa [List.getLast?_cons_cons] using ht)) ih
    intro t ht
    exact this t (by simpa [List.getLast?_cons_cons] using ht)
  case case11 c rest r _ _ _ ih => exact keep_last E _ rest hc hl ih
  all_goals (simp_all +zetaDelta)

/-! ### the closed form `placedAt` -/

open ClauseFr in
/-- the exact condition under which moving the clitics keeps every elided token next to its licensing word -/
structure PlaceCond (E : Embedding) (pre post : List ClauseFr.Tok) (x : ClauseFr.VT) (f : Str) (isR : Bool)
    (pg : Option ClauseFr.VT) : Prop where
  /-- what is put next to the verb (`ne`, a second negative word, the reflexive pronoun, the popped clitics — not
      elided ones: the guard) is well-formed and fresh -/
  pros : ∀ t ∈ prosOf x isR pg (collect post).1, tokWF (E.emb t) = true ∧ freshTok (E.emb t) = true
  /-- the second negative word put after the verb -/
  pas : ∀ w, x.neg2 = some w → tokWF (E.emb (.q w)) = true ∧ freshTok (E.emb (.q w)) = true
  /-- the token before the insertion point is not a stale elided token -/
  pre : LastFresh (pre.map E.emb)
  /-- the verb itself -/
  verb : freshTok (E.emb (.v x f)) = true
  /-- no stale token directly before a pronoun that is popped -/
  adj : CondE E post
  /-- inversion (`lier`): no second negative word is inserted after the verb, and the first token that stays after
      the verb does not need the exemption -/
  inv : x.lier = true → (x.neg2 = none ∨ x.t = .b) ∧
          ∀ t, (collect post).2.head? = some t → freshTok (E.emb t) = true

theorem wf_sublist {l l' : List ClauseFr.Tok} (E : Embedding) (h : l'.Sublist l) (hw : TokWF (l.map E.emb)) :
    TokWF (l'.map E.emb) := by
  intro t ht
  obtain ⟨a, ha, rfl⟩ := List.mem_map.mp ht
  exact hw _ (List.mem_map.mpr ⟨a, h.subset ha, rfl⟩)

theorem bwd_cons_fresh (a : Tok) (l : List Tok) (pl : Bool) (hf : freshTok a = true)
    (h : bwdFromFr a.lier l = true) : bwdFromFr pl (a :: l) = true := by
  cases l with
  | nil => rfl
  | cons b r =>
    simp only [bwdFromFr, Bool.and_eq_true, Bool.or_eq_true]
    exact ⟨Or.inr (fresh_bwd a b hf), h⟩

theorem lastFresh_cons (a : Tok) (l : List Tok) (hf : freshTok a = true) (hl : LastFresh l) : LastFresh (a :: l) := by
  cases l with
  | nil => intro t ht; simp at ht; rw [← ht]; exact hf
  | cons b r => intro t ht; exact hl t (by simpa [List.getLast?_cons_cons] using ht)

theorem wf_all (l : List Tok) (h : ∀ t ∈ l, tokWF t = true) : TokWF l := h

/-- assembling `pre ++ pros ++ [verb] ++ after` -/
theorem assemble (preE P Aft : List Tok) (V : Tok)
    (w1 : TokWF preE) (w2 : TokWF P) (w3 : tokWF V = true) (w4 : TokWF Aft)
    (b1 : bwdFromFr false preE = true) (l1 : LastFresh preE) (fP : ∀ t ∈ P, freshTok t = true)
    (fV : freshTok V = true) (b4 : bwdFromFr false Aft = true) (l4 : LastFresh Aft) :
    InvIn (preE ++ P ++ [V] ++ Aft) := by
  have bVA : bwdFromFr false (V :: Aft) = true := bwd_cons_fresh V Aft false fV (bwd_mono _ _ b4)
  have lVA : LastFresh (V :: Aft) := lastFresh_cons V Aft fV l4
  have bPVA : bwdFromFr false (P ++ (V :: Aft)) = true :=
    bwd_append P (V :: Aft) false (bwd_of_fresh P false fP) (lastFresh_of_fresh P fP) bVA
  have lPVA : LastFresh (P ++ (V :: Aft)) := last_append _ _ (lastFresh_of_fresh P fP) lVA
  have e : preE ++ P ++ [V] ++ Aft = preE ++ (P ++ (V :: Aft)) := by simp
  rw [e]
  refine ⟨wf_append _ _ w1 (wf_append _ _ w2 (wf_cons V Aft w3 w4)), bwd_append preE _ false b1 l1 bPVA,
    last_append _ _ l1 lPVA⟩

/-- assembling `pre ++ [verb] ++ pros ++ after` (positive imperative) -/
theorem assemble_ip (preE P Aft : List Tok) (V : Tok)
    (w1 : TokWF preE) (w2 : TokWF P) (w3 : tokWF V = true) (w4 : TokWF Aft)
    (b1 : bwdFromFr false (preE ++ [V]) = true) (fP : ∀ t ∈ P, freshTok t = true)
    (fV : freshTok V = true) (b4 : bwdFromFr false Aft = true) (l4 : LastFresh Aft) :
    InvIn (preE ++ [V] ++ P ++ Aft) := by
  have lPV : LastFresh (preE ++ [V]) := by
    intro t ht; simp at ht; rw [← ht]; exact fV
  have bPA : bwdFromFr false (P ++ Aft) = true :=
    bwd_append P Aft false (bwd_of_fresh P false fP) (lastFresh_of_fresh P fP) b4
  have lPA : LastFresh (P ++ Aft) := last_append _ _ (lastFresh_of_fresh P fP) l4
  have e : preE ++ [V] ++ P ++ Aft = (preE ++ [V]) ++ (P ++ Aft) := by simp
  rw [e]
  refine ⟨wf_append _ _ (wf_append _ _ w1 (wf_cons V [] w3 (by intro t ht; simp at ht))) (wf_append _ _ w2 w4),
    bwd_append _ _ false b1 lPV bPA, last_append _ _ lPV lPA⟩

/-- **`PlaceOK` for C05's placement model, at the inputs that satisfy `PlaceCond`** -/
theorem placedAt_inv (E : Embedding) (pre post : List ClauseFr.Tok) (x : ClauseFr.VT) (f : Str) (isR : Bool)
    (pg : Option ClauseFr.VT)
    (hin : InvIn ((pre ++ ClauseFr.Tok.v x f :: post).map E.emb)) (hc : PlaceCond E pre post x f isR pg) :
    InvIn ((ClauseFr.placedAt pre post x f isR pg).map E.emb) := by
  obtain ⟨hwf, hbwd, hlast⟩ := hin
  rw [List.map_append, List.map_cons] at hbwd hwf hlast
  have hV' : E.emb (.v (if x.t = .b then x else { x with neg2 := none }) f) = E.emb (.v x f) := by
    split
    · rfl
    · exact E.verb x f
  have hVl : (E.emb (.v x f)).lier = x.lier := by rw [E.lier]; rfl
  -- what the input says
  have hs := bwd_split (pre.map E.emb) (E.emb (.v x f) :: post.map E.emb) false hbwd
  have hpost : bwdFromFr (E.emb (.v x f)).lier (post.map E.emb) = true := bwdFrom_tail _ _ _ hs.2
  have hA := collect_bwd E post _ hpost hc.adj
  have wPre : TokWF (pre.map E.emb) := fun t ht => hwf t (List.mem_append_left _ ht)
  have wV : tokWF (E.emb (.v x f)) = true := hwf _ (by simp)
  have wPost : TokWF (post.map E.emb) :=
    fun t ht => hwf t (List.mem_append_right _ (List.mem_cons_of_mem _ ht))
  have wA : TokWF ((ClauseFr.collect post).2.map E.emb) := wf_sublist E (ClauseFr.collect_snd_sublist post) wPost
  have lPost : LastFresh (post.map E.emb) := by
    intro t ht
    cases post with
    | nil => simp at ht
    | cons p1 pr =>
      apply hlast t
      simp only [List.map_cons] at ht ⊢
      rw [List.getLast?_append, List.getLast?_cons_cons, ht]; rfl
  have lA := collect_lastFresh E post hc.adj lPost
  -- the tokens that stay after the verb do not need the exemption of their first pair
  have hA0 : bwdFromFr false ((ClauseFr.collect post).2.map E.emb) = true := by
    cases hl : x.lier with
    | false => rw [hVl, hl] at hA; exact hA
    | true =>
      apply bwd_unexempt _ _ _ hA
      intro t ht
      cases hh : (ClauseFr.collect post).2 with
      | nil => rw [hh] at ht; simp at ht
      | cons a r =>
        rw [hh] at ht
        simp only [List.map_cons, List.head?_cons, Option.some.injEq] at ht
        rw [← ht]
        exact (hc.inv hl).2 a (by rw [hh]; rfl)
  -- the list after the verb, with the second negative word when there is one
  have hAfter : ∀ w, x.neg2 = some w → ¬ x.t = .b →
      TokWF ((ClauseFr.pyInsert (if x.lier then 1 else 0) (.q w) (ClauseFr.collect post).2).map E.emb) ∧
      bwdFromFr false ((ClauseFr.pyInsert (if x.lier then 1 else 0) (.q w) (ClauseFr.collect post).2).map E.emb) = true ∧
      LastFresh ((ClauseFr.pyInsert (if x.lier then 1 else 0) (.q w) (ClauseFr.collect post).2).map E.emb) := by
    intro w hw hb
    have hnl : x.lier = false := by
      cases hl : x.lier with
      | false => rfl
      | true =>
        rcases (hc.inv hl).1 with h | h
        · rw [hw] at h; cases h
        · exact absurd h hb
    have hq := hc.pas w hw
    have hql : (E.emb (.q w)).lier = false := by rw [E.lier]; rfl
    simp only [hnl, Bool.false_eq_true, if_false]
    have e : ClauseFr.pyInsert 0 (ClauseFr.Tok.q w) (ClauseFr.collect post).2 = .q w :: (ClauseFr.collect post).2 := by
      cases (ClauseFr.collect post).2 <;> rfl
    rw [e, List.map_cons]
    exact ⟨wf_cons _ _ hq.1 wA, bwd_cons_fresh _ _ false hq.2 (by rw [hql]; exact hA0), lastFresh_cons _ _ hq.2 lA⟩
  have wP : TokWF ((ClauseFr.prosOf x isR pg (ClauseFr.collect post).1).map E.emb) := by
    intro t ht
    obtain ⟨a, ha, rfl⟩ := List.mem_map.mp ht
    exact (hc.pros a ha).1
  have fP : ∀ t ∈ (ClauseFr.prosOf x isR pg (ClauseFr.collect post).1).map E.emb, freshTok t = true := by
    intro t ht
    obtain ⟨a, ha, rfl⟩ := List.mem_map.mp ht
    exact (hc.pros a ha).2
  have bPreV : bwdFromFr false (pre.map E.emb ++ [E.emb (.v x f)]) = true := by
    have : pre.map E.emb ++ E.emb (.v x f) :: post.map E.emb = (pre.map E.emb ++ [E.emb (.v x f)]) ++ post.map E.emb := by simp
    rw [this] at hbwd
    exact (bwd_split _ _ false hbwd).1
  unfold ClauseFr.placedAt
  cases hn : x.neg2 with
  | none =>
    by_cases htb : ClauseFr.tableFor x = .ipPos
    · simp only [htb, if_true, List.map_append, List.map_cons, List.map_nil, hV']
      exact assemble_ip _ _ _ _ wPre wP wV wA bPreV fP hc.verb hA0 lA
    · simp only [htb, if_false, List.map_append, List.map_cons, List.map_nil, hV']
      exact assemble _ _ _ _ wPre wP wV wA hs.1 hc.pre fP hc.verb hA0 lA
  | some w =>
    by_cases hb : x.t = .b
    · by_cases htb : ClauseFr.tableFor x = .ipPos
      · simp only [hb, htb, if_true, List.map_append, List.map_cons, List.map_nil]
        exact assemble_ip _ _ _ _ wPre wP wV wA bPreV fP hc.verb hA0 lA
      · simp only [hb, htb, if_true, if_false, List.map_append, List.map_cons, List.map_nil]
        exact assemble _ _ _ _ wPre wP wV wA hs.1 hc.pre fP hc.verb hA0 lA
    · obtain ⟨a1, a2, a3⟩ := hAfter w hn hb
      by_cases htb : ClauseFr.tableFor x = .ipPos
      · simp only [hb, htb, if_true, if_false, List.map_append, List.map_cons, List.map_nil, E.verb x f]
        exact assemble_ip _ _ _ _ wPre wP wV a1 bPreV fP hc.verb a2 a3
      · simp only [hb, htb, if_false, List.map_append, List.map_cons, List.map_nil, E.verb x f]
        exact assemble _ _ _ _ wPre wP wV a1 hs.1 hc.pre fP hc.verb a2 a3

/-! ### `placePronouns` at a VP node of the fold -/

/-- a node whose flattened children are (the embedding of) a clause-model token list split at its first
    non-auxiliary verb; `refl` = the clause's `typ.refl` -/
structure VPNode where
  refl : Bool
  pre : List ClauseFr.Tok
  post : List ClauseFr.Tok
  x : ClauseFr.VT
  f : Str

def VPNode.toks (nd : VPNode) : List ClauseFr.Tok := nd.pre ++ ClauseFr.Tok.v nd.x nd.f :: nd.post

/-- `place` of the fold: C05's `placePronouns` at the VP nodes, nothing elsewhere (`doPronounPlacement` is only
    called for a VP / a verbal dependent) -/
def placeC05 (E : Embedding) (nodes : Nat → Option VPNode) (id : Nat) (l : List Tok) : List Tok :=
  match nodes id with
  | none => l
  | some nd =>
    match ClauseFr.placePronouns nd.refl nd.toks with
    | .ok out => out.map E.emb
    | .error _ => l

/-- what is asked of a VP node: its list is the embedding of the clause-model tokens, `placePronouns` is in its
    closed form (`ClauseFr.place_first_verb`), and `PlaceCond` holds -/
def NodeOK (E : Embedding) (nodes : Nat → Option VPNode) (p : Nat × List Tok) : Prop :=
  match nodes p.1 with
  | none => True
  | some nd =>
    p.2 = nd.toks.map E.emb ∧ ClauseFr.OnlyAuxV nd.pre ∧ nd.x.isProg = false ∧ nd.x.isMod = false ∧
    ClauseFr.NoAuxNeg nd.toks ∧
    ∀ isR, ClauseFr.isReflexive nd.x nd.refl = .ok isR →
      PlaceCond E nd.pre nd.post nd.x nd.f isR (ClauseFr.lastProg none nd.pre)

/-- **`PlaceOK` (at the lists of the fold) for C05's `placePronouns`** -/
theorem placeOKAt_c05 (E : Embedding) (nodes : Nat → Option VPNode) (cats : List (Nat × List Tok))
    (h : ∀ p ∈ cats, NodeOK E nodes p) : PlaceOKAt (placeC05 E nodes) cats := by
  intro p hp hin
  have hn := h p hp
  unfold NodeOK at hn
  unfold placeC05
  cases hnd : nodes p.1 with
  | none => exact hin
  | some nd =>
    rw [hnd] at hn
    obtain ⟨he, h1, h2, h3, h4, h5⟩ := hn
    simp only []
    have hcf := ClauseFr.place_first_verb nd.refl nd.pre nd.post nd.x nd.f h1 h2 h3 h4
    unfold VPNode.toks
    rw [hcf]
    cases hr : ClauseFr.isReflexive nd.x nd.refl with
    | error e => simpa [Except.bind] using hin
    | ok isR =>
      simp only [Except.bind]
      rw [he] at hin
      exact placedAt_inv E nd.pre nd.post nd.x nd.f isR _ hin (h5 isR hr)

end Pyrealb.Elision
