import Pyrealb.Model.Heap
/-! # The pointer part of a store and the effect of a run of assignments on it

`Ptr` is the part of the store that `linkProperties` writes: the `peng`/`taux` slots of the nodes, the contents of the
shared records, `cod`, `subject`.  `execP` is `Heap.exec` restricted to that part, for plans made of pointer
assignments only (no allocation, no `morphoError`): the form on which absorption is proved. -/
namespace Pyrealb.Heap
open Pyrealb

/-- the pointer part of a store -/
structure Ptr where
  peng : Nat → Option Nat
  taux : Nat → Option Nat
  prec : Nat → PRec
  trec : Nat → TRec
  cod : Nat → Option Nat
  subject : Nat → Option (Option Nat)

def Heap.ptr (h : Heap) : Ptr :=
  { peng := h.peng, taux := h.taux, prec := h.prec, trec := h.trec, cod := h.cod, subject := h.subject }

/-- replace the pointer part -/
def Heap.withPtr (h : Heap) (q : Ptr) : Heap :=
  { h with peng := q.peng, taux := q.taux, prec := q.prec, trec := q.trec, cod := q.cod, subject := q.subject }

theorem Heap.withPtr_withPtr (h : Heap) (q q' : Ptr) : (h.withPtr q).withPtr q' = h.withPtr q' := rfl
@[simp] theorem Heap.ptr_withPtr (h : Heap) (q : Ptr) : (h.withPtr q).ptr = q := rfl
@[simp] theorem Heap.withPtr_ptr (h : Heap) : h.withPtr h.ptr = h := rfl

/-- assignments that only move pointers and write record fields (what every plan of the fragment consists of,
    except the allocation of CP/coord and `morphoError`) -/
def Act.pure : Act → Bool
  | .fresh _ _ => false
  | .morphoError _ => false
  | _ => true

/-- `step` on the pointer part, for a pure assignment -/
def stepP (q : Ptr) : Act → Except Crash Ptr
  | .setPeng strict x y =>
    match q.peng y with
    | some r => .ok { q with peng := upd q.peng x (some r) }
    | none => if strict then .error .attributeError else .ok q
  | .setTaux strict x y =>
    match q.taux y with
    | some r => .ok { q with taux := upd q.taux x (some r) }
    | none => if strict then .error .attributeError else .ok q
  | .writeN strict y v =>
    match q.peng y with
    | some r => .ok { q with prec := upd q.prec r { q.prec r with n := some v } }
    | none => if strict then .error .attributeError else .ok q
  | .copyG strict t y =>
    match q.peng y with
    | none => if strict then .error .attributeError else .ok q
    | some r =>
      match (q.prec r).g with
      | none => .error .keyError
      | some gv =>
        match q.peng t with
        | none => .error .attributeError
        | some rt => .ok { q with prec := upd q.prec rt { q.prec rt with g := some gv } }
  | .setCod x y => .ok { q with cod := upd q.cod x (some y) }
  | .setSubject x y => .ok { q with subject := upd q.subject x (some y) }
  | .crash c => .error c
  | _ => .ok q

def execP : Ptr → List Act → Except Crash Ptr
  | q, [] => .ok q
  | q, a :: as =>
    if a.stops q.peng then .ok q
    else
    match stepP q a with
    | .error c => .error c
    | .ok q' => execP q' as

theorem step_pure (h : Heap) (a : Act) (ha : a.pure = true) :
    step h a = (match stepP h.ptr a with | .ok q => .ok (h.withPtr q) | .error c => .error c) := by
  cases a with
  | setPeng strict x y =>
    simp only [step, stepP, Heap.ptr]
    cases h.peng y <;> cases strict <;> simp [Heap.withPtr]
  | setTaux strict x y =>
    simp only [step, stepP, Heap.ptr]
    cases h.taux y <;> cases strict <;> simp [Heap.withPtr]
  | writeN strict y v =>
    simp only [step, stepP, Heap.ptr]
    cases h.peng y <;> cases strict <;> simp [Heap.withPtr]
  | copyG strict t y =>
    simp only [step, stepP, Heap.ptr]
    cases h.peng y with
    | none => cases strict <;> simp [Heap.withPtr]
    | some r =>
      simp only
      cases (h.prec r).g with
      | none => simp
      | some gv =>
        simp only
        cases h.peng t <;> simp [Heap.withPtr]
  | fresh x i => simp [Act.pure] at ha
  | setCod x y => simp [step, stepP, Heap.ptr, Heap.withPtr]
  | setSubject x y => simp [step, stepP, Heap.ptr, Heap.withPtr]
  | morphoError x => simp [Act.pure] at ha
  | guardHas o => simp [step, stepP, Heap.ptr, Heap.withPtr]
  | crash c => simp [step, stepP]

/-- a run of pure assignments acts on the pointer part only -/
theorem exec_pure (h : Heap) (acts : List Act) (hp : ∀ a ∈ acts, a.pure = true) :
    exec h acts = (match execP h.ptr acts with | .ok q => .ok (h.withPtr q) | .error c => .error c) := by
  induction acts generalizing h with
  | nil => simp [exec, execP]
  | cons a as ih =>
    have ha := hp a List.mem_cons_self
    have has : ∀ b ∈ as, b.pure = true := fun b hb => hp b (List.mem_cons_of_mem _ hb)
    simp only [exec, execP]
    have hg : a.stops h.peng = a.stops h.ptr.peng := rfl
    rw [hg]
    split
    · simp
    · rw [step_pure h a ha]
      cases hs : stepP h.ptr a with
      | error c => simp
      | ok q =>
        simp only
        rw [ih (h.withPtr q) has, Heap.ptr_withPtr]
        cases execP q as <;> simp [Heap.withPtr_withPtr]

end Pyrealb.Heap
